/-
C20 helper lemmas: route costs and obstacle-freeness are frame-independent; a frame change is a
cost-preserving bijection between the valid routes of a scene and those of its image.
-/
import AdaptaVerif.Lemmas.FrameGeom
namespace AdaptaVerif.Lemmas.FrameRoute
open AdaptaVerif.Model.Geometry AdaptaVerif.Model.Frame
open AdaptaVerif.Lemmas.GeometrySpec AdaptaVerif.Lemmas.FrameGeom

/-! ### cost functions -/

theorem manhattanLen_act (F : Frame) (r : Route) : manhattanLen (F.actRoute r) = manhattanLen r := by
  unfold Frame.actRoute
  fun_induction manhattanLen r with
  | case1 a b rest ih =>
    simp only [List.map_cons, manhattanLen, manhattanDist_act] at ih ⊢
    rw [ih]
  | case2 r h =>
    match r, h with
    | [], _ => rfl
    | [a], _ => rfl
    | a :: b :: rest, h => exact absurd rfl (h a b rest)

theorem sqLens_act (F : Frame) (r : Route) : sqLens (F.actRoute r) = sqLens r := by
  unfold Frame.actRoute
  fun_induction sqLens r with
  | case1 a b rest ih =>
    simp only [List.map_cons, sqLens, sqDist_act] at ih ⊢
    rw [ih]
  | case2 r h =>
    match r, h with
    | [], _ => rfl
    | [a], _ => rfl
    | a :: b :: rest, h => exact absurd rfl (h a b rest)

theorem bends_act (F : Frame) (r : Route) : bends (F.actRoute r) = bends r := by
  unfold Frame.actRoute
  fun_induction bends r with
  | case1 a b c rest ih =>
    simp only [List.map_cons, bends, bendWeight_act] at ih ⊢
    rw [ih]
  | case2 r h =>
    match r, h with
    | [], _ => rfl
    | [a], _ => rfl
    | [a, b], _ => rfl
    | a :: b :: c :: rest, h => exact absurd rfl (h a b c rest)

theorem orthCost_act (F : Frame) (pen : Rat) (r : Route) : orthCost pen (F.actRoute r) = orthCost pen r := by
  simp only [orthCost, manhattanLen_act, bends_act]

theorem legs_act (F : Frame) (r : Route) :
    legs (F.actRoute r) = (legs r).map (fun l => (F.act l.1, F.act l.2)) := by
  unfold Frame.actRoute
  fun_induction legs r with
  | case1 a b rest ih =>
    simp only [List.map_cons, legs] at ih ⊢
    rw [ih]
  | case2 r h =>
    match r, h with
    | [], _ => rfl
    | [a], _ => rfl
    | a :: b :: rest, h => exact absurd rfl (h a b rest)

/-- a leg is axis-parallel iff its image is -/
theorem axisPar_iff (F : Frame) (a b : Pt) :
    ((F.act a).x = (F.act b).x ∨ (F.act a).y = (F.act b).y) ↔ (a.x = b.x ∨ a.y = b.y) := by
  rcases F with ⟨S, t⟩
  cases S <;> simp only [Frame.act, Sym.apply] <;>
    constructor <;> rintro (h | h) <;> first | (left; linarith) | (right; linarith)

theorem axisPar_act (F : Frame) (a b : Pt) :
    (decide ((F.act a).x = (F.act b).x) || decide ((F.act a).y = (F.act b).y)) =
      (decide (a.x = b.x) || decide (a.y = b.y)) := by
  apply bool_eq_of_iff
  simp only [Bool.or_eq_true, decide_eq_true_eq]
  exact axisPar_iff F a b

theorem isOrth_act (F : Frame) (r : Route) : isOrth (F.actRoute r) = isOrth r := by
  unfold Frame.actRoute
  fun_induction isOrth r with
  | case1 a b rest ih =>
    simp only [List.map_cons, isOrth, axisPar_act] at ih ⊢
    rw [ih]
  | case2 r h =>
    match r, h with
    | [], _ => rfl
    | [a], _ => rfl
    | a :: b :: rest, h => exact absurd rfl (h a b rest)

/-! ### frames are bijections on routes -/

theorem actRoute_inv_act (F : Frame) (r : Route) : F.inv.actRoute (F.actRoute r) = r := by
  unfold Frame.actRoute
  rw [List.map_map]
  conv => rhs; rw [← List.map_id r]
  exact List.map_congr_left (fun p _ => inv_act F p)

theorem actRoute_act_inv (F : Frame) (r : Route) : F.actRoute (F.inv.actRoute r) = r := by
  unfold Frame.actRoute
  rw [List.map_map]
  conv => rhs; rw [← List.map_id r]
  exact List.map_congr_left (fun p _ => act_inv F p)

/-! ### obstacle-freeness -/

theorem strictBetween_neg_add (a b c t : Rat) :
    strictBetween (-a + t) (-b + t) (-c + t) = strictBetween a b c := by
  apply bool_eq_of_iff
  simp only [strictBetween_iff]
  constructor <;> rintro (⟨h1, h2⟩ | ⟨h1, h2⟩) <;> first | (left; constructor <;> linarith) | (right; constructor <;> linarith)

theorem strictBetween_add (a b c t : Rat) :
    strictBetween (a + t) (b + t) (c + t) = strictBetween a b c := by
  apply bool_eq_of_iff
  simp only [strictBetween_iff]
  constructor <;> rintro (⟨h1, h2⟩ | ⟨h1, h2⟩) <;> first | (left; constructor <;> linarith) | (right; constructor <;> linarith)

theorem strictBetween_neg (a b c : Rat) : strictBetween (-a) (-b) (-c) = strictBetween a b c := by
  apply bool_eq_of_iff
  simp only [strictBetween_iff]
  constructor <;> rintro (⟨h1, h2⟩ | ⟨h1, h2⟩) <;> first | (left; constructor <;> linarith) | (right; constructor <;> linarith)

theorem inside_act (F : Frame) (R : Rect) (p : Pt) : (F.actRect R).inside (F.act p) = R.inside p := by
  rcases F with ⟨S, t⟩
  cases S <;> simp only [Frame.actRect, Rect.inside, Frame.act, Sym.apply, strictBetween_neg_add, strictBetween_add, strictBetween_neg] <;>
    first | rfl | exact Bool.and_comm _ _

theorem lerp_act (F : Frame) (p q : Pt) (t : Rat) : F.act (lerp p q t) = lerp (F.act p) (F.act q) t := by
  rcases F with ⟨S, u⟩
  cases S <;> simp only [Frame.act, Sym.apply, lerp, Pt.mk.injEq] <;> constructor <;> ring

theorem legAvoids_act (F : Frame) (R : Rect) (p q : Pt) :
    LegAvoids (F.actRect R) (F.act p) (F.act q) ↔ LegAvoids R p q := by
  unfold LegAvoids
  constructor <;> intro h t h0 h1 <;> have := h t h0 h1
  · rwa [← lerp_act, inside_act] at this
  · rwa [← lerp_act, inside_act]

theorem head?_act (F : Frame) (r : Route) (s : Pt) : (F.actRoute r).head? = some (F.act s) ↔ r.head? = some s := by
  cases r with
  | nil => simp [Frame.actRoute]
  | cons a r => simp [Frame.actRoute, act_eq_iff]

theorem getLast?_act (F : Frame) (r : Route) (d : Pt) :
    (F.actRoute r).getLast? = some (F.act d) ↔ r.getLast? = some d := by
  unfold Frame.actRoute
  rw [List.getLast?_map]
  cases h : r.getLast? with
  | none => simp
  | some a => simp [act_eq_iff]

/-- a route is obstacle-free in a scene iff its image is obstacle-free in the image scene -/
theorem routeValid_act (F : Frame) (sc : Scene) (s d : Pt) (r : Route) :
    RouteValid (F.actScene sc) (F.act s) (F.act d) (F.actRoute r) ↔ RouteValid sc s d r := by
  unfold RouteValid
  rw [head?_act, getLast?_act, legs_act]
  refine and_congr Iff.rfl (and_congr Iff.rfl ?_)
  simp only [Frame.actScene, List.mem_map]
  constructor
  · intro h l hl R hR
    exact (legAvoids_act F R l.1 l.2).1 (h _ ⟨l, hl, rfl⟩ _ ⟨R, hR, rfl⟩)
  · rintro h _ ⟨l, hl, rfl⟩ _ ⟨R, hR, rfl⟩
    exact (legAvoids_act F R l.1 l.2).2 (h l hl R hR)

theorem orthRouteValid_act (F : Frame) (sc : Scene) (s d : Pt) (r : Route) :
    OrthRouteValid (F.actScene sc) (F.act s) (F.act d) (F.actRoute r) ↔ OrthRouteValid sc s d r := by
  unfold OrthRouteValid
  rw [routeValid_act, isOrth_act]

/-- the optimal orthogonal routing cost is the same in every frame -/
theorem isOptOrthCost_act (F : Frame) (pen : Rat) (sc : Scene) (s d : Pt) (c : Rat) :
    IsOptOrthCost pen (F.actScene sc) (F.act s) (F.act d) c ↔ IsOptOrthCost pen sc s d c := by
  unfold IsOptOrthCost
  constructor
  · rintro ⟨⟨r, hv, hc⟩, hmin⟩
    refine ⟨⟨F.inv.actRoute r, ?_, ?_⟩, ?_⟩
    · rw [← orthRouteValid_act F, actRoute_act_inv]; exact hv
    · rw [← orthCost_act F, actRoute_act_inv]; exact hc
    · intro r' hv'
      have := hmin (F.actRoute r') ((orthRouteValid_act F sc s d r').2 hv')
      rwa [orthCost_act] at this
  · rintro ⟨⟨r, hv, hc⟩, hmin⟩
    refine ⟨⟨F.actRoute r, (orthRouteValid_act F sc s d r).2 hv, by rw [orthCost_act]; exact hc⟩, ?_⟩
    intro r' hv'
    have hv'' : OrthRouteValid sc s d (F.inv.actRoute r') := by
      rw [← orthRouteValid_act F, actRoute_act_inv]; exact hv'
    have := hmin _ hv''
    rwa [← orthCost_act F, actRoute_act_inv] at this

end AdaptaVerif.Lemmas.FrameRoute
