/-
C14 — the checkers of `Check/Drawing.lean` decide the Props of `Spec/Drawing.lean`.
Part 1: graph identity, sizes, node overlap, orthogonality, route ends.
-/
import Mathlib.Tactic.Linarith
import Mathlib.Tactic.Ring
import Mathlib.Algebra.Order.Field.Rat
import AdaptaVerif.Spec.Drawing

namespace AdaptaVerif.Lemmas.Drawing
open AdaptaVerif.Check.RouteRect AdaptaVerif.Check.Drawing AdaptaVerif.Spec.Drawing

/-! ### generic helpers -/

theorem pairwiseB_iff {α : Type} (f : α → α → Bool) (l : List α) :
    pairwiseB f l = true ↔ l.Pairwise (fun a b => f a b = true) := by
  induction l with
  | nil => simp [pairwiseB]
  | cons a l ih =>
    simp only [pairwiseB, Bool.and_eq_true, List.all_eq_true, List.pairwise_cons, ih]

theorem legsAll_iff (f : P → P → Bool) (r : List P) :
    legsAll f r = true ↔
      ∀ (i : Nat) (hi : i + 1 < r.length), f (r[i]'(Nat.lt_of_succ_lt hi)) (r[i + 1]'hi) = true := by
  induction r with
  | nil => simp [legsAll]
  | cons a rest ih =>
    cases rest with
    | nil => simp [legsAll]
    | cons b rest =>
      rw [legsAll, Bool.and_eq_true, ih]
      constructor
      · rintro ⟨hab, hrest⟩ i hi
        cases i with
        | zero => simpa using hab
        | succ j =>
          have hj : j + 1 < (b :: rest).length := by simpa [List.length_cons] using hi
          simpa using hrest j hj
      · intro h
        refine ⟨by simpa using h 0 (by simp), ?_⟩
        intro j hj
        have hi : (j + 1) + 1 < (a :: b :: rest).length := by
          simp only [List.length_cons] at hj ⊢; omega
        simpa using h (j + 1) hi

/-! ### clause 1 -/

theorem sameGraph_iff (before after : Drawing) :
    sameGraph before after = true ↔ SameGraph before after := by
  unfold sameGraph SameGraph
  simp only [Bool.and_eq_true, decide_eq_true_eq, List.isPerm_iff, and_assoc]

/-! ### clause 2 -/

theorem sizesKept_iff (before after : Drawing) :
    sizesKept before after = true ↔ SizesKept before after := by
  unfold sizesKept SizesKept
  simp only [List.all_eq_true, List.any_eq_true, Bool.and_eq_true, beq_iff_eq, and_assoc]

/-! ### clause 3 -/

theorem rectsOverlap_iff (tol : Rat) (a b : Rect) :
    rectsOverlap tol a b = true ↔ CommonInteriorPoint tol a b := by
  unfold rectsOverlap CommonInteriorPoint StrictlyInside Rect.shrink
  simp only [Bool.and_eq_true, decide_eq_true_eq]
  constructor
  · rintro ⟨⟨⟨⟨⟨⟨⟨h1, h2⟩, h3⟩, h4⟩, h5⟩, h6⟩, h7⟩, h8⟩
    -- the centre of the intersection rectangle
    refine ⟨⟨(max a.x0 b.x0 + min a.x1 b.x1) / 2, (max a.y0 b.y0 + min a.y1 b.y1) / 2⟩, ?_⟩
    have hx : max a.x0 b.x0 + tol < min a.x1 b.x1 := by
      rcases max_cases a.x0 b.x0 with ⟨e1, _⟩ | ⟨e1, _⟩ <;> rcases min_cases a.x1 b.x1 with ⟨e2, _⟩ | ⟨e2, _⟩ <;>
        rw [e1, e2] <;> assumption
    have hy : max a.y0 b.y0 + tol < min a.y1 b.y1 := by
      rcases max_cases a.y0 b.y0 with ⟨e1, _⟩ | ⟨e1, _⟩ <;> rcases min_cases a.y1 b.y1 with ⟨e2, _⟩ | ⟨e2, _⟩ <;>
        rw [e1, e2] <;> assumption
    have ax := le_max_left a.x0 b.x0
    have bx := le_max_right a.x0 b.x0
    have ax' := min_le_left a.x1 b.x1
    have bx' := min_le_right a.x1 b.x1
    have ay := le_max_left a.y0 b.y0
    have by' := le_max_right a.y0 b.y0
    have ay' := min_le_left a.y1 b.y1
    have by'' := min_le_right a.y1 b.y1
    refine ⟨⟨?_, ?_, ?_, ?_⟩, ⟨?_, ?_, ?_, ?_⟩⟩ <;> simp only <;> linarith
  · rintro ⟨p, ⟨a1, a2, a3, a4⟩, ⟨b1, b2, b3, b4⟩⟩
    refine ⟨⟨⟨⟨⟨⟨⟨?_, ?_⟩, ?_⟩, ?_⟩, ?_⟩, ?_⟩, ?_⟩, ?_⟩ <;> linarith

theorem commonInteriorPoint_symm (tol : Rat) (a b : Rect) :
    CommonInteriorPoint tol a b → CommonInteriorPoint tol b a := by
  rintro ⟨p, h1, h2⟩; exact ⟨p, h2, h1⟩

theorem noNodeOverlap_iff (tol : Rat) (d : Drawing) :
    noNodeOverlap tol d = true ↔ NoNodeOverlap tol d := by
  unfold noNodeOverlap NoNodeOverlap
  rw [pairwiseB_iff, List.pairwise_iff_getElem]
  constructor
  · intro h i j hi hj hne hc
    rcases Nat.lt_or_gt_of_ne hne with hlt | hgt
    · have := h i j hi hj hlt
      rw [Bool.not_eq_true', ← Bool.not_eq_true, rectsOverlap_iff] at this
      exact this hc
    · have := h j i hj hi hgt
      rw [Bool.not_eq_true', ← Bool.not_eq_true, rectsOverlap_iff] at this
      exact this (commonInteriorPoint_symm _ _ _ hc)
  · intro h i j hi hj hlt
    rw [Bool.not_eq_true', ← Bool.not_eq_true, rectsOverlap_iff]
    exact h i j hi hj (Nat.ne_of_lt hlt)

/-! ### clause 4 -/

theorem routeOrthogonal_iff (r : List P) :
    routeOrthogonal r = true ↔ RouteOrthogonal r := by
  unfold routeOrthogonal RouteOrthogonal
  rw [Bool.and_eq_true, decide_eq_true_eq, legsAll_iff]
  simp only [legOrth, Bool.or_eq_true, decide_eq_true_eq]

/-! ### clause 5 -/

theorem inGrown_iff (e : Rat) (r : Rect) (p : P) : inGrown e r p = true ↔ InGrown e r p := by
  unfold inGrown InGrown
  simp only [Bool.and_eq_true, decide_eq_true_eq, and_assoc]

theorem routeEndsAt_iff (e : Rat) (s t : Node) (r : List P) :
    routeEndsAt e s t r = true ↔ RouteEndsAt e s t r := by
  unfold routeEndsAt RouteEndsAt
  cases hh : r.head? with
  | none => simp
  | some a =>
    cases hl : r.getLast? with
    | none => simp
    | some z =>
      simp only [Bool.or_eq_true, Bool.and_eq_true, inGrown_iff, Option.some.injEq]
      constructor
      · intro h; exact ⟨a, z, rfl, rfl, h⟩
      · rintro ⟨a', z', rfl, rfl, h⟩; exact h

end AdaptaVerif.Lemmas.Drawing
