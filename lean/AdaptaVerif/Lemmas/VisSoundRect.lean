/-
Axis-parallel rectangles satisfy the boundary characterisation of Lemmas/VisSound.lean; soundness of
`shapeBlocks` / `firstBlocker` on rectangles.
-/
import AdaptaVerif.Lemmas.VisSound
namespace AdaptaVerif.Lemmas.VisSound
open AdaptaVerif.Model.Geometry (Pt area2)
open AdaptaVerif.Check.Route (lerp Poly)
open AdaptaVerif.Spec.Route
open AdaptaVerif.Lemmas.Route (rectPoly strictlyInside_rect_iff mul_pos_iff_left)
open AdaptaVerif.Model.Visibility

theorem pt_ext (P Q : Pt) (hx : P.x = Q.x) (hy : P.y = Q.y) : P = Q := by
  cases P; cases Q; simp_all

/-- the edge list the blocking loop walks for a rectangle: (p3,p0),(p0,p1),(p1,p2),(p2,p3) -/
def rectEdges (x0 y0 x1 y1 : Rat) : List (Pt × Pt) :=
  [(⟨x0, y0⟩, ⟨x1, y0⟩), (⟨x1, y0⟩, ⟨x1, y1⟩), (⟨x1, y1⟩, ⟨x0, y1⟩), (⟨x0, y1⟩, ⟨x0, y0⟩)]

theorem edges_rect (x0 y0 x1 y1 : Rat) :
    AdaptaVerif.Model.Geometry.edges (rectPoly x0 y0 x1 y1) = rectEdges x0 y0 x1 y1 := by
  simp [AdaptaVerif.Model.Geometry.edges, AdaptaVerif.Model.Geometry.prevs, rectPoly, rectEdges]

theorem F_rect (x0 y0 x1 y1 : Rat) (P : Pt) :
    F (⟨x0, y0⟩, ⟨x1, y0⟩) P = (x1 - x0) * (P.y - y0) ∧
    F (⟨x1, y0⟩, ⟨x1, y1⟩) P = (x1 - P.x) * (y1 - y0) ∧
    F (⟨x1, y1⟩, ⟨x0, y1⟩) P = (x1 - x0) * (y1 - P.y) ∧
    F (⟨x0, y1⟩, ⟨x0, y0⟩) P = (P.x - x0) * (y1 - y0) := by
  unfold F area2
  refine ⟨?_, ?_, ?_, ?_⟩ <;> simp <;> ring

theorem forall_rectEdges (x0 y0 x1 y1 : Rat) (p : Pt × Pt → Prop) :
    (∀ e ∈ rectEdges x0 y0 x1 y1, p e) ↔
      p (⟨x0, y0⟩, ⟨x1, y0⟩) ∧ p (⟨x1, y0⟩, ⟨x1, y1⟩) ∧ p (⟨x1, y1⟩, ⟨x0, y1⟩) ∧ p (⟨x0, y1⟩, ⟨x0, y0⟩) := by
  simp [rectEdges]

theorem rect_boundaryChar (x0 y0 x1 y1 : Rat) (hx : x0 < x1) (hy : y0 < y1) :
    BoundaryChar (rectEdges x0 y0 x1 y1) := by
  have hdx : 0 < x1 - x0 := by linarith
  have hdy : 0 < y1 - y0 := by linarith
  refine ⟨?_, ?_, ?_⟩
  · rw [forall_rectEdges]
    refine ⟨?_, ?_, ?_, ?_⟩ <;> intro h <;> simp only [Pt.mk.injEq] at h <;> (try linarith [h.1]) <;> (try linarith [h.2])
  · intro e he P hF hall
    rw [forall_rectEdges] at hall
    obtain ⟨f0, f1, f2, f3⟩ := F_rect x0 y0 x1 y1 P
    obtain ⟨a0, a1, a2, a3⟩ := hall
    rw [f0] at a0; rw [f1] at a1; rw [f2] at a2; rw [f3] at a3
    have by0 : y0 ≤ P.y := by by_contra h; have : (x1 - x0) * (P.y - y0) < 0 := mul_neg_of_pos_of_neg hdx (by linarith); linarith
    have by1 : P.y ≤ y1 := by by_contra h; have : (x1 - x0) * (y1 - P.y) < 0 := mul_neg_of_pos_of_neg hdx (by linarith); linarith
    have bx0 : x0 ≤ P.x := by by_contra h; have : (P.x - x0) * (y1 - y0) < 0 := mul_neg_of_neg_of_pos (by linarith) hdy; linarith
    have bx1 : P.x ≤ x1 := by by_contra h; have : (x1 - P.x) * (y1 - y0) < 0 := mul_neg_of_neg_of_pos (by linarith) hdy; linarith
    simp only [rectEdges, List.mem_cons, List.not_mem_nil, or_false] at he
    rcases he with rfl | rfl | rfl | rfl
    · rw [f0] at hF
      have : P.y = y0 := by rcases mul_eq_zero.mp hF with h | h <;> linarith
      refine ⟨(P.x - x0) / (x1 - x0), div_nonneg (by linarith) (le_of_lt hdx), by rw [div_le_one hdx]; linarith, ?_⟩
      apply pt_ext <;> simp only [lerp]
      · field_simp; ring
      · rw [this]; ring
    · rw [f1] at hF
      have : P.x = x1 := by rcases mul_eq_zero.mp hF with h | h <;> linarith
      refine ⟨(P.y - y0) / (y1 - y0), div_nonneg (by linarith) (le_of_lt hdy), by rw [div_le_one hdy]; linarith, ?_⟩
      apply pt_ext <;> simp only [lerp]
      · rw [this]; ring
      · field_simp; ring
    · rw [f2] at hF
      have : P.y = y1 := by rcases mul_eq_zero.mp hF with h | h <;> linarith
      refine ⟨(x1 - P.x) / (x1 - x0), div_nonneg (by linarith) (le_of_lt hdx), by rw [div_le_one hdx]; linarith, ?_⟩
      apply pt_ext <;> simp only [lerp]
      · field_simp; ring
      · rw [this]; ring
    · rw [f3] at hF
      have : P.x = x0 := by rcases mul_eq_zero.mp hF with h | h <;> linarith
      refine ⟨(y1 - P.y) / (y1 - y0), div_nonneg (by linarith) (le_of_lt hdy), by rw [div_le_one hdy]; linarith, ?_⟩
      apply pt_ext <;> simp only [lerp]
      · rw [this]; ring
      · field_simp; ring
  · intro e he
    simp only [rectEdges, List.mem_cons, List.not_mem_nil, or_false] at he
    rcases he with rfl | rfl | rfl | rfl
    · exact ⟨(⟨x0, y1⟩, ⟨x0, y0⟩), by simp [rectEdges], rfl⟩
    · exact ⟨(⟨x0, y0⟩, ⟨x1, y0⟩), by simp [rectEdges], rfl⟩
    · exact ⟨(⟨x1, y0⟩, ⟨x1, y1⟩), by simp [rectEdges], rfl⟩
    · exact ⟨(⟨x1, y1⟩, ⟨x0, y1⟩), by simp [rectEdges], rfl⟩

/-- box inequalities ⟺ all four edge functions positive -/
theorem rect_pos_iff (x0 y0 x1 y1 : Rat) (hx : x0 < x1) (hy : y0 < y1) (P : Pt) :
    (∀ e ∈ rectEdges x0 y0 x1 y1, 0 < F e P) ↔ x0 < P.x ∧ P.x < x1 ∧ y0 < P.y ∧ P.y < y1 := by
  have hdx : 0 < x1 - x0 := by linarith
  have hdy : 0 < y1 - y0 := by linarith
  rw [forall_rectEdges]
  obtain ⟨f0, f1, f2, f3⟩ := F_rect x0 y0 x1 y1 P
  rw [f0, f1, f2, f3, mul_pos_iff_left _ _ hdy, mul_pos_iff_left _ _ hdy, mul_comm (x1 - x0), mul_comm (x1 - x0),
    mul_pos_iff_left _ _ hdx, mul_pos_iff_left _ _ hdx]
  constructor
  · rintro ⟨h0, h1, h2, h3⟩; exact ⟨by linarith, by linarith, by linarith, by linarith⟩
  · rintro ⟨h0, h1, h2, h3⟩; exact ⟨by linarith, by linarith, by linarith, by linarith⟩

/-- Soundness of the per-shape loop on a rectangle: if the segment meets the open rectangle, neither end
    is strictly inside, and no corner lies in the open segment, the code reports the shape as blocking. -/
theorem shapeBlocks_rect (x0 y0 x1 y1 : Rat) (hx : x0 < x1) (hy : y0 < y1) (a b : Pt)
    (hhit : SegHits (rectPoly x0 y0 x1 y1) a b)
    (ha : ¬ StrictlyInside (rectPoly x0 y0 x1 y1) a) (hb : ¬ StrictlyInside (rectPoly x0 y0 x1 y1) b)
    (hnov : ∀ v ∈ rectPoly x0 y0 x1 y1, ∀ t : Rat, 0 < t → t < 1 → lerp a b t ≠ v) :
    shapeBlocks (rectPoly x0 y0 x1 y1) a b = true := by
  unfold shapeBlocks
  rw [edges_rect]
  obtain ⟨tm, h0, h1, hin⟩ := hhit
  rw [strictlyInside_rect_iff x0 y0 x1 y1 hx hy] at hin ha hb
  have notin : ∀ p : Pt, ¬ (x0 < p.x ∧ p.x < x1 ∧ y0 < p.y ∧ p.y < y1) → ∃ e ∈ rectEdges x0 y0 x1 y1, F e p ≤ 0 := by
    intro p hp
    by_contra hne
    apply hp
    rw [← rect_pos_iff x0 y0 x1 y1 hx hy]
    intro e he
    by_contra hle
    exact hne ⟨e, he, not_lt.mp hle⟩
  apply shapeBlocksGo_of_interior _ (rect_boundaryChar x0 y0 x1 y1 hx hy) a b tm h0 h1
  · exact (rect_pos_iff x0 y0 x1 y1 hx hy _).mpr hin
  · exact notin a ha
  · exact notin b hb
  · intro e he t ht0 ht1
    have hv : ∀ v ∈ rectPoly x0 y0 x1 y1, lerp a b t ≠ v := fun v hv => hnov v hv t ht0 ht1
    simp only [rectEdges, List.mem_cons, List.not_mem_nil, or_false] at he
    rcases he with rfl | rfl | rfl | rfl <;> exact ⟨hv _ (by simp [rectPoly]), hv _ (by simp [rectPoly])⟩

/-- `firstBlocker = none` means no non-skipped shape blocks -/
theorem firstBlockerFrom_none (skip : List Nat) (a b : Pt) :
    ∀ (shapes : List (List Pt)) (i0 : Nat), firstBlockerFrom skip a b shapes i0 = none →
      ∀ j, (h : j < shapes.length) → (i0 + j) ∉ skip → shapeBlocks shapes[j] a b = false := by
  intro shapes
  induction shapes with
  | nil => intro i0 _ j h; simp at h
  | cons s ss ih =>
    intro i0 hnone j hj hns
    unfold firstBlockerFrom at hnone
    cases j with
    | zero =>
      have hc : skip.contains i0 = false := by simpa [List.contains_iff_mem] using hns
      simp only [hc, Bool.false_eq_true, if_false] at hnone
      cases hsb : shapeBlocks s a b with
      | true => simp [hsb] at hnone
      | false => simpa using hsb
    | succ j =>
      have hj' : j < ss.length := by simpa using hj
      have hns' : (i0 + 1 + j) ∉ skip := by
        have : i0 + 1 + j = i0 + (j + 1) := by omega
        rw [this]; exact hns
      have hrest : firstBlockerFrom skip a b ss (i0 + 1) = none := by
        by_cases hc : skip.contains i0 = true
        · rw [if_pos hc] at hnone; exact hnone
        · have hc' : skip.contains i0 = false := by simpa using hc
          simp only [hc', Bool.false_eq_true, if_false] at hnone
          cases hsb : shapeBlocks s a b with
          | true => simp [hsb] at hnone
          | false => simpa [hsb] using hnone
      simpa using ih (i0 + 1) hrest j hj' hns'

end AdaptaVerif.Lemmas.VisSound
