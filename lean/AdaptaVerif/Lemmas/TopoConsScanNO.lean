/-
C13: the non-overlap constraints `NodeClose::process` pushes during the plane scan of the
`TopologyConstraints` constructor (`Model.TopoCons.scanNO`, a fold of `stepNO` over the sorted
event list) are exactly those of the closed form `Model.TopoCons.nonOverlapClosed`; the first
component of `scanNO` is the scan state of `Model.TopoCons.scan`.
-/
import AdaptaVerif.Lemmas.TopoConsScan
namespace AdaptaVerif.Lemmas.TopoConsScanNO
open AdaptaVerif.Model.TopoCons
open AdaptaVerif.Lemmas.TopoConsScan

/-! ### the first component is the scan state -/

theorem stepNO_fst (d : Nat) (acc : ScanSt × List NOC) (ev : Ev) :
    (stepNO d acc ev).1 = step d acc.1 ev := by
  cases ev <;> rfl

theorem foldl_stepNO_fst (d : Nat) : ∀ (l : List Ev) (acc : ScanSt × List NOC),
    (l.foldl (stepNO d) acc).1 = l.foldl (step d) acc.1 := by
  intro l
  induction l with
  | nil => intro acc; rfl
  | cons a l ih =>
    intro acc
    rw [List.foldl_cons, List.foldl_cons, ih, stepNO_fst]

/-- the first component of `scanNO` is exactly the scan state -/
theorem scanNO_fst (d : Nat) (tb : Ev → Nat) (nodes : List Node) (segs : List Seg) :
    (scanNO d tb nodes segs).1 = scan d tb nodes segs := by
  unfold scanNO scan
  rw [foldl_stepNO_fst]

/-! ### the second component, event by event -/

/-- what `stepNO` appends to the list of non-overlap constraints -/
def evNO (d : Nat) (st : ScanSt) : Ev → List NOC
  | .nodeClose n =>
    (match leftNb d n (st.openNodes.filter fun m => m.id != n.id) with
      | some l => [mkNOC d l n] | none => []) ++
    (match rightNb d n (st.openNodes.filter fun m => m.id != n.id) with
      | some r => [mkNOC d n r] | none => [])
  | .nodeOpen _ => []
  | .segOpen _ => []
  | .segClose _ => []

theorem stepNO_snd (d : Nat) (acc : ScanSt × List NOC) (ev : Ev) :
    (stepNO d acc ev).2 = acc.2 ++ evNO d acc.1 ev := by
  cases ev with
  | nodeClose n =>
    simp only [stepNO, evNO]
    generalize leftNb d n _ = L
    generalize rightNb d n _ = R
    cases L <;> cases R <;> simp
  | nodeOpen n => simp [stepNO, evNO]
  | segOpen s => simp [stepNO, evNO]
  | segClose s => simp [stepNO, evNO]

theorem foldl_no_mem (d : Nat) (c : NOC) : ∀ (l : List Ev) (acc : ScanSt × List NOC),
    c ∈ (l.foldl (stepNO d) acc).2 ↔
      c ∈ acc.2 ∨ ∃ p e q, l = p ++ e :: q ∧ c ∈ evNO d (p.foldl (step d) acc.1) e := by
  intro l
  induction l with
  | nil => intro acc; simp
  | cons a l ih =>
    intro acc
    rw [List.foldl_cons, ih, stepNO_snd, stepNO_fst, List.mem_append]
    constructor
    · rintro ((h | h) | ⟨p, e, q, rfl, h⟩)
      · exact Or.inl h
      · exact Or.inr ⟨[], a, l, rfl, h⟩
      · exact Or.inr ⟨a :: p, e, q, rfl, h⟩
    · rintro (h | ⟨p, e, q, hl, h⟩)
      · exact Or.inl (Or.inl h)
      · cases p with
        | nil =>
          simp only [List.nil_append, List.cons.injEq] at hl
          obtain ⟨rfl, rfl⟩ := hl
          exact Or.inl (Or.inr h)
        | cons b p =>
          simp only [List.cons_append, List.cons.injEq] at hl
          obtain ⟨rfl, rfl⟩ := hl
          exact Or.inr ⟨p, e, q, rfl, h⟩

section main
variable {d : Nat} {tb : Ev → Nat} {nodes : List Node} {segs : List Seg}
  {pre post : List Ev} {n : Node} {st : ScanSt}

/-- what the NodeClose event of `n` pushes is `nonOverlapAtClose` (as lists, not only members) -/
theorem evNO_close (sc : Scene d tb nodes segs) (hk : UniqueKeys d nodes)
    (h : Split d tb nodes segs pre (.nodeClose n) post) (hi : Inv pre st) :
    evNO d st (.nodeClose n) = nonOverlapAtClose d (bCof tb) nodes n := by
  have hN := openNodes_at_close sc h hi
  have hS : ∀ a b, a ∈ (st.openNodes.filter fun m => m.id != n.id) →
      b ∈ (st.openNodes.filter fun m => m.id != n.id) → a.r.centre d = b.r.centre d → a = b :=
    fun a b ha hb => keys_at_close sc hk (bCof tb) a b ((hN a).1 ha) ((hN b).1 hb)
  simp only [evNO, nonOverlapAtClose]
  rw [leftNb_congr d n hN hS, rightNb_congr d n hN hS]
  generalize leftNb d n _ = L
  generalize rightNb d n _ = R
  cases L <;> cases R <;> rfl

theorem scanNO_mem_iff_scene (sc : Scene d tb nodes segs) (hk : UniqueKeys d nodes) (c : NOC) :
    c ∈ (scanNO d tb nodes segs).2 ↔ c ∈ nonOverlapClosed d (bCof tb) nodes := by
  unfold scanNO
  rw [foldl_no_mem]
  simp only [nonOverlapClosed, List.mem_flatMap]
  constructor
  · rintro (h | ⟨p, e, q, hL, hx⟩)
    · cases h
    · have hsp : Split d tb nodes segs p e q := hL
      have hi := inv_of_split sc.toScene0 hsp
      cases e with
      | nodeOpen n => cases hx
      | nodeClose n =>
        rw [evNO_close sc hk hsp hi] at hx
        exact ⟨n, (mem_mkEvents_nodeClose d nodes segs n).1 hsp.ev_mem, hx⟩
      | segOpen s => cases hx
      | segClose s => cases hx
  · rintro ⟨n, hn, hx⟩
    have hmem : Ev.nodeClose n ∈ sortEvents d tb (mkEvents d nodes segs) :=
      List.mem_mergeSort.2 ((mem_mkEvents_nodeClose d nodes segs n).2 hn)
    obtain ⟨p, q, hL⟩ := List.append_of_mem hmem
    have hsp : Split d tb nodes segs p (.nodeClose n) q := hL
    refine Or.inr ⟨p, _, q, hL, ?_⟩
    rw [evNO_close sc hk hsp (inv_of_split sc.toScene0 hsp)]
    exact hx

end main

/-- The state machine pushes exactly the non-overlap constraints of the closed form (same
    hypotheses as `TopoConsScan.scan_mem_iff`). -/
theorem scanNO_mem_iff (d : Nat) (tb : Ev → Nat) (nodes : List Node) (segs : List Seg)
    (hids : nodes.Pairwise (fun a b => a.id ≠ b.id))
    (hsegs : segs.Pairwise (fun a b => ¬ (a.edge = b.edge ∧ a.idx = b.idx)))
    (hpos : ∀ n ∈ nodes, n.r.lo (conj d) < n.r.hi (conj d))
    (htbO : ∀ m ∈ nodes, ∀ n ∈ nodes, m.id ≠ n.id → tb (.nodeOpen m) ≠ tb (.nodeOpen n))
    (htbC : ∀ m ∈ nodes, ∀ n ∈ nodes, m.id ≠ n.id → tb (.nodeClose m) ≠ tb (.nodeClose n))
    (hkeys : ∀ m ∈ nodes, ∀ n ∈ nodes, m.id ≠ n.id →
      m.r.lo (conj d) < n.r.hi (conj d) → n.r.lo (conj d) < m.r.hi (conj d) →
      m.r.centre d ≠ n.r.centre d)
    (c : NOC) :
    c ∈ (scanNO d tb nodes segs).2 ↔ c ∈ nonOverlapClosed d (bCof tb) nodes :=
  scanNO_mem_iff_scene ⟨⟨hids, hsegs, hpos⟩, htbO, htbC⟩ hkeys c

end AdaptaVerif.Lemmas.TopoConsScanNO
