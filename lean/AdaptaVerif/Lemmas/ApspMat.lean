/-
C17 — matrix (`Array (Array Dist)`) read/write lemmas and the order facts about
`omin` / `oadd` used by the Floyd–Warshall proof.
-/
import AdaptaVerif.Lemmas.ApspWalk
namespace AdaptaVerif.Lemmas.Apsp
open AdaptaVerif.Model.ShortestPaths AdaptaVerif.Spec.Apsp

/-- `n × n` -/
def Mat.WF (n : Nat) (D : Mat) : Prop := D.size = n ∧ ∀ (i : Nat) (r : Array Dist), D[i]? = some r → r.size = n

theorem Mat.get_set_ne (D : Mat) (i j a b : Nat) (x : Dist) (h : a ≠ i ∨ b ≠ j) :
    (D.set i j x).get a b = D.get a b := by
  unfold Mat.get Mat.set
  rw [Array.getElem?_modify]
  by_cases hia : i = a
  · subst hia
    rw [if_pos rfl]
    cases hr : D[i]? with
    | none => rfl
    | some r =>
      simp only [Option.map_some, Option.getD_some]
      rw [Array.getElem?_setIfInBounds]
      have hjb : j ≠ b := by
        rcases h with h | h
        · exact absurd rfl h
        · exact fun e => h e.symm
      rw [if_neg hjb]
  · rw [if_neg hia]

theorem Mat.get_set_eq {n : Nat} (D : Mat) (hwf : Mat.WF n D) (i j : Nat) (x : Dist) (hi : i < n) (hj : j < n) :
    (D.set i j x).get i j = x := by
  unfold Mat.get Mat.set
  rw [Array.getElem?_modify, if_pos rfl]
  have hsz : i < D.size := by rw [hwf.1]; exact hi
  have hr : D[i]? = some D[i] := Array.getElem?_eq_getElem hsz
  rw [hr]
  simp only [Option.map_some, Option.getD_some]
  rw [Array.getElem?_setIfInBounds, if_pos rfl]
  have : j < D[i].size := by rw [hwf.2 i _ hr]; exact hj
  rw [if_pos this]
  rfl

/-- without any well-formedness: the written cell holds the new or the old value -/
theorem Mat.get_set_self (D : Mat) (i j : Nat) (x : Dist) :
    (D.set i j x).get i j = x ∨ (D.set i j x).get i j = D.get i j := by
  unfold Mat.get Mat.set
  rw [Array.getElem?_modify, if_pos rfl]
  cases hr : D[i]? with
  | none => right; rfl
  | some r =>
    simp only [Option.map_some, Option.getD_some]
    rw [Array.getElem?_setIfInBounds, if_pos rfl]
    by_cases hj : j < r.size
    · left; rw [if_pos hj]; rfl
    · right; rw [if_neg hj]
      have : r[j]? = none := Array.getElem?_eq_none (Nat.le_of_not_lt hj)
      rw [this]

theorem Mat.WF_set {n : Nat} {D : Mat} (h : Mat.WF n D) (i j : Nat) (x : Dist) : Mat.WF n (D.set i j x) := by
  unfold Mat.set
  refine ⟨by rw [Array.size_modify]; exact h.1, ?_⟩
  intro a r hr
  rw [Array.getElem?_modify] at hr
  by_cases hia : i = a
  · rw [if_pos hia] at hr
    cases hr0 : D[a]? with
    | none => rw [hr0] at hr; simp at hr
    | some r0 =>
      rw [hr0] at hr
      simp only [Option.map_some, Option.some.injEq] at hr
      rw [← hr, Array.size_setIfInBounds]
      exact h.2 a r0 hr0
  · rw [if_neg hia] at hr
    exact h.2 a r hr

theorem Mat.WF_const (n : Nat) (x : Dist) : Mat.WF n (Mat.const n x) := by
  unfold Mat.const
  refine ⟨Array.size_replicate, ?_⟩
  intro i r hr
  rw [Array.getElem?_replicate] at hr
  split at hr
  · simp only [Option.some.injEq] at hr; rw [← hr]; exact Array.size_replicate
  · cases hr

theorem Mat.get_const (n : Nat) (x : Dist) (a b : Nat) :
    (Mat.const n x).get a b = if a < n ∧ b < n then x else none := by
  unfold Mat.get Mat.const
  rw [Array.getElem?_replicate]
  by_cases ha : a < n
  · rw [if_pos ha]
    simp only [Option.getD_some]
    rw [Array.getElem?_replicate]
    by_cases hb : b < n
    · rw [if_pos hb, if_pos ⟨ha, hb⟩]; rfl
    · rw [if_neg hb, if_neg (fun h => hb h.2)]; rfl
  · rw [if_neg ha, if_neg (fun h => ha h.1)]
    simp

/-! ### order on entries -/

/-- `D[a][b]` is finite and `≤ c` -/
def leC (D : Mat) (a b : Nat) (c : Rat) : Prop := ∃ d, D.get a b = some d ∧ d ≤ c

theorem leC.mono {D : Mat} {a b : Nat} {c c' : Rat} (h : leC D a b c) (hc : c ≤ c') : leC D a b c' := by
  obtain ⟨d, hd, hdc⟩ := h
  exact ⟨d, hd, le_trans hdc hc⟩

/-- `D' ≤ D` entrywise (sentinel = +∞) -/
def Mat.Le (D' D : Mat) : Prop := ∀ a b c, leC D a b c → leC D' a b c

theorem Mat.Le.refl (D : Mat) : Mat.Le D D := fun _ _ _ h => h
theorem Mat.Le.trans {A B C : Mat} (h₁ : Mat.Le A B) (h₂ : Mat.Le B C) : Mat.Le A C :=
  fun a b c h => h₁ a b c (h₂ a b c h)

theorem omin_cases (a b : Dist) : omin a b = a ∨ omin a b = b := by
  cases a with
  | none => cases b with
    | none => left; rfl
    | some y => right; rfl
  | some x => cases b with
    | none => left; rfl
    | some y =>
      unfold omin
      by_cases h : y < x
      · right; simp [h]
      · left; simp [h]

theorem omin_le_left {a b : Dist} {x c : Rat} (ha : a = some x) (hx : x ≤ c) : ∃ z, omin a b = some z ∧ z ≤ c := by
  subst ha
  cases b with
  | none => exact ⟨x, rfl, hx⟩
  | some y =>
    unfold omin
    by_cases h : y < x
    · exact ⟨y, by simp [h], by linarith⟩
    · exact ⟨x, by simp [h], hx⟩

theorem omin_le_right {a b : Dist} {y c : Rat} (hb : b = some y) (hy : y ≤ c) : ∃ z, omin a b = some z ∧ z ≤ c := by
  subst hb
  cases a with
  | none => exact ⟨y, rfl, hy⟩
  | some x =>
    unfold omin
    by_cases h : y < x
    · exact ⟨y, by simp [h], hy⟩
    · exact ⟨x, by simp [h], by have := not_lt.mp h; linarith⟩

/-- generic: an invariant of the step is an invariant of the fold -/
theorem foldl_inv {α β : Type} (f : β → α → β) (P : β → Prop) (h : ∀ b a, P b → P (f b a)) :
    ∀ (l : List α) (b : β), P b → P (l.foldl f b) := by
  intro l
  induction l with
  | nil => intro b hb; exact hb
  | cons a rest ih => intro b hb; exact ih _ (h b a hb)

end AdaptaVerif.Lemmas.Apsp
