/-
C14 — the checkers of `Check/Drawing.lean` decide the Props of `Spec/Drawing.lean`.
Part 2: routes avoid other nodes, separation constraints, the combined checker.
-/
import Mathlib.Tactic.Linarith
import Mathlib.Tactic.Ring
import Mathlib.Algebra.Order.Field.Rat
import AdaptaVerif.Lemmas.RouteRect
import AdaptaVerif.Lemmas.Drawing

namespace AdaptaVerif.Lemmas.Drawing
open AdaptaVerif.Check.RouteRect AdaptaVerif.Check.Drawing AdaptaVerif.Spec.Drawing
open AdaptaVerif.Lemmas.RouteRect

/-! ### clause 6 -/

theorem mem_otherBoxes (s : Rat) (d : Drawing) (e : Edge) (r : Rect) :
    r ∈ otherBoxes s d e ↔ ∃ n ∈ d.nodes, n.id ≠ e.src ∧ n.id ≠ e.tgt ∧ r = n.box.shrink s := by
  unfold otherBoxes
  simp only [List.mem_map, List.mem_filter, Bool.and_eq_true, bne_iff_ne, ne_eq]
  constructor
  · rintro ⟨n, ⟨hn, h1, h2⟩, rfl⟩; exact ⟨n, hn, h1, h2, rfl⟩
  · rintro ⟨n, hn, h1, h2, rfl⟩; exact ⟨n, ⟨hn, h1, h2⟩, rfl⟩

/-- exact characterisation of `legsOk` (both directions; uses `segHitsOpenRect_iff`) -/
theorem legsOk_iff (rects : List Rect) (route : List P) :
    legsOk rects route = true ↔
      ∀ (i : Nat) (hi : i + 1 < route.length), ∀ r ∈ rects, ∀ t : Rat, 0 ≤ t → t ≤ 1 →
        ¬ StrictlyInside r (lerp (route[i]'(Nat.lt_of_succ_lt hi)) (route[i + 1]'hi) t) := by
  constructor
  · exact legsOk_sound rects route
  · intro h
    induction route with
    | nil => simp [legsOk]
    | cons a rest ih =>
      cases rest with
      | nil => simp [legsOk]
      | cons b rest =>
        rw [legsOk, Bool.and_eq_true, List.all_eq_true]
        constructor
        · intro r hr
          rw [Bool.not_eq_true', ← Bool.not_eq_true, segHitsOpenRect_iff]
          rintro ⟨t, h0, h1, hin⟩
          exact h 0 (by simp) r hr t h0 h1 (by simpa using hin)
        · apply ih
          intro j hj r hr t h0 h1
          have hi : (j + 1) + 1 < (a :: b :: rest).length := by
            simp only [List.length_cons] at hj ⊢; omega
          simpa using h (j + 1) hi r hr t h0 h1

theorem routeAvoidsOthers_iff (s : Rat) (d : Drawing) (e : Edge) :
    routeAvoidsOthers s d e = true ↔ RouteAvoidsOthers s d e := by
  unfold routeAvoidsOthers RouteAvoidsOthers
  rw [legsOk_iff]
  constructor
  · intro h n hn h1 h2 i hi t h0 h1'
    exact h i hi (n.box.shrink s) ((mem_otherBoxes s d e _).mpr ⟨n, hn, h1, h2, rfl⟩) t h0 h1'
  · intro h i hi r hr t h0 h1
    obtain ⟨n, hn, h1', h2, rfl⟩ := (mem_otherBoxes s d e r).mp hr
    exact h n hn h1' h2 i hi t h0 h1

/-! ### clause 7 -/

theorem dimHolds_iff (tol extra : Rat) (c : SepDim) (ps pt ws wt : Rat) :
    dimHolds tol extra c ps pt ws wt = true ↔ DimSat tol extra c ps pt ws wt := by
  obtain ⟨st, gt, neg, gap⟩ := c
  unfold dimHolds DimSat
  cases st <;> cases gt <;> cases neg <;>
    simp only [Bool.and_eq_true, decide_eq_true_eq, if_true, if_false, Bool.false_eq_true] <;>
    constructor <;> intro h <;>
    (first
      | (obtain ⟨h1, h2⟩ := h; constructor <;> linarith)
      | linarith)

theorem sepHolds_iff (tol extra : Rat) (d : Drawing) (sp : SepPair) :
    sepHolds tol extra d sp = true ↔ SepHolds tol extra d sp := by
  unfold sepHolds SepHolds
  cases hs : d.node? sp.src with
  | none => simp
  | some s =>
    cases ht : d.node? sp.tgt with
    | none => simp
    | some t =>
      simp only [Bool.and_eq_true, dimHolds_iff, Option.some.injEq]
      constructor
      · intro h; exact ⟨s, t, rfl, rfl, h⟩
      · rintro ⟨s', t', rfl, rfl, h⟩; exact h

theorem sepSatisfied_iff (tol extra : Rat) (d : Drawing) (seps : List SepPair) :
    sepSatisfied tol extra d seps = true ↔ SepSatisfied tol extra d seps := by
  unfold sepSatisfied SepSatisfied
  simp only [List.all_eq_true, sepHolds_iff]

/-! ### everything -/

theorem edgeEndsOk_iff (padE : Rat) (d : Drawing) (e : Edge) :
    edgeEndsOk padE d e = true ↔
      ∃ s t : Node, d.node? e.src = some s ∧ d.node? e.tgt = some t ∧ RouteEndsAt padE s t e.route := by
  unfold edgeEndsOk
  cases hs : d.node? e.src with
  | none => simp
  | some s =>
    cases ht : d.node? e.tgt with
    | none => simp
    | some t =>
      simp only [routeEndsAt_iff, Option.some.injEq]
      constructor
      · intro h; exact ⟨s, t, rfl, rfl, h⟩
      · rintro ⟨s', t', rfl, rfl, h⟩; exact h

theorem edgeOk_iff (padE shrink : Rat) (d : Drawing) (e : Edge) :
    edgeOk padE shrink d e = true ↔ EdgeOk padE shrink d e := by
  unfold edgeOk EdgeOk
  rw [Bool.and_eq_true, Bool.and_eq_true, routeOrthogonal_iff, routeAvoidsOthers_iff, edgeEndsOk_iff,
    and_assoc]

theorem cleanDrawing_iff (pr : Params) (before after : Drawing) (seps : List SepPair) :
    cleanDrawing pr before after seps = true ↔ CleanDrawing pr before after seps := by
  unfold cleanDrawing CleanDrawing
  simp only [Bool.and_eq_true, sameGraph_iff, sizesKept_iff, noNodeOverlap_iff, List.all_eq_true,
    edgeOk_iff, sepSatisfied_iff, and_assoc]

end AdaptaVerif.Lemmas.Drawing
