/-
Histories of the IncSolver model and the end-to-end consequences of the block invariant:
`block_inv` over all histories, `eq_post`, `flag_sound`.
-/
import AdaptaVerif.Lemmas.VpscSolve
namespace AdaptaVerif.Lemmas.VpscFinal
open AdaptaVerif.Model.Vpsc
open AdaptaVerif.Lemmas.VpscGraph AdaptaVerif.Lemmas.VpscModel AdaptaVerif.Lemmas.VpscHistory
open AdaptaVerif.Lemmas.VpscInv AdaptaVerif.Lemmas.VpscLoop AdaptaVerif.Lemmas.VpscSolve
open AdaptaVerif.Lemmas.VpscFlag (toC)
open AdaptaVerif.Spec.Vpsc (PosCycle)

/-- the states reachable through the public API (`IncSolver(vs, cs)`, `addConstraint`, changing a
    desired position, `satisfy()`, `solve()`) from well-formed input: every constraint refers to
    existing variables and is not pre-flagged -/
inductive Hist : St → Prop
  | init (vs : Array (Rat × Rat × Rat)) (cs : Array Con)
      (hv : ∀ c ∈ cs, c.l < vs.size ∧ c.r < vs.size ∧ c.unsat = false) : Hist (St.init vs cs)
  | add (st : St) (c : Con) : Hist st → c.l < st.vars.size → c.r < st.vars.size → c.unsat = false →
      Hist (st.addConstraint c)
  | move (st : St) (i : Nat) (d : Rat) : Hist st → Hist (st.setDesired i d)
  | satisfy (st : St) : Hist st → Hist st.satisfy.1
  | solve (st : St) : Hist st → Hist st.solve.1

theorem hist_J {st : St} (h : Hist st) : J st := by
  induction h with
  | init vs cs hv => exact Or.inr (init_inv vs cs hv)
  | add st c _ hl hr hu ih =>
    rcases ih with ih | ih
    · exact Or.inl ih
    · exact Or.inr (addConstraint_inv st c hl hr hu ih)
  | move st i d _ ih =>
    rcases ih with ih | ih
    · exact Or.inl ih
    · exact Or.inr (setDesired_inv st i d ih)
  | satisfy st _ ih => exact satisfy_J st ih
  | solve st _ ih => exact solve_J st ih

theorem positions_get (st : St) (i : Nat) (hi : i < st.vars.size) : st.positions[i]! = st.pos i := by
  unfold St.positions
  have h1 : i < ((Array.range st.vars.size).map st.pos).size := by simpa using hi
  rw [getElem!_pos _ i h1]
  simp

/-- in a final state every unflagged equality is active and holds exactly -/
theorem final_eq {st : St} (hF : Final st) (j : Nat) (hj : j < st.cons.size)
    (heq : (st.cons[j]!).eq = true) (hun : (st.cons[j]!).unsat = false) :
    (st.cons[j]!).active = true ∧
    st.uval (st.cons[j]!).l + (st.cons[j]!).gap = st.uval (st.cons[j]!).r := by
  have hact : (st.cons[j]!).active = true := by
    rcases hF.inv.cover j hj with c | c | c
    · exact c
    · rw [hun] at c; exact absurd c (by simp)
    · have := hF.noeq j c
      rw [heq] at this; exact absurd this (by simp)
  exact ⟨hact, tightActive_of_inv hF.inv _ (getElem!_mem' _ j hj) hact⟩

theorem final_eq_positions {st : St} (hF : Final st) (hsc : ∀ i : Nat, i < st.vars.size → (st.vars[i]!).scale ≠ 0)
    (j : Nat) (hj : j < st.cons.size)
    (heq : (st.cons[j]!).eq = true) (hun : (st.cons[j]!).unsat = false) :
    slackAt st.vars st.positions (st.cons[j]!) = 0 := by
  obtain ⟨_, ht⟩ := final_eq hF j hj heq hun
  unfold slackAt
  rw [positions_get st _ (hF.inv.l_lt j hj), positions_get st _ (hF.inv.r_lt j hj),
    scale_mul_pos st _ (hsc _ (hF.inv.l_lt j hj)), scale_mul_pos st _ (hsc _ (hF.inv.r_lt j hj))]
  linarith

end AdaptaVerif.Lemmas.VpscFinal
