import AdaptaVerif.Spec.Route
import Mathlib.Tactic.Linarith
import Mathlib.Tactic.Ring
import Mathlib.Tactic.FieldSimp
import Mathlib.Algebra.Order.Field.Basic
namespace AdaptaVerif.Lemmas.Route
open AdaptaVerif.Model.Geometry (Pt area2)
open AdaptaVerif.Check.Route AdaptaVerif.Spec.Route

theorem rmax_lt_iff (a b t : Rat) : rmax a b < t ↔ a < t ∧ b < t := by
  unfold rmax
  split
  · constructor
    · intro h; exact ⟨by linarith, h⟩
    · intro h; exact h.2
  · constructor
    · intro h; exact ⟨h, by linarith⟩
    · intro h; exact h.1

theorem lt_rmin_iff (a b t : Rat) : t < rmin a b ↔ t < a ∧ t < b := by
  unfold rmin
  split
  · constructor
    · intro h; exact ⟨by linarith, h⟩
    · intro h; exact h.2
  · constructor
    · intro h; exact ⟨h, by linarith⟩
    · intro h; exact h.1

theorem lower_iff (c d t : Rat) (hd : 0 < d) : -c / d < t ↔ 0 < c + t * d := by
  rw [div_lt_iff₀ hd]; constructor <;> intro h <;> linarith

theorem upper_iff (c d t : Rat) (hd : d < 0) : t < -c / d ↔ 0 < c + t * d := by
  rw [lt_div_iff_of_neg hd]; constructor <;> intro h <;> linarith

/-- `clip` decides whether the open interval (lo,hi) contains a parameter satisfying all constraints -/
theorem clip_iff (cs : List (Rat × Rat)) : ∀ lo hi : Rat,
    clip cs lo hi = true ↔ ∃ t : Rat, lo < t ∧ t < hi ∧ ∀ cd ∈ cs, 0 < cd.1 + t * cd.2 := by
  induction cs with
  | nil =>
    intro lo hi
    simp only [clip, decide_eq_true_eq, List.not_mem_nil, false_imp_iff, implies_true, and_true]
    constructor
    · intro h; exact ⟨(lo + hi) / 2, by linarith, by linarith⟩
    · rintro ⟨t, h1, h2⟩; linarith
  | cons cd cs ih =>
    intro lo hi
    obtain ⟨c, d⟩ := cd
    unfold clip
    by_cases hd : 0 < d
    · rw [if_pos hd, ih]
      constructor
      · rintro ⟨t, h1, h2, h3⟩
        rw [rmax_lt_iff] at h1
        refine ⟨t, h1.1, h2, ?_⟩
        intro cd hcd
        rcases List.mem_cons.mp hcd with rfl | h
        · exact (lower_iff c d t hd).mp h1.2
        · exact h3 cd h
      · rintro ⟨t, h1, h2, h3⟩
        refine ⟨t, (rmax_lt_iff _ _ _).mpr ⟨h1, (lower_iff c d t hd).mpr (h3 (c, d) List.mem_cons_self)⟩, h2, ?_⟩
        intro cd hcd; exact h3 cd (List.mem_cons_of_mem _ hcd)
    · rw [if_neg hd]
      by_cases hd' : d < 0
      · rw [if_pos hd', ih]
        constructor
        · rintro ⟨t, h1, h2, h3⟩
          rw [lt_rmin_iff] at h2
          refine ⟨t, h1, h2.1, ?_⟩
          intro cd hcd
          rcases List.mem_cons.mp hcd with rfl | h
          · exact (upper_iff c d t hd').mp h2.2
          · exact h3 cd h
        · rintro ⟨t, h1, h2, h3⟩
          refine ⟨t, h1, (lt_rmin_iff _ _ _).mpr ⟨h2, (upper_iff c d t hd').mpr (h3 (c, d) List.mem_cons_self)⟩, ?_⟩
          intro cd hcd; exact h3 cd (List.mem_cons_of_mem _ hcd)
      · rw [if_neg hd']
        have hd0 : d = 0 := by linarith [not_lt.mp hd, not_lt.mp hd']
        subst hd0
        simp only [Bool.and_eq_true, decide_eq_true_eq, ih]
        constructor
        · rintro ⟨hc, t, h1, h2, h3⟩
          refine ⟨t, h1, h2, ?_⟩
          intro cd hcd
          rcases List.mem_cons.mp hcd with rfl | h
          · simpa using hc
          · exact h3 cd h
        · rintro ⟨t, h1, h2, h3⟩
          have := h3 (c, 0) List.mem_cons_self
          refine ⟨by simpa using this, t, h1, h2, ?_⟩
          intro cd hcd; exact h3 cd (List.mem_cons_of_mem _ hcd)


/-! ### the affine constraint of an edge along a segment -/

theorem area2_lerp (a b p q : Pt) (t : Rat) :
    area2 a b (lerp p q t) = area2 a b p + t * (area2 a b q - area2 a b p) := by
  unfold area2 lerp; ring

theorem lerp_zero (p q : Pt) : lerp p q 0 = p := by
  cases p; simp [lerp]

theorem lerp_one (p q : Pt) : lerp p q 1 = q := by
  cases p; cases q; simp [lerp]

theorem constraint_iff (s tol : Rat) (p q : Pt) (e : Pt × Pt) (t : Rat) :
    0 < (edgeConstraint s tol p q e).1 + t * (edgeConstraint s tol p q e).2 ↔
      tol * l1 e.1 e.2 < s * area2 e.1 e.2 (lerp p q t) := by
  unfold edgeConstraint
  rw [area2_lerp]
  constructor <;> intro h <;> nlinarith [h]

theorem insideEdges_iff (s tol : Rat) (es : List (Pt × Pt)) (p : Pt) :
    insideEdges s tol es p = true ↔ ∀ e ∈ es, tol * l1 e.1 e.2 < s * area2 e.1 e.2 p := by
  unfold insideEdges
  simp only [List.all_eq_true, decide_eq_true_eq]

theorem insideBy_iff (s tol : Rat) (poly : Poly) (p : Pt) :
    insideBy s tol poly p = true ↔ InsideOriented s tol poly p := by
  unfold insideBy InsideOriented
  simp only [Bool.and_eq_true, decide_eq_true_eq, insideEdges_iff]

theorem strictlyInsideTol_iff (tol : Rat) (poly : Poly) (p : Pt) :
    strictlyInsideTol tol poly p = true ↔ InsideBy tol poly p := by
  unfold strictlyInsideTol InsideBy
  simp only [Bool.or_eq_true, insideBy_iff]

theorem strictlyInside_iff (poly : Poly) (p : Pt) :
    strictlyInside poly p = true ↔ StrictlyInside poly p :=
  strictlyInsideTol_iff 0 poly p

/-- all constraints of the polygon hold at parameter t  ⟺  the point at t is inside -/
theorem constraints_iff (s tol : Rat) (poly : Poly) (p q : Pt) (t : Rat) :
    (∀ cd ∈ (polyEdges poly).map (edgeConstraint s tol p q), 0 < cd.1 + t * cd.2) ↔
      ∀ e ∈ polyEdges poly, tol * l1 e.1 e.2 < s * area2 e.1 e.2 (lerp p q t) := by
  constructor
  · intro h e he
    exact (constraint_iff s tol p q e t).mp (h _ (List.mem_map_of_mem he))
  · intro h cd hcd
    obtain ⟨e, he, rfl⟩ := List.mem_map.mp hcd
    exact (constraint_iff s tol p q e t).mpr (h e he)

/-- a constraint violated at both ends of the segment is violated on the whole segment -/
theorem quickReject_sound (cs : List (Rat × Rat)) (h : quickReject cs = true) (t : Rat)
    (h0 : 0 ≤ t) (h1 : t ≤ 1) : ¬ ∀ cd ∈ cs, 0 < cd.1 + t * cd.2 := by
  unfold quickReject at h
  simp only [List.any_eq_true, Bool.and_eq_true, decide_eq_true_eq] at h
  obtain ⟨cd, hcd, hc0, hc1⟩ := h
  intro hall
  have := hall cd hcd
  nlinarith [mul_nonneg h0 (neg_nonneg.mpr hc1), mul_nonneg (sub_nonneg.mpr h1) (neg_nonneg.mpr hc0)]

theorem segHitsOriented_iff (s tol : Rat) (poly : Poly) (p q : Pt) :
    segHitsOriented s tol poly p q = true ↔
      ∃ t : Rat, 0 ≤ t ∧ t ≤ 1 ∧ InsideOriented s tol poly (lerp p q t) := by
  unfold segHitsOriented
  simp only [Bool.and_eq_true, Bool.not_eq_true', Bool.or_eq_true, insideBy_iff, decide_eq_true_eq, clip_iff]
  constructor
  · rintro ⟨_, (hp | hq) | ⟨hlen, t, ht0, ht1, hc⟩⟩
    · exact ⟨0, le_refl _, by norm_num, by rw [lerp_zero]; exact hp⟩
    · exact ⟨1, by norm_num, le_refl _, by rw [lerp_one]; exact hq⟩
    · exact ⟨t, le_of_lt ht0, le_of_lt ht1, hlen, (constraints_iff s tol poly p q t).mp hc⟩
  · rintro ⟨t, ht0, ht1, hlen, hin⟩
    have hc := (constraints_iff s tol poly p q t).mpr hin
    refine ⟨?_, ?_⟩
    · by_contra hq
      have hq' : quickReject ((polyEdges poly).map (edgeConstraint s tol p q)) = true := by
        cases h : quickReject ((polyEdges poly).map (edgeConstraint s tol p q)) <;> simp_all
      exact quickReject_sound _ hq' t ht0 ht1 hc
    · by_cases h0 : t = 0
      · subst h0; left; left; rw [lerp_zero] at hin; exact ⟨hlen, hin⟩
      · by_cases h1 : t = 1
        · subst h1; left; right; rw [lerp_one] at hin; exact ⟨hlen, hin⟩
        · right
          exact ⟨hlen, t, lt_of_le_of_ne ht0 (Ne.symm h0), lt_of_le_of_ne ht1 h1, hc⟩

theorem segHitsInteriorTol_iff (tol : Rat) (poly : Poly) (p q : Pt) :
    segHitsInteriorTol tol poly p q = true ↔ SegHitsTol tol poly p q := by
  unfold segHitsInteriorTol SegHitsTol InsideBy
  simp only [Bool.or_eq_true, segHitsOriented_iff]
  constructor
  · rintro (⟨t, h0, h1, h⟩ | ⟨t, h0, h1, h⟩)
    · exact ⟨t, h0, h1, Or.inl h⟩
    · exact ⟨t, h0, h1, Or.inr h⟩
  · rintro ⟨t, h0, h1, h | h⟩
    · exact Or.inl ⟨t, h0, h1, h⟩
    · exact Or.inr ⟨t, h0, h1, h⟩

theorem segHitsInterior_iff (poly : Poly) (p q : Pt) :
    segHitsInterior poly p q = true ↔ SegHits poly p q :=
  segHitsInteriorTol_iff 0 poly p q

/-! ### margins: a deeper hit is a hit -/

theorem rabs_nonneg (r : Rat) : 0 ≤ rabs r := by
  unfold rabs; split <;> linarith

theorem l1_nonneg (a b : Pt) : 0 ≤ l1 a b := by
  unfold l1; linarith [rabs_nonneg (b.x - a.x), rabs_nonneg (b.y - a.y)]

theorem insideOriented_mono (s tol : Rat) (htol : 0 ≤ tol) (poly : Poly) (p : Pt)
    (h : InsideOriented s tol poly p) : InsideOriented s 0 poly p := by
  refine ⟨h.1, fun e he => ?_⟩
  have := h.2 e he
  nlinarith [mul_nonneg htol (l1_nonneg e.1 e.2)]

theorem segHitsTol_segHits (tol : Rat) (htol : 0 ≤ tol) (poly : Poly) (p q : Pt)
    (h : SegHitsTol tol poly p q) : SegHits poly p q := by
  obtain ⟨t, h0, h1, hin⟩ := h
  refine ⟨t, h0, h1, ?_⟩
  rcases hin with hin | hin
  · exact Or.inl (insideOriented_mono 1 tol htol poly _ hin)
  · exact Or.inr (insideOriented_mono (-1) tol htol poly _ hin)

/-! ### routes -/

theorem legHitsAny_iff (tol : Rat) (excl : List Nat) (l : Pt × Pt) :
    ∀ (shapes : List Poly) (i0 : Nat), legHitsAny tol excl shapes i0 l = true ↔
      ∃ j, ∃ h : j < shapes.length, (i0 + j) ∉ excl ∧ SegHitsTol tol shapes[j] l.1 l.2 := by
  intro shapes
  induction shapes with
  | nil => intro i0; simp [legHitsAny]
  | cons s ss ih =>
    intro i0
    unfold legHitsAny
    simp only [Bool.or_eq_true, Bool.and_eq_true, Bool.not_eq_true', ih, segHitsInteriorTol_iff]
    constructor
    · rintro (⟨hex, hh⟩ | ⟨j, hj, hne, hh⟩)
      · refine ⟨0, by simp, ?_, by simpa using hh⟩
        simpa [List.contains_iff_mem] using hex
      · refine ⟨j + 1, by simpa using hj, ?_, by simpa using hh⟩
        have : i0 + (j + 1) = i0 + 1 + j := by omega
        rw [this]; exact hne
    · rintro ⟨j, hj, hne, hh⟩
      cases j with
      | zero =>
        left
        refine ⟨?_, by simpa using hh⟩
        simpa [List.contains_iff_mem] using hne
      | succ j =>
        right
        refine ⟨j, by simpa using hj, ?_, by simpa using hh⟩
        have : i0 + 1 + j = i0 + (j + 1) := by omega
        rw [this]; exact hne

theorem legUnblocked_iff (tol : Rat) (excl : List Nat) (shapes : List Poly) (l : Pt × Pt) :
    legHitsAny tol excl shapes 0 l = false ↔ UnblockedTol tol shapes excl l.1 l.2 := by
  rw [← Bool.not_eq_true, legHitsAny_iff]
  unfold UnblockedTol
  constructor
  · intro h i hi hne hh
    exact h ⟨i, hi, by simpa using hne, hh⟩
  · rintro h ⟨j, hj, hne, hh⟩
    exact h j hj (by simpa using hne) hh

theorem routeValid_iff (shapes : List Poly) (excl : List Nat) (src dst : Pt) (route : List Pt) (tol : Rat) :
    routeValid shapes excl src dst route tol = true ↔ RouteValidTol tol shapes excl src dst route := by
  unfold routeValid RouteValidTol
  simp only [Bool.and_eq_true, decide_eq_true_eq, List.all_eq_true, Bool.not_eq_true', legUnblocked_iff]
  constructor
  · rintro ⟨⟨⟨h1, h2⟩, h3⟩, h4⟩; exact ⟨h1, h2, h3, h4⟩
  · rintro ⟨h1, h2, h3, h4⟩; exact ⟨⟨⟨h1, h2⟩, h3⟩, h4⟩

theorem unblockedTol_zero (shapes : List Poly) (excl : List Nat) (p q : Pt) :
    UnblockedTol 0 shapes excl p q ↔ Unblocked shapes excl p q := Iff.rfl

theorem routeValidTol_zero (shapes : List Poly) (excl : List Nat) (src dst : Pt) (route : List Pt) :
    RouteValidTol 0 shapes excl src dst route ↔ RouteValid shapes excl src dst route := Iff.rfl

theorem routeValid_routeValidTol (tol : Rat) (htol : 0 ≤ tol) (shapes : List Poly) (excl : List Nat)
    (src dst : Pt) (route : List Pt) (h : RouteValid shapes excl src dst route) :
    RouteValidTol tol shapes excl src dst route := by
  obtain ⟨h1, h2, h3, h4⟩ := h
  refine ⟨h1, h2, h3, fun l hl i hi hne hh => ?_⟩
  exact h4 l hl i hi hne (segHitsTol_segHits tol htol _ _ _ hh)

end AdaptaVerif.Lemmas.Route
