/-
C17 — bridge for the relax loop of `dijkstra(s, vs, d)` (cola/libcola/shortest_paths.h) as GENERATED into
`Gen/DijkstraRelaxK.lean` (a fragment: the `for` over `u`'s neighbours; `Node<T>*` = index into `vs`, the pairing heap
abstract with `decreaseKey` as a parameter): instantiated with the model's heap it is the fold of
`Model.ShortestPaths.relaxEdgeH u` over the adjacency list `adj es u` — the loop `dijkstraHeapLoop` performs after every
`extractMin`, which `dijkstraHeap_correct` is about — and it leaves the adjacency vectors alone.
-/
import AdaptaVerif.Gen.DijkstraRelaxK
import AdaptaVerif.Lemmas.GenLoopBridge
import AdaptaVerif.Lemmas.ShortestPathsBridge
namespace AdaptaVerif.Lemmas.DijkstraRelaxBridge
open AdaptaVerif.Gen AdaptaVerif.Gen.DijkstraRelaxK AdaptaVerif.Gen.KeysShortest
open AdaptaVerif.Model.ShortestPaths AdaptaVerif.Model.PairingHeap AdaptaVerif.Lemmas.GenLoopBridge

/-- the tentative distances `vs[i].d` as the model's vector -/
def dOf (vs : Array NodeK) : Vec := vs.map (·.d)

theorem dOf_at (vs : Array NodeK) (k : Nat) : (dOf vs).at k = (aget vs k).d := by
  unfold dOf Vec.at aget
  by_cases h : k < vs.size
  · simp [h]
  · simp [h]; rfl

theorem dOf_aset (vs : Array NodeK) (v : Nat) (x : NodeK) : dOf (aset vs v x) = (dOf vs).setIfInBounds v x.d := by
  unfold dOf aset
  apply Array.ext_getElem?
  intro k
  simp [Array.getElem?_setIfInBounds, Array.getElem?_map]

theorem ltDist_oadd (a w : Rat) (d : Dist) : ltDist (oadd (some a) (some w)) d = gtD d (a + w) := by
  cases d <;> simp [ltDist, gtD, oadd]

/-- one iteration of the relax loop on the generated state `(Q, vs)` for the neighbour entry `(v, w)` -/
def stepG {H : Type} (u : Nat) (decKey : H → Nat → Array NodeK → H) (s : H × Array NodeK) (vw : Nat × Dist) : H × Array NodeK :=
  if ((aget s.2 u).d != (none : Dist)) && ltDist (oadd (aget s.2 u).d vw.2) (aget s.2 vw.1).d then
    (decKey s.1 vw.1 (aset s.2 vw.1 { (aget s.2 vw.1) with d := oadd (aget s.2 u).d vw.2 }),
     aset s.2 vw.1 { (aget s.2 vw.1) with d := oadd (aget s.2 u).d vw.2 })
  else s

theorem body_eq {H : Type} (u : Nat) (decKey : H → Nat → Array NodeK → H) (i : Nat) (s : H × Array NodeK) :
    dijkstra_relax_body1 u decKey i s =
      stepG u decKey s ((aget s.2 u).neighbours.getD i default, (aget s.2 u).nweights.getD i default) := by
  unfold dijkstra_relax_body1 stepG
  rfl

/-- `decKeyM` (Gen/KeysShortest.lean): `decreaseKey` reads the new key from the node (`v->d`) -/
theorem decKeyM_eq (h : PTree Dist) (v : Nat) (vs : Array NodeK) : decKeyM h v vs = decreaseKey ltDist h v (aget vs v).d := rfl

/-- projection of the generated state to the model's `(d, heap)` -/
def proj (s : PTree Dist × Array NodeK) : Vec × PTree Dist := (dOf s.2, s.1)

theorem step_proj (u : Nat) (s : PTree Dist × Array NodeK) (v : Nat) (w : Rat) (hv : v < s.2.size) :
    proj (stepG u decKeyM s (v, some w)) = relaxEdgeH u (proj s) (v, w) := by
  unfold relaxEdgeH proj
  simp only [dOf_at]
  cases hu : (aget s.2 u).d with
  | none => simp [stepG, hu]
  | some a =>
    have hc : (((aget s.2 u).d != (none : Dist)) && ltDist (oadd (aget s.2 u).d (some w)) (aget s.2 v).d) = gtD (aget s.2 v).d (a + w) := by
      rw [hu]; simp [oadd, AdaptaVerif.Lemmas.ShortestPathsBridge.ltDist_some]
    unfold stepG
    simp only [hc]
    by_cases hg : gtD (aget s.2 v).d (a + w) = true
    · simp only [hg, if_true, hu, oadd, dOf_aset, decKeyM_eq]
      rw [aget_aset_eq _ _ _ hv]
    · simp only [hg, if_false, Bool.false_eq_true]

/-- the relax loop leaves the adjacency vectors and the size of the node array alone -/
def SameAdj (vs0 vs : Array NodeK) : Prop :=
  vs.size = vs0.size ∧ ∀ k, (aget vs k).neighbours = (aget vs0 k).neighbours ∧ (aget vs k).nweights = (aget vs0 k).nweights ∧
    (aget vs k).id = (aget vs0 k).id

theorem SameAdj.refl (vs : Array NodeK) : SameAdj vs vs := ⟨rfl, fun _ => ⟨rfl, rfl, rfl⟩⟩

theorem SameAdj.trans {a b c : Array NodeK} (h1 : SameAdj a b) (h2 : SameAdj b c) : SameAdj a c :=
  ⟨h2.1.trans h1.1, fun k => ⟨(h2.2 k).1.trans (h1.2 k).1, (h2.2 k).2.1.trans (h1.2 k).2.1, (h2.2 k).2.2.trans (h1.2 k).2.2⟩⟩

theorem stepG_sameAdj {H : Type} (u : Nat) (decKey : H → Nat → Array NodeK → H) (vs0 : Array NodeK) (s : H × Array NodeK)
    (vw : Nat × Dist) (h : SameAdj vs0 s.2) : SameAdj vs0 (stepG u decKey s vw).2 := by
  unfold stepG
  split
  · refine ⟨by simp [aset_size, h.1], ?_⟩
    intro k
    by_cases hk : vw.1 = k
    · subst hk
      by_cases hv : vw.1 < s.2.size
      · rw [aget_aset_eq _ _ _ hv]; exact h.2 vw.1
      · have : aset s.2 vw.1 { (aget s.2 vw.1) with d := oadd (aget s.2 u).d vw.2 } = s.2 := by
          simp [aset, Array.setIfInBounds, hv]
        rw [this]; exact h.2 vw.1
    · rw [aget_aset_ne _ _ _ _ hk]; exact h.2 k
  · exact h

theorem fold_proj (u : Nat) (vs0 : Array NodeK) (l : List (Nat × Rat)) (s : PTree Dist × Array NodeK)
    (hs : SameAdj vs0 s.2) (hval : ∀ p ∈ l, p.1 < vs0.size) :
    proj (l.foldl (fun s p => stepG u decKeyM s (p.1, some p.2)) s) = l.foldl (relaxEdgeH u) (proj s) := by
  induction l generalizing s with
  | nil => rfl
  | cons p ps ih =>
    simp only [List.foldl_cons]
    rw [ih _ (stepG_sameAdj u decKeyM vs0 s _ hs) (fun q hq => hval q (by simp [hq]))]
    rw [step_proj u s p.1 p.2 (by rw [hs.1]; exact hval p (by simp))]

/-- any loop body that is `stepG` on the `i`-th adjacency entry of `u` (read from the current state) folds `relaxEdgeH` -/
theorem relax_generic (body : Nat → PTree Dist × Array NodeK → PTree Dist × Array NodeK) (es : List (Nat × Nat × Rat)) (u : Nat)
    (hbody : ∀ i s, body i s = stepG u decKeyM s ((aget s.2 u).neighbours.getD i default, (aget s.2 u).nweights.getD i default))
    (vs : Array NodeK) (Q : PTree Dist)
    (hnb : (aget vs u).neighbours = (adj es u).map (·.1))
    (hnw : (aget vs u).nweights = (adj es u).map (fun p => some p.2))
    (hval : ∀ p ∈ adj es u, p.1 < vs.size) :
    proj (forRange body ((aget vs u).neighbours.length - 0) 0 (Q, vs)) = (adj es u).foldl (relaxEdgeH u) (dOf vs, Q) ∧
    SameAdj vs (forRange body ((aget vs u).neighbours.length - 0) 0 (Q, vs)).2 := by
  have hlen : (aget vs u).neighbours.length = (adj es u).length := by rw [hnb]; simp
  rw [Nat.sub_zero, hlen]
  obtain ⟨h1, h2⟩ := forRange_list_inv (fun (s : PTree Dist × Array NodeK) => SameAdj vs s.2) (adj es u)
    body (fun s p => stepG u decKeyM s (p.1, some p.2)) 0 (Q, vs) (SameAdj.refl vs)
    (by
      intro i hi s hs
      refine ⟨?_, stepG_sameAdj u decKeyM vs s _ hs⟩
      rw [Nat.zero_add, hbody, (hs.2 u).1, (hs.2 u).2.1, hnb, hnw]
      simp [List.getD, hi])
  rw [h1]
  exact ⟨fold_proj u vs (adj es u) (Q, vs) (SameAdj.refl vs) hval, h2⟩

theorem relax_eq (es : List (Nat × Nat × Rat)) (u : Nat) (vs : Array NodeK) (Q : PTree Dist)
    (hnb : (aget vs u).neighbours = (adj es u).map (·.1))
    (hnw : (aget vs u).nweights = (adj es u).map (fun p => some p.2))
    (hval : ∀ p ∈ adj es u, p.1 < vs.size) :
    (dOf (dijkstra_relax vs Q u decKeyM).1, (dijkstra_relax vs Q u decKeyM).2) = (adj es u).foldl (relaxEdgeH u) (dOf vs, Q) ∧
    SameAdj vs (dijkstra_relax vs Q u decKeyM).1 := by
  unfold dijkstra_relax
  simp only []
  have hlen : (aget vs u).neighbours.length = (adj es u).length := by rw [hnb]; simp
  rw [Nat.sub_zero, hlen]
  obtain ⟨h1, h2⟩ := forRange_list_inv (fun (s : PTree Dist × Array NodeK) => SameAdj vs s.2) (adj es u)
    (dijkstra_relax_body1 u decKeyM) (fun s p => stepG u decKeyM s (p.1, some p.2)) 0 (Q, vs) (SameAdj.refl vs)
    (by
      intro i hi s hs
      refine ⟨?_, stepG_sameAdj u decKeyM vs s _ hs⟩
      rw [Nat.zero_add, body_eq, (hs.2 u).1, (hs.2 u).2.1, hnb, hnw]
      simp [List.getD, hi])
  rw [h1]
  refine ⟨?_, h2⟩
  have := fold_proj u vs (adj es u) (Q, vs) (SameAdj.refl vs) hval
  simpa [proj] using this

theorem body_sameAdj {H : Type} (u : Nat) (decKey : H → Nat → Array NodeK → H) (vs0 : Array NodeK) (i : Nat) (s : H × Array NodeK)
    (h : SameAdj vs0 s.2) : SameAdj vs0 (dijkstra_relax_body1 u decKey i s).2 := by
  rw [body_eq]; exact stepG_sameAdj u decKey vs0 s _ h

/-- every `vs[·]`, `neighbours[·]`, `nweights[·]` access of the relax loop is in bounds when `u` and all its neighbours are
    nodes of `vs` and the two adjacency vectors have the same length (what `dijkstra_init` establishes) -/
theorem relax_pre_true {H : Type} (decKey : H → Nat → Array NodeK → H) (vs : Array NodeK) (Q : H) (u : Nat) (hu : u < vs.size)
    (hlen : (aget vs u).nweights.length = (aget vs u).neighbours.length)
    (hval : ∀ v ∈ (aget vs u).neighbours, v < vs.size) :
    dijkstra_relax_pre vs Q u decKey = true := by
  unfold dijkstra_relax_pre
  simp only [hu, decide_true, Bool.true_and, Bool.and_true]
  refine forRangePre_of_inv (fun _ (s : H × Array NodeK) => SameAdj vs s.2) _ _ _ _ _ (SameAdj.refl vs) ?_
  intro i s _ hi hs
  refine ⟨?_, body_sameAdj u decKey vs i s hs⟩
  have hi' : i < (aget vs u).neighbours.length := by omega
  have hus : u < s.2.size := by rw [hs.1]; exact hu
  have hv : (aget vs u).neighbours.getD i default < s.2.size := by
    rw [hs.1]; apply hval
    simp only [List.getD, List.getElem?_eq_getElem hi', Option.getD_some]; exact List.getElem_mem hi'
  unfold dijkstra_relax_body1_pre
  simp only [(hs.2 u).1, (hs.2 u).2.1, hlen, hi', hus, hv, decide_true, Bool.and_self, Bool.or_true, Bool.and_true, ite_self]

end AdaptaVerif.Lemmas.DijkstraRelaxBridge
