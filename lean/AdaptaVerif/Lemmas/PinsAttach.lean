/-
Soundness (and completeness where cheap) of the C11 route checkers of Check/Attach.lean.
-/
import AdaptaVerif.Check.Attach
import AdaptaVerif.Spec.Pins
import Mathlib.Tactic.Linarith
import Mathlib.Tactic.Ring
import Mathlib.Tactic.FieldSimp
import Mathlib.Algebra.Order.Field.Rat
import Mathlib.Algebra.Order.Field.Basic
namespace AdaptaVerif.Lemmas.PinsAttach
open AdaptaVerif.Model.Pins AdaptaVerif.Spec.Pins AdaptaVerif.Check.Attach

/-- one coordinate: `c` between `a` and `b` (in the min/max sense) with `a ≠ b` gives the
    parameter `t = (c - a) / (b - a) ∈ [0,1]` -/
theorem param_of_between (a b c : Rat) (hne : a ≠ b) (h1 : min a b ≤ c) (h2 : c ≤ max a b) :
    0 ≤ (c - a) / (b - a) ∧ (c - a) / (b - a) ≤ 1 := by
  rcases lt_or_gt_of_ne hne with hlt | hgt
  · have hmin : min a b = a := min_eq_left (le_of_lt hlt)
    have hmax : max a b = b := max_eq_right (le_of_lt hlt)
    rw [hmin] at h1; rw [hmax] at h2
    have hpos : 0 < b - a := by linarith
    constructor
    · exact div_nonneg (by linarith) (le_of_lt hpos)
    · rw [div_le_one hpos]; linarith
  · have hmin : min a b = b := min_eq_right (le_of_lt hgt)
    have hmax : max a b = a := max_eq_left (le_of_lt hgt)
    rw [hmin] at h1; rw [hmax] at h2
    have hneg : b - a < 0 := by linarith
    constructor
    · exact div_nonneg_of_nonpos (by linarith) (le_of_lt hneg)
    · rw [div_le_one_of_neg hneg]; linarith

theorem pointOnSegment_sound (a b c : P2) (h : pointOnSegment a b c = true) : OnSeg a b c := by
  unfold pointOnSegment at h
  simp only [Bool.and_eq_true, decide_eq_true_eq] at h
  obtain ⟨⟨⟨⟨hcr, hx1⟩, hx2⟩, hy1⟩, hy2⟩ := h
  unfold cross at hcr
  by_cases hx : a.x = b.x
  · by_cases hy : a.y = b.y
    · -- degenerate segment: c = a
      refine ⟨0, le_refl 0, by norm_num, ?_, ?_⟩
      · rw [← hx, min_self] at hx1; rw [← hx, max_self] at hx2; linarith
      · rw [← hy, min_self] at hy1; rw [← hy, max_self] at hy2; linarith
    · -- vertical segment: parameter from y
      obtain ⟨t0, t1⟩ := param_of_between a.y b.y c.y hy hy1 hy2
      refine ⟨(c.y - a.y) / (b.y - a.y), t0, t1, ?_, ?_⟩
      · rw [← hx, min_self] at hx1; rw [← hx, max_self] at hx2
        have : c.x = a.x := le_antisymm hx2 hx1
        rw [this, ← hx]; ring
      · have hne : b.y - a.y ≠ 0 := sub_ne_zero.mpr (Ne.symm hy)
        field_simp
        ring
  · obtain ⟨t0, t1⟩ := param_of_between a.x b.x c.x hx hx1 hx2
    have hne : b.x - a.x ≠ 0 := sub_ne_zero.mpr (Ne.symm hx)
    refine ⟨(c.x - a.x) / (b.x - a.x), t0, t1, ?_, ?_⟩
    · field_simp
      ring
    · field_simp
      linarith

/-- one coordinate of completeness: a convex combination lies between the end values -/
theorem between_of_param (a b t : Rat) (t0 : 0 ≤ t) (t1 : t ≤ 1) :
    min a b ≤ a + t * (b - a) ∧ a + t * (b - a) ≤ max a b := by
  rcases le_total a b with hab | hab
  · rw [min_eq_left hab, max_eq_right hab]
    have h1 : 0 ≤ t * (b - a) := mul_nonneg t0 (by linarith)
    have h2 : t * (b - a) ≤ 1 * (b - a) := mul_le_mul_of_nonneg_right t1 (by linarith)
    constructor <;> linarith
  · rw [min_eq_right hab, max_eq_left hab]
    have h1 : 0 ≤ t * (a - b) := mul_nonneg t0 (by linarith)
    have h2 : t * (a - b) ≤ 1 * (a - b) := mul_le_mul_of_nonneg_right t1 (by linarith)
    constructor <;> nlinarith

theorem pointOnSegment_complete (a b c : P2) (h : OnSeg a b c) : pointOnSegment a b c = true := by
  obtain ⟨t, t0, t1, hx, hy⟩ := h
  obtain ⟨x1, x2⟩ := between_of_param a.x b.x t t0 t1
  obtain ⟨y1, y2⟩ := between_of_param a.y b.y t t0 t1
  unfold pointOnSegment cross
  simp only [Bool.and_eq_true, decide_eq_true_eq]
  rw [hx, hy]
  refine ⟨⟨⟨⟨by ring, x1⟩, x2⟩, y1⟩, y2⟩

theorem checkpointsInOrder_sound : ∀ (route cps : List P2),
    checkpointsInOrder route cps = true → Visits route cps := by
  intro route cps
  fun_induction checkpointsInOrder route cps with
  | case1 route => intro _; exact Visits.done route
  | case2 c cs => intro h; cases h
  | case3 a c cs => intro h; cases h
  | case4 a b rest c cs ih1 ih2 =>
    intro h
    simp only [Bool.or_eq_true, Bool.and_eq_true] at h
    rcases h with ⟨h1, h2⟩ | h
    · exact Visits.here (pointOnSegment_sound a b c h1) (ih1 h2)
    · exact Visits.later (ih2 h)

/-- on the sub-segment `c b` of `a b` (with `c` on `a b`) is on `a b` -/
theorem onSeg_of_subseg {a b c p : P2} (hc : OnSeg a b c) (hp : OnSeg c b p) : OnSeg a b p := by
  obtain ⟨t, t0, t1, hcx, hcy⟩ := hc
  obtain ⟨u, u0, u1, hpx, hpy⟩ := hp
  refine ⟨t + u * (1 - t), ?_, ?_, ?_, ?_⟩
  · have : 0 ≤ u * (1 - t) := mul_nonneg u0 (by linarith)
    linarith
  · have : u * (1 - t) ≤ 1 * (1 - t) := mul_le_mul_of_nonneg_right u1 (by linarith)
    linarith
  · rw [hpx, hcx]; ring
  · rw [hpy, hcy]; ring

theorem onRoute_of_subroute {a b c : P2} {rest : List P2} (hc : OnSeg a b c) {p : P2}
    (hp : OnRoute (c :: b :: rest) p) : OnRoute (a :: b :: rest) p := by
  rcases hp with hp | hp
  · exact Or.inl (onSeg_of_subseg hc hp)
  · exact Or.inr hp

/-- the inductive reading implies the plain one: every checkpoint lies on the route -/
theorem visits_onRoute {route cps : List P2} (h : Visits route cps) : ∀ p ∈ cps, OnRoute route p := by
  induction h with
  | done route => intro p hp; cases hp
  | @here a b c rest cs hseg _ ih =>
    intro p hp
    rcases List.mem_cons.mp hp with rfl | hp
    · exact Or.inl hseg
    · exact onRoute_of_subroute hseg (ih p hp)
  | @later a route cps _ ih =>
    intro p hp
    have := ih p hp
    match route, this with
    | b :: rest, h => exact Or.inr h

theorem dirAllowed_sound (a b : P2) (mask : Nat) (h : dirAllowed a b mask = true) :
    LeavesIn a b mask := by
  unfold dirAllowed at h
  split_ifs at h with hy hx1 hx2 hx hy1
  · exact ⟨3, by norm_num, h, b.x - a.x, by linarith, by simp [dirVec], by simp [dirVec, hy]⟩
  · exact ⟨2, by norm_num, h, a.x - b.x, by linarith, by simp [dirVec], by simp [dirVec, hy]⟩
  · exact ⟨1, by norm_num, h, b.y - a.y, by linarith, by simp [dirVec, hx], by simp [dirVec]⟩
  · have hlt : b.y < a.y := lt_of_le_of_ne (not_lt.mp hy1) (Ne.symm hy)
    exact ⟨0, by norm_num, h, a.y - b.y, by linarith, by simp [dirVec, hx], by simp [dirVec]⟩

end AdaptaVerif.Lemmas.PinsAttach
