/-
Soundness of the decidable input hypothesis `Check.Planarise.sepInputB`.
-/
import AdaptaVerif.Lemmas.PlanariseEdges
import AdaptaVerif.Lemmas.PlanariseGood
namespace AdaptaVerif.Lemmas.Planarise
open AdaptaVerif.Model.Planarise AdaptaVerif.Check.Planarise

theorem ptPairsB_eq : ∀ l : List Pt, ptPairsB l = ptPairs l
  | [] => rfl
  | [_] => rfl
  | a :: b :: r => by simp [ptPairsB, ptPairs, ptPairsB_eq (b :: r)]

theorem sepInputB_sound {inp : Input} (h : sepInputB inp = true) : SepInput inp ∧ NoCentreInside inp := by
  unfold sepInputB at h
  simp only [Bool.and_eq_true, List.all_eq_true, ptPairsB_eq] at h
  obtain ⟨⟨⟨⟨⟨h1, h2⟩, h3⟩, h4⟩, h5⟩, h6⟩ := h
  refine ⟨⟨?_, ?_, ?_, ?_, ?_, ?_⟩, ?_⟩
  · intro a ha b hb hp
    have := (h1 a ha b hb).1
    simp only [Bool.or_eq_true, Bool.not_eq_true', beq_eq_false_iff_ne, beq_iff_eq] at this
    rcases this with h | h
    · exact absurd hp h
    · exact h
  · intro a ha b hb hi
    have := (h1 a ha b hb).2
    simp only [Bool.or_eq_true, Bool.not_eq_true', beq_eq_false_iff_ne, beq_iff_eq] at this
    rcases this with h | h
    · exact absurd hi h
    · exact h
  · intro e he
    obtain ⟨⟨⟨a, b⟩, c⟩, _⟩ := h2 e he
    exact ⟨by simpa using a, by simpa using b, by simpa using c⟩
  · intro e he pq hpq
    have := (h2 e he).2 pq hpq
    simp only [Bool.or_eq_true, Bool.and_eq_true, Bool.not_eq_true', beq_eq_false_iff_ne, beq_iff_eq] at this
    exact this
  · constructor
    · intro a ha b hb
      exact allApartB_sound h3 a.x (List.mem_map.2 ⟨a, ha, rfl⟩) b.x (List.mem_map.2 ⟨b, hb, rfl⟩)
    · intro a ha b hb
      exact allApartB_sound h4 a.y (List.mem_map.2 ⟨a, ha, rfl⟩) b.y (List.mem_map.2 ⟨b, hb, rfl⟩)
  · intro e he q hq n hn hp
    have := h5 e he q hq n hn
    simp [hp] at this
  · intro e he pq hpq n hn hin
    have := h6 e he pq hpq n hn
    simp only [Bool.not_eq_true', Bool.or_eq_false_iff, Bool.and_eq_false_iff] at this
    simp only [beq_eq_false_iff_ne, decide_eq_false_iff_not] at this
    grind

end AdaptaVerif.Lemmas.Planarise
