/-
C17 — Dijkstra exactly as coded (driven by the pairing-heap model) is correct.

Simulation: the heap-driven state `HState` is related (`HRel`) to an abstract state `DState`
whose queue `q` lists the identities still in the heap:
  * same key vector `d` and output vector `out`;
  * the heap is a heap-ordered root (`Good`);
  * the stored pairs are exactly `(d[v], v)` for `v ∈ q`   (every unsettled node is in the heap
    with key = its tentative distance).
`extractMin` then yields a pending node of minimal key (`findMin_spec`), and every firing
relaxation hits a pending node, lowers its key, and `decreaseKey` re-establishes the relation
(`decreaseKey_spec`).  The abstract side advances by `dijkstraStep`, whose invariant `DInv` was
proved for *any* choice of a minimal pending node (`dinv_step`).
-/
import AdaptaVerif.Lemmas.ApspDijkstra
import AdaptaVerif.Lemmas.PairingHeap
namespace AdaptaVerif.Lemmas.Apsp
open AdaptaVerif.Model.ShortestPaths AdaptaVerif.Spec.Apsp AdaptaVerif.Model.PairingHeap
open AdaptaVerif.Lemmas.PairingHeap

/-- the pairs the heap must hold: `(d[v], v)` for the pending nodes -/
def keyed (d : Vec) (q : List Nat) : List (Dist × Nat) := q.map (fun v => (Vec.at d v, v))

theorem mem_keyed {d : Vec} {q : List Nat} {k : Dist} {v : Nat} (h : (k, v) ∈ keyed d q) :
    v ∈ q ∧ k = Vec.at d v := by
  unfold keyed at h
  rw [List.mem_map] at h
  obtain ⟨x, hx, he⟩ := h
  simp only [Prod.mk.injEq] at he
  obtain ⟨h1, h2⟩ := he
  subst h2
  exact ⟨hx, h1.symm⟩

theorem keyed_mem {d : Vec} {q : List Nat} {v : Nat} (h : v ∈ q) : (Vec.at d v, v) ∈ keyed d q := by
  unfold keyed
  exact List.mem_map.mpr ⟨v, h, rfl⟩

/-- `le ltDist` is the order `dle` -/
theorem le_ltDist_iff (x y : Dist) : le ltDist x y ↔ dle x y := by
  unfold le
  cases x with
  | none =>
    cases y with
    | none => simp [ltDist, dle_none]
    | some b =>
      simp only [ltDist]
      constructor
      · intro h; cases h
      · intro h; obtain ⟨_, hx, _⟩ := h b rfl; cases hx
  | some a =>
    cases y with
    | none => simp [ltDist, dle_none]
    | some b => simp [ltDist, dle_some]

/-! ### heap initialisation -/

theorem heapInit_fold (d : Vec) : ∀ (l : List Nat) (h : PTree Dist), Good ltDist h →
    Good ltDist (l.foldl (fun h i => Model.PairingHeap.insert ltDist h (Vec.at d i) i) h) ∧
    (elems (l.foldl (fun h i => Model.PairingHeap.insert ltDist h (Vec.at d i) i) h)).Perm (keyed d l ++ elems h) := by
  intro l
  induction l with
  | nil => intro h hg; exact ⟨hg, by simp [keyed]⟩
  | cons x rest ih =>
    intro h hg
    rw [List.foldl_cons]
    have hg1 := good_insert ltDist_laws hg (Vec.at d x) x
    obtain ⟨i1, i2⟩ := ih _ hg1
    refine ⟨i1, i2.trans ?_⟩
    have hp := (insert_spec ltDist_laws hg.1 hg.2 (Vec.at d x) x).1
    have : (keyed d rest ++ elems (Model.PairingHeap.insert ltDist h (Vec.at d x) x)).Perm
        (keyed d rest ++ (Vec.at d x, x) :: elems h) := List.Perm.append_left _ hp
    refine this.trans ?_
    unfold keyed
    simp only [List.map_cons, List.cons_append]
    exact List.perm_middle

theorem heapInit_spec (d : Vec) (n : Nat) :
    Good ltDist (heapInit d n) ∧ (elems (heapInit d n)).Perm (keyed d (List.range n)) := by
  obtain ⟨h1, h2⟩ := heapInit_fold d (List.range n) .nil good_nil
  refine ⟨h1, ?_⟩
  unfold heapInit
  simpa [elems] using h2

/-! ### the inner loop -/

theorem relaxEdgeH_fst (u : Nat) (st : Vec × PTree Dist) (p : Nat × Rat) :
    (relaxEdgeH u st p).1 = relaxEdge u st.1 p := by
  unfold relaxEdgeH relaxEdge
  cases Vec.at st.1 u with
  | none => rfl
  | some a =>
    simp only
    split <;> rfl

theorem fold_relaxEdgeH_fst (u : Nat) : ∀ (l : List (Nat × Rat)) (st : Vec × PTree Dist),
    (l.foldl (relaxEdgeH u) st).1 = l.foldl (relaxEdge u) st.1 := by
  intro l
  induction l with
  | nil => intro st; rfl
  | cons p rest ih => intro st; rw [List.foldl_cons, List.foldl_cons, ih, relaxEdgeH_fst]

theorem fold_relaxEdgeH_none {u : Nat} : ∀ (l : List (Nat × Rat)) (st : Vec × PTree Dist), Vec.at st.1 u = none →
    l.foldl (relaxEdgeH u) st = st := by
  intro l
  induction l with
  | nil => intro st _; rfl
  | cons p rest ih =>
    intro st h
    have : relaxEdgeH u st p = st := by unfold relaxEdgeH; rw [h]
    rw [List.foldl_cons, this, ih st h]

/-- replacing the key of a pending node in `keyed` -/
theorem keyed_update {d : Vec} {q : List Nat} (hnd : q.Nodup) {v : Nat} (hv : v ∈ q) (hvs : v < d.size)
    (nk : Dist) {rest : List (Dist × Nat)} (h : (keyed d q).Perm ((Vec.at d v, v) :: rest)) :
    (keyed (d.setIfInBounds v nk) q).Perm ((nk, v) :: rest) := by
  have hq : q.Perm (v :: q.erase v) := List.perm_cons_erase hv
  have h1 : (keyed d q).Perm ((Vec.at d v, v) :: keyed d (q.erase v)) := by
    unfold keyed; exact hq.map _
  have hrest : rest.Perm (keyed d (q.erase v)) := (List.Perm.cons_inv (h.symm.trans h1))
  have h2 : (keyed (d.setIfInBounds v nk) q).Perm
      ((Vec.at (d.setIfInBounds v nk) v, v) :: keyed (d.setIfInBounds v nk) (q.erase v)) := by
    unfold keyed; exact hq.map _
  have hat : Vec.at (d.setIfInBounds v nk) v = nk := by rw [Vec.at_set, if_pos ⟨rfl, hvs⟩]
  have hsame : keyed (d.setIfInBounds v nk) (q.erase v) = keyed d (q.erase v) := by
    unfold keyed
    apply List.map_congr_left
    intro x hx
    have hxv : x ≠ v := (hnd.mem_erase_iff.mp hx).1
    rw [Vec.at_set, if_neg (fun hc => hxv hc.1.symm)]
  rw [hat, hsame] at h2
  exact h2.trans (List.Perm.cons _ hrest.symm)

/-- invariant of the inner loop on the pair (keys, heap) -/
structure InnerInv (g : Graph) (u : Nat) (a : Rat) (d0 : Vec) (q' : List Nat) (st : Vec × PTree Dist) : Prop where
  rel : StepRel g u a d0 st.1
  good : Good ltDist st.2
  perm : (elems st.2).Perm (keyed st.1 q')

theorem relaxEdgeH_inv {g : Graph} {u : Nat} {a : Rat} {d0 : Vec} {q' : List Nat} {n : Nat}
    (hn : d0.size = n) (hnd : q'.Nodup)
    (hset : ∀ t, t < n → t ∉ q' → t = u ∨ ∃ b, Vec.at d0 t = some b ∧ b ≤ a)
    {st : Vec × PTree Dist} (h : InnerInv g u a d0 q' st)
    {v : Nat} {w : Rat} (he : HasEdge g u v w) (hw : 0 ≤ w) (hvn : v < n) :
    InnerInv g u a d0 q' (relaxEdgeH u st (v, w)) := by
  have hrel' : StepRel g u a d0 (relaxEdgeH u st (v, w)).1 := by
    rw [relaxEdgeH_fst]; exact relaxEdge_rel h.rel he hw
  obtain ⟨hsz, hu, hall⟩ := h.rel
  unfold relaxEdgeH at hrel' ⊢
  rw [hu] at hrel' ⊢
  simp only at hrel' ⊢
  by_cases hg : gtD (Vec.at st.1 v) (a + w) = true
  · rw [if_pos hg] at hrel' ⊢
    -- a firing relaxation hits a pending node
    have hvq : v ∈ q' := by
      by_contra hvq
      rcases hset v hvn hvq with rfl | ⟨b, hb, hba⟩
      · rw [hu, gtD_some] at hg; linarith
      · rcases hall v with e | ⟨w0, hw0, _, e, hg0⟩
        · rw [e, hb, gtD_some] at hg; linarith
        · rw [hb, gtD_some] at hg0; linarith
    have hvs : v < st.1.size := by rw [hsz, hn]; exact hvn
    have hmem : (Vec.at st.1 v, v) ∈ elems st.2 := h.perm.mem_iff.mpr (keyed_mem hvq)
    rcases decreaseKey_spec ltDist_laws h.good.1 h.good.2 v (some (a + w)) with ⟨_, hno⟩ | ⟨ok, rest, hp, hp', hs, ho⟩
    · exact absurd rfl (hno _ hmem)
    · have hok : ok = Vec.at st.1 v :=
        (mem_keyed (h.perm.mem_iff.mp (hp.mem_iff.mpr (List.mem_cons_self)))).2
      subst hok
      have hle : le ltDist (some (a + w)) (Vec.at st.1 v) := by
        rw [le_ltDist_iff]
        cases hd : Vec.at st.1 v with
        | none => exact dle_none _
        | some b =>
          rw [hd, gtD_some] at hg
          exact dle_some.mpr (le_of_lt hg)
      refine ⟨hrel', ⟨hs, ho hle⟩, ?_⟩
      exact hp'.trans (keyed_update hnd hvq hvs (some (a + w)) (h.perm.symm.trans hp)).symm
  · rw [if_neg hg] at hrel' ⊢
    exact ⟨hrel', h.good, h.perm⟩

theorem fold_relaxEdgeH_inv {g : Graph} {u : Nat} {a : Rat} {d0 : Vec} {q' : List Nat} {n : Nat}
    (hn : d0.size = n) (hnd : q'.Nodup)
    (hset : ∀ t, t < n → t ∉ q' → t = u ∨ ∃ b, Vec.at d0 t = some b ∧ b ≤ a) :
    ∀ (l : List (Nat × Rat)), (∀ p ∈ l, HasEdge g u p.1 p.2 ∧ 0 ≤ p.2 ∧ p.1 < n) →
      ∀ (st : Vec × PTree Dist), InnerInv g u a d0 q' st → InnerInv g u a d0 q' (l.foldl (relaxEdgeH u) st) := by
  intro l
  induction l with
  | nil => intro _ st h; exact h
  | cons p rest ih =>
    intro hl st h
    rw [List.foldl_cons]
    have hp := hl p (List.mem_cons_self)
    exact ih (fun p' hp' => hl p' (List.mem_cons_of_mem _ hp')) _
      (relaxEdgeH_inv (v := p.1) (w := p.2) hn hnd hset h hp.1 hp.2.1 hp.2.2)

/-! ### the outer loop -/

/-- simulation relation between the heap-driven state and the abstract state -/
structure HRel (g : Graph) (s : Nat) (hs : HState) (st : DState) : Prop where
  deq : hs.d = st.d
  oeq : hs.out = st.out
  good : Good ltDist hs.heap
  perm : (elems hs.heap).Perm (keyed st.d st.q)
  inv : DInv g s st

theorem hrel_init {g : Graph} {s : Nat} (hs : s < g.n) : HRel g s (dijkstraHeapInit g.n s) (dijkstraInit g.n s) := by
  unfold dijkstraHeapInit dijkstraInit
  obtain ⟨h1, h2⟩ := heapInit_spec ((Array.replicate g.n (none : Dist)).setIfInBounds s (some 0)) g.n
  exact ⟨rfl, rfl, h1, h2, dinv_init hs⟩

/-- one iteration of the heap-driven loop corresponds to one abstract `dijkstraStep` -/
theorem hrel_step {g : Graph} (hv : Valid g) {s : Nat} {hs : HState} {st : DState} (h : HRel g s hs st)
    {k : Dist} {u : Nat} (hf : findMin hs.heap = some (k, u)) :
    let r := (adj g.edges u).foldl (relaxEdgeH u) (hs.d, deleteMin ltDist hs.heap)
    u ∈ st.q ∧
    HRel g s { d := r.1, out := hs.out.setIfInBounds u (Vec.at hs.d u), heap := r.2, order := u :: hs.order }
      (dijkstraStep g.edges st u (st.q.erase u)) := by
  intro r
  obtain ⟨hmem, hmin⟩ := findMin_spec ltDist_laws h.good.1 h.good.2 hf
  obtain ⟨huq, hk⟩ := mem_keyed (h.perm.mem_iff.mp hmem)
  have hnd := h.inv.nodup
  have hq' : ∀ x, x ∈ st.q.erase u ↔ x ∈ st.q ∧ x ≠ u := by
    intro x; rw [hnd.mem_erase_iff]; exact ⟨fun h => ⟨h.2, h.1⟩, fun h => ⟨h.2, h.1⟩⟩
  have hnd' : (st.q.erase u).Nodup := hnd.erase u
  have hminq : ∀ x ∈ st.q, dle (Vec.at st.d u) (Vec.at st.d x) := by
    intro x hx
    have := hmin _ (h.perm.mem_iff.mpr (keyed_mem hx))
    rw [le_ltDist_iff, hk] at this
    exact this
  have hstep := dinv_step hv h.inv huq hminq hq' hnd'
  refine ⟨huq, ?_⟩
  -- the heap after extractMin holds exactly the remaining pending nodes
  have hgood1 : Good ltDist (deleteMin ltDist hs.heap) := good_deleteMin ltDist_laws h.good
  have hperm1 : (elems (deleteMin ltDist hs.heap)).Perm (keyed st.d (st.q.erase u)) := by
    cases hh : hs.heap with
    | nil => rw [hh] at hf; simp [findMin] at hf
    | node kh ih c sb =>
      have hsb : sb = .nil := by have := h.good.1; rw [hh] at this; exact this
      subst hsb
      rw [hh] at hf
      simp only [findMin, Option.some.injEq, Prod.mk.injEq] at hf
      obtain ⟨rfl, rfl⟩ := hf
      have ho : Ordered ltDist (.node kh ih c .nil) := by have := h.good.2; rw [hh] at this; exact this
      have hdm := (deleteMin_spec ltDist_laws ho).1
      have hp := h.perm
      rw [hh] at hp
      have hq : st.q.Perm (ih :: st.q.erase ih) := List.perm_cons_erase huq
      have h1 : (keyed st.d st.q).Perm ((Vec.at st.d ih, ih) :: keyed st.d (st.q.erase ih)) := by
        unfold keyed; exact hq.map _
      rw [← hk] at h1
      exact List.Perm.cons_inv (hdm.symm.trans (hp.trans h1))
  have hadj : ∀ p ∈ adj g.edges u, HasEdge g u p.1 p.2 ∧ 0 ≤ p.2 ∧ p.1 < g.n := by
    intro p hp
    have he : HasEdge g u p.1 p.2 := adj_hasEdge.mp hp
    exact ⟨he, (HasEdge.valid hv he).2.2, (HasEdge.valid hv he).2.1⟩
  have hrfst : r.1 = (adj g.edges u).foldl (relaxEdge u) st.d := by
    show ((adj g.edges u).foldl (relaxEdgeH u) (hs.d, deleteMin ltDist hs.heap)).1 = _
    rw [fold_relaxEdgeH_fst, h.deq]
  have hheap : Good ltDist r.2 ∧ (elems r.2).Perm (keyed r.1 (st.q.erase u)) := by
    cases hdu : Vec.at st.d u with
    | none =>
      have : r = (hs.d, deleteMin ltDist hs.heap) :=
        fold_relaxEdgeH_none _ _ (by rw [h.deq]; exact hdu)
      rw [this]
      exact ⟨hgood1, by rw [h.deq]; exact hperm1⟩
    | some a =>
      have hset : ∀ t, t < g.n → t ∉ st.q.erase u → t = u ∨ ∃ b, Vec.at st.d t = some b ∧ b ≤ a := by
        intro t ht htq
        by_cases htu : t = u
        · exact Or.inl htu
        · right
          have htq' : t ∉ st.q := fun hc => htq ((hq' t).mpr ⟨hc, htu⟩)
          have := h.inv.order t ht htq' u huq
          rw [hdu] at this
          exact this a rfl
      have h0 : InnerInv g u a st.d (st.q.erase u) (hs.d, deleteMin ltDist hs.heap) :=
        ⟨by rw [h.deq]; exact StepRel.init hdu, hgood1, by rw [h.deq]; exact hperm1⟩
      have := fold_relaxEdgeH_inv h.inv.dsize hnd' hset _ hadj _ h0
      exact ⟨this.good, this.perm⟩
  have hdstep : (dijkstraStep g.edges st u (st.q.erase u)).d = r.1 := by rw [hrfst]; rfl
  constructor
  · simp only; rw [hdstep]
  · simp only [dijkstraStep]; rw [h.oeq, h.deq]
  · exact hheap.1
  · rw [hdstep]; exact hheap.2
  · exact hstep

theorem dijkstraHeapLoop_rel {g : Graph} (hv : Valid g) {s : Nat} :
    ∀ (fuel : Nat) (hs : HState) (st : DState), HRel g s hs st → st.q.length ≤ fuel →
      ∃ st', HRel g s (dijkstraHeapLoop g.edges fuel hs) st' ∧ st'.q = [] := by
  intro fuel
  induction fuel with
  | zero =>
    intro hs st h hl
    exact ⟨st, h, List.length_eq_zero_iff.mp (Nat.le_zero.mp hl)⟩
  | succ f ih =>
    intro hs st h hl
    unfold dijkstraHeapLoop
    cases hf : findMin hs.heap with
    | none =>
      refine ⟨st, h, ?_⟩
      have he : elems hs.heap = [] := findMin_none.mp hf
      have := h.perm.length_eq
      rw [he] at this
      unfold keyed at this
      simp only [List.length_nil, List.length_map] at this
      exact List.length_eq_zero_iff.mp this.symm
    | some r =>
      obtain ⟨k, u⟩ := r
      obtain ⟨huq, hrel⟩ := hrel_step hv h hf
      simp only
      apply ih _ _ hrel
      show (st.q.erase u).length ≤ f
      rw [List.length_erase_of_mem huq]
      have : 0 < st.q.length := List.length_pos_of_mem huq
      omega

/-- Dijkstra driven by the pairing heap, exactly as coded, returns the exact single-source
    distance vector -/
theorem dijkstraHeap_exact {g : Graph} (hv : Valid g) {s : Nat} (hs : s < g.n) {j : Nat} (hj : j < g.n) :
    IsDist g s j (Vec.at (dijkstraHeap g s) j) := by
  obtain ⟨st', hrel, hq⟩ := dijkstraHeapLoop_rel hv g.n _ _ (hrel_init hs) (by simp [dijkstraInit])
  unfold dijkstraHeap dijkstraHeapRun
  rw [hrel.oeq]
  exact dinv_final hv hrel.inv hq hj

end AdaptaVerif.Lemmas.Apsp
