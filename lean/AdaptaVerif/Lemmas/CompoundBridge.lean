/-
C07 — bridge between the eight `generateSeparationConstraints` methods as GENERATED from
cola/libcola/compound_constraints.cpp (`Gen/CompoundK.lean`: iterator loops over `_subConstraintInfo`,
`cs.push_back(new vpsc::Constraint(…))`) and the generators of `Model/Compound.lean` that
`gen_sound_*` / `gen_complete_*` (Props/C07.lean) are about.
-/
import AdaptaVerif.Gen.CompoundK
import AdaptaVerif.Lemmas.GenLoopBridge
namespace AdaptaVerif.Lemmas.CompoundBridge
open AdaptaVerif.Gen AdaptaVerif.Gen.CompoundK AdaptaVerif.Gen.KeysCompound AdaptaVerif.Model.Compound
open AdaptaVerif.Lemmas.GenLoopBridge

/-! ### Boundary / Alignment -/

theorem boundary_body (nvars : Nat) (self : OffsetCC) :
    boundaryGen_body1 nvars self = fun item s => s ++ [(fun p : Nat × Rat =>
      if p.2 < 0 then ({ left := p.1, right := self.var.getD default, gap := -p.2, eq := false } : Sep)
      else { left := self.var.getD default, right := p.1, gap := p.2, eq := false }) item] := by
  funext item s
  unfold boundaryGen_body1
  by_cases h : item.2 < 0 <;> simp [h]

theorem boundary_eq (dim : Dim) (nvars : Nat) (cs : List Sep) (self : OffsetCC) :
    boundaryGen dim nvars cs () self =
      cs ++ (if dim = self.primaryDim then boundarySeps (self.var.getD default) self.offs else []) := by
  unfold boundaryGen
  by_cases h : dim = self.primaryDim
  · simp only [h, decide_true, if_true]
    rw [boundary_body, forEach_push_map]
    rfl
  · simp [h]

theorem alignment_body (nvars : Nat) (self : OffsetCC) :
    alignmentGen_body1 nvars self = fun item s => s ++ [(fun p : Nat × Rat =>
      ({ left := self.var.getD default, right := p.1, gap := p.2, eq := true } : Sep)) item] := by
  funext item s
  rfl

theorem alignment_eq (dim : Dim) (nvars : Nat) (cs : List Sep) (self : OffsetCC) :
    alignmentGen dim nvars cs () self =
      cs ++ (if dim = self.primaryDim then alignmentSeps (self.var.getD default) self.offs else []) := by
  unfold alignmentGen
  by_cases h : dim = self.primaryDim
  · simp only [h, decide_true, if_true]
    rw [alignment_body, forEach_push_map]
    rfl
  · simp [h]

/-- the obligations of the offset loops: the line / guideline variable exists and every shape index is valid -/
theorem offset_pre_of (body : Nat × Rat → List Sep → List Sep) (pre : Nat × Rat → List Sep → Bool) (offs : List (Nat × Rat))
    (cs : List Sep) (h : ∀ p ∈ offs, ∀ s, pre p s = true) : forEachPre pre body offs cs = true :=
  forEachPre_of_inv (fun _ => True) pre body offs cs trivial (fun p hp s _ => ⟨h p hp s, trivial⟩)

theorem boundary_pre_true (dim : Dim) (nvars : Nat) (cs : List Sep) (self : OffsetCC)
    (hv : dim = self.primaryDim → self.var.isSome = true) (hidx : dim = self.primaryDim → ∀ p ∈ self.offs, p.1 < nvars) :
    boundaryGen_pre dim nvars cs () self = true := by
  unfold boundaryGen_pre
  by_cases h : dim = self.primaryDim
  · simp only [h, decide_true, if_true, hv h, Bool.true_and, Bool.and_true]
    apply offset_pre_of
    intro p hp s
    unfold boundaryGen_body1_pre
    have := hidx h p hp
    simp only [this, hv h, decide_true, Bool.true_and, Bool.and_true, Bool.and_self]
    split <;> simp
  · simp [h]

theorem alignment_pre_true (dim : Dim) (nvars : Nat) (cs : List Sep) (self : OffsetCC)
    (hv : dim = self.primaryDim → self.var.isSome = true) (hidx : dim = self.primaryDim → ∀ p ∈ self.offs, p.1 < nvars) :
    alignmentGen_pre dim nvars cs () self = true := by
  unfold alignmentGen_pre
  by_cases h : dim = self.primaryDim
  · simp only [h, decide_true, if_true, hv h, Bool.true_and, Bool.and_true]
    apply offset_pre_of
    intro p hp s
    unfold alignmentGen_body1_pre
    have := hidx h p hp
    simp [this, hv h]
  · simp [h]

/-! ### Separation (between shapes, or between alignments) / OrthogonalEdge -/

/-- `VarIndexPair` of a separation between two shapes -/
def shapePair (l r : Nat) : VarIndexPairK := { lConstraint := none, rConstraint := none, varIndex := l, varIndex2 := r }
/-- … between two alignment constraints with guideline variables `vl`, `vr` (`none` = not generated yet) -/
def alignPair (vl vr : Option Nat) (l r : Nat) : VarIndexPairK :=
  { lConstraint := some ⟨vl⟩, rConstraint := some ⟨vr⟩, varIndex := l, varIndex2 := r }

theorem index_shapePair (l r : Nat) : indexL (shapePair l r) = l ∧ indexR (shapePair l r) = r := ⟨rfl, rfl⟩
theorem index_alignPair (vl vr l r : Nat) :
    indexL (alignPair (some vl) (some vr) l r) = vl ∧ indexR (alignPair (some vl) (some vr) l r) = vr := ⟨rfl, rfl⟩

theorem separation_eq (dim : Dim) (nvars : Nat) (cs : List Sep) (self : SepCC) :
    separationGen dim nvars cs () self =
      cs ++ (if dim = self.primaryDim then
        separationSeps (indexL (self.info.headD default)) (indexR (self.info.headD default)) self.gap self.equality else []) := by
  unfold separationGen separationSeps
  by_cases h : dim = self.primaryDim <;> simp [h]

theorem separation_pre_true (dim : Dim) (nvars : Nat) (cs : List Sep) (self : SepCC) (p : VarIndexPairK)
    (hinfo : self.info = [p]) (hp : indexL_pre p = true ∧ indexR_pre p = true)
    (hidx : dim = self.primaryDim → indexL p < nvars ∧ indexR p < nvars) :
    separationGen_pre dim nvars cs () self = true := by
  unfold separationGen_pre
  by_cases h : dim = self.primaryDim
  · have := hidx h
    simp [h, hinfo, this.1, this.2, hp.1, hp.2]
  · simp [h]

theorem orthogonal_eq (dim : Dim) (nvars : Nat) (cs : List Sep) (self : OrthCC) :
    orthogonalGen dim nvars cs () self =
      cs ++ (if dim = self.primaryDim then separationSeps self.left self.right 0 true else []) := by
  unfold orthogonalGen separationSeps
  by_cases h : dim = self.primaryDim <;> simp [h]

theorem orthogonal_pre_true (dim : Dim) (nvars : Nat) (cs : List Sep) (self : OrthCC)
    (hidx : dim = self.primaryDim → self.left < nvars ∧ self.right < nvars) :
    orthogonalGen_pre dim nvars cs () self = true := by
  unfold orthogonalGen_pre
  by_cases h : dim = self.primaryDim
  · have := hidx h
    simp [h, this.1, this.2]
  · simp [h]

/-! ### MultiSeparation / Distribution -/

/-- guideline variables of an `AlignmentPair` -/
def pairIds (p : AlignK × AlignK) : Nat × Nat := (p.1.var.getD default, p.2.var.getD default)

theorem multi_body (self : MultiCC) :
    multiSepGen_body1 self = fun item s => s ++ [(fun p : AlignK × AlignK =>
      ({ left := (pairIds p).1, right := (pairIds p).2, gap := self.sep, eq := self.equality } : Sep)) item] := by
  funext item s; rfl

theorem multiSep_eq (dim : Dim) (nvars : Nat) (cs : List Sep) (self : MultiCC) :
    multiSepGen dim nvars cs () self =
      cs ++ (if dim = self.primaryDim then multiSeps (self.pairs.map pairIds) self.sep self.equality else []) := by
  unfold multiSepGen
  by_cases h : dim = self.primaryDim
  · simp only [h, decide_true, if_true]
    rw [multi_body, forEach_push_map]
    simp [multiSeps, List.map_map, Function.comp_def]
  · simp [h]

theorem dist_body (self : MultiCC) :
    distributionGen_body1 self = fun item s => s ++ [(fun p : AlignK × AlignK =>
      ({ left := (pairIds p).1, right := (pairIds p).2, gap := self.sep, eq := true } : Sep)) item] := by
  funext item s; rfl

theorem distribution_eq (dim : Dim) (nvars : Nat) (cs : List Sep) (self : MultiCC) :
    distributionGen dim nvars cs () self =
      cs ++ (if dim = self.primaryDim then multiSeps (self.pairs.map pairIds) self.sep true else []) := by
  unfold distributionGen
  by_cases h : dim = self.primaryDim
  · simp only [h, decide_true, if_true]
    rw [dist_body, forEach_push_map]
    simp [multiSeps, List.map_map, Function.comp_def]
  · simp [h]

/-- no `InvalidConstraint` is thrown iff … here: if both alignments of every pair have their guideline variable -/
theorem multiSep_pre_true (dim : Dim) (nvars : Nat) (cs : List Sep) (self : MultiCC)
    (hv : dim = self.primaryDim → ∀ p ∈ self.pairs, p.1.var.isSome = true ∧ p.2.var.isSome = true) :
    multiSepGen_pre dim nvars cs () self = true := by
  unfold multiSepGen_pre
  by_cases h : dim = self.primaryDim
  · simp only [h, decide_true, if_true, Bool.and_true]
    refine forEachPre_of_inv (fun _ => True) _ _ _ _ trivial (fun p hp s _ => ⟨?_, trivial⟩)
    have := hv h p hp
    unfold multiSepGen_body1_pre
    simp [this.1, this.2]
  · simp [h]

theorem distribution_pre_true (dim : Dim) (nvars : Nat) (cs : List Sep) (self : MultiCC)
    (hv : dim = self.primaryDim → ∀ p ∈ self.pairs, p.1.var.isSome = true ∧ p.2.var.isSome = true) :
    distributionGen_pre dim nvars cs () self = true := by
  unfold distributionGen_pre
  by_cases h : dim = self.primaryDim
  · simp only [h, decide_true, if_true, Bool.and_true]
    refine forEachPre_of_inv (fun _ => True) _ _ _ _ trivial (fun p hp s _ => ⟨?_, trivial⟩)
    have := hv h p hp
    unfold distributionGen_body1_pre
    simp [this.1, this.2]
  · simp [h]

/-! ### FixedRelative (loop with `continue`) -/

theorem fixedRel_body (dim : Dim) (nvars : Nat) (self : FixedRelCC) :
    fixedRelGen_body1 dim nvars self = fun item s => s ++ fixedRelSeps dim [item] := by
  funext item s
  unfold fixedRelGen_body1 fixedRelSeps
  by_cases h : item.dim = dim
  · have h' : ¬ dim ≠ item.dim := fun hn => hn h.symm
    simp [h, h']
  · have h' : dim ≠ item.dim := fun hn => h hn.symm
    simp [h, h']

theorem fixedRelSeps_cons (dim : Dim) (o : RelOff) (os : List RelOff) :
    fixedRelSeps dim (o :: os) = fixedRelSeps dim [o] ++ fixedRelSeps dim os := by
  unfold fixedRelSeps
  by_cases h : o.dim = dim <;> simp [List.filter_cons, h]

theorem fixedRelSeps_flatMap (dim : Dim) (rel : List RelOff) :
    rel.flatMap (fun o => fixedRelSeps dim [o]) = fixedRelSeps dim rel := by
  induction rel with
  | nil => rfl
  | cons o os ih => rw [List.flatMap_cons, ih]; exact (fixedRelSeps_cons dim o os).symm

theorem fixedRel_eq (dim : Dim) (nvars : Nat) (cs : List Sep) (self : FixedRelCC) :
    fixedRelGen dim nvars cs () self = cs ++ fixedRelSeps dim self.rel := by
  unfold fixedRelGen
  simp only []
  rw [fixedRel_body, forEach_append_flatMap, fixedRelSeps_flatMap]

theorem fixedRel_pre_true (dim : Dim) (nvars : Nat) (cs : List Sep) (self : FixedRelCC)
    (hidx : ∀ o ∈ self.rel, o.dim = dim → o.first < nvars ∧ o.second < nvars) :
    fixedRelGen_pre dim nvars cs () self = true := by
  unfold fixedRelGen_pre
  simp only [Bool.and_true]
  refine forEachPre_of_inv (fun _ => True) _ _ _ _ trivial (fun o ho s _ => ⟨?_, trivial⟩)
  unfold fixedRelGen_body1_pre
  by_cases h : o.dim = dim
  · have h' : ¬ dim ≠ o.dim := fun hn => hn h.symm
    have := hidx o ho h
    simp [h', this.1, this.2]
  · have h' : dim ≠ o.dim := fun hn => h hn.symm
    simp [h']

/-! ### PageBoundary -/

/-- the model's `(id, halfWidth, halfHeight)` triple of a `PageBoundaryShapeOffsets` -/
def shapeTriple (s : PageShapeK) : Nat × Rat × Rat := (s.varIndex, s.halfDim .x, s.halfDim .y)

theorem page_body (dim : Dim) (nvars : Nat) (self : PageCC) :
    pageBoundaryGen_body1 dim nvars self = fun item s => s ++ pageSeps dim (self.vl dim) (self.vr dim) [shapeTriple item] := by
  funext item s
  unfold pageBoundaryGen_body1 pageSeps shapeTriple
  cases hl : self.vl dim <;> cases hr : self.vr dim <;> cases dim <;> simp

theorem pageSeps_cons (dim : Dim) (vl vr : Option Nat) (s : Nat × Rat × Rat) (ss : List (Nat × Rat × Rat)) :
    pageSeps dim vl vr (s :: ss) = pageSeps dim vl vr [s] ++ pageSeps dim vl vr ss := by
  unfold pageSeps
  simp only [List.flatMap_cons, List.flatMap_nil, List.append_nil]

theorem pageSeps_flatMap (dim : Dim) (vl vr : Option Nat) (shapes : List (Nat × Rat × Rat)) :
    shapes.flatMap (fun s => pageSeps dim vl vr [s]) = pageSeps dim vl vr shapes := by
  induction shapes with
  | nil => rfl
  | cons s ss ih => rw [List.flatMap_cons, ih]; exact (pageSeps_cons dim vl vr s ss).symm

theorem pageBoundary_eq (dim : Dim) (nvars : Nat) (cs : List Sep) (self : PageCC) :
    pageBoundaryGen dim nvars cs () self = cs ++ pageSeps dim (self.vl dim) (self.vr dim) (self.shapes.map shapeTriple) := by
  unfold pageBoundaryGen
  simp only []
  rw [page_body, forEach_append_flatMap, ← pageSeps_flatMap, List.flatMap_map]

theorem pageBoundary_pre_true (dim : Dim) (nvars : Nat) (cs : List Sep) (self : PageCC)
    (hidx : ∀ s ∈ self.shapes, s.varIndex < nvars) :
    pageBoundaryGen_pre dim nvars cs () self = true := by
  unfold pageBoundaryGen_pre
  simp only [Bool.and_true]
  refine forEachPre_of_inv (fun _ => True) _ _ _ _ trivial (fun o ho s _ => ⟨?_, trivial⟩)
  unfold pageBoundaryGen_body1_pre
  have := hidx o ho
  cases hl : self.vl dim <;> cases hr : self.vr dim <;> simp [this]

end AdaptaVerif.Lemmas.CompoundBridge
