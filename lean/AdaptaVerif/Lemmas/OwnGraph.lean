/-
Soundness of the own-search-space certificate checker (Check/OwnGraph.lean).
True move lengths live in an arbitrary ordered field K (ℝ, Euclidean length); the checker sees enclosures.
-/
import AdaptaVerif.Check.OwnGraph
import AdaptaVerif.Lemmas.Potential
import Mathlib.Tactic.Linarith
import Mathlib.Tactic.Push
import Mathlib.Data.Rat.Cast.Order
namespace AdaptaVerif.Lemmas.OwnGraph
open AdaptaVerif.Check.Potential AdaptaVerif.Check.OwnGraph AdaptaVerif.Lemmas.Potential

variable {K : Type} [Field K] [LinearOrder K] [IsStrictOrderedRing K]

/-- `Route S tw t prev v c`: the search space contains a route from the state (v, prev) to the vertex t whose
    cost  Σ (true length + penalty · bends charged)  is c.  Every move is a listed edge and admissible
    (not straight back to the previous vertex, `validateBendPoint` holds); the first move out of a state
    without previous vertex is free of conditions and of bends. -/
inductive Route (S : Space) (tw : WEdge → K) (t : Nat) : Option Nat → Nat → K → Prop
  | done (prev : Option Nat) : Route S tw t prev t 0
  | step (prev : Option Nat) (e : WEdge) (c : K) : e ∈ S.edges → admissible S prev e.u e.v = true →
      Route S tw t (some e.u) e.v c →
      Route S tw t prev e.u (tw e + (S.pen : K) * ((bendOf S prev e.u e.v : Nat) : K) + c)

theorem feasStart_spec (S : Space) (π : Nat → Nat → Rat) (s : Nat) (h : feasStart S π s = true)
    (e : WEdge) (he : e ∈ S.edges) (hu : e.u = s) : π e.v e.u ≤ π s S.n + e.wlo := by
  unfold feasStart at h
  have := List.all_eq_true.mp h e he
  simp only [Bool.or_eq_true, bne_iff_ne, ne_eq, decide_eq_true_eq] at this
  rcases this with h1 | h1
  · exact absurd hu h1
  · exact h1

theorem feasInner_spec (S : Space) (π : Nat → Nat → Rat) (h : feasInner S π = true)
    (e1 e2 : WEdge) (h1 : e1 ∈ S.edges) (h2 : e2 ∈ S.edges) (hu : e2.u = e1.v) (hv : e2.v ≠ e1.u)
    (hok : S.ok e1.u e1.v e2.v = true) :
    π e2.v e2.u ≤ π e1.v e1.u + (e2.wlo + S.pen * (S.bend e1.u e1.v e2.v : Nat)) := by
  unfold feasInner at h
  have := List.all_eq_true.mp (List.all_eq_true.mp h e1 h1) e2 h2
  simp only [Bool.or_eq_true, bne_iff_ne, ne_eq, beq_iff_eq, Bool.not_eq_true', decide_eq_true_eq] at this
  rcases this with ((h3 | h3) | h3) | h3
  · exact absurd hu h3
  · exact absurd h3 hv
  · rw [hok] at h3; exact absurd h3 (by simp)
  · exact h3

theorem tarLo_spec (S : Space) (π : Nat → Nat → Rat) (t : Nat) (lo : Rat) (h : tarLo S π t lo = true)
    (e : WEdge) (he : e ∈ S.edges) (hv : e.v = t) : lo ≤ π e.v e.u := by
  unfold tarLo at h
  have := List.all_eq_true.mp h e he
  simp only [Bool.or_eq_true, bne_iff_ne, ne_eq, decide_eq_true_eq] at this
  rcases this with h1 | h1
  · exact absurd hv h1
  · exact h1

/-- weak duality on the state space: a feasible potential bounds every admissible route from below -/
theorem route_lower (S : Space) (π : Nat → Nat → Rat) (s t : Nat) (lo : Rat) (hst : s ≠ t)
    (hS : feasStart S π s = true) (hI : feasInner S π = true) (hT : tarLo S π t lo = true)
    (tw : WEdge → K) (hw : ∀ e ∈ S.edges, (e.wlo : K) ≤ tw e) :
    ∀ prev v c, Route S tw t prev v c → (prev = none → v = s) →
      (∀ p, prev = some p → ∃ e0 ∈ S.edges, e0.u = p ∧ e0.v = v) →
      (lo : K) ≤ ((π v (code S.n prev) : Rat) : K) + c := by
  intro prev v c h
  induction h with
  | done prev =>
    intro hn hp
    cases prev with
    | none => exact absurd (hn rfl).symm hst
    | some p =>
      obtain ⟨e0, he0, hu, hv⟩ := hp p rfl
      have := tarLo_spec S π t lo hT e0 he0 hv
      rw [hu, hv] at this
      have hc : (lo : K) ≤ ((π t p : Rat) : K) := by exact_mod_cast this
      simpa [code] using hc
  | step prev e c he hadm _ ih =>
    intro hn hp
    have ih' := ih (by intro h; cases h) (by
      intro p hpe
      cases hpe
      exact ⟨e, he, rfl, rfl⟩)
    simp only [code] at ih'
    have hwe := hw e he
    cases prev with
    | none =>
      have hs : e.u = s := hn rfl
      have hf := feasStart_spec S π s hS e he hs
      have hf' : ((π e.v e.u : Rat) : K) ≤ ((π s S.n : Rat) : K) + (e.wlo : K) := by exact_mod_cast hf
      simp only [code, bendOf, Nat.cast_zero, mul_zero, add_zero]
      rw [hs] at hf' ih' ⊢
      linarith
    | some p =>
      obtain ⟨e0, he0, hu0, hv0⟩ := hp p rfl
      simp only [admissible, Bool.and_eq_true, bne_iff_ne, ne_eq] at hadm
      have hf := feasInner_spec S π hI e0 e he0 he hv0.symm (by rw [hu0]; exact hadm.1)
        (by rw [hu0, hv0]; exact hadm.2)
      rw [hu0, hv0] at hf
      have hf' : ((π e.v e.u : Rat) : K) ≤ ((π e.u p : Rat) : K) +
          ((e.wlo : K) + (S.pen : K) * ((S.bend p e.u e.v : Nat) : K)) := by exact_mod_cast hf
      simp only [code, bendOf]
      linarith

/-- a vertex path accepted by `routeHi` is an admissible route whose true cost is at most the returned bound -/
theorem routeHi_route (S : Space) (tw : WEdge → K) (hw : ∀ e ∈ S.edges, tw e ≤ (e.whi : K)) (t : Nat) :
    ∀ (path : List Nat) (prev : Option Nat) (v : Nat) (hi : Rat), path.head? = some v → path.getLast? = some t →
      routeHi S prev path = some hi → ∃ c, Route S tw t prev v c ∧ c ≤ (hi : K) := by
  intro path
  induction path with
  | nil => intro prev v hi h; simp at h
  | cons x rest ih =>
    intro prev v hi hh hl hp
    have hxv : x = v := by simpa using hh
    subst hxv
    cases rest with
    | nil =>
      have hb : x = t := by simpa using hl
      subst hb
      simp only [routeHi, Option.some.injEq] at hp
      subst hp
      exact ⟨0, Route.done prev, by simp⟩
    | cons y rest' =>
      simp only [routeHi] at hp
      cases hfe : findEdge S.edges x y with
      | none => simp [hfe] at hp
      | some e =>
        cases hrec : routeHi S (some x) (y :: rest') with
        | none => simp [hfe, hrec] at hp
        | some c' =>
          simp only [hfe, hrec] at hp
          obtain ⟨heE, heu, hev⟩ := findEdge_some S.edges x y e hfe
          by_cases hadm : admissible S prev x y = true
          · simp only [hadm, if_true, Option.some.injEq] at hp
            have hl' : (y :: rest').getLast? = some t := by
              simpa [List.getLast?_cons_cons] using hl
            obtain ⟨c, hroute, hc⟩ := ih (some x) y c' (by simp) hl' hrec
            refine ⟨tw e + (S.pen : K) * ((bendOf S prev x y : Nat) : K) + c, ?_, ?_⟩
            · have := Route.step (tw := tw) (t := t) prev e c heE (by rw [heu, hev]; exact hadm)
                (by rw [heu, hev]; exact hroute)
              rw [heu, hev] at this
              exact this
            · have h1 := hw e heE
              subst hp
              push_cast
              linarith
          · simp [hadm] at hp

theorem checkOwn_sound_aux (S : Space) (π : Nat → Nat → Rat) (s t : Nat) (path : List Nat) (lo hi : Rat)
    (h : checkOwn S π s t path = some (lo, hi))
    (tw : WEdge → K) (hw : ∀ e ∈ S.edges, (e.wlo : K) ≤ tw e ∧ tw e ≤ (e.whi : K)) :
    (∀ c, Route S tw t none s c → (lo : K) ≤ c) ∧ (∃ c, Route S tw t none s c ∧ c ≤ (hi : K)) := by
  unfold checkOwn at h
  cases hm : minArrival S π t with
  | none => simp [hm] at h
  | some lo' =>
    simp only [hm] at h
    split at h
    · rename_i hc
      obtain ⟨hst, h0, hS, hI, hT, hh, hl⟩ := hc
      cases hr : routeHi S none path with
      | none => simp [hr] at h
      | some hi' =>
        simp only [hr, Option.map_some, Option.some.injEq, Prod.mk.injEq] at h
        obtain ⟨rfl, rfl⟩ := h
        constructor
        · intro c hc
          have := route_lower S π s t lo' hst hS hI hT tw (fun e he => (hw e he).1) none s c hc (fun _ => rfl)
            (by intro p hp; cases hp)
          simp only [code] at this
          rw [h0] at this
          simpa using this
        · exact routeHi_route S tw (fun e he => (hw e he).2) t path none s hi' hh hl hr
    · simp at h

end AdaptaVerif.Lemmas.OwnGraph
