/-
Helpers for Props/C10Tie.lean: the C++ object (`SegK`) that corresponds to a model segment, and the
early-return loop of `hasCheckpointAtPosition`.
-/
import AdaptaVerif.Gen.NudgeK
import AdaptaVerif.Model.NudgeRegion
namespace AdaptaVerif.Lemmas.NudgeBridge
open AdaptaVerif.Model.Nudge AdaptaVerif.Model.NudgeRegion AdaptaVerif.Model.NudgeKeys
open AdaptaVerif.Gen

/-- a point with coordinate `p` in dimension `dim` and `a` in the other dimension -/
def ptOf (dim : Nat) (p a : Rat) : PtL := if dim = 0 then [p, a] else [a, p]

/-- the C++ object for model segment `s` in nudging dimension `dim` -/
def toK (o : ROpts) (dim : Nat) (s : RSeg) : SegK :=
  { ps := [ptOf dim s.pos s.lo, ptOf dim s.pos s.hi], lowIdx := 0, highIdx := 1, conn := s.conn,
    nudgeDist := o.base, fsp := o.fsp, nudgeColinear := o.nudgeColinear, nudgeFinal := o.nudgeFinal,
    dimension := dim, minSpaceLimit := s.minLim, maxSpaceLimit := s.maxLim, fixed := s.fixed,
    finalSegment := s.finalSeg, endsInShape := s.endsInShape, singleConnectedSegment := s.single,
    sBend := s.sBend, zBend := s.zBend, checkpoints := s.cps.map (fun c => ptOf dim c.1 c.2), var_ := none }

theorem dim_cases {dim : Nat} (h : dim < 2) : dim = 0 ∨ dim = 1 := by omega

theorem hasCps_toK (o : ROpts) (dim : Nat) (s : RSeg) :
    decide ((toK o dim s).checkpoints.length > 0) = s.hasCps := by
  simp only [toK, List.length_map, RSeg.hasCps]
  cases s.cps <;> simp


/-- the early-return loop of `hasCheckpointAtPosition` scans the checkpoints from index `cp` -/
theorem hasCp_loop (position : Rat) (d : Nat) (self : SegK) (bound : Nat) : ∀ (fuel cp : Nat),
    cp + fuel = self.checkpoints.length →
    (NudgeK.hasCheckpointAtPosition_loop1 position d self bound fuel cp).1 =
      if (self.checkpoints.drop cp).any (fun c => decide (c.getD d default = position)) then some true else none := by
  intro fuel
  induction fuel with
  | zero =>
    intro cp h
    have : self.checkpoints.drop cp = [] := List.drop_eq_nil_of_le (by omega)
    simp [NudgeK.hasCheckpointAtPosition_loop1, this]
  | succ n ih =>
    intro cp h
    have hlt : cp < self.checkpoints.length := by omega
    have hd : self.checkpoints.drop cp = self.checkpoints[cp] :: self.checkpoints.drop (cp + 1) :=
      List.drop_eq_getElem_cons hlt
    have hg : self.checkpoints.getD cp default = self.checkpoints[cp] := by
      simp [List.getD, List.getElem?_eq_getElem hlt]
    unfold NudgeK.hasCheckpointAtPosition_loop1
    rw [hd, List.any_cons, hg]
    by_cases hc : self.checkpoints[cp].getD d default = position
    · simp only [hc, decide_true, if_true, Bool.true_or]
    · simp only [hc, decide_false, Bool.false_eq_true, if_false, Bool.false_or]
      exact ih (cp + 1) (by omega)

/-- the in-bounds obligations of that loop (`cp < checkpoints.size()`, `dim < 2` for the point read) hold when every
    checkpoint has more than `d` coordinates -/
theorem hasCp_loop_pre (position : Rat) (d : Nat) (self : SegK) (bound : Nat)
    (hlen : ∀ c ∈ self.checkpoints, d < c.length) : ∀ (fuel cp : Nat),
    cp + fuel = self.checkpoints.length →
    NudgeK.hasCheckpointAtPosition_loop1_pre position d self bound fuel cp = true := by
  intro fuel
  induction fuel with
  | zero => intro cp _; simp [NudgeK.hasCheckpointAtPosition_loop1_pre]
  | succ n ih =>
    intro cp h
    have hlt : cp < self.checkpoints.length := by omega
    have hg : self.checkpoints.getD cp default = self.checkpoints[cp] := by
      simp [List.getD, List.getElem?_eq_getElem hlt]
    have hd := hlen _ (List.getElem_mem hlt)
    unfold NudgeK.hasCheckpointAtPosition_loop1_pre
    rw [hg]
    simp only [hlt, hd, decide_true, Bool.and_self, Bool.true_and]
    split
    · rfl
    · exact ih (cp + 1) (by omega)

/-- the checkpoints of the C++ object built from a model segment are two-coordinate points -/
theorem toK_cp_len (o : ROpts) (dim : Nat) (s : RSeg) : ∀ c ∈ (toK o dim s).checkpoints, c.length = 2 := by
  intro c hc
  simp only [toK, List.mem_map] at hc
  obtain ⟨x, _, rfl⟩ := hc
  unfold ptOf; split <;> rfl

end AdaptaVerif.Lemmas.NudgeBridge
