/-
The two rewrites of `Model/TopoCons` (`bendSatisfy` = BendConstraint::satisfy, `straightSatisfy` =
StraightConstraint::satisfy): what they do to the path, to the StraightConstraint lists, and why
they keep the side of every node w.r.t. every edge.
-/
import AdaptaVerif.Model.TopoCons
import AdaptaVerif.Check.Topo
import AdaptaVerif.Lemmas.Topo
import Mathlib.Tactic.Linarith
import Mathlib.Tactic.Ring
import Mathlib.Tactic.FieldSimp
import Mathlib.Algebra.Order.Field.Rat
namespace AdaptaVerif.Lemmas.TopoConsRewrite
open AdaptaVerif.Model.TopoCons AdaptaVerif.Model.TopoTransfer
open AdaptaVerif.Check.Topo AdaptaVerif.Lemmas.Topo

/-! ### A. bendSatisfy -/

/-- inversion of `bendSatisfy` -/
theorem bendSatisfy_inv {d : Nat} {st st' : EdgeSt} {i : Nat} (h : bendSatisfy d st i = some st') :
    0 < i ∧ ∃ u v w, st.pts[i - 1]? = some u ∧ st.pts[i]? = some v ∧ st.pts[i + 1]? = some w ∧
      st' = { st with
        pts := st.pts.eraseIdx i
        scs := st.scs.take (i - 1) ++
          [((st.scs.getD (i - 1) []) ++ (st.scs.getD i [])).filterMap (transfer d ⟨st.id, i - 1, u, w⟩) ++
            (createStraight d ⟨st.id, i - 1, u, w⟩ v.node (v.pos (conj d))).toList] ++
          st.scs.drop (i + 1) } := by
  unfold bendSatisfy at h
  by_cases hi : i = 0
  · simp [hi] at h
  · rw [if_neg hi] at h
    refine ⟨Nat.pos_of_ne_zero hi, ?_⟩
    cases hu : st.pts[i - 1]? with
    | none => simp [hu] at h
    | some u =>
      cases hv : st.pts[i]? with
      | none => simp [hu, hv] at h
      | some v =>
        cases hw : st.pts[i + 1]? with
        | none => simp [hu, hv, hw] at h
        | some w =>
          simp only [hu, hv, hw, Option.some.injEq] at h
          exact ⟨u, v, w, rfl, rfl, rfl, h.symm⟩

theorem bendSatisfy_pts {d : Nat} {st st' : EdgeSt} {i : Nat} (h : bendSatisfy d st i = some st') :
    0 < i ∧ i + 1 < st.pts.length ∧ st'.pts = st.pts.eraseIdx i ∧ st'.id = st.id := by
  obtain ⟨hi, u, v, w, hu, hv, hw, rfl⟩ := bendSatisfy_inv h
  refine ⟨hi, ?_, rfl, rfl⟩
  exact (List.getElem?_eq_some_iff.mp hw).1

/-- non-vacuity: a three point path whose middle bend is pruned -/
def exNode (id : Nat) (x y : Rat) : Node := ⟨id, ⟨x, x + 2, y, y + 2⟩⟩

example : bendSatisfy 0 ⟨7, [⟨exNode 0 0 0, 4⟩, ⟨exNode 1 8 10, 1⟩, ⟨exNode 2 20 20, 4⟩], [[], []]⟩ 1 =
    some ⟨7, [⟨exNode 0 0 0, 4⟩, ⟨exNode 2 20 20, 4⟩], [[⟨exNode 1 8 10, 1, 10, true, 9 / 20, -1⟩]]⟩ := by
  decide +kernel

theorem bendSatisfy_removes_exactly {d : Nat} {st st' : EdgeSt} {i : Nat}
    (h : bendSatisfy d st i = some st') :
    st'.pts.length + 1 = st.pts.length ∧
      ∀ k, st'.pts[k]? = if k < i then st.pts[k]? else st.pts[k + 1]? := by
  obtain ⟨hi, hlen, hp, _⟩ := bendSatisfy_pts h
  rw [hp]
  constructor
  · rw [List.length_eraseIdx]; split <;> omega
  · intro k
    rw [List.getElem?_eraseIdx]

theorem bendSatisfy_ends {d : Nat} {st st' : EdgeSt} {i : Nat} (h : bendSatisfy d st i = some st') :
    st'.pts.head? = st.pts.head? ∧ st'.pts.getLast? = st.pts.getLast? := by
  obtain ⟨hlen', hk⟩ := bendSatisfy_removes_exactly h
  obtain ⟨hi, hlen, _, _⟩ := bendSatisfy_pts h
  constructor
  · rw [List.head?_eq_getElem?, List.head?_eq_getElem?, hk 0, if_pos hi]
  · rw [List.getLast?_eq_getElem?, List.getLast?_eq_getElem?, hk]
    have e : st'.pts.length - 1 + 1 = st.pts.length - 1 := by omega
    rw [if_neg (by omega), e]

/-! ### B. straightSatisfy -/

/-- the other constraints of the split segment -/
def othersOf (st : EdgeSt) (j k : Nat) : List SC :=
  ((st.scs.getD j []).zipIdx.filter fun ci => ci.2 != k).map (·.1)

/-- `transferStraightConstraintChoose`: is `c'` sent to the first half `s1`? -/
def toFirstHalf (d : Nat) (s1 s2 : Seg) (c' : SC) : Bool :=
  destIsLeft d c'.ri c'.pos (if decide (s1.lo d < s2.hi d) then s1.hi d else s2.hi d)
    == decide (s1.lo d < s2.hi d)

/-- inversion of `straightSatisfy` -/
theorem straightSatisfy_inv {d : Nat} {st st' : EdgeSt} {j k : Nat}
    (h : straightSatisfy d st j k = some st') :
    ∃ a b c, st.pts[j]? = some a ∧ st.pts[j + 1]? = some b ∧ (st.scs.getD j [])[k]? = some c ∧
      st' = { st with
        pts := st.pts.take (j + 1) ++ [⟨c.node, c.ri⟩] ++ st.pts.drop (j + 1)
        scs := st.scs.take j ++
          [((othersOf st j k).filter (toFirstHalf d ⟨st.id, j, a, ⟨c.node, c.ri⟩⟩
                ⟨st.id, j + 1, ⟨c.node, c.ri⟩, b⟩)).filterMap
              (transfer d ⟨st.id, j, a, ⟨c.node, c.ri⟩⟩),
           ((othersOf st j k).filter fun c' => !toFirstHalf d ⟨st.id, j, a, ⟨c.node, c.ri⟩⟩
                ⟨st.id, j + 1, ⟨c.node, c.ri⟩, b⟩ c').filterMap
              (transfer d ⟨st.id, j + 1, ⟨c.node, c.ri⟩, b⟩)] ++
          st.scs.drop (j + 1) } := by
  unfold straightSatisfy at h
  cases ha : st.pts[j]? with
  | none => simp [ha] at h
  | some a =>
    cases hb : st.pts[j + 1]? with
    | none => simp [ha, hb] at h
    | some b =>
      cases hc : (st.scs.getD j [])[k]? with
      | none => simp only [ha, hb, hc, reduceCtorEq] at h
      | some c =>
        simp only [ha, hb, hc, Option.some.injEq] at h
        exact ⟨a, b, c, rfl, rfl, rfl, h.symm⟩

theorem straightSatisfy_pts {d : Nat} {st st' : EdgeSt} {j k : Nat}
    (h : straightSatisfy d st j k = some st') :
    j + 1 < st.pts.length ∧ ∃ c, (st.scs.getD j [])[k]? = some c ∧
      st'.pts = st.pts.take (j + 1) ++ [⟨c.node, c.ri⟩] ++ st.pts.drop (j + 1) ∧ st'.id = st.id := by
  obtain ⟨a, b, c, ha, hb, hc, rfl⟩ := straightSatisfy_inv h
  exact ⟨(List.getElem?_eq_some_iff.mp hb).1, c, hc, rfl, rfl⟩

/-- non-vacuity: node 1 touches the only segment with its bottom right corner (the constraint is the
    one `createStraight` makes at the node's open event, and it is tight); it is satisfied, the
    segment split at that corner -/
def exSt : EdgeSt := ⟨7, [⟨exNode 0 0 0, 4⟩, ⟨exNode 2 20 20, 4⟩], [[⟨exNode 1 8 10, 1, 10, true, 9 / 20, -1⟩]]⟩

example : straightSatisfy 0 exSt 0 0 =
    some ⟨7, [⟨exNode 0 0 0, 4⟩, ⟨exNode 1 8 10, 1⟩, ⟨exNode 2 20 20, 4⟩], [[], []]⟩ := by decide +kernel

example : createStraight 0 ⟨7, 0, ⟨exNode 0 0 0, 4⟩, ⟨exNode 2 20 20, 4⟩⟩ (exNode 1 8 10) 10 =
    some ⟨exNode 1 8 10, 1, 10, true, 9 / 20, -1⟩ := by decide +kernel

example : gap 0 ⟨7, 0, ⟨exNode 0 0 0, 4⟩, ⟨exNode 2 20 20, 4⟩⟩ (exNode 1 8 10) 10 true = 0 := by
  decide +kernel

theorem straightSatisfy_keeps_points {d : Nat} {st st' : EdgeSt} {j k : Nat}
    (h : straightSatisfy d st j k = some st') :
    st'.pts.eraseIdx (j + 1) = st.pts ∧ st'.pts.length = st.pts.length + 1 := by
  obtain ⟨hlen, c, _, hp, _⟩ := straightSatisfy_pts h
  rw [hp]
  have hl : (st.pts.take (j + 1)).length = j + 1 := by rw [List.length_take]; omega
  constructor
  · rw [List.append_assoc, List.eraseIdx_append_of_length_le (by omega), hl, Nat.sub_self]
    simp
  · simp only [List.length_append, List.length_take, List.length_drop, List.length_cons,
      List.length_nil]
    omega

theorem straightSatisfy_ends {d : Nat} {st st' : EdgeSt} {j k : Nat}
    (h : straightSatisfy d st j k = some st') :
    st'.pts.head? = st.pts.head? ∧ st'.pts.getLast? = st.pts.getLast? := by
  obtain ⟨hlen, c, _, hp, _⟩ := straightSatisfy_pts h
  rw [hp]
  constructor
  · cases hpts : st.pts with
    | nil => simp [hpts] at hlen
    | cons x xs => simp
  · have hne : st.pts.drop (j + 1) ≠ [] := by
      intro he
      have := congrArg List.length he
      simp at this; omega
    rw [List.getLast?_append_of_ne_nil _ hne, List.getLast?_drop, if_neg (by omega)]

/-! ### C.1 a vertex on a leg keeps every crossing -/

theorem crossesLine_ne {ac bc c : Rat} (h : crossesLine ac bc c = true) : ac ≠ bc := by
  unfold crossesLine at h
  simp only [Bool.or_eq_true, Bool.and_eq_true, decide_eq_true_eq] at h
  intro he
  rcases h with ⟨h1, h2⟩ | ⟨h1, h2⟩ <;> linarith

/-- the conclusion of C.1 for the leg `(as,ac) - (bs,bc)` with the vertex `(vs,vc)` put on it -/
def SplitKeeps (as ac bs bc vs vc c : Rat) : Prop :=
  (crossesLine ac bc c = true ↔ (crossesLine ac vc c = true ∨ crossesLine vc bc c = true)) ∧
  ¬ (crossesLine ac vc c = true ∧ crossesLine vc bc c = true) ∧
  (crossesLine ac vc c = true → crossingAt as ac vs vc c = crossingAt as ac bs bc c) ∧
  (crossesLine vc bc c = true → crossingAt vs vc bs bc c = crossingAt as ac bs bc c)

theorem splitKeeps_of_param {as ac bs bc vs vc t : Rat} (c : Rat) (h0 : 0 ≤ t) (h1 : t ≤ 1)
    (hne : ac ≠ bc) (hvs : vs = as + t * (bs - as)) (hvc : vc = ac + t * (bc - ac)) :
    SplitKeeps as ac bs bc vs vc c := by
  have hmono : (ac ≤ vc ∧ vc ≤ bc) ∨ (bc ≤ vc ∧ vc ≤ ac) := by
    rcases le_total ac bc with hle | hle
    · left
      have e1 : 0 ≤ t * (bc - ac) := mul_nonneg h0 (by linarith)
      have e2 : 0 ≤ (1 - t) * (bc - ac) := mul_nonneg (by linarith) (by linarith)
      constructor <;> [linarith; (rw [hvc]; linarith)]
    · right
      have e1 : 0 ≤ t * (ac - bc) := mul_nonneg h0 (by linarith)
      have e2 : 0 ≤ (1 - t) * (ac - bc) := mul_nonneg (by linarith) (by linarith)
      constructor <;> (rw [hvc]; linarith)
  have hd : bc - ac ≠ 0 := fun he => hne (by linarith)
  refine ⟨crossesLine_split ac vc bc c hmono, crossesLine_split_excl ac vc bc c hmono, ?_, ?_⟩
  · intro hx
    have hvne := crossesLine_ne hx
    have ht : t ≠ 0 := by
      intro he; apply hvne; rw [hvc, he]; ring
    unfold crossingAt
    have e1 : vc - ac = t * (bc - ac) := by rw [hvc]; ring
    have e2 : vs - as = t * (bs - as) := by rw [hvs]; ring
    rw [e1, e2]
    field_simp
  · intro hx
    have hvne := crossesLine_ne hx
    have ht : 1 - t ≠ 0 := by
      intro he; apply hvne; rw [hvc]
      have : t = 1 := by linarith
      rw [this]; ring
    unfold crossingAt
    have e1 : bc - vc = (1 - t) * (bc - ac) := by rw [hvc]; ring
    have e2 : bs - vs = (1 - t) * (bs - as) := by rw [hvs]; ring
    have e3 : c - vc = (c - ac) - t * (bc - ac) := by rw [hvc]; ring
    rw [e1, e2, e3, hvs]
    field_simp
    ring

theorem split_preserves_crossings (as ac bs bc t c : Rat) (h0 : 0 ≤ t) (h1 : t ≤ 1) (hne : ac ≠ bc) :
    (crossesLine ac bc c = true ↔
      (crossesLine ac (ac + t * (bc - ac)) c = true ∨ crossesLine (ac + t * (bc - ac)) bc c = true)) ∧
    ¬ (crossesLine ac (ac + t * (bc - ac)) c = true ∧ crossesLine (ac + t * (bc - ac)) bc c = true) ∧
    (crossesLine ac (ac + t * (bc - ac)) c = true →
      crossingAt as ac (as + t * (bs - as)) (ac + t * (bc - ac)) c = crossingAt as ac bs bc c) ∧
    (crossesLine (ac + t * (bc - ac)) bc c = true →
      crossingAt (as + t * (bs - as)) (ac + t * (bc - ac)) bs bc c = crossingAt as ac bs bc c) :=
  splitKeeps_of_param c h0 h1 hne rfl rfl

/-! ### B.3 the new bend is the corner facing the segment, on the scan line -/

/-- inversion of `createStraight` -/
theorem createStraight_some {d : Nat} {sg : Seg} {n : Node} {pos : Rat} {c : SC}
    (h : createStraight d sg n pos = some c) :
    sg.connected n = false ∧ sg.parallel d = false ∧
      c.node = n ∧ c.pos = pos ∧ c.nodeLeft = decide (n.r.centre d < sg.inter d pos) ∧
      c.ri = cornerFor d n pos c.nodeLeft ∧ c.p = sg.param d pos ∧
      c.g = straightG d sg n (sg.param d pos) c.nodeLeft ∧
      ¬ (n.id = sg.s.node.id ∧ c.ri = sg.s.ri) ∧ ¬ (n.id = sg.e.node.id ∧ c.ri = sg.e.ri) := by
  unfold createStraight at h
  by_cases h1 : sg.connected n = true
  · rw [if_pos h1] at h; cases h
  rw [if_neg h1] at h
  by_cases h2 : sg.parallel d = true
  · rw [if_pos h2] at h; cases h
  rw [if_neg h2] at h
  simp only at h
  by_cases h3 : n.id = sg.s.node.id ∧
      cornerFor d n pos (decide (n.r.centre d < sg.inter d pos)) = sg.s.ri
  · rw [if_pos h3] at h; cases h
  rw [if_neg h3] at h
  by_cases h4 : n.id = sg.e.node.id ∧
      cornerFor d n pos (decide (n.r.centre d < sg.inter d pos)) = sg.e.ri
  · rw [if_pos h4] at h; cases h
  rw [if_neg h4] at h
  simp only [Option.some.injEq] at h
  subst h
  exact ⟨by simpa using h1, by simpa using h2, rfl, rfl, rfl, rfl, rfl, rfl, h3, h4⟩

theorem cornerFor_lt (d : Nat) (n : Node) (pos : Rat) (nl : Bool) : cornerFor d n pos nl < 4 := by
  unfold cornerFor
  split <;> split <;> split <;> decide

/-- position in the scan axis of the corner `cornerFor` picks: the side of the node facing the segment -/
theorem cornerFor_pos (d : Nat) (n : Node) (pos : Rat) (nl : Bool) :
    (⟨n, cornerFor d n pos nl⟩ : EPt).pos d = if nl then n.r.hi d else n.r.lo d := by
  unfold cornerFor EPt.pos Rect.hi Rect.lo
  by_cases hd : d = 0 <;> by_cases hp : pos < n.r.centre 1 <;> by_cases hq : pos < n.r.centre 0 <;>
    cases nl <;> simp [hd, hp, hq]

theorem centre_between {r : Rect} {d : Nat} (h : r.lo d < r.hi d) :
    r.lo d < r.centre d ∧ r.centre d < r.hi d := by
  unfold Rect.centre Rect.len
  constructor <;> linarith

/-- position across the scan axis of the corner `cornerFor` picks at an open / close event of the node -/
theorem cornerFor_pos_conj (d : Nat) (n : Node) (pos : Rat) (nl : Bool)
    (hpos : pos = n.r.lo (conj d) ∨ pos = n.r.hi (conj d)) (hlt : n.r.lo (conj d) < n.r.hi (conj d)) :
    (⟨n, cornerFor d n pos nl⟩ : EPt).pos (conj d) = pos := by
  obtain ⟨hc1, hc2⟩ := centre_between hlt
  by_cases hd : d = 0
  · subst hd
    have e : conj 0 = 1 := rfl
    rw [e] at hpos hc1 hc2 ⊢
    rcases hpos with hp | hp
    · have hlt' : pos < n.r.centre 1 := by rw [hp]; exact hc1
      have hcf : cornerFor 0 n pos nl = if nl then 1 else 2 := by
        unfold cornerFor; rw [if_pos rfl, if_pos hlt']
      rw [hcf, hp]; cases nl <;> simp [EPt.pos, Rect.lo]
    · have hlt' : ¬ pos < n.r.centre 1 := by rw [hp]; exact not_lt.mpr (le_of_lt hc2)
      have hcf : cornerFor 0 n pos nl = if nl then 0 else 3 := by
        unfold cornerFor; rw [if_pos rfl, if_neg hlt']
      rw [hcf, hp]; cases nl <;> simp [EPt.pos, Rect.hi]
  · have e : conj d = 0 := by unfold conj; rw [if_neg hd]
    rw [e] at hpos hc1 hc2 ⊢
    rcases hpos with hp | hp
    · have hlt' : pos < n.r.centre 0 := by rw [hp]; exact hc1
      have hcf : cornerFor d n pos nl = if nl then 3 else 2 := by
        unfold cornerFor; rw [if_neg hd, if_pos hlt']
      rw [hcf, hp]; cases nl <;> simp [EPt.pos, Rect.lo]
    · have hlt' : ¬ pos < n.r.centre 0 := by rw [hp]; exact not_lt.mpr (le_of_lt hc2)
      have hcf : cornerFor d n pos nl = if nl then 0 else 1 := by
        unfold cornerFor; rw [if_neg hd, if_neg hlt']
      rw [hcf, hp]; cases nl <;> simp [EPt.pos, Rect.hi]

/-- B.3 for a constraint created by the model on any segment `sg` -/
theorem created_bend_at_corner {d : Nat} {sg : Seg} {c : SC}
    (hcr : createStraight d sg c.node c.pos = some c) :
    c.ri < 4 ∧
    (⟨c.node, c.ri⟩ : EPt).pos d = (if c.nodeLeft then c.node.r.hi d else c.node.r.lo d) ∧
    ((c.pos = c.node.r.lo (conj d) ∨ c.pos = c.node.r.hi (conj d)) →
      c.node.r.lo (conj d) < c.node.r.hi (conj d) → (⟨c.node, c.ri⟩ : EPt).pos (conj d) = c.pos) := by
  obtain ⟨_, _, _, _, _, hri, _⟩ := createStraight_some hcr
  rw [hri]
  exact ⟨cornerFor_lt _ _ _ _, cornerFor_pos _ _ _ _, cornerFor_pos_conj _ _ _ _⟩

/-- a tight constraint: the facing side of the node is on the segment's line -/
theorem created_bend_on_segment {d : Nat} {sg : Seg} {c : SC}
    (hcr : createStraight d sg c.node c.pos = some c)
    (htight : gap d sg c.node c.pos c.nodeLeft = 0) :
    (⟨c.node, c.ri⟩ : EPt).pos d = sg.inter d c.pos := by
  rw [(created_bend_at_corner hcr).2.1]
  unfold gap at htight
  cases hnl : c.nodeLeft <;> simp only [hnl, if_true, if_false, Bool.false_eq_true] at htight ⊢ <;>
    linarith

theorem straightSatisfy_bend_at_corner {d : Nat} {st st' : EdgeSt} {j k : Nat}
    (h : straightSatisfy d st j k = some st') :
    ∃ a b c, st.pts[j]? = some a ∧ st.pts[j + 1]? = some b ∧ (st.scs.getD j [])[k]? = some c ∧
      st'.pts[j]? = some a ∧ st'.pts[j + 1]? = some ⟨c.node, c.ri⟩ ∧ st'.pts[j + 2]? = some b ∧
      (createStraight d ⟨st.id, j, a, b⟩ c.node c.pos = some c →
        c.ri < 4 ∧
        (⟨c.node, c.ri⟩ : EPt).pos d = (if c.nodeLeft then c.node.r.hi d else c.node.r.lo d) ∧
        ((c.pos = c.node.r.lo (conj d) ∨ c.pos = c.node.r.hi (conj d)) →
          c.node.r.lo (conj d) < c.node.r.hi (conj d) →
          (⟨c.node, c.ri⟩ : EPt).pos (conj d) = c.pos)) := by
  obtain ⟨a, b, c, ha, hb, hc, rfl⟩ := straightSatisfy_inv h
  have hlen : j + 1 < st.pts.length := (List.getElem?_eq_some_iff.mp hb).1
  have hl : (st.pts.take (j + 1)).length = j + 1 := by rw [List.length_take]; omega
  refine ⟨a, b, c, ha, hb, hc, ?_, ?_, ?_, created_bend_at_corner⟩
  · show (st.pts.take (j + 1) ++ [(⟨c.node, c.ri⟩ : EPt)] ++ st.pts.drop (j + 1))[j]? = some a
    rw [List.append_assoc, List.getElem?_append_left (by omega), List.getElem?_take_of_lt (by omega)]
    exact ha
  · show (st.pts.take (j + 1) ++ [(⟨c.node, c.ri⟩ : EPt)] ++ st.pts.drop (j + 1))[j + 1]? = _
    rw [List.append_assoc, List.getElem?_append_right (by omega), hl, Nat.sub_self]
    rfl
  · show (st.pts.take (j + 1) ++ [(⟨c.node, c.ri⟩ : EPt)] ++ st.pts.drop (j + 1))[j + 2]? = some b
    rw [List.append_assoc, List.getElem?_append_right (by omega), hl,
      List.getElem?_append_right (by simp), List.getElem?_drop]
    have e : j + 1 + (j + 2 - (j + 1) - [(⟨c.node, c.ri⟩ : EPt)].length) = j + 1 := by
      simp
    rw [e]; exact hb

theorem straightSatisfy_bend_on_segment {d : Nat} {st st' : EdgeSt} {j k : Nat} {a b : EPt} {c : SC}
    (_h : straightSatisfy d st j k = some st')
    (_ha : st.pts[j]? = some a) (_hb : st.pts[j + 1]? = some b) (_hc : (st.scs.getD j [])[k]? = some c)
    (hcr : createStraight d ⟨st.id, j, a, b⟩ c.node c.pos = some c)
    (htight : gap d ⟨st.id, j, a, b⟩ c.node c.pos c.nodeLeft = 0) :
    (⟨c.node, c.ri⟩ : EPt).pos d = (⟨st.id, j, a, b⟩ : Seg).inter d c.pos :=
  created_bend_on_segment hcr htight

/-! ### C.2, C.3 the rewrites keep every crossing -/

theorem param_mem {sg : Seg} {d : Nat} {pos : Rat} (hpar : sg.parallel d = false)
    (hlo : sg.lo d ≤ pos) (hhi : pos ≤ sg.hi d) :
    0 ≤ sg.param d pos ∧ sg.param d pos ≤ 1 := by
  unfold Seg.parallel at hpar
  have hne : sg.s.pos (conj d) ≠ sg.e.pos (conj d) := by simpa using hpar
  unfold Seg.lo at hlo
  unfold Seg.hi at hhi
  unfold Seg.param
  rcases lt_or_gt_of_ne hne with hlt | hgt
  · rw [if_pos (le_of_lt hlt)] at hlo
    rw [if_neg (not_lt.mpr (le_of_lt hlt))] at hhi
    have hpos : 0 < sg.e.pos (conj d) - sg.s.pos (conj d) := by linarith
    exact ⟨div_nonneg (by linarith) (le_of_lt hpos), (div_le_one hpos).mpr (by linarith)⟩
  · rw [if_neg (not_le.mpr hgt)] at hlo
    rw [if_pos hgt] at hhi
    have hpos : 0 < sg.s.pos (conj d) - sg.e.pos (conj d) := by linarith
    have e : (pos - sg.s.pos (conj d)) / (sg.e.pos (conj d) - sg.s.pos (conj d)) =
        (sg.s.pos (conj d) - pos) / (sg.s.pos (conj d) - sg.e.pos (conj d)) := by
      rw [← neg_div_neg_eq]; congr 1 <;> ring
    rw [e]
    exact ⟨div_nonneg (by linarith) (le_of_lt hpos), (div_le_one hpos).mpr (by linarith)⟩

/-- C.2: the bend inserted by `straightSatisfy` for a tight constraint created at an open / close
    event of its node lies on the old leg, so every scan line crosses the two new legs exactly where
    (and iff) it crossed the old one -/
theorem straightSatisfy_preserves_sides {d : Nat} {st st' : EdgeSt} {j k : Nat} {a b : EPt} {c : SC}
    (_h : straightSatisfy d st j k = some st')
    (_ha : st.pts[j]? = some a) (_hb : st.pts[j + 1]? = some b) (_hc : (st.scs.getD j [])[k]? = some c)
    (hcr : createStraight d ⟨st.id, j, a, b⟩ c.node c.pos = some c)
    (htight : gap d ⟨st.id, j, a, b⟩ c.node c.pos c.nodeLeft = 0)
    (hev : c.pos = c.node.r.lo (conj d) ∨ c.pos = c.node.r.hi (conj d))
    (hrect : c.node.r.lo (conj d) < c.node.r.hi (conj d))
    (hlo : (⟨st.id, j, a, b⟩ : Seg).lo d ≤ c.pos) (hhi : c.pos ≤ (⟨st.id, j, a, b⟩ : Seg).hi d)
    (c0 : Rat) :
    SplitKeeps (a.pos d) (a.pos (conj d)) (b.pos d) (b.pos (conj d))
      ((⟨c.node, c.ri⟩ : EPt).pos d) ((⟨c.node, c.ri⟩ : EPt).pos (conj d)) c0 := by
  obtain ⟨_, hpar, _⟩ := createStraight_some hcr
  obtain ⟨h0, h1⟩ := param_mem hpar hlo hhi
  have hne : a.pos (conj d) ≠ b.pos (conj d) := by
    unfold Seg.parallel at hpar; simpa using hpar
  have hd : b.pos (conj d) - a.pos (conj d) ≠ 0 := fun he => hne (by linarith)
  refine splitKeeps_of_param (t := (⟨st.id, j, a, b⟩ : Seg).param d c.pos) c0 h0 h1 hne ?_ ?_
  · rw [created_bend_on_segment hcr htight]; rfl
  · rw [(created_bend_at_corner hcr).2.2 hev hrect]
    show c.pos = a.pos (conj d) + (c.pos - a.pos (conj d)) / (b.pos (conj d) - a.pos (conj d)) *
      (b.pos (conj d) - a.pos (conj d))
    rw [div_mul_cancel₀ _ hd]; ring

/-- C.3: pruning a bend that lies on the leg joining its neighbours keeps every crossing -/
theorem bendSatisfy_preserves_sides {d : Nat} {st st' : EdgeSt} {i : Nat} {u v w : EPt} {t : Rat}
    (_h : bendSatisfy d st i = some st')
    (_hu : st.pts[i - 1]? = some u) (_hv : st.pts[i]? = some v) (_hw : st.pts[i + 1]? = some w)
    (h0 : 0 ≤ t) (h1 : t ≤ 1) (hne : u.pos (conj d) ≠ w.pos (conj d))
    (hvs : v.pos d = u.pos d + t * (w.pos d - u.pos d))
    (hvc : v.pos (conj d) = u.pos (conj d) + t * (w.pos (conj d) - u.pos (conj d))) (c0 : Rat) :
    SplitKeeps (u.pos d) (u.pos (conj d)) (w.pos d) (w.pos (conj d)) (v.pos d) (v.pos (conj d)) c0 :=
  splitKeeps_of_param c0 h0 h1 hne hvs hvc

/-! ### A.4, B.4 the StraightConstraint lists -/

theorem splice_take {α : Type} (l mid post : List α) (n : Nat) (hn : n ≤ l.length) :
    (l.take n ++ mid ++ post).take n = l.take n := by
  rw [List.append_assoc]
  exact List.take_left' (by rw [List.length_take]; omega)

theorem splice_drop {α : Type} (l mid post : List α) (n m : Nat) (hn : n ≤ l.length)
    (hm : m = n + mid.length) : (l.take n ++ mid ++ post).drop m = post := by
  exact List.drop_left' (by rw [List.length_append, List.length_take]; omega)

theorem splice_getD {α : Type} (l post : List α) (x : α) (ms : List α) (n : Nat) (hn : n ≤ l.length)
    (dflt : α) : (l.take n ++ (x :: ms) ++ post).getD n dflt = x := by
  rw [List.getD_eq_getElem?_getD, List.append_assoc,
    List.getElem?_append_right (by rw [List.length_take]; omega)]
  have e : n - (l.take n).length = 0 := by rw [List.length_take]; omega
  rw [e]; rfl

theorem splice_getD_succ {α : Type} (l post : List α) (x y : α) (ms : List α) (n : Nat)
    (hn : n ≤ l.length) (dflt : α) : (l.take n ++ (x :: y :: ms) ++ post).getD (n + 1) dflt = y := by
  rw [List.getD_eq_getElem?_getD, List.append_assoc,
    List.getElem?_append_right (by rw [List.length_take]; omega)]
  have e : n + 1 - (l.take n).length = 1 := by rw [List.length_take]; omega
  rw [e]; rfl

/-- what `createStraight` returns is a fixed point: it is the constraint `createStraight` makes for
    its own node and scan position -/
theorem createStraight_self {d : Nat} {sg : Seg} {n : Node} {pos : Rat} {c : SC}
    (h : createStraight d sg n pos = some c) : createStraight d sg c.node c.pos = some c := by
  obtain ⟨_, _, hn, hp, _⟩ := createStraight_some h
  rw [hn, hp]; exact h

theorem transfer_created {d : Nat} {sg : Seg} {c c' : SC} (h : transfer d sg c = some c') :
    createStraight d sg c'.node c'.pos = some c' := by
  unfold transfer at h
  split at h
  · cases h
  · exact createStraight_self h

/-- the merged segment's list after `bendSatisfy` -/
theorem bendSatisfy_scs_merged {d : Nat} {st st' : EdgeSt} {i : Nat} {u v w : EPt}
    (h : bendSatisfy d st i = some st')
    (hu : st.pts[i - 1]? = some u) (hv : st.pts[i]? = some v) (hw : st.pts[i + 1]? = some w)
    (hwf : i - 1 ≤ st.scs.length) :
    st'.scs.getD (i - 1) [] =
      ((st.scs.getD (i - 1) []) ++ (st.scs.getD i [])).filterMap (transfer d ⟨st.id, i - 1, u, w⟩) ++
        (createStraight d ⟨st.id, i - 1, u, w⟩ v.node (v.pos (conj d))).toList := by
  obtain ⟨hi, u', v', w', hu', hv', hw', hst⟩ := bendSatisfy_inv h
  obtain rfl : u' = u := Option.some.inj (hu'.symm.trans hu)
  obtain rfl : v' = v := Option.some.inj (hv'.symm.trans hv)
  obtain rfl : w' = w := Option.some.inj (hw'.symm.trans hw)
  subst hst
  exact splice_getD _ _ _ _ _ hwf _

theorem bendSatisfy_scs {d : Nat} {st st' : EdgeSt} {i : Nat} {u v w : EPt}
    (h : bendSatisfy d st i = some st')
    (hu : st.pts[i - 1]? = some u) (hv : st.pts[i]? = some v) (hw : st.pts[i + 1]? = some w) :
    (i - 1 ≤ st.scs.length → st'.scs.take (i - 1) = st.scs.take (i - 1)) ∧
    st'.scs.drop i = st.scs.drop (i + 1) ∧
    (∀ c ∈ st'.scs.getD (i - 1) [], createStraight d ⟨st.id, i - 1, u, w⟩ c.node c.pos = some c) ∧
    (i - 1 ≤ st.scs.length →
      ∀ c, createStraight d ⟨st.id, i - 1, u, w⟩ v.node (v.pos (conj d)) = some c →
        c ∈ st'.scs.getD (i - 1) []) ∧
    (i - 1 ≤ st.scs.length →
      ∀ c ∈ st.scs.getD (i - 1) [] ++ st.scs.getD i [], ∀ c',
        transfer d ⟨st.id, i - 1, u, w⟩ c = some c' → c' ∈ st'.scs.getD (i - 1) []) ∧
    (st.scs.length + 1 = st.pts.length → st'.scs.length + 1 = st'.pts.length) := by
  have hmerged := bendSatisfy_scs_merged h hu hv hw
  obtain ⟨hi, hlen, hpts, _⟩ := bendSatisfy_pts h
  obtain ⟨hi', u', v', w', hu', hv', hw', hst⟩ := bendSatisfy_inv h
  obtain rfl : u' = u := Option.some.inj (hu'.symm.trans hu)
  obtain rfl : v' = v := Option.some.inj (hv'.symm.trans hv)
  obtain rfl : w' = w := Option.some.inj (hw'.symm.trans hw)
  have hscs : st'.scs = st.scs.take (i - 1) ++
      [((st.scs.getD (i - 1) []) ++ (st.scs.getD i [])).filterMap (transfer d ⟨st.id, i - 1, u', w'⟩) ++
        (createStraight d ⟨st.id, i - 1, u', w'⟩ v'.node (v'.pos (conj d))).toList] ++
      st.scs.drop (i + 1) := by rw [hst]
  refine ⟨?_, ?_, ?_, ?_, ?_, ?_⟩
  · intro hwf
    rw [hscs]; exact splice_take _ _ _ _ hwf
  · by_cases hwf : i - 1 ≤ st.scs.length
    · rw [hscs]; exact splice_drop _ _ _ _ _ hwf (by simp; omega)
    · have hl : st'.scs.length ≤ i := by
        rw [hscs]
        simp only [List.length_append, List.length_take, List.length_drop, List.length_cons,
          List.length_nil]
        omega
      rw [List.drop_eq_nil_of_le hl, List.drop_eq_nil_of_le (by omega)]
  · by_cases hwf : i - 1 ≤ st.scs.length
    · rw [hmerged hwf]
      intro c hc
      rcases List.mem_append.mp hc with hc | hc
      · obtain ⟨c0, _, hc0⟩ := List.mem_filterMap.mp hc
        exact transfer_created hc0
      · exact createStraight_self (Option.mem_toList.mp hc)
    · have hnil : st'.scs.getD (i - 1) [] = [] := by
        rw [List.getD_eq_getElem?_getD, List.getElem?_eq_none]
        · rfl
        · rw [hscs]
          simp only [List.length_append, List.length_take, List.length_drop, List.length_cons,
            List.length_nil]
          omega
      rw [hnil]; intro c hc; cases hc
  · intro hwf c hc
    rw [hmerged hwf]
    exact List.mem_append_right _ (Option.mem_toList.mpr hc)
  · intro hwf c hc c' hc'
    rw [hmerged hwf]
    exact List.mem_append_left _ (List.mem_filterMap.mpr ⟨c, hc, hc'⟩)
  · intro hwf
    rw [hpts, hscs, List.length_eraseIdx, if_pos (by omega)]
    simp only [List.length_append, List.length_take, List.length_drop, List.length_cons,
      List.length_nil]
    omega

theorem mem_othersOf {st : EdgeSt} {j k : Nat} {c' : SC} :
    c' ∈ othersOf st j k ↔ ∃ k', k' ≠ k ∧ (st.scs.getD j [])[k']? = some c' := by
  unfold othersOf
  simp only [List.mem_map, List.mem_filter, List.mem_zipIdx_iff_getElem?, bne_iff_ne, ne_eq]
  constructor
  · rintro ⟨⟨x, k'⟩, ⟨hx, hk⟩, rfl⟩
    exact ⟨k', hk, hx⟩
  · rintro ⟨k', hk, hx⟩
    exact ⟨(c', k'), ⟨hx, hk⟩, rfl⟩

/-- `toFirstHalf` is the choice of `transferStraightConstraintChoose` as the model writes it -/
theorem toFirstHalf_def (d : Nat) (s1 s2 : Seg) (c' : SC) :
    toFirstHalf d s1 s2 c' =
      (destIsLeft d c'.ri c'.pos (if decide (s1.lo d < s2.hi d) then s1.hi d else s2.hi d)
        == decide (s1.lo d < s2.hi d)) := rfl

/-- the two halves' lists after `straightSatisfy` -/
theorem straightSatisfy_scs_halves {d : Nat} {st st' : EdgeSt} {j k : Nat} {a b : EPt} {c : SC}
    (h : straightSatisfy d st j k = some st')
    (ha : st.pts[j]? = some a) (hb : st.pts[j + 1]? = some b) (hc : (st.scs.getD j [])[k]? = some c) :
    j < st.scs.length ∧
    st'.scs = st.scs.take j ++
      [((othersOf st j k).filter (toFirstHalf d ⟨st.id, j, a, ⟨c.node, c.ri⟩⟩
            ⟨st.id, j + 1, ⟨c.node, c.ri⟩, b⟩)).filterMap (transfer d ⟨st.id, j, a, ⟨c.node, c.ri⟩⟩),
       ((othersOf st j k).filter fun c' => !toFirstHalf d ⟨st.id, j, a, ⟨c.node, c.ri⟩⟩
            ⟨st.id, j + 1, ⟨c.node, c.ri⟩, b⟩ c').filterMap
          (transfer d ⟨st.id, j + 1, ⟨c.node, c.ri⟩, b⟩)] ++ st.scs.drop (j + 1) ∧
    st'.scs.getD j [] =
      ((othersOf st j k).filter (toFirstHalf d ⟨st.id, j, a, ⟨c.node, c.ri⟩⟩
            ⟨st.id, j + 1, ⟨c.node, c.ri⟩, b⟩)).filterMap (transfer d ⟨st.id, j, a, ⟨c.node, c.ri⟩⟩) ∧
    st'.scs.getD (j + 1) [] =
      ((othersOf st j k).filter fun c' => !toFirstHalf d ⟨st.id, j, a, ⟨c.node, c.ri⟩⟩
            ⟨st.id, j + 1, ⟨c.node, c.ri⟩, b⟩ c').filterMap
          (transfer d ⟨st.id, j + 1, ⟨c.node, c.ri⟩, b⟩) := by
  obtain ⟨a', b', c', ha', hb', hc', hst⟩ := straightSatisfy_inv h
  obtain rfl : a' = a := Option.some.inj (ha'.symm.trans ha)
  obtain rfl : b' = b := Option.some.inj (hb'.symm.trans hb)
  obtain rfl : c' = c := Option.some.inj (hc'.symm.trans hc)
  have hj : j < st.scs.length := by
    by_contra hn
    have hnone : st.scs[j]? = none := List.getElem?_eq_none (Nat.le_of_not_lt hn)
    rw [List.getD_eq_getElem?_getD, hnone] at hc
    simp at hc
  subst hst
  exact ⟨hj, rfl, splice_getD _ _ _ _ _ (by omega) _, splice_getD_succ _ _ _ _ _ _ (by omega) _⟩

theorem straightSatisfy_scs {d : Nat} {st st' : EdgeSt} {j k : Nat} {a b : EPt} {c : SC}
    (h : straightSatisfy d st j k = some st')
    (ha : st.pts[j]? = some a) (hb : st.pts[j + 1]? = some b) (hc : (st.scs.getD j [])[k]? = some c) :
    st'.scs.take j = st.scs.take j ∧
    st'.scs.drop (j + 2) = st.scs.drop (j + 1) ∧
    (∀ c' ∈ st'.scs.getD j [],
      createStraight d ⟨st.id, j, a, ⟨c.node, c.ri⟩⟩ c'.node c'.pos = some c') ∧
    (∀ c' ∈ st'.scs.getD (j + 1) [],
      createStraight d ⟨st.id, j + 1, ⟨c.node, c.ri⟩, b⟩ c'.node c'.pos = some c') ∧
    (∀ c'', c'' ∈ st'.scs.getD j [] ↔
      ∃ k' c', k' ≠ k ∧ (st.scs.getD j [])[k']? = some c' ∧
        toFirstHalf d ⟨st.id, j, a, ⟨c.node, c.ri⟩⟩ ⟨st.id, j + 1, ⟨c.node, c.ri⟩, b⟩ c' = true ∧
        transfer d ⟨st.id, j, a, ⟨c.node, c.ri⟩⟩ c' = some c'') ∧
    (∀ c'', c'' ∈ st'.scs.getD (j + 1) [] ↔
      ∃ k' c', k' ≠ k ∧ (st.scs.getD j [])[k']? = some c' ∧
        toFirstHalf d ⟨st.id, j, a, ⟨c.node, c.ri⟩⟩ ⟨st.id, j + 1, ⟨c.node, c.ri⟩, b⟩ c' = false ∧
        transfer d ⟨st.id, j + 1, ⟨c.node, c.ri⟩, b⟩ c' = some c'') ∧
    (st.scs.length + 1 = st.pts.length → st'.scs.length + 1 = st'.pts.length) := by
  obtain ⟨hj, hscs, h1, h2⟩ := straightSatisfy_scs_halves h ha hb hc
  obtain ⟨_, hlen'⟩ := straightSatisfy_keeps_points h
  have m1 : ∀ c'', c'' ∈ st'.scs.getD j [] ↔
      ∃ k' c', k' ≠ k ∧ (st.scs.getD j [])[k']? = some c' ∧
        toFirstHalf d ⟨st.id, j, a, ⟨c.node, c.ri⟩⟩ ⟨st.id, j + 1, ⟨c.node, c.ri⟩, b⟩ c' = true ∧
        transfer d ⟨st.id, j, a, ⟨c.node, c.ri⟩⟩ c' = some c'' := by
    intro c''
    rw [h1, List.mem_filterMap]
    constructor
    · rintro ⟨c', hm, ht⟩
      obtain ⟨hm1, hm2⟩ := List.mem_filter.mp hm
      obtain ⟨k', hk', hg⟩ := mem_othersOf.mp hm1
      exact ⟨k', c', hk', hg, hm2, ht⟩
    · rintro ⟨k', c', hk', hg, hm2, ht⟩
      exact ⟨c', List.mem_filter.mpr ⟨mem_othersOf.mpr ⟨k', hk', hg⟩, hm2⟩, ht⟩
  have m2 : ∀ c'', c'' ∈ st'.scs.getD (j + 1) [] ↔
      ∃ k' c', k' ≠ k ∧ (st.scs.getD j [])[k']? = some c' ∧
        toFirstHalf d ⟨st.id, j, a, ⟨c.node, c.ri⟩⟩ ⟨st.id, j + 1, ⟨c.node, c.ri⟩, b⟩ c' = false ∧
        transfer d ⟨st.id, j + 1, ⟨c.node, c.ri⟩, b⟩ c' = some c'' := by
    intro c''
    rw [h2, List.mem_filterMap]
    constructor
    · rintro ⟨c', hm, ht⟩
      obtain ⟨hm1, hm2⟩ := List.mem_filter.mp hm
      obtain ⟨k', hk', hg⟩ := mem_othersOf.mp hm1
      exact ⟨k', c', hk', hg, by simpa using hm2, ht⟩
    · rintro ⟨k', c', hk', hg, hm2, ht⟩
      exact ⟨c', List.mem_filter.mpr ⟨mem_othersOf.mpr ⟨k', hk', hg⟩, by simpa using hm2⟩, ht⟩
  refine ⟨?_, ?_, ?_, ?_, m1, m2, ?_⟩
  · rw [hscs]; exact splice_take _ _ _ _ (by omega)
  · rw [hscs]; exact splice_drop _ _ _ _ _ (by omega) (by simp)
  · intro c' hc'
    obtain ⟨_, _, _, _, _, ht⟩ := (m1 c').mp hc'
    exact transfer_created ht
  · intro c' hc'
    obtain ⟨_, _, _, _, _, ht⟩ := (m2 c').mp hc'
    exact transfer_created ht
  · intro hwf
    rw [hlen', hscs]
    simp only [List.length_append, List.length_take, List.length_drop, List.length_cons,
      List.length_nil]
    omega

end AdaptaVerif.Lemmas.TopoConsRewrite
