/-
Lagrange multipliers on the active forest of the IncSolver model (for property C02).

For an active constraint `j` the multiplier is the sum of `q x = 2·w_x·(pos_x − d_x)/s_x` over the
variables on the right-hand side of `j` in the active tree (`mult`).  In a state satisfying the
block invariant whose blocks sit at their stationary position (`Σ_{x ∈ block} q x = 0`, which is
what `posn = (AD − AB)/A2` means), these multipliers satisfy the stationarity equation at every
variable:  `q v = Σ_{active j, r_j = v} mult j − Σ_{active j, l_j = v} mult j`.
-/
import AdaptaVerif.Lemmas.VpscLoop
import AdaptaVerif.Lemmas.Qp
namespace AdaptaVerif.Lemmas.VpscKkt
open AdaptaVerif.Model.Vpsc
open AdaptaVerif.Lemmas.VpscGraph AdaptaVerif.Lemmas.VpscInv AdaptaVerif.Lemmas.VpscWalk
open AdaptaVerif.Lemmas.VpscLoop (forest_of_inv)
open AdaptaVerif.Spec.Qp (sumTo)
open AdaptaVerif.Lemmas.Qp
open Relation Classical

/-- sum of `q` over the variables connected to `y` without using constraint `j` -/
noncomputable def sideSum (cons : Array Con) (n : Nat) (q : Nat → Rat) (j y : Nat) : Rat :=
  sumTo n (fun x => if ReachAvoid cons j y x then q x else 0)

/-- sum of `q` over the variables of block `b` -/
noncomputable def blockSum (vars : Array Var) (q : Nat → Rat) (b : Nat) : Rat :=
  sumTo vars.size (fun x => if blk vars x = b then q x else 0)

/-- the multiplier of constraint `j`: the `q`-sum of the right-hand side of `j` in the active tree
    (0 for constraints that are not active) -/
noncomputable def mult (cons : Array Con) (n : Nat) (q : Nat → Rat) (j : Nat) : Rat :=
  if (cons[j]!).active = true then sideSum cons n q j (cons[j]!).r else 0

theorem sumTo_comm (m n : Nat) (F : Nat → Nat → Rat) :
    sumTo m (fun j => sumTo n (fun x => F j x)) = sumTo n (fun x => sumTo m (fun j => F j x)) := by
  simp only [sumTo_eq_finset]
  exact Finset.sum_comm

theorem sumTo_eq_zero {n : Nat} {f : Nat → Rat} (h : ∀ i, i < n → f i = 0) : sumTo n f = 0 := by
  have : sumTo n f = sumTo n (fun _ => 0) := sumTo_congr h
  rw [this, sumTo_zero]

theorem sumTo_indicator_unique (m : Nat) (P : Nat → Prop) [DecidablePred P] (j0 : Nat) (hj0 : j0 < m) (h0 : P j0)
    (hu : ∀ j, j < m → P j → j = j0) :
    sumTo m (fun j => if P j then (1 : Rat) else 0) = 1 := by
  have : sumTo m (fun j => if P j then (1 : Rat) else 0) =
      sumTo m (fun j => if j0 = j then (fun _ => (1 : Rat)) j else 0) := by
    apply sumTo_congr
    intro j hj
    by_cases hp : P j
    · rw [if_pos hp, if_pos (hu j hj hp).symm]
    · have : j0 ≠ j := fun e => hp (e ▸ h0)
      rw [if_neg hp, if_neg this]
  rw [this, sumTo_ite, if_pos hj0]

theorem sumTo_indicator_none (m : Nat) (P : Nat → Prop) [DecidablePred P] (h : ∀ j, j < m → ¬ P j) :
    sumTo m (fun j => if P j then (1 : Rat) else 0) = 0 := by
  have : sumTo m (fun j => if P j then (1 : Rat) else 0) = sumTo m (fun _ => 0) := by
    apply sumTo_congr
    intro j hj
    rw [if_neg (h j hj)]
  rw [this, sumTo_zero]

section Sides
variable {vars : Array Var} {cons : Array Con} {nb : Nat} {ia : Array Nat}

/-- the two sides of an active constraint partition its block -/
theorem side_cases (h : InvC vars cons nb ia) (j : Nat) (hj : j < cons.size)
    (ha : (cons[j]!).active = true) (x : Nat) (hx : x < vars.size)
    (hb : blk vars x = blk vars (cons[j]!).r) :
    (ReachAvoid cons j (cons[j]!).r x ∧ ¬ ReachAvoid cons j (cons[j]!).l x) ∨
    (ReachAvoid cons j (cons[j]!).l x ∧ ¬ ReachAvoid cons j (cons[j]!).r x) := by
  have hbridge := h.bridge j hj ha
  have hreach : Reach cons (cons[j]!).r x := h.conn _ _ (h.r_lt j hj) hx hb.symm
  have hdec := reach_add_edge (R := Adj (fun k => k ≠ j) cons) (R' := Adj (fun _ => True) cons)
    (l := (cons[j]!).l) (r := (cons[j]!).r) (by
      intro a b ⟨k, _, hk⟩
      by_cases hkj : k = j
      · subst hkj
        obtain ⟨_, _, h3⟩ := hk
        rcases h3 with ⟨rfl, rfl⟩ | ⟨rfl, rfl⟩
        · exact Or.inr (Or.inl ⟨rfl, rfl⟩)
        · exact Or.inr (Or.inr ⟨rfl, rfl⟩)
      · exact Or.inl ⟨k, hkj, hk⟩) hreach
  have hnot : ∀ {a b}, ReachAvoid cons j (cons[j]!).r a → ReachAvoid cons j (cons[j]!).l b → a ≠ b := by
    intro a b h1 h2 e
    subst e
    exact hbridge (h2.trans h1.symm)
  rcases hdec with h1 | ⟨h1, _⟩ | ⟨_, h2⟩
  · exact Or.inl ⟨h1, fun h2 => hnot h1 h2 rfl⟩
  · exact absurd (ReachAvoid.symm h1) hbridge
  · exact Or.inr ⟨h2, fun h1 => hnot h1 h2 rfl⟩

theorem side_blk (h : InvC vars cons nb ia) {j y x : Nat} (hr : ReachAvoid cons j y x) :
    blk vars x = blk vars y := (h.reach_blk hr).symm

/-- right side + left side = whole block -/
theorem sideSum_add (h : InvC vars cons nb ia) (q : Nat → Rat) (j : Nat) (hj : j < cons.size)
    (ha : (cons[j]!).active = true) :
    sideSum cons vars.size q j (cons[j]!).r + sideSum cons vars.size q j (cons[j]!).l =
      blockSum vars q (blk vars (cons[j]!).r) := by
  unfold sideSum blockSum
  rw [← sumTo_add]
  apply sumTo_congr
  intro x hx
  by_cases hb : blk vars x = blk vars (cons[j]!).r
  · rw [if_pos hb]
    rcases side_cases h j hj ha x hx hb with ⟨h1, h2⟩ | ⟨h1, h2⟩
    · rw [if_pos h1, if_neg h2]; ring
    · rw [if_pos h1, if_neg h2]; ring
  · rw [if_neg hb]
    have h1 : ¬ ReachAvoid cons j (cons[j]!).r x := fun hh => hb (side_blk h hh)
    have h2 : ¬ ReachAvoid cons j (cons[j]!).l x := fun hh =>
      hb ((side_blk h hh).trans (h.tight j hj ha).1)
    rw [if_neg h1, if_neg h2]; ring

end Sides

section Incident
variable {vars : Array Var} {cons : Array Con} {nb : Nat} {ia : Array Nat}

/-- `x` lies beyond the active constraint `j` as seen from `v` -/
def Beyond (cons : Array Con) (v j x : Nat) : Prop :=
  ∃ y, AE cons j v y ∧ ReachAvoid cons j y x

theorem walk_nil_eq' {cons : Array Con} {x y : Nat} (h : Walk cons x y []) : x = y := by
  generalize hw : ([] : List Step) = W at h
  cases h with
  | nil => rfl
  | cons _ _ => simp at hw

/-- every other variable of the block of `v` lies beyond exactly one constraint incident to `v` -/
theorem beyond_unique (h : InvC vars cons nb ia) (v x : Nat) (hv : v < vars.size) (hx : x < vars.size)
    (hb : blk vars x = blk vars v) (hne : x ≠ v) :
    ∃ j0, j0 < cons.size ∧ Beyond cons v j0 x ∧ ∀ j, Beyond cons v j x → j = j0 := by
  have hf := forest_of_inv h
  obtain ⟨W, hW, hnb⟩ := exists_nb_walk (h.conn v x hv hx hb.symm)
  have hnd := Walk.nodup hf hW hnb
  cases hW with
  | nil => exact absurd rfl hne
  | @cons j0 a y c rest hae hrest =>
    have havoid : ∀ s ∈ rest, s.1 ≠ j0 := by
      intro s hs heq
      rw [List.map_cons, List.nodup_cons] at hnd
      exact hnd.1 (by rw [← heq]; exact List.mem_map.2 ⟨s, hs, rfl⟩)
    have hy : ReachAvoid cons j0 y x := Walk.reachAvoid hrest havoid
    refine ⟨j0, hae.1, ⟨y, hae, hy⟩, ?_⟩
    intro j ⟨y', hae', hy'⟩
    by_contra hjne
    have hdec := reach_add_edge (R := Adj (fun k => k ≠ j ∧ k ≠ j0) cons)
      (R' := Adj (fun k => k ≠ j) cons) (l := v) (r := y) (by
        intro a b ⟨k, hk, hkae⟩
        by_cases hk0 : k = j0
        · subst hk0
          rcases ae_ends hae hkae with ⟨rfl, rfl⟩ | ⟨rfl, rfl⟩
          · exact Or.inr (Or.inl ⟨rfl, rfl⟩)
          · exact Or.inr (Or.inr ⟨rfl, rfl⟩)
        · exact Or.inl ⟨k, ⟨hk, hk0⟩, hkae⟩) hy'
    have toJ : ∀ {a b}, ReflTransGen (Adj (fun k => k ≠ j ∧ k ≠ j0) cons) a b → ReachAvoid cons j a b :=
      fun hab => rtg_mono (fun _ _ ⟨k, hk, hh⟩ => ⟨k, hk.1, hh⟩) hab
    have toJ0 : ∀ {a b}, ReflTransGen (Adj (fun k => k ≠ j ∧ k ≠ j0) cons) a b → ReachAvoid cons j0 a b :=
      fun hab => rtg_mono (fun _ _ ⟨k, hk, hh⟩ => ⟨k, hk.2, hh⟩) hab
    rcases hdec with h1 | ⟨h1, _⟩ | ⟨_, h2⟩
    · -- y' ~ x avoiding both, x ~ y avoiding j0, and v –j– y' : v ~ y avoiding j0
      have : ReachAvoid cons j0 v y :=
        ReflTransGen.head ⟨j, hjne, hae'⟩ ((toJ0 h1).trans hy.symm)
      exact hf _ _ _ hae this
    · exact hf _ _ _ hae' (toJ h1).symm
    · exact hf _ _ _ hae ((toJ0 h2).trans hy.symm)

theorem beyond_none (h : InvC vars cons nb ia) (v x : Nat)
    (hx : x = v ∨ blk vars x ≠ blk vars v) (j : Nat) : ¬ Beyond cons v j x := by
  rintro ⟨y, hae, hy⟩
  rcases hx with rfl | hb
  · exact forest_of_inv h _ _ _ hae hy.symm
  · exact hb ((h.reach_blk hy).symm.trans (h.ae_blk hae).symm)

/-- the number of incident constraints beyond which `x` lies -/
theorem beyond_count (h : InvC vars cons nb ia) (v x : Nat) (hv : v < vars.size) (hx : x < vars.size) :
    sumTo cons.size (fun j => if Beyond cons v j x then (1 : Rat) else 0) =
      if blk vars x = blk vars v ∧ x ≠ v then 1 else 0 := by
  by_cases hc : blk vars x = blk vars v ∧ x ≠ v
  · rw [if_pos hc]
    obtain ⟨j0, hj0, hb0, hu⟩ := beyond_unique h v x hv hx hc.1 hc.2
    exact sumTo_indicator_unique _ _ j0 hj0 hb0 (fun j _ hj => hu j hj)
  · rw [if_neg hc]
    apply sumTo_indicator_none
    intro j _
    apply beyond_none h v x
    by_cases hxv : x = v
    · exact Or.inl hxv
    · exact Or.inr (fun hb => hc ⟨hb, hxv⟩)

end Incident

section Stationarity
variable {vars : Array Var} {cons : Array Con} {nb : Nat} {ia : Array Nat}

/-- `Σ_x [x beyond j from v] q x` -/
noncomputable def beyondSum (cons : Array Con) (n : Nat) (q : Nat → Rat) (v j : Nat) : Rat :=
  sumTo n (fun x => if Beyond cons v j x then q x else 0)

theorem beyond_iff_of_ae (h : InvC vars cons nb ia) {v j y : Nat} (hae : AE cons j v y) (x : Nat) :
    Beyond cons v j x ↔ ReachAvoid cons j y x := by
  constructor
  · rintro ⟨y', hae', hy'⟩
    rcases ae_ends hae hae' with ⟨_, rfl⟩ | ⟨e1, e2⟩
    · exact hy'
    · -- v = y and y' = v: self loop, impossible
      subst e1
      exact absurd ReflTransGen.refl (forest_of_inv h _ _ _ hae)
  · intro hy
    exact ⟨y, hae, hy⟩

/-- per constraint: (in-term) − (out-term) of the stationarity equation at `v` is minus the sum
    beyond that constraint -/
theorem term_eq (h : InvC vars cons nb ia) (q : Nat → Rat)
    (hstat : ∀ b, blockSum vars q b = 0) (v j : Nat) (hj : j < cons.size) :
    (if (cons[j]!).active = true ∧ (cons[j]!).r = v then mult cons vars.size q j else 0) -
    (if (cons[j]!).active = true ∧ (cons[j]!).l = v then mult cons vars.size q j else 0) =
    - beyondSum cons vars.size q v j := by
  by_cases ha : (cons[j]!).active = true
  · have hadd := sideSum_add h q j hj ha
    rw [hstat] at hadd
    have hmult : mult cons vars.size q j = sideSum cons vars.size q j (cons[j]!).r := by
      unfold mult; rw [if_pos ha]
    by_cases hr : (cons[j]!).r = v
    · have hae : AE cons j v (cons[j]!).l := ⟨hj, ha, Or.inr ⟨rfl, hr⟩⟩
      have hl : (cons[j]!).l ≠ v := by
        intro hl
        rw [hl] at hae
        exact forest_of_inv h _ _ _ hae ReflTransGen.refl
      rw [if_pos ⟨ha, hr⟩, if_neg (fun hh => hl hh.2), hmult]
      have : beyondSum cons vars.size q v j = sideSum cons vars.size q j (cons[j]!).l := by
        unfold beyondSum sideSum
        apply sumTo_congr
        intro x _
        rw [if_congr (beyond_iff_of_ae h hae x) rfl rfl]
      rw [this]; linarith
    · by_cases hl : (cons[j]!).l = v
      · have hae : AE cons j v (cons[j]!).r := ⟨hj, ha, Or.inl ⟨hl, rfl⟩⟩
        rw [if_neg (fun hh => hr hh.2), if_pos ⟨ha, hl⟩, hmult]
        have : beyondSum cons vars.size q v j = sideSum cons vars.size q j (cons[j]!).r := by
          unfold beyondSum sideSum
          apply sumTo_congr
          intro x _
          rw [if_congr (beyond_iff_of_ae h hae x) rfl rfl]
        rw [this]; ring
      · rw [if_neg (fun hh => hr hh.2), if_neg (fun hh => hl hh.2)]
        have : beyondSum cons vars.size q v j = 0 := by
          unfold beyondSum
          apply sumTo_eq_zero
          intro x _
          rw [if_neg]
          rintro ⟨y, ⟨_, _, hends⟩, _⟩
          rcases hends with ⟨e, _⟩ | ⟨_, e⟩
          · exact hl e
          · exact hr e
        rw [this]; ring
  · rw [if_neg (fun hh => ha hh.1), if_neg (fun hh => ha hh.1)]
    have : beyondSum cons vars.size q v j = 0 := by
      unfold beyondSum
      apply sumTo_eq_zero
      intro x _
      rw [if_neg]
      rintro ⟨y, ⟨_, hact, _⟩, _⟩
      exact ha hact
    rw [this]; ring

/-- **stationarity**: in a state satisfying the block invariant whose blocks are at their stationary
    position, the tree multipliers balance `q` at every variable -/
theorem mult_stationary (h : InvC vars cons nb ia) (q : Nat → Rat)
    (hstat : ∀ b, blockSum vars q b = 0) (v : Nat) (hv : v < vars.size) :
    sumTo cons.size (fun j => if (cons[j]!).active = true ∧ (cons[j]!).r = v
        then mult cons vars.size q j else 0) -
    sumTo cons.size (fun j => if (cons[j]!).active = true ∧ (cons[j]!).l = v
        then mult cons vars.size q j else 0) = q v := by
  rw [← sumTo_sub]
  have h1 : sumTo cons.size (fun j =>
      (if (cons[j]!).active = true ∧ (cons[j]!).r = v then mult cons vars.size q j else 0) -
      (if (cons[j]!).active = true ∧ (cons[j]!).l = v then mult cons vars.size q j else 0)) =
      sumTo cons.size (fun j => (-1 : Rat) * beyondSum cons vars.size q v j) := by
    apply sumTo_congr
    intro j hj
    rw [term_eq h q hstat v j hj]; ring
  rw [h1, sumTo_mul_left]
  -- exchange the two sums
  have h2 : sumTo cons.size (fun j => beyondSum cons vars.size q v j) =
      sumTo vars.size (fun x => if blk vars x = blk vars v ∧ x ≠ v then q x else 0) := by
    unfold beyondSum
    rw [sumTo_comm]
    apply sumTo_congr
    intro x hx
    have : sumTo cons.size (fun j => if Beyond cons v j x then q x else 0) =
        sumTo cons.size (fun j => q x * (if Beyond cons v j x then (1 : Rat) else 0)) := by
      apply sumTo_congr
      intro j _
      by_cases hb : Beyond cons v j x
      · rw [if_pos hb, if_pos hb]; ring
      · rw [if_neg hb, if_neg hb]; ring
    rw [this, sumTo_mul_left, beyond_count h v x hv hx]
    split <;> ring
  rw [h2]
  -- the block sum without its `v` term
  have h3 : sumTo vars.size (fun x => if blk vars x = blk vars v ∧ x ≠ v then q x else 0) =
      blockSum vars q (blk vars v) - q v := by
    have : sumTo vars.size (fun x => if blk vars x = blk vars v ∧ x ≠ v then q x else 0) =
        sumTo vars.size (fun x => (if blk vars x = blk vars v then q x else 0) -
          (if v = x then q x else 0)) := by
      apply sumTo_congr
      intro x _
      by_cases hb : blk vars x = blk vars v
      · by_cases hxv : v = x
        · subst hxv; simp
        · have : x ≠ v := fun e => hxv e.symm
          simp [hb, hxv, this]
      · have : ¬ v = x := fun e => hb (e ▸ rfl)
        simp [hb, this]
    rw [this, sumTo_sub, sumTo_ite, if_pos hv]
    rfl
  rw [h3, hstat]; ring

end Stationarity

end AdaptaVerif.Lemmas.VpscKkt
