/-
C12: small concrete hyperedge trees used as non-vacuity examples and as closed witnesses for the side
conditions of the theorems in Props/C12Ops.  (Data only; the facts about them are in Props/C12Ops.)
-/
import AdaptaVerif.Model.HyperTree
namespace AdaptaVerif.Lemmas.HyperTreeWitness
open AdaptaVerif.Model.HyperTree

def mkImp (t : HTree) (junctions : List (Nat × Nat)) (roots : List Nat) (major : Bool) : Imp :=
  { t := t, junctions := junctions, roots := roots, canMajor := major, nextJ := 100, nextC := 100 }

/-- junction 1 (node 0) at the origin with three connectors: a ZERO-LENGTH one to the terminal node 1
    (the junction sits on the pin), and two proper ones to the terminals 2 and 3 -/
def exStar : HTree :=
  { nodes := [ { id := 0, edges := [4, 5, 6], junction := some 1, point := ⟨0, 0⟩ },
               { id := 1, edges := [4], junction := none, point := ⟨0, 0⟩ },
               { id := 2, edges := [5], junction := none, point := ⟨10, 0⟩ },
               { id := 3, edges := [6], junction := none, point := ⟨0, 10⟩ } ],
    edges := [ { id := 4, e1 := some 0, e2 := some 1, conn := some 1, hasFixedRoute := false },
               { id := 5, e1 := some 0, e2 := some 2, conn := some 2, hasFixedRoute := false },
               { id := 6, e1 := some 0, e2 := some 3, conn := some 3, hasFixedRoute := false } ],
    next := 7 }

/-- junction 1 (node 0) — bend 1 — terminal 2 where the LAST segment 1–2 has zero length and the
    terminal is the connector's source; two more terminals 3, 4 -/
def exZeroTail : HTree :=
  { nodes := [ { id := 0, edges := [5, 7, 8], junction := some 1, point := ⟨0, 0⟩ },
               { id := 1, edges := [5, 6], junction := none, point := ⟨10, 0⟩ },
               { id := 2, edges := [6], junction := none, point := ⟨10, 0⟩, isConnectorSource := true },
               { id := 3, edges := [7], junction := none, point := ⟨0, 10⟩ },
               { id := 4, edges := [8], junction := none, point := ⟨0, -10⟩ } ],
    edges := [ { id := 5, e1 := some 0, e2 := some 1, conn := some 1, hasFixedRoute := false },
               { id := 6, e1 := some 1, e2 := some 2, conn := some 1, hasFixedRoute := false },
               { id := 7, e1 := some 0, e2 := some 3, conn := some 2, hasFixedRoute := false },
               { id := 8, e1 := some 0, e2 := some 4, conn := some 3, hasFixedRoute := false } ],
    next := 9 }

/-- junction 1 (node 0) at the origin; connector 1 runs straight to the terminal node 1 at (10,0);
    connector 2 runs over the same point (bend node 2 at (10,0)) on to the terminal 3 at (10,10);
    connector 3 goes to the terminal 4 -/
def exOverTerminal : HTree :=
  { nodes := [ { id := 0, edges := [5, 6, 8], junction := some 1, point := ⟨0, 0⟩ },
               { id := 1, edges := [5], junction := none, point := ⟨10, 0⟩ },
               { id := 2, edges := [6, 7], junction := none, point := ⟨10, 0⟩ },
               { id := 3, edges := [7], junction := none, point := ⟨10, 10⟩ },
               { id := 4, edges := [8], junction := none, point := ⟨0, -10⟩ } ],
    edges := [ { id := 5, e1 := some 0, e2 := some 1, conn := some 1, hasFixedRoute := false },
               { id := 6, e1 := some 0, e2 := some 2, conn := some 2, hasFixedRoute := false },
               { id := 7, e1 := some 2, e2 := some 3, conn := some 2, hasFixedRoute := false },
               { id := 8, e1 := some 0, e2 := some 4, conn := some 3, hasFixedRoute := false } ],
    next := 9 }

/-- two junctions joined by a zero-length connector; each with two terminals -/
def exTwoJunctions : HTree :=
  { nodes := [ { id := 0, edges := [6, 7, 8], junction := some 1, point := ⟨0, 0⟩ },
               { id := 1, edges := [6, 9, 10], junction := some 2, point := ⟨0, 0⟩ },
               { id := 2, edges := [7], junction := none, point := ⟨-10, 0⟩ },
               { id := 3, edges := [8], junction := none, point := ⟨0, -10⟩ },
               { id := 4, edges := [9], junction := none, point := ⟨10, 0⟩ },
               { id := 5, edges := [10], junction := none, point := ⟨0, 10⟩ } ],
    edges := [ { id := 6, e1 := some 0, e2 := some 1, conn := some 1, hasFixedRoute := false },
               { id := 7, e1 := some 0, e2 := some 2, conn := some 2, hasFixedRoute := false },
               { id := 8, e1 := some 0, e2 := some 3, conn := some 3, hasFixedRoute := false },
               { id := 9, e1 := some 1, e2 := some 4, conn := some 4, hasFixedRoute := false },
               { id := 10, e1 := some 1, e2 := some 5, conn := some 5, hasFixedRoute := false } ],
    next := 11 }

/-- junction 1 (node 0) with two connectors leaving along the same line (to bend 1 at (10,0) and, longer,
    to bend 2 at (20,0)), and two more connectors: the junction can move to (10,0) -/
def exCommon : HTree :=
  { nodes := [ { id := 0, edges := [7, 8, 9], junction := some 1, point := ⟨0, 0⟩ },
               { id := 1, edges := [7, 10], junction := none, point := ⟨10, 0⟩ },
               { id := 2, edges := [8, 11], junction := none, point := ⟨20, 0⟩ },
               { id := 3, edges := [9], junction := none, point := ⟨0, -10⟩ },
               { id := 4, edges := [10], junction := none, point := ⟨10, 10⟩ },
               { id := 5, edges := [11], junction := none, point := ⟨20, 10⟩ } ],
    edges := [ { id := 7, e1 := some 0, e2 := some 1, conn := some 1, hasFixedRoute := false },
               { id := 8, e1 := some 0, e2 := some 2, conn := some 2, hasFixedRoute := false },
               { id := 9, e1 := some 0, e2 := some 3, conn := some 3, hasFixedRoute := false },
               { id := 10, e1 := some 1, e2 := some 4, conn := some 1, hasFixedRoute := false },
               { id := 11, e1 := some 2, e2 := some 5, conn := some 2, hasFixedRoute := false } ],
    next := 12 }

end AdaptaVerif.Lemmas.HyperTreeWitness
