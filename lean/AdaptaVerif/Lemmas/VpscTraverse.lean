/-
What the read-only traversals of the model return: `splitPath` (Block::split_path),
`computeDfdv` (Block::compute_dfdv), `argMinFirst`.
-/
import AdaptaVerif.Lemmas.VpscInv
import AdaptaVerif.Lemmas.VpscWalk
namespace AdaptaVerif.Lemmas.VpscTraverse
open AdaptaVerif.Model.Vpsc
open AdaptaVerif.Lemmas.VpscGraph AdaptaVerif.Lemmas.VpscWalk AdaptaVerif.Lemmas.VpscInv
open Relation

/-! ### folds that search: once found stays found, `ok` only decreases -/

theorem fold_none {α : Type} (f : Option α × Bool → Nat → Option α × Bool)
    (sticky : ∀ (x : Option α × Bool) (ci : Nat), x.1.isSome = true → f x ci = x)
    (okmono : ∀ (x : Option α × Bool) (ci : Nat), (f x ci).2 = true → x.2 = true) :
    ∀ (l : List Nat) (acc : Option α × Bool),
    l.foldl f acc = (none, true) → acc = (none, true) ∧ ∀ ci ∈ l, f (none, true) ci = (none, true) := by
  intro l
  induction l with
  | nil => intro acc h; exact ⟨h, by simp⟩
  | cons ci l ih =>
    intro acc h
    simp only [List.foldl_cons] at h
    obtain ⟨h1, h2⟩ := ih _ h
    have hacc : acc = (none, true) := by
      have h2' : acc.2 = true := okmono acc ci (by rw [h1])
      have h1' : acc.1 = none := by
        cases hs : acc.1 with
        | none => rfl
        | some c =>
          have := sticky acc ci (by rw [hs]; rfl)
          rw [this] at h1
          rw [h1] at hs
          exact absurd hs (by simp)
      exact Prod.ext h1' h2'
    subst hacc
    refine ⟨rfl, ?_⟩
    intro cj hcj
    rcases List.mem_cons.1 hcj with rfl | hcj
    · exact h1
    · exact h2 cj hcj

theorem fold_some {α : Type} (f : Option α × Bool → Nat → Option α × Bool)
    (sticky : ∀ (x : Option α × Bool) (ci : Nat), x.1.isSome = true → f x ci = x) :
    ∀ (l : List Nat) (acc : Option α × Bool) (c : α),
    (l.foldl f acc).1 = some c →
    acc.1 = some c ∨ ∃ ci ∈ l, ∃ ok, (f (none, ok) ci).1 = some c := by
  intro l
  induction l with
  | nil => intro acc c h; exact Or.inl h
  | cons ci l ih =>
    intro acc c h
    simp only [List.foldl_cons] at h
    rcases ih _ c h with h1 | ⟨cj, hcj, ok, h2⟩
    · cases hs : acc.1 with
      | some c' =>
        have := sticky acc ci (by rw [hs]; rfl)
        rw [this, hs] at h1
        exact Or.inl h1
      | none =>
        refine Or.inr ⟨ci, List.mem_cons_self, acc.2, ?_⟩
        have : acc = (none, acc.2) := Prod.ext hs rfl
        rw [← this]; exact h1
    · exact Or.inr ⟨cj, List.mem_cons_of_mem _ hcj, ok, h2⟩


/-! ### splitPath -/

/-- the loop body over `in` constraints -/
def spIn (st : St) (bid r fuel v : Nat) (u : Option Nat)
    (x : Option (Array Nat) × Bool) (ci : Nat) : Option (Array Nat) × Bool :=
  if x.1.isSome = true then (x.1, x.2)
  else
    if canFollowLeft st bid st.cons[ci]! u = true then
      if (st.cons[ci]!.l == r) = true then (some #[], x.2)
      else
        ((splitPath st bid r fuel st.cons[ci]!.l (some v)).1,
          x.2 && (splitPath st bid r fuel st.cons[ci]!.l (some v)).2)
    else (x.1, x.2)

/-- the loop body over `out` constraints -/
def spOut (st : St) (bid r fuel v : Nat) (u : Option Nat)
    (x : Option (Array Nat) × Bool) (ci : Nat) : Option (Array Nat) × Bool :=
  if x.1.isSome = true then (x.1, x.2)
  else
    if canFollowRight st bid st.cons[ci]! u = true then
      if (st.cons[ci]!.r == r) = true then (some (if st.cons[ci]!.eq = true then #[] else #[ci]), x.2)
      else
        match (splitPath st bid r fuel st.cons[ci]!.r (some v)).1 with
        | some cands =>
          (some (if st.cons[ci]!.eq = true then cands else cands.push ci),
            x.2 && (splitPath st bid r fuel st.cons[ci]!.r (some v)).2)
        | none => (none, x.2 && (splitPath st bid r fuel st.cons[ci]!.r (some v)).2)
    else (x.1, x.2)

theorem spIn_sticky (st : St) (bid r fuel v : Nat) (u : Option Nat) (x : Option (Array Nat) × Bool)
    (ci : Nat) (h : x.1.isSome = true) : spIn st bid r fuel v u x ci = x := by
  unfold spIn; rw [if_pos h]

theorem spOut_sticky (st : St) (bid r fuel v : Nat) (u : Option Nat) (x : Option (Array Nat) × Bool)
    (ci : Nat) (h : x.1.isSome = true) : spOut st bid r fuel v u x ci = x := by
  unfold spOut; rw [if_pos h]

theorem spIn_ok (st : St) (bid r fuel v : Nat) (u : Option Nat) (x : Option (Array Nat) × Bool)
    (ci : Nat) (h : (spIn st bid r fuel v u x ci).2 = true) : x.2 = true := by
  unfold spIn at h
  split at h
  · exact h
  · split at h
    · split at h
      · exact h
      · simp only [Bool.and_eq_true] at h; exact h.1
    · exact h

theorem spOut_ok (st : St) (bid r fuel v : Nat) (u : Option Nat) (x : Option (Array Nat) × Bool)
    (ci : Nat) (h : (spOut st bid r fuel v u x ci).2 = true) : x.2 = true := by
  unfold spOut at h
  split at h
  · exact h
  · split at h
    · split at h
      · exact h
      · split at h
        · simp only [Bool.and_eq_true] at h; exact h.1
        · simp only [Bool.and_eq_true] at h; exact h.1
    · exact h

theorem splitPath_succ (st : St) (bid r fuel v : Nat) (u : Option Nat) :
    splitPath st bid r (fuel + 1) v u =
      (st.vars[v]!).outs.toList.foldl (spOut st bid r fuel v u)
        ((st.vars[v]!).ins.toList.foldl (spIn st bid r fuel v u) (none, true)) := by
  rw [splitPath]
  simp only [← Array.foldl_toList]
  rfl

/-- what a successful `splitPath` search certifies -/
def PathSpec (st : St) (r v : Nat) (u : Option Nat) (cands : Array Nat) : Prop :=
  ∃ W : List Step, Walk st.cons v r W ∧ W ≠ [] ∧ NB u W ∧
    (∀ ci ∈ cands, (ci, (st.cons[ci]!).l, (st.cons[ci]!).r) ∈ W ∧ (st.cons[ci]!).eq = false) ∧
    (∀ s ∈ W, s.2.1 = (st.cons[s.1]!).l → s.2.2 = (st.cons[s.1]!).r → (st.cons[s.1]!).eq = false →
      s.1 ∈ cands)

theorem splitPath_some (st : St) (bid r : Nat)
    (hins : ∀ u ci : Nat, ci ∈ (st.vars[u]!).ins → ci < st.cons.size ∧ (st.cons[ci]!).r = u)
    (houts : ∀ u ci : Nat, ci ∈ (st.vars[u]!).outs → ci < st.cons.size ∧ (st.cons[ci]!).l = u)
    (hnoloop : ∀ j x : Nat, ¬ AE st.cons j x x) :
    ∀ (fuel v : Nat) (u : Option Nat) (cands : Array Nat),
      (splitPath st bid r fuel v u).1 = some cands → PathSpec st r v u cands := by
  intro fuel
  induction fuel with
  | zero => intro v u cands h; simp [splitPath] at h
  | succ fuel ih =>
    intro v u cands h
    rw [splitPath_succ] at h
    rcases fold_some _ (spOut_sticky st bid r fuel v u) _ _ _ h with h1 | ⟨ci, hci, ok, h2⟩
    · rcases fold_some _ (spIn_sticky st bid r fuel v u) _ _ _ h1 with h0 | ⟨ci, hci, ok, h2⟩
      · simp at h0
      · -- found through an `in` constraint: a backward step v → c.l
        have hci' : ci ∈ (st.vars[v]!).ins := by simpa using hci
        obtain ⟨hlt, hrv⟩ := hins v ci hci'
        unfold spIn at h2
        simp only [Option.isSome_none, Bool.false_eq_true, if_false] at h2
        split at h2
        · rename_i hcf
          simp only [canFollowLeft, Bool.and_eq_true, beq_iff_eq, bne_iff_ne, ne_eq] at hcf
          obtain ⟨⟨_, hact⟩, hu⟩ := hcf
          have hae : AE st.cons ci v (st.cons[ci]!).l := ⟨hlt, hact, Or.inr ⟨rfl, hrv⟩⟩
          have hnotfwd : ¬ (v = (st.cons[ci]!).l ∧ (st.cons[ci]!).l = (st.cons[ci]!).r) := by
            rintro ⟨e1, _⟩
            exact hnoloop ci v (by rw [← e1] at hae; exact hae)
          split at h2
          · rename_i hr
            have hr' : (st.cons[ci]!).l = r := by simpa using hr
            simp only [Option.some.injEq] at h2
            subst h2
            refine ⟨[(ci, v, (st.cons[ci]!).l)], ?_, by simp, ⟨hu, trivial⟩, by simp, ?_⟩
            · rw [← hr']; exact Walk.cons hae (Walk.nil _)
            · intro s hs e1 e2 _
              simp only [List.mem_singleton] at hs
              subst hs
              exact absurd ⟨e1, e2⟩ hnotfwd
          · obtain ⟨W, hW, _, hnb, hc1, hc2⟩ := ih _ _ _ h2
            refine ⟨(ci, v, (st.cons[ci]!).l) :: W, Walk.cons hae hW, by simp, ⟨hu, hnb⟩, ?_, ?_⟩
            · intro cj hcj
              exact ⟨List.mem_cons_of_mem _ (hc1 cj hcj).1, (hc1 cj hcj).2⟩
            · intro s hs e1 e2 e3
              rcases List.mem_cons.1 hs with rfl | hs
              · exact absurd ⟨e1, e2⟩ hnotfwd
              · exact hc2 s hs e1 e2 e3
        · simp at h2
    · -- found through an `out` constraint: a forward step v → c.r
      have hci' : ci ∈ (st.vars[v]!).outs := by simpa using hci
      obtain ⟨hlt, hlv⟩ := houts v ci hci'
      unfold spOut at h2
      simp only [Option.isSome_none, Bool.false_eq_true, if_false] at h2
      split at h2
      · rename_i hcf
        simp only [canFollowRight, Bool.and_eq_true, beq_iff_eq, bne_iff_ne, ne_eq] at hcf
        obtain ⟨⟨_, hact⟩, hu⟩ := hcf
        have hae : AE st.cons ci v (st.cons[ci]!).r := ⟨hlt, hact, Or.inl ⟨hlv, rfl⟩⟩
        split at h2
        · rename_i hr
          have hr' : (st.cons[ci]!).r = r := by simpa using hr
          simp only [Option.some.injEq] at h2
          refine ⟨[(ci, v, (st.cons[ci]!).r)], ?_, by simp, ⟨hu, trivial⟩, ?_, ?_⟩
          · rw [← hr']; exact Walk.cons hae (Walk.nil _)
          · intro cj hcj
            rw [← h2] at hcj
            split at hcj
            · simp at hcj
            · rename_i hne
              simp only [List.mem_singleton, Array.mem_toArray, List.mem_cons, List.not_mem_nil, or_false] at hcj
              have : cj = ci := by simpa using hcj
              subst this
              exact ⟨by rw [hlv]; simp, by simpa using hne⟩
          · intro s hs _ _ e3
            simp only [List.mem_singleton] at hs
            subst hs
            rw [← h2]
            simp only at e3
            simp [e3]
        · split at h2
          · rename_i c' hrec
            simp only [Option.some.injEq] at h2
            obtain ⟨W, hW, _, hnb, hc1, hc2⟩ := ih _ _ _ hrec
            refine ⟨(ci, v, (st.cons[ci]!).r) :: W, Walk.cons hae hW, by simp, ⟨hu, hnb⟩, ?_, ?_⟩
            · intro cj hcj
              rw [← h2] at hcj
              split at hcj
              · exact ⟨List.mem_cons_of_mem _ (hc1 cj hcj).1, (hc1 cj hcj).2⟩
              · rename_i hne
                rcases Array.mem_push.1 hcj with hcj | rfl
                · exact ⟨List.mem_cons_of_mem _ (hc1 cj hcj).1, (hc1 cj hcj).2⟩
                · exact ⟨by rw [hlv]; simp, by simpa using hne⟩
            · intro s hs e1 e2 e3
              rw [← h2]
              rcases List.mem_cons.1 hs with rfl | hs
              · simp only at e3
                simp [e3]
              · have := hc2 s hs e1 e2 e3
                split
                · exact this
                · exact Array.mem_push.2 (Or.inl this)
          · simp at h2
      · simp at h2

/-- an unsuccessful complete search: no non-backtracking walk leads from `v` to `r` -/
theorem splitPath_none (st : St) (bid r : Nat)
    (hoc : ∀ j : Nat, j < st.cons.size → j ∈ (st.vars[(st.cons[j]!).l]!).outs)
    (hic : ∀ j : Nat, j < st.cons.size → j ∈ (st.vars[(st.cons[j]!).r]!).ins)
    (hblk : ∀ j x y : Nat, AE st.cons j x y → blk st.vars x = blk st.vars y) :
    ∀ (fuel v : Nat) (u : Option Nat), blk st.vars v = bid →
      splitPath st bid r fuel v u = (none, true) →
      ∀ W : List Step, Walk st.cons v r W → NB u W → W = [] := by
  intro fuel
  induction fuel with
  | zero => intro v u _ h; simp [splitPath] at h
  | succ fuel ih =>
    intro v u hbv h W hW hnb
    rw [splitPath_succ] at h
    obtain ⟨hin, hout⟩ := fold_none _ (spOut_sticky st bid r fuel v u) (spOut_ok st bid r fuel v u) _ _ h
    obtain ⟨_, hin'⟩ := fold_none _ (spIn_sticky st bid r fuel v u) (spIn_ok st bid r fuel v u) _ _ hin
    cases hW with
    | nil => rfl
    | @cons j a b c rest hae hrest =>
      exfalso
      obtain ⟨hu, hnb'⟩ := hnb
      have hbb : blk st.vars b = bid := by rw [← hblk j v b hae]; exact hbv
      obtain ⟨hj, hact, hends⟩ := hae
      rcases hends with ⟨hl, hr⟩ | ⟨hl, hr⟩
      · -- forward: j ∈ outs v
        have hmem : j ∈ (st.vars[v]!).outs.toList := by
          have := hoc j hj
          rw [hl] at this
          simpa using this
        have hstep := hout j hmem
        unfold spOut at hstep
        simp only [Option.isSome_none, Bool.false_eq_true, if_false] at hstep
        have hcf : canFollowRight st bid st.cons[j]! u = true := by
          simp only [canFollowRight, Bool.and_eq_true, beq_iff_eq, bne_iff_ne, ne_eq]
          exact ⟨⟨by rw [hr]; exact hbb, hact⟩, by rw [hr]; exact hu⟩
        rw [if_pos hcf] at hstep
        split at hstep
        · simp at hstep
        · rename_i hne
          split at hstep
          · simp at hstep
          · rename_i hrec
            simp only [Bool.true_and, Prod.mk.injEq, true_and] at hstep
            have hsub : splitPath st bid r fuel (st.cons[j]!).r (some v) = (none, true) :=
              Prod.ext hrec hstep
            rw [hr] at hsub
            have := ih b (some v) hbb hsub rest hrest hnb'
            subst this
            cases hrest
            rw [hr] at hne
            simp at hne
      · -- backward: j ∈ ins v
        have hmem : j ∈ (st.vars[v]!).ins.toList := by
          have := hic j hj
          rw [hr] at this
          simpa using this
        have hstep := hin' j hmem
        unfold spIn at hstep
        simp only [Option.isSome_none, Bool.false_eq_true, if_false] at hstep
        have hcf : canFollowLeft st bid st.cons[j]! u = true := by
          simp only [canFollowLeft, Bool.and_eq_true, beq_iff_eq, bne_iff_ne, ne_eq]
          exact ⟨⟨by rw [hl]; exact hbb, hact⟩, by rw [hl]; exact hu⟩
        rw [if_pos hcf] at hstep
        split at hstep
        · simp at hstep
        · rename_i hne
          simp only [Bool.true_and, Prod.mk.injEq] at hstep
          have hsub : splitPath st bid r fuel (st.cons[j]!).l (some v) = (none, true) :=
            Prod.ext hstep.1 hstep.2
          rw [hl] at hsub
          have := ih b (some v) hbb hsub rest hrest hnb'
          subst this
          cases hrest
          rw [hl] at hne
          simp at hne

/-! ### computeDfdv, argMinFirst -/

theorem computeDfdv_post (st : St) (bid : Nat) :
    ∀ (fuel : Nat) (lm : Array Rat) (post : Array Nat) (v : Nat) (u : Option Nat),
      (∀ ci ∈ post, (st.cons[ci]!).active = true) →
      ∀ ci ∈ (computeDfdv st bid fuel lm post v u).2.1, (st.cons[ci]!).active = true := by
  intro fuel
  induction fuel with
  | zero => intro lm post v u h; simpa [computeDfdv] using h
  | succ fuel ih =>
    intro lm post v u h
    unfold computeDfdv
    simp only
    apply Array.foldl_induction
      (motive := fun _ (acc : Array Rat × Array Nat × Rat × Bool) => ∀ ci ∈ acc.2.1, (st.cons[ci]!).active = true)
    · apply Array.foldl_induction
        (motive := fun _ (acc : Array Rat × Array Nat × Rat × Bool) => ∀ ci ∈ acc.2.1, (st.cons[ci]!).active = true)
      · exact h
      · intro i acc hm
        split
        · rename_i hcf
          intro ci hci
          rcases Array.mem_push.1 hci with hci | rfl
          · exact ih _ _ _ _ hm ci hci
          · simp only [canFollowRight, Bool.and_eq_true] at hcf
            exact hcf.1.2
        · exact hm
    · intro i acc hm
      split
      · rename_i hcf
        intro ci hci
        rcases Array.mem_push.1 hci with hci | rfl
        · exact ih _ _ _ _ hm ci hci
        · simp only [canFollowLeft, Bool.and_eq_true] at hcf
          exact hcf.1.2
      · exact hm

theorem argMinFirst_mem (xs : Array (Nat × Rat)) (i : Nat) (x g : Rat)
    (h : argMinFirst xs = some (i, x, g)) : (i, x) ∈ xs := by
  unfold argMinFirst at h
  simp only at h
  split at h
  · simp at h
  · rename_i k i' x' hfold
    simp only [Option.some.injEq, Prod.mk.injEq] at h
    obtain ⟨rfl, rfl, _⟩ := h
    have key := Array.foldl_induction
      (as := xs.mapIdx fun k (p : Nat × Rat) => (k, p.1, p.2))
      (motive := fun _ (best : Option (Nat × Nat × Rat)) => ∀ q, best = some q → (q.2.1, q.2.2) ∈ xs)
      (init := none)
      (f := fun best p => match best with
        | none => some p
        | some (_, _, bx) => if p.2.2 < bx then some p else best)
      (by intro q hq; simp at hq)
      (by
        intro j best hm q hq
        have hp : (((xs.mapIdx fun k (p : Nat × Rat) => (k, p.1, p.2))[j]).2.1,
            ((xs.mapIdx fun k (p : Nat × Rat) => (k, p.1, p.2))[j]).2.2) ∈ xs := by
          have hj : j.1 < xs.size := by have := j.2; simpa using this
          have : (((xs.mapIdx fun k (p : Nat × Rat) => (k, p.1, p.2))[j]).2.1,
            ((xs.mapIdx fun k (p : Nat × Rat) => (k, p.1, p.2))[j]).2.2) = xs[j.1] := by simp
          rw [this]
          exact Array.getElem_mem _
        cases best with
        | none =>
          simp only [Option.some.injEq] at hq
          subst hq
          exact hp
        | some b =>
          obtain ⟨b1, b2, b3⟩ := b
          simp only at hq
          split at hq
          · simp only [Option.some.injEq] at hq
            subst hq
            exact hp
          · exact hm q hq)
    exact key _ hfold

theorem argMinFirst_none (xs : Array (Nat × Rat)) (h : argMinFirst xs = none) : xs = #[] := by
  unfold argMinFirst at h
  simp only at h
  split at h
  · rename_i hfold
    by_contra hne
    have hpos : 0 < xs.size := by
      rcases Nat.eq_zero_or_pos xs.size with h0 | h0
      · exact absurd (Array.eq_empty_of_size_eq_zero h0) hne
      · exact h0
    have key := Array.foldl_induction
      (as := xs.mapIdx fun k (p : Nat × Rat) => (k, p.1, p.2))
      (motive := fun n (best : Option (Nat × Nat × Rat)) => 0 < n → best.isSome = true)
      (init := none)
      (f := fun best p => match best with
        | none => some p
        | some (_, _, bx) => if p.2.2 < bx then some p else best)
      (by intro h0; exact absurd h0 (Nat.lt_irrefl 0))
      (by
        intro j best _ _
        cases best with
        | none => rfl
        | some b =>
          obtain ⟨b1, b2, b3⟩ := b
          simp only
          split <;> rfl)
    have h2 := key (by simpa using hpos)
    have h3 := congrArg Option.isSome hfold
    exact absurd (h2.symm.trans h3) (by simp)
  · simp at h

end AdaptaVerif.Lemmas.VpscTraverse
