/-
The computeCrossings sweep of `Model.Planarise`: invariants of one x-part and of the whole sweep.
-/
import AdaptaVerif.Lemmas.PlanariseSort
namespace AdaptaVerif.Lemmas.Planarise
open AdaptaVerif.Model.Planarise AdaptaVerif.Lemmas.SWO

end AdaptaVerif.Lemmas.Planarise
