/-
The computeCrossings sweep of `Model.Planarise`: tracking invariant, one event role by role, one x-part,
the whole sweep.
-/
import AdaptaVerif.Lemmas.PlanariseSort
namespace AdaptaVerif.Lemmas.Planarise
open AdaptaVerif.Model.Planarise

/-! ### hypotheses on the segment list handed to `computeCrossings` -/

def SegH (s : Seg) : Prop :=
  s.ori = .H ∧ s.on.p.y = s.cc ∧ s.cn.p.y = s.cc ∧ s.on.p.x = s.lo ∧ s.cn.p.x = s.hi ∧ s.lo < s.hi
def SegV (s : Seg) : Prop :=
  s.ori = .V ∧ s.on.p.x = s.cc ∧ s.cn.p.x = s.cc ∧ s.on.p.y = s.lo ∧ s.cn.p.y = s.hi ∧ s.lo < s.hi

/-- axis-parallel segments of positive length, stored as the `EdgeSegment` constructor stores them; any two
x-coordinates (y-coordinates) of segment ends equal or more than 1 apart; segments on the same line do not overlap -/
structure Good (S : List Seg) : Prop where
  shape : ∀ s ∈ S, SegH s ∨ SegV s
  sepX : ∀ s ∈ S, ∀ t ∈ S, ∀ a ∈ [s.on.p.x, s.cn.p.x], ∀ b ∈ [t.on.p.x, t.cn.p.x], Apart a b
  sepY : ∀ s ∈ S, ∀ t ∈ S, ∀ a ∈ [s.on.p.y, s.cn.p.y], ∀ b ∈ [t.on.p.y, t.cn.p.y], Apart a b
  noOverlap : S.Pairwise (fun s t => s.ori = t.ori → s.cc = t.cc → s.hi ≤ t.lo ∨ t.hi ≤ s.lo)

theorem mkEvents_length (S : List Seg) : ∀ b, (mkEvents b S).length = 2 * S.length := by
  induction S with
  | nil => intro b; simp [mkEvents]
  | cons s r ih => intro b; simp [mkEvents, ih]; omega

theorem mkEvents_get (S : List Seg) : ∀ (b j : Nat) (s : Seg), S[j]? = some s →
    (mkEvents b S)[2 * j]? = some (mkEv (b + j) s s.on .opn (2 * (b + j) + 1)) ∧
    (mkEvents b S)[2 * j + 1]? = some (mkEv (b + j) s s.cn .close (2 * (b + j))) := by
  induction S with
  | nil => intro b j s h; simp at h
  | cons s0 r ih =>
    intro b j s h
    cases j with
    | zero =>
      simp at h; subst h
      simp [mkEvents]
    | succ j =>
      simp at h
      have := ih (b + 1) j s h
      have e1 : 2 * (j + 1) = (2 * j + 1) + 1 := by omega
      have e2 : b + 1 + j = b + (j + 1) := by omega
      rw [e2] at this
      simp only [mkEvents]
      refine ⟨?_, ?_⟩
      · rw [e1, List.getElem?_cons_succ, List.getElem?_cons_succ]; exact this.1
      · rw [e1, List.getElem?_cons_succ, List.getElem?_cons_succ]; exact this.2

/-! ### the tracking invariant of the sweep -/

def oriAt (segs : List Seg) (a : Nat) : Option Ori := (segs[a]?).map (·.ori)

/-- `P e`: event `e` has been processed in its own role (OPEN / CLOSE) -/
structure Inv (S : List Seg) (P : Nat → Prop) (st : SwState) : Prop where
  len : st.evs.length = 2 * S.length
  ev : ∀ i s, S[i]? = some s → ∃ eo ec, st.evs[2 * i]? = some eo ∧ st.evs[2 * i + 1]? = some ec ∧
        eo.cc = s.cc ∧ eo.comp = 2 * i + 1 ∧ ec.comp = 2 * i ∧ ec.ty = .close ∧ ec.endpt = s.cn ∧
        oriAt st.segs eo.seg = some s.ori ∧ oriAt st.segs ec.seg = some s.ori ∧
        (s.ori = .H → eo.endpt.p.y = s.cc ∧ (P (2 * i) → eo.ty = .sustain) ∧ (¬ P (2 * i) → eo.ty = .opn)) ∧
        (s.ori = .V → eo.ty = .opn ∧ (¬ P (2 * i) → eo.endpt.p.y = s.lo))
  oh : ∀ e, e ∈ st.openH ↔ ∃ i s, S[i]? = some s ∧ e = 2 * i ∧ s.ori = .H ∧ P (2 * i) ∧ ¬ P (2 * i + 1)
  ohs : st.openH.Pairwise (· < ·)

theorem oriAt_some {segs : List Seg} {a : Nat} {o : Ori} (h : oriAt segs a = some o) :
    ∃ s, segs[a]? = some s ∧ s.ori = o := by
  unfold oriAt at h
  cases hs : segs[a]? with
  | none => simp [hs] at h
  | some s => simp [hs] at h; exact ⟨s, rfl, h⟩

theorem mem_insertAsc (i : Nat) (l : List Nat) (x : Nat) : x ∈ insertAsc i l ↔ x = i ∨ x ∈ l := by
  induction l with
  | nil => simp [insertAsc]
  | cons j r ih =>
    simp only [insertAsc]
    split
    · simp
    · split
      · rename_i h; subst h; simp
      · simp [ih]; grind

theorem insertAsc_sorted (i : Nat) (l : List Nat) (h : l.Pairwise (· < ·)) :
    (insertAsc i l).Pairwise (· < ·) := by
  induction l with
  | nil => simp [insertAsc]
  | cons j r ih =>
    rw [List.pairwise_cons] at h
    simp only [insertAsc]
    split
    · rename_i hij
      rw [List.pairwise_cons]
      refine ⟨?_, List.pairwise_cons.2 h⟩
      intro x hx
      rcases List.mem_cons.1 hx with rfl | hx
      · exact hij
      · exact Nat.lt_trans hij (h.1 x hx)
    · split
      · exact List.pairwise_cons.2 h
      · rename_i h1 h2
        rw [List.pairwise_cons]
        refine ⟨?_, ih h.2⟩
        intro x hx
        rcases (mem_insertAsc i r x).1 hx with rfl | hx
        · omega
        · exact h.1 x hx

theorem mem_erase_sorted (l : List Nat) (h : l.Pairwise (· < ·)) (a x : Nat) :
    x ∈ l.erase a ↔ x ∈ l ∧ x ≠ a := by
  have hnd : l.Nodup := h.imp (fun hab => Nat.ne_of_lt hab)
  exact hnd.mem_erase_iff.trans (by constructor <;> (intro ⟨a, b⟩; exact ⟨b, a⟩))

/-! ### one event, role by role -/

variable {S : List Seg} {P : Nat → Prop} {st : SwState}

theorem pe_close (hI : Inv S P st) {i : Nat} {s : Seg} (hs : S[i]? = some s) :
    processEvent st (2 * i + 1) =
      if s.ori = .H then { st with openH := st.openH.erase (2 * i) } else { st with openV := none } := by
  obtain ⟨eo, ec, _, h1, _, _, h4, h5, _, _, h8, _⟩ := hI.ev i s hs
  obtain ⟨sc, hsc, hori⟩ := oriAt_some h8
  unfold processEvent
  simp only [h1, hsc, h5, h4, hori]

/-- the event part of the invariant only looks at `evs`, `segs` and `P` on OPEN events -/
theorem Inv.transfer {Q : Nat → Prop} {st' : SwState} (hI : Inv S P st)
    (hevs : st'.evs = st.evs) (hsegs : st'.segs = st.segs) (hPQ : ∀ j, Q (2 * j) ↔ P (2 * j))
    (hoh : ∀ e, e ∈ st'.openH ↔ ∃ i s, S[i]? = some s ∧ e = 2 * i ∧ s.ori = .H ∧ Q (2 * i) ∧ ¬ Q (2 * i + 1))
    (hohs : st'.openH.Pairwise (· < ·)) : Inv S Q st' := by
  refine ⟨by rw [hevs]; exact hI.len, ?_, hoh, hohs⟩
  intro i s hs
  obtain ⟨eo, ec, h0, h1, h2, h3, h4, h5, h6, h7, h8, h9, h10⟩ := hI.ev i s hs
  refine ⟨eo, ec, by rw [hevs]; exact h0, by rw [hevs]; exact h1, h2, h3, h4, h5, h6,
    by rw [hsegs]; exact h7, by rw [hsegs]; exact h8, ?_, ?_⟩
  · intro hH; have := h9 hH
    exact ⟨this.1, fun q => this.2.1 ((hPQ i).1 q), fun q => this.2.2 (fun p => q ((hPQ i).2 p))⟩
  · intro hV; have := h10 hV
    exact ⟨this.1, fun q => this.2 (fun p => q ((hPQ i).2 p))⟩

theorem inv_closeH (hI : Inv S P st) {i : Nat} {s : Seg} (_hs : S[i]? = some s) (_hH : s.ori = .H) :
    Inv S (fun e => P e ∨ e = 2 * i + 1) { st with openH := st.openH.erase (2 * i) } := by
  refine hI.transfer rfl rfl (fun j => ⟨fun h => h.elim id (fun h => by omega), Or.inl⟩) ?_
    (List.Pairwise.sublist List.erase_sublist hI.ohs)
  intro e
  simp only
  rw [mem_erase_sorted _ hI.ohs, hI.oh]
  constructor
  · rintro ⟨⟨j, t, ht, rfl, htH, hp, hnp⟩, hne⟩
    refine ⟨j, t, ht, rfl, htH, Or.inl hp, ?_⟩
    rintro (h | h)
    · exact hnp h
    · omega
  · rintro ⟨j, t, ht, rfl, htH, hp, hnp⟩
    refine ⟨⟨j, t, ht, rfl, htH, hp.elim id (fun h => by omega), fun h => hnp (Or.inl h)⟩, ?_⟩
    intro h; exact hnp (Or.inr (by omega))

theorem inv_closeV (hI : Inv S P st) {k : Nat} {s : Seg} (hs : S[k]? = some s) (hV : s.ori = .V) :
    Inv S (fun e => P e ∨ e = 2 * k + 1) { st with openV := none } := by
  refine hI.transfer rfl rfl (fun j => ⟨fun h => h.elim id (fun h => by omega), Or.inl⟩) ?_ hI.ohs
  intro e
  simp only
  rw [hI.oh]
  constructor
  · rintro ⟨j, t, ht, rfl, htH, hp, hnp⟩
    refine ⟨j, t, ht, rfl, htH, Or.inl hp, ?_⟩
    rintro (h | h)
    · exact hnp h
    · have : j = k := by omega
      subst this; rw [hs] at ht; cases ht; rw [hV] at htH; cases htH
  · rintro ⟨j, t, ht, rfl, htH, hp, hnp⟩
    exact ⟨j, t, ht, rfl, htH, hp.elim id (fun h => by omega), fun h => hnp (Or.inl h)⟩

theorem pe_openV (hI : Inv S P st) {k : Nat} {s : Seg} (hs : S[k]? = some s) (hV : s.ori = .V) :
    processEvent st (2 * k) = { st with openV := some (2 * k) } := by
  obtain ⟨eo, ec, h0, _, _, _, _, _, _, h7, _, _, h10⟩ := hI.ev k s hs
  obtain ⟨so, hso, hori⟩ := oriAt_some h7
  unfold processEvent
  simp only [h0, hso, (h10 hV).1, hori, hV]
  simp

theorem inv_openV (hI : Inv S P st) {k : Nat} {s : Seg} (hs : S[k]? = some s) (hV : s.ori = .V) :
    Inv S (fun e => P e ∨ e = 2 * k) { st with openV := some (2 * k) } := by
  refine ⟨hI.len, ?_, ?_, hI.ohs⟩
  · intro i t ht
    obtain ⟨eo, ec, h0, h1, h2, h3, h4, h5, h6, h7, h8, h9, h10⟩ := hI.ev i t ht
    refine ⟨eo, ec, h0, h1, h2, h3, h4, h5, h6, h7, h8, ?_, ?_⟩
    · intro hH
      have hik : i ≠ k := by rintro rfl; rw [hs] at ht; cases ht; rw [hV] at hH; cases hH
      have := h9 hH
      exact ⟨this.1, fun q => this.2.1 (q.elim id (fun h => by omega)), fun q => this.2.2 (fun p => q (Or.inl p))⟩
    · intro hV'; have := h10 hV'
      exact ⟨this.1, fun q => this.2 (fun p => q (Or.inl p))⟩
  · intro e
    simp only
    rw [hI.oh]
    constructor
    · rintro ⟨j, t, ht, rfl, htH, hp, hnp⟩
      exact ⟨j, t, ht, rfl, htH, Or.inl hp, fun h => h.elim hnp (fun h => by omega)⟩
    · rintro ⟨j, t, ht, rfl, htH, hp, hnp⟩
      have hjk : j ≠ k := by rintro rfl; rw [hs] at ht; cases ht; rw [hV] at htH; cases htH
      exact ⟨j, t, ht, rfl, htH, hp.elim id (fun h => by omega), fun h => hnp (Or.inl h)⟩

theorem pe_openH (hI : Inv S P st) {i : Nat} {s : Seg} (hs : S[i]? = some s) (hH : s.ori = .H)
    (hnP : ¬ P (2 * i)) :
    ∃ eo, st.evs[2 * i]? = some eo ∧ processEvent st (2 * i) =
      { st with evs := st.evs.set (2 * i) { eo with ty := .sustain }, openH := insertAsc (2 * i) st.openH } := by
  obtain ⟨eo, ec, h0, _, _, _, _, _, _, h7, _, h9, _⟩ := hI.ev i s hs
  obtain ⟨so, hso, hori⟩ := oriAt_some h7
  refine ⟨eo, h0, ?_⟩
  unfold processEvent
  simp only [h0, hso, (h9 hH).2.2 hnP, hori, hH]
  simp

theorem inv_openH (hI : Inv S P st) {i : Nat} {s : Seg} (hs : S[i]? = some s) (hH : s.ori = .H)
    (hnP : ¬ P (2 * i)) (hnP1 : ¬ P (2 * i + 1)) {eo : Ev} (heo : st.evs[2 * i]? = some eo) :
    Inv S (fun e => P e ∨ e = 2 * i)
      { st with evs := st.evs.set (2 * i) { eo with ty := .sustain }, openH := insertAsc (2 * i) st.openH } := by
  refine ⟨by simp [hI.len], ?_, ?_, insertAsc_sorted _ _ hI.ohs⟩
  · intro j t ht
    obtain ⟨eo', ec, h0, h1, h2, h3, h4, h5, h6, h7, h8, h9, h10⟩ := hI.ev j t ht
    by_cases hji : j = i
    · subst hji
      rw [hs] at ht; cases ht
      rw [heo] at h0; cases h0
      have hlt : 2 * j < st.evs.length := by
        rw [hI.len]; obtain ⟨hj, _⟩ := List.getElem?_eq_some_iff.1 hs; omega
      refine ⟨{ eo with ty := .sustain }, ec, ?_, ?_, h2, h3, h4, h5, h6, h7, h8, ?_, ?_⟩
      · simp [hlt]
      · simp only [List.getElem?_set]; rw [if_neg (by omega)]; exact h1
      · intro _; exact ⟨(h9 hH).1, fun _ => rfl, fun q => absurd (Or.inr rfl) q⟩
      · intro hV; rw [hH] at hV; cases hV
    · refine ⟨eo', ec, ?_, ?_, h2, h3, h4, h5, h6, h7, h8, ?_, ?_⟩
      · simp only [List.getElem?_set]; rw [if_neg (by omega)]; exact h0
      · simp only [List.getElem?_set]; rw [if_neg (by omega)]; exact h1
      · intro hH'; have := h9 hH'
        exact ⟨this.1, fun q => this.2.1 (q.elim id (fun h => by omega)), fun q => this.2.2 (fun p => q (Or.inl p))⟩
      · intro hV'; have := h10 hV'
        exact ⟨this.1, fun q => this.2 (fun p => q (Or.inl p))⟩
  · intro e
    simp only
    rw [mem_insertAsc, hI.oh]
    constructor
    · rintro (rfl | ⟨j, t, ht, rfl, htH, hp, hnp⟩)
      · exact ⟨i, s, hs, rfl, hH, Or.inr rfl, fun h => h.elim hnP1 (fun h => by omega)⟩
      · exact ⟨j, t, ht, rfl, htH, Or.inl hp, fun h => h.elim hnp (fun h => by omega)⟩
    · rintro ⟨j, t, ht, rfl, htH, hp, hnp⟩
      by_cases hji : j = i
      · left; rw [hji]
      · right
        exact ⟨j, t, ht, rfl, htH, hp.elim id (fun h => by omega), fun h => hnp (Or.inl h)⟩

/-! ### the SUSTAIN arm -/

theorem absR_nonneg (r : Rat) : 0 ≤ absR r := by unfold absR; split <;> grind
theorem absR_pos {r : Rat} (h : r ≠ 0) : 0 < absR r := by unfold absR; split <;> grind

theorem mkSeg_ori_H {n1 n2 : Node} (h : n1.p.y = n2.p.y) : (mkSeg n1 n2).ori = .H := by
  unfold mkSeg
  have h0 : n2.p.y - n1.p.y = 0 := by grind
  simp only [h0]
  have : absR 0 ≤ absR (n2.p.x - n1.p.x) := by
    have := absR_nonneg (n2.p.x - n1.p.x); unfold absR at *; grind
  simp only [this, if_true]
  split <;> rfl

theorem mkSeg_ori_V {n1 n2 : Node} (hx : n1.p.x = n2.p.x) (hy : n1.p.y ≠ n2.p.y) : (mkSeg n1 n2).ori = .V := by
  unfold mkSeg
  have h0 : n2.p.x - n1.p.x = 0 := by grind
  simp only [h0]
  have : ¬ absR (n2.p.y - n1.p.y) ≤ absR 0 := by
    have := absR_pos (r := n2.p.y - n1.p.y) (by grind); unfold absR at *; grind
  simp only [this, if_false]
  split <;> rfl

theorem oriAt_set_closing {segs : List Seg} {a : Nat} {s : Seg} (h : segs[a]? = some s) (cr : Node) (b : Nat) :
    oriAt (segs.set a (s.setNewClosing cr)) b = oriAt segs b := by
  unfold oriAt
  rw [List.getElem?_set]
  split
  · rename_i hab; subst hab
    obtain ⟨hlt, hget⟩ := List.getElem?_eq_some_iff.1 h
    simp [hlt, Seg.setNewClosing, hget]
  · rfl

theorem oriAt_append {segs : List Seg} {b : Nat} {o : Ori} (l : List Seg) (h : oriAt segs b = some o) :
    oriAt (segs ++ l) b = some o := by
  obtain ⟨s, hs, ho⟩ := oriAt_some h
  unfold oriAt
  rw [List.getElem?_append_left (List.getElem?_eq_some_iff.1 hs).1, hs]; simp [ho]

theorem oriAt_append_new (segs : List Seg) (x : Seg) : oriAt (segs ++ [x]) segs.length = some x.ori := by
  unfold oriAt; simp

theorem crossAt_eq (st : SwState) (i j : Nat) (e ov : Ev) (so sv : Seg) (ce cv : Ev)
    (h1 : st.segs[e.seg]? = some so)
    (h2 : (st.segs.set e.seg (so.setNewClosing ⟨st.nextId, ⟨ov.cc, e.cc⟩⟩))[ov.seg]? = some sv)
    (h3 : st.evs[e.comp]? = some ce)
    (h4 : (st.evs.set e.comp { ce with seg := st.segs.length })[ov.comp]? = some cv) :
    crossAt st i j e ov =
      { st with
        segs := ((st.segs.set e.seg (so.setNewClosing ⟨st.nextId, ⟨ov.cc, e.cc⟩⟩)).set ov.seg
                  (sv.setNewClosing ⟨st.nextId, ⟨ov.cc, e.cc⟩⟩)) ++ [mkSeg ⟨st.nextId, ⟨ov.cc, e.cc⟩⟩ ce.endpt]
                  ++ [mkSeg ⟨st.nextId, ⟨ov.cc, e.cc⟩⟩ cv.endpt],
        evs := (((st.evs.set e.comp { ce with seg := st.segs.length }).set ov.comp
                  { cv with seg := st.segs.length + 1 }).set i
                  { e with seg := st.segs.length, endpt := ⟨st.nextId, ⟨ov.cc, e.cc⟩⟩, vc := ov.cc }).set j
                  { ov with seg := st.segs.length + 1, endpt := ⟨st.nextId, ⟨ov.cc, e.cc⟩⟩, vc := e.cc },
        cross := ⟨st.nextId, ⟨ov.cc, e.cc⟩⟩ :: st.cross, nextId := st.nextId + 1 } := by
  unfold crossAt
  simp only [h1, h2, h3]
  simp only [List.length_set, List.length_append, List.length_cons, List.length_nil]
  simp only [h4]

/-- what the invariant says about the event stored at index `x` -/
def EvOK (S : List Seg) (P : Nat → Prop) (segs : List Seg) (x : Nat) (e : Ev) : Prop :=
  ∀ i s, S[i]? = some s →
    (x = 2 * i → e.cc = s.cc ∧ e.comp = 2 * i + 1 ∧ oriAt segs e.seg = some s.ori ∧
        (s.ori = .H → e.endpt.p.y = s.cc ∧ (P (2 * i) → e.ty = .sustain) ∧ (¬ P (2 * i) → e.ty = .opn)) ∧
        (s.ori = .V → e.ty = .opn ∧ (¬ P (2 * i) → e.endpt.p.y = s.lo))) ∧
    (x = 2 * i + 1 → e.comp = 2 * i ∧ e.ty = .close ∧ e.endpt = s.cn ∧ oriAt segs e.seg = some s.ori)

theorem Inv.evOK (hI : Inv S P st) : ∀ x e, st.evs[x]? = some e → EvOK S P st.segs x e := by
  intro x e hx i s hs
  obtain ⟨eo, ec, h0, h1, h2, h3, h4, h5, h6, h7, h8, h9, h10⟩ := hI.ev i s hs
  constructor
  · rintro rfl
    rw [h0] at hx; cases hx
    exact ⟨h2, h3, h7, h9, h10⟩
  · rintro rfl
    rw [h1] at hx; cases hx
    exact ⟨h4, h5, h6, h8⟩

theorem Inv.mk' (len : st.evs.length = 2 * S.length)
    (h : ∀ x e, st.evs[x]? = some e → EvOK S P st.segs x e)
    (oh : ∀ e, e ∈ st.openH ↔ ∃ i s, S[i]? = some s ∧ e = 2 * i ∧ s.ori = .H ∧ P (2 * i) ∧ ¬ P (2 * i + 1))
    (ohs : st.openH.Pairwise (· < ·)) : Inv S P st := by
  refine ⟨len, ?_, oh, ohs⟩
  intro i s hs
  obtain ⟨hi, _⟩ := List.getElem?_eq_some_iff.1 hs
  have l0 : 2 * i < st.evs.length := by omega
  have l1 : 2 * i + 1 < st.evs.length := by omega
  have g0 : st.evs[2 * i]? = some st.evs[2 * i] := List.getElem?_eq_getElem l0
  have g1 : st.evs[2 * i + 1]? = some st.evs[2 * i + 1] := List.getElem?_eq_getElem l1
  obtain ⟨a1, a2, a3, a4, a5⟩ := (h _ _ g0 i s hs).1 rfl
  obtain ⟨b1, b2, b3, b4⟩ := (h _ _ g1 i s hs).2 rfl
  exact ⟨_, _, g0, g1, a1, a2, b1, b2, b3, a3, b4, a4, a5⟩

theorem EvOK.segs_mono {segs segs' : List Seg} {x : Nat} {e : Ev}
    (hm : ∀ a o, oriAt segs a = some o → oriAt segs' a = some o) (h : EvOK S P segs x e) :
    EvOK S P segs' x e := by
  intro i s hs
  obtain ⟨h1, h2⟩ := h i s hs
  exact ⟨fun hx => let ⟨a, b, c, d⟩ := h1 hx; ⟨a, b, hm _ _ c, d⟩,
         fun hx => let ⟨a, b, c, d⟩ := h2 hx; ⟨a, b, c, hm _ _ d⟩⟩

theorem evOK_set {evs : List Ev} {segs : List Seg} {y : Nat} {e' : Ev}
    (h : ∀ x e, evs[x]? = some e → EvOK S P segs x e) (he' : EvOK S P segs y e') :
    ∀ x e, (evs.set y e')[x]? = some e → EvOK S P segs x e := by
  intro x e hx
  rw [List.getElem?_set] at hx
  split at hx
  · rename_i hyx; subst hyx
    split at hx
    · cases hx; exact he'
    · cases hx
  · exact h x e hx

theorem inv_cross (hG : Good S) (hI : Inv S P st) {i k : Nat} {si sk : Seg}
    (hsi : S[i]? = some si) (hHi : si.ori = .H) (hsk : S[k]? = some sk) (hVk : sk.ori = .V)
    (hPk : P (2 * k)) {e ov : Ev} (he : st.evs[2 * i]? = some e) (hov : st.evs[2 * k]? = some ov)
    (hne : si.cc ≠ sk.hi) :
    Inv S P (crossAt st (2 * i) (2 * k) e ov) ∧
    (crossAt st (2 * i) (2 * k) e ov).cross = ⟨st.nextId, ⟨sk.cc, si.cc⟩⟩ :: st.cross ∧
    (crossAt st (2 * i) (2 * k) e ov).openV = st.openV ∧
    (crossAt st (2 * i) (2 * k) e ov).openH = st.openH := by
  have hik : i ≠ k := by rintro rfl; rw [hsi] at hsk; cases hsk; rw [hHi] at hVk; cases hVk
  obtain ⟨eo, ec, h0, h1, h2, h3, h4, h5, h6, h7, h8, h9, h10⟩ := hI.ev i si hsi
  rw [he] at h0; cases h0
  obtain ⟨eo', ec', k0, k1, k2, k3, k4, k5, k6, k7, k8, k9, k10⟩ := hI.ev k sk hsk
  rw [hov] at k0; cases k0
  obtain ⟨so, hso, hsoo⟩ := oriAt_some h7
  obtain ⟨sv, hsv, hsvo⟩ := oriAt_some k7
  have hseg_ne : e.seg ≠ ov.seg := by
    intro h; rw [h] at hso; rw [hso] at hsv; cases hsv; rw [hsoo] at hsvo; rw [hHi, hVk] at hsvo; cases hsvo
  have hsiM : si ∈ S := List.mem_of_getElem? hsi
  have hskM : sk ∈ S := List.mem_of_getElem? hsk
  have shi : SegH si := by
    rcases hG.shape si hsiM with h | h
    · exact h
    · rw [h.1] at hHi; cases hHi
  have shk : SegV sk := by
    rcases hG.shape sk hskM with h | h
    · rw [h.1] at hVk; cases hVk
    · exact h
  have h2' : (st.segs.set e.seg (so.setNewClosing ⟨st.nextId, ⟨ov.cc, e.cc⟩⟩))[ov.seg]? = some sv := by
    rw [List.getElem?_set, if_neg hseg_ne]; exact hsv
  have h3' : st.evs[e.comp]? = some ec := by rw [h3]; exact h1
  have h4' : (st.evs.set e.comp { ec with seg := st.segs.length })[ov.comp]? = some ec' := by
    rw [List.getElem?_set, if_neg (by rw [h3, k3]; omega), k3]; exact k1
  rw [crossAt_eq st (2 * i) (2 * k) e ov so sv ec ec' hso h2' h3' h4']
  refine ⟨?_, by simp [h2, k2], rfl, rfl⟩
  -- orientation of the two continuation segments
  have hnewH : (mkSeg ⟨st.nextId, ⟨ov.cc, e.cc⟩⟩ ec.endpt).ori = .H := by
    apply mkSeg_ori_H; simp only; rw [h6, shi.2.2.1, h2]
  have hnewV : (mkSeg ⟨st.nextId, ⟨ov.cc, e.cc⟩⟩ ec'.endpt).ori = .V := by
    apply mkSeg_ori_V
    · simp only; rw [k6, shk.2.2.1, k2]
    · simp only; rw [k6, shk.2.2.2.2.1, h2]; exact hne
  -- every old orientation lookup survives
  have hmono : ∀ a o, oriAt st.segs a = some o →
      oriAt (((st.segs.set e.seg (so.setNewClosing ⟨st.nextId, ⟨ov.cc, e.cc⟩⟩)).set ov.seg
        (sv.setNewClosing ⟨st.nextId, ⟨ov.cc, e.cc⟩⟩)) ++ [mkSeg ⟨st.nextId, ⟨ov.cc, e.cc⟩⟩ ec.endpt]
        ++ [mkSeg ⟨st.nextId, ⟨ov.cc, e.cc⟩⟩ ec'.endpt]) a = some o := by
    intro a o ha
    apply oriAt_append; apply oriAt_append
    rw [oriAt_set_closing h2', oriAt_set_closing hso]; exact ha
  have hL1 : oriAt (((st.segs.set e.seg (so.setNewClosing ⟨st.nextId, ⟨ov.cc, e.cc⟩⟩)).set ov.seg
        (sv.setNewClosing ⟨st.nextId, ⟨ov.cc, e.cc⟩⟩)) ++ [mkSeg ⟨st.nextId, ⟨ov.cc, e.cc⟩⟩ ec.endpt]
        ++ [mkSeg ⟨st.nextId, ⟨ov.cc, e.cc⟩⟩ ec'.endpt]) st.segs.length = some .H := by
    apply oriAt_append
    have := oriAt_append_new ((st.segs.set e.seg (so.setNewClosing ⟨st.nextId, ⟨ov.cc, e.cc⟩⟩)).set ov.seg
        (sv.setNewClosing ⟨st.nextId, ⟨ov.cc, e.cc⟩⟩)) (mkSeg ⟨st.nextId, ⟨ov.cc, e.cc⟩⟩ ec.endpt)
    simp only [List.length_set] at this
    rw [this, hnewH]
  have hL2 : oriAt (((st.segs.set e.seg (so.setNewClosing ⟨st.nextId, ⟨ov.cc, e.cc⟩⟩)).set ov.seg
        (sv.setNewClosing ⟨st.nextId, ⟨ov.cc, e.cc⟩⟩)) ++ [mkSeg ⟨st.nextId, ⟨ov.cc, e.cc⟩⟩ ec.endpt]
        ++ [mkSeg ⟨st.nextId, ⟨ov.cc, e.cc⟩⟩ ec'.endpt]) (st.segs.length + 1) = some .V := by
    have := oriAt_append_new (((st.segs.set e.seg (so.setNewClosing ⟨st.nextId, ⟨ov.cc, e.cc⟩⟩)).set ov.seg
        (sv.setNewClosing ⟨st.nextId, ⟨ov.cc, e.cc⟩⟩)) ++ [mkSeg ⟨st.nextId, ⟨ov.cc, e.cc⟩⟩ ec.endpt])
        (mkSeg ⟨st.nextId, ⟨ov.cc, e.cc⟩⟩ ec'.endpt)
    simp only [List.length_set, List.length_append, List.length_cons, List.length_nil] at this
    rw [this, hnewV]
  have hOK := hI.evOK
  apply Inv.mk'
  · simp [hI.len]
  · simp only
    apply evOK_set (y := 2 * k); apply evOK_set (y := 2 * i)
    apply evOK_set (y := ov.comp); apply evOK_set (y := e.comp)
    · intro x e0 hx; exact (hOK x e0 hx).segs_mono hmono
    · -- CLOSE event of the horizontal
      intro j t ht
      have := (hOK _ _ h3' j t ht)
      refine ⟨fun hx => absurd hx (by rw [h3]; omega), fun hx => ?_⟩
      obtain ⟨a, b, c, d⟩ := this.2 hx
      have : j = i := by rw [h3] at hx; omega
      subst this; rw [hsi] at ht; cases ht
      exact ⟨a, b, c, by simp only; rw [hHi]; exact hL1⟩
    · -- CLOSE event of the vertical
      intro j t ht
      have := (hOK _ _ (k3 ▸ k1) j t ht)
      refine ⟨fun hx => absurd hx (by rw [k3]; omega), fun hx => ?_⟩
      obtain ⟨a, b, c, d⟩ := this.2 hx
      have : j = k := by rw [k3] at hx; omega
      subst this; rw [hsk] at ht; cases ht
      exact ⟨a, b, c, by simp only; rw [hVk]; exact hL2⟩
    · -- SUSTAIN event of the horizontal
      intro j t ht
      refine ⟨fun hx => ?_, fun hx => absurd hx (by omega)⟩
      have : j = i := by omega
      subst this; rw [hsi] at ht; cases ht
      refine ⟨h2, h3, by simp only; rw [hHi]; exact hL1, fun _ => ?_, fun hV => by rw [hHi] at hV; cases hV⟩
      exact ⟨by simp only; exact h2, (h9 hHi).2.1, (h9 hHi).2.2⟩
    · -- OPEN event of the vertical
      intro j t ht
      refine ⟨fun hx => ?_, fun hx => absurd hx (by omega)⟩
      have : j = k := by omega
      subst this; rw [hsk] at ht; cases ht
      refine ⟨k2, k3, by simp only; rw [hVk]; exact hL2, fun hH => (by rw [hVk] at hH; cases hH), fun _ => ?_⟩
      exact ⟨(k10 hVk).1, fun hn => absurd hPk hn⟩
  · exact hI.oh
  · exact hI.ohs

theorem Inv.congr {Q : Nat → Prop} (hI : Inv S P st) (h : ∀ x, P x ↔ Q x) : Inv S Q st := by
  refine hI.transfer rfl rfl (fun j => (h _).symm) ?_ hI.ohs
  intro e; rw [hI.oh]
  constructor
  · rintro ⟨i, s, a, b, c, d, f⟩; exact ⟨i, s, a, b, c, (h _).1 d, fun q => f ((h _).2 q)⟩
  · rintro ⟨i, s, a, b, c, d, f⟩; exact ⟨i, s, a, b, c, (h _).2 d, fun q => f ((h _).1 q)⟩

theorem pe_sustain (hI : Inv S P st) {i : Nat} {s : Seg} (hs : S[i]? = some s) (hH : s.ori = .H)
    (hP : P (2 * i)) :
    ∃ e, st.evs[2 * i]? = some e ∧ processEvent st (2 * i) =
      match st.openV with
      | none => st
      | some j => match st.evs[j]? with
        | none => st
        | some ov => crossAt st (2 * i) j e ov := by
  obtain ⟨eo, ec, h0, _, _, _, _, _, _, h7, _, h9, _⟩ := hI.ev i s hs
  obtain ⟨so, hso, _⟩ := oriAt_some h7
  refine ⟨eo, h0, ?_⟩
  unfold processEvent
  simp only [h0, hso, (h9 hH).2.1 hP]
  cases st.openV with
  | none => rfl
  | some j => simp only; cases st.evs[j]? <;> rfl

/-! ### the comparator as a key -/

/-- sort key of an active event: y, then CLOSE < SUSTAIN < OPEN -/
def kk (y : Rat) : EvType → Rat
  | .close => y
  | .sustain => y + 1 / 4
  | .opn => y + 1 / 2

theorem compareActive_key (ya yb : Rat) (ta tb : EvType) (h : Apart ya yb) :
    compareActive ya ta yb tb = true ↔ kk ya ta < kk yb tb := by
  unfold Apart at h
  by_cases h1 : yb - ya > 1 <;> by_cases h2 : ya - yb > 1 <;>
  cases ta <;> cases tb <;> simp only [compareActive, tolY, kk, EvType.rank, h1, h2, if_true, if_false] <;>
    simp <;> grind

def akey (evs : List Ev) (e : Nat) : Rat :=
  match evs[e]? with
  | some ev => kk ev.endpt.p.y ev.ty
  | none => 0

theorem cmpEv_key (evs : List Ev) (a b : Nat) (ea eb : Ev) (ha : evs[a]? = some ea) (hb : evs[b]? = some eb)
    (h : Apart ea.endpt.p.y eb.endpt.p.y) : cmpEv evs a b = true ↔ akey evs a < akey evs b := by
  unfold cmpEv akey
  simp only [ha, hb]
  exact compareActive_key _ _ _ _ h

/-! ### one x-part -/

/-- `part` = the events whose end node has x = `X`; `P0` = the events left of `X` -/
structure PartCtx (S : List Seg) (P0 : Nat → Prop) (X : Rat) (part : List Nat) : Prop where
  hP0 : ∀ i s, S[i]? = some s → (P0 (2 * i) ↔ s.on.p.x < X) ∧ (P0 (2 * i + 1) ↔ s.cn.p.x < X)
  hpart : ∀ i s, S[i]? = some s → (2 * i ∈ part ↔ s.on.p.x = X) ∧ (2 * i + 1 ∈ part ↔ s.cn.p.x = X)
  hlt : ∀ e ∈ part, e < 2 * S.length

theorem Good.segH (hG : Good S) {i : Nat} {s : Seg} (hs : S[i]? = some s) (h : s.ori = .H) : SegH s := by
  rcases hG.shape s (List.mem_of_getElem? hs) with h' | h'
  · exact h'
  · rw [h'.1] at h; cases h

theorem Good.segV (hG : Good S) {i : Nat} {s : Seg} (hs : S[i]? = some s) (h : s.ori = .V) : SegV s := by
  rcases hG.shape s (List.mem_of_getElem? hs) with h' | h'
  · rw [h'.1] at h; cases h
  · exact h'

theorem Good.noOverlap_get (hG : Good S) {a b : Nat} {s t : Seg} (hs : S[a]? = some s) (ht : S[b]? = some t)
    (hab : a ≠ b) (ho : s.ori = t.ori) (hc : s.cc = t.cc) : s.hi ≤ t.lo ∨ t.hi ≤ s.lo := by
  obtain ⟨ha, hsa⟩ := List.getElem?_eq_some_iff.1 hs
  obtain ⟨hb, htb⟩ := List.getElem?_eq_some_iff.1 ht
  have hp := hG.noOverlap
  rw [List.pairwise_iff_getElem] at hp
  rcases Nat.lt_or_gt_of_ne hab with h | h
  · have := hp a b ha hb h; rw [hsa, htb] at this; exact this ho hc
  · have := hp b a hb ha h; rw [hsa, htb] at this
    exact (this ho.symm hc.symm).symm

/-- snapshot keys of the events that matter for `openV` and for the crossings -/
theorem key_Vopen (_hG : Good S) {P0 : Nat → Prop} {st0 : SwState} (hI0 : Inv S P0 st0) {k : Nat} {sk : Seg}
    (hs : S[k]? = some sk) (hV : sk.ori = .V) (hn : ¬ P0 (2 * k)) : akey st0.evs (2 * k) = sk.lo + 1 / 2 := by
  obtain ⟨eo, ec, h0, _, _, _, _, _, _, _, _, _, h10⟩ := hI0.ev k sk hs
  unfold akey; rw [h0]; simp only
  rw [(h10 hV).1, (h10 hV).2 hn]; rfl

theorem key_Vclose (hG : Good S) {P0 : Nat → Prop} {st0 : SwState} (hI0 : Inv S P0 st0) {k : Nat} {sk : Seg}
    (hs : S[k]? = some sk) (hV : sk.ori = .V) : akey st0.evs (2 * k + 1) = sk.hi := by
  obtain ⟨eo, ec, _, h1, _, _, _, h5, h6, _, _, _, _⟩ := hI0.ev k sk hs
  unfold akey; rw [h1]; simp only
  rw [h5, h6, (hG.segV hs hV).2.2.2.2.1]; rfl

theorem key_Hsus (_hG : Good S) {P0 : Nat → Prop} {st0 : SwState} (hI0 : Inv S P0 st0) {i : Nat} {si : Seg}
    (hs : S[i]? = some si) (hH : si.ori = .H) (hp : P0 (2 * i)) : akey st0.evs (2 * i) = si.cc + 1 / 4 := by
  obtain ⟨eo, ec, h0, _, _, _, _, _, _, _, _, h9, _⟩ := hI0.ev i si hs
  unfold akey; rw [h0]; simp only
  rw [(h9 hH).1, (h9 hH).2.1 hp]; rfl

/-- state of the sweep inside a part after the prefix `pre` of the sorted active list -/
structure J (S : List Seg) (P0 : Nat → Prop) (X : Rat) (part oh0 : List Nat) (cross0 : List Pt)
    (pre : List Nat) (st : SwState) : Prop where
  inv : Inv S (fun x => P0 x ∨ (x ∈ pre ∧ x ∈ part)) st
  ov1 : ∀ k sk, S[k]? = some sk → sk.ori = .V → sk.cc = X → 2 * k ∈ pre → 2 * k + 1 ∉ pre →
          st.openV = some (2 * k)
  ov2 : ∀ j, st.openV = some j → ∃ k sk, S[k]? = some sk ∧ sk.ori = .V ∧ sk.cc = X ∧ j = 2 * k ∧
          2 * k ∈ pre ∧ 2 * k + 1 ∉ pre
  cr : ∀ p, p ∈ st.cross.map (·.p) ↔ p ∈ cross0 ∨ ∃ (i k : Nat) (si sk : Seg), S[i]? = some si ∧ S[k]? = some sk ∧
          si.ori = .H ∧ sk.ori = .V ∧ sk.cc = X ∧ 2 * i ∈ pre ∧ 2 * i ∈ oh0 ∧ sk.lo < si.cc ∧ si.cc < sk.hi ∧
          p = ⟨X, si.cc⟩

/-- an event that is neither end of a vertical: `openV` clauses carry over when `openV` is unchanged -/
theorem J.ov_transfer {P0 : Nat → Prop} {X : Rat} {part oh0 : List Nat} {cross0 : List Pt} {pre : List Nat}
    {st st' : SwState} (hJ : J S P0 X part oh0 cross0 pre st) (e : Nat)
    (hne : ∀ k sk, S[k]? = some sk → sk.ori = .V → e ≠ 2 * k ∧ e ≠ 2 * k + 1) (hov : st'.openV = st.openV) :
    (∀ k sk, S[k]? = some sk → sk.ori = .V → sk.cc = X → 2 * k ∈ pre ++ [e] → 2 * k + 1 ∉ pre ++ [e] →
          st'.openV = some (2 * k)) ∧
    (∀ j, st'.openV = some j → ∃ k sk, S[k]? = some sk ∧ sk.ori = .V ∧ sk.cc = X ∧ j = 2 * k ∧
          2 * k ∈ pre ++ [e] ∧ 2 * k + 1 ∉ pre ++ [e]) := by
  constructor
  · intro k sk hs hV hX h1 h2
    rw [hov]
    have := hne k sk hs hV
    refine hJ.ov1 k sk hs hV hX ?_ ?_
    · rcases List.mem_append.1 h1 with h | h
      · exact h
      · simp at h; exact absurd h.symm this.1
    · intro h; exact h2 (List.mem_append_left _ h)
  · intro j hj
    rw [hov] at hj
    obtain ⟨k, sk, hs, hV, hX, rfl, h1, h2⟩ := hJ.ov2 j hj
    have := hne k sk hs hV
    refine ⟨k, sk, hs, hV, hX, rfl, List.mem_append_left _ h1, ?_⟩
    intro h
    rcases List.mem_append.1 h with h | h
    · exact h2 h
    · simp at h; exact this.2 h.symm

/-- an event outside `oh0`: the crossing clause carries over when `cross` is unchanged -/
theorem J.cr_transfer {P0 : Nat → Prop} {X : Rat} {part oh0 : List Nat} {cross0 : List Pt} {pre : List Nat}
    {st st' : SwState} (hJ : J S P0 X part oh0 cross0 pre st) (e : Nat) (he : e ∉ oh0)
    (hc : st'.cross = st.cross) :
    ∀ p, p ∈ st'.cross.map (·.p) ↔ p ∈ cross0 ∨ ∃ (i k : Nat) (si sk : Seg), S[i]? = some si ∧ S[k]? = some sk ∧
          si.ori = .H ∧ sk.ori = .V ∧ sk.cc = X ∧ 2 * i ∈ pre ++ [e] ∧ 2 * i ∈ oh0 ∧ sk.lo < si.cc ∧
          si.cc < sk.hi ∧ p = ⟨X, si.cc⟩ := by
  intro p
  rw [hc, hJ.cr]
  constructor
  · rintro (h | ⟨i, k, si, sk, a, b, c, d, f, g, h, rest⟩)
    · exact Or.inl h
    · exact Or.inr ⟨i, k, si, sk, a, b, c, d, f, List.mem_append_left _ g, h, rest⟩
  · rintro (h | ⟨i, k, si, sk, a, b, c, d, f, g, h, rest⟩)
    · exact Or.inl h
    · refine Or.inr ⟨i, k, si, sk, a, b, c, d, f, ?_, h, rest⟩
      rcases List.mem_append.1 g with g | g
      · exact g
      · simp at g; rw [g] at h; exact absurd h he

/-- position of the current event `e` in the sorted active list `pre ++ e :: post` -/
structure SC (K : Nat → Rat) (pre post : List Nat) (e : Nat) (oh0 part : List Nat) : Prop where
  mem : ∀ x, (x ∈ pre ∨ x = e ∨ x ∈ post) ↔ (x ∈ oh0 ∨ x ∈ part)
  npre : e ∉ pre
  npost : e ∉ post
  disj : ∀ x, x ∈ pre → x ∉ post
  k1 : ∀ a ∈ pre, K a ≤ K e
  k2 : ∀ b ∈ post, K e ≤ K b
  k3 : ∀ a ∈ pre, ∀ b ∈ post, K a ≤ K b

/-- facts about a vertical segment whose events belong to the current part -/
theorem Vfacts (hG : Good S) {P0 : Nat → Prop} {X : Rat} {part : List Nat} (hC : PartCtx S P0 X part)
    {st0 : SwState} (hI0 : Inv S P0 st0) {k : Nat} {sk : Seg} (hs : S[k]? = some sk) (hV : sk.ori = .V)
    (hX : sk.cc = X) :
    ¬ P0 (2 * k) ∧ 2 * k ∈ part ∧ 2 * k + 1 ∈ part ∧ akey st0.evs (2 * k) = sk.lo + 1 / 2 ∧
    akey st0.evs (2 * k + 1) = sk.hi ∧ sk.lo < sk.hi ∧ Apart sk.lo sk.hi := by
  have sv := hG.segV hs hV
  have hm := List.mem_of_getElem? hs
  have hn : ¬ P0 (2 * k) := by
    rw [(hC.hP0 k sk hs).1, sv.2.1, hX]; exact Rat.lt_irrefl
  refine ⟨hn, (hC.hpart k sk hs).1.2 (by rw [sv.2.1, hX]), (hC.hpart k sk hs).2.2 (by rw [sv.2.2.1, hX]),
    key_Vopen hG hI0 hs hV hn, key_Vclose hG hI0 hs hV, sv.2.2.2.2.2, ?_⟩
  have := hG.sepY sk hm sk hm sk.on.p.y (by simp) sk.cn.p.y (by simp)
  rw [sv.2.2.2.1, sv.2.2.2.2.1] at this; exact this

theorem apart_V_H (hG : Good S) {i k : Nat} {si sk : Seg} (hsi : S[i]? = some si) (hsk : S[k]? = some sk)
    (hH : si.ori = .H) (hV : sk.ori = .V) : Apart sk.lo si.cc ∧ Apart sk.hi si.cc := by
  have sv := hG.segV hsk hV
  have sh := hG.segH hsi hH
  have hmi := List.mem_of_getElem? hsi
  have hmk := List.mem_of_getElem? hsk
  have a1 := hG.sepY sk hmk si hmi sk.on.p.y (by simp) si.on.p.y (by simp)
  have a2 := hG.sepY sk hmk si hmi sk.cn.p.y (by simp) si.on.p.y (by simp)
  rw [sv.2.2.2.1, sh.2.1] at a1
  rw [sv.2.2.2.2.1, sh.2.1] at a2
  exact ⟨a1, a2⟩

/-- while `2k` is open (OPEN before, CLOSE after the current position) no other vertical of the part is -/
theorem only_one_open (hG : Good S) {P0 : Nat → Prop} {X : Rat} {part : List Nat} (hC : PartCtx S P0 X part)
    {st0 : SwState} (hI0 : Inv S P0 st0) {k k' : Nat} {sk sk' : Seg}
    (hs : S[k]? = some sk) (hV : sk.ori = .V) (hX : sk.cc = X)
    (hs' : S[k']? = some sk') (hV' : sk'.ori = .V) (hX' : sk'.cc = X) (hne : k' ≠ k)
    (h1 : sk'.lo + 1 / 2 ≤ sk.lo + 1 / 2 ∨ sk'.lo + 1 / 2 ≤ sk.hi) (h2 : sk.lo + 1 / 2 ≤ sk'.hi ∨ sk.hi ≤ sk'.hi) :
    False := by
  obtain ⟨_, _, _, _, _, hlt, _⟩ := Vfacts hG hC hI0 hs hV hX
  obtain ⟨_, _, _, _, _, hlt', _⟩ := Vfacts hG hC hI0 hs' hV' hX'
  have := hG.noOverlap_get hs hs' (Ne.symm hne) (by rw [hV, hV']) (by rw [hX, hX'])
  grind

section steps
variable {P0 : Nat → Prop} {X : Rat} {part : List Nat} {st0 : SwState} {cross0 : List Pt}
  {pre post : List Nat}

theorem not_openH_of_V {P0 : Nat → Prop} {st0 : SwState} (hI0 : Inv S P0 st0) {k : Nat} {sk : Seg}
    (hs : S[k]? = some sk) (hV : sk.ori = .V) : 2 * k ∉ st0.openH ∧ 2 * k + 1 ∉ st0.openH := by
  constructor
  · intro h
    obtain ⟨i, s, hs', he, hH, _⟩ := (hI0.oh _).1 h
    have : i = k := by omega
    subst this; rw [hs] at hs'; cases hs'; rw [hV] at hH; cases hH
  · intro h
    obtain ⟨i, s, _, he, _⟩ := (hI0.oh _).1 h
    omega

theorem J_openV (hG : Good S) (hC : PartCtx S P0 X part) (hI0 : Inv S P0 st0) {k : Nat} {sk : Seg}
    (hsc : SC (akey st0.evs) pre post (2 * k) st0.openH part) (hs : S[k]? = some sk) (hV : sk.ori = .V)
    (hin : 2 * k ∈ part) (hJ : J S P0 X part st0.openH cross0 pre st) :
    J S P0 X part st0.openH cross0 (pre ++ [2 * k]) (processEvent st (2 * k)) := by
  have sv := hG.segV hs hV
  have hX : sk.cc = X := by rw [← sv.2.1]; exact (hC.hpart k sk hs).1.1 hin
  obtain ⟨_, _, hc1, hk0, hk1, hlt, hap⟩ := Vfacts hG hC hI0 hs hV hX
  rw [pe_openV hJ.inv hs hV]
  refine ⟨?_, ?_, ?_, ?_⟩
  · refine (inv_openV hJ.inv hs hV).congr ?_
    intro x; simp only [List.mem_append, List.mem_singleton]
    constructor
    · rintro ((h | ⟨h1, h2⟩) | rfl)
      · exact Or.inl h
      · exact Or.inr ⟨Or.inl h1, h2⟩
      · exact Or.inr ⟨Or.inr rfl, hin⟩
    · rintro (h | ⟨h1 | rfl, h2⟩)
      · exact Or.inl (Or.inl h)
      · exact Or.inl (Or.inr ⟨h1, h2⟩)
      · exact Or.inr rfl
  · intro k' sk' hs' hV' hX' h1 h2
    simp only
    by_cases hkk : k' = k
    · rw [hkk]
    · exfalso
      obtain ⟨_, _, hc1', hk0', hk1', _, _⟩ := Vfacts hG hC hI0 hs' hV' hX'
      have h1' : 2 * k' ∈ pre := by
        rcases List.mem_append.1 h1 with h | h
        · exact h
        · simp at h; omega
      have h2' : 2 * k' + 1 ∈ post := by
        rcases (hsc.mem (2 * k' + 1)).2 (Or.inr hc1') with h | h | h
        · exact absurd (List.mem_append_left _ h) h2
        · omega
        · exact h
      have a := hsc.k1 _ h1'; have b := hsc.k2 _ h2'
      rw [hk0', hk0] at a; rw [hk0, hk1'] at b
      exact only_one_open hG hC hI0 hs hV hX hs' hV' hX' hkk (Or.inl a) (Or.inl b)
  · intro j hj
    simp only at hj
    refine ⟨k, sk, hs, hV, hX, (Option.some.inj hj).symm, by simp, ?_⟩
    intro h
    rcases List.mem_append.1 h with h | h
    · have a := hsc.k1 _ h; rw [hk1, hk0] at a
      unfold Apart at hap; grind
    · simp at h
  · exact hJ.cr_transfer (st' := { st with openV := some (2 * k) }) (2 * k) (not_openH_of_V hI0 hs hV).1 rfl

theorem J_closeV (hG : Good S) (hC : PartCtx S P0 X part) (hI0 : Inv S P0 st0) {k : Nat} {sk : Seg}
    (hsc : SC (akey st0.evs) pre post (2 * k + 1) st0.openH part) (hs : S[k]? = some sk) (hV : sk.ori = .V)
    (hin : 2 * k + 1 ∈ part) (hJ : J S P0 X part st0.openH cross0 pre st) :
    J S P0 X part st0.openH cross0 (pre ++ [2 * k + 1]) (processEvent st (2 * k + 1)) := by
  have sv := hG.segV hs hV
  have hX : sk.cc = X := by rw [← sv.2.2.1]; exact (hC.hpart k sk hs).2.1 hin
  obtain ⟨_, _, hc1, hk0, hk1, hlt, hap⟩ := Vfacts hG hC hI0 hs hV hX
  rw [pe_close hJ.inv hs, if_neg (by rw [hV]; simp)]
  refine ⟨?_, ?_, ?_, ?_⟩
  · refine (inv_closeV hJ.inv hs hV).congr ?_
    intro x; simp only [List.mem_append, List.mem_singleton]
    constructor
    · rintro ((h | ⟨h1, h2⟩) | rfl)
      · exact Or.inl h
      · exact Or.inr ⟨Or.inl h1, h2⟩
      · exact Or.inr ⟨Or.inr rfl, hin⟩
    · rintro (h | ⟨h1 | rfl, h2⟩)
      · exact Or.inl (Or.inl h)
      · exact Or.inl (Or.inr ⟨h1, h2⟩)
      · exact Or.inr rfl
  · intro k' sk' hs' hV' hX' h1 h2
    exfalso
    by_cases hkk : k' = k
    · subst hkk; exact h2 (by simp)
    · obtain ⟨_, _, hc1', hk0', hk1', _, _⟩ := Vfacts hG hC hI0 hs' hV' hX'
      have h1' : 2 * k' ∈ pre := by
        rcases List.mem_append.1 h1 with h | h
        · exact h
        · simp at h; omega
      have h2' : 2 * k' + 1 ∈ post := by
        rcases (hsc.mem (2 * k' + 1)).2 (Or.inr hc1') with h | h | h
        · exact absurd (List.mem_append_left _ h) h2
        · omega
        · exact h
      have a := hsc.k1 _ h1'; have b := hsc.k2 _ h2'
      rw [hk0', hk1] at a; rw [hk1, hk1'] at b
      exact only_one_open hG hC hI0 hs hV hX hs' hV' hX' hkk (Or.inr a) (Or.inr b)
  · intro j hj; simp at hj
  · exact hJ.cr_transfer (st' := { st with openV := none }) (2 * k + 1) (not_openH_of_V hI0 hs hV).2 rfl

theorem H_not_V {i k : Nat} {si sk : Seg} (hsi : S[i]? = some si) (hH : si.ori = .H)
    (hsk : S[k]? = some sk) (hV : sk.ori = .V) : i ≠ k := by
  rintro rfl; rw [hsi] at hsk; cases hsk; rw [hH] at hV; cases hV

theorem J_openH (hG : Good S) (hC : PartCtx S P0 X part) (hI0 : Inv S P0 st0) {i : Nat} {si : Seg}
    (hsc : SC (akey st0.evs) pre post (2 * i) st0.openH part) (hs : S[i]? = some si) (hH : si.ori = .H)
    (hin : 2 * i ∈ part) (hJ : J S P0 X part st0.openH cross0 pre st) :
    J S P0 X part st0.openH cross0 (pre ++ [2 * i]) (processEvent st (2 * i)) := by
  have sh := hG.segH hs hH
  have hX : si.on.p.x = X := (hC.hpart i si hs).1.1 hin
  have hnP0 : ¬ P0 (2 * i) := by rw [(hC.hP0 i si hs).1, hX]; exact Rat.lt_irrefl
  have hnP : ¬ (P0 (2 * i) ∨ (2 * i ∈ pre ∧ 2 * i ∈ part)) := by
    rintro (h | h)
    · exact hnP0 h
    · exact hsc.npre h.1
  have hcn : X < si.cn.p.x := by rw [sh.2.2.2.2.1, ← hX, sh.2.2.2.1]; exact sh.2.2.2.2.2
  have hnP1 : ¬ (P0 (2 * i + 1) ∨ (2 * i + 1 ∈ pre ∧ 2 * i + 1 ∈ part)) := by
    rintro (h | h)
    · rw [(hC.hP0 i si hs).2] at h; grind
    · have := (hC.hpart i si hs).2.1 h.2; grind
  obtain ⟨eo, heo, hpe⟩ := pe_openH hJ.inv hs hH hnP
  rw [hpe]
  have hne : ∀ k sk, S[k]? = some sk → sk.ori = .V → 2 * i ≠ 2 * k ∧ 2 * i ≠ 2 * k + 1 := by
    intro k sk hsk hV; have := H_not_V hs hH hsk hV; omega
  obtain ⟨o1, o2⟩ := hJ.ov_transfer
    (st' := { st with evs := st.evs.set (2 * i) { eo with ty := .sustain }, openH := insertAsc (2 * i) st.openH })
    (2 * i) hne rfl
  refine ⟨?_, o1, o2, ?_⟩
  · refine (inv_openH hJ.inv hs hH hnP hnP1 heo).congr ?_
    intro x; simp only [List.mem_append, List.mem_singleton]
    constructor
    · rintro ((h | ⟨h1, h2⟩) | rfl)
      · exact Or.inl h
      · exact Or.inr ⟨Or.inl h1, h2⟩
      · exact Or.inr ⟨Or.inr rfl, hin⟩
    · rintro (h | ⟨h1 | rfl, h2⟩)
      · exact Or.inl (Or.inl h)
      · exact Or.inl (Or.inr ⟨h1, h2⟩)
      · exact Or.inr rfl
  · refine hJ.cr_transfer (2 * i) ?_ rfl
    intro h
    obtain ⟨j, t, ht, he, _, hp, _⟩ := (hI0.oh _).1 h
    have : j = i := by omega
    subst this; exact hnP0 hp

theorem J_closeH (_hG : Good S) (_hC : PartCtx S P0 X part) (hI0 : Inv S P0 st0) {i : Nat} {si : Seg}
    (_hsc : SC (akey st0.evs) pre post (2 * i + 1) st0.openH part) (hs : S[i]? = some si) (hH : si.ori = .H)
    (hin : 2 * i + 1 ∈ part) (hJ : J S P0 X part st0.openH cross0 pre st) :
    J S P0 X part st0.openH cross0 (pre ++ [2 * i + 1]) (processEvent st (2 * i + 1)) := by
  rw [pe_close hJ.inv hs, if_pos hH]
  have hne : ∀ k sk, S[k]? = some sk → sk.ori = .V → 2 * i + 1 ≠ 2 * k ∧ 2 * i + 1 ≠ 2 * k + 1 := by
    intro k sk hsk hV; have := H_not_V hs hH hsk hV; omega
  obtain ⟨o1, o2⟩ := hJ.ov_transfer (st' := { st with openH := st.openH.erase (2 * i) }) (2 * i + 1) hne rfl
  refine ⟨?_, o1, o2, ?_⟩
  · refine (inv_closeH hJ.inv hs hH).congr ?_
    intro x; simp only [List.mem_append, List.mem_singleton]
    constructor
    · rintro ((h | ⟨h1, h2⟩) | rfl)
      · exact Or.inl h
      · exact Or.inr ⟨Or.inl h1, h2⟩
      · exact Or.inr ⟨Or.inr rfl, hin⟩
    · rintro (h | ⟨h1 | rfl, h2⟩)
      · exact Or.inl (Or.inl h)
      · exact Or.inl (Or.inr ⟨h1, h2⟩)
      · exact Or.inr rfl
  · refine hJ.cr_transfer (2 * i + 1) ?_ rfl
    intro h
    obtain ⟨j, t, _, he, _⟩ := (hI0.oh _).1 h
    omega

theorem J_sus (hG : Good S) (hC : PartCtx S P0 X part) (hI0 : Inv S P0 st0) {i : Nat} {si : Seg}
    (hsc : SC (akey st0.evs) pre post (2 * i) st0.openH part) (hs : S[i]? = some si) (hH : si.ori = .H)
    (hoh : 2 * i ∈ st0.openH) (hp0 : P0 (2 * i)) (hJ : J S P0 X part st0.openH cross0 pre st) :
    J S P0 X part st0.openH cross0 (pre ++ [2 * i]) (processEvent st (2 * i)) := by
  have hnpart : 2 * i ∉ part := by
    intro h
    have h1 := (hC.hpart i si hs).1.1 h
    have h2 := (hC.hP0 i si hs).1.1 hp0
    rw [h1] at h2; exact Rat.lt_irrefl h2
  have hcongr : ∀ x, (P0 x ∨ (x ∈ pre ∧ x ∈ part)) ↔ (P0 x ∨ (x ∈ pre ++ [2 * i] ∧ x ∈ part)) := by
    intro x; simp only [List.mem_append, List.mem_singleton]
    constructor
    · rintro (h | ⟨h1, h2⟩)
      · exact Or.inl h
      · exact Or.inr ⟨Or.inl h1, h2⟩
    · rintro (h | ⟨h1 | rfl, h2⟩)
      · exact Or.inl h
      · exact Or.inr ⟨h1, h2⟩
      · exact absurd h2 hnpart
  have hKi : akey st0.evs (2 * i) = si.cc + 1 / 4 := key_Hsus hG hI0 hs hH hp0
  have hne : ∀ k sk, S[k]? = some sk → sk.ori = .V → 2 * i ≠ 2 * k ∧ 2 * i ≠ 2 * k + 1 := by
    intro k sk hsk hV; have := H_not_V hs hH hsk hV; omega
  obtain ⟨ev, hev, hpe⟩ := pe_sustain hJ.inv hs hH (Or.inl hp0)
  rw [hpe]
  cases hov : st.openV with
  | none =>
    simp only
    obtain ⟨o1, o2⟩ := hJ.ov_transfer (st' := st) (2 * i) hne rfl
    refine ⟨hJ.inv.congr hcongr, o1, o2, ?_⟩
    intro p
    rw [hJ.cr]
    constructor
    · rintro (h | ⟨i', k', si', sk', a, b, c, d, f, g, h, rest⟩)
      · exact Or.inl h
      · exact Or.inr ⟨i', k', si', sk', a, b, c, d, f, List.mem_append_left _ g, h, rest⟩
    · rintro (h | ⟨i', k', si', sk', a, b, c, d, f, g, h, l1, l2, rest⟩)
      · exact Or.inl h
      · rcases List.mem_append.1 g with g | g
        · exact Or.inr ⟨i', k', si', sk', a, b, c, d, f, g, h, l1, l2, rest⟩
        · exfalso
          simp at g
          have : i' = i := by omega
          subst this; rw [hs] at a; cases a
          obtain ⟨_, hc0, hc1, hk0, hk1, _, _⟩ := Vfacts hG hC hI0 b d f
          obtain ⟨ap1, ap2⟩ := apart_V_H hG hs b hH d
          unfold Apart at ap1 ap2
          rcases (hsc.mem (2 * k')).2 (Or.inr hc0) with q | q | q
          · rcases (hsc.mem (2 * k' + 1)).2 (Or.inr hc1) with r | r | r
            · have := hsc.k1 _ r; rw [hk1, hKi] at this; grind
            · exact (hne k' sk' b d).2 r.symm
            · have := hJ.ov1 k' sk' b d f q (fun hr => hsc.disj _ hr r)
              rw [hov] at this; cases this
          · exact (hne k' sk' b d).1 q.symm
          · have := hsc.k2 _ q; rw [hKi, hk0] at this; grind
  | some j =>
    obtain ⟨k, sk, hsk, hVk, hXk, rfl, hk_pre, hk1_npre⟩ := hJ.ov2 j hov
    obtain ⟨_, hc0, hc1, hk0, hk1, _, _⟩ := Vfacts hG hC hI0 hsk hVk hXk
    obtain ⟨ap1, ap2⟩ := apart_V_H hG hs hsk hH hVk
    have hpost : 2 * k + 1 ∈ post := by
      rcases (hsc.mem (2 * k + 1)).2 (Or.inr hc1) with r | r | r
      · exact absurd r hk1_npre
      · exact absurd r.symm (hne k sk hsk hVk).2
      · exact r
    have hlo : sk.lo < si.cc := by
      have := hsc.k1 _ hk_pre; rw [hk0, hKi] at this; unfold Apart at ap1; grind
    have hhi : si.cc < sk.hi := by
      have := hsc.k2 _ hpost; rw [hKi, hk1] at this; unfold Apart at ap2; grind
    obtain ⟨ov, _, hovv, _⟩ := hJ.inv.ev k sk hsk
    simp only [hovv]
    obtain ⟨hInv, hcross, hopenV, _⟩ := inv_cross hG hJ.inv hs hH hsk hVk (Or.inr ⟨hk_pre, hc0⟩) hev hovv
      (by intro h; rw [h] at hhi; exact Rat.lt_irrefl hhi)
    obtain ⟨o1, o2⟩ := hJ.ov_transfer (st' := crossAt st (2 * i) (2 * k) ev ov) (2 * i) hne hopenV
    refine ⟨hInv.congr hcongr, o1, o2, ?_⟩
    intro p
    rw [hcross, List.map_cons, List.mem_cons, hJ.cr]
    simp only
    constructor
    · rintro (h | h | ⟨i', k', si', sk', a, b, c, d, f, g, h, rest⟩)
      · exact Or.inr ⟨i, k, si, sk, hs, hsk, hH, hVk, hXk, by simp, hoh, hlo, hhi, by rw [h, hXk]⟩
      · exact Or.inl h
      · exact Or.inr ⟨i', k', si', sk', a, b, c, d, f, List.mem_append_left _ g, h, rest⟩
    · rintro (h | ⟨i', k', si', sk', a, b, c, d, f, g, h, l1, l2, rest⟩)
      · exact Or.inr (Or.inl h)
      · rcases List.mem_append.1 g with g | g
        · exact Or.inr (Or.inr ⟨i', k', si', sk', a, b, c, d, f, g, h, l1, l2, rest⟩)
        · simp at g
          have : i' = i := by omega
          subst this; rw [hs] at a; cases a
          exact Or.inl (by rw [rest, hXk])

end steps


section part
variable {P0 : Nat → Prop} {X : Rat} {part : List Nat} {st0 : SwState}

/-- every active event of the part is in range and its current y is an end y-coordinate of some segment -/
theorem snap_y (hG : Good S) (hC : PartCtx S P0 X part) (hI0 : Inv S P0 st0) {a : Nat}
    (ha : a ∈ st0.openH ∨ a ∈ part) :
    ∃ ea s, st0.evs[a]? = some ea ∧ s ∈ S ∧ (ea.endpt.p.y = s.on.p.y ∨ ea.endpt.p.y = s.cn.p.y) := by
  have hlt : a < 2 * S.length := by
    rcases ha with h | h
    · obtain ⟨i, s, hs, rfl, _⟩ := (hI0.oh _).1 h
      obtain ⟨hi, _⟩ := List.getElem?_eq_some_iff.1 hs; omega
    · exact hC.hlt a h
  have hj : a / 2 < S.length := by omega
  have hs : S[a / 2]? = some S[a / 2] := List.getElem?_eq_getElem hj
  obtain ⟨eo, ec, h0, h1, _, _, _, _, h6, _, _, h9, h10⟩ := hI0.ev (a / 2) _ hs
  have hm : S[a / 2] ∈ S := List.getElem_mem hj
  rcases Nat.mod_two_eq_zero_or_one a with hpar | hpar
  · have ha2 : 2 * (a / 2) = a := by omega
    rw [ha2] at h0
    refine ⟨eo, S[a / 2], h0, hm, Or.inl ?_⟩
    rcases hG.shape _ hm with sh | sv
    · rw [(h9 sh.1).1, sh.2.1]
    · have hnp : ¬ P0 (2 * (a / 2)) := by
        rw [ha2]
        rcases ha with h | h
        · obtain ⟨i, s, hs', he, hH, _⟩ := (hI0.oh _).1 h
          have : i = a / 2 := by omega
          subst this; rw [hs] at hs'; cases hs'; rw [sv.1] at hH; cases hH
        · intro hp
          have h1' := (hC.hpart (a / 2) _ hs).1.1 (by rw [ha2]; exact h)
          have h2' := (hC.hP0 (a / 2) _ hs).1.1 (by rw [ha2]; exact hp)
          rw [h1'] at h2'; exact Rat.lt_irrefl h2'
      rw [(h10 sv.1).2 hnp, sv.2.2.2.1]
  · have ha2 : 2 * (a / 2) + 1 = a := by omega
    rw [ha2] at h1
    exact ⟨ec, S[a / 2], h1, hm, Or.inr (by rw [h6])⟩

theorem part_sweep (hG : Good S) (hC : PartCtx S P0 X part) (hnd : part.Nodup) (hI0 : Inv S P0 st0) :
    Inv S (fun x => P0 x ∨ x ∈ part) (sweepPart st0 part) ∧
    (∀ p, p ∈ (sweepPart st0 part).cross.map (·.p) ↔ p ∈ st0.cross.map (·.p) ∨
      ∃ (i k : Nat) (si sk : Seg), S[i]? = some si ∧ S[k]? = some sk ∧ si.ori = .H ∧ sk.ori = .V ∧ sk.cc = X ∧
        2 * i ∈ st0.openH ∧ sk.lo < si.cc ∧ si.cc < sk.hi ∧ p = ⟨X, si.cc⟩) := by
  unfold sweepPart
  simp only
  generalize hL : stdSort (cmpEv st0.evs) (st0.openH ++ part) = L
  have hperm : L.Perm (st0.openH ++ part) := hL ▸ stdSort_perm _ _
  have hmem : ∀ x, x ∈ L ↔ x ∈ st0.openH ∨ x ∈ part := fun x => by rw [hperm.mem_iff, List.mem_append]
  have hdisj : ∀ x, x ∈ st0.openH → x ∉ part := by
    intro x hx hp
    obtain ⟨i, s, hs, rfl, _, hp0, _⟩ := (hI0.oh _).1 hx
    have h1 := (hC.hpart i s hs).1.1 hp
    have h2 := (hC.hP0 i s hs).1.1 hp0
    rw [h1] at h2; exact Rat.lt_irrefl h2
  have hLnd : L.Nodup := by
    rw [hperm.nodup_iff, List.nodup_append]
    refine ⟨hI0.ohs.imp (fun h => Nat.ne_of_lt h), hnd, ?_⟩
    intro a ha b hb hab; subst hab; exact hdisj a ha hb
  have hsorted : L.Pairwise (fun a b => akey st0.evs a ≤ akey st0.evs b) := by
    rw [← hL]
    apply stdSort_sorted_key
    intro a ha b hb
    obtain ⟨ea, sa, hea, hsa, hya⟩ := snap_y hG hC hI0 (List.mem_append.1 ha)
    obtain ⟨eb, sb, heb, hsb, hyb⟩ := snap_y hG hC hI0 (List.mem_append.1 hb)
    refine cmpEv_key _ a b ea eb hea heb ?_
    rcases hya with h | h <;> rcases hyb with h' | h' <;> rw [h, h'] <;>
      exact hG.sepY sa hsa sb hsb _ (by simp) _ (by simp)
  -- the state before the first event
  have hI1 : Inv S P0 { st0 with openV := none } :=
    hI0.transfer rfl rfl (fun _ => Iff.rfl) hI0.oh hI0.ohs
  have hJ0 : J S P0 X part st0.openH (st0.cross.map (·.p)) [] { st0 with openV := none } := by
    refine ⟨hI1.congr (fun x => by simp), ?_, ?_, ?_⟩
    · intro k sk _ _ _ h; simp at h
    · intro j hj; simp at hj
    · intro p; simp
  -- induction along the sorted list
  have key : ∀ (post pre : List Nat) (st : SwState), pre ++ post = L →
      J S P0 X part st0.openH (st0.cross.map (·.p)) pre st →
      J S P0 X part st0.openH (st0.cross.map (·.p)) L (post.foldl processEvent st) := by
    intro post
    induction post with
    | nil => intro pre st h hJ; simp at h; subst h; simpa using hJ
    | cons e post ih =>
      intro pre st h hJ
      rw [List.foldl_cons]
      refine ih (pre ++ [e]) _ (by simp [h]) ?_
      -- position facts
      have hnd' := hLnd; rw [← h] at hnd'
      have hso := hsorted; rw [← h] at hso
      rw [List.nodup_append] at hnd'
      rw [List.pairwise_append] at hso
      have hnc := List.nodup_cons.1 hnd'.2.1
      have hsc : SC (akey st0.evs) pre post e st0.openH part := by
        refine ⟨?_, ?_, hnc.1, ?_, ?_, ?_, ?_⟩
        · intro x; rw [← hmem, ← h]; simp
        · intro hp; exact hnd'.2.2 e hp e (by simp) rfl
        · intro x hx hx'; exact hnd'.2.2 x hx x (by simp [hx']) rfl
        · intro a ha; exact hso.2.2 a ha e (by simp)
        · intro b hb; exact (List.pairwise_cons.1 hso.2.1).1 b hb
        · intro a ha b hb; exact hso.2.2 a ha b (by simp [hb])
      have heL : e ∈ st0.openH ∨ e ∈ part := (hmem e).1 (by rw [← h]; simp)
      rcases heL with he | he
      · obtain ⟨i, s, hs, rfl, hH, hp0, _⟩ := (hI0.oh _).1 he
        exact J_sus hG hC hI0 hsc hs hH he hp0 hJ
      · have hlt := hC.hlt e he
        have hj : e / 2 < S.length := by omega
        have hs : S[e / 2]? = some S[e / 2] := List.getElem?_eq_getElem hj
        rcases Nat.mod_two_eq_zero_or_one e with hpar | hpar
        · have he2 : e = 2 * (e / 2) := by omega
          rw [he2] at hsc he ⊢
          rcases hG.shape _ (List.getElem_mem hj) with sh | sv
          · exact J_openH hG hC hI0 hsc hs sh.1 he hJ
          · exact J_openV hG hC hI0 hsc hs sv.1 he hJ
        · have he2 : e = 2 * (e / 2) + 1 := by omega
          rw [he2] at hsc he ⊢
          rcases hG.shape _ (List.getElem_mem hj) with sh | sv
          · exact J_closeH hG hC hI0 hsc hs sh.1 he hJ
          · exact J_closeV hG hC hI0 hsc hs sv.1 he hJ
  have hJL := key L [] _ (by simp) hJ0
  refine ⟨hJL.inv.congr ?_, ?_⟩
  · intro x
    constructor
    · rintro (h | ⟨_, h⟩)
      · exact Or.inl h
      · exact Or.inr h
    · rintro (h | h)
      · exact Or.inl h
      · exact Or.inr ⟨(hmem x).2 (Or.inr h), h⟩
  · intro p
    rw [hJL.cr]
    constructor
    · rintro (h | ⟨i, k, si, sk, a, b, c, d, f, _, g, rest⟩)
      · exact Or.inl h
      · exact Or.inr ⟨i, k, si, sk, a, b, c, d, f, g, rest⟩
    · rintro (h | ⟨i, k, si, sk, a, b, c, d, f, g, rest⟩)
      · exact Or.inl h
      · exact Or.inr ⟨i, k, si, sk, a, b, c, d, f, (hmem _).2 (Or.inl g), g, rest⟩

end part

/-! ### the whole sweep -/

theorem init_inv (hG : Good S) (nid : Nat) :
    Inv S (fun _ => False) { segs := S, evs := mkEvents 0 S, nextId := nid } := by
  refine ⟨mkEvents_length S 0, ?_, ?_, by simp⟩
  · intro i s hs
    obtain ⟨g0, g1⟩ := mkEvents_get S 0 i s hs
    simp only [Nat.zero_add] at g0 g1
    refine ⟨_, _, g0, g1, ?_, rfl, rfl, rfl, rfl, ?_, ?_, ?_, ?_⟩
    · simp only [mkEv]
      rcases hG.shape s (List.mem_of_getElem? hs) with sh | sv
      · rw [sh.1]; simp [sh.2.1]
      · rw [sv.1]; simp [sv.2.1]
    · simp [mkEv, oriAt, hs]
    · simp [mkEv, oriAt, hs]
    · intro hH
      have sh := hG.segH hs hH
      exact ⟨by simp [mkEv, sh.2.1], by simp, by simp [mkEv]⟩
    · intro hV
      have sv := hG.segV hs hV
      exact ⟨by simp [mkEv], by simp [mkEv, sv.2.2.2.1]⟩
  · intro e; simp

theorem evX_even {i : Nat} {s : Seg} (hs : S[i]? = some s) : evX (mkEvents 0 S) (2 * i) = s.on.p.x := by
  have := (mkEvents_get S 0 i s hs).1
  unfold evX; rw [this]; simp [mkEv]

theorem evX_odd {i : Nat} {s : Seg} (hs : S[i]? = some s) : evX (mkEvents 0 S) (2 * i + 1) = s.cn.p.x := by
  have := (mkEvents_get S 0 i s hs).2
  unfold evX; rw [this]; simp [mkEv]

theorem tolX_lt_one : tolX < 1 := by decide +kernel
theorem tolX_nonneg : 0 ≤ tolX := by decide +kernel

/-- index bookkeeping: every event index below `2n` is `2i` or `2i+1` of a segment -/
theorem idx_cases {e : Nat} (he : e < 2 * S.length) :
    ∃ i s, S[i]? = some s ∧ (e = 2 * i ∨ e = 2 * i + 1) := by
  have hj : e / 2 < S.length := by omega
  exact ⟨e / 2, S[e / 2], List.getElem?_eq_getElem hj, by omega⟩

theorem evX_apart (hG : Good S) {a b : Nat} (ha : a < 2 * S.length) (hb : b < 2 * S.length) :
    Apart (evX (mkEvents 0 S) a) (evX (mkEvents 0 S) b) := by
  obtain ⟨i, s, hs, hi⟩ := idx_cases ha
  obtain ⟨j, t, ht, hj⟩ := idx_cases hb
  have hms := List.mem_of_getElem? hs
  have hmt := List.mem_of_getElem? ht
  rcases hi with rfl | rfl <;> rcases hj with rfl | rfl <;>
    simp only [evX_even hs, evX_odd hs, evX_even ht, evX_odd ht] <;>
    exact hG.sepX s hms t hmt _ (by simp) _ (by simp)

/-- the crossing points reported so far, after the x-parts `done` -/
def CrossSpec (S : List Seg) (doneFlat : List Nat) (p : Pt) : Prop :=
  ∃ (i k : Nat) (si sk : Seg), S[i]? = some si ∧ S[k]? = some sk ∧ si.ori = .H ∧ sk.ori = .V ∧
    2 * k ∈ doneFlat ∧ si.lo < sk.cc ∧ sk.cc ≤ si.hi ∧ sk.lo < si.cc ∧ si.cc < sk.hi ∧ p = ⟨sk.cc, si.cc⟩

theorem sweep_parts (hG : Good S) (ps : List (List Nat))
    (hflat : ∀ e, e ∈ ps.flatten ↔ e < 2 * S.length) (hflatnd : ps.flatten.Nodup)
    (hconst : ∀ q ∈ ps, q ≠ [] ∧ ∃ X, ∀ a ∈ q, evX (mkEvents 0 S) a = X)
    (hinc : ps.Pairwise (fun q r => ∀ a ∈ q, ∀ b ∈ r, evX (mkEvents 0 S) a < evX (mkEvents 0 S) b)) :
    ∀ (rest done : List (List Nat)) (st : SwState), done ++ rest = ps →
      Inv S (fun x => x ∈ done.flatten) st → (∀ p, p ∈ st.cross.map (·.p) ↔ CrossSpec S done.flatten p) →
      Inv S (fun x => x ∈ ps.flatten) (rest.foldl sweepPart st) ∧
      (∀ p, p ∈ (rest.foldl sweepPart st).cross.map (·.p) ↔ CrossSpec S ps.flatten p) := by
  intro rest
  induction rest with
  | nil => intro done st h hI hc; simp at h; subst h; exact ⟨hI, hc⟩
  | cons part rest ih =>
    intro done st h hI hc
    rw [List.foldl_cons]
    have hpm : part ∈ ps := by rw [← h]; simp
    obtain ⟨hne, X, hX⟩ := hconst part hpm
    obtain ⟨b0, hb0⟩ := List.exists_mem_of_ne_nil part hne
    have hinc' := hinc; rw [← h, List.pairwise_append] at hinc'
    have hpr := List.pairwise_cons.1 hinc'.2.1
    -- where an event lies relative to X
    have loc : ∀ e, e < 2 * S.length →
        (e ∈ done.flatten ↔ evX (mkEvents 0 S) e < X) ∧ (e ∈ part ↔ evX (mkEvents 0 S) e = X) := by
      intro e he
      have hin : e ∈ done.flatten ∨ e ∈ part ∨ e ∈ rest.flatten := by
        have := (hflat e).2 he; rw [← h] at this; simpa using this
      have hd : e ∈ done.flatten → evX (mkEvents 0 S) e < X := by
        intro hd; obtain ⟨q, hq, heq⟩ := List.mem_flatten.1 hd
        have := hinc'.2.2 q hq part (by simp) e heq b0 hb0; rw [hX b0 hb0] at this; exact this
      have hr : e ∈ rest.flatten → X < evX (mkEvents 0 S) e := by
        intro hd; obtain ⟨q, hq, heq⟩ := List.mem_flatten.1 hd
        have := hpr.1 q hq b0 hb0 e heq; rw [hX b0 hb0] at this; exact this
      have hp : e ∈ part → evX (mkEvents 0 S) e = X := hX e
      constructor
      · refine ⟨hd, fun hlt => ?_⟩
        rcases hin with h1 | h1 | h1
        · exact h1
        · have := hp h1; grind
        · have := hr h1; grind
      · refine ⟨hp, fun heq => ?_⟩
        rcases hin with h1 | h1 | h1
        · have := hd h1; grind
        · exact h1
        · have := hr h1; grind
    have hlen : ∀ i s, S[i]? = some s → 2 * i < 2 * S.length ∧ 2 * i + 1 < 2 * S.length := by
      intro i s hs; obtain ⟨hi, _⟩ := List.getElem?_eq_some_iff.1 hs; omega
    have hC : PartCtx S (fun x => x ∈ done.flatten) X part := by
      refine ⟨?_, ?_, ?_⟩
      · intro i s hs
        have l0 := (loc _ (hlen i s hs).1).1; have l1 := (loc _ (hlen i s hs).2).1
        rw [evX_even hs] at l0; rw [evX_odd hs] at l1; exact ⟨l0, l1⟩
      · intro i s hs
        have l0 := (loc _ (hlen i s hs).1).2; have l1 := (loc _ (hlen i s hs).2).2
        rw [evX_even hs] at l0; rw [evX_odd hs] at l1; exact ⟨l0, l1⟩
      · intro e he; exact (hflat e).1 (by rw [← h]; simp [he])
    have hnd : part.Nodup := hflatnd.sublist (List.sublist_flatten_of_mem hpm)
    obtain ⟨hI', hc'⟩ := part_sweep hG hC hnd hI
    refine ih (done ++ [part]) _ (by simp [h]) (hI'.congr (fun x => by simp)) ?_
    intro p
    rw [hc', hc]
    unfold CrossSpec
    constructor
    · rintro (⟨i, k, si, sk, a, b, c, d, f, rest⟩ | ⟨i, k, si, sk, a, b, c, d, f, g, l1, l2, rfl⟩)
      · exact ⟨i, k, si, sk, a, b, c, d, by simp [f], rest⟩
      · have sh := hG.segH a c
        have sv := hG.segV b d
        obtain ⟨j, t, ht, hj, _, hp1, hp2⟩ := (hI.oh _).1 g
        have : j = i := by omega
        subst this; rw [a] at ht; cases ht
        have q1 := (hC.hP0 j si a).1.1 hp1
        have q2 := fun hlt => hp2 ((hC.hP0 j si a).2.2 hlt)
        rw [sh.2.2.2.1] at q1; rw [sh.2.2.2.2.1] at q2
        refine ⟨j, k, si, sk, a, b, c, d, ?_, by rw [f]; exact q1, by rw [f]; exact Rat.not_lt.1 q2, l1, l2, by rw [f]⟩
        have := (hC.hpart k sk b).1.2 (by rw [sv.2.1, f])
        simp [this]
    · rintro ⟨i, k, si, sk, a, b, c, d, f, g1, g2, l1, l2, rfl⟩
      have sh := hG.segH a c
      have sv := hG.segV b d
      have f' : 2 * k ∈ done.flatten ∨ 2 * k ∈ part := by simpa using f
      rcases f' with f' | f'
      · exact Or.inl ⟨i, k, si, sk, a, b, c, d, f', g1, g2, l1, l2, rfl⟩
      · right
        have hXk : sk.cc = X := by rw [← sv.2.1]; exact (hC.hpart k sk b).1.1 f'
        refine ⟨i, k, si, sk, a, b, c, d, hXk, ?_, l1, l2, by rw [hXk]⟩
        refine (hI.oh _).2 ⟨i, si, a, rfl, c, ?_, ?_⟩
        · exact (hC.hP0 i si a).1.2 (by rw [sh.2.2.2.1, ← hXk]; exact g1)
        · intro hh; have := (hC.hP0 i si a).2.1 hh
          rw [sh.2.2.2.2.1, ← hXk] at this; grind

/-- **The sweep is sound and complete** on separated, overlap-free segment lists: the crossing nodes lie
exactly at the points (v.cc, h.cc) of a horizontal `h` and a vertical `v` with
`h.lo < v.cc ≤ h.hi` and `v.lo < h.cc < v.hi`. -/
theorem computeCrossings_spec (hG : Good S) (nid : Nat) (p : Pt) :
    p ∈ (computeCrossings S nid).cross.map (·.p) ↔
    ∃ (i k : Nat) (si sk : Seg), S[i]? = some si ∧ S[k]? = some sk ∧ si.ori = .H ∧ sk.ori = .V ∧
      si.lo < sk.cc ∧ sk.cc ≤ si.hi ∧ sk.lo < si.cc ∧ si.cc < sk.hi ∧ p = ⟨sk.cc, si.cc⟩ := by
  unfold computeCrossings xParts
  simp only
  have hlen := mkEvents_length S 0
  obtain ⟨hperm, hconst, hinc⟩ := partition_spec (evX (mkEvents 0 S)) tolX tolX_nonneg tolX_lt_one
    (List.range (mkEvents 0 S).length)
    (by intro a ha b hb
        rw [List.mem_range, hlen] at ha hb
        exact evX_apart hG ha hb)
  have hflat : ∀ e, e ∈ (partition (evX (mkEvents 0 S)) tolX (List.range (mkEvents 0 S).length)).flatten ↔
      e < 2 * S.length := by
    intro e; rw [hperm.mem_iff, List.mem_range, hlen]
  have hnd : (partition (evX (mkEvents 0 S)) tolX (List.range (mkEvents 0 S).length)).flatten.Nodup := by
    rw [hperm.nodup_iff]; exact List.nodup_range
  obtain ⟨_, hc⟩ := sweep_parts hG _ hflat hnd hconst hinc
    (partition (evX (mkEvents 0 S)) tolX (List.range (mkEvents 0 S).length)) []
    { segs := S, evs := mkEvents 0 S, nextId := nid } (by simp)
    ((init_inv hG nid).congr (fun x => by simp)) (by intro p; simp [CrossSpec])
  rw [hc p]
  unfold CrossSpec
  constructor
  · rintro ⟨i, k, si, sk, a, b, c, d, _, rest⟩; exact ⟨i, k, si, sk, a, b, c, d, rest⟩
  · rintro ⟨i, k, si, sk, a, b, c, d, rest⟩
    refine ⟨i, k, si, sk, a, b, c, d, ?_, rest⟩
    rw [hflat]; obtain ⟨hk, _⟩ := List.getElem?_eq_some_iff.1 b; omega


end AdaptaVerif.Lemmas.Planarise
