/-
Soundness of the A* model (`Model/AStar.lean`, part 1): when `search` returns `.found b done`, the
node `b` is at the target vertex, it is the last DONE entry, and its `prevNode` chain (`pathOf`) is a
path of the problem's state graph from the start node whose accumulated cost is `b.g`.
-/
import AdaptaVerif.Lemmas.AStarSpec
namespace AdaptaVerif.Lemmas.AStarSound
open AdaptaVerif.Model.AStar AdaptaVerif.Lemmas.AStarSpec

/-! ### generic facts about `extractBest`, `updPending`, `relax` (shared with `AStarOpt`) -/

theorem extractBest_mem (eps : Rat) : ∀ (l : List Node) (b : Node) (rest : List Node),
    extractBest eps l = some (b, rest) → ∀ n, n ∈ l ↔ n = b ∨ n ∈ rest := by
  intro l
  induction l with
  | nil => intro b rest h; simp [extractBest] at h
  | cons x xs ih =>
    intro b rest h n
    unfold extractBest at h
    cases hx : extractBest eps xs with
    | none =>
      rw [hx] at h
      simp only [Option.some.injEq, Prod.mk.injEq] at h
      obtain ⟨rfl, rfl⟩ := h
      cases xs with
      | nil => simp
      | cons y ys =>
        exfalso
        unfold extractBest at hx
        cases hy : extractBest eps ys with
        | none => rw [hy] at hx; simp at hx
        | some p =>
          obtain ⟨b', r'⟩ := p
          rw [hy] at hx
          simp only at hx
          split at hx <;> simp at hx
    | some p =>
      obtain ⟨b', r'⟩ := p
      rw [hx] at h
      simp only at h
      have ih' := ih b' r' hx n
      split at h
      · simp only [Option.some.injEq, Prod.mk.injEq] at h
        obtain ⟨rfl, rfl⟩ := h
        simp only [List.mem_cons, ih']
        grind
      · simp only [Option.some.injEq, Prod.mk.injEq] at h
        obtain ⟨rfl, rfl⟩ := h
        simp only [List.mem_cons]

theorem sameKey_iff (a b : Node) : sameKey a b = true ↔ a.v = b.v ∧ a.pv = b.pv := by
  simp [sameKey]

/-- every element of the result of `updPending` is an old element or `node` -/
theorem updPending_mem (node : Node) : ∀ (l p : List Node), updPending node l = some p →
    ∀ n ∈ p, n ∈ l ∨ n = node := by
  intro l
  induction l with
  | nil => intro p h; simp [updPending] at h
  | cons a rest ih =>
    intro p h n hn
    unfold updPending at h
    split at h
    · simp only [Option.some.injEq] at h
      subst h
      split at hn
      · simp only [List.mem_cons] at hn ⊢
        grind
      · simp only [List.mem_cons] at hn ⊢
        grind
    · cases hu : updPending node rest with
      | none => rw [hu] at h; simp at h
      | some q =>
        rw [hu] at h
        simp only [Option.map_some, Option.some.injEq] at h
        subst h
        simp only [List.mem_cons] at hn ⊢
        rcases hn with rfl | hn
        · exact Or.inl (Or.inl rfl)
        · rcases ih q hu n hn with h1 | h1
          · exact Or.inl (Or.inr h1)
          · exact Or.inr h1

theorem relax_done (best : Node) (bi : Nat) (st : St) (e : Option Succ) :
    (relax best bi st e).done = st.done := by
  unfold relax
  cases e with
  | none => rfl
  | some s =>
    simp only
    split
    · rfl
    · split <;> rfl

/-- every PENDING node after `relax` is an old one or the freshly built node -/
theorem relax_pending_mem (best : Node) (bi : Nat) (st : St) (e : Option Succ) :
    ∀ n ∈ (relax best bi st e).pending, n ∈ st.pending ∨
      ∃ s, e = some s ∧ n = { v := s.w, pv := some best.v, prev := some bi, g := best.g + s.c,
                              h := s.h, ts := st.time } := by
  intro n hn
  unfold relax at hn
  cases e with
  | none => exact Or.inl hn
  | some s =>
    simp only at hn
    split at hn
    · rename_i p hp
      rcases updPending_mem _ _ _ hp n hn with h1 | h1
      · exact Or.inl h1
      · exact Or.inr ⟨s, rfl, h1⟩
    · split at hn
      · exact Or.inl hn
      · simp only [List.mem_append, List.mem_singleton] at hn
        rcases hn with h1 | h1
        · exact Or.inl h1
        · exact Or.inr ⟨s, rfl, h1⟩

/-! ### the justification invariant -/

/-- node `n` is the start node, or it was built by `relax` from the DONE entry `done[j]` (`j < i`)
    along an examined edge -/
def Just (P : Problem) (done : List Node) (i : Nat) (n : Node) : Prop :=
  (n.prev = none ∧ n.v = P.src ∧ n.pv = none ∧ n.g = 0) ∨
  (∃ j p s, n.prev = some j ∧ j < i ∧ done[j]? = some p ∧ n.pv = some p.v ∧
      some s ∈ P.succs p.pv p.v ∧ s.w = n.v ∧ n.g = p.g + s.c)

theorem Just.mono {P : Problem} {done : List Node} {i : Nat} {n : Node} (h : Just P done i n)
    (ext : List Node) (i' : Nat) (hi : i ≤ i') : Just P (done ++ ext) i' n := by
  rcases h with h | ⟨j, p, s, h1, h2, h3, h4⟩
  · exact Or.inl h
  · refine Or.inr ⟨j, p, s, h1, by omega, ?_, h4⟩
    have hj : j < done.length := by
      rcases Nat.lt_or_ge j done.length with h | h
      · exact h
      · rw [List.getElem?_eq_none h] at h3; simp at h3
    rw [List.getElem?_append_left hj]; exact h3

structure S (P : Problem) (st : St) : Prop where
  dn : ∀ i n, st.done[i]? = some n → Just P st.done i n
  pd : ∀ n ∈ st.pending, Just P st.done st.done.length n

theorem S_init (P : Problem) : S P (init P) := by
  constructor
  · intro i n h; simp [init] at h
  · intro n hn
    simp only [init, List.mem_singleton] at hn
    subst hn
    exact Or.inl ⟨rfl, rfl, rfl, rfl⟩

theorem S_relax (P : Problem) (b : Node) (bi : Nat) (st : St) (e : Option Succ)
    (hbi : bi < st.done.length) (hb : st.done[bi]? = some b) (he : e ∈ P.succs b.pv b.v)
    (hS : S P st) : S P (relax b bi st e) := by
  constructor
  · rw [relax_done]; exact hS.dn
  · rw [relax_done]
    intro n hn
    rcases relax_pending_mem b bi st e n hn with h | ⟨s, rfl, rfl⟩
    · exact hS.pd n h
    · exact Or.inr ⟨bi, b, s, rfl, hbi, hb, rfl, he, rfl, rfl⟩

theorem S_foldl (P : Problem) (b : Node) (bi : Nat) : ∀ (todo : List (Option Succ)) (st : St),
    bi < st.done.length → st.done[bi]? = some b → (∀ e ∈ todo, e ∈ P.succs b.pv b.v) →
    S P st → S P (todo.foldl (relax b bi) st) := by
  intro todo
  induction todo with
  | nil => intro st _ _ _ h; exact h
  | cons e todo ih =>
    intro st hbi hb hsub hS
    simp only [List.foldl_cons]
    apply ih
    · rw [relax_done]; exact hbi
    · rw [relax_done]; exact hb
    · intro e' he'; exact hsub e' (List.mem_cons_of_mem _ he')
    · exact S_relax P b bi st e hbi hb (hsub e List.mem_cons_self) hS

/-- the `prevNode` chain of a justified node is a path of the state graph -/
theorem reach_of_just (P : Problem) (done : List Node)
    (hdn : ∀ i n, done[i]? = some n → Just P done i n) :
    ∀ (i : Nat) (n : Node), Just P done i n → ∀ k, i ≤ k →
      Reach P n.v n.pv n.g (pathOf done k n) := by
  intro i
  induction i using Nat.strongRecOn with
  | _ i ih =>
    intro n hn k hk
    rcases hn with ⟨h1, h2, h3, h4⟩ | ⟨j, p, s, h1, h2, h3, h4, h5, h6, h7⟩
    · have hp : pathOf done k n = [n.v] := by
        cases k with
        | zero => rfl
        | succ k => simp [pathOf, h1]
      rw [hp, h2, h3, h4]
      exact Reach.start
    · obtain ⟨k', rfl⟩ : ∃ k', k = k' + 1 := ⟨k - 1, by omega⟩
      have hp : pathOf done (k' + 1) n = n.v :: pathOf done k' p := by
        simp [pathOf, h1, h3]
      have := ih j h2 p (hdn j p h3) k' (by omega)
      have hr := Reach.step s this h5
      rw [hp, h4, h7, ← h6]
      exact hr

theorem search_sound_gen (P : Problem) : ∀ (fuel : Nat) (st : St) (b : Node) (done : List Node),
    S P st → search P fuel st = .found b done →
    b.v = P.tar ∧ done.getLast? = some b ∧ Reach P b.v b.pv b.g (pathOf done done.length b) := by
  intro fuel
  induction fuel with
  | zero => intro st b done _ h; simp [search] at h
  | succ fuel ih =>
    intro st b done hS h
    unfold search at h
    split at h
    · simp at h
    · rename_i b' rest hx
      have hmem := extractBest_mem _ _ _ _ hx
      simp only at h
      split at h
      · rename_i hbt
        simp only [Outcome.found.injEq] at h
        obtain ⟨rfl, rfl⟩ := h
        refine ⟨hbt, by simp, ?_⟩
        have hb'j : Just P st.done st.done.length b' := hS.pd b' ((hmem b').2 (Or.inl rfl))
        have hdn : ∀ i n, (st.done ++ [b'])[i]? = some n → Just P (st.done ++ [b']) i n := by
          intro i n hi
          rcases Nat.lt_or_ge i st.done.length with hlt | hge
          · rw [List.getElem?_append_left hlt] at hi
            exact (hS.dn i n hi).mono _ _ (Nat.le_refl _)
          · have hlen : i < (st.done ++ [b']).length := by
              rcases Nat.lt_or_ge i (st.done ++ [b']).length with h | h
              · exact h
              · rw [List.getElem?_eq_none h] at hi; simp at hi
            simp only [List.length_append, List.length_singleton] at hlen
            have : i = st.done.length := by omega
            subst this
            simp only [List.getElem?_concat_length, Option.some.injEq] at hi
            subst hi
            exact hb'j.mono _ _ (Nat.le_refl _)
        exact reach_of_just P _ hdn st.done.length b' (hb'j.mono _ _ (Nat.le_refl _)) _
          (by simp)
      · apply ih _ b done _ h
        apply S_foldl P b' st.done.length
        · simp
        · simp
        · intro e he; exact he
        · constructor
          · intro i n hi
            simp only at hi ⊢
            rcases Nat.lt_or_ge i st.done.length with hlt | hge
            · rw [List.getElem?_append_left hlt] at hi
              exact (hS.dn i n hi).mono _ _ (Nat.le_refl _)
            · have hlen : i < (st.done ++ [b']).length := by
                rcases Nat.lt_or_ge i (st.done ++ [b']).length with h | h
                · exact h
                · rw [List.getElem?_eq_none h] at hi; simp at hi
              simp only [List.length_append, List.length_singleton] at hlen
              have : i = st.done.length := by omega
              subst this
              simp only [List.getElem?_concat_length, Option.some.injEq] at hi
              subst hi
              exact (hS.pd b' ((hmem b').2 (Or.inl rfl))).mono _ _ (Nat.le_refl _)
          · intro n hn
            simp only at hn ⊢
            exact (hS.pd n ((hmem n).2 (Or.inr hn))).mono _ _ (by simp)

theorem search_sound (P : Problem) (fuel : Nat) (b : Node) (done : List Node)
    (h : search P fuel (init P) = .found b done) :
    b.v = P.tar ∧ done.getLast? = some b ∧ Reach P b.v b.pv b.g (pathOf done done.length b) :=
  search_sound_gen P fuel (init P) b done (S_init P) h

end AdaptaVerif.Lemmas.AStarSound

namespace AdaptaVerif.Lemmas.AStarSound
open AdaptaVerif.Model.AStar

/-- `searchSt` (the variant that also returns the final PENDING list and time-stamp counter, used for the
    correspondence with the optional hook) is the same loop as `search` -/
theorem searchSt_eq_search (P : Problem) : ∀ (fuel : Nat) (st : St),
    search P fuel st =
      match searchSt P fuel st with
      | some (b, st') => .found b st'.done
      | none => search P fuel st := by
  intro fuel
  induction fuel with
  | zero => intro st; simp [searchSt]
  | succ n ih =>
    intro st
    unfold searchSt search
    split
    · rfl
    · rename_i b rest hx
      simp only
      split
      · rfl
      · exact ih _

theorem searchSt_found (P : Problem) (fuel : Nat) (st : St) (b : Node) (st' : St)
    (h : searchSt P fuel st = some (b, st')) : search P fuel st = .found b st'.done := by
  have := searchSt_eq_search P fuel st
  rw [h] at this
  exact this

end AdaptaVerif.Lemmas.AStarSound
