/-
Enclosure property of Num/Sqrt.lean:  for x ≥ 0,  0 ≤ lo,  lo² ≤ x ≤ hi²,  0 < hi,  lo ≤ hi.
-/
import AdaptaVerif.Num.Sqrt
import Mathlib.Tactic.Linarith
import Mathlib.Tactic.Ring
import Mathlib.Tactic.Positivity
import Mathlib.Tactic.FieldSimp
import Mathlib.Algebra.Order.Field.Basic
import Mathlib.Data.Rat.Cast.Order
namespace AdaptaVerif.Lemmas.Sqrt
open AdaptaVerif.Num

theorem pow2_pos (k : Nat) : (0 : Rat) < ((2 ^ k : Nat) : Rat) := by
  have : 0 < 2 ^ k := Nat.pow_pos (by decide)
  exact_mod_cast this

theorem sqrtLo_nonneg (x : Rat) (k : Nat) : 0 ≤ sqrtLo x k := by
  unfold sqrtLo sqrtParts
  simp only []
  split
  · exact div_nonneg (Nat.cast_nonneg _) (le_of_lt (pow2_pos k))
  · exact le_refl _

theorem sqrtLo_sq_le (x : Rat) (hx : 0 ≤ x) (k : Nat) : sqrtLo x k * sqrtLo x k ≤ x := by
  unfold sqrtLo sqrtParts
  simp only []
  split
  · rename_i h
    obtain ⟨h1, h2⟩ := h
    have hs := pow2_pos k
    have hss : (0 : Rat) < ((2 ^ k : Nat) : Rat) * ((2 ^ k : Nat) : Rat) := mul_pos hs hs
    rw [div_mul_div_comm, div_le_iff₀ hss]
    have h2' : ((Nat.sqrt (x * ((2 ^ k * 2 ^ k : Nat) : Rat)).floor.toNat : Nat) : Rat) *
        ((Nat.sqrt (x * ((2 ^ k * 2 ^ k : Nat) : Rat)).floor.toNat : Nat) : Rat) ≤
        (((x * ((2 ^ k * 2 ^ k : Nat) : Rat)).floor.toNat : Nat) : Rat) := by
      exact_mod_cast h2
    calc _ ≤ (((x * ((2 ^ k * 2 ^ k : Nat) : Rat)).floor.toNat : Nat) : Rat) := h2'
      _ ≤ x * ((2 ^ k * 2 ^ k : Nat) : Rat) := h1
      _ = x * (((2 ^ k : Nat) : Rat) * ((2 ^ k : Nat) : Rat)) := by push_cast; ring
  · simpa using hx

theorem sqrtHi_pos (x : Rat) (hx : 0 ≤ x) (k : Nat) : 0 < sqrtHi x k := by
  unfold sqrtHi sqrtParts
  simp only []
  split
  · apply div_pos _ (pow2_pos k)
    exact_mod_cast Nat.succ_pos _
  · linarith

theorem le_sqrtHi_sq (x : Rat) (k : Nat) : x ≤ sqrtHi x k * sqrtHi x k := by
  unfold sqrtHi sqrtParts
  simp only []
  split
  · rename_i h
    obtain ⟨h1, h2⟩ := h
    have hs := pow2_pos k
    have hss : (0 : Rat) < ((2 ^ k : Nat) : Rat) * ((2 ^ k : Nat) : Rat) := mul_pos hs hs
    rw [div_mul_div_comm, le_div_iff₀ hss]
    have h2' : (((x * ((2 ^ k * 2 ^ k : Nat) : Rat)).floor.toNat + 1 : Nat) : Rat) ≤
        ((Nat.sqrt (x * ((2 ^ k * 2 ^ k : Nat) : Rat)).floor.toNat + 1 : Nat) : Rat) *
        ((Nat.sqrt (x * ((2 ^ k * 2 ^ k : Nat) : Rat)).floor.toNat + 1 : Nat) : Rat) := by
      exact_mod_cast Nat.succ_le_of_lt h2
    calc x * (((2 ^ k : Nat) : Rat) * ((2 ^ k : Nat) : Rat)) = x * ((2 ^ k * 2 ^ k : Nat) : Rat) := by push_cast; ring
      _ ≤ (((x * ((2 ^ k * 2 ^ k : Nat) : Rat)).floor.toNat + 1 : Nat) : Rat) := le_of_lt h1
      _ ≤ _ := h2'
  · nlinarith [sq_nonneg (x + 1), sq_nonneg x]

/-- the enclosure: lo ≥ 0, lo² ≤ x ≤ hi², hi > 0 (so lo ≤ √x ≤ hi) -/
theorem sqrt_enclosure (x : Rat) (hx : 0 ≤ x) (k : Nat) :
    0 ≤ sqrtLo x k ∧ sqrtLo x k * sqrtLo x k ≤ x ∧ x ≤ sqrtHi x k * sqrtHi x k ∧ 0 < sqrtHi x k :=
  ⟨sqrtLo_nonneg x k, sqrtLo_sq_le x hx k, le_sqrtHi_sq x k, sqrtHi_pos x hx k⟩

theorem sqrtLo_le_sqrtHi (x : Rat) (hx : 0 ≤ x) (k : Nat) : sqrtLo x k ≤ sqrtHi x k := by
  obtain ⟨h0, h1, h2, h3⟩ := sqrt_enclosure x hx k
  by_contra h
  have h' : sqrtHi x k < sqrtLo x k := not_le.mp h
  have : sqrtHi x k * sqrtHi x k < sqrtLo x k * sqrtLo x k := by nlinarith
  linarith

/-- comparison principle: any d ≥ 0 with d² = x (the "true" square root, in any ordered field where it
    exists) lies in the enclosure.  Stated over ℚ-valued d for the rational case. -/
theorem sqrt_between (x d : Rat) (hd : 0 ≤ d) (hdx : d * d = x) (k : Nat) :
    sqrtLo x k ≤ d ∧ d ≤ sqrtHi x k := by
  have hx : 0 ≤ x := by rw [← hdx]; exact mul_nonneg hd hd
  obtain ⟨h0, h1, h2, h3⟩ := sqrt_enclosure x hx k
  constructor
  · by_contra h
    have h' : d < sqrtLo x k := not_le.mp h
    have : d * d < sqrtLo x k * sqrtLo x k := by nlinarith
    linarith
  · by_contra h
    have h' : sqrtHi x k < d := not_le.mp h
    have : sqrtHi x k * sqrtHi x k < d * d := by nlinarith
    linarith

/-- the same in any ordered field K ⊇ ℚ (K = ℝ: d = √x): a non-negative d with d² = x lies in the
    rational enclosure -/
theorem sqrt_between_field {K : Type} [Field K] [LinearOrder K] [IsStrictOrderedRing K]
    (x : Rat) (hx : 0 ≤ x) (d : K) (hd : 0 ≤ d) (hdx : d * d = (x : K)) (k : Nat) :
    ((sqrtLo x k : Rat) : K) ≤ d ∧ d ≤ ((sqrtHi x k : Rat) : K) := by
  obtain ⟨h0, h1, h2, h3⟩ := sqrt_enclosure x hx k
  have h0' : (0 : K) ≤ ((sqrtLo x k : Rat) : K) := by exact_mod_cast h0
  have h3' : (0 : K) < ((sqrtHi x k : Rat) : K) := by exact_mod_cast h3
  have h1' : ((sqrtLo x k : Rat) : K) * ((sqrtLo x k : Rat) : K) ≤ (x : K) := by exact_mod_cast h1
  have h2' : (x : K) ≤ ((sqrtHi x k : Rat) : K) * ((sqrtHi x k : Rat) : K) := by exact_mod_cast h2
  constructor
  · by_contra h
    have h' : d < ((sqrtLo x k : Rat) : K) := not_le.mp h
    have : d * d < ((sqrtLo x k : Rat) : K) * ((sqrtLo x k : Rat) : K) := by nlinarith
    linarith
  · by_contra h
    have h' : ((sqrtHi x k : Rat) : K) < d := not_le.mp h
    have : ((sqrtHi x k : Rat) : K) * ((sqrtHi x k : Rat) : K) < d * d := by nlinarith
    linarith

end AdaptaVerif.Lemmas.Sqrt
