/-
Shared definitions for the C19 peel proofs: the rank/parent structure of the stem list.
-/
import AdaptaVerif.Spec.UGraph
import AdaptaVerif.Model.Peel
namespace AdaptaVerif.Lemmas.PeelDefs
open AdaptaVerif.Spec.UGraph

/-- leaves of the stems, in order -/
def leafList (stems : List (Nat × Nat)) : List Nat := stems.map Prod.fst

/-- The stem list is *ranked*: every leaf occurs once, and the root of a stem is neither its own
    leaf nor the leaf of an earlier stem ("each removed leaf has exactly one neighbour, removed
    strictly later or never"). -/
def Ranked (stems : List (Nat × Nat)) : Prop :=
  (leafList stems).Nodup ∧
  ∀ A s B, stems = A ++ s :: B → s.2 ≠ s.1 ∧ s.2 ∉ leafList A

/-- parent of a removed leaf = root of its stem (identity on nodes that are never leaves) -/
def parentOf (stems : List (Nat × Nat)) (v : Nat) : Nat :=
  match stems.find? (fun s => s.1 == v) with
  | some s => s.2
  | none => v

/-- rank = position of the stem in which `v` is the leaf; `stems.length` if never a leaf -/
def rankOf (stems : List (Nat × Nat)) (v : Nat) : Int := ((leafList stems).idxOf v : Nat)

end AdaptaVerif.Lemmas.PeelDefs
