/-
`cost()`'s bend classification (`bendClass`: the model of `rad = M_PI - angleBetween(p1, p2, p3)` being 0, M_PI
or in between) on axis-parallel hops is the relation of the two headings: straight 0, quarter turn 1, doubling
back 2.  So the model's `cost` is hop length + segmentPenalty × (0 | 1 | 2) — the measure the property speaks of
and the certificates of C05 use.
-/
import AdaptaVerif.Lemmas.AStarEstimate
namespace AdaptaVerif.Lemmas.AStarCost
open AdaptaVerif.Model.AStar AdaptaVerif.Model.Bends AdaptaVerif.Spec.OrthPath AdaptaVerif.Lemmas.Bends
open AdaptaVerif.Lemmas.AStarEstimate
open AdaptaVerif.Model.Geometry (Pt)

theorem prod_sign (a b : Rat) :
    (0 < a → 0 < b → 0 < a * b) ∧ (a < 0 → b < 0 → 0 < a * b) ∧ (0 < a → b < 0 → a * b < 0) ∧ (a < 0 → 0 < b → a * b < 0) :=
  ⟨fun h1 h2 => mul_pos h1 h2, fun h1 h2 => mul_pos_of_neg_of_neg h1 h2,
   fun h1 h2 => mul_neg_of_pos_of_neg h1 h2, fun h1 h2 => mul_neg_of_neg_of_pos h1 h2⟩

set_option linter.unusedTactic false in
set_option linter.unreachableTactic false in
theorem bendClass_headings (p1 p2 p3 : Pt) (d1 d2 : Dir)
    (h1 : orthogonalDirection p1 p2 = d1.mask) (h2 : orthogonalDirection p2 p3 = d2.mask) :
    bendClass p1 p2 p3 = (if d2 = d1 then 0 else if d2 = d1.rev then 2 else 1) := by
  have a := od_single p1 p2 d1 h1
  have b := od_single p2 p3 d2 h2
  unfold bendClass crossLength dot
  cases d1 <;> cases d2 <;> simp only [] at a b <;> obtain ⟨a1, a2⟩ := a <;> obtain ⟨b1, b2⟩ := b <;>
    simp only [Dir.rev, reduceCtorEq, if_false, if_true] <;>
    (have hne1 : ¬ (p1.x = p2.x ∧ p1.y = p2.y) := by (intro h; obtain ⟨hx, hy⟩ := h; linarith)) <;>
    (have hne2 : ¬ (p2.x = p3.x ∧ p2.y = p3.y) := by (intro h; obtain ⟨hx, hy⟩ := h; linarith)) <;>
    rw [if_neg (by rintro (h | h); exact hne1 h; exact hne2 h)] <;>
    simp only [a1, b1, sub_self, mul_zero, zero_mul, sub_zero, zero_sub, add_zero, zero_add] <;>
    (have P := prod_sign (p1.x - p2.x) (p3.x - p2.x)) <;>
    (have Q := prod_sign (p1.y - p2.y) (p3.y - p2.y)) <;>
    split_ifs <;> first | rfl | skip
  all_goals (
    exfalso
    simp only [true_and, gt_iff_lt, not_lt] at *
    first
    | (have q := P.1 (by linarith) (by linarith); linarith)
    | (have q := P.2.1 (by linarith) (by linarith); linarith)
    | (have q := P.2.2.1 (by linarith) (by linarith); linarith)
    | (have q := P.2.2.2 (by linarith) (by linarith); linarith)
    | (have q := Q.1 (by linarith) (by linarith); linarith)
    | (have q := Q.2.1 (by linarith) (by linarith); linarith)
    | (have q := Q.2.2.1 (by linarith) (by linarith); linarith)
    | (have q := Q.2.2.2 (by linarith) (by linarith); linarith))

/-- the orthogonal `cost()` of a hop p2 → p3 (single heading `d2`) after a hop p1 → p2 (single heading `d1`),
    without reverseDirectionPenalty: length + penalty × (0 straight | 1 quarter turn | 2 doubling back);
    the first hop of a route (no previous vertex) costs its length -/
theorem cost_axis_parallel (g : Graph) (hpen : 0 < g.segPen) (hrev : g.revPen = 0) (dist : Rat)
    (p1 p2 p3 : Pt) (d1 d2 : Dir)
    (h1 : orthogonalDirection p1 p2 = d1.mask) (h2 : orthogonalDirection p2 p3 = d2.mask) :
    costPts g dist (some p1) p2 p3 =
      dist + (if d2 = d1 then 0 else if d2 = d1.rev then 2 * g.segPen else g.segPen) ∧
    costPts g dist none p2 p3 = dist := by
  have hb := bendClass_headings p1 p2 p3 d1 d2 h1 h2
  unfold costPts
  simp only [hrev, ne_eq, not_true_eq_false, if_false, hpen, if_true, hb]
  refine ⟨?_, trivial⟩
  by_cases e1 : d2 = d1
  · rw [if_pos e1, if_pos e1]; simp
  · rw [if_neg e1, if_neg e1]
    by_cases e2 : d2 = d1.rev
    · rw [if_pos e2, if_pos e2]; rfl
    · rw [if_neg e2, if_neg e2]; rfl


end AdaptaVerif.Lemmas.AStarCost
