/-
Concrete instance used by the non-vacuity examples of `Props/C02.lean`.
-/
import AdaptaVerif.Lemmas.QpCheck

namespace AdaptaVerif.Lemmas.Qp
open AdaptaVerif.Spec.Qp AdaptaVerif.Check.Kkt

/-! #### non-vacuity data: two variables, desired (1,0), constraint x0 ≤ x1; optimum (1/2,1/2), λ = 1 -/
def exP : Problem :=
  { n := 2, d := fun i => if i = 0 then 1 else 0, w := fun _ => 1, s := fun _ => 1,
    cons := [{ l := 0, r := 1, gap := 0, eq := false }] }
def exX : Nat → Rat := fun _ => 1 / 2

/-- the example certificate is accepted by the executable checker -/
theorem ex_check : checkKkt exP exX [1] = true := by decide +kernel

theorem ex_wf : WF exP := (checkKkt_kkt exP exX [1] ex_check).1
theorem ex_kkt : KKT exP exX [1] := (checkKkt_kkt exP exX [1] ex_check).2

/-- the swap of the two variables of the example -/
def exSwap : Nat → Nat := fun i => if i = 0 then 1 else if i = 1 then 0 else i
theorem exSwap_perm : IsPerm 2 exSwap exSwap := by
  constructor <;> intro i hi <;> (have : i = 0 ∨ i = 1 := by omega) <;> rcases this with rfl | rfl <;> simp [exSwap]


end AdaptaVerif.Lemmas.Qp
