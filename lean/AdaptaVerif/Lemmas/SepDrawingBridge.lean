/-
C18 / C14 — the C14 checker's own transcription of `SepPair::generateSeparationConstraint` (Check/Drawing.lean, `dimHolds`:
clause 7 "the returned separation constraints hold") against `genCon`, the per-dimension core of the model function that the
GENERATED `generateSeparationConstraint` is proved equal to (Props/C18Tie3): with zero tolerance they decide the same relation.
-/
import AdaptaVerif.Lemmas.SepGenBridge
import AdaptaVerif.Check.Drawing
import AdaptaVerif.Spec.Sep
namespace AdaptaVerif.Lemmas.SepDrawingBridge
open AdaptaVerif.Model.Sep AdaptaVerif.Num AdaptaVerif.Spec.Sep

/-- the separation / gap types of the C14 checker's own transcription (Check/Drawing.lean) -/
def dSt : SepType → AdaptaVerif.Check.Drawing.SepType
  | .none => .none | .eq => .eq | .ineq => .ineq
def dGt : GapType → AdaptaVerif.Check.Drawing.GapType
  | .centre => .centre | .bdry => .bdry

/-- one dimension of a SepPair as the C14 driver hands it to the checker: sign bit and value of the gap -/
def dDim (st : SepType) (gt : GapType) (g : SZ) : AdaptaVerif.Check.Drawing.SepDim := ⟨dSt st, dGt gt, g.signbit, g.toRat⟩

theorem toRat_neg (g : SZ) : (-g).toRat = - g.toRat := by
  cases g with
  | mk n m => cases n <;> simp [SZ.toRat, SZ.neg_def]

theorem dimHolds_iff_conHolds (extra : Rat) (st : SepType) (gt : GapType) (g : SZ) (ps pt ws wt : Rat) :
    AdaptaVerif.Check.Drawing.dimHolds 0 extra (dDim st gt g) ps pt ws wt = true ↔
      conHolds (genCon st gt g extra ws wt) ps pt := by
  unfold AdaptaVerif.Check.Drawing.dimHolds conHolds genCon dDim
  cases st <;> cases gt <;> cases hs : g.signbit <;>
    simp [dSt, dGt, toRat_neg] <;> grind

end AdaptaVerif.Lemmas.SepDrawingBridge
