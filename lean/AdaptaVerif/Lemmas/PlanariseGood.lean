/-
Soundness of the decidable form `Check.Planarise.goodB` of the hypothesis `Good` of the sweep theorems.
-/
import AdaptaVerif.Lemmas.PlanariseSweep
import AdaptaVerif.Lemmas.PlanariseOverlap
import AdaptaVerif.Check.Planarise
namespace AdaptaVerif.Lemmas.Planarise
open AdaptaVerif.Model.Planarise AdaptaVerif.Check.Planarise

theorem apartB_sound {a b : Rat} (h : apartB a b = true) : Apart a b := by
  unfold apartB at h; unfold Apart
  simp only [Bool.or_eq_true, beq_iff_eq, decide_eq_true_eq] at h
  rcases h with (h | h) | h
  · exact Or.inl h
  · exact Or.inr (Or.inl h)
  · exact Or.inr (Or.inr h)

theorem allApartB_sound {l : List Rat} (h : allApartB l = true) : ∀ a ∈ l, ∀ b ∈ l, Apart a b := by
  unfold allApartB at h
  simp only [List.all_eq_true] at h
  intro a ha b hb; exact apartB_sound (h a ha b hb)

theorem segShapeB_sound {s : Seg} (h : segShapeB s = true) : SegH s ∨ SegV s := by
  unfold segShapeB at h
  simp only [Bool.or_eq_true, Bool.and_eq_true, beq_iff_eq, decide_eq_true_eq] at h
  rcases h with ⟨⟨⟨⟨⟨a, b⟩, c⟩, d⟩, e⟩, f⟩ | ⟨⟨⟨⟨⟨a, b⟩, c⟩, d⟩, e⟩, f⟩
  · exact Or.inl ⟨a, b, c, d, e, f⟩
  · exact Or.inr ⟨a, b, c, d, e, f⟩

theorem noOverlapB_sound : ∀ {S : List Seg}, noOverlapB S = true →
    S.Pairwise (fun s t => s.ori = t.ori → s.cc = t.cc → s.hi ≤ t.lo ∨ t.hi ≤ s.lo)
  | [], _ => List.Pairwise.nil
  | s :: r, h => by
    unfold noOverlapB at h
    simp only [Bool.and_eq_true, List.all_eq_true, Bool.or_eq_true, Bool.not_eq_true', decide_eq_true_eq] at h
    rw [List.pairwise_cons]
    refine ⟨?_, noOverlapB_sound h.2⟩
    intro t ht ho hc
    rcases h.1 t ht with (h1 | h1) | h1
    · simp [ho, hc] at h1
    · exact Or.inl h1
    · exact Or.inr h1

theorem goodB_sound {S : List Seg} (h : goodB S = true) : Good S := by
  unfold goodB at h
  simp only [Bool.and_eq_true, List.all_eq_true] at h
  obtain ⟨⟨⟨h1, h2⟩, h3⟩, h4⟩ := h
  refine ⟨fun s hs => segShapeB_sound (h1 s hs), ?_, ?_, noOverlapB_sound h4⟩
  · intro s hs t ht a ha b hb
    exact allApartB_sound h2 a (List.mem_flatMap.2 ⟨s, hs, ha⟩) b (List.mem_flatMap.2 ⟨t, ht, hb⟩)
  · intro s hs t ht a ha b hb
    exact allApartB_sound h3 a (List.mem_flatMap.2 ⟨s, hs, ha⟩) b (List.mem_flatMap.2 ⟨t, ht, hb⟩)

theorem goodAB_sound {S : List Seg} (h : goodAB S = true) : GoodA S := by
  unfold goodAB at h
  simp only [Bool.and_eq_true, List.all_eq_true] at h
  obtain ⟨⟨⟨h1, h2⟩, h3⟩, h4⟩ := h
  refine ⟨fun s hs => segShapeB_sound (h1 s hs), ?_, ?_, ?_⟩
  · intro s hs t ht a ha b hb
    exact allApartB_sound h2 a (List.mem_flatMap.2 ⟨s, hs, ha⟩) b (List.mem_flatMap.2 ⟨t, ht, hb⟩)
  · intro s hs t ht a ha b hb
    exact allApartB_sound h3 a (List.mem_flatMap.2 ⟨s, hs, ha⟩) b (List.mem_flatMap.2 ⟨t, ht, hb⟩)
  · intro s hs t ht a ha b hb
    unfold identB at h4
    simp only [List.all_eq_true, Bool.and_eq_true, Bool.or_eq_true, Bool.not_eq_true', beq_eq_false_iff_ne,
      beq_iff_eq] at h4
    have := h4 a (List.mem_flatMap.2 ⟨s, hs, ha⟩) b (List.mem_flatMap.2 ⟨t, ht, hb⟩)
    refine ⟨fun hp => ?_, fun hi => ?_⟩
    · rcases this.1 with h | h
      · exact absurd hp h
      · exact h
    · rcases this.2 with h | h
      · exact absurd hi h
      · exact h

end AdaptaVerif.Lemmas.Planarise
