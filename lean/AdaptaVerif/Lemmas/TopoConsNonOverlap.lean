/-
The non-overlap constraints the plane scan of the `TopologyConstraints` constructor creates when a
node closes (`NodeClose::createNonOverlapConstraint`, closed form `nonOverlapClosed` of
Model/TopoCons): what every generated constraint is (1), what it means for the moved rectangles (2),
the scan-line chain lemma: the constraints between scan-line NEIGHBOURS transitively separate EVERY
pair of nodes that share a scan line (3), and that the move phase of `solve()` keeps them (4).
-/
import AdaptaVerif.Model.TopoCons
import AdaptaVerif.Lemmas.TopoConsGen
import AdaptaVerif.Lemmas.TopoConsScan
import Mathlib.Tactic.Linarith
import Mathlib.Tactic.NormNum
import Mathlib.Algebra.Order.Field.Rat
namespace AdaptaVerif.Lemmas.TopoConsNonOverlap
open AdaptaVerif.Model.TopoCons
open AdaptaVerif.Lemmas

/-! ### basic facts -/

/-- `o` is in `openNodes` when the NodeClose event of `c` is processed: it opened strictly below
    `c`'s close position and closes strictly above it, or at the same position but later -/
def OpenAtClose (d : Nat) (bC : Node → Node → Bool) (c o : Node) : Prop :=
  o.r.lo (conj d) < c.r.hi (conj d) ∧
  (c.r.hi (conj d) < o.r.hi (conj d) ∨ (o.r.hi (conj d) = c.r.hi (conj d) ∧ bC c o = true))

theorem OpenAtClose.hi_le {d : Nat} {bC : Node → Node → Bool} {c o : Node}
    (h : OpenAtClose d bC c o) : c.r.hi (conj d) ≤ o.r.hi (conj d) := by
  rcases h.2 with h | h
  · exact le_of_lt h
  · exact le_of_eq h.1.symm

theorem mem_openNodesAtClose_iff {d : Nat} {bC : Node → Node → Bool} {n m : Node}
    {nodes : List Node} :
    m ∈ openNodesAtClose d bC n nodes ↔ m ∈ nodes ∧ m.id ≠ n.id ∧ OpenAtClose d bC n m := by
  rw [TopoConsGen.mem_openNodesAtClose]; unfold OpenAtClose; tauto

theorem mem_nonOverlapAtClose {d : Nat} {bC : Node → Node → Bool} {nodes : List Node}
    {n : Node} {c : NOC} :
    c ∈ nonOverlapAtClose d bC nodes n ↔
      (∃ l, leftNb d n (openNodesAtClose d bC n nodes) = some l ∧ c = mkNOC d l n) ∨
      (∃ r, rightNb d n (openNodesAtClose d bC n nodes) = some r ∧ c = mkNOC d n r) := by
  unfold nonOverlapAtClose
  simp only [List.mem_append]
  cases leftNb d n (openNodesAtClose d bC n nodes) <;>
    cases rightNb d n (openNodesAtClose d bC n nodes) <;> simp

theorem mem_nonOverlapClosed {d : Nat} {bC : Node → Node → Bool} {nodes : List Node} {c : NOC} :
    c ∈ nonOverlapClosed d bC nodes ↔ ∃ n ∈ nodes, c ∈ nonOverlapAtClose d bC nodes n := by
  unfold nonOverlapClosed
  exact List.mem_flatMap

theorem noGapEps_pos : 0 < noGapEps := by unfold noGapEps; norm_num

/-! ### 1. what every generated constraint is -/

/-- every generated non-overlap constraint is `mkNOC d left right` for two different nodes of the
    scene, `left` with the smaller centre, its gap is half the two lengths plus `1e-7`, and one of
    the two was open when the other one closed -/
theorem nonOverlap_sound (d : Nat) (bC : Node → Node → Bool) (nodes : List Node) (c : NOC)
    (hc : c ∈ nonOverlapClosed d bC nodes) :
    c.left ∈ nodes ∧ c.right ∈ nodes ∧ c.left.id ≠ c.right.id ∧
    c.left.r.centre d < c.right.r.centre d ∧
    c.gap = (c.left.r.len d + c.right.r.len d) / 2 + noGapEps ∧
    (OpenAtClose d bC c.right c.left ∨ OpenAtClose d bC c.left c.right) := by
  obtain ⟨n, hn, hcn⟩ := mem_nonOverlapClosed.1 hc
  rcases mem_nonOverlapAtClose.1 hcn with ⟨l, hl, rfl⟩ | ⟨r, hr, rfl⟩
  · obtain ⟨hlo, hlt⟩ := TopoConsGen.leftNb_spec hl
    obtain ⟨hln, hid, hopen⟩ := mem_openNodesAtClose_iff.1 hlo
    exact ⟨hln, hn, hid, hlt, rfl, Or.inl hopen⟩
  · obtain ⟨hro, hlt⟩ := TopoConsGen.rightNb_spec hr
    obtain ⟨hrn, hid, hopen⟩ := mem_openNodesAtClose_iff.1 hro
    exact ⟨hn, hrn, Ne.symm hid, hlt, rfl, Or.inr hopen⟩

/-- ... and it is literally `mkNOC d left right` -/
theorem nonOverlap_sound_eq (d : Nat) (bC : Node → Node → Bool) (nodes : List Node) (c : NOC)
    (hc : c ∈ nonOverlapClosed d bC nodes) : c = mkNOC d c.left c.right := by
  obtain ⟨n, _, hcn⟩ := mem_nonOverlapClosed.1 hc
  rcases mem_nonOverlapAtClose.1 hcn with ⟨l, _, rfl⟩ | ⟨r, _, rfl⟩ <;> rfl

/-- when the nodes have positive height, the two nodes of a generated constraint share a scan
    line: their extents across the scan axis overlap strictly -/
theorem nonOverlap_sound_overlap (d : Nat) (bC : Node → Node → Bool) (nodes : List Node)
    (hpos : ∀ n ∈ nodes, n.r.lo (conj d) < n.r.hi (conj d)) (c : NOC)
    (hc : c ∈ nonOverlapClosed d bC nodes) :
    c.left.r.lo (conj d) < c.right.r.hi (conj d) ∧ c.right.r.lo (conj d) < c.left.r.hi (conj d) ∧
    max (c.left.r.lo (conj d)) (c.right.r.lo (conj d)) <
      min (c.left.r.hi (conj d)) (c.right.r.hi (conj d)) := by
  obtain ⟨hl, hr, _, _, _, hopen⟩ := nonOverlap_sound d bC nodes c hc
  have h1 := hpos _ hl
  have h2 := hpos _ hr
  have key : c.left.r.lo (conj d) < c.right.r.hi (conj d) ∧
      c.right.r.lo (conj d) < c.left.r.hi (conj d) := by
    rcases hopen with h | h
    · exact ⟨h.1, lt_of_lt_of_le h2 h.hi_le⟩
    · exact ⟨lt_of_lt_of_le h1 h.hi_le, h.1⟩
  exact ⟨key.1, key.2, max_lt (lt_min h1 key.1) (lt_min key.2 h2)⟩

/-! ### 2. what a constraint means -/

/-- in the scene moved to positions `x`, `a` is left of `b` in axis `d` with at least the `1e-7`
    of clearance between them -/
def Sep (d : Nat) (x : Pos) (a b : Node) : Prop :=
  (a.movedTo d x).r.hi d + noGapEps ≤ (b.movedTo d x).r.lo d

theorem sep_iff {d : Nat} {x : Pos} {a b : Node} :
    Sep d x a b ↔ x a.id + a.r.len d / 2 + noGapEps ≤ x b.id - b.r.len d / 2 := by
  unfold Sep Node.movedTo
  simp only [TopoConsGen.hi_moveCentre, TopoConsGen.lo_moveCentre]

/-- the constraint between `l` and `r` holds exactly when the moved rectangles are separated -/
theorem noc_holds_iff_sep (d : Nat) (l r : Node) (x : Pos) : (mkNOC d l r).holds x ↔ Sep d x l r := by
  rw [sep_iff]
  unfold NOC.holds mkNOC
  simp only []
  constructor <;> intro h <;> linarith

theorem noc_holds_separates (d : Nat) (l r : Node) (x : Pos) (h : (mkNOC d l r).holds x) :
    (l.movedTo d x).r.hi d + noGapEps ≤ (r.movedTo d x).r.lo d :=
  (noc_holds_iff_sep d l r x).1 h

/-- separation composes across a node of non-negative width -/
theorem sep_trans {d : Nat} {x : Pos} {a b c : Node} (hw : 0 ≤ b.r.len d)
    (h1 : Sep d x a b) (h2 : Sep d x b c) : Sep d x a c := by
  rw [sep_iff] at *
  have := noGapEps_pos
  linarith

/-! ### 3. the scan-line chain lemma -/

/-- `k`'s centre lies strictly between the centres of `m` and `n` -/
def between (d : Nat) (m n k : Node) : Bool :=
  decide (m.r.centre d < k.r.centre d) && decide (k.r.centre d < n.r.centre d)

theorem between_iff {d : Nat} {m n k : Node} :
    between d m n k = true ↔ m.r.centre d < k.r.centre d ∧ k.r.centre d < n.r.centre d := by
  simp [between]

theorem countP_lt_countP {α : Type} (p q : α → Bool) : ∀ (l : List α),
    (∀ x ∈ l, p x = true → q x = true) → (∃ a ∈ l, q a = true ∧ p a = false) →
    l.countP p < l.countP q
  | [], _, ⟨_, ha, _⟩ => by cases ha
  | a :: t, himp, ⟨b, hb, hqb, hpb⟩ => by
    have hle : t.countP p ≤ t.countP q :=
      List.countP_mono_left (fun x hx => himp x (List.mem_cons_of_mem _ hx))
    rw [List.countP_cons, List.countP_cons]
    rcases List.mem_cons.1 hb with rfl | hbt
    · simp only [hqb, hpb]
      simp
      omega
    · have ih := countP_lt_countP p q t (fun x hx => himp x (List.mem_cons_of_mem _ hx))
        ⟨b, hbt, hqb, hpb⟩
      by_cases hpa : p a = true
      · simp only [hpa, himp a List.mem_cons_self hpa]
        omega
      · have : p a = false := by simpa using hpa
        simp only [this]
        by_cases hqa : q a = true
        · simp only [hqa]; simp; omega
        · have : q a = false := by simpa using hqa
          simp only [this]; simp; omega

/-- the constraint with the left neighbour at `n`'s close is generated -/
theorem mkNOC_left_mem {d : Nat} {bC : Node → Node → Bool} {nodes : List Node} {n l : Node}
    (hn : n ∈ nodes) (hl : leftNb d n (openNodesAtClose d bC n nodes) = some l) :
    mkNOC d l n ∈ nonOverlapClosed d bC nodes :=
  mem_nonOverlapClosed.2 ⟨n, hn, mem_nonOverlapAtClose.2 (Or.inl ⟨l, hl, rfl⟩)⟩

theorem mkNOC_right_mem {d : Nat} {bC : Node → Node → Bool} {nodes : List Node} {n r : Node}
    (hn : n ∈ nodes) (hr : rightNb d n (openNodesAtClose d bC n nodes) = some r) :
    mkNOC d n r ∈ nonOverlapClosed d bC nodes :=
  mem_nonOverlapClosed.2 ⟨n, hn, mem_nonOverlapAtClose.2 (Or.inr ⟨r, hr, rfl⟩)⟩

/-- adjacent pair: the left neighbour of `n` at `n`'s close is separated from `n` -/
theorem nonOverlap_adjacent (d : Nat) (bC : Node → Node → Bool) (nodes : List Node) (x : Pos)
    (hx : ∀ c ∈ nonOverlapClosed d bC nodes, c.holds x) {n l : Node} (hn : n ∈ nodes)
    (hl : leftNb d n (openNodesAtClose d bC n nodes) = some l) : Sep d x l n :=
  (noc_holds_iff_sep d l n x).1 (hx _ (mkNOC_left_mem hn hl))

theorem nonOverlap_adjacent_right (d : Nat) (bC : Node → Node → Bool) (nodes : List Node) (x : Pos)
    (hx : ∀ c ∈ nonOverlapClosed d bC nodes, c.holds x) {n r : Node} (hn : n ∈ nodes)
    (hr : rightNb d n (openNodesAtClose d bC n nodes) = some r) : Sep d x n r :=
  (noc_holds_iff_sep d n r x).1 (hx _ (mkNOC_right_mem hn hr))

/-- the induction: on (a bound for) the number of nodes whose centre lies strictly between -/
theorem nonOverlap_complete_aux (d : Nat) (bC : Node → Node → Bool) (nodes : List Node)
    (hids : nodes.Pairwise (fun a b => a.id ≠ b.id))
    (hw : ∀ n ∈ nodes, 0 ≤ n.r.len d)
    (hkeys : ∀ m ∈ nodes, ∀ n ∈ nodes, m.id ≠ n.id → m.r.lo (conj d) < n.r.hi (conj d) →
      n.r.lo (conj d) < m.r.hi (conj d) → m.r.centre d ≠ n.r.centre d)
    (hbC : ∀ m ∈ nodes, ∀ n ∈ nodes, m.id ≠ n.id → m.r.hi (conj d) = n.r.hi (conj d) →
      bC m n = true ∨ bC n m = true)
    (x : Pos) (hx : ∀ c ∈ nonOverlapClosed d bC nodes, c.holds x) :
    ∀ (k : Nat) (m : Node), m ∈ nodes → ∀ (n : Node), n ∈ nodes →
      nodes.countP (between d m n) < k → m.id ≠ n.id →
      m.r.lo (conj d) < n.r.hi (conj d) → n.r.lo (conj d) < m.r.hi (conj d) →
      m.r.centre d < n.r.centre d → Sep d x m n := by
  intro k
  induction k with
  | zero => intro m _ n _ h; exact absurd h (Nat.not_lt_zero _)
  | succ k ih =>
    intro m hm n hn hcnt hid hmn hnm hc
    -- which of the two closes first
    have hfirst : OpenAtClose d bC n m ∨ OpenAtClose d bC m n := by
      rcases lt_trichotomy (n.r.hi (conj d)) (m.r.hi (conj d)) with h | h | h
      · exact Or.inl ⟨hmn, Or.inl h⟩
      · rcases hbC m hm n hn hid h.symm with hb | hb
        · exact Or.inr ⟨hnm, Or.inr ⟨h, hb⟩⟩
        · exact Or.inl ⟨hmn, Or.inr ⟨h.symm, hb⟩⟩
      · exact Or.inr ⟨hnm, Or.inl h⟩
    rcases hfirst with hopen | hopen
    · -- `n` closes first, `m` is open to its left
      have hmo : m ∈ openNodesAtClose d bC n nodes := mem_openNodesAtClose_iff.2 ⟨hm, hid, hopen⟩
      have hspec := TopoConsScan.leftNb_spec d n (openNodesAtClose d bC n nodes)
      cases hl : leftNb d n (openNodesAtClose d bC n nodes) with
      | none =>
        rw [hl] at hspec
        exact absurd hc (hspec m hmo)
      | some l =>
        rw [hl] at hspec
        obtain ⟨hlo, hlc, hmax⟩ := hspec
        obtain ⟨hln, _, hlopen⟩ := mem_openNodesAtClose_iff.1 hlo
        have hsep : Sep d x l n := nonOverlap_adjacent d bC nodes x hx hn hl
        by_cases hlm : l.id = m.id
        · have : l = m := TopoConsScan.eq_of_id_eq hids hln hm hlm
          rw [← this]; exact hsep
        · have hml1 : m.r.lo (conj d) < l.r.hi (conj d) := lt_of_lt_of_le hopen.1 hlopen.hi_le
          have hml2 : l.r.lo (conj d) < m.r.hi (conj d) := lt_of_lt_of_le hlopen.1 hopen.hi_le
          have hne := hkeys m hm l hln (Ne.symm hlm) hml1 hml2
          have hlt : m.r.centre d < l.r.centre d := lt_of_le_of_ne (hmax m hmo hc) hne
          have hcnt' : nodes.countP (between d m l) < nodes.countP (between d m n) := by
            apply countP_lt_countP
            · intro y _ hy
              rw [between_iff] at hy ⊢
              exact ⟨hy.1, lt_trans hy.2 hlc⟩
            · refine ⟨l, hln, between_iff.2 ⟨hlt, hlc⟩, ?_⟩
              rw [Bool.eq_false_iff]; intro hb
              exact lt_irrefl _ (between_iff.1 hb).2
          exact sep_trans (hw l hln)
            (ih m hm l hln (by omega) (Ne.symm hlm) hml1 hml2 hlt) hsep
    · -- `m` closes first, `n` is open to its right
      have hno : n ∈ openNodesAtClose d bC m nodes :=
        mem_openNodesAtClose_iff.2 ⟨hn, Ne.symm hid, hopen⟩
      have hspec := TopoConsScan.rightNb_spec d m (openNodesAtClose d bC m nodes)
      cases hr : rightNb d m (openNodesAtClose d bC m nodes) with
      | none =>
        rw [hr] at hspec
        exact absurd hc (hspec n hno)
      | some r =>
        rw [hr] at hspec
        obtain ⟨hro, hrc, hmin⟩ := hspec
        obtain ⟨hrn, _, hropen⟩ := mem_openNodesAtClose_iff.1 hro
        have hsep : Sep d x m r := nonOverlap_adjacent_right d bC nodes x hx hm hr
        by_cases hrn' : r.id = n.id
        · have : r = n := TopoConsScan.eq_of_id_eq hids hrn hn hrn'
          rw [← this]; exact hsep
        · have hrn1 : r.r.lo (conj d) < n.r.hi (conj d) := lt_of_lt_of_le hropen.1 hopen.hi_le
          have hrn2 : n.r.lo (conj d) < r.r.hi (conj d) := lt_of_lt_of_le hopen.1 hropen.hi_le
          have hne := hkeys r hrn n hn hrn' hrn1 hrn2
          have hlt : r.r.centre d < n.r.centre d := lt_of_le_of_ne (hmin n hno hc) hne
          have hcnt' : nodes.countP (between d r n) < nodes.countP (between d m n) := by
            apply countP_lt_countP
            · intro y _ hy
              rw [between_iff] at hy ⊢
              exact ⟨lt_trans hrc hy.1, hy.2⟩
            · refine ⟨r, hrn, between_iff.2 ⟨hrc, hlt⟩, ?_⟩
              rw [Bool.eq_false_iff]; intro hb
              exact lt_irrefl _ (between_iff.1 hb).1
          exact sep_trans (hw r hrn) hsep
            (ih r hrn n hn (by omega) hrn' hrn1 hrn2 hlt)

/-- **the scan-line chain lemma**: positions that satisfy the generated non-overlap constraints
    (only between scan-line neighbours at a close event) separate EVERY pair of nodes whose extents
    across the scan axis overlap strictly.

    Used: distinct ids (`hids`), non-negative width in the scan axis (`hw`), simultaneously open
    nodes have distinct centres (`hkeys`, the `COLA_ASSERT(r.second)` of the constructor), and of the
    tie order only totality among nodes that close at the same position (`hbC`).  Positive height
    is not needed: the strict overlap of the pair is a hypothesis, the overlap of the intermediate
    pairs follows from both being open at the same close event. -/
theorem nonOverlap_complete (d : Nat) (bC : Node → Node → Bool) (nodes : List Node)
    (hids : nodes.Pairwise (fun a b => a.id ≠ b.id))
    (hw : ∀ n ∈ nodes, 0 ≤ n.r.len d)
    (hkeys : ∀ m ∈ nodes, ∀ n ∈ nodes, m.id ≠ n.id → m.r.lo (conj d) < n.r.hi (conj d) →
      n.r.lo (conj d) < m.r.hi (conj d) → m.r.centre d ≠ n.r.centre d)
    (hbC : ∀ m ∈ nodes, ∀ n ∈ nodes, m.id ≠ n.id → m.r.hi (conj d) = n.r.hi (conj d) →
      bC m n = true ∨ bC n m = true)
    (x : Pos) (hx : ∀ c ∈ nonOverlapClosed d bC nodes, c.holds x)
    (m n : Node) (hm : m ∈ nodes) (hn : n ∈ nodes) (hid : m.id ≠ n.id)
    (hov : m.r.lo (conj d) < n.r.hi (conj d) ∧ n.r.lo (conj d) < m.r.hi (conj d))
    (hc : m.r.centre d < n.r.centre d) :
    (m.movedTo d x).r.hi d + noGapEps ≤ (n.movedTo d x).r.lo d :=
  nonOverlap_complete_aux d bC nodes hids hw hkeys hbC x hx _ m hm n hn (Nat.lt_succ_self _) hid
    hov.1 hov.2 hc

/-- the same with the tie order given as in the task: antisymmetric + total on equal close
    positions -/
theorem nonOverlap_complete' (d : Nat) (bC : Node → Node → Bool) (nodes : List Node)
    (hids : nodes.Pairwise (fun a b => a.id ≠ b.id))
    (hw : ∀ n ∈ nodes, 0 ≤ n.r.len d)
    (hkeys : ∀ m ∈ nodes, ∀ n ∈ nodes, m.id ≠ n.id → m.r.lo (conj d) < n.r.hi (conj d) →
      n.r.lo (conj d) < m.r.hi (conj d) → m.r.centre d ≠ n.r.centre d)
    (hbC : ∀ m ∈ nodes, ∀ n ∈ nodes, m.id ≠ n.id → m.r.hi (conj d) = n.r.hi (conj d) →
      (bC m n = true ↔ bC n m = false))
    (x : Pos) (hx : ∀ c ∈ nonOverlapClosed d bC nodes, c.holds x)
    (m n : Node) (hm : m ∈ nodes) (hn : n ∈ nodes) (hid : m.id ≠ n.id)
    (hov : m.r.lo (conj d) < n.r.hi (conj d) ∧ n.r.lo (conj d) < m.r.hi (conj d))
    (hc : m.r.centre d < n.r.centre d) :
    (m.movedTo d x).r.hi d + noGapEps ≤ (n.movedTo d x).r.lo d := by
  refine nonOverlap_complete d bC nodes hids hw hkeys ?_ x hx m n hm hn hid hov hc
  intro a ha b hb hab he
  have := hbC a ha b hb hab he
  cases h1 : bC a b
  · cases h2 : bC b a
    · rw [h1, h2] at this; simp at this
    · exact Or.inr rfl
  · exact Or.inl rfl

/-- consequence in either order: two nodes sharing a scan line (with different centres) do not
    overlap in the scan axis after the move -/
theorem nonOverlap_complete_disjoint (d : Nat) (bC : Node → Node → Bool) (nodes : List Node)
    (hids : nodes.Pairwise (fun a b => a.id ≠ b.id))
    (hw : ∀ n ∈ nodes, 0 ≤ n.r.len d)
    (hkeys : ∀ m ∈ nodes, ∀ n ∈ nodes, m.id ≠ n.id → m.r.lo (conj d) < n.r.hi (conj d) →
      n.r.lo (conj d) < m.r.hi (conj d) → m.r.centre d ≠ n.r.centre d)
    (hbC : ∀ m ∈ nodes, ∀ n ∈ nodes, m.id ≠ n.id → m.r.hi (conj d) = n.r.hi (conj d) →
      bC m n = true ∨ bC n m = true)
    (x : Pos) (hx : ∀ c ∈ nonOverlapClosed d bC nodes, c.holds x)
    (m n : Node) (hm : m ∈ nodes) (hn : n ∈ nodes) (hid : m.id ≠ n.id)
    (hov : m.r.lo (conj d) < n.r.hi (conj d) ∧ n.r.lo (conj d) < m.r.hi (conj d)) :
    (m.movedTo d x).r.hi d < (n.movedTo d x).r.lo d ∨
    (n.movedTo d x).r.hi d < (m.movedTo d x).r.lo d := by
  have hne := hkeys m hm n hn hid hov.1 hov.2
  have he := noGapEps_pos
  rcases lt_or_gt_of_ne hne with h | h
  · left
    have := nonOverlap_complete d bC nodes hids hw hkeys hbC x hx m n hm hn hid hov h
    linarith
  · right
    have := nonOverlap_complete d bC nodes hids hw hkeys hbC x hx n m hn hm (Ne.symm hid)
      ⟨hov.2, hov.1⟩ h
    linarith

/-! ### 4. the move phase of `solve()` keeps them -/

/-- a constraint that holds at `ini` and at `fin` holds everywhere on the line between
    (`posOnLine ini fin α`, `0 ≤ α ≤ 1`) -/
theorem noc_holds_on_line (c : NOC) (ini fin : Pos) (α : Rat) (hini : c.holds ini)
    (hfin : c.holds fin) (h0 : 0 ≤ α) (h1 : α ≤ 1) :
    c.holds (fun i => ini i + α * (fin i - ini i)) := by
  unfold NOC.holds at *
  simp only []
  have a := mul_le_mul_of_nonneg_left hini (sub_nonneg.2 h1)
  have b := mul_le_mul_of_nonneg_left hfin h0
  linarith

/-- all generated non-overlap constraints survive any move `α ∈ [0,1]` towards a VPSC solution
    `fin` that satisfies them -/
theorem solve_move_keeps_nonOverlap (d : Nat) (bC : Node → Node → Bool) (nodes : List Node)
    (ini fin : Pos) (α : Rat)
    (hini : ∀ c ∈ nonOverlapClosed d bC nodes, c.holds ini)
    (hfin : ∀ c ∈ nonOverlapClosed d bC nodes, c.holds fin) (h0 : 0 ≤ α) (h1 : α ≤ 1) :
    ∀ c ∈ nonOverlapClosed d bC nodes, c.holds (AdaptaVerif.Model.Tri.posOnLine ini fin α) :=
  fun c hc => noc_holds_on_line c ini fin α (hini c hc) (hfin c hc) h0 h1

/-! ### non-vacuity -/

/-- three nodes in a row, all crossing the scan lines `0 < y < 2` -/
def e0 : Node := ⟨0, ⟨0, 2, 0, 2⟩⟩
def e1 : Node := ⟨1, ⟨3, 5, 0, 3⟩⟩
def e2 : Node := ⟨2, ⟨6, 8, 0, 4⟩⟩
def idLt (a b : Node) : Bool := decide (a.id < b.id)
def ePos : Pos := fun i => if i = 0 then 1 else if i = 1 then 4 else 7

theorem e_nonOverlapClosed :
    nonOverlapClosed 0 idLt [e0, e1, e2] = [mkNOC 0 e0 e1, mkNOC 0 e1 e2] := by decide +kernel

/-- the only constraints are (e0,e1) and (e1,e2); the initial positions satisfy them, and the chain
    lemma separates the non-adjacent pair (e0,e2) for EVERY solution `x` -/
example : (∀ c ∈ nonOverlapClosed 0 idLt [e0, e1, e2], c.holds ePos) ∧
    ∀ x : Pos, (∀ c ∈ nonOverlapClosed 0 idLt [e0, e1, e2], c.holds x) →
      (e0.movedTo 0 x).r.hi 0 + noGapEps ≤ (e2.movedTo 0 x).r.lo 0 := by
  constructor
  · rw [e_nonOverlapClosed]
    intro c hc
    simp only [List.mem_cons, List.not_mem_nil, or_false] at hc
    rcases hc with rfl | rfl <;> (unfold NOC.holds; decide +kernel)
  · intro x hx
    exact nonOverlap_complete 0 idLt [e0, e1, e2] (by decide +kernel) (by decide +kernel)
      (by decide +kernel) (by decide +kernel) x hx e0 e2 (by simp) (by simp) (by decide)
      (by decide +kernel) (by decide +kernel)

end AdaptaVerif.Lemmas.TopoConsNonOverlap
