/-
"A drop in an inequality-only dimension is justified": when a trial of `makeFeasible` is rejected
although `satisfy()` returned (some constraint carries the `unsatisfiable` flag), and all constraints
kept so far in that dimension as well as the tried one are inequalities, then `valid[dim] + c` contains
a positive-gap cycle, i.e. no placement satisfies it (any non-zero scales).

Route: the live solver is reachable through the public API (`SolverOk.hist`, carried by `Good`), so the
block invariant holds when `satisfy` returns (`satisfy_final`), and `Inv.flags` turns a flag of an
inequality-only system into a positive cycle of the solver's constraints — which are `valid.push c`
(`Consist`).
-/
import AdaptaVerif.Lemmas.MakeFeasibleInv
import AdaptaVerif.Lemmas.Vpsc
import AdaptaVerif.Lemmas.VpscFlag
import AdaptaVerif.Lemmas.VpscFinal
namespace AdaptaVerif.Lemmas.MakeFeasibleDrop
open AdaptaVerif.Model.MakeFeasible AdaptaVerif.Model.Vpsc
open AdaptaVerif.Model.Compound (Dim)
open AdaptaVerif.Check.Vpsc AdaptaVerif.Spec.Vpsc
open AdaptaVerif.Lemmas.VpscMerge (SameData)
open AdaptaVerif.Lemmas.VpscFlag (toC)
open AdaptaVerif.Lemmas.VpscFinal (Hist hist_J)
open AdaptaVerif.Lemmas.VpscSolve (satisfy_final)
open AdaptaVerif.Lemmas.MakeFeasibleInv

/-- a positive-gap cycle makes the system infeasible (C01 `cycle_sum`, restated on the lemma level) -/
theorem posCycle_infeasible (scale : Nat → Rat) (hs : ∀ i, scale i ≠ 0) (cs : List C)
    (h : PosCycle cs) : ¬ Feasible scale cs := by
  obtain ⟨cyc, hsub, hc, hpos⟩ := h
  rw [AdaptaVerif.Lemmas.Vpsc.feasible_iff_edges scale hs]
  exact AdaptaVerif.Lemmas.Vpsc.pos_cycle_infeasible_edges _ cyc hsub hc hpos

theorem toC_sameData {a b : Con} (h : SameData a b) : toC a = toC b := by
  obtain ⟨h1, h2, h3, h4⟩ := h
  unfold toC
  rw [h1, h2, h3, h4]

/-- the solver's constraints, read as spec constraints, are the caller's vector -/
theorem consist_toC {vars : Array (Rat × Rat × Rat)} {V : Array Con} {st : St}
    (h : Consist vars V st) : st.cons.toList.map toC = V.toList.map toC := by
  apply List.ext_getElem
  · simp [h.size]
  · intro i h1 h2
    have hi : i < V.size := by simpa using h2
    have hi' : i < st.cons.size := by rw [h.size]; exact hi
    have := toC_sameData (h.data i hi)
    rw [getElem!_pos _ i hi', getElem!_pos V i hi] at this
    simpa using this

/-- a rejected trial whose `satisfy()` returned: the solve came back `.ok` with a flag somewhere -/
theorem tryCon_reject_cases (n : Nat) (ds : DimSt) (c : Con) (own : Nat × Nat)
    (hrej : (ds.tryCon n c own).accepted = false) (hret : (ds.tryCon n c own).returned = true) :
    ∃ st' pos ret, (ds.solverFor c).satisfy = (st', .ok pos ret) ∧
      ∃ j, j < st'.cons.size ∧ (st'.cons[j]!).unsat = true := by
  unfold DimSt.tryCon at hrej hret
  simp only at hrej hret
  generalize hsat : (ds.solverFor c).satisfy = r at hrej hret
  obtain ⟨st', o⟩ := r
  cases o with
  | ok pos ret =>
    simp only at hrej hret
    split at hrej
    · rename_i hfl
      rw [Array.any_eq_true] at hfl
      obtain ⟨j, hj, hu⟩ := hfl
      exact ⟨st', pos, ret, rfl, j, hj, by rw [getElem!_pos _ j hj]; exact hu⟩
    · simp at hrej
  | threw => simp at hret
  | outOfFuel => simp at hret

/-- **a drop in an inequality-only dimension is justified**: the trial of `c` on top of `valid` is
    rejected with `satisfy()` having returned ⇒ `valid + c` is infeasible (for any non-zero scales) and
    contains a positive-gap cycle -/
theorem tryCon_reject_posCycle (n : Nat) (ds : DimSt) (c : Con) (own : Nat × Nat) (h : Good n ds)
    (hc : c.l < ds.vars.size ∧ c.r < ds.vars.size ∧ c.unsat = false)
    (hineq : ∀ c' ∈ ds.valid, c'.eq = false) (hceq : c.eq = false)
    (hrej : (ds.tryCon n c own).accepted = false) (hret : (ds.tryCon n c own).returned = true) :
    PosCycle ((ds.valid.push c).toList.map toC) := by
  obtain ⟨st', pos, ret, hsat, j, hj, hun⟩ := tryCon_reject_cases n ds c own hrej hret
  have hcons : Consist ds.vars (ds.valid.push c) st' := by
    have := consist_satisfy (solverFor_consist ds c h.pre)
    rw [hsat] at this
    exact this
  have hF := satisfy_final _ st' pos ret (hist_J (solverFor_hist ds c h.pre hc)) hsat
  have hall : ∀ k : Nat, k < st'.cons.size → (st'.cons[k]!).eq = false := by
    intro k hk
    have hk' : k < (ds.valid.push c).size := by rw [← hcons.size]; exact hk
    rw [(hcons.data k hk').2.2.2, getElem!_pos _ k hk']
    rcases Array.mem_push.1 (Array.getElem_mem hk') with hm | he
    · exact hineq _ hm
    · rw [he]; exact hceq
  have hp := hF.inv.flags hall j hj hun
  rw [consist_toC hcons] at hp
  exact hp

theorem tryCon_reject_infeasible (n : Nat) (ds : DimSt) (c : Con) (own : Nat × Nat) (h : Good n ds)
    (hc : c.l < ds.vars.size ∧ c.r < ds.vars.size ∧ c.unsat = false)
    (hineq : ∀ c' ∈ ds.valid, c'.eq = false) (hceq : c.eq = false)
    (hrej : (ds.tryCon n c own).accepted = false) (hret : (ds.tryCon n c own).returned = true)
    (scale : Nat → Rat) (hscale : ∀ i, scale i ≠ 0) :
    ¬ Feasible scale ((ds.valid.push c).toList.map toC) :=
  posCycle_infeasible scale hscale _ (tryCon_reject_posCycle n ds c own h hc hineq hceq hrej hret)

/-- the same at the end of `makeFeasible` (hence, `items` being arbitrary, in every reachable state of
    the main loop between two work-list items): a further well-formed inequality alternative that is
    rejected with `satisfy()` having returned is infeasible together with `valid[dim]` -/
theorem makeFeasible_drop_justified (n : Nat) (vx vy : Array (Rat × Rat × Rat)) (items : List Item)
    (hwf : itemsWf vx.size vy.size items = true)
    (hclean : (makeFeasible n vx vy items).combineFlags = #[])
    (hesc : (makeFeasible n vx vy items).escaped = false)
    (hfuel : (makeFeasible n vx vy items).fuelOut = false)
    (a : Alt) (own : Nat × Nat) (ha : Alt.wf vx.size vy.size a = true) (hceq : a.con.eq = false)
    (hineq : ∀ c' ∈ ((makeFeasible n vx vy items).dim a.dim).valid, c'.eq = false)
    (hrej : (((makeFeasible n vx vy items).dim a.dim).tryCon n a.con own).accepted = false)
    (hret : (((makeFeasible n vx vy items).dim a.dim).tryCon n a.con own).returned = true)
    (scale : Nat → Rat) (hscale : ∀ i, scale i ≠ 0) :
    ¬ Feasible scale ((((makeFeasible n vx vy items).dim a.dim).valid.push a.con).toList.map toC) := by
  obtain ⟨gx, gy, ex, ey, _⟩ := makeFeasible_good n vx vy items hwf hclean hesc hfuel
  obtain ⟨d, c⟩ := a
  cases d with
  | x =>
    have hc := wf_x ha
    rw [← ex] at hc
    exact tryCon_reject_infeasible n _ c own gx hc hineq hceq hrej hret scale hscale
  | y =>
    have hc := wf_y ha
    rw [← ey] at hc
    exact tryCon_reject_infeasible n _ c own gy hc hineq hceq hrej hret scale hscale

end AdaptaVerif.Lemmas.MakeFeasibleDrop
