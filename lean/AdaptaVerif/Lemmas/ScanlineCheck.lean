/-
C09: soundness (and, where it holds, completeness) of the executable checkers in Check/Rects.lean.
-/
import AdaptaVerif.Lemmas.ScanlineRects
import AdaptaVerif.Check.Rects
import Mathlib.Tactic.Ring
namespace AdaptaVerif.Lemmas.Scanline
open AdaptaVerif.Model.Scanline AdaptaVerif.Spec.Rects AdaptaVerif.Check.Rects

/-! ### soundness of the executable checkers -/

theorem ovLen_pos_iff (a1 a2 b1 b2 : Rat) : 0 < ovLen a1 a2 b1 b2 ↔ IntervalsMeet a1 a2 b1 b2 := by
  unfold ovLen rmin rmax IntervalsMeet
  constructor
  · intro h
    split_ifs at h with h1 h2 h2
    · exact ⟨(b1 + a2) / 2, by linarith, by linarith, by linarith, by linarith⟩
    · exact ⟨(a1 + a2) / 2, by linarith, by linarith, by linarith, by linarith⟩
    · exact ⟨(b1 + b2) / 2, by linarith, by linarith, by linarith, by linarith⟩
    · exact ⟨(a1 + b2) / 2, by linarith, by linarith, by linarith, by linarith⟩
  · rintro ⟨x, h1, h2, h3, h4⟩
    split_ifs <;> linarith

theorem overlap_iff (u v : Rect) :
    Overlap u v ↔ IntervalsMeet u.minX u.maxX v.minX v.maxX ∧ IntervalsMeet u.minY u.maxY v.minY v.maxY := by
  constructor
  · rintro ⟨x, y, h1, h2, h3, h4, h5, h6, h7, h8⟩
    exact ⟨⟨x, h1, h2, h3, h4⟩, ⟨y, h5, h6, h7, h8⟩⟩
  · rintro ⟨⟨x, h1, h2, h3, h4⟩, ⟨y, h5, h6, h7, h8⟩⟩
    exact ⟨x, y, h1, h2, h3, h4, h5, h6, h7, h8⟩

theorem overlap_symm {u v : Rect} (h : Overlap u v) : Overlap v u := by
  obtain ⟨x, y, h1, h2, h3, h4, h5, h6, h7, h8⟩ := h
  exact ⟨x, y, h3, h4, h1, h2, h7, h8, h5, h6⟩

theorem overlapsBy_zero_iff (u v : Rect) : overlapsBy 0 u v = true ↔ Overlap u v := by
  simp only [overlapsBy, Bool.and_eq_true, decide_eq_true_eq, ovLen_pos_iff, overlap_iff]

theorem noOverlap_zero_iff (rs : Array Rect) :
    noOverlap rs 0 = true ↔
      ∀ i j, i < rs.size → j < rs.size → i ≠ j → ¬ Overlap (rectAt rs i) (rectAt rs j) := by
  simp only [noOverlap, List.all_eq_true, List.mem_range, Bool.not_eq_true', Bool.and_eq_false_iff,
    decide_eq_false_iff_not]
  constructor
  · intro h i j hi hj hij hov
    rcases Nat.lt_or_gt_of_ne hij with hlt | hgt
    · rcases h i hi j hj with h' | h'
      · exact h' hlt
      · rw [← overlapsBy_zero_iff] at hov; rw [hov] at h'; cases h'
    · rcases h j hj i hi with h' | h'
      · exact h' hgt
      · have := overlap_symm hov
        rw [← overlapsBy_zero_iff] at this; rw [this] at h'; cases h'
  · intro h i hi j hj
    by_cases hlt : i < j
    · right
      have := h i j hi hj (Nat.ne_of_lt hlt)
      rw [← overlapsBy_zero_iff] at this
      simpa using this
    · exact Or.inl hlt

theorem satisfiedBy_iff (y : Nat → Rat) (cs : List Con) : satisfiedBy y cs = true ↔ Sat y cs := by
  simp [satisfiedBy, Sat]

theorem acyclicBy_sound {pos : Nat → Nat} {cs : List Con} (h : acyclicBy pos cs = true) : Acyclic cs := by
  have hm : ∀ c ∈ cs, (fun a b => decide (pos a < pos b)) c.l c.r = true := by
    simpa [acyclicBy] using h
  refine acyclic_of_mono (lt := fun a b => decide (pos a < pos b)) (by simp) ?_ hm
  intro a b c h1 h2
  simp only [decide_eq_true_eq] at *
  omega

theorem sizesKept_zero_iff (old new : Array Rect) :
    sizesKept old new 0 = true ↔ old.size = new.size ∧ ∀ i, i < old.size →
      (rectAt new i).maxX - (rectAt new i).minX = (rectAt old i).maxX - (rectAt old i).minX ∧
      (rectAt new i).maxY - (rectAt new i).minY = (rectAt old i).maxY - (rectAt old i).minY := by
  simp only [sizesKept, Bool.and_eq_true, beq_iff_eq, List.all_eq_true, List.mem_range,
    decide_eq_true_eq, neg_zero]
  constructor
  · rintro ⟨hs, h⟩
    refine ⟨hs, fun i hi => ?_⟩
    obtain ⟨⟨⟨h1, h2⟩, h3⟩, h4⟩ := h i hi
    constructor <;> linarith
  · rintro ⟨hs, h⟩
    refine ⟨hs, fun i hi => ?_⟩
    obtain ⟨h1, h2⟩ := h i hi
    refine ⟨⟨⟨?_, ?_⟩, ?_⟩, ?_⟩ <;> linarith

/-! ### the reachability certificate -/

theorem succUnion_bit (masks : Array Nat) (u v : Nat) :
    ∀ (cs : List Con) (acc : Nat),
      (cs.foldl (fun acc c => if c.l = u then acc ||| (1 <<< c.r) ||| maskAt masks c.r else acc) acc).testBit v = true →
        acc.testBit v = true ∨ ∃ c ∈ cs, c.l = u ∧ (v = c.r ∨ (maskAt masks c.r).testBit v = true) := by
  intro cs
  induction cs with
  | nil => intro acc h; exact Or.inl h
  | cons c t ih =>
    intro acc h
    simp only [List.foldl_cons] at h
    rcases ih _ h with h' | ⟨c', hc', h'⟩
    · split at h'
      · rename_i hcl
        rw [Nat.testBit_or, Nat.testBit_or, Nat.one_shiftLeft, Nat.testBit_two_pow] at h'
        simp only [Bool.or_eq_true, decide_eq_true_eq] at h'
        rcases h' with (h' | h') | h'
        · exact Or.inl h'
        · exact Or.inr ⟨c, List.mem_cons_self, hcl, Or.inl h'.symm⟩
        · exact Or.inr ⟨c, List.mem_cons_self, hcl, Or.inr h'⟩
      · exact Or.inl h'
    · exact Or.inr ⟨c', List.mem_cons_of_mem _ hc', h'⟩

theorem reach_sound {masks : Array Nat} {cs : List Con} {pos : Nat → Nat} {n : Nat}
    (hacy : acyclicBy pos cs = true) (hbound : ∀ c ∈ cs, pos c.r < n)
    (hok : reachOK masks cs = true) :
    ∀ (k u v : Nat), n - pos u ≤ k → (maskAt masks u).testBit v = true → Chain cs u v := by
  have hup : ∀ c ∈ cs, pos c.l < pos c.r := by simpa [acyclicBy] using hacy
  intro k
  induction k with
  | zero =>
    intro u v hk hb
    -- n ≤ pos u: no constraint leaves u (its target would have pos ≥ n), so mask u must be 0
    by_cases hu : u < masks.size
    · have h1 := (List.all_eq_true.1 hok) u (List.mem_range.2 hu)
      have h2 : (succUnion masks cs u).testBit v = true := by
        have := congrArg (fun m => Nat.testBit m v) (beq_iff_eq.1 h1)
        simp only [Nat.testBit_or, hb, Bool.true_or] at this
        exact this.symm
      rcases succUnion_bit masks u v cs 0 h2 with h3 | ⟨c, hc, hcl, _⟩
      · simp at h3
      · have := hup c hc; have := hbound c hc; subst hcl; omega
    · simp [maskAt, Array.getD, hu] at hb
  | succ k ih =>
    intro u v hk hb
    by_cases hu : u < masks.size
    · have h1 := (List.all_eq_true.1 hok) u (List.mem_range.2 hu)
      have h2 : (succUnion masks cs u).testBit v = true := by
        have := congrArg (fun m => Nat.testBit m v) (beq_iff_eq.1 h1)
        simp only [Nat.testBit_or, hb, Bool.true_or] at this
        exact this.symm
      rcases succUnion_bit masks u v cs 0 h2 with h3 | ⟨c, hc, hcl, h4⟩
      · simp at h3
      · subst hcl
        rcases h4 with rfl | h4
        · exact Chain.single hc
        · have := hup c hc; have := hbound c hc
          exact Chain.cons hc (ih c.r v (by omega) h4)
    · simp [maskAt, Array.getD, hu] at hb

theorem scanMeet_iff (ax : Axis) (u v : Nat) : scanMeet ax u v = true ↔ ScanMeet ax u v := by
  simp [scanMeet, ScanMeet]

/-- The separation certificate is sound: if `sepCert` accepts, every placement satisfying the
    constraints keeps every pair whose sweep extents meet at least half their lengths apart. -/
theorem sepCert_sound {ax : Axis} {n : Nat} {cs : List Con} {pos : Nat → Nat} {masks : Array Nat}
    (h : sepCert ax n cs pos masks = true) {y : Nat → Rat} (hsat : Sat y cs)
    {u v : Nat} (hu : u < n) (hv : v < n) (huv : u ≠ v) (hmeet : ScanMeet ax u v) :
    y u + (ax.sz u + ax.sz v) / 2 ≤ y v ∨ y v + (ax.sz u + ax.sz v) / 2 ≤ y u := by
  simp only [sepCert, Bool.and_eq_true] at h
  obtain ⟨⟨⟨⟨⟨⟨⟨hacy, hgap⟩, hsz⟩, hrange⟩, hbound⟩, _⟩, hok⟩, hpairs⟩ := h
  have hsz' : ∀ i, i < n → 0 ≤ ax.sz i := by
    simpa [List.all_eq_true] using hsz
  have hrange' : ∀ c ∈ cs, c.l < n ∧ c.r < n := by
    simpa [List.all_eq_true] using hrange
  have hbound' : ∀ c ∈ cs, pos c.r < n := by simpa [List.all_eq_true] using hbound
  have hgap' : ∀ c ∈ cs, (ax.sz c.l + ax.sz c.r) / 2 ≤ c.gap := by simpa [gapsCover] using hgap
  have hszc : ∀ c ∈ cs, 0 ≤ ax.sz c.l ∧ 0 ≤ ax.sz c.r :=
    fun c hc => ⟨hsz' _ (hrange' c hc).1, hsz' _ (hrange' c hc).2⟩
  have reach := fun a b (hb : (maskAt masks a).testBit b = true) =>
    reach_sound hacy hbound' hok (n - pos a) a b (Nat.le_refl _) hb
  have sep := fun a b (hc : Chain cs a b) => chain_separates (sz := ax.sz) hszc hgap' hsat hc
  have hp : ∀ a b, a < n → b < n → a < b → ScanMeet ax a b →
      (maskAt masks a).testBit b = true ∨ (maskAt masks b).testBit a = true := by
    intro a b ha hb hab hm
    have := (List.all_eq_true.1 ((List.all_eq_true.1 hpairs) a (List.mem_range.2 ha))) b (List.mem_range.2 hb)
    simp only [Bool.or_eq_true, Bool.not_eq_true', Bool.and_eq_false_iff, decide_eq_false_iff_not] at this
    rcases this with (h' | h') | h'
    · rcases h' with h' | h'
      · exact absurd hab h'
      · rw [(scanMeet_iff ax a b).2 hm] at h'; cases h'
    · exact Or.inl h'
    · exact Or.inr h'
  rcases Nat.lt_or_gt_of_ne huv with hlt | hgt
  · rcases hp u v hu hv hlt hmeet with h' | h'
    · exact Or.inl (sep _ _ (reach _ _ h'))
    · right; have := sep _ _ (reach _ _ h'); linarith
  · rcases hp v u hv hu hgt ⟨hmeet.2, hmeet.1⟩ with h' | h'
    · right; have := sep _ _ (reach _ _ h'); linarith
    · exact Or.inl (sep _ _ (reach _ _ h'))

end AdaptaVerif.Lemmas.Scanline
