/-
C20 helper lemmas: the pin-cone rule of assignPinVisibilityTo (Model/PinCone.lean) is a function of target − pin
(translation invariance) and commutes with the 8 symmetries of the square.
-/
import AdaptaVerif.Lemmas.FrameCost
import AdaptaVerif.Model.PinCone
namespace AdaptaVerif.Lemmas.FramePin
open AdaptaVerif.Model.Geometry AdaptaVerif.Model.Frame AdaptaVerif.Model.PinCone

theorem cone0_neg (a b : Rat) : cone0 a (-b) = cone0 a b := by
  unfold cone0
  rw [neg_neg]
  cases decide (0 < a) <;> cases decide (b ≤ a) <;> cases decide (-b ≤ a) <;> rfl

/-- the zero-vector clause of the right cone is symmetric only for non-zero vectors: it is switched off by `hv` -/
theorem zero_clause (x y : Rat) (hv : ¬ (x = 0 ∧ y = 0)) : (decide (x = 0) && decide (y = 0)) = false := by
  cases hx : decide (x = 0) <;> cases hy : decide (y = 0) <;> simp_all

/-- on vectors: the image vector lies in a cone of the image directions iff the vector lies in a cone of the directions -/
theorem inCone_sym (S : Sym) (d : Dirs) (x y : Rat) (hv : ¬ (x = 0 ∧ y = 0)) :
    inCone (d.act S) (S.apply ⟨x, y⟩).x (S.apply ⟨x, y⟩).y = inCone d x y := by
  have z1 := zero_clause x y hv
  have z2 : (decide (y = 0) && decide (x = 0)) = false := zero_clause y x (fun h => hv ⟨h.2, h.1⟩)
  have z3 : (decide (-x = 0) && decide (-y = 0)) = false := zero_clause _ _ (fun h => hv ⟨neg_eq_zero.mp h.1, neg_eq_zero.mp h.2⟩)
  have z4 : (decide (-y = 0) && decide (-x = 0)) = false := zero_clause _ _ (fun h => hv ⟨neg_eq_zero.mp h.2, neg_eq_zero.mp h.1⟩)
  have z5 : (decide (-x = 0) && decide (y = 0)) = false := zero_clause _ _ (fun h => hv ⟨neg_eq_zero.mp h.1, h.2⟩)
  have z6 : (decide (x = 0) && decide (-y = 0)) = false := zero_clause _ _ (fun h => hv ⟨h.1, neg_eq_zero.mp h.2⟩)
  have z7 : (decide (-y = 0) && decide (x = 0)) = false := zero_clause _ _ (fun h => hv ⟨h.2, neg_eq_zero.mp h.1⟩)
  have z8 : (decide (y = 0) && decide (-x = 0)) = false := zero_clause _ _ (fun h => hv ⟨neg_eq_zero.mp h.2, h.1⟩)
  rcases d with ⟨u, dn, l, r⟩
  cases S <;> simp only [Dirs.act, Sym.apply] <;>
    simp only [inCone, coneRight, coneDown, coneLeft, coneUp, cone0_neg, neg_neg,
      z1, z2, z3, z4, z5, z6, z7, z8, Bool.or_false] <;>
    generalize cone0 x y = A <;> generalize cone0 y x = B <;> generalize cone0 (-x) y = C <;>
    generalize cone0 (-y) x = D <;>
    cases u <;> cases dn <;> cases l <;> cases r <;> cases A <;> cases B <;> cases C <;> cases D <;> rfl

theorem act_sub (F : Frame) (p q : Pt) :
    (⟨(F.act q).x - (F.act p).x, (F.act q).y - (F.act p).y⟩ : Pt) = F.sym.apply ⟨q.x - p.x, q.y - p.y⟩ := by
  rcases F with ⟨S, t⟩
  cases S <;> simp only [Frame.act, Sym.apply, Pt.mk.injEq] <;> constructor <;> ring

/-- the pin-cone test in any frame (symmetry + translation), pin flags transformed with the frame -/
theorem pinSeesTarget_act (F : Frame) (d : Dirs) (pin target : Pt) (hne : target ≠ pin) :
    pinSeesTarget (d.act F.sym) (F.act pin) (F.act target) = pinSeesTarget d pin target := by
  have hv : ¬ (target.x - pin.x = 0 ∧ target.y - pin.y = 0) := by
    rintro ⟨h1, h2⟩
    apply hne
    rcases target with ⟨a, b⟩; rcases pin with ⟨c, e⟩
    simp only [Pt.mk.injEq]
    constructor <;> linarith
  have h := inCone_sym F.sym d (target.x - pin.x) (target.y - pin.y) hv
  have e := act_sub F pin target
  unfold pinSeesTarget
  rw [← h, ← e]

/-- pure translations: no condition at all (the rule is a function of target − pin) -/
theorem pinSeesTarget_translate (t : Pt) (d : Dirs) (pin target : Pt) :
    pinSeesTarget d ((Frame.translation t).act pin) ((Frame.translation t).act target) = pinSeesTarget d pin target := by
  unfold pinSeesTarget
  simp only [Frame.translation, Frame.act, Sym.apply]
  congr 1 <;> ring

end AdaptaVerif.Lemmas.FramePin
