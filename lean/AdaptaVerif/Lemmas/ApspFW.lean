/-
C17 — correctness of the in-place Floyd–Warshall triple loop (`Model.ShortestPaths.fwLoop`).

Invariants (robust against the in-place update, no "row/column k unchanged" argument needed):
  * `Real g D`   every finite entry is the weight of an actual walk      (kept by every relaxation)
  * `Mat.Le D D₀` entries only decrease                                   (kept by every relaxation)
  * `LB g k D`   `D[i][j] ≤` weight of every non-empty walk `i → j` whose intermediate vertices
                  are all `< k`                                            (round `k` turns `k` into `k+1`)
The step `LB k → LB (k+1)` uses an induction over walks with a slack (`WalkK.split`) instead of
cutting vertex lists at the first/last visit of `k`.
-/
import AdaptaVerif.Lemmas.ApspMat
namespace AdaptaVerif.Lemmas.Apsp
open AdaptaVerif.Model.ShortestPaths AdaptaVerif.Spec.Apsp

/-- every finite entry is realised by a walk -/
def Real (g : Graph) (D : Mat) : Prop := ∀ a b d, D.get a b = some d → Walk g a b d

/-! ### one relaxation -/

theorem relax_WF {n : Nat} {D : Mat} (h : Mat.WF n D) (k i j : Nat) : Mat.WF n (relax D k i j) :=
  Mat.WF_set h _ _ _

theorem relax_le (D : Mat) (k i j : Nat) : Mat.Le (relax D k i j) D := by
  intro a b c h
  unfold relax
  by_cases hab : a = i ∧ b = j
  · obtain ⟨rfl, rfl⟩ := hab
    rcases Mat.get_set_self D a b (omin (D.get a b) (oadd (D.get a k) (D.get k b))) with e | e
    · obtain ⟨d, hd, hdc⟩ := h
      obtain ⟨z, hz, hzc⟩ := omin_le_left (b := oadd (D.get a k) (D.get k b)) hd hdc
      exact ⟨z, by rw [e, hz], hzc⟩
    · obtain ⟨d, hd, hdc⟩ := h
      exact ⟨d, by rw [e, hd], hdc⟩
  · have : a ≠ i ∨ b ≠ j := by
      by_cases ha : a = i
      · right; exact fun hb => hab ⟨ha, hb⟩
      · left; exact ha
    obtain ⟨d, hd, hdc⟩ := h
    exact ⟨d, by rw [Mat.get_set_ne D i j a b _ this, hd], hdc⟩

theorem relax_real {g : Graph} {D : Mat} (h : Real g D) (k i j : Nat) : Real g (relax D k i j) := by
  intro a b d hd
  unfold relax at hd
  by_cases hab : a = i ∧ b = j
  · obtain ⟨rfl, rfl⟩ := hab
    rcases Mat.get_set_self D a b (omin (D.get a b) (oadd (D.get a k) (D.get k b))) with e | e
    · rw [e] at hd
      rcases omin_cases (D.get a b) (oadd (D.get a k) (D.get k b)) with e2 | e2
      · rw [e2] at hd; exact h a b d hd
      · rw [e2] at hd
        cases h1 : D.get a k with
        | none => rw [h1] at hd; simp [oadd] at hd
        | some x =>
          cases h2 : D.get k b with
          | none => rw [h1, h2] at hd; simp [oadd] at hd
          | some y =>
            rw [h1, h2] at hd
            simp only [oadd, Option.some.injEq] at hd
            rw [← hd]
            exact Walk.append (h a k x h1) (h k b y h2)
    · rw [e] at hd; exact h a b d hd
  · have : a ≠ i ∨ b ≠ j := by
      by_cases ha : a = i
      · right; exact fun hb => hab ⟨ha, hb⟩
      · left; exact ha
    rw [Mat.get_set_ne D i j a b _ this] at hd
    exact h a b d hd

theorem relax_achieves {n : Nat} {D : Mat} (hwf : Mat.WF n D) {k i j : Nat} (hi : i < n) (hj : j < n)
    {c₁ c₂ : Rat} (h₁ : leC D i k c₁) (h₂ : leC D k j c₂) : leC (relax D k i j) i j (c₁ + c₂) := by
  unfold relax leC
  rw [Mat.get_set_eq D hwf i j _ hi hj]
  obtain ⟨x, hx, hxc⟩ := h₁
  obtain ⟨y, hy, hyc⟩ := h₂
  rw [hx, hy]
  exact omin_le_right (a := D.get i j) (b := oadd (some x) (some y)) (y := x + y) rfl (by linarith)

/-! ### one row, one round -/

theorem fwRow_WF {n : Nat} (k i : Nat) {D : Mat} (h : Mat.WF n D) : Mat.WF n (fwRow n k i D) :=
  foldl_inv _ (Mat.WF n) (fun D j hD => relax_WF hD k i j) _ D h

theorem fwRow_le (n k i : Nat) (D : Mat) : Mat.Le (fwRow n k i D) D :=
  foldl_inv _ (fun D' => Mat.Le D' D) (fun D' j hD => Mat.Le.trans (relax_le D' k i j) hD) _ D (Mat.Le.refl D)

theorem fwRow_real {g : Graph} (n k i : Nat) {D : Mat} (h : Real g D) : Real g (fwRow n k i D) :=
  foldl_inv _ (Real g) (fun D j hD => relax_real hD k i j) _ D h

theorem row_fold_achieves {n k i : Nat} (hi : i < n) :
    ∀ (js : List Nat) (D : Mat), Mat.WF n D → (∀ j ∈ js, j < n) →
      ∀ j ∈ js, ∀ c₁ c₂ : Rat, leC D i k c₁ → leC D k j c₂ →
        leC (js.foldl (fun D j => relax D k i j) D) i j (c₁ + c₂) := by
  intro js
  induction js with
  | nil => intro D _ _ j hj; cases hj
  | cons j0 rest ih =>
    intro D hwf hlt j hj c₁ c₂ h₁ h₂
    rw [List.foldl_cons]
    rcases List.mem_cons.mp hj with rfl | hj'
    · have hach := relax_achieves hwf hi (hlt j (List.mem_cons_self)) h₁ h₂
      have hle : Mat.Le (rest.foldl (fun D j' => relax D k i j') (relax D k i j)) (relax D k i j) :=
        foldl_inv _ (fun D' => Mat.Le D' (relax D k i j))
          (fun D' j' hD => Mat.Le.trans (relax_le D' k i j') hD) _ _ (Mat.Le.refl _)
      exact hle _ _ _ hach
    · exact ih (relax D k i j0) (relax_WF hwf k i j0) (fun j' hj'' => hlt j' (List.mem_cons_of_mem _ hj''))
        j hj' c₁ c₂ (relax_le D k i j0 _ _ _ h₁) (relax_le D k i j0 _ _ _ h₂)

theorem fwRow_achieves {n k i : Nat} (hi : i < n) {D : Mat} (hwf : Mat.WF n D) {j : Nat} (hj : j < n)
    {c₁ c₂ : Rat} (h₁ : leC D i k c₁) (h₂ : leC D k j c₂) : leC (fwRow n k i D) i j (c₁ + c₂) :=
  row_fold_achieves hi (List.range n) D hwf (fun _ h => List.mem_range.mp h) j (List.mem_range.mpr hj) c₁ c₂ h₁ h₂

theorem fwRound_WF {n : Nat} (k : Nat) {D : Mat} (h : Mat.WF n D) : Mat.WF n (fwRound n k D) :=
  foldl_inv _ (Mat.WF n) (fun D i hD => fwRow_WF k i hD) _ D h

theorem fwRound_le (n k : Nat) (D : Mat) : Mat.Le (fwRound n k D) D :=
  foldl_inv _ (fun D' => Mat.Le D' D) (fun D' i hD => Mat.Le.trans (fwRow_le n k i D') hD) _ D (Mat.Le.refl D)

theorem fwRound_real {g : Graph} (n k : Nat) {D : Mat} (h : Real g D) : Real g (fwRound n k D) :=
  foldl_inv _ (Real g) (fun D i hD => fwRow_real n k i hD) _ D h

theorem round_fold_achieves {n k : Nat} :
    ∀ (is : List Nat) (D : Mat), Mat.WF n D → (∀ i ∈ is, i < n) →
      ∀ i ∈ is, ∀ j, j < n → ∀ c₁ c₂ : Rat, leC D i k c₁ → leC D k j c₂ →
        leC (is.foldl (fun D i => fwRow n k i D) D) i j (c₁ + c₂) := by
  intro is
  induction is with
  | nil => intro D _ _ i hi; cases hi
  | cons i0 rest ih =>
    intro D hwf hlt i hi j hj c₁ c₂ h₁ h₂
    rw [List.foldl_cons]
    rcases List.mem_cons.mp hi with rfl | hi'
    · have hach := fwRow_achieves (hlt i (List.mem_cons_self)) hwf hj h₁ h₂
      have hle : Mat.Le (rest.foldl (fun D i' => fwRow n k i' D) (fwRow n k i D)) (fwRow n k i D) :=
        foldl_inv _ (fun D' => Mat.Le D' (fwRow n k i D))
          (fun D' i' hD => Mat.Le.trans (fwRow_le n k i' D') hD) _ _ (Mat.Le.refl _)
      exact hle _ _ _ hach
    · exact ih (fwRow n k i0 D) (fwRow_WF k i0 hwf) (fun i' hi'' => hlt i' (List.mem_cons_of_mem _ hi''))
        i hi' j hj c₁ c₂ (fwRow_le n k i0 D _ _ _ h₁) (fwRow_le n k i0 D _ _ _ h₂)

theorem fwRound_achieves {n k : Nat} {D : Mat} (hwf : Mat.WF n D) {i j : Nat} (hi : i < n) (hj : j < n)
    {c₁ c₂ : Rat} (h₁ : leC D i k c₁) (h₂ : leC D k j c₂) : leC (fwRound n k D) i j (c₁ + c₂) :=
  round_fold_achieves (List.range n) D hwf (fun _ h => List.mem_range.mp h) i (List.mem_range.mpr hi) j hj c₁ c₂ h₁ h₂

/-! ### walks with bounded intermediate vertices -/

/-- non-empty walk from `i` to `j` of weight `c` all of whose intermediate vertices are `< k` -/
inductive WalkK (g : Graph) (k : Nat) (i : Nat) : Nat → Rat → Prop where
  | edge {j : Nat} {w : Rat} : HasEdge g i j w → WalkK g k i j w
  | snoc {m j : Nat} {c w : Rat} : WalkK g k i m c → m < k → HasEdge g m j w → WalkK g k i j (c + w)

theorem WalkK.nonneg {g : Graph} (hv : Valid g) {k i j : Nat} {c : Rat} (h : WalkK g k i j c) : 0 ≤ c := by
  induction h with
  | edge he => exact (HasEdge.valid hv he).2.2
  | snoc _ _ he ih => have := (HasEdge.valid hv he).2.2; linarith

theorem WalkK.ends {g : Graph} (hv : Valid g) {k i j : Nat} {c : Rat} (h : WalkK g k i j c) :
    i < g.n ∧ j < g.n := by
  induction h with
  | edge he => exact ⟨(HasEdge.valid hv he).1, (HasEdge.valid hv he).2.1⟩
  | snoc _ _ he ih => exact ⟨ih.1, (HasEdge.valid hv he).2.1⟩

/-- a walk through vertices `< k+1` either avoids `k` as an intermediate vertex, or decomposes
    (up to dropping closed sub-walks at `k`, which have non-negative weight) into `i → k → j` -/
theorem WalkK.split {g : Graph} (hv : Valid g) {k i j : Nat} {c : Rat} (h : WalkK g (k + 1) i j c) :
    (∃ c', c' ≤ c ∧ WalkK g k i j c') ∨
    (∃ c₁ c₂, c₁ + c₂ ≤ c ∧ WalkK g k i k c₁ ∧ WalkK g k k j c₂) := by
  induction h with
  | edge he => exact Or.inl ⟨_, le_refl _, WalkK.edge he⟩
  | @snoc m j c w _ hm he ih =>
    have hw : 0 ≤ w := (HasEdge.valid hv he).2.2
    rcases ih with ⟨c', hc', hw'⟩ | ⟨c₁, c₂, hc, h₁, h₂⟩
    · by_cases hmk : m < k
      · exact Or.inl ⟨c' + w, by linarith, WalkK.snoc hw' hmk he⟩
      · have : m = k := by omega
        subst this
        exact Or.inr ⟨c', w, by linarith, hw', WalkK.edge he⟩
    · by_cases hmk : m < k
      · exact Or.inr ⟨c₁, c₂ + w, by linarith, h₁, WalkK.snoc h₂ hmk he⟩
      · have : m = k := by omega
        subst this
        have := WalkK.nonneg hv h₂
        exact Or.inr ⟨c₁, w, by linarith, h₁, WalkK.edge he⟩

/-- every walk is empty or a `WalkK` with bound `g.n` -/
theorem walk_walkK {g : Graph} (hv : Valid g) {i j : Nat} {c : Rat} (h : Walk g i j c) :
    (i = j ∧ c = 0) ∨ WalkK g g.n i j c := by
  induction h with
  | nil _ => exact Or.inl ⟨rfl, rfl⟩
  | @snoc m j c w hwalk he ih =>
    rcases ih with ⟨rfl, rfl⟩ | ih
    · right
      have := WalkK.edge (k := g.n) he
      simpa using this
    · exact Or.inr (WalkK.snoc ih (Walk.ends hv hwalk).2 he)

/-- `D[i][j] ≤` every non-empty walk with intermediates `< k` -/
def LB (g : Graph) (k : Nat) (D : Mat) : Prop := ∀ i j c, WalkK g k i j c → leC D i j c

theorem fwRound_LB {g : Graph} (hv : Valid g) {k : Nat} (hk : k < g.n) {D : Mat} (hwf : Mat.WF g.n D)
    (h : LB g k D) : LB g (k + 1) (fwRound g.n k D) := by
  intro i j c hw
  have hends := WalkK.ends hv hw
  rcases WalkK.split hv hw with ⟨c', hc', hw'⟩ | ⟨c₁, c₂, hc, h₁, h₂⟩
  · exact (fwRound_le g.n k D _ _ _ (h i j c' hw')).mono hc'
  · exact (fwRound_achieves hwf hends.1 hends.2 (h i k c₁ h₁) (h k j c₂ h₂)).mono hc

/-! ### all rounds -/

/-- the first `m` rounds of the outer loop -/
def fwRounds (n m : Nat) (D : Mat) : Mat := (List.range m).foldl (fun D k => fwRound n k D) D

theorem fwRounds_succ (n m : Nat) (D : Mat) : fwRounds n (m + 1) D = fwRound n m (fwRounds n m D) := by
  unfold fwRounds
  rw [List.range_succ, List.foldl_append]
  rfl

theorem fwLoop_eq (n : Nat) (D : Mat) : fwLoop n D = fwRounds n n D := rfl

theorem fwRounds_inv {g : Graph} (hv : Valid g) {D₀ : Mat} (hwf : Mat.WF g.n D₀) (hreal : Real g D₀)
    (hlb : LB g 0 D₀) : ∀ m, m ≤ g.n →
      Mat.WF g.n (fwRounds g.n m D₀) ∧ Real g (fwRounds g.n m D₀) ∧
      Mat.Le (fwRounds g.n m D₀) D₀ ∧ LB g m (fwRounds g.n m D₀) := by
  intro m
  induction m with
  | zero => intro _; exact ⟨hwf, hreal, Mat.Le.refl _, hlb⟩
  | succ m ih =>
    intro hm
    obtain ⟨h1, h2, h3, h4⟩ := ih (by omega)
    rw [fwRounds_succ]
    exact ⟨fwRound_WF m h1, fwRound_real g.n m h2, Mat.Le.trans (fwRound_le g.n m _) h3,
      fwRound_LB hv (by omega) h1 h4⟩

/-- Floyd–Warshall's triple loop started from any matrix that is well-formed, realisable,
    `≤ 0` on the diagonal and `≤ w` on every edge, returns the exact distance matrix -/
theorem fwLoop_correct {g : Graph} (hv : Valid g) {D₀ : Mat} (hwf : Mat.WF g.n D₀) (hreal : Real g D₀)
    (hdiag : ∀ i, i < g.n → leC D₀ i i 0)
    (hedge : ∀ i j w, HasEdge g i j w → leC D₀ i j w) :
    IsApsp g (fwLoop g.n D₀).get := by
  have hlb : LB g 0 D₀ := by
    intro i j c hw
    cases hw with
    | edge he => exact hedge i j c he
    | snoc _ hm _ => exact absurd hm (Nat.not_lt_zero _)
  obtain ⟨_, hR, hLe, hLB⟩ := fwRounds_inv hv hwf hreal hlb g.n (le_refl _)
  rw [fwLoop_eq]
  intro i j hi hj
  have hlower : ∀ c, Walk g i j c → leC (fwRounds g.n g.n D₀) i j c := by
    intro c hw
    rcases walk_walkK hv hw with ⟨rfl, rfl⟩ | hk
    · exact hLe _ _ _ (hdiag i hi)
    · exact hLB i j c hk
  cases hd : (fwRounds g.n g.n D₀).get i j with
  | none =>
    intro c hw
    obtain ⟨d, hd', _⟩ := hlower c hw
    rw [hd] at hd'; cases hd'
  | some d =>
    refine ⟨hR i j d hd, ?_⟩
    intro c hw
    obtain ⟨d', hd', hdc⟩ := hlower c hw
    rw [hd] at hd'
    have : d = d' := by injection hd'
    subst this
    exact hdc

end AdaptaVerif.Lemmas.Apsp
