/-
C13: the plane scan of the `TopologyConstraints` constructor (`Model.TopoCons.scan`, a fold of
`step` over the sorted event list) creates exactly the StraightConstraints of the closed form
`Model.TopoCons.consClosed` (per node event: which nodes / segments are open, written as filters
over the scene).
-/
import AdaptaVerif.Model.TopoCons
import Mathlib.Tactic.Linarith
import Mathlib.Algebra.Order.Field.Rat
namespace AdaptaVerif.Lemmas.TopoConsScan
open AdaptaVerif.Model.TopoCons

/-- tie order induced by the tie-break numbers -/
def bOof (tb : Ev → Nat) (m n : Node) : Bool := decide (tb (.nodeOpen m) < tb (.nodeOpen n))
def bCof (tb : Ev → Nat) (m n : Node) : Bool := decide (tb (.nodeClose m) < tb (.nodeClose n))

/-! ### the comparator -/

theorem evLe_iff (d : Nat) (tb : Ev → Nat) (a b : Ev) :
    evLe d tb a b = true ↔
      a.pos d < b.pos d ∨
        (a.pos d = b.pos d ∧ (a.rank < b.rank ∨ (a.rank = b.rank ∧ tb a ≤ tb b))) := by
  simp [evLe]

theorem evLe_false_iff (d : Nat) (tb : Ev → Nat) (a b : Ev) :
    evLe d tb a b = false ↔
      b.pos d < a.pos d ∨
        (a.pos d = b.pos d ∧ (b.rank < a.rank ∨ (a.rank = b.rank ∧ tb b < tb a))) := by
  rw [← Bool.not_eq_true, evLe_iff]
  rcases lt_trichotomy (a.pos d) (b.pos d) with h | h | h
  · constructor
    · intro h'; exact absurd (Or.inl h) h'
    · rintro (h' | ⟨h', _⟩) <;> intro _ <;> linarith
  · constructor
    · intro h'
      refine Or.inr ⟨h, ?_⟩
      rcases Nat.lt_trichotomy a.rank b.rank with r | r | r
      · exact absurd (Or.inr ⟨h, Or.inl r⟩) h'
      · rcases Nat.lt_or_ge (tb b) (tb a) with t | t
        · exact Or.inr ⟨r, t⟩
        · exact absurd (Or.inr ⟨h, Or.inr ⟨r, t⟩⟩) h'
      · exact Or.inl r
    · rintro (h' | ⟨_, h'⟩)
      · linarith
      · rintro (h'' | ⟨_, h''⟩)
        · linarith
        · omega
  · constructor
    · intro _; exact Or.inl h
    · intro _
      rintro (h' | ⟨h', _⟩) <;> linarith

theorem evLe_refl (d : Nat) (tb : Ev → Nat) (a : Ev) : evLe d tb a a = true := by
  rw [evLe_iff]; exact Or.inr ⟨rfl, Or.inr ⟨rfl, Nat.le_refl _⟩⟩

theorem evLe_total (d : Nat) (tb : Ev → Nat) (a b : Ev) : (evLe d tb a b || evLe d tb b a) = true := by
  cases h : evLe d tb a b
  · rw [evLe_false_iff] at h
    rw [Bool.false_or, evLe_iff]
    rcases h with h | ⟨h, h' | ⟨h', h''⟩⟩
    · exact Or.inl h
    · exact Or.inr ⟨h.symm, Or.inl h'⟩
    · exact Or.inr ⟨h.symm, Or.inr ⟨h'.symm, Nat.le_of_lt h''⟩⟩
  · rfl

theorem evLe_trans (d : Nat) (tb : Ev → Nat) (a b c : Ev)
    (h1 : evLe d tb a b = true) (h2 : evLe d tb b c = true) : evLe d tb a c = true := by
  rw [evLe_iff] at *
  rcases h1 with h1 | ⟨h1, h1'⟩
  · rcases h2 with h2 | ⟨h2, _⟩
    · exact Or.inl (lt_trans h1 h2)
    · exact Or.inl (by linarith)
  · rcases h2 with h2 | ⟨h2, h2'⟩
    · exact Or.inl (by linarith)
    · refine Or.inr ⟨h1.trans h2, ?_⟩
      omega


/-! ### the event list -/

theorem mem_mkEvents_nodeOpen (d : Nat) (nodes : List Node) (segs : List Seg) (n : Node) :
    Ev.nodeOpen n ∈ mkEvents d nodes segs ↔ n ∈ nodes := by
  simp [mkEvents]

theorem mem_mkEvents_nodeClose (d : Nat) (nodes : List Node) (segs : List Seg) (n : Node) :
    Ev.nodeClose n ∈ mkEvents d nodes segs ↔ n ∈ nodes := by
  simp [mkEvents]

theorem mem_mkEvents_segOpen (d : Nat) (nodes : List Node) (segs : List Seg) (s : Seg) :
    Ev.segOpen s ∈ mkEvents d nodes segs ↔ s ∈ segs ∧ s.parallel d = false := by
  simp [mkEvents]

theorem mem_mkEvents_segClose (d : Nat) (nodes : List Node) (segs : List Seg) (s : Seg) :
    Ev.segClose s ∈ mkEvents d nodes segs ↔ s ∈ segs ∧ s.parallel d = false := by
  simp [mkEvents]

theorem eq_of_id_eq {nodes : List Node} (hids : nodes.Pairwise (fun a b => a.id ≠ b.id))
    {m n : Node} (hm : m ∈ nodes) (hn : n ∈ nodes) (h : m.id = n.id) : m = n := by
  induction nodes with
  | nil => cases hm
  | cons a l ih =>
    rw [List.pairwise_cons] at hids
    rcases List.mem_cons.1 hm with rfl | hm' <;> rcases List.mem_cons.1 hn with rfl | hn'
    · rfl
    · exact absurd h (hids.1 _ hn')
    · exact absurd h.symm (hids.1 _ hm')
    · exact ih hids.2 hm' hn'

theorem eq_of_sameSeg {segs : List Seg}
    (hsegs : segs.Pairwise (fun a b => ¬ (a.edge = b.edge ∧ a.idx = b.idx)))
    {s t : Seg} (hs : s ∈ segs) (ht : t ∈ segs) (h : sameSeg s t = true) : s = t := by
  have h' : s.edge = t.edge ∧ s.idx = t.idx := by simpa [sameSeg] using h
  induction segs with
  | nil => cases hs
  | cons a l ih =>
    rw [List.pairwise_cons] at hsegs
    rcases List.mem_cons.1 hs with rfl | hs' <;> rcases List.mem_cons.1 ht with rfl | ht'
    · rfl
    · exact absurd h' (hsegs.1 _ ht')
    · exact absurd ⟨h'.1.symm, h'.2.symm⟩ (hsegs.1 _ hs')
    · exact ih hsegs.2 hs' ht'

theorem sameSeg_self (s : Seg) : sameSeg s s = true := by simp [sameSeg]

theorem nodup_mkEvents (d : Nat) (nodes : List Node) (segs : List Seg)
    (hids : nodes.Pairwise (fun a b => a.id ≠ b.id))
    (hsegs : segs.Pairwise (fun a b => ¬ (a.edge = b.edge ∧ a.idx = b.idx))) :
    (mkEvents d nodes segs).Nodup := by
  unfold mkEvents
  rw [List.nodup_append]
  refine ⟨?_, ?_, ?_⟩
  · unfold List.Nodup
    rw [List.pairwise_flatMap]
    refine ⟨fun a _ => by simp, hids.imp ?_⟩
    intro a b hab x hx y hy
    have : a ≠ b := fun h => hab (by rw [h])
    simp only [List.mem_cons, List.not_mem_nil, or_false] at hx hy
    rcases hx with rfl | rfl <;> rcases hy with rfl | rfl <;> simp [this]
  · unfold List.Nodup
    rw [List.pairwise_flatMap]
    refine ⟨fun a _ => by simp, (hsegs.filter _).imp ?_⟩
    intro a b hab x hx y hy
    have : a ≠ b := fun h => hab (by rw [h]; exact ⟨rfl, rfl⟩)
    simp only [List.mem_cons, List.not_mem_nil, or_false] at hx hy
    rcases hx with rfl | rfl <;> rcases hy with rfl | rfl <;> simp [this]
  · intro a ha b hb
    simp only [List.mem_flatMap, List.mem_cons, List.not_mem_nil, or_false] at ha hb
    rcases ha with ⟨_, _, rfl | rfl⟩ <;> rcases hb with ⟨_, _, rfl | rfl⟩ <;> simp

theorem seg_lo_le_hi (s : Seg) (d : Nat) : s.lo d ≤ s.hi d := by
  unfold Seg.lo Seg.hi
  split <;> split <;> linarith

theorem seg_lo_eq_hi_of_parallel (s : Seg) (d : Nat) (h : s.parallel d = true) : s.lo d = s.hi d := by
  have h' : s.s.pos (conj d) = s.e.pos (conj d) := by simpa [Seg.parallel] using h
  unfold Seg.lo Seg.hi
  rw [h']; simp

/-- the hypotheses on the scene: node ids and segment names are unique, no node of zero height -/
structure Scene0 (d : Nat) (nodes : List Node) (segs : List Seg) : Prop where
  hids : nodes.Pairwise (fun a b => a.id ≠ b.id)
  hsegs : segs.Pairwise (fun a b => ¬ (a.edge = b.edge ∧ a.idx = b.idx))
  hpos : ∀ n ∈ nodes, n.r.lo (conj d) < n.r.hi (conj d)

/-- ... and the tie-break numbers order the NodeOpen (NodeClose) events of different nodes -/
structure Scene (d : Nat) (tb : Ev → Nat) (nodes : List Node) (segs : List Seg) : Prop
    extends Scene0 d nodes segs where
  htbO : ∀ m ∈ nodes, ∀ n ∈ nodes, m.id ≠ n.id → tb (.nodeOpen m) ≠ tb (.nodeOpen n)
  htbC : ∀ m ∈ nodes, ∀ n ∈ nodes, m.id ≠ n.id → tb (.nodeClose m) ≠ tb (.nodeClose n)

/-- `pre ++ ev :: post` is the sorted event list -/
def Split (d : Nat) (tb : Ev → Nat) (nodes : List Node) (segs : List Seg)
    (pre : List Ev) (ev : Ev) (post : List Ev) : Prop :=
  sortEvents d tb (mkEvents d nodes segs) = pre ++ ev :: post

section split
variable {d : Nat} {tb : Ev → Nat} {nodes : List Node} {segs : List Seg}
  {pre post : List Ev} {ev : Ev}

theorem Split.mem_iff (h : Split d tb nodes segs pre ev post) (e : Ev) :
    e ∈ mkEvents d nodes segs ↔ e ∈ pre ∨ e = ev ∨ e ∈ post := by
  have := (List.mergeSort_perm (mkEvents d nodes segs) (evLe d tb)).mem_iff (a := e)
  unfold Split sortEvents at h
  rw [h] at this
  rw [← this]; simp

theorem Split.sorted (h : Split d tb nodes segs pre ev post) :
    (pre ++ ev :: post).Pairwise (fun a b => evLe d tb a b = true) := by
  unfold Split sortEvents at h
  rw [← h]
  exact List.pairwise_mergeSort (evLe_trans d tb) (evLe_total d tb) _

theorem Split.le_of_mem_pre (h : Split d tb nodes segs pre ev post) {e : Ev} (he : e ∈ pre) :
    evLe d tb e ev = true :=
  (List.pairwise_append.1 h.sorted).2.2 e he ev (List.mem_cons_self)

theorem Split.le_of_mem_post (h : Split d tb nodes segs pre ev post) {e : Ev} (he : e ∈ post) :
    evLe d tb ev e = true :=
  (List.pairwise_cons.1 (List.pairwise_append.1 h.sorted).2.1).1 e he

/-- an event of the scene that is strictly before `ev` in the comparator has been processed -/
theorem Split.mem_pre (h : Split d tb nodes segs pre ev post) {e : Ev}
    (he : e ∈ mkEvents d nodes segs) (hlt : evLe d tb ev e = false) : e ∈ pre := by
  rcases (h.mem_iff e).1 he with h1 | rfl | h1
  · exact h1
  · rw [evLe_refl] at hlt; cases hlt
  · rw [h.le_of_mem_post h1] at hlt; cases hlt

/-- an event strictly after `ev` has not -/
theorem Split.not_mem_pre (h : Split d tb nodes segs pre ev post) {e : Ev}
    (hlt : evLe d tb e ev = false) : e ∉ pre := by
  intro he
  rw [h.le_of_mem_pre he] at hlt; cases hlt

/-- an unprocessed event of the scene is not before `ev` -/
theorem Split.le_of_not_mem_pre (h : Split d tb nodes segs pre ev post) {e : Ev}
    (he : e ∈ mkEvents d nodes segs) (hn : e ∉ pre) : evLe d tb ev e = true := by
  cases hc : evLe d tb ev e
  · exact absurd (h.mem_pre he hc) hn
  · rfl

theorem Split.self_not_mem_pre (h : Split d tb nodes segs pre ev post)
    (sc : Scene0 d nodes segs) : ev ∉ pre := by
  have hn : (pre ++ ev :: post).Nodup := by
    unfold Split sortEvents at h
    rw [← h]
    exact (List.mergeSort_perm _ _).nodup_iff.2 (nodup_mkEvents d nodes segs sc.hids sc.hsegs)
  intro he
  exact (List.nodup_append.1 hn).2.2 ev he ev List.mem_cons_self rfl

theorem Split.mem_pre_sub (h : Split d tb nodes segs pre ev post) {e : Ev} (he : e ∈ pre) :
    e ∈ mkEvents d nodes segs := (h.mem_iff e).2 (Or.inl he)

theorem Split.ev_mem (h : Split d tb nodes segs pre ev post) : ev ∈ mkEvents d nodes segs :=
  (h.mem_iff ev).2 (Or.inr (Or.inl rfl))

end split


/-! ### the state after a prefix of the sorted event list -/

/-- open = opened and not yet closed -/
def Inv (pre : List Ev) (st : ScanSt) : Prop :=
  (∀ m, m ∈ st.openNodes ↔ Ev.nodeOpen m ∈ pre ∧ Ev.nodeClose m ∉ pre) ∧
  (∀ s, s ∈ st.openSegs ↔ Ev.segOpen s ∈ pre ∧ Ev.segClose s ∉ pre)

theorem inv_nil : Inv [] ({} : ScanSt) := by
  constructor <;> intro _ <;> simp

section inv
variable {d : Nat} {tb : Ev → Nat} {nodes : List Node} {segs : List Seg}
  {pre post : List Ev} {ev : Ev} {st : ScanSt}

theorem inv_step (sc : Scene0 d nodes segs) (h : Split d tb nodes segs pre ev post)
    (hi : Inv pre st) : Inv (pre ++ [ev]) (step d st ev) := by
  cases ev with
  | nodeOpen n =>
    have hn : n ∈ nodes := (mem_mkEvents_nodeOpen d nodes segs n).1 h.ev_mem
    have hc : Ev.nodeClose n ∉ pre :=
      h.not_mem_pre (by rw [evLe_false_iff]; exact Or.inl (sc.hpos n hn))
    constructor
    · intro m
      simp only [step, List.mem_append, List.mem_singleton, hi.1 m, Ev.nodeOpen.injEq, reduceCtorEq,
        or_false]
      constructor
      · rintro (⟨a, b⟩ | rfl)
        · exact ⟨Or.inl a, b⟩
        · exact ⟨Or.inr rfl, hc⟩
      · rintro ⟨a | rfl, b⟩
        · exact Or.inl ⟨a, b⟩
        · exact Or.inr rfl
    · intro s
      simp [step, hi.2 s]
  | nodeClose n =>
    have hn : n ∈ nodes := (mem_mkEvents_nodeClose d nodes segs n).1 h.ev_mem
    constructor
    · intro m
      simp only [step, List.mem_filter, List.mem_append, List.mem_singleton, hi.1 m,
        Ev.nodeClose.injEq, reduceCtorEq, or_false, bne_iff_ne, ne_eq, not_or]
      constructor
      · rintro ⟨⟨a, b⟩, c⟩
        exact ⟨a, b, fun e => c (by rw [e])⟩
      · rintro ⟨a, b, c⟩
        have hm : m ∈ nodes := (mem_mkEvents_nodeOpen d nodes segs m).1 (h.mem_pre_sub a)
        exact ⟨⟨a, b⟩, fun e => c (eq_of_id_eq sc.hids hm hn e)⟩
    · intro s
      simp [step, hi.2 s]
  | segOpen s =>
    have hc : Ev.segClose s ∉ pre :=
      h.not_mem_pre (by
        rw [evLe_false_iff]
        rcases lt_or_eq_of_le (seg_lo_le_hi s d) with h' | h'
        · exact Or.inl h'
        · exact Or.inr ⟨h'.symm, Or.inl (by show 1 < 2; omega)⟩)
    constructor
    · intro m
      simp [step, hi.1 m]
    · intro t
      simp only [step, List.mem_append, List.mem_singleton, hi.2 t, Ev.segOpen.injEq, reduceCtorEq,
        or_false]
      constructor
      · rintro (⟨a, b⟩ | rfl)
        · exact ⟨Or.inl a, b⟩
        · exact ⟨Or.inr rfl, hc⟩
      · rintro ⟨a | rfl, b⟩
        · exact Or.inl ⟨a, b⟩
        · exact Or.inr rfl
  | segClose s =>
    have hs : s ∈ segs := ((mem_mkEvents_segClose d nodes segs s).1 h.ev_mem).1
    constructor
    · intro m
      simp [step, hi.1 m]
    · intro t
      simp only [step, List.mem_filter, List.mem_append, List.mem_singleton, hi.2 t,
        Ev.segClose.injEq, reduceCtorEq, or_false, not_or, Bool.not_eq_true', ]
      constructor
      · rintro ⟨⟨a, b⟩, c⟩
        refine ⟨a, b, ?_⟩
        rintro rfl
        rw [sameSeg_self] at c; cases c
      · rintro ⟨a, b, c⟩
        have ht : t ∈ segs := ((mem_mkEvents_segOpen d nodes segs t).1 (h.mem_pre_sub a)).1
        refine ⟨⟨a, b⟩, ?_⟩
        cases hss : sameSeg t s
        · rfl
        · exact absurd (eq_of_sameSeg sc.hsegs ht hs hss) c

theorem inv_prefix (sc : Scene0 d nodes segs) :
    ∀ (p1 pre : List Ev) (st : ScanSt) (rest : List Ev), Inv pre st →
      sortEvents d tb (mkEvents d nodes segs) = pre ++ p1 ++ rest →
      Inv (pre ++ p1) (p1.foldl (step d) st) := by
  intro p1
  induction p1 with
  | nil => intro pre st rest hi _; simpa using hi
  | cons e p1 ih =>
    intro pre st rest hi hL
    have h1 : Inv (pre ++ [e]) (step d st e) :=
      inv_step sc (post := p1 ++ rest) (by unfold Split; rw [hL]; simp) hi
    have h2 := ih (pre ++ [e]) (step d st e) rest h1 (by rw [hL]; simp)
    simpa using h2

theorem inv_of_split (sc : Scene0 d nodes segs) (h : Split d tb nodes segs pre ev post) :
    Inv pre (pre.foldl (step d) {}) := by
  have := inv_prefix sc pre [] {} (ev :: post) inv_nil (by simpa [Split] using h)
  simpa using this

end inv

/-! ### the output, event by event -/

/-- what `step` appends to `out` -/
def evOut (d : Nat) (st : ScanSt) : Ev → List (Seg × SC)
  | .nodeOpen n =>
    nodeEventCons d n (n.r.lo (conj d)) (leftNb d n st.openNodes) (rightNb d n st.openNodes) st.openSegs
  | .nodeClose n =>
    nodeEventCons d n (n.r.hi (conj d)) (leftNb d n (st.openNodes.filter fun m => m.id != n.id))
      (rightNb d n (st.openNodes.filter fun m => m.id != n.id)) st.openSegs
  | .segOpen _ => []
  | .segClose _ => []

theorem step_out (d : Nat) (st : ScanSt) (ev : Ev) : (step d st ev).out = st.out ++ evOut d st ev := by
  cases ev <;> simp [step, evOut]

theorem foldl_out_mem (d : Nat) (x : Seg × SC) : ∀ (l : List Ev) (st : ScanSt),
    x ∈ (l.foldl (step d) st).out ↔
      x ∈ st.out ∨ ∃ p e q, l = p ++ e :: q ∧ x ∈ evOut d (p.foldl (step d) st) e := by
  intro l
  induction l with
  | nil => intro st; simp
  | cons a l ih =>
    intro st
    rw [List.foldl_cons, ih, step_out, List.mem_append]
    constructor
    · rintro ((h | h) | ⟨p, e, q, rfl, h⟩)
      · exact Or.inl h
      · exact Or.inr ⟨[], a, l, rfl, h⟩
      · exact Or.inr ⟨a :: p, e, q, rfl, h⟩
    · rintro (h | ⟨p, e, q, hl, h⟩)
      · exact Or.inl (Or.inl h)
      · cases p with
        | nil =>
          simp only [List.nil_append, List.cons.injEq] at hl
          obtain ⟨rfl, rfl⟩ := hl
          exact Or.inl (Or.inr h)
        | cons b p =>
          simp only [List.cons_append, List.cons.injEq] at hl
          obtain ⟨rfl, rfl⟩ := hl
          exact Or.inr ⟨p, e, q, rfl, h⟩


/-! ### the neighbours depend only on the set of open nodes (keys are unique) -/

/-- `r` is the member of `S` with the largest centre below `n`'s -/
def IsLeftNb (d : Nat) (n : Node) (S : Node → Prop) : Option Node → Prop
  | none => ∀ m, S m → ¬ m.r.centre d < n.r.centre d
  | some b => S b ∧ b.r.centre d < n.r.centre d ∧
      ∀ m, S m → m.r.centre d < n.r.centre d → m.r.centre d ≤ b.r.centre d

/-- `r` is the member of `S` with the smallest centre above `n`'s -/
def IsRightNb (d : Nat) (n : Node) (S : Node → Prop) : Option Node → Prop
  | none => ∀ m, S m → ¬ n.r.centre d < m.r.centre d
  | some b => S b ∧ n.r.centre d < b.r.centre d ∧
      ∀ m, S m → n.r.centre d < m.r.centre d → b.r.centre d ≤ m.r.centre d

def lstep (d : Nat) (n : Node) : Option Node → Node → Option Node := fun best m =>
    if m.r.centre d < n.r.centre d then
      (match best with
       | none => some m
       | some b => if b.r.centre d < m.r.centre d then some m else some b)
    else best

def rstep (d : Nat) (n : Node) : Option Node → Node → Option Node := fun best m =>
    if n.r.centre d < m.r.centre d then
      (match best with
       | none => some m
       | some b => if m.r.centre d < b.r.centre d then some m else some b)
    else best

theorem leftNb_eq (d : Nat) (n : Node) (l : List Node) : leftNb d n l = l.foldl (lstep d n) none := rfl
theorem rightNb_eq (d : Nat) (n : Node) (l : List Node) : rightNb d n l = l.foldl (rstep d n) none := rfl

theorem IsLeftNb.congr {d : Nat} {n : Node} {S S' : Node → Prop} {r : Option Node}
    (h : ∀ m, S m ↔ S' m) (hr : IsLeftNb d n S r) : IsLeftNb d n S' r := by
  have : S = S' := funext fun m => propext (h m)
  rw [← this]; exact hr

theorem IsRightNb.congr {d : Nat} {n : Node} {S S' : Node → Prop} {r : Option Node}
    (h : ∀ m, S m ↔ S' m) (hr : IsRightNb d n S r) : IsRightNb d n S' r := by
  have : S = S' := funext fun m => propext (h m)
  rw [← this]; exact hr

theorem lstep_spec (d : Nat) (n a : Node) (S : Node → Prop) (best : Option Node)
    (h : IsLeftNb d n S best) : IsLeftNb d n (fun m => S m ∨ m = a) (lstep d n best a) := by
  unfold lstep
  split
  · rename_i ha
    cases best with
    | none =>
      refine ⟨Or.inr rfl, ha, ?_⟩
      rintro m (hm | rfl) hlt
      · exact absurd hlt (h m hm)
      · exact le_refl _
    | some b =>
      obtain ⟨hb, hbn, hmax⟩ := h
      dsimp only
      split
      · rename_i hba
        refine ⟨Or.inr rfl, ha, ?_⟩
        rintro m (hm | rfl) hlt
        · exact le_trans (hmax m hm hlt) (le_of_lt hba)
        · exact le_refl _
      · rename_i hba
        refine ⟨Or.inl hb, hbn, ?_⟩
        rintro m (hm | rfl) hlt
        · exact hmax m hm hlt
        · exact not_lt.1 hba
  · rename_i ha
    cases best with
    | none =>
      rintro m (hm | rfl)
      · exact h m hm
      · exact ha
    | some b =>
      obtain ⟨hb, hbn, hmax⟩ := h
      refine ⟨Or.inl hb, hbn, ?_⟩
      rintro m (hm | rfl) hlt
      · exact hmax m hm hlt
      · exact absurd hlt ha

theorem rstep_spec (d : Nat) (n a : Node) (S : Node → Prop) (best : Option Node)
    (h : IsRightNb d n S best) : IsRightNb d n (fun m => S m ∨ m = a) (rstep d n best a) := by
  unfold rstep
  split
  · rename_i ha
    cases best with
    | none =>
      refine ⟨Or.inr rfl, ha, ?_⟩
      rintro m (hm | rfl) hlt
      · exact absurd hlt (h m hm)
      · exact le_refl _
    | some b =>
      obtain ⟨hb, hbn, hmax⟩ := h
      dsimp only
      split
      · rename_i hba
        refine ⟨Or.inr rfl, ha, ?_⟩
        rintro m (hm | rfl) hlt
        · exact le_trans (le_of_lt hba) (hmax m hm hlt)
        · exact le_refl _
      · rename_i hba
        refine ⟨Or.inl hb, hbn, ?_⟩
        rintro m (hm | rfl) hlt
        · exact hmax m hm hlt
        · exact not_lt.1 hba
  · rename_i ha
    cases best with
    | none =>
      rintro m (hm | rfl)
      · exact h m hm
      · exact ha
    | some b =>
      obtain ⟨hb, hbn, hmax⟩ := h
      refine ⟨Or.inl hb, hbn, ?_⟩
      rintro m (hm | rfl) hlt
      · exact hmax m hm hlt
      · exact absurd hlt ha

theorem lfold_spec (d : Nat) (n : Node) : ∀ (l : List Node) (best : Option Node) (S : Node → Prop),
    IsLeftNb d n S best → IsLeftNb d n (fun m => S m ∨ m ∈ l) (l.foldl (lstep d n) best) := by
  intro l
  induction l with
  | nil => intro best S h; exact h.congr (by simp)
  | cons a l ih =>
    intro best S h
    rw [List.foldl_cons]
    exact (ih _ _ (lstep_spec d n a S best h)).congr (by intro m; simp [or_assoc])

theorem rfold_spec (d : Nat) (n : Node) : ∀ (l : List Node) (best : Option Node) (S : Node → Prop),
    IsRightNb d n S best → IsRightNb d n (fun m => S m ∨ m ∈ l) (l.foldl (rstep d n) best) := by
  intro l
  induction l with
  | nil => intro best S h; exact h.congr (by simp)
  | cons a l ih =>
    intro best S h
    rw [List.foldl_cons]
    exact (ih _ _ (rstep_spec d n a S best h)).congr (by intro m; simp [or_assoc])

theorem leftNb_spec (d : Nat) (n : Node) (l : List Node) : IsLeftNb d n (· ∈ l) (leftNb d n l) := by
  rw [leftNb_eq]
  exact (lfold_spec d n l none (fun _ => False) (by intro m hm; exact hm.elim)).congr (by simp)

theorem rightNb_spec (d : Nat) (n : Node) (l : List Node) : IsRightNb d n (· ∈ l) (rightNb d n l) := by
  rw [rightNb_eq]
  exact (rfold_spec d n l none (fun _ => False) (by intro m hm; exact hm.elim)).congr (by simp)

theorem IsLeftNb.unique {d : Nat} {n : Node} {S : Node → Prop} {r1 r2 : Option Node}
    (hS : ∀ a b, S a → S b → a.r.centre d = b.r.centre d → a = b)
    (h1 : IsLeftNb d n S r1) (h2 : IsLeftNb d n S r2) : r1 = r2 := by
  cases r1 with
  | none =>
    cases r2 with
    | none => rfl
    | some b => exact absurd h2.2.1 (h1 b h2.1)
  | some a =>
    cases r2 with
    | none => exact absurd h1.2.1 (h2 a h1.1)
    | some b =>
      have := hS a b h1.1 h2.1 (le_antisymm (h2.2.2 a h1.1 h1.2.1) (h1.2.2 b h2.1 h2.2.1))
      rw [this]

theorem IsRightNb.unique {d : Nat} {n : Node} {S : Node → Prop} {r1 r2 : Option Node}
    (hS : ∀ a b, S a → S b → a.r.centre d = b.r.centre d → a = b)
    (h1 : IsRightNb d n S r1) (h2 : IsRightNb d n S r2) : r1 = r2 := by
  cases r1 with
  | none =>
    cases r2 with
    | none => rfl
    | some b => exact absurd h2.2.1 (h1 b h2.1)
  | some a =>
    cases r2 with
    | none => exact absurd h1.2.1 (h2 a h1.1)
    | some b =>
      have := hS a b h1.1 h2.1 (le_antisymm (h1.2.2 b h2.1 h2.2.1) (h2.2.2 a h1.1 h1.2.1))
      rw [this]

theorem leftNb_congr (d : Nat) (n : Node) {l1 l2 : List Node} (h : ∀ m, m ∈ l1 ↔ m ∈ l2)
    (hS : ∀ a b, a ∈ l1 → b ∈ l1 → a.r.centre d = b.r.centre d → a = b) :
    leftNb d n l1 = leftNb d n l2 :=
  IsLeftNb.unique hS (leftNb_spec d n l1) ((leftNb_spec d n l2).congr (fun m => (h m).symm))

theorem rightNb_congr (d : Nat) (n : Node) {l1 l2 : List Node} (h : ∀ m, m ∈ l1 ↔ m ∈ l2)
    (hS : ∀ a b, a ∈ l1 → b ∈ l1 → a.r.centre d = b.r.centre d → a = b) :
    rightNb d n l1 = rightNb d n l2 :=
  IsRightNb.unique hS (rightNb_spec d n l1) ((rightNb_spec d n l2).congr (fun m => (h m).symm))

theorem nodeEventCons_congr (d : Nat) (n : Node) (pos : Rat) (L R : Option Node) {l1 l2 : List Seg}
    (h : ∀ s, s ∈ l1 ↔ s ∈ l2) (x : Seg × SC) :
    x ∈ nodeEventCons d n pos L R l1 ↔ x ∈ nodeEventCons d n pos L R l2 := by
  unfold nodeEventCons
  simp only [List.mem_filterMap, h]


/-! ### which nodes / segments are open at a node event -/

section atEvent
variable {d : Nat} {tb : Ev → Nat} {nodes : List Node} {segs : List Seg}
  {pre post : List Ev} {n : Node} {st : ScanSt}

theorem openNodes_at_open (sc : Scene d tb nodes segs)
    (h : Split d tb nodes segs pre (.nodeOpen n) post) (hi : Inv pre st) (m : Node) :
    m ∈ st.openNodes ↔ m ∈ openNodesAtOpen d (bOof tb) n nodes := by
  have hn : n ∈ nodes := (mem_mkEvents_nodeOpen d nodes segs n).1 h.ev_mem
  rw [hi.1 m]
  simp only [openNodesAtOpen, List.mem_filter, bOof, Bool.and_eq_true, Bool.or_eq_true,
    decide_eq_true_eq, bne_iff_ne, ne_eq]
  constructor
  · rintro ⟨ho, hc⟩
    have hm : m ∈ nodes := (mem_mkEvents_nodeOpen d nodes segs m).1 (h.mem_pre_sub ho)
    have hne : m ≠ n := by rintro rfl; exact h.self_not_mem_pre sc.toScene0 ho
    have hid : m.id ≠ n.id := fun e => hne (eq_of_id_eq sc.hids hm hn e)
    have h1 := h.le_of_mem_pre ho
    have h2 := h.le_of_not_mem_pre ((mem_mkEvents_nodeClose d nodes segs m).2 hm) hc
    rw [evLe_iff] at h1 h2
    simp only [Ev.pos, Ev.rank] at h1 h2
    have ht := sc.htbO m hm n hn hid
    refine ⟨hm, ⟨hid, ?_⟩, ?_⟩
    · rcases h1 with h1 | ⟨h1, h1' | ⟨_, h1'⟩⟩
      · exact Or.inl h1
      · omega
      · exact Or.inr ⟨h1, by omega⟩
    · rcases h2 with h2 | ⟨_, h2 | ⟨h2, _⟩⟩
      · exact h2
      · omega
      · omega
  · rintro ⟨hm, ⟨hid, h1⟩, h2⟩
    constructor
    · apply h.mem_pre ((mem_mkEvents_nodeOpen d nodes segs m).2 hm)
      rw [evLe_false_iff]
      simp only [Ev.pos, Ev.rank]
      rcases h1 with h1 | ⟨h1, h1'⟩
      · exact Or.inl h1
      · exact Or.inr ⟨h1.symm, Or.inr ⟨trivial, h1'⟩⟩
    · apply h.not_mem_pre
      rw [evLe_false_iff]
      exact Or.inl h2

theorem openSegs_at_open (h : Split d tb nodes segs pre (.nodeOpen n) post) (hi : Inv pre st)
    (s : Seg) : s ∈ st.openSegs ↔ s ∈ openSegsAtOpen d (n.r.lo (conj d)) segs := by
  rw [hi.2 s]
  simp only [openSegsAtOpen, List.mem_filter, Bool.and_eq_true, decide_eq_true_eq]
  constructor
  · rintro ⟨ho, hc⟩
    have hs := (mem_mkEvents_segOpen d nodes segs s).1 (h.mem_pre_sub ho)
    have h1 := h.le_of_mem_pre ho
    have h2 := h.le_of_not_mem_pre ((mem_mkEvents_segClose d nodes segs s).2 hs) hc
    rw [evLe_iff] at h1 h2
    simp only [Ev.pos, Ev.rank] at h1 h2
    refine ⟨hs.1, ?_, ?_⟩
    · rcases h1 with h1 | ⟨h1, _⟩
      · exact le_of_lt h1
      · exact le_of_eq h1
    · rcases h2 with h2 | ⟨_, h2 | ⟨h2, _⟩⟩
      · exact h2
      · omega
      · omega
  · rintro ⟨hs, h1, h2⟩
    have hp : s.parallel d = false := by
      cases hp : s.parallel d
      · rfl
      · have := seg_lo_eq_hi_of_parallel s d hp
        linarith
    constructor
    · apply h.mem_pre ((mem_mkEvents_segOpen d nodes segs s).2 ⟨hs, hp⟩)
      rw [evLe_false_iff]
      simp only [Ev.pos, Ev.rank]
      rcases lt_or_eq_of_le h1 with h1 | h1
      · exact Or.inl h1
      · exact Or.inr ⟨h1.symm, Or.inl (by omega)⟩
    · apply h.not_mem_pre
      rw [evLe_false_iff]
      exact Or.inl h2

theorem openNodes_at_close (sc : Scene d tb nodes segs)
    (h : Split d tb nodes segs pre (.nodeClose n) post) (hi : Inv pre st) (m : Node) :
    m ∈ (st.openNodes.filter fun m => m.id != n.id) ↔ m ∈ openNodesAtClose d (bCof tb) n nodes := by
  have hn : n ∈ nodes := (mem_mkEvents_nodeClose d nodes segs n).1 h.ev_mem
  rw [List.mem_filter, hi.1 m]
  simp only [openNodesAtClose, List.mem_filter, bCof, Bool.and_eq_true, Bool.or_eq_true,
    decide_eq_true_eq, bne_iff_ne, ne_eq]
  constructor
  · rintro ⟨⟨ho, hc⟩, hid⟩
    have hm : m ∈ nodes := (mem_mkEvents_nodeOpen d nodes segs m).1 (h.mem_pre_sub ho)
    have h1 := h.le_of_mem_pre ho
    have h2 := h.le_of_not_mem_pre ((mem_mkEvents_nodeClose d nodes segs m).2 hm) hc
    rw [evLe_iff] at h1 h2
    simp only [Ev.pos, Ev.rank] at h1 h2
    have ht := sc.htbC m hm n hn hid
    refine ⟨hm, ⟨hid, ?_⟩, ?_⟩
    · rcases h1 with h1 | ⟨_, h1 | ⟨h1, _⟩⟩
      · exact h1
      · omega
      · omega
    · rcases h2 with h2 | ⟨h2, h2' | ⟨_, h2'⟩⟩
      · exact Or.inl h2
      · omega
      · exact Or.inr ⟨h2.symm, by omega⟩
  · rintro ⟨hm, ⟨hid, h1⟩, h2⟩
    refine ⟨⟨?_, ?_⟩, hid⟩
    · apply h.mem_pre ((mem_mkEvents_nodeOpen d nodes segs m).2 hm)
      rw [evLe_false_iff]
      exact Or.inl h1
    · apply h.not_mem_pre
      rw [evLe_false_iff]
      simp only [Ev.pos, Ev.rank]
      rcases h2 with h2 | ⟨h2, h2'⟩
      · exact Or.inl h2
      · exact Or.inr ⟨h2, Or.inr ⟨trivial, h2'⟩⟩

theorem openSegs_at_close (h : Split d tb nodes segs pre (.nodeClose n) post) (hi : Inv pre st)
    (s : Seg) : s ∈ st.openSegs ↔ s ∈ openSegsAtClose d (n.r.hi (conj d)) segs := by
  rw [hi.2 s]
  simp only [openSegsAtClose, List.mem_filter, Bool.and_eq_true, decide_eq_true_eq]
  constructor
  · rintro ⟨ho, hc⟩
    have hs := (mem_mkEvents_segOpen d nodes segs s).1 (h.mem_pre_sub ho)
    have h1 := h.le_of_mem_pre ho
    have h2 := h.le_of_not_mem_pre ((mem_mkEvents_segClose d nodes segs s).2 hs) hc
    rw [evLe_iff] at h1 h2
    simp only [Ev.pos, Ev.rank] at h1 h2
    refine ⟨hs.1, ?_, ?_⟩
    · rcases h1 with h1 | ⟨_, h1 | ⟨h1, _⟩⟩
      · exact h1
      · omega
      · omega
    · rcases h2 with h2 | ⟨h2, _⟩
      · exact le_of_lt h2
      · exact le_of_eq h2
  · rintro ⟨hs, h1, h2⟩
    have hp : s.parallel d = false := by
      cases hp : s.parallel d
      · rfl
      · have := seg_lo_eq_hi_of_parallel s d hp
        linarith
    constructor
    · apply h.mem_pre ((mem_mkEvents_segOpen d nodes segs s).2 ⟨hs, hp⟩)
      rw [evLe_false_iff]
      exact Or.inl h1
    · apply h.not_mem_pre
      rw [evLe_false_iff]
      simp only [Ev.pos, Ev.rank]
      rcases lt_or_eq_of_le h2 with h2 | h2
      · exact Or.inl h2
      · exact Or.inr ⟨h2.symm, Or.inl (by omega)⟩

end atEvent

/-- `COLA_ASSERT(r.second)` of the `openNodes` map: two nodes that are open at the same time
    (their extents in the scan direction overlap) do not have the same centre in `d` -/
def UniqueKeys (d : Nat) (nodes : List Node) : Prop :=
  ∀ m ∈ nodes, ∀ n ∈ nodes, m.id ≠ n.id →
    m.r.lo (conj d) < n.r.hi (conj d) → n.r.lo (conj d) < m.r.hi (conj d) →
    m.r.centre d ≠ n.r.centre d

section main
variable {d : Nat} {tb : Ev → Nat} {nodes : List Node} {segs : List Seg}
  {pre post : List Ev} {n : Node} {st : ScanSt}

theorem keys_at_open (sc : Scene d tb nodes segs) (hk : UniqueKeys d nodes) (bO : Node → Node → Bool)
    (a b : Node) (ha : a ∈ openNodesAtOpen d bO n nodes) (hb : b ∈ openNodesAtOpen d bO n nodes)
    (hc : a.r.centre d = b.r.centre d) : a = b := by
  simp only [openNodesAtOpen, List.mem_filter, Bool.and_eq_true, Bool.or_eq_true,
    decide_eq_true_eq] at ha hb
  obtain ⟨ha, ⟨_, ha1⟩, ha2⟩ := ha
  obtain ⟨hb, ⟨_, hb1⟩, hb2⟩ := hb
  by_cases hab : a.id = b.id
  · exact eq_of_id_eq sc.hids ha hb hab
  · have ha1' : a.r.lo (conj d) ≤ n.r.lo (conj d) := by
      rcases ha1 with h | ⟨h, _⟩
      · exact le_of_lt h
      · exact le_of_eq h
    have hb1' : b.r.lo (conj d) ≤ n.r.lo (conj d) := by
      rcases hb1 with h | ⟨h, _⟩
      · exact le_of_lt h
      · exact le_of_eq h
    exact absurd hc (hk a ha b hb hab (lt_of_le_of_lt ha1' hb2) (lt_of_le_of_lt hb1' ha2))

theorem keys_at_close (sc : Scene d tb nodes segs) (hk : UniqueKeys d nodes) (bC : Node → Node → Bool)
    (a b : Node) (ha : a ∈ openNodesAtClose d bC n nodes) (hb : b ∈ openNodesAtClose d bC n nodes)
    (hc : a.r.centre d = b.r.centre d) : a = b := by
  simp only [openNodesAtClose, List.mem_filter, Bool.and_eq_true, Bool.or_eq_true,
    decide_eq_true_eq] at ha hb
  obtain ⟨ha, ⟨_, ha1⟩, ha2⟩ := ha
  obtain ⟨hb, ⟨_, hb1⟩, hb2⟩ := hb
  by_cases hab : a.id = b.id
  · exact eq_of_id_eq sc.hids ha hb hab
  · have ha2' : n.r.hi (conj d) ≤ a.r.hi (conj d) := by
      rcases ha2 with h | ⟨h, _⟩
      · exact le_of_lt h
      · exact le_of_eq h.symm
    have hb2' : n.r.hi (conj d) ≤ b.r.hi (conj d) := by
      rcases hb2 with h | ⟨h, _⟩
      · exact le_of_lt h
      · exact le_of_eq h.symm
    exact absurd hc (hk a ha b hb hab (lt_of_lt_of_le ha1 hb2') (lt_of_lt_of_le hb1 ha2'))

/-- what the NodeOpen event of `n` creates is `consAtOpen` -/
theorem evOut_open (sc : Scene d tb nodes segs) (hk : UniqueKeys d nodes)
    (h : Split d tb nodes segs pre (.nodeOpen n) post) (hi : Inv pre st) (x : Seg × SC) :
    x ∈ evOut d st (.nodeOpen n) ↔ x ∈ consAtOpen d (bOof tb) nodes segs n := by
  have hN := openNodes_at_open sc h hi
  have hS : ∀ a b, a ∈ st.openNodes → b ∈ st.openNodes → a.r.centre d = b.r.centre d → a = b :=
    fun a b ha hb => keys_at_open sc hk (bOof tb) a b ((hN a).1 ha) ((hN b).1 hb)
  simp only [evOut, consAtOpen]
  rw [leftNb_congr d n hN hS, rightNb_congr d n hN hS]
  exact nodeEventCons_congr d n _ _ _ (openSegs_at_open h hi) x

/-- what the NodeClose event of `n` creates is `consAtClose` -/
theorem evOut_close (sc : Scene d tb nodes segs) (hk : UniqueKeys d nodes)
    (h : Split d tb nodes segs pre (.nodeClose n) post) (hi : Inv pre st) (x : Seg × SC) :
    x ∈ evOut d st (.nodeClose n) ↔ x ∈ consAtClose d (bCof tb) nodes segs n := by
  have hN := openNodes_at_close sc h hi
  have hS : ∀ a b, a ∈ (st.openNodes.filter fun m => m.id != n.id) →
      b ∈ (st.openNodes.filter fun m => m.id != n.id) → a.r.centre d = b.r.centre d → a = b :=
    fun a b ha hb => keys_at_close sc hk (bCof tb) a b ((hN a).1 ha) ((hN b).1 hb)
  simp only [evOut, consAtClose]
  rw [leftNb_congr d n hN hS, rightNb_congr d n hN hS]
  exact nodeEventCons_congr d n _ _ _ (openSegs_at_close h hi) x

theorem scan_mem_iff_scene (sc : Scene d tb nodes segs) (hk : UniqueKeys d nodes) (x : Seg × SC) :
    x ∈ (scan d tb nodes segs).out ↔ x ∈ consClosed d (bOof tb) (bCof tb) nodes segs := by
  unfold scan
  rw [foldl_out_mem]
  simp only [consClosed, List.mem_flatMap, List.mem_append]
  constructor
  · rintro (h | ⟨p, e, q, hL, hx⟩)
    · cases h
    · have hsp : Split d tb nodes segs p e q := hL
      have hi := inv_of_split sc.toScene0 hsp
      cases e with
      | nodeOpen n =>
        exact ⟨n, (mem_mkEvents_nodeOpen d nodes segs n).1 hsp.ev_mem,
          Or.inl ((evOut_open sc hk hsp hi x).1 hx)⟩
      | nodeClose n =>
        exact ⟨n, (mem_mkEvents_nodeClose d nodes segs n).1 hsp.ev_mem,
          Or.inr ((evOut_close sc hk hsp hi x).1 hx)⟩
      | segOpen s => cases hx
      | segClose s => cases hx
  · rintro ⟨n, hn, hx | hx⟩
    · have hmem : Ev.nodeOpen n ∈ sortEvents d tb (mkEvents d nodes segs) :=
        List.mem_mergeSort.2 ((mem_mkEvents_nodeOpen d nodes segs n).2 hn)
      obtain ⟨p, q, hL⟩ := List.append_of_mem hmem
      have hsp : Split d tb nodes segs p (.nodeOpen n) q := hL
      exact Or.inr ⟨p, _, q, hL, (evOut_open sc hk hsp (inv_of_split sc.toScene0 hsp) x).2 hx⟩
    · have hmem : Ev.nodeClose n ∈ sortEvents d tb (mkEvents d nodes segs) :=
        List.mem_mergeSort.2 ((mem_mkEvents_nodeClose d nodes segs n).2 hn)
      obtain ⟨p, q, hL⟩ := List.append_of_mem hmem
      have hsp : Split d tb nodes segs p (.nodeClose n) q := hL
      exact Or.inr ⟨p, _, q, hL, (evOut_close sc hk hsp (inv_of_split sc.toScene0 hsp) x).2 hx⟩

end main

/-- The scan creates exactly the constraints of the closed form.  `hkeys` is the constructor's
    `COLA_ASSERT(r.second)` on the `openNodes` map (keyed by the centre in `d`): nodes whose extents
    in the scan direction overlap have different centres. -/
theorem scan_mem_iff (d : Nat) (tb : Ev → Nat) (nodes : List Node) (segs : List Seg)
    (hids : nodes.Pairwise (fun a b => a.id ≠ b.id))
    (hsegs : segs.Pairwise (fun a b => ¬ (a.edge = b.edge ∧ a.idx = b.idx)))
    (hpos : ∀ n ∈ nodes, n.r.lo (conj d) < n.r.hi (conj d))
    (htbO : ∀ m ∈ nodes, ∀ n ∈ nodes, m.id ≠ n.id → tb (.nodeOpen m) ≠ tb (.nodeOpen n))
    (htbC : ∀ m ∈ nodes, ∀ n ∈ nodes, m.id ≠ n.id → tb (.nodeClose m) ≠ tb (.nodeClose n))
    (hkeys : ∀ m ∈ nodes, ∀ n ∈ nodes, m.id ≠ n.id →
      m.r.lo (conj d) < n.r.hi (conj d) → n.r.lo (conj d) < m.r.hi (conj d) →
      m.r.centre d ≠ n.r.centre d)
    (x : Seg × SC) :
    x ∈ (scan d tb nodes segs).out ↔ x ∈ consClosed d (bOof tb) (bCof tb) nodes segs :=
  scan_mem_iff_scene ⟨⟨hids, hsegs, hpos⟩, htbO, htbC⟩ hkeys x


/-! ### the end of the scan: `COLA_ASSERT(openSegments.empty())`, `COLA_ASSERT(openNodes.empty())` -/

theorem inv_final {d : Nat} {nodes : List Node} {segs : List Seg} (tb : Ev → Nat)
    (sc : Scene0 d nodes segs) :
    Inv (sortEvents d tb (mkEvents d nodes segs)) (scan d tb nodes segs) := by
  have := inv_prefix (tb := tb) sc (sortEvents d tb (mkEvents d nodes segs)) [] {} [] inv_nil (by simp)
  simpa [scan] using this

theorem scan_openNodes_empty (d : Nat) (tb : Ev → Nat) (nodes : List Node) (segs : List Seg)
    (hids : nodes.Pairwise (fun a b => a.id ≠ b.id))
    (hsegs : segs.Pairwise (fun a b => ¬ (a.edge = b.edge ∧ a.idx = b.idx)))
    (hpos : ∀ n ∈ nodes, n.r.lo (conj d) < n.r.hi (conj d)) :
    (scan d tb nodes segs).openNodes = [] := by
  have hi := inv_final tb (⟨hids, hsegs, hpos⟩ : Scene0 d nodes segs)
  rw [List.eq_nil_iff_forall_not_mem]
  intro m hm
  obtain ⟨ho, hc⟩ := (hi.1 m).1 hm
  unfold sortEvents at ho hc
  rw [List.mem_mergeSort] at ho hc
  exact hc ((mem_mkEvents_nodeClose d nodes segs m).2 ((mem_mkEvents_nodeOpen d nodes segs m).1 ho))

theorem scan_openSegs_empty (d : Nat) (tb : Ev → Nat) (nodes : List Node) (segs : List Seg)
    (hids : nodes.Pairwise (fun a b => a.id ≠ b.id))
    (hsegs : segs.Pairwise (fun a b => ¬ (a.edge = b.edge ∧ a.idx = b.idx)))
    (hpos : ∀ n ∈ nodes, n.r.lo (conj d) < n.r.hi (conj d)) :
    (scan d tb nodes segs).openSegs = [] := by
  have hi := inv_final tb (⟨hids, hsegs, hpos⟩ : Scene0 d nodes segs)
  rw [List.eq_nil_iff_forall_not_mem]
  intro s hs
  obtain ⟨ho, hc⟩ := (hi.2 s).1 hs
  unfold sortEvents at ho hc
  rw [List.mem_mergeSort] at ho hc
  exact hc ((mem_mkEvents_segClose d nodes segs s).2 ((mem_mkEvents_segOpen d nodes segs s).1 ho))

/-! ### `dupKey`: the hypothesis `UniqueKeys` is exactly the assertion on the `openNodes` map -/

/-- what `step` ors into `dupKey` -/
def evDup (d : Nat) (st : ScanSt) : Ev → Bool
  | .nodeOpen n => st.openNodes.any (fun m => decide (m.r.centre d = n.r.centre d))
  | _ => false

theorem step_dupKey (d : Nat) (st : ScanSt) (ev : Ev) :
    (step d st ev).dupKey = (st.dupKey || evDup d st ev) := by
  cases ev <;> simp [step, evDup]

theorem foldl_dupKey (d : Nat) : ∀ (l : List Ev) (st : ScanSt),
    (l.foldl (step d) st).dupKey = true ↔
      st.dupKey = true ∨ ∃ p e q, l = p ++ e :: q ∧ evDup d (p.foldl (step d) st) e = true := by
  intro l
  induction l with
  | nil => intro st; simp
  | cons a l ih =>
    intro st
    rw [List.foldl_cons, ih, step_dupKey, Bool.or_eq_true]
    constructor
    · rintro ((h | h) | ⟨p, e, q, rfl, h⟩)
      · exact Or.inl h
      · exact Or.inr ⟨[], a, l, rfl, h⟩
      · exact Or.inr ⟨a :: p, e, q, rfl, h⟩
    · rintro (h | ⟨p, e, q, hl, h⟩)
      · exact Or.inl (Or.inl h)
      · cases p with
        | nil =>
          simp only [List.nil_append, List.cons.injEq] at hl
          obtain ⟨rfl, rfl⟩ := hl
          exact Or.inl (Or.inr h)
        | cons b p =>
          simp only [List.cons_append, List.cons.injEq] at hl
          obtain ⟨rfl, rfl⟩ := hl
          exact Or.inr ⟨p, e, q, rfl, h⟩

section dup
variable {d : Nat} {tb : Ev → Nat} {nodes : List Node} {segs : List Seg}

/-- a node open when `n` opens, with `n`'s centre, fires the assertion -/
theorem dupKey_of_open (sc : Scene d tb nodes segs) {m n : Node} (hn : n ∈ nodes)
    (hm : m ∈ openNodesAtOpen d (bOof tb) n nodes) (hc : m.r.centre d = n.r.centre d) :
    (scan d tb nodes segs).dupKey = true := by
  have hmem : Ev.nodeOpen n ∈ sortEvents d tb (mkEvents d nodes segs) :=
    List.mem_mergeSort.2 ((mem_mkEvents_nodeOpen d nodes segs n).2 hn)
  obtain ⟨p, q, hL⟩ := List.append_of_mem hmem
  have hsp : Split d tb nodes segs p (.nodeOpen n) q := hL
  have hi := inv_of_split sc.toScene0 hsp
  unfold scan
  rw [foldl_dupKey]
  refine Or.inr ⟨p, _, q, hL, ?_⟩
  simp only [evDup, List.any_eq_true, decide_eq_true_eq]
  exact ⟨m, (openNodes_at_open sc hsp hi m).2 hm, hc⟩

/-- under the other hypotheses, the constructor's assertion on the `openNodes` map holds during
    the scan iff nodes with overlapping extents in the scan direction have different centres -/
theorem scan_dupKey_false_iff (sc : Scene d tb nodes segs) :
    (scan d tb nodes segs).dupKey = false ↔ UniqueKeys d nodes := by
  constructor
  · intro hd m hm n hn hid h1 h2 hc
    have ht := sc.htbO m hm n hn hid
    have key : m ∈ openNodesAtOpen d (bOof tb) n nodes ∨ n ∈ openNodesAtOpen d (bOof tb) m nodes := by
      simp only [openNodesAtOpen, List.mem_filter, bOof, Bool.and_eq_true, Bool.or_eq_true,
        decide_eq_true_eq, bne_iff_ne, ne_eq]
      rcases lt_trichotomy (m.r.lo (conj d)) (n.r.lo (conj d)) with h | h | h
      · exact Or.inl ⟨hm, ⟨hid, Or.inl h⟩, h2⟩
      · rcases Nat.lt_or_gt_of_ne ht with t | t
        · exact Or.inl ⟨hm, ⟨hid, Or.inr ⟨h, t⟩⟩, h2⟩
        · exact Or.inr ⟨hn, ⟨fun e => hid e.symm, Or.inr ⟨h.symm, t⟩⟩, h1⟩
      · exact Or.inr ⟨hn, ⟨fun e => hid e.symm, Or.inl h⟩, h1⟩
    rcases key with k | k
    · rw [dupKey_of_open sc hn k hc] at hd; cases hd
    · rw [dupKey_of_open sc hm k hc.symm] at hd; cases hd
  · intro hk
    rw [← Bool.not_eq_true]
    intro hd
    unfold scan at hd
    rw [foldl_dupKey] at hd
    rcases hd with hd | ⟨p, e, q, hL, hd⟩
    · cases hd
    · have hsp : Split d tb nodes segs p e q := hL
      have hi := inv_of_split sc.toScene0 hsp
      cases e with
      | nodeOpen n =>
        have hn : n ∈ nodes := (mem_mkEvents_nodeOpen d nodes segs n).1 hsp.ev_mem
        simp only [evDup, List.any_eq_true, decide_eq_true_eq] at hd
        obtain ⟨m, hm, hc⟩ := hd
        have hm' := (openNodes_at_open sc hsp hi m).1 hm
        simp only [openNodesAtOpen, List.mem_filter, Bool.and_eq_true, Bool.or_eq_true,
          decide_eq_true_eq, bne_iff_ne, ne_eq] at hm'
        obtain ⟨hmn, ⟨hid, h1⟩, h2⟩ := hm'
        have h1' : m.r.lo (conj d) ≤ n.r.lo (conj d) := by
          rcases h1 with h | ⟨h, _⟩
          · exact le_of_lt h
          · exact le_of_eq h
        exact hk m hmn n hn hid (lt_of_le_of_lt h1' (sc.hpos n hn)) h2 hc
      | nodeClose n => cases hd
      | segOpen s => cases hd
      | segClose s => cases hd

end dup

/-- `scan_mem_iff` with the hypothesis on the keys in the form the C++ has it: the scan itself did
    not hit `COLA_ASSERT(r.second)` -/
theorem scan_mem_iff_of_not_dupKey (d : Nat) (tb : Ev → Nat) (nodes : List Node) (segs : List Seg)
    (hids : nodes.Pairwise (fun a b => a.id ≠ b.id))
    (hsegs : segs.Pairwise (fun a b => ¬ (a.edge = b.edge ∧ a.idx = b.idx)))
    (hpos : ∀ n ∈ nodes, n.r.lo (conj d) < n.r.hi (conj d))
    (htbO : ∀ m ∈ nodes, ∀ n ∈ nodes, m.id ≠ n.id → tb (.nodeOpen m) ≠ tb (.nodeOpen n))
    (htbC : ∀ m ∈ nodes, ∀ n ∈ nodes, m.id ≠ n.id → tb (.nodeClose m) ≠ tb (.nodeClose n))
    (hdup : (scan d tb nodes segs).dupKey = false)
    (x : Seg × SC) :
    x ∈ (scan d tb nodes segs).out ↔ x ∈ consClosed d (bOof tb) (bCof tb) nodes segs :=
  have sc : Scene d tb nodes segs := ⟨⟨hids, hsegs, hpos⟩, htbO, htbC⟩
  scan_mem_iff_scene sc ((scan_dupKey_false_iff sc).1 hdup) x

end AdaptaVerif.Lemmas.TopoConsScan
