/-
C19 — the root clauses of `PeelSpec` for the executable model `peel`, the unconditional
bundle `peel_spec_full`, and the tree-input theorem. Core Lean only.
-/
import AdaptaVerif.Lemmas.PeelModel2
import AdaptaVerif.Lemmas.PeelRoot

namespace AdaptaVerif.Lemmas.PeelModel
open AdaptaVerif.Spec.UGraph AdaptaVerif.Model.Peel AdaptaVerif.Lemmas.PeelDefs
open AdaptaVerif.Lemmas.PeelComps
open AdaptaVerif.Spec.GraphParts (SameEdge HasEdge ExactlyOne PeelSpec)

/-! ### E1. further round invariants -/

structure Inv2 (ns : List Nat) (es : List (Nat × Nat)) (s : PState) : Prop where
  /-- B7: a stem root stays in the graph or is removed later as a leaf (unless the graph
      became empty) -/
  root_fate : ∀ l r, (l, r) ∈ s.stems → r ∈ s.nodes ∨ r ∈ leafList s.stems ∨ s.nodes = []
  /-- B8 (graph non-empty): every removed node is the leaf of a stem -/
  cover_leaf : s.nodes ≠ [] → ∀ v, v ∈ ns → v ∈ s.nodes ∨ v ∈ leafList s.stems
  /-- B8 (graph empty): exactly one node is not the leaf of a stem -/
  cover_empty : s.nodes = [] → ns ≠ [] →
    ∃ x, x ∉ leafList s.stems ∧ ∀ v, v ∈ ns → v ∈ leafList s.stems ∨ v = x

theorem inv2_init (ns : List Nat) (es : List (Nat × Nat)) : Inv2 ns es ⟨ns, es, []⟩ where
  root_fate := fun _ _ h => nomatch h
  cover_leaf := fun _ _ hv => Or.inl hv
  cover_empty := fun h hne => absurd h hne

/-- what happens to a node of the graph in a round -/
theorem node_fate {s s' : PState} (h : round s = some s') {v : Nat} (hv : v ∈ s.nodes) :
    v ∈ s'.nodes ∨ v ∈ kept s ∨ s'.nodes = [] := by
  obtain ⟨_, hn', _, _⟩ := round_eq h
  by_cases hvl : v ∈ leavesOf s.nodes s.edges
  · cases kept_cases s with
    | inl hk => exact Or.inr (Or.inl (hk ▸ hvl))
    | inr hk => exact Or.inr (Or.inr (hn' ▸ hk.1))
  · exact Or.inl (hn' ▸ mem_nodes_filter.2 ⟨hv, hvl⟩)

theorem round_leafList {s s' : PState} (h : round s = some s') :
    leafList s'.stems = leafList s.stems ++ kept s := by
  obtain ⟨_, _, _, hst'⟩ := round_eq h
  rw [hst', leafList_append, leafList_map_stemOf]

theorem inv2_round {ns : List Nat} {es : List (Nat × Nat)} {s s' : PState} (hs : Simple ns es)
    (h : round s = some s') (hinv : Inv ns es s) (hinv2 : Inv2 ns es s) : Inv2 ns es s' := by
  obtain ⟨hne, hn', _, hst'⟩ := round_eq h
  have hwf := hinv.wf hs
  have hll := round_leafList h
  have hsne : s.nodes ≠ [] := by
    obtain ⟨x, hx⟩ := List.exists_mem_of_ne_nil _ hne
    exact List.ne_nil_of_mem (mem_leavesOf.1 hx).1
  -- fate of a node of `s.nodes` in terms of the new state
  have fate : ∀ v, v ∈ s.nodes → v ∈ s'.nodes ∨ v ∈ leafList s'.stems ∨ s'.nodes = [] := by
    intro v hv
    rcases node_fate h hv with h1 | h1 | h1
    · exact Or.inl h1
    · exact Or.inr (Or.inl (hll ▸ List.mem_append_right _ h1))
    · exact Or.inr (Or.inr h1)
  have old_leaf : ∀ v, v ∈ leafList s.stems → v ∈ leafList s'.stems :=
    fun v hv => hll ▸ List.mem_append_left _ hv
  refine ⟨?_, ?_, ?_⟩
  · intro l r hlr
    rw [hst'] at hlr
    cases List.mem_append.1 hlr with
    | inl hm =>
      rcases hinv2.root_fate l r hm with h1 | h1 | h1
      · exact fate r h1
      · exact Or.inr (Or.inl (old_leaf r h1))
      · exact absurd h1 hsne
    | inr hm =>
      obtain ⟨_, _, ha⟩ := new_stem_spec hm
      exact fate r (adj_wf hwf ha).2.1
  · intro hne' v hv
    cases hinv2.cover_leaf hsne v hv with
    | inl h1 =>
      rcases fate v h1 with h2 | h2 | h2
      · exact Or.inl h2
      · exact Or.inr h2
      · exact absurd h2 hne'
    | inr h1 => exact Or.inr (old_leaf v h1)
  · intro hnil _
    have hnil' : s.nodes.filter (fun v => !(leavesOf s.nodes s.edges).contains v) = [] :=
      hn' ▸ hnil
    obtain ⟨c, hc⟩ := kept_of_empty hnil' hne
    have hnd : (kept s ++ [c]).Nodup := hc ▸ List.filter_sublist.nodup hwf.1
    have hcl : c ∈ leavesOf s.nodes s.edges := by
      rw [hc]; exact List.mem_append_right _ (List.mem_singleton.2 rfl)
    refine ⟨c, ?_, ?_⟩
    · rw [hll]
      intro hm
      cases List.mem_append.1 hm with
      | inl h1 =>
        obtain ⟨r, hr⟩ := mem_leafList.1 h1
        exact (hinv.stem_ok c r hr).2 (mem_leavesOf.1 hcl).1
      | inr h1 => exact (List.nodup_append.1 hnd).2.2 c h1 c (List.mem_singleton.2 rfl) rfl
    · intro v hv
      cases hinv2.cover_leaf hsne v hv with
      | inl h1 =>
        have hvl : v ∈ leavesOf s.nodes s.edges := by
          apply Classical.byContradiction
          intro hnot
          have : v ∈ s.nodes.filter (fun v => !(leavesOf s.nodes s.edges).contains v) :=
            mem_nodes_filter.2 ⟨h1, hnot⟩
          rw [hnil'] at this
          cases this
        rw [hc] at hvl
        cases List.mem_append.1 hvl with
        | inl h2 => exact Or.inl (hll ▸ List.mem_append_right _ h2)
        | inr h2 => exact Or.inr (List.mem_singleton.1 h2)
      | inr h1 => exact Or.inl (old_leaf v h1)

/-- B7, B8 at loop exit -/
theorem rounds_final2 {ns : List Nat} {es : List (Nat × Nat)} (hs : Simple ns es) {f : Nat}
    {s : PState} (h : rounds f ⟨ns, es, []⟩ = some s) : Inv2 ns es s :=
  (rounds_inv (fun s => Inv ns es s ∧ Inv2 ns es s)
    (fun _ _ hr hi => ⟨inv_round hs hr hi.1, inv2_round hs hr hi.1 hi.2⟩) f _ _ h
    ⟨inv_init hs, inv2_init ns es⟩).1.2

/-! ### E2. the root clauses -/

section
variable {ns : List Nat} {es : List (Nat × Nat)} {s : PState} {cs : List Comp}

/-- a node still in the graph is not a stem leaf -/
theorem Inv.not_leaf (hinv : Inv ns es s) {v : Nat} (hv : v ∈ s.nodes) :
    v ∉ leafList s.stems := by
  intro hm
  obtain ⟨r, hr⟩ := mem_leafList.1 hm
  exact (hinv.stem_ok v r hr).2 hv

/-- with a non-empty core, a node of H that is not a stem leaf is a core node -/
theorem nonleaf_in_core (hinv2 : Inv2 ns es s) (hne : s.nodes ≠ []) {v : Nat}
    (hv : v ∈ hNodes s.stems) (hnl : v ∉ leafList s.stems) : v ∈ s.nodes := by
  obtain ⟨⟨l, r⟩, hst, hor⟩ := mem_hNodes.1 hv
  cases hor with
  | inl e => exact absurd (mem_leafList.2 ⟨r, e ▸ hst⟩) hnl
  | inr e =>
    have e' : v = r := e
    subst e'
    rcases hinv2.root_fate l v hst with h1 | h1 | h1
    · exact h1
    · exact absurd h1 hnl
    · exact absurd h1 hne

end

theorem peel_root_mem {ns : List Nat} {es : List (Nat × Nat)} {out : PeelOut}
    (hs : Simple ns es) (hc : Connected ns es) (h : peel ns es = some out) :
    ∀ t, t ∈ out.trees → t.root ∈ t.nodes := by
  obtain ⟨s, cs, hr, hcs, htrees, _, _, _⟩ := peel_eq h
  have hrk : Ranked s.stems := rounds_ranked hs hc hr
  intro t ht
  rw [htrees] at ht
  obtain ⟨c, hcm, rfl⟩ := List.mem_map.1 ht
  exact (AdaptaVerif.Lemmas.PeelRoot.identifyRoot_spec hrk hcs c hcm).1

theorem peel_shared {ns : List Nat} {es : List (Nat × Nat)} {out : PeelOut}
    (hs : Simple ns es) (hc : Connected ns es) (h : peel ns es = some out) :
    out.coreNodes ≠ [] → ∀ t, t ∈ out.trees → ∀ v, v ∈ t.nodes →
      (v ∈ out.coreNodes ↔ v = t.root) := by
  obtain ⟨s, cs, hr, hcs, htrees, hn, _, _⟩ := peel_eq h
  have hrk : Ranked s.stems := rounds_ranked hs hc hr
  obtain ⟨hinv, _⟩ := rounds_final hs hr
  have hinv2 := rounds_final2 hs hr
  intro hne t ht v hv
  rw [hn] at hne ⊢
  rw [htrees] at ht
  obtain ⟨c, hcm, rfl⟩ := List.mem_map.1 ht
  obtain ⟨r1, r2, r3⟩ := AdaptaVerif.Lemmas.PeelRoot.identifyRoot_spec hrk hcs c hcm
  constructor
  · intro hvn
    exact r3 v hv (hinv.not_leaf hvn)
  · intro e
    have e' : v = identifyRoot (assignSerials s.stems) (sortNat c.nodes) := e
    rw [e']
    exact nonleaf_in_core hinv2 hne
      (mem_sortNat.1 (comps_subset hcs (hEdges_endpoints _) c hcm _ r1)) r2

/-! ### E3. the unconditional bundle -/

theorem peel_spec_full {ns : List Nat} {es : List (Nat × Nat)} {out : PeelOut}
    (hs : Simple ns es) (hc : Connected ns es) (h : peel ns es = some out) :
    PeelSpec ns es out.trees out.coreNodes out.coreEdges :=
  peel_spec hs hc h (peel_root_mem hs hc h) (peel_shared hs hc h)

/-! ### E4. a tree input peels away into one tree -/

/-- the remaining graph is simple -/
theorem Inv.core_simple {ns : List Nat} {es : List (Nat × Nat)} {s : PState}
    (hs : Simple ns es) (hinv : Inv ns es s) : Simple s.nodes s.edges := by
  have hwf := hinv.wf hs
  refine ⟨hwf.1, hwf.2, hinv.edges_sublist.nodup hs.2.2.1, ?_⟩
  intro u v h1 h2
  exact hs.2.2.2 u v (hinv.mem_edges.1 h1).1 (hinv.mem_edges.1 h2).1

theorem exactlyOne_exists {α : Type} {l : List α} {P : α → Prop} (h : ExactlyOne l P) :
    ∃ a, a ∈ l ∧ P a := by
  obtain ⟨l1, a, l2, hl, hp, _, _⟩ := h
  exact ⟨a, by rw [hl]; exact List.mem_append_right _ List.mem_cons_self, hp⟩

theorem exists_ne_of_two {l : List Nat} (hnd : l.Nodup) (h2 : 2 ≤ l.length) (c : Nat) :
    ∃ v, v ∈ l ∧ v ≠ c := by
  match l, hnd, h2 with
  | a :: b :: rest, hnd, _ =>
    by_cases ha : a = c
    · refine ⟨b, List.mem_cons_of_mem _ List.mem_cons_self, ?_⟩
      intro hb
      have : a ∉ b :: rest := (List.nodup_cons.1 hnd).1
      exact this (by rw [ha, ← hb]; exact List.mem_cons_self)
    · exact ⟨a, List.mem_cons_self, ha⟩

theorem eq_of_mem_length_le_one {l : List Nat} (h : l.length ≤ 1) {a b : Nat} (ha : a ∈ l)
    (hb : b ∈ l) : a = b := by
  match l, h with
  | [], _ => cases ha
  | [c], _ => exact (List.mem_singleton.1 ha).trans (List.mem_singleton.1 hb).symm
  | _ :: _ :: _, h => simp only [List.length_cons] at h; omega

theorem peel_tree_input {ns : List Nat} {es : List (Nat × Nat)} {out : PeelOut}
    (hleaf : ∀ (ns' : List Nat) (es' : List (Nat × Nat)), Simple ns' es' → Connected ns' es' →
      Acyclic es' → NoDegreeOne ns' es' → ns'.length ≤ 1)
    (hs : Simple ns es) (ht : IsTree ns es) (h2 : 2 ≤ ns.length) (h : peel ns es = some out) :
    out.coreNodes.length ≤ 1 ∧ out.coreEdges = [] ∧
      ∃ t, out.trees = [t] ∧ (∀ v, v ∈ ns → v ∈ t.nodes) ∧ (∀ e, e ∈ es → HasEdge t.edges e) := by
  obtain ⟨hnn, hc, hac⟩ := ht
  have spec := peel_spec_full hs hc h
  obtain ⟨s, cs, hr, hcs, htrees, hn, he, _⟩ := peel_eq h
  obtain ⟨hinv, hl⟩ := rounds_final hs hr
  have hinv2 := rounds_final2 hs hr
  obtain ⟨hcon, hrk⟩ := rounds_final_connected hs hc hr
  have hE := hEdges_endpoints s.stems
  -- the core has at most one node, hence no edge
  have hlen : s.nodes.length ≤ 1 :=
    hleaf s.nodes s.edges (hinv.core_simple hs) hcon
      (Acyclic.mono (fun _ he' => (hinv.mem_edges.1 he').1) hac) (noDegreeOne_of_leaves_nil hl)
  have hedges : s.edges = [] := by
    apply List.eq_nil_iff_forall_not_mem.2
    intro e hem
    obtain ⟨m1, m2, m3⟩ := (hinv.wf hs).2 e hem
    match hsn : s.nodes, hlen with
    | [], _ => rw [hsn] at m1; cases m1
    | [c0], _ =>
      rw [hsn] at m1 m2
      exact m3 ((List.mem_singleton.1 m1).trans (List.mem_singleton.1 m2).symm)
    | _ :: _ :: _, hl2 => simp only [List.length_cons] at hl2; omega
  -- some node lies in every component
  have hx : ∃ x, ∀ c, c ∈ cs → x ∈ c.nodes := by
    by_cases hne : s.nodes = []
    · obtain ⟨x, _, hxall⟩ := hinv2.cover_empty hne hnn
      refine ⟨x, fun c hcm => ?_⟩
      obtain ⟨r1, r2, _⟩ := AdaptaVerif.Lemmas.PeelRoot.identifyRoot_spec hrk hcs c hcm
      have hrns : identifyRoot (assignSerials s.stems) (sortNat c.nodes) ∈ ns := by
        have := mem_sortNat.1 (comps_subset hcs hE c hcm _ r1)
        obtain ⟨⟨l, r⟩, hst, hor⟩ := mem_hNodes.1 this
        obtain ⟨_, _, a1, a2, _⟩ := hinv.stem_mem hs hst
        cases hor with
        | inl e => exact e ▸ a1
        | inr e => exact e ▸ a2
      cases hxall _ hrns with
      | inl h1 => exact absurd h1 r2
      | inr h1 => exact h1 ▸ r1
    · match hsn : s.nodes, hlen with
      | [], _ => exact absurd hsn hne
      | [c0], _ =>
        refine ⟨c0, fun c hcm => ?_⟩
        obtain ⟨r1, r2, _⟩ := AdaptaVerif.Lemmas.PeelRoot.identifyRoot_spec hrk hcs c hcm
        have := nonleaf_in_core hinv2 hne
          (mem_sortNat.1 (comps_subset hcs hE c hcm _ r1)) r2
        rw [hsn] at this
        exact (List.mem_singleton.1 this) ▸ r1
      | _ :: _ :: _, hl2 => simp only [List.length_cons] at hl2; omega
  -- some node is outside the core, so there is a tree
  have hy : ∃ v, v ∈ ns ∧ v ∉ s.nodes := by
    match hsn : s.nodes, hlen with
    | [], _ =>
      obtain ⟨v, hv⟩ := List.exists_mem_of_ne_nil _ hnn
      exact ⟨v, hv, fun hm => nomatch hm⟩
    | [c0], _ =>
      obtain ⟨v, hv, hvc⟩ := exists_ne_of_two hs.1 h2 c0
      exact ⟨v, hv, fun hm => hvc (List.mem_singleton.1 hm)⟩
    | _ :: _ :: _, hl2 => simp only [List.length_cons] at hl2; omega
  obtain ⟨x, hxall⟩ := hx
  obtain ⟨y, hyns, hycore⟩ := hy
  have hcs1 : ∃ c, cs = [c] := by
    match hcseq : cs with
    | [] =>
      exfalso
      cases spec.node_cover y hyns with
      | inl h1 => exact hycore (hn ▸ h1)
      | inr h1 =>
        obtain ⟨t, htm, _⟩ := exactlyOne_exists h1
        rw [htrees] at htm
        cases htm
    | [c] => exact ⟨c, rfl⟩
    | c1 :: c2 :: rest =>
      exfalso
      have hd := comps_disjoint hcs hE
      exact (List.pairwise_cons.1 hd).1 c2 (List.mem_cons_self) x
        (hxall c1 List.mem_cons_self) (hxall c2 (List.mem_cons_of_mem _ List.mem_cons_self))
  obtain ⟨c, hceq⟩ := hcs1
  rw [hceq] at htrees
  refine ⟨hn ▸ hlen, he ▸ hedges, _, htrees, ?_, ?_⟩
  · intro v hv
    cases spec.node_cover v hv with
    | inl h1 =>
      -- a core node is the root of the tree
      rw [hn] at h1
      have hne : s.nodes ≠ [] := List.ne_nil_of_mem h1
      have hcm : c ∈ cs := hceq ▸ List.mem_cons_self
      obtain ⟨r1, r2, _⟩ := AdaptaVerif.Lemmas.PeelRoot.identifyRoot_spec hrk hcs c hcm
      have hroot := nonleaf_in_core hinv2 hne
        (mem_sortNat.1 (comps_subset hcs hE c hcm _ r1)) r2
      have hv' : v = identifyRoot (assignSerials s.stems) (sortNat c.nodes) :=
        eq_of_mem_length_le_one hlen h1 hroot
      rw [hv']
      exact r1
    | inr h1 =>
      obtain ⟨t, htm, hvt⟩ := exactlyOne_exists h1
      rw [htrees] at htm
      rw [List.mem_singleton.1 htm] at hvt
      exact hvt
  · intro e hee
    obtain ⟨p, hpm, hp⟩ := exactlyOne_exists (spec.edge_once e hee)
    rw [htrees, he, hedges] at hpm
    cases List.mem_cons.1 hpm with
    | inl h1 =>
      rw [h1] at hp
      obtain ⟨_, hf, _⟩ := hp
      cases hf
    | inr h1 =>
      simp only [List.map_cons, List.map_nil, List.mem_singleton] at h1
      rw [h1] at hp
      exact hp

end AdaptaVerif.Lemmas.PeelModel
