/-
`posn = (AD − AB)/A2` (model: `blockPosn`, `refreshBlock`) is the stationarity of the block as a
whole: a block whose recorded position is the one `Block::updateWeightedPosition` computes from its
member list, and whose member list enumerates exactly the variables of the block, has
`Σ_{x ∈ block} 2·w_x·(pos_x − d_x)/s_x = 0`.
-/
import AdaptaVerif.Lemmas.VpscKktDfdv
namespace AdaptaVerif.Lemmas.VpscKktFresh
open AdaptaVerif.Model.Vpsc
open AdaptaVerif.Lemmas.VpscInv AdaptaVerif.Lemmas.VpscKkt AdaptaVerif.Lemmas.VpscKktOpt
open AdaptaVerif.Lemmas.VpscKktDfdv (listSum_indicator)
open AdaptaVerif.Spec.Qp (sumTo listSum)
open AdaptaVerif.Lemmas.Qp

theorem listSum_add {α : Type} (f g : α → Rat) (l : List α) :
    listSum (fun a => f a + g a) l = listSum f l + listSum g l := by
  induction l with
  | nil => simp [listSum]
  | cons a l ih => simp only [listSum, ih]; ring

theorem listSum_congr {α : Type} {f g : α → Rat} {l : List α} (h : ∀ a ∈ l, f a = g a) :
    listSum f l = listSum g l := by
  induction l with
  | nil => rfl
  | cons a l ih =>
    simp only [listSum]
    rw [h a List.mem_cons_self, ih (fun b hb => h b (List.mem_cons_of_mem _ hb))]

/-- the three accumulators of `PositionStats::addVariable` as list sums -/
theorem blockPosn_fold (vars : Array Var) (s : Rat) : ∀ (l : List Nat) (ab ad a2 : Rat),
    l.foldl (fun (acc : Rat × Rat × Rat) i =>
        (acc.1 + (vars[i]!).weight * (s / (vars[i]!).scale) * ((vars[i]!).offset / (vars[i]!).scale),
         acc.2.1 + (vars[i]!).weight * (s / (vars[i]!).scale) * (vars[i]!).desired,
         acc.2.2 + (vars[i]!).weight * (s / (vars[i]!).scale) * (s / (vars[i]!).scale))) (ab, ad, a2) =
      (ab + listSum (fun i => (vars[i]!).weight * (s / (vars[i]!).scale) * ((vars[i]!).offset / (vars[i]!).scale)) l,
       ad + listSum (fun i => (vars[i]!).weight * (s / (vars[i]!).scale) * (vars[i]!).desired) l,
       a2 + listSum (fun i => (vars[i]!).weight * (s / (vars[i]!).scale) * (s / (vars[i]!).scale)) l) := by
  intro l
  induction l with
  | nil => intro ab ad a2; simp [listSum]
  | cons i l ih =>
    intro ab ad a2
    simp only [List.foldl_cons, ih, listSum]
    refine Prod.ext ?_ (Prod.ext ?_ ?_) <;> simp only <;> ring

theorem blockPosn_eq (vars : Array Var) (members : Array Nat) :
    blockPosn vars members =
      ((vars[members[0]!]!).scale,
       (listSum (fun i => (vars[i]!).weight * ((vars[members[0]!]!).scale / (vars[i]!).scale) *
            (vars[i]!).desired) members.toList -
        listSum (fun i => (vars[i]!).weight * ((vars[members[0]!]!).scale / (vars[i]!).scale) *
            ((vars[i]!).offset / (vars[i]!).scale)) members.toList) /
        listSum (fun i => (vars[i]!).weight * ((vars[members[0]!]!).scale / (vars[i]!).scale) *
            ((vars[members[0]!]!).scale / (vars[i]!).scale)) members.toList) := by
  unfold blockPosn
  simp only [← Array.foldl_toList]
  have := blockPosn_fold vars (vars[members[0]!]!).scale members.toList 0 0 0
  simp only [zero_add] at this
  rw [this]

theorem listSum_lin {α : Type} (c p : Rat) (f g h : α → Rat) (l : List α) :
    listSum (fun a => c * (f a * p + g a - h a)) l =
      c * (p * listSum f l + listSum g l - listSum h l) := by
  induction l with
  | nil => simp [listSum]
  | cons a l ih => simp only [listSum, ih]; ring

/-- **`posn = (AD − AB)/A2` is the stationarity of the block**: if the record of block `b` holds the
    position computed from a member list that enumerates exactly the variables of the block, the
    `q`-sum of the block vanishes -/
theorem fresh_stationary (st : St) (b : Nat) (members : Array Nat)
    (hmem : ∀ x : Nat, x < st.vars.size → (x ∈ members ↔ blk st.vars x = b))
    (hlt : ∀ x ∈ members, x < st.vars.size) (hnd : members.toList.Nodup)
    (hB : ((st.blocks[b]!).scale, (st.blocks[b]!).posn) = blockPosn st.vars members)
    (hs : ∀ i : Nat, i < st.vars.size → (st.vars[i]!).scale ≠ 0)
    (hA2 : listSum (fun i => (st.vars[i]!).weight * ((st.vars[members[0]!]!).scale / (st.vars[i]!).scale) *
            ((st.vars[members[0]!]!).scale / (st.vars[i]!).scale)) members.toList ≠ 0) :
    blockSum st.vars (qOf st) b = 0 := by
  rw [blockPosn_eq] at hB
  simp only [Prod.mk.injEq] at hB
  obtain ⟨hS, hP⟩ := hB
  have hne : 0 < members.size := by
    rcases Nat.eq_zero_or_pos members.size with h0 | h0
    · exfalso; apply hA2
      have : members = #[] := Array.eq_empty_of_size_eq_zero h0
      subst this; simp [listSum]
    · exact h0
  have hS0 : (st.vars[members[0]!]!).scale ≠ 0 :=
    hs _ (hlt _ (by rw [getElem!_pos members 0 hne]; exact Array.getElem_mem hne))
  -- the block sum as a sum over the member list
  have h1 : blockSum st.vars (qOf st) b = listSum (qOf st) members.toList := by
    rw [listSum_indicator st.vars.size _ _ hnd (fun a ha => hlt a (by simpa using ha))]
    unfold blockSum
    apply sumTo_congr
    intro x hx
    by_cases hb : blk st.vars x = b
    · rw [if_pos hb, if_pos (by simpa using (hmem x hx).2 hb)]
    · rw [if_neg hb, if_neg (fun hm => hb ((hmem x hx).1 (by simpa using hm)))]
  rw [h1]
  -- each term in the (a, b, d) form of PositionStats
  have h2 : listSum (qOf st) members.toList =
      listSum (fun i => (2 / (st.vars[members[0]!]!).scale) *
        ((st.vars[i]!).weight * ((st.vars[members[0]!]!).scale / (st.vars[i]!).scale) *
            ((st.vars[members[0]!]!).scale / (st.vars[i]!).scale) * (st.blocks[b]!).posn +
         (st.vars[i]!).weight * ((st.vars[members[0]!]!).scale / (st.vars[i]!).scale) *
            ((st.vars[i]!).offset / (st.vars[i]!).scale) -
         (st.vars[i]!).weight * ((st.vars[members[0]!]!).scale / (st.vars[i]!).scale) *
            (st.vars[i]!).desired)) members.toList := by
    apply listSum_congr
    intro x hx
    have hxb : (st.vars[x]!).block = b := (hmem x (hlt x (by simpa using hx))).1 (by simpa using hx)
    have hsx := hs x (hlt x (by simpa using hx))
    simp only [qOf, St.dfdv, St.pos, posOf, hxb, hS]
    field_simp
    ring
  rw [h2, listSum_lin, hP]
  generalize listSum (fun i => (st.vars[i]!).weight * ((st.vars[members[0]!]!).scale / (st.vars[i]!).scale) *
            ((st.vars[members[0]!]!).scale / (st.vars[i]!).scale)) members.toList = A2 at hA2 ⊢
  generalize listSum (fun i => (st.vars[i]!).weight * ((st.vars[members[0]!]!).scale / (st.vars[i]!).scale) *
            (st.vars[i]!).desired) members.toList = AD
  generalize listSum (fun i => (st.vars[i]!).weight * ((st.vars[members[0]!]!).scale / (st.vars[i]!).scale) *
            ((st.vars[i]!).offset / (st.vars[i]!).scale)) members.toList = AB
  have : (AD - AB) / A2 * A2 = AD - AB := div_mul_cancel₀ _ hA2
  rw [this]
  ring

end AdaptaVerif.Lemmas.VpscKktFresh
