/-
Lemmas about the model of `Tree::symmetricLayout`, part 4: completeness — the ordering as coded is a
permutation of the c-trees, and the layout contains every node of the tree exactly once with its size.
-/
import AdaptaVerif.Lemmas.TreeLayoutSym
import Mathlib.Data.List.Nodup
import Mathlib.Data.List.Perm.Basic
namespace AdaptaVerif.Lemmas.TreeLayout
open AdaptaVerif.Model.TreeLayout

/-! ### `isort`, `dedup`, `classIdx` -/

theorem insertBy_perm {α : Type} (lt : α → α → Bool) (a : α) : ∀ l : List α, (insertBy lt a l).Perm (a :: l)
  | [] => List.Perm.refl _
  | b :: bs => by
    unfold insertBy
    split
    · exact List.Perm.refl _
    · exact ((insertBy_perm lt a bs).cons b).trans (List.Perm.swap a b bs)

theorem isort_perm {α : Type} (lt : α → α → Bool) : ∀ l : List α, (isort lt l).Perm l
  | [] => List.Perm.refl _
  | a :: l => (insertBy_perm lt a _).trans ((isort_perm lt l).cons a)

theorem mem_dedup : ∀ {l : List String} {x : String}, x ∈ dedup l ↔ x ∈ l
  | [], _ => by simp [dedup]
  | a :: l, x => by
    simp only [dedup, List.mem_cons, List.mem_filter, bne_iff_ne, ne_eq]
    rw [mem_dedup (l := l)]
    by_cases h : x = a <;> simp [h]

theorem nodup_dedup : ∀ l : List String, (dedup l).Nodup
  | [] => by simp [dedup]
  | a :: l => by
    simp only [dedup, List.nodup_cons, List.mem_filter, bne_self_eq_false, Bool.false_eq_true,
      and_false, not_false_eq_true, true_and]
    exact (nodup_dedup l).filter _

theorem mem_classIdx {isoms : List String} {s : String} {i : Nat} :
    i ∈ classIdx isoms s ↔ isoms[i]? = some s := by
  unfold classIdx
  simp only [List.mem_filter, List.mem_range, beq_iff_eq]
  constructor
  · exact fun h => h.2
  · intro h
    refine ⟨?_, h⟩
    by_contra hn
    rw [List.getElem?_eq_none (Nat.le_of_not_lt hn)] at h
    cases h

theorem classes_perm (isoms : List String) :
    ((dedup isoms).flatMap (classIdx isoms)).Perm (List.range isoms.length) := by
  rw [List.perm_ext_iff_of_nodup]
  · intro i
    simp only [List.mem_flatMap, mem_classIdx, mem_dedup, List.mem_range]
    constructor
    · rintro ⟨s, _, hs⟩
      by_contra hn
      rw [List.getElem?_eq_none (Nat.le_of_not_lt hn)] at hs
      cases hs
    · intro hi
      exact ⟨isoms[i], List.getElem_mem hi, List.getElem?_eq_getElem hi⟩
  · rw [List.nodup_flatMap]
    refine ⟨?_, ?_⟩
    · intro s _
      exact List.nodup_range.filter _
    · refine (nodup_dedup isoms).imp ?_
      intro a b hab
      show List.Disjoint _ _
      intro i hia hib
      rw [mem_classIdx] at hia hib
      rw [hia] at hib
      exact hab (Option.some.inj hib)
  · exact List.nodup_range

/-- **The ordering as coded places every c-tree exactly once.** -/
theorem isomOrder_perm (convex : Bool) (ks : List Key) :
    (isomOrder convex ks).1.Perm (List.range ks.length) := by
  have hlen : (ks.map Key.isom).length = ks.length := List.length_map _
  rw [← hlen]
  refine List.Perm.trans ?_ (classes_perm (ks.map Key.isom))
  unfold isomOrder
  simp only
  generalize hrep : (fun s => match List.find? (fun k => k.isom == s) ks with
    | some k => (k.breadth, k.depth) | none => (0, 0)) = rep
  have hsorted := isort_perm (classLt convex rep) (dedup (ks.map Key.isom))
  split
  · rename_i o ho
    refine List.Perm.flatMap_right _ ?_
    have hmem : o ∈ isort (classLt convex rep) (dedup (ks.map Key.isom)) := by
      refine hsorted.mem_iff.2 ?_
      have : o ∈ oddClasses (ks.map Key.isom) := by rw [ho]; exact List.mem_cons_self ..
      exact (List.mem_filter.1 this).1
    exact (List.perm_cons_erase hmem).symm.trans hsorted
  · exact List.Perm.flatMap_right _ hsorted

/-! ### labels of the placed nodes -/

/-- what identifies a node of the input: id and size -/
abbrev Label := Nat × Rat × Rat
def label (n : PNode) : Label := (n.id, n.w, n.h)

def lvLabels (ls : List Level) : List Label := (ls.flatMap (·.nodes)).map label

/-- labels of a forest in preorder -/
def forestLabels : Forest → List Label
  | .nil => []
  | .cons id w h kids rest => (id, w, h) :: (forestLabels kids ++ forestLabels rest)

theorem lvLabels_cons (l : Level) (ls : List Level) : lvLabels (l :: ls) = l.nodes.map label ++ lvLabels ls := by
  simp [lvLabels]

theorem lvLabels_flip (d : Dir) (ls : List Level) : lvLabels (ls.map (Level.flip d)) = lvLabels ls := by
  induction ls with
  | nil => rfl
  | cons l ls ih =>
    rw [List.map_cons, lvLabels_cons, lvLabels_cons, ih]
    congr 1
    simp [Level.flip, List.map_map, Function.comp_def, label, PNode.flip]

theorem lvLabels_translate (d : Dir) (v : Pt) (ls : List Level) :
    lvLabels (ls.map (Level.translate d v)) = lvLabels ls := by
  induction ls with
  | nil => rfl
  | cons l ls ih =>
    rw [List.map_cons, lvLabels_cons, lvLabels_cons, ih]
    congr 1
    simp [Level.translate, List.map_map, Function.comp_def, label, PNode.translate]

theorem lvLabels_overlay {f : Level → Level → Level} (hf : ∀ t p, (f t p).nodes = p.nodes ++ t.nodes) :
    ∀ ts ps : List Level, (lvLabels (overlay f ts ps)).Perm (lvLabels ps ++ lvLabels ts)
  | [], ps => by simp [overlay, lvLabels]
  | t :: ts, [] => by simp [overlay, lvLabels]
  | t :: ts, p :: ps => by
    simp only [overlay, lvLabels_cons, hf, List.map_append]
    have ih := lvLabels_overlay hf ts ps
    -- (p ++ t) ++ ov ~ (p ++ lp) ++ (t ++ lt)
    refine ((List.Perm.refl _).append ih).trans ?_
    simp only [List.append_assoc]
    refine (List.Perm.refl _).append ?_
    rw [← List.append_assoc, ← List.append_assoc]
    exact (List.perm_append_comm.append (List.Perm.refl _))

/-- number of trees of a forest (length of the top-level sibling list) -/
def forestTrees : Forest → Nat
  | .nil => 0
  | .cons _ _ _ _ rest => forestTrees rest + 1

def stLabels (st : St) : List Label := lvLabels (st.root :: st.rest)

theorem stLabels_place (cfg : Cfg) (st : St) (t : Lay) :
    (stLabels (place cfg st t)).Perm (stLabels st ++ lvLabels t.levels) := by
  unfold place stLabels
  rw [lvLabels_cons]
  split
  · simp only [placeCentral, lvLabels_cons]
    rw [List.append_assoc]
    refine (List.Perm.refl _).append ?_
    refine (lvLabels_overlay (fun _ _ => rfl) _ _).trans ?_
    simp only [Lay.translate, lvLabels_translate]
    exact List.Perm.refl _
  · simp only [placeSide, lvLabels_cons]
    rw [List.append_assoc]
    refine (List.Perm.refl _).append ?_
    have hov : ∀ (b : Bool) (ts ps : List Level),
        (lvLabels (overlay (if b then fPos else fNeg) ts ps)).Perm (lvLabels ps ++ lvLabels ts) := by
      intro b ts ps
      cases b
      · exact lvLabels_overlay (fun _ _ => rfl) ts ps
      · exact lvLabels_overlay (fun _ _ => rfl) ts ps
    refine (hov _ _ _).trans ?_
    refine (List.Perm.refl _).append ?_
    unfold sideMoved
    cases st.positiveNext
    · simp only [Bool.false_eq_true, if_false, Lay.translate, Lay.flip, lvLabels_translate, lvLabels_flip]
      exact List.Perm.refl _
    · simp only [if_true, Lay.translate, lvLabels_translate]
      exact List.Perm.refl _

theorem stLabels_foldl (cfg : Cfg) : ∀ (ts : List Lay) (st : St),
    (stLabels (ts.foldl (place cfg) st)).Perm (stLabels st ++ ts.flatMap (fun t => lvLabels t.levels))
  | [], st => by simp
  | t :: ts, st => by
    simp only [List.foldl_cons, List.flatMap_cons]
    refine (stLabels_foldl cfg ts _).trans ?_
    rw [← List.append_assoc]
    exact (stLabels_place cfg st t).append (List.Perm.refl _)

theorem lvLabels_replicate (k : Nat) : lvLabels (List.replicate k (⟨0, 0, []⟩ : Level)) = [] := by
  induction k with
  | zero => rfl
  | succ k ih => rw [List.replicate_succ, lvLabels_cons, ih]; rfl

theorem placeAll_labels (cfg : Cfg) (id : Nat) (w h : Rat) (ordered : List Lay) (c : Bool) :
    (lvLabels (placeAll cfg id w h ordered c).levels).Perm
      ((id, w, h) :: ordered.flatMap (fun t => lvLabels t.levels)) := by
  unfold placeAll St.toLay
  refine (stLabels_foldl cfg ordered _).trans ?_
  have : stLabels (initSt cfg id w h (maxDepth ordered) c) = [(id, w, h)] := by
    unfold stLabels initSt
    rw [lvLabels_cons, lvLabels_replicate]; rfl
  rw [this]; exact List.Perm.refl _

theorem filterMap_range'_getElem? {α : Type} : ∀ (l pre : List α),
    (List.range' pre.length l.length).filterMap (fun i => (pre ++ l)[i]?) = l
  | [], _ => by simp
  | a :: l, pre => by
    rw [List.length_cons, List.range'_succ, List.filterMap_cons]
    have h0 : (pre ++ a :: l)[pre.length]? = some a := by simp
    rw [h0]
    have ih := filterMap_range'_getElem? l (pre ++ [a])
    rw [List.length_append, List.length_singleton, List.append_assoc, List.singleton_append] at ih
    rw [ih]

theorem pick_range (ls : List Lay) : pick (List.range ls.length) ls = ls := by
  unfold pick
  rw [List.range_eq_range']
  exact filterMap_range'_getElem? ls []

theorem pick_perm {perm : List Nat} {ls : List Lay} (h : perm.Perm (List.range ls.length)) :
    (pick perm ls).Perm ls := by
  have := h.filterMap (fun i => ls[i]?)
  rw [show List.filterMap (fun i => ls[i]?) (List.range ls.length) = ls from pick_range ls] at this
  exact this

theorem length_keys : ∀ f : Forest, (keys f).length = forestTrees f
  | .nil => rfl
  | .cons _ _ _ _ rest => by simp [keys, forestTrees, length_keys rest]

theorem length_layoutAll (ord : Order) (cfg : Cfg) : ∀ f : Forest, (layoutAll ord cfg f).length = forestTrees f
  | .nil => rfl
  | .cons _ _ _ _ rest => by simp [layoutAll, forestTrees, length_layoutAll ord cfg rest]

/-- an ordering function that always returns a permutation of the c-tree indices -/
def OrderPerm (ord : Order) : Prop := ∀ c ks, (ord c ks).1.Perm (List.range ks.length)

theorem layoutNode_labels {ord : Order} (hord : OrderPerm ord) (cfg : Cfg) (convex : Bool) (id : Nat) (w h : Rat)
    (kidLays : List Lay) (kidKeys : List Key) (hlen : kidKeys.length = kidLays.length) :
    (lvLabels (layoutNode ord cfg convex id w h kidLays kidKeys).levels).Perm
      ((id, w, h) :: kidLays.flatMap (fun t => lvLabels t.levels)) := by
  unfold layoutNode
  refine (placeAll_labels cfg id w h _ _).trans ?_
  refine List.Perm.cons _ ?_
  refine List.Perm.flatMap_right _ (pick_perm ?_)
  rw [← hlen]; exact hord convex kidKeys

theorem layoutAll_labels {ord : Order} (hord : OrderPerm ord) (cfg : Cfg) : ∀ f : Forest,
    ((layoutAll ord cfg f).flatMap (fun t => lvLabels t.levels)).Perm (forestLabels f) := by
  intro f
  induction f with
  | nil => simp [layoutAll, forestLabels]
  | cons id w h kids rest ihk ihr =>
    simp only [layoutAll, List.flatMap_cons, forestLabels]
    have h1 := (layoutNode_labels hord cfg true id w h _ _
        ((length_keys kids).trans (length_layoutAll ord cfg kids).symm)).trans (List.Perm.cons (id, w, h) ihk)
    have h2 := h1.append ihr
    simpa using h2

theorem layoutWith_labels {ord : Order} (hord : OrderPerm ord) (cfg : Cfg) (convex : Bool) (id : Nat) (w h : Rat)
    (kids : Forest) :
    ((layoutWith ord cfg convex id w h kids).nodes.map label).Perm ((id, w, h) :: forestLabels kids) := by
  unfold layoutWith
  exact (layoutNode_labels hord cfg convex id w h _ _
    ((length_keys kids).trans (length_layoutAll ord cfg kids).symm)).trans
    (List.Perm.cons _ (layoutAll_labels hord cfg kids))

end AdaptaVerif.Lemmas.TreeLayout
