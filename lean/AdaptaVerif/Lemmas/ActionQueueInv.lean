/-
C06: the queue invariant, and the flush theorem
`view (processActions st).scene = pending st` (what the three loops of `Router::processActions`
produce, after `actionList.sort()`, is what the queue look-ups promise).
-/
import AdaptaVerif.Lemmas.ActionQueue
namespace AdaptaVerif.Lemmas.ActionQueue
open AdaptaVerif.Model.ActionQueue AdaptaVerif.Spec.Scene

/-- two queued actions never concern the same object (obstacle ids and connector ids are compared
    within their class) -/
def Rel (a b : Action) : Prop := a.isConn = b.isConn → a.id ≠ b.id

theorem Rel.symm {a b : Action} (h : Rel a b) : Rel b a := fun e he => h e.symm he.symm

/-- connector ids are unique: every connector object is THE one its id looks up -/
def ConnUniq (sc : Scene) : Prop := (sc.conns.map (·.id)).Nodup

theorem find_of_nodup (l : List Conn) (h : (l.map (·.id)).Nodup) (k : Conn) (hk : k ∈ l) :
    l.find? (·.id == k.id) = some k := by
  induction l with
  | nil => cases hk
  | cons a l ih =>
    rw [List.map_cons, List.nodup_cons] at h
    rcases List.mem_cons.1 hk with rfl | hk'
    · simp
    · have : a.id ≠ k.id := fun e => h.1 (e ▸ List.mem_map.2 ⟨k, hk', rfl⟩)
      rw [List.find?_cons]
      have hb : (a.id == k.id) = false := by simpa using this
      rw [hb]
      exact ih h.2 hk'

theorem connFind_of_uniq {sc : Scene} (h : ConnUniq sc) (k : Conn) (hk : k ∈ sc.conns) : findConn sc k.id = some k :=
  find_of_nodup sc.conns h k hk

theorem ids_mapConn (sc : Scene) (i : Nat) (f : Conn → Conn) (hf : ∀ c, (f c).id = c.id) :
    (mapConn sc i f).conns.map (·.id) = sc.conns.map (·.id) := by
  unfold mapConn
  simp only [List.map_map]
  apply List.map_congr_left
  intro c _
  simp only [Function.comp]
  split
  · exact hf c
  · rfl

theorem ids_pass3One (sc : Scene) (a : Action) : (pass3One sc a).conns.map (·.id) = sc.conns.map (·.id) := by
  unfold pass3One
  cases a.kind <;> try rfl
  simp only []
  generalize a.conns = us
  induction us generalizing sc with
  | nil => rfl
  | cons u us ih =>
    simp only [List.foldl_cons, ih]
    exact ids_mapConn sc a.id _ (fun c => Conn.setEnd_id c _ _)

theorem ids_runPasses (sc : Scene) (l : List Action) : (runPasses sc l).conns.map (·.id) = sc.conns.map (·.id) := by
  unfold runPasses
  have h3 : ∀ (l' : List Action) (s : Scene), (l'.foldl pass3One s).conns.map (·.id) = s.conns.map (·.id) := by
    intro l'
    induction l' with
    | nil => intro s; rfl
    | cons a l' ih => intro s; simp only [List.foldl_cons, ih, ids_pass3One]
  have h2 : ∀ (l' : List Action) (s : Scene), (l'.foldl pass2One s).conns = s.conns := by
    intro l'
    induction l' with
    | nil => intro s; rfl
    | cons a l' ih => intro s; simp only [List.foldl_cons, ih, conns_pass2One]
  have h1 : ∀ (l' : List Action) (s : Scene), (l'.foldl pass1One s).conns = s.conns := by
    intro l'
    induction l' with
    | nil => intro s; rfl
    | cons a l' ih => intro s; simp only [List.foldl_cons, ih, conns_pass1One]
  rw [h3, h2, h1]

theorem connUniq_runPasses {sc : Scene} (h : ConnUniq sc) (l : List Action) : ConnUniq (runPasses sc l) := by
  unfold ConnUniq; rw [ids_runPasses]; exact h

/-- invariant of every state reachable by legal calls -/
structure Inv (st : State) : Prop where
  /-- at most one queued action per object -/
  uniq : st.queue.Pairwise Rel
  /-- queued obstacle actions refer to existing obstacles -/
  obstRef : ∀ a ∈ st.queue, a.isConn = false → (findObst st.scene a.id).isSome = true
  /-- queued connector changes refer to existing connectors -/
  connRef : ∀ a ∈ st.queue, a.isConn = true → (findConn st.scene a.id).isSome = true
  /-- an obstacle is inactive only while its `Add` is still queued -/
  inactiveAdd : ∀ id o, findObst st.scene id = some o → o.active = false → hasAct st.queue .add id = true
  /-- the queued endpoint updates of one `ConnChange` concern distinct ends (`addConnEndUpdate`) -/
  endsDistinct : ∀ a ∈ st.queue, a.conns.Pairwise (fun u v => u.1 ≠ v.1)
  /-- connector ids are unique: every connector object is THE one its id looks up -/
  connFind : ConnUniq st.scene

theorem isConn_iff (a : Action) : a.isConn = true ↔ a.kind = .connChange := by
  unfold Action.isConn; cases a.kind <;> simp

theorem isConn_false_iff (a : Action) : a.isConn = false ↔ a.kind ≠ .connChange := by
  unfold Action.isConn; cases a.kind <;> simp

theorem findAct_some {q : List Action} {k : Kind} {id : Nat} {b : Action} (h : findAct q k id = some b) :
    b ∈ q ∧ b.kind = k ∧ b.id = id := by
  unfold findAct at h
  have h1 := List.mem_of_find?_eq_some h
  have h2 := List.find?_some h
  simp only [Bool.and_eq_true, beq_iff_eq] at h2
  exact ⟨h1, h2.1, h2.2⟩

theorem findAct_none {q : List Action} {k : Kind} {id : Nat} (h : findAct q k id = none) :
    ∀ b ∈ q, ¬(b.kind = k ∧ b.id = id) := by
  unfold findAct at h
  intro b hb hh
  have := List.find?_eq_none.1 h b hb
  simp [hh.1, hh.2] at this

/-- under the invariant the code's `find(… ActionInfo(k, obj))` finds THE action of the object -/
theorem findAct_of_mem {q : List Action} (hu : q.Pairwise Rel) {a : Action} (ha : a ∈ q) (k : Kind)
    (hk : (k = .connChange) = (a.kind = .connChange)) :
    findAct q k a.id = if a.kind = k then some a else none := by
  cases h : findAct q k a.id with
  | some b =>
    obtain ⟨hb, hbk, hbi⟩ := findAct_some h
    have : b = a := by
      apply uniq_of_pairwise hu hb ha
      · intro hr; apply hr _ hbi
        unfold Action.isConn; rw [hbk]; cases hka : a.kind <;> cases k <;> first | rfl | simp_all
      · intro hr; apply hr _ hbi.symm
        unfold Action.isConn; rw [hbk]; cases hka : a.kind <;> cases k <;> first | rfl | simp_all
    subst this
    simp [hbk]
  | none =>
    have := findAct_none h a ha
    by_cases hka : a.kind = k
    · exact absurd ⟨hka, rfl⟩ this
    · simp [hka]

theorem findAct_none_of_no {q : List Action} {id : Nat} (k : Kind) (hk : k ≠ .connChange)
    (h : ∀ b ∈ q, b.isConn = true ∨ b.id ≠ id) : findAct q k id = none := by
  cases hf : findAct q k id with
  | none => rfl
  | some b =>
    obtain ⟨hb, hbk, hbi⟩ := findAct_some hf
    rcases h b hb with h1 | h1
    · rw [isConn_iff, hbk] at h1; exact absurd h1 hk
    · exact absurd hbi h1

theorem f1_noop (b : Action) (id : Nat) (h : b.isConn = true ∨ b.id ≠ id) (y : Option Obst) : f1 b id y = y := by
  unfold f1
  rcases h with h | h
  · rw [isConn_iff] at h; simp [h]
  · simp [h]

theorem f2_noop (b : Action) (id : Nat) (h : b.isConn = true ∨ b.id ≠ id) (y : Option Obst) : f2 b id y = y := by
  unfold f2
  rcases h with h | h
  · rw [isConn_iff] at h; simp [h]
  · simp [h]

theorem g3_noop (b : Action) (c : Nat) (h : b.isConn = false ∨ b.id ≠ c) (y : Option Conn) : g3 b c y = y := by
  unfold g3
  rcases h with h | h
  · rw [isConn_false_iff] at h; simp [h]
  · simp [h]

theorem insertAct_perm (a : Action) (l : List Action) : (insertAct a l).Perm (a :: l) := by
  induction l with
  | nil => exact List.Perm.refl _
  | cons b l ih =>
    unfold insertAct
    split
    · exact List.Perm.refl _
    · exact (List.Perm.cons b ih).trans (List.Perm.swap a b l)

theorem sortActions_perm (q : List Action) : (sortActions q).Perm q := by
  induction q with
  | nil => exact List.Perm.refl _
  | cons a q ih =>
    show (insertAct a (sortActions q)).Perm (a :: q)
    exact (insertAct_perm a _).trans (List.Perm.cons a ih)

theorem sort_uniq {q : List Action} (hu : q.Pairwise Rel) : (sortActions q).Pairwise Rel :=
  (List.Perm.pairwise_iff (fun h => Rel.symm h) (sortActions_perm q)).2 hu

theorem mem_sort {q : List Action} {a : Action} : a ∈ sortActions q ↔ a ∈ q := (sortActions_perm q).mem_iff

/-- split of a duplicate-free list around one of its members -/
theorem split_uniq {q : List Action} (hu : q.Pairwise Rel) {a : Action} (ha : a ∈ q) :
    ∃ l1 l2, q = l1 ++ a :: l2 ∧ (∀ b ∈ l1, Rel b a) ∧ (∀ b ∈ l2, Rel a b) := by
  obtain ⟨l1, l2, rfl⟩ := List.append_of_mem ha
  refine ⟨l1, l2, rfl, ?_, ?_⟩
  · intro b hb
    rw [List.pairwise_append] at hu
    exact hu.2.2 b hb a (List.mem_cons_self ..)
  · intro b hb
    rw [List.pairwise_append, List.pairwise_cons] at hu
    exact hu.2.1.1 b hb

theorem findObst_runPasses_none' (sc : Scene) (q l : List Action) (hp : l.Perm q) (id : Nat)
    (h : ∀ b ∈ q, b.isConn = true ∨ b.id ≠ id) :
    findObst (runPasses sc l) id = findObst sc id := by
  have h' : ∀ b ∈ l, b.isConn = true ∨ b.id ≠ id := fun b hb => h b (hp.mem_iff.1 hb)
  unfold runPasses
  rw [findObst_fold3, findObst_fold2, findObst_fold1]
  rw [fold_noop (fun a => f1 a id) _ _ (fun b hb y => f1_noop b id (h' b hb) y)]
  rw [fold_noop (fun a => f2 a id) _ _ (fun b hb y => f2_noop b id (h' b hb) y)]

theorem findObst_runPasses_some' (sc : Scene) (q l : List Action) (hp : l.Perm q) (hu : q.Pairwise Rel)
    (a : Action) (ha : a ∈ q) (hc : a.isConn = false) :
    findObst (runPasses sc l) a.id = f2 a a.id (f1 a a.id (findObst sc a.id)) := by
  have hul : l.Pairwise Rel := (List.Perm.pairwise_iff (fun h => Rel.symm h) hp).2 hu
  obtain ⟨l1, l2, hq, h1, h2⟩ := split_uniq hul (hp.mem_iff.2 ha)
  have n1 : ∀ b ∈ l1, b.isConn = true ∨ b.id ≠ a.id := by
    intro b hb
    by_cases hbc : b.isConn = true
    · exact Or.inl hbc
    · exact Or.inr (h1 b hb (by simp_all))
  have n2 : ∀ b ∈ l2, b.isConn = true ∨ b.id ≠ a.id := by
    intro b hb
    by_cases hbc : b.isConn = true
    · exact Or.inl hbc
    · exact Or.inr (fun e => h2 b hb (by simp_all) e.symm)
  unfold runPasses
  rw [findObst_fold3, findObst_fold2, findObst_fold1, hq]
  rw [fold_single (fun a' => f1 a' a.id) l1 l2 a _ (fun b hb y => f1_noop b _ (n1 b hb) y)
        (fun b hb y => f1_noop b _ (n2 b hb) y)]
  rw [fold_single (fun a' => f2 a' a.id) l1 l2 a _ (fun b hb y => f2_noop b _ (n1 b hb) y)
        (fun b hb y => f2_noop b _ (n2 b hb) y)]

theorem findConn_runPasses_none' (sc : Scene) (q l : List Action) (hp : l.Perm q) (c : Nat)
    (h : ∀ b ∈ q, b.isConn = false ∨ b.id ≠ c) :
    findConn (runPasses sc l) c = findConn sc c := by
  have h' : ∀ b ∈ l, b.isConn = false ∨ b.id ≠ c := fun b hb => h b (hp.mem_iff.1 hb)
  unfold runPasses
  rw [findConn_fold3, findConn_fold2, findConn_fold1]
  rw [fold_noop (fun a => g3 a c) _ _ (fun b hb y => g3_noop b c (h' b hb) y)]

theorem findConn_runPasses_some' (sc : Scene) (q l : List Action) (hp : l.Perm q) (hu : q.Pairwise Rel)
    (a : Action) (ha : a ∈ q) (hc : a.isConn = true) :
    findConn (runPasses sc l) a.id = g3 a a.id (findConn sc a.id) := by
  have hul : l.Pairwise Rel := (List.Perm.pairwise_iff (fun h => Rel.symm h) hp).2 hu
  obtain ⟨l1, l2, hq, h1, h2⟩ := split_uniq hul (hp.mem_iff.2 ha)
  have n1 : ∀ b ∈ l1, b.isConn = false ∨ b.id ≠ a.id := by
    intro b hb
    by_cases hbc : b.isConn = false
    · exact Or.inl hbc
    · exact Or.inr (h1 b hb (by simp_all))
  have n2 : ∀ b ∈ l2, b.isConn = false ∨ b.id ≠ a.id := by
    intro b hb
    by_cases hbc : b.isConn = false
    · exact Or.inl hbc
    · exact Or.inr (fun e => h2 b hb (by simp_all) e.symm)
  unfold runPasses
  rw [findConn_fold3, findConn_fold2, findConn_fold1, hq]
  rw [fold_single (fun a' => g3 a' a.id) l1 l2 a _ (fun b hb y => g3_noop b _ (n1 b hb) y)
        (fun b hb y => g3_noop b _ (n2 b hb) y)]

theorem findObst_runPasses_none (sc : Scene) (q : List Action) (id : Nat)
    (h : ∀ b ∈ q, b.isConn = true ∨ b.id ≠ id) :
    findObst (runPasses sc (sortActions q)) id = findObst sc id :=
  findObst_runPasses_none' sc q _ (sortActions_perm q) id h

theorem findObst_runPasses_some (sc : Scene) (q : List Action) (hu : q.Pairwise Rel) (a : Action)
    (ha : a ∈ q) (hc : a.isConn = false) :
    findObst (runPasses sc (sortActions q)) a.id = f2 a a.id (f1 a a.id (findObst sc a.id)) :=
  findObst_runPasses_some' sc q _ (sortActions_perm q) hu a ha hc

theorem findConn_runPasses_none (sc : Scene) (q : List Action) (c : Nat)
    (h : ∀ b ∈ q, b.isConn = false ∨ b.id ≠ c) :
    findConn (runPasses sc (sortActions q)) c = findConn sc c :=
  findConn_runPasses_none' sc q _ (sortActions_perm q) c h

theorem findConn_runPasses_some (sc : Scene) (q : List Action) (hu : q.Pairwise Rel) (a : Action)
    (ha : a ∈ q) (hc : a.isConn = true) :
    findConn (runPasses sc (sortActions q)) a.id = g3 a a.id (findConn sc a.id) :=
  findConn_runPasses_some' sc q _ (sortActions_perm q) hu a ha hc

theorem no_obst_act {q : List Action} {id : Nat} (hex : ¬∃ a ∈ q, a.isConn = false ∧ a.id = id) :
    ∀ b ∈ q, b.isConn = true ∨ b.id ≠ id := by
  intro b hb
  by_cases hc : b.isConn = true
  · exact Or.inl hc
  · refine Or.inr fun e => hex ⟨b, hb, by simpa using hc, e⟩

theorem no_conn_act {q : List Action} {id : Nat} (hex : ¬∃ a ∈ q, a.isConn = true ∧ a.id = id) :
    ∀ b ∈ q, b.isConn = false ∨ b.id ≠ id := by
  intro b hb
  by_cases hc : b.isConn = false
  · exact Or.inl hc
  · refine Or.inr fun e => hex ⟨b, hb, by simpa using hc, e⟩

theorem findAct_conn_none_of_no {q : List Action} {id : Nat}
    (h : ∀ b ∈ q, b.isConn = false ∨ b.id ≠ id) : findAct q .connChange id = none := by
  cases hf : findAct q .connChange id with
  | none => rfl
  | some b =>
    obtain ⟨hb, hbk, hbi⟩ := findAct_some hf
    rcases h b hb with h1 | h1
    · rw [isConn_false_iff] at h1; exact absurd hbk h1
    · exact absurd hbi h1

/-! ### the pin-move updates queued by the first loop of `processActions` (`genPinMoves`) change nothing
    that the transaction shows: a queued user change of the same end is left alone (the
    `isConnPinMoveUpdate` guard of `addConnEndUpdate`), and where there is none the update re-states the end
    the connector already has -/

def notConn (a : Action) : Bool := !a.isConn

theorem foldl_filter_noop {σ α} (F : σ → α → σ) (p : α → Bool) (h : ∀ s a, p a = false → F s a = s)
    (l : List α) (s : σ) : l.foldl F s = (l.filter p).foldl F s := by
  induction l generalizing s with
  | nil => rfl
  | cons a l ih =>
    by_cases hp : p a = true
    · simp only [List.foldl_cons, List.filter_cons, hp, if_true, ih]
    · have hp' : p a = false := by simpa using hp
      simp only [List.foldl_cons, List.filter_cons, hp', Bool.false_eq_true, if_false, h s a hp', ih]

theorem pass1One_conn (sc : Scene) (a : Action) (h : notConn a = false) : pass1One sc a = sc := by
  have : a.kind = .connChange := by
    unfold notConn Action.isConn at h; cases hk : a.kind <;> simp_all
  unfold pass1One; rw [this]

theorem pass2One_conn (sc : Scene) (a : Action) (h : notConn a = false) : pass2One sc a = sc := by
  have : a.kind = .connChange := by
    unfold notConn Action.isConn at h; cases hk : a.kind <;> simp_all
  unfold pass2One; rw [this]

theorem updFirst_filter {α} (P : α → Bool) (f : α → α) (r : α → Bool)
    (h : ∀ a, P a = true → r a = false ∧ r (f a) = false) (l : List α) :
    (updFirst P f l).filter r = l.filter r := by
  induction l with
  | nil => rfl
  | cons a l ih =>
    unfold updFirst
    by_cases hP : P a = true
    · simp [hP, List.filter_cons, (h a hP).1, (h a hP).2]
    · simp only [hP, Bool.false_eq_true, if_false, List.filter_cons, ih]

theorem updFirst_fst' (us : List (End × CEnd)) (e : End) (p : CEnd) :
    (updFirst (fun u => u.1 == e) (fun _ => (e, p)) us).map Prod.fst = us.map Prod.fst := by
  induction us with
  | nil => rfl
  | cons u us ih =>
    by_cases hu : u.1 = e
    · simp [updFirst, hu]
    · simp [updFirst, beq_eq_false_iff_ne.2 hu, ih]

theorem modifyConnector_filter (q : List Action) (c : Nat) (e : End) (p : CEnd) (f : Bool) :
    (modifyConnector q c e p f).filter notConn = q.filter notConn := by
  unfold modifyConnector
  split
  · apply updFirst_filter
    intro a ha
    simp only [Bool.and_eq_true, beq_iff_eq] at ha
    simp [notConn, Action.isConn, ha.1]
  · simp [List.filter_append, notConn, Action.isConn]

theorem moveAttachedConns_filter (sc : Scene) (q : List Action) (m : Nat) :
    (moveAttachedConns sc q m).filter notConn = q.filter notConn := by
  unfold moveAttachedConns
  generalize attachedEnds sc m = ts
  induction ts generalizing q with
  | nil => rfl
  | cons t ts ih => simp only [List.foldl_cons, ih, modifyConnector_filter]

theorem genPinMoves_filter (sc : Scene) (q : List Action) :
    (genPinMoves sc q).filter notConn = q.filter notConn := by
  unfold genPinMoves
  suffices h : ∀ (l acc : List Action),
      (l.foldl (fun acc a => if a.kind == .move then moveAttachedConns sc acc a.id else acc) acc).filter notConn
        = acc.filter notConn from h q q
  intro l
  induction l with
  | nil => intro acc; rfl
  | cons a l ih =>
    intro acc
    simp only [List.foldl_cons, ih]
    split
    · exact moveAttachedConns_filter sc acc a.id
    · rfl

theorem obsts_fold3 (l : List Action) (sc : Scene) : (l.foldl pass3One sc).obsts = sc.obsts := by
  induction l generalizing sc with
  | nil => rfl
  | cons a l ih => simp only [List.foldl_cons, ih, obsts_pass3One]

/-- the first two loops see only the obstacle actions: the appended / merged `ConnChange` entries are skipped -/
theorem obsts_runPasses_genPinMoves (sc : Scene) (q : List Action) :
    (runPasses sc (genPinMoves sc q)).obsts = (runPasses sc q).obsts := by
  unfold runPasses
  rw [obsts_fold3, obsts_fold3]
  rw [foldl_filter_noop pass1One notConn pass1One_conn (genPinMoves sc q),
      foldl_filter_noop pass2One notConn pass2One_conn (genPinMoves sc q), genPinMoves_filter,
      ← foldl_filter_noop pass1One notConn pass1One_conn q, ← foldl_filter_noop pass2One notConn pass2One_conn q]

/-- effect of the last loop on connector `c` -/
def G (c : Nat) (l : List Action) (x : Option Conn) : Option Conn := l.foldl (fun x a => g3 a c x) x

theorem findConn_runPasses (sc : Scene) (l : List Action) (c : Nat) :
    findConn (runPasses sc l) c = G c l (findConn sc c) := by
  unfold runPasses G
  rw [findConn_fold3, findConn_fold2, findConn_fold1]

theorem G_cons (c : Nat) (a : Action) (l : List Action) (x : Option Conn) : G c (a :: l) x = G c l (g3 a c x) := rfl

theorem G_append (c : Nat) (l1 l2 : List Action) (x : Option Conn) : G c (l1 ++ l2) x = G c l2 (G c l1 x) := by
  unfold G; rw [List.foldl_append]

theorem getEnd_setEnd_ne (k : Conn) (e e' : End) (p : CEnd) (h : e' ≠ e) : (k.setEnd e' p).getEnd e = k.getEnd e := by
  cases e <;> cases e' <;> simp_all [Conn.setEnd, Conn.getEnd]

theorem getEnd_applyUpdates (us : List (End × CEnd)) (k : Conn) (e : End) (h : ∀ u ∈ us, u.1 ≠ e) :
    (k.applyUpdates us).getEnd e = k.getEnd e := by
  induction us generalizing k with
  | nil => rfl
  | cons u us ih =>
    show ((k.setEnd u.1 u.2).applyUpdates us).getEnd e = k.getEnd e
    rw [ih _ (fun v hv => h v (List.mem_cons_of_mem _ hv)), getEnd_setEnd_ne _ _ _ _ (h u (List.mem_cons_self ..))]

theorem setEnd_of_getEnd (k : Conn) (e : End) (p : CEnd) (h : k.getEnd e = some p) : k.setEnd e p = k := by
  cases e <;> cases k <;> simp_all [Conn.setEnd, Conn.getEnd]

theorem applyUpdates_append_one (us : List (End × CEnd)) (k : Conn) (e : End) (p : CEnd) :
    k.applyUpdates (us ++ [(e, p)]) = (k.applyUpdates us).setEnd e p := by
  simp [Conn.applyUpdates, List.foldl_append]

/-- a pin-move update that re-states the end the connector has does not change what the queued
    updates make of the connector: it is dropped if the end has a queued change, else it is a no-op -/
theorem applyUpdates_pinMove (us : List (End × CEnd)) (k : Conn) (e : End) (p : CEnd) (h : k.getEnd e = some p) :
    k.applyUpdates (addConnEndUpdate us e p true) = k.applyUpdates us := by
  unfold addConnEndUpdate
  by_cases ha : us.any (·.1 == e) = true
  · simp [ha]
  · simp only [ha, Bool.false_eq_true, if_false]
    rw [applyUpdates_append_one, setEnd_of_getEnd]
    rw [getEnd_applyUpdates _ _ _ ?_, h]
    intro u hu hne
    apply ha
    rw [List.any_eq_true]
    exact ⟨u, hu, by simp [hne]⟩

theorem G_updFirst_same (c : Nat) (k : Conn) (e : End) (p : CEnd) (hk : k.getEnd e = some p) (l : List Action) :
    G c (updFirst (fun a => a.kind == .connChange && a.id == c)
          (fun a => { a with conns := addConnEndUpdate a.conns e p true }) l) (some k) = G c l (some k) := by
  induction l with
  | nil => rfl
  | cons a l ih =>
    unfold updFirst
    by_cases hP : (a.kind == Kind.connChange && a.id == c) = true
    · simp only [hP, if_true, G_cons]
      congr 1
      simp only [Bool.and_eq_true, beq_iff_eq] at hP
      unfold g3
      simp only [hP.1, hP.2, and_self, if_true, Option.map_some, applyUpdates_pinMove _ _ _ _ hk]
    · simp only [hP, Bool.false_eq_true, if_false, G_cons]
      have : g3 a c (some k) = some k := by
        unfold g3
        simp only [Bool.and_eq_true, beq_iff_eq] at hP
        simp [hP]
      rw [this, ih]

theorem G_updFirst_other (c c' : Nat) (hne : c' ≠ c) (f : Action → Action)
    (hf : ∀ a, (f a).kind = a.kind ∧ (f a).id = a.id) (l : List Action) (x : Option Conn) :
    G c (updFirst (fun a => a.kind == .connChange && a.id == c') f l) x = G c l x := by
  induction l generalizing x with
  | nil => rfl
  | cons a l ih =>
    unfold updFirst
    by_cases hP : (a.kind == Kind.connChange && a.id == c') = true
    · simp only [hP, if_true, G_cons]
      congr 1
      simp only [Bool.and_eq_true, beq_iff_eq] at hP
      have h1 : a.id ≠ c := by rw [hP.2]; exact hne
      unfold g3
      simp [(hf a).1, (hf a).2, h1]
    · simp only [hP, Bool.false_eq_true, if_false, G_cons, ih]

theorem G_noop_of_none (c : Nat) (q : List Action) (h : findAct q .connChange c = none) (x : Option Conn) :
    G c q x = x := by
  unfold G
  apply fold_noop (fun a => g3 a c)
  intro b hb y
  apply g3_noop
  by_cases hc : b.isConn = false
  · exact Or.inl hc
  · refine Or.inr fun e => findAct_none h b hb ⟨?_, e⟩
    rw [← isConn_iff]; simpa using hc

/-- one pin-move `modifyConnector` call for an end of connector object `k` of the scene, carrying the end that
    `k` has: the last loop's effect on every connector `c` is unchanged -/
theorem G_modifyConnector (sc : Scene) (hu : ConnUniq sc) (c : Nat) (q : List Action) (k : Conn) (hk : k ∈ sc.conns)
    (e : End) (p : CEnd) (hp : k.getEnd e = some p) :
    G c (modifyConnector q k.id e p true) (findConn sc c) = G c q (findConn sc c) := by
  unfold modifyConnector
  by_cases hc : k.id = c
  · subst hc
    rw [connFind_of_uniq hu k hk]
    cases hh : hasAct q .connChange k.id with
    | true => simp only [if_true]; exact G_updFirst_same k.id k e p hp q
    | false =>
      simp only [Bool.false_eq_true, if_false, G_append]
      have hn : findAct q .connChange k.id = none := by
        unfold hasAct at hh; simpa using hh
      rw [G_noop_of_none _ _ hn]
      show g3 _ k.id (some k) = some k
      unfold g3
      simp [Conn.applyUpdates, setEnd_of_getEnd _ _ _ hp]
  · split
    · exact G_updFirst_other c k.id hc (fun a => { a with conns := addConnEndUpdate a.conns e p true })
        (fun a => ⟨rfl, rfl⟩) q _
    · rw [G_append]
      show g3 _ c _ = _
      unfold g3
      simp [hc]

theorem attachedEnds_mem (sc : Scene) (m : Nat) (t : Nat × End × CEnd) (ht : t ∈ attachedEnds sc m) :
    ∃ k ∈ sc.conns, k.id = t.1 ∧ k.getEnd t.2.1 = some t.2.2 := by
  unfold attachedEnds at ht
  rw [List.mem_flatMap] at ht
  obtain ⟨k, hk, hm⟩ := ht
  refine ⟨k, hk, ?_⟩
  rw [List.mem_append] at hm
  rcases hm with hm | hm
  · cases hs : k.src with
    | none => simp [hs] at hm
    | some s =>
      simp only [hs] at hm
      split at hm
      · simp only [List.mem_singleton] at hm; subst hm; exact ⟨rfl, hs⟩
      · simp at hm
  · cases hs : k.dst with
    | none => simp [hs] at hm
    | some s =>
      simp only [hs] at hm
      split at hm
      · simp only [List.mem_singleton] at hm; subst hm; exact ⟨rfl, hs⟩
      · simp at hm

/-- a list of (connector, end, ConnEnd) each of which is an end that a connector object of the scene has -/
def EndsOfScene (sc : Scene) (ts : List (Nat × End × CEnd)) : Prop :=
  ∀ t ∈ ts, ∃ k ∈ sc.conns, k.id = t.1 ∧ k.getEnd t.2.1 = some t.2.2

/-- pin-move `modifyConnector` calls for ANY list of ends the scene's connectors have, in any order, with
    repetitions: the last loop's effect on every connector is unchanged -/
theorem G_refresh (sc : Scene) (hu : ConnUniq sc) (c : Nat) (ts : List (Nat × End × CEnd)) (hall : EndsOfScene sc ts)
    (q : List Action) :
    G c (ts.foldl (fun q t => modifyConnector q t.1 t.2.1 t.2.2 true) q) (findConn sc c) = G c q (findConn sc c) := by
  induction ts generalizing q with
  | nil => rfl
  | cons t ts ih =>
    simp only [List.foldl_cons]
    rw [ih (fun t' ht' => hall t' (List.mem_cons_of_mem _ ht'))]
    obtain ⟨k, hk, hid, hp⟩ := hall t (List.mem_cons_self ..)
    rw [← hid]
    exact G_modifyConnector sc hu c q k hk _ _ hp

theorem refresh_filter (q : List Action) (ts : List (Nat × End × CEnd)) :
    (ts.foldl (fun q t => modifyConnector q t.1 t.2.1 t.2.2 true) q).filter notConn = q.filter notConn := by
  induction ts generalizing q with
  | nil => rfl
  | cons t ts ih => simp only [List.foldl_cons, ih, modifyConnector_filter]

/-- … hence so is everything the transaction shows -/
theorem view_runPasses_refresh (sc : Scene) (hu : ConnUniq sc) (ts : List (Nat × End × CEnd)) (hall : EndsOfScene sc ts)
    (q : List Action) :
    view (runPasses sc (ts.foldl (fun q t => modifyConnector q t.1 t.2.1 t.2.2 true) q)) = view (runPasses sc q) := by
  have ho : (runPasses sc (ts.foldl (fun q t => modifyConnector q t.1 t.2.1 t.2.2 true) q)).obsts = (runPasses sc q).obsts := by
    unfold runPasses
    rw [obsts_fold3, obsts_fold3]
    rw [foldl_filter_noop pass1One notConn pass1One_conn (ts.foldl _ q),
        foldl_filter_noop pass2One notConn pass2One_conn (ts.foldl _ q), refresh_filter,
        ← foldl_filter_noop pass1One notConn pass1One_conn q, ← foldl_filter_noop pass2One notConn pass2One_conn q]
  apply AScene.ext'
  · intro id; simp only [view, findObst_congr ho id]
  · intro c; simp only [view, findConn_runPasses, G_refresh sc hu c ts hall]

theorem G_moveAttachedConns (sc : Scene) (hu : ConnUniq sc) (c : Nat) (q : List Action) (m : Nat) :
    G c (moveAttachedConns sc q m) (findConn sc c) = G c q (findConn sc c) := by
  unfold moveAttachedConns
  have hall := attachedEnds_mem sc m
  generalize attachedEnds sc m = ts at hall
  induction ts generalizing q with
  | nil => rfl
  | cons t ts ih =>
    simp only [List.foldl_cons]
    rw [ih _ (fun t' ht' => hall t' (List.mem_cons_of_mem _ ht'))]
    obtain ⟨k, hk, hid, hp⟩ := hall t (List.mem_cons_self ..)
    rw [← hid]
    exact G_modifyConnector sc hu c q k hk _ _ hp

theorem G_genPinMoves (sc : Scene) (hu : ConnUniq sc) (c : Nat) (q : List Action) :
    G c (genPinMoves sc q) (findConn sc c) = G c q (findConn sc c) := by
  unfold genPinMoves
  suffices h : ∀ (l acc : List Action),
      G c (l.foldl (fun acc a => if a.kind == .move then moveAttachedConns sc acc a.id else acc) acc) (findConn sc c)
        = G c acc (findConn sc c) from h q q
  intro l
  induction l with
  | nil => intro acc; rfl
  | cons a l ih =>
    intro acc
    simp only [List.foldl_cons, ih]
    split
    · exact G_moveAttachedConns sc hu c acc a.id
    · rfl

theorem findObst_runPasses_genPinMoves (sc : Scene) (q : List Action) (id : Nat) :
    findObst (runPasses sc (genPinMoves sc q)) id = findObst (runPasses sc q) id :=
  findObst_congr (obsts_runPasses_genPinMoves sc q) id

theorem findConn_runPasses_genPinMoves (sc : Scene) (hu : ConnUniq sc) (q : List Action) (c : Nat) :
    findConn (runPasses sc (genPinMoves sc q)) c = findConn (runPasses sc q) c := by
  rw [findConn_runPasses, findConn_runPasses, G_genPinMoves sc hu]

/-- the pin-move updates leave what the transaction shows unchanged -/
theorem view_runPasses_genPinMoves (sc : Scene) (hu : ConnUniq sc) (q : List Action) :
    view (runPasses sc (genPinMoves sc q)) = view (runPasses sc q) := by
  apply AScene.ext'
  · intro id; simp only [view, findObst_runPasses_genPinMoves]
  · intro c; simp only [view, findConn_runPasses_genPinMoves sc hu]

/-! ### completeness of the refresh: every end attached to a moved obstacle has an update in the list the last
    loop runs over (so every end that `Obstacle::makeInactive` disconnected in the first loop is re-attached) -/

/-- the list holds a `ConnChange` of connector `c` with an update for end `e` -/
def Covered (q : List Action) (c : Nat) (e : End) : Prop :=
  ∃ a ∈ q, a.kind = .connChange ∧ a.id = c ∧ ∃ u ∈ a.conns, u.1 = e

theorem addConnEndUpdate_has (us : List (End × CEnd)) (e : End) (p : CEnd) (f : Bool) :
    ∃ u ∈ addConnEndUpdate us e p f, u.1 = e := by
  have hfst := updFirst_fst' us e p
  unfold addConnEndUpdate
  by_cases ha : us.any (·.1 == e) = true
  · simp only [ha, if_true]
    obtain ⟨u, hu, hue⟩ := List.any_eq_true.1 ha
    have hue' : u.1 = e := by simpa using hue
    cases f with
    | true => exact ⟨u, by simpa using hu, hue'⟩
    | false =>
      simp only [Bool.not_false, if_true]
      have : e ∈ (updFirst (fun u => u.1 == e) (fun _ => (e, p)) us).map Prod.fst := by
        rw [hfst]; exact List.mem_map.2 ⟨u, hu, hue'⟩
      obtain ⟨v, hv, hve⟩ := List.mem_map.1 this
      exact ⟨v, hv, hve⟩
  · simp only [ha, Bool.false_eq_true, if_false]
    exact ⟨(e, p), by simp, rfl⟩

theorem addConnEndUpdate_keeps (us : List (End × CEnd)) (e : End) (p : CEnd) (f : Bool) (e' : End)
    (h : ∃ u ∈ us, u.1 = e') : ∃ u ∈ addConnEndUpdate us e p f, u.1 = e' := by
  have hfst := updFirst_fst' us e p
  obtain ⟨u, hu, hue⟩ := h
  unfold addConnEndUpdate
  split
  · split
    · have : e' ∈ (updFirst (fun u => u.1 == e) (fun _ => (e, p)) us).map Prod.fst := by
        rw [hfst]; exact List.mem_map.2 ⟨u, hu, hue⟩
      obtain ⟨v, hv, hve⟩ := List.mem_map.1 this
      exact ⟨v, hv, hve⟩
    · exact ⟨u, hu, hue⟩
  · exact ⟨u, List.mem_append_left _ hu, hue⟩

theorem updFirst_mem {α} (P : α → Bool) (f : α → α) (l : List α) (a : α) (ha : a ∈ l) :
    a ∈ updFirst P f l ∨ (P a = true ∧ f a ∈ updFirst P f l) := by
  induction l with
  | nil => cases ha
  | cons b l ih =>
    unfold updFirst
    by_cases hP : P b = true
    · simp only [hP, if_true]
      rcases List.mem_cons.1 ha with rfl | ha'
      · exact Or.inr ⟨hP, List.mem_cons_self ..⟩
      · exact Or.inl (List.mem_cons_of_mem _ ha')
    · simp only [hP, Bool.false_eq_true, if_false]
      rcases List.mem_cons.1 ha with rfl | ha'
      · exact Or.inl (List.mem_cons_self ..)
      · rcases ih ha' with h | h
        · exact Or.inl (List.mem_cons_of_mem _ h)
        · exact Or.inr ⟨h.1, List.mem_cons_of_mem _ h.2⟩

theorem updFirst_first {α} (P : α → Bool) (f : α → α) (l : List α) (h : l.any P = true) :
    ∃ a ∈ l, P a = true ∧ f a ∈ updFirst P f l := by
  induction l with
  | nil => simp at h
  | cons b l ih =>
    unfold updFirst
    by_cases hP : P b = true
    · simp only [hP, if_true]
      exact ⟨b, List.mem_cons_self .., hP, List.mem_cons_self ..⟩
    · simp only [hP, Bool.false_eq_true, if_false]
      have : l.any P = true := by simpa [List.any_cons, hP] using h
      obtain ⟨a, ha, hPa, hfa⟩ := ih this
      exact ⟨a, List.mem_cons_of_mem _ ha, hPa, List.mem_cons_of_mem _ hfa⟩

theorem modifyConnector_covers (q : List Action) (c : Nat) (e : End) (p : CEnd) (f : Bool) :
    Covered (modifyConnector q c e p f) c e := by
  unfold modifyConnector
  cases hh : hasAct q .connChange c with
  | true =>
    simp only [if_true]
    have hany : q.any (fun a => a.kind == .connChange && a.id == c) = true := by
      unfold hasAct at hh
      obtain ⟨a, ha⟩ := Option.isSome_iff_exists.1 hh
      obtain ⟨ham, hak, hai⟩ := findAct_some ha
      exact List.any_eq_true.2 ⟨a, ham, by simp [hak, hai]⟩
    obtain ⟨a, _, hPa, hfa⟩ := updFirst_first _ (fun a => { a with conns := addConnEndUpdate a.conns e p f }) q hany
    simp only [Bool.and_eq_true, beq_iff_eq] at hPa
    exact ⟨_, hfa, hPa.1, hPa.2, addConnEndUpdate_has a.conns e p f⟩
  | false =>
    simp only [Bool.false_eq_true, if_false]
    exact ⟨_, List.mem_append_right _ (List.mem_singleton.2 rfl), rfl, rfl, (e, p), by simp, rfl⟩

theorem modifyConnector_mono (q : List Action) (c : Nat) (e : End) (p : CEnd) (f : Bool) (c' : Nat) (e' : End)
    (h : Covered q c' e') : Covered (modifyConnector q c e p f) c' e' := by
  obtain ⟨a, ha, hk, hi, hu⟩ := h
  unfold modifyConnector
  split
  · rcases updFirst_mem (fun a => a.kind == .connChange && a.id == c)
        (fun a => { a with conns := addConnEndUpdate a.conns e p f }) q a ha with h1 | h1
    · exact ⟨a, h1, hk, hi, hu⟩
    · exact ⟨_, h1.2, hk, hi, addConnEndUpdate_keeps a.conns e p f e' hu⟩
  · exact ⟨a, List.mem_append_left _ ha, hk, hi, hu⟩

theorem refresh_mono (ts : List (Nat × End × CEnd)) (q : List Action) (c' : Nat) (e' : End) (h : Covered q c' e') :
    Covered (ts.foldl (fun q t => modifyConnector q t.1 t.2.1 t.2.2 true) q) c' e' := by
  induction ts generalizing q with
  | nil => exact h
  | cons t ts ih => exact ih _ (modifyConnector_mono q _ _ _ _ c' e' h)

theorem refresh_covers (ts : List (Nat × End × CEnd)) (q : List Action) (t : Nat × End × CEnd) (ht : t ∈ ts) :
    Covered (ts.foldl (fun q t => modifyConnector q t.1 t.2.1 t.2.2 true) q) t.1 t.2.1 := by
  induction ts generalizing q with
  | nil => cases ht
  | cons t' ts ih =>
    simp only [List.foldl_cons]
    rcases List.mem_cons.1 ht with rfl | ht'
    · exact refresh_mono ts _ _ _ (modifyConnector_covers q _ _ _ _)
    · exact ih _ ht'

theorem genPinMoves_covers (sc : Scene) (q : List Action) (a : Action) (ha : a ∈ q) (hk : a.kind = .move)
    (t : Nat × End × CEnd) (ht : t ∈ attachedEnds sc a.id) : Covered (genPinMoves sc q) t.1 t.2.1 := by
  unfold genPinMoves
  have mono : ∀ (l acc : List Action), Covered acc t.1 t.2.1 →
      Covered (l.foldl (fun acc a => if a.kind == .move then moveAttachedConns sc acc a.id else acc) acc) t.1 t.2.1 := by
    intro l
    induction l with
    | nil => intro acc h; exact h
    | cons b l ih =>
      intro acc h
      simp only [List.foldl_cons]
      apply ih
      split
      · exact refresh_mono _ _ _ _ h
      · exact h
  suffices h : ∀ (l acc : List Action), a ∈ l →
      Covered (l.foldl (fun acc a => if a.kind == .move then moveAttachedConns sc acc a.id else acc) acc) t.1 t.2.1 from
    h q q ha
  intro l
  induction l with
  | nil => intro acc h; cases h
  | cons b l ih =>
    intro acc hmem
    simp only [List.foldl_cons]
    rcases List.mem_cons.1 hmem with rfl | hmem'
    · apply mono
      simp only [hk, beq_self_eq_true, if_true]
      exact refresh_covers _ _ t ht
    · exact ih _ hmem'

/-- **Flush theorem**: the scene produced by `processActions` (sort + three loops) shows exactly
    what the pending queue promised. -/
theorem view_processActions (st : State) (h : Inv st) :
    view (processActions st).scene = pending st := by
  have hpm : view (processActions st).scene = view (runPasses st.scene (sortActions st.queue)) :=
    view_runPasses_genPinMoves st.scene h.connFind _
  rw [hpm]
  apply AScene.ext'
  · intro id
    simp only [view, pending, processActions]
    by_cases hex : ∃ a ∈ st.queue, a.isConn = false ∧ a.id = id
    · obtain ⟨a, ha, hc, rfl⟩ := hex
      rw [findObst_runPasses_some _ _ h.uniq a ha hc]
      have hk := (isConn_false_iff a).1 hc
      have e1 := findAct_of_mem h.uniq ha .remove (by simp [hk])
      have e2 := findAct_of_mem h.uniq ha .move (by simp [hk])
      have e3 := findAct_of_mem h.uniq ha .add (by simp [hk])
      simp only [hasAct, e1, e2, e3]
      unfold f1 f2
      cases hfo : findObst st.scene a.id with
      | none => cases hka : a.kind <;> simp
      | some o => cases hka : a.kind <;> simp_all
    · have hno := no_obst_act hex
      rw [findObst_runPasses_none _ _ _ hno]
      have e1 := findAct_none_of_no .remove (by decide) hno
      have e2 := findAct_none_of_no .move (by decide) hno
      have e3 := findAct_none_of_no .add (by decide) hno
      simp only [hasAct, e1, e2, e3]
      cases hfo : findObst st.scene id with
      | none => rfl
      | some o => simp
  · intro c
    simp only [view, pending, processActions]
    by_cases hex : ∃ a ∈ st.queue, a.isConn = true ∧ a.id = c
    · obtain ⟨a, ha, hc, rfl⟩ := hex
      rw [findConn_runPasses_some _ _ h.uniq a ha hc]
      have hk := (isConn_iff a).1 hc
      have e1 := findAct_of_mem h.uniq ha .connChange (by simp [hk])
      simp only [e1, hk, if_true]
      unfold g3
      cases hfo : findConn st.scene a.id with
      | none => simp
      | some k => simp [hk]
    · have hno := no_conn_act hex
      rw [findConn_runPasses_none _ _ _ hno, findAct_conn_none_of_no hno]

/-- after `processActions` the queue is empty and the invariant holds again -/
theorem inv_processActions (st : State) (h : Inv st) : Inv (processActions st) := by
  refine ⟨by simp [processActions], by simp [processActions], by simp [processActions], ?_, by simp [processActions],
    connUniq_runPasses h.connFind _⟩
  intro id o ho hact
  exfalso
  simp only [processActions, findObst_runPasses_genPinMoves] at ho
  by_cases hex : ∃ a ∈ st.queue, a.isConn = false ∧ a.id = id
  · obtain ⟨a, ha, hc, rfl⟩ := hex
    rw [findObst_runPasses_some _ _ h.uniq a ha hc] at ho
    have hk := (isConn_false_iff a).1 hc
    unfold f1 f2 at ho
    cases hfo : findObst st.scene a.id with
    | none => cases hka : a.kind <;> simp [hka, hfo] at ho
    | some o' =>
      cases hka : a.kind
      · simp [hka, hfo] at ho; subst ho; simp at hact
      · simp [hka, hfo] at ho; subst ho; simp at hact
      · simp [hka, hfo] at ho
      · exact hk hka
  · have hno := no_obst_act hex
    rw [findObst_runPasses_none _ _ _ hno] at ho
    have := h.inactiveAdd id o ho hact
    simp [hasAct, findAct_none_of_no .add (by decide) hno] at this

/-- the processing ORDER of a duplicate-free queue is irrelevant for the resulting scene: any
    permutation of the queue (in particular the unsorted queue itself) yields the same look-ups as the
    sorted one. (The sort matters only for the order of visibility-graph updates, not modelled.) -/
theorem runPasses_perm (sc : Scene) (q l : List Action) (hp : l.Perm q) (hu : q.Pairwise Rel) :
    view (runPasses sc l) = view (runPasses sc (sortActions q)) := by
  apply AScene.ext'
  · intro id
    simp only [view]
    by_cases hex : ∃ a ∈ q, a.isConn = false ∧ a.id = id
    · obtain ⟨a, ha, hc, rfl⟩ := hex
      rw [findObst_runPasses_some' sc q l hp hu a ha hc, findObst_runPasses_some sc q hu a ha hc]
    · have hno := no_obst_act hex
      rw [findObst_runPasses_none' sc q l hp id hno, findObst_runPasses_none sc q id hno]
  · intro c
    simp only [view]
    by_cases hex : ∃ a ∈ q, a.isConn = true ∧ a.id = c
    · obtain ⟨a, ha, hc, rfl⟩ := hex
      rw [findConn_runPasses_some' sc q l hp hu a ha hc, findConn_runPasses_some sc q hu a ha hc]
    · have hno := no_conn_act hex
      rw [findConn_runPasses_none' sc q l hp c hno, findConn_runPasses_none sc q c hno]

end AdaptaVerif.Lemmas.ActionQueue
