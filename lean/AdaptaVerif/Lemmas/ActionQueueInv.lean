/-
C06: the queue invariant, and the flush theorem
`view (processActions st).scene = pending st` (what the three loops of `Router::processActions`
produce, after `actionList.sort()`, is what the queue look-ups promise).
-/
import AdaptaVerif.Lemmas.ActionQueue
namespace AdaptaVerif.Lemmas.ActionQueue
open AdaptaVerif.Model.ActionQueue AdaptaVerif.Spec.Scene

/-- two queued actions never concern the same object (obstacle ids and connector ids are compared
    within their class) -/
def Rel (a b : Action) : Prop := a.isConn = b.isConn → a.id ≠ b.id

theorem Rel.symm {a b : Action} (h : Rel a b) : Rel b a := fun e he => h e.symm he.symm

/-- invariant of every state reachable by legal calls -/
structure Inv (st : State) : Prop where
  /-- at most one queued action per object -/
  uniq : st.queue.Pairwise Rel
  /-- queued obstacle actions refer to existing obstacles -/
  obstRef : ∀ a ∈ st.queue, a.isConn = false → (findObst st.scene a.id).isSome = true
  /-- queued connector changes refer to existing connectors -/
  connRef : ∀ a ∈ st.queue, a.isConn = true → (findConn st.scene a.id).isSome = true
  /-- an obstacle is inactive only while its `Add` is still queued -/
  inactiveAdd : ∀ id o, findObst st.scene id = some o → o.active = false → hasAct st.queue .add id = true
  /-- the queued endpoint updates of one `ConnChange` concern distinct ends (`addConnEndUpdate`) -/
  endsDistinct : ∀ a ∈ st.queue, a.conns.Pairwise (fun u v => u.1 ≠ v.1)

theorem isConn_iff (a : Action) : a.isConn = true ↔ a.kind = .connChange := by
  unfold Action.isConn; cases a.kind <;> simp

theorem isConn_false_iff (a : Action) : a.isConn = false ↔ a.kind ≠ .connChange := by
  unfold Action.isConn; cases a.kind <;> simp

theorem findAct_some {q : List Action} {k : Kind} {id : Nat} {b : Action} (h : findAct q k id = some b) :
    b ∈ q ∧ b.kind = k ∧ b.id = id := by
  unfold findAct at h
  have h1 := List.mem_of_find?_eq_some h
  have h2 := List.find?_some h
  simp only [Bool.and_eq_true, beq_iff_eq] at h2
  exact ⟨h1, h2.1, h2.2⟩

theorem findAct_none {q : List Action} {k : Kind} {id : Nat} (h : findAct q k id = none) :
    ∀ b ∈ q, ¬(b.kind = k ∧ b.id = id) := by
  unfold findAct at h
  intro b hb hh
  have := List.find?_eq_none.1 h b hb
  simp [hh.1, hh.2] at this

/-- under the invariant the code's `find(… ActionInfo(k, obj))` finds THE action of the object -/
theorem findAct_of_mem {q : List Action} (hu : q.Pairwise Rel) {a : Action} (ha : a ∈ q) (k : Kind)
    (hk : (k = .connChange) = (a.kind = .connChange)) :
    findAct q k a.id = if a.kind = k then some a else none := by
  cases h : findAct q k a.id with
  | some b =>
    obtain ⟨hb, hbk, hbi⟩ := findAct_some h
    have : b = a := by
      apply uniq_of_pairwise hu hb ha
      · intro hr; apply hr _ hbi
        unfold Action.isConn; rw [hbk]; cases hka : a.kind <;> cases k <;> first | rfl | simp_all
      · intro hr; apply hr _ hbi.symm
        unfold Action.isConn; rw [hbk]; cases hka : a.kind <;> cases k <;> first | rfl | simp_all
    subst this
    simp [hbk]
  | none =>
    have := findAct_none h a ha
    by_cases hka : a.kind = k
    · exact absurd ⟨hka, rfl⟩ this
    · simp [hka]

theorem findAct_none_of_no {q : List Action} {id : Nat} (k : Kind) (hk : k ≠ .connChange)
    (h : ∀ b ∈ q, b.isConn = true ∨ b.id ≠ id) : findAct q k id = none := by
  cases hf : findAct q k id with
  | none => rfl
  | some b =>
    obtain ⟨hb, hbk, hbi⟩ := findAct_some hf
    rcases h b hb with h1 | h1
    · rw [isConn_iff, hbk] at h1; exact absurd h1 hk
    · exact absurd hbi h1

theorem f1_noop (b : Action) (id : Nat) (h : b.isConn = true ∨ b.id ≠ id) (y : Option Obst) : f1 b id y = y := by
  unfold f1
  rcases h with h | h
  · rw [isConn_iff] at h; simp [h]
  · simp [h]

theorem f2_noop (b : Action) (id : Nat) (h : b.isConn = true ∨ b.id ≠ id) (y : Option Obst) : f2 b id y = y := by
  unfold f2
  rcases h with h | h
  · rw [isConn_iff] at h; simp [h]
  · simp [h]

theorem g3_noop (b : Action) (c : Nat) (h : b.isConn = false ∨ b.id ≠ c) (y : Option Conn) : g3 b c y = y := by
  unfold g3
  rcases h with h | h
  · rw [isConn_false_iff] at h; simp [h]
  · simp [h]

theorem insertAct_perm (a : Action) (l : List Action) : (insertAct a l).Perm (a :: l) := by
  induction l with
  | nil => exact List.Perm.refl _
  | cons b l ih =>
    unfold insertAct
    split
    · exact List.Perm.refl _
    · exact (List.Perm.cons b ih).trans (List.Perm.swap a b l)

theorem sortActions_perm (q : List Action) : (sortActions q).Perm q := by
  induction q with
  | nil => exact List.Perm.refl _
  | cons a q ih =>
    show (insertAct a (sortActions q)).Perm (a :: q)
    exact (insertAct_perm a _).trans (List.Perm.cons a ih)

theorem sort_uniq {q : List Action} (hu : q.Pairwise Rel) : (sortActions q).Pairwise Rel :=
  (List.Perm.pairwise_iff (fun h => Rel.symm h) (sortActions_perm q)).2 hu

theorem mem_sort {q : List Action} {a : Action} : a ∈ sortActions q ↔ a ∈ q := (sortActions_perm q).mem_iff

/-- split of a duplicate-free list around one of its members -/
theorem split_uniq {q : List Action} (hu : q.Pairwise Rel) {a : Action} (ha : a ∈ q) :
    ∃ l1 l2, q = l1 ++ a :: l2 ∧ (∀ b ∈ l1, Rel b a) ∧ (∀ b ∈ l2, Rel a b) := by
  obtain ⟨l1, l2, rfl⟩ := List.append_of_mem ha
  refine ⟨l1, l2, rfl, ?_, ?_⟩
  · intro b hb
    rw [List.pairwise_append] at hu
    exact hu.2.2 b hb a (List.mem_cons_self ..)
  · intro b hb
    rw [List.pairwise_append, List.pairwise_cons] at hu
    exact hu.2.1.1 b hb

theorem findObst_runPasses_none' (sc : Scene) (q l : List Action) (hp : l.Perm q) (id : Nat)
    (h : ∀ b ∈ q, b.isConn = true ∨ b.id ≠ id) :
    findObst (runPasses sc l) id = findObst sc id := by
  have h' : ∀ b ∈ l, b.isConn = true ∨ b.id ≠ id := fun b hb => h b (hp.mem_iff.1 hb)
  unfold runPasses
  rw [findObst_fold3, findObst_fold2, findObst_fold1]
  rw [fold_noop (fun a => f1 a id) _ _ (fun b hb y => f1_noop b id (h' b hb) y)]
  rw [fold_noop (fun a => f2 a id) _ _ (fun b hb y => f2_noop b id (h' b hb) y)]

theorem findObst_runPasses_some' (sc : Scene) (q l : List Action) (hp : l.Perm q) (hu : q.Pairwise Rel)
    (a : Action) (ha : a ∈ q) (hc : a.isConn = false) :
    findObst (runPasses sc l) a.id = f2 a a.id (f1 a a.id (findObst sc a.id)) := by
  have hul : l.Pairwise Rel := (List.Perm.pairwise_iff (fun h => Rel.symm h) hp).2 hu
  obtain ⟨l1, l2, hq, h1, h2⟩ := split_uniq hul (hp.mem_iff.2 ha)
  have n1 : ∀ b ∈ l1, b.isConn = true ∨ b.id ≠ a.id := by
    intro b hb
    by_cases hbc : b.isConn = true
    · exact Or.inl hbc
    · exact Or.inr (h1 b hb (by simp_all))
  have n2 : ∀ b ∈ l2, b.isConn = true ∨ b.id ≠ a.id := by
    intro b hb
    by_cases hbc : b.isConn = true
    · exact Or.inl hbc
    · exact Or.inr (fun e => h2 b hb (by simp_all) e.symm)
  unfold runPasses
  rw [findObst_fold3, findObst_fold2, findObst_fold1, hq]
  rw [fold_single (fun a' => f1 a' a.id) l1 l2 a _ (fun b hb y => f1_noop b _ (n1 b hb) y)
        (fun b hb y => f1_noop b _ (n2 b hb) y)]
  rw [fold_single (fun a' => f2 a' a.id) l1 l2 a _ (fun b hb y => f2_noop b _ (n1 b hb) y)
        (fun b hb y => f2_noop b _ (n2 b hb) y)]

theorem findConn_runPasses_none' (sc : Scene) (q l : List Action) (hp : l.Perm q) (c : Nat)
    (h : ∀ b ∈ q, b.isConn = false ∨ b.id ≠ c) :
    findConn (runPasses sc l) c = findConn sc c := by
  have h' : ∀ b ∈ l, b.isConn = false ∨ b.id ≠ c := fun b hb => h b (hp.mem_iff.1 hb)
  unfold runPasses
  rw [findConn_fold3, findConn_fold2, findConn_fold1]
  rw [fold_noop (fun a => g3 a c) _ _ (fun b hb y => g3_noop b c (h' b hb) y)]

theorem findConn_runPasses_some' (sc : Scene) (q l : List Action) (hp : l.Perm q) (hu : q.Pairwise Rel)
    (a : Action) (ha : a ∈ q) (hc : a.isConn = true) :
    findConn (runPasses sc l) a.id = g3 a a.id (findConn sc a.id) := by
  have hul : l.Pairwise Rel := (List.Perm.pairwise_iff (fun h => Rel.symm h) hp).2 hu
  obtain ⟨l1, l2, hq, h1, h2⟩ := split_uniq hul (hp.mem_iff.2 ha)
  have n1 : ∀ b ∈ l1, b.isConn = false ∨ b.id ≠ a.id := by
    intro b hb
    by_cases hbc : b.isConn = false
    · exact Or.inl hbc
    · exact Or.inr (h1 b hb (by simp_all))
  have n2 : ∀ b ∈ l2, b.isConn = false ∨ b.id ≠ a.id := by
    intro b hb
    by_cases hbc : b.isConn = false
    · exact Or.inl hbc
    · exact Or.inr (fun e => h2 b hb (by simp_all) e.symm)
  unfold runPasses
  rw [findConn_fold3, findConn_fold2, findConn_fold1, hq]
  rw [fold_single (fun a' => g3 a' a.id) l1 l2 a _ (fun b hb y => g3_noop b _ (n1 b hb) y)
        (fun b hb y => g3_noop b _ (n2 b hb) y)]

theorem findObst_runPasses_none (sc : Scene) (q : List Action) (id : Nat)
    (h : ∀ b ∈ q, b.isConn = true ∨ b.id ≠ id) :
    findObst (runPasses sc (sortActions q)) id = findObst sc id :=
  findObst_runPasses_none' sc q _ (sortActions_perm q) id h

theorem findObst_runPasses_some (sc : Scene) (q : List Action) (hu : q.Pairwise Rel) (a : Action)
    (ha : a ∈ q) (hc : a.isConn = false) :
    findObst (runPasses sc (sortActions q)) a.id = f2 a a.id (f1 a a.id (findObst sc a.id)) :=
  findObst_runPasses_some' sc q _ (sortActions_perm q) hu a ha hc

theorem findConn_runPasses_none (sc : Scene) (q : List Action) (c : Nat)
    (h : ∀ b ∈ q, b.isConn = false ∨ b.id ≠ c) :
    findConn (runPasses sc (sortActions q)) c = findConn sc c :=
  findConn_runPasses_none' sc q _ (sortActions_perm q) c h

theorem findConn_runPasses_some (sc : Scene) (q : List Action) (hu : q.Pairwise Rel) (a : Action)
    (ha : a ∈ q) (hc : a.isConn = true) :
    findConn (runPasses sc (sortActions q)) a.id = g3 a a.id (findConn sc a.id) :=
  findConn_runPasses_some' sc q _ (sortActions_perm q) hu a ha hc

theorem no_obst_act {q : List Action} {id : Nat} (hex : ¬∃ a ∈ q, a.isConn = false ∧ a.id = id) :
    ∀ b ∈ q, b.isConn = true ∨ b.id ≠ id := by
  intro b hb
  by_cases hc : b.isConn = true
  · exact Or.inl hc
  · refine Or.inr fun e => hex ⟨b, hb, by simpa using hc, e⟩

theorem no_conn_act {q : List Action} {id : Nat} (hex : ¬∃ a ∈ q, a.isConn = true ∧ a.id = id) :
    ∀ b ∈ q, b.isConn = false ∨ b.id ≠ id := by
  intro b hb
  by_cases hc : b.isConn = false
  · exact Or.inl hc
  · refine Or.inr fun e => hex ⟨b, hb, by simpa using hc, e⟩

theorem findAct_conn_none_of_no {q : List Action} {id : Nat}
    (h : ∀ b ∈ q, b.isConn = false ∨ b.id ≠ id) : findAct q .connChange id = none := by
  cases hf : findAct q .connChange id with
  | none => rfl
  | some b =>
    obtain ⟨hb, hbk, hbi⟩ := findAct_some hf
    rcases h b hb with h1 | h1
    · rw [isConn_false_iff] at h1; exact absurd hbk h1
    · exact absurd hbi h1

/-- **Flush theorem**: the scene produced by `processActions` (sort + three loops) shows exactly
    what the pending queue promised. -/
theorem view_processActions (st : State) (h : Inv st) :
    view (processActions st).scene = pending st := by
  apply AScene.ext'
  · intro id
    simp only [view, pending, processActions]
    by_cases hex : ∃ a ∈ st.queue, a.isConn = false ∧ a.id = id
    · obtain ⟨a, ha, hc, rfl⟩ := hex
      rw [findObst_runPasses_some _ _ h.uniq a ha hc]
      have hk := (isConn_false_iff a).1 hc
      have e1 := findAct_of_mem h.uniq ha .remove (by simp [hk])
      have e2 := findAct_of_mem h.uniq ha .move (by simp [hk])
      have e3 := findAct_of_mem h.uniq ha .add (by simp [hk])
      simp only [hasAct, e1, e2, e3]
      unfold f1 f2
      cases hfo : findObst st.scene a.id with
      | none => cases hka : a.kind <;> simp
      | some o => cases hka : a.kind <;> simp_all
    · have hno := no_obst_act hex
      rw [findObst_runPasses_none _ _ _ hno]
      have e1 := findAct_none_of_no .remove (by decide) hno
      have e2 := findAct_none_of_no .move (by decide) hno
      have e3 := findAct_none_of_no .add (by decide) hno
      simp only [hasAct, e1, e2, e3]
      cases hfo : findObst st.scene id with
      | none => rfl
      | some o => simp
  · intro c
    simp only [view, pending, processActions]
    by_cases hex : ∃ a ∈ st.queue, a.isConn = true ∧ a.id = c
    · obtain ⟨a, ha, hc, rfl⟩ := hex
      rw [findConn_runPasses_some _ _ h.uniq a ha hc]
      have hk := (isConn_iff a).1 hc
      have e1 := findAct_of_mem h.uniq ha .connChange (by simp [hk])
      simp only [e1, hk, if_true]
      unfold g3
      cases hfo : findConn st.scene a.id with
      | none => simp
      | some k => simp [hk]
    · have hno := no_conn_act hex
      rw [findConn_runPasses_none _ _ _ hno, findAct_conn_none_of_no hno]

/-- after `processActions` the queue is empty and the invariant holds again -/
theorem inv_processActions (st : State) (h : Inv st) : Inv (processActions st) := by
  refine ⟨by simp [processActions], by simp [processActions], by simp [processActions], ?_, by simp [processActions]⟩
  intro id o ho hact
  exfalso
  simp only [processActions] at ho
  by_cases hex : ∃ a ∈ st.queue, a.isConn = false ∧ a.id = id
  · obtain ⟨a, ha, hc, rfl⟩ := hex
    rw [findObst_runPasses_some _ _ h.uniq a ha hc] at ho
    have hk := (isConn_false_iff a).1 hc
    unfold f1 f2 at ho
    cases hfo : findObst st.scene a.id with
    | none => cases hka : a.kind <;> simp [hka, hfo] at ho
    | some o' =>
      cases hka : a.kind
      · simp [hka, hfo] at ho; subst ho; simp at hact
      · simp [hka, hfo] at ho; subst ho; simp at hact
      · simp [hka, hfo] at ho
      · exact hk hka
  · have hno := no_obst_act hex
    rw [findObst_runPasses_none _ _ _ hno] at ho
    have := h.inactiveAdd id o ho hact
    simp [hasAct, findAct_none_of_no .add (by decide) hno] at this

/-- the processing ORDER of a duplicate-free queue is irrelevant for the resulting scene: any
    permutation of the queue (in particular the unsorted queue itself) yields the same look-ups as the
    sorted one. (The sort matters only for the order of visibility-graph updates, not modelled.) -/
theorem runPasses_perm (sc : Scene) (q l : List Action) (hp : l.Perm q) (hu : q.Pairwise Rel) :
    view (runPasses sc l) = view (runPasses sc (sortActions q)) := by
  apply AScene.ext'
  · intro id
    simp only [view]
    by_cases hex : ∃ a ∈ q, a.isConn = false ∧ a.id = id
    · obtain ⟨a, ha, hc, rfl⟩ := hex
      rw [findObst_runPasses_some' sc q l hp hu a ha hc, findObst_runPasses_some sc q hu a ha hc]
    · have hno := no_obst_act hex
      rw [findObst_runPasses_none' sc q l hp id hno, findObst_runPasses_none sc q id hno]
  · intro c
    simp only [view]
    by_cases hex : ∃ a ∈ q, a.isConn = true ∧ a.id = c
    · obtain ⟨a, ha, hc, rfl⟩ := hex
      rw [findConn_runPasses_some' sc q l hp hu a ha hc, findConn_runPasses_some sc q hu a ha hc]
    · have hno := no_conn_act hex
      rw [findConn_runPasses_none' sc q l hp c hno, findConn_runPasses_none sc q c hno]

end AdaptaVerif.Lemmas.ActionQueue
