/-
C12: the executable structure check `wfb` of Model/HyperTree (evaluated by the driver on every heap
state the real code produced) decides the invariant `WF` of the theorems.
-/
import AdaptaVerif.Lemmas.HyperTree
namespace AdaptaVerif.Lemmas.HyperTreeWfb
open AdaptaVerif.Model.HyperTree AdaptaVerif.Lemmas.HyperTree

theorem nodupNat_iff (l : List Nat) : nodupNat l = true ↔ l.Nodup := by
  induction l with
  | nil => simp [nodupNat]
  | cons x xs ih => simp [nodupNat, ih]

theorem wfb_sound {t : HTree} (h : wfb t = true) : WF t := by
  simp only [wfb, Bool.and_eq_true, List.all_eq_true] at h
  obtain ⟨⟨⟨⟨⟨hN, hE⟩, hends⟩, hnodes⟩, hf1⟩, hf2⟩ := h
  refine ⟨(nodupNat_iff _).mp hN, (nodupNat_iff _).mp hE, ?_, ?_, ?_, ?_⟩
  · intro e he
    have := hends e he
    split at this
    · rename_i a b h1 h2
      simp only [Bool.and_eq_true, Option.isSome_iff_exists] at this
      obtain ⟨⟨na, hna⟩, ⟨nb, hnb⟩⟩ := this
      obtain ⟨ha1, ha2⟩ := node?_mem hna
      obtain ⟨hb1, hb2⟩ := node?_mem hnb
      exact ⟨a, b, h1, h2, List.mem_map.mpr ⟨na, ha1, ha2⟩, List.mem_map.mpr ⟨nb, hb1, hb2⟩⟩
    · simp at this
  · intro n hn
    exact (nodupNat_iff _).mp (hnodes n hn).1.1
  · intro n hn i
    obtain ⟨⟨_, hall⟩, hback⟩ := hnodes n hn
    constructor
    · intro hi
      have := hall i hi
      split at this
      · rename_i e hE'
        obtain ⟨he, hid⟩ := edge?_mem hE'
        refine ⟨e, he, hid, ?_⟩
        simpa using this
      · simp at this
    · rintro ⟨e, he, rfl, hend⟩
      have := hback e he
      simp only [Bool.or_eq_true, Bool.not_eq_true', List.contains_eq_mem,
        decide_eq_true_eq] at this
      rcases this with h' | h'
      · rcases hend with h1 | h1
        · simp [h1] at h'
        · simp [h1] at h'
      · exact h'
  · exact ⟨fun n hn => by simpa using hf1 n hn, fun e he => by simpa using hf2 e he⟩

end AdaptaVerif.Lemmas.HyperTreeWfb
