/-
Helper lemmas for C12: reachability over edge lists, the union-find labelling invariant,
"appending a bridge keeps a forest a forest".
-/
import AdaptaVerif.Check.Tree
import AdaptaVerif.Spec.Tree
namespace AdaptaVerif.Lemmas.Tree
open AdaptaVerif.Check.Tree AdaptaVerif.Spec.Tree

/-! ### reachability -/

theorem Adj.symm {E : List Edge} {a b : Nat} (h : Adj E a b) : Adj E b a := by
  cases h with
  | inl h => exact Or.inr h
  | inr h => exact Or.inl h

theorem Reach.trans {E : List Edge} {a b c : Nat} (h1 : Reach E a b) (h2 : Reach E b c) :
    Reach E a c := by
  induction h2 with
  | refl => exact h1
  | step _ hadj ih => exact Reach.step ih hadj

theorem Reach.single {E : List Edge} {a b : Nat} (h : Adj E a b) : Reach E a b :=
  Reach.step (Reach.refl a) h

theorem Reach.symm {E : List Edge} {a b : Nat} (h : Reach E a b) : Reach E b a := by
  induction h with
  | refl => exact Reach.refl _
  | step _ hadj ih => exact Reach.trans (Reach.single (Adj.symm hadj)) ih

theorem Reach.mono {E E' : List Edge} (hsub : ∀ e, e ∈ E → e ∈ E') {a b : Nat}
    (h : Reach E a b) : Reach E' a b := by
  induction h with
  | refl => exact Reach.refl _
  | step _ hadj ih =>
    refine Reach.step ih ?_
    cases hadj with
    | inl h => exact Or.inl (hsub _ h)
    | inr h => exact Or.inr (hsub _ h)

theorem reach_nil {a b : Nat} (h : Reach [] a b) : a = b := by
  induction h with
  | refl => rfl
  | step _ hadj _ =>
    cases hadj with
    | inl h => cases h
    | inr h => cases h

theorem adj_snoc {E : List Edge} {c d x y : Nat} (h : Adj (E ++ [(c, d)]) x y) :
    Adj E x y ∨ (x = c ∧ y = d) ∨ (x = d ∧ y = c) := by
  cases h with
  | inl h =>
    rcases List.mem_append.mp h with h | h
    · exact Or.inl (Or.inl h)
    · simp only [List.mem_singleton, Prod.mk.injEq] at h
      exact Or.inr (Or.inl h)
  | inr h =>
    rcases List.mem_append.mp h with h | h
    · exact Or.inl (Or.inr h)
    · simp only [List.mem_singleton, Prod.mk.injEq] at h
      exact Or.inr (Or.inr ⟨h.2, h.1⟩)

/-- a walk in `E` plus one extra edge either avoids the extra edge or can be cut at it -/
theorem reach_snoc {E : List Edge} {c d a b : Nat} (h : Reach (E ++ [(c, d)]) a b) :
    Reach E a b ∨ (Reach E a c ∧ Reach E d b) ∨ (Reach E a d ∧ Reach E c b) := by
  induction h with
  | refl => exact Or.inl (Reach.refl _)
  | step _ hadj ih =>
    rcases adj_snoc hadj with hE | ⟨hx, hy⟩ | ⟨hx, hy⟩
    · rcases ih with h | ⟨h1, h2⟩ | ⟨h1, h2⟩
      · exact Or.inl (Reach.step h hE)
      · exact Or.inr (Or.inl ⟨h1, Reach.step h2 hE⟩)
      · exact Or.inr (Or.inr ⟨h1, Reach.step h2 hE⟩)
    · subst hx; subst hy
      rcases ih with h | ⟨h1, _⟩ | ⟨h1, _⟩
      · exact Or.inr (Or.inl ⟨h, Reach.refl _⟩)
      · exact Or.inr (Or.inl ⟨h1, Reach.refl _⟩)
      · exact Or.inl h1
    · subst hx; subst hy
      rcases ih with h | ⟨h1, _⟩ | ⟨h1, _⟩
      · exact Or.inr (Or.inr ⟨h, Reach.refl _⟩)
      · exact Or.inl h1
      · exact Or.inr (Or.inr ⟨h1, Reach.refl _⟩)

/-! ### forests -/

theorem acyclic_nil : Acyclic [] := by
  intro i h
  cases h

/-- appending an edge between two vertices that are not yet joined keeps every edge a bridge -/
theorem acyclic_snoc {P : List Edge} {a b : Nat} (hP : Acyclic P) (hab : ¬ Reach P a b) :
    Acyclic (P ++ [(a, b)]) := by
  intro i hi hreach
  by_cases hlt : i < P.length
  · -- an old edge
    have hget : (P ++ [(a, b)])[i]'hi = P[i]'hlt := List.getElem_append_left hlt
    have hers : (P ++ [(a, b)]).eraseIdx i = P.eraseIdx i ++ [(a, b)] :=
      List.eraseIdx_append_of_lt_length hlt _
    rw [hget, hers] at hreach
    have hsub : ∀ e, e ∈ P.eraseIdx i → e ∈ P := fun e he => List.mem_of_mem_eraseIdx he
    have hadj : Adj P (P[i]'hlt).1 (P[i]'hlt).2 := Or.inl (List.getElem_mem hlt)
    rcases reach_snoc hreach with h | ⟨h1, h2⟩ | ⟨h1, h2⟩
    · exact hP i hlt h
    · -- a ~ x — y ~ b
      exact hab (Reach.trans (Reach.symm (Reach.mono hsub h1))
        (Reach.trans (Reach.single hadj) (Reach.symm (Reach.mono hsub h2))))
    · exact hab (Reach.symm (Reach.trans (Reach.symm (Reach.mono hsub h1))
        (Reach.trans (Reach.single hadj) (Reach.symm (Reach.mono hsub h2)))))
  · -- the new edge itself
    have hlen : (P ++ [(a, b)]).length = P.length + 1 := by simp
    have hi' : i = P.length := by omega
    subst hi'
    have hget : (P ++ [(a, b)])[P.length]'hi = (a, b) := by simp
    have hers : (P ++ [(a, b)]).eraseIdx P.length = P := by
      rw [List.eraseIdx_append_of_length_le (Nat.le_refl _)]
      simp
    rw [hget, hers] at hreach
    exact hab hreach

/-! ### the labelling invariant -/

/-- two vertices carry the same label iff they are joined by the edges processed so far -/
def Inv (lab : Nat → Nat) (P : List Edge) : Prop := ∀ u v, lab u = lab v ↔ Reach P u v

theorem inv_id : Inv id [] := by
  intro u v
  constructor
  · intro h
    have : u = v := h
    subst this
    exact Reach.refl _
  · intro h
    exact reach_nil h

theorem inv_merge {lab : Nat → Nat} {P : List Edge} {a b : Nat} (hinv : Inv lab P)
    (hne : lab a ≠ lab b) : Inv (merge lab (lab a) (lab b)) (P ++ [(a, b)]) := by
  have hsub : ∀ e, e ∈ P → e ∈ P ++ [(a, b)] := fun e he => List.mem_append.mpr (Or.inl he)
  have hnew : Adj (P ++ [(a, b)]) a b := Or.inl (List.mem_append.mpr (Or.inr (List.mem_singleton.mpr rfl)))
  intro u v
  constructor
  · intro h
    simp only [merge] at h
    by_cases hu : lab u = lab b <;> by_cases hv : lab v = lab b
    · exact Reach.mono hsub ((hinv u v).mp (hu.trans hv.symm))
    · -- u ~ b — a ~ v
      simp only [hu, hv, if_true, if_false] at h
      exact Reach.trans (Reach.mono hsub ((hinv u b).mp hu))
        (Reach.trans (Reach.single (Adj.symm hnew)) (Reach.mono hsub ((hinv a v).mp h)))
    · simp only [hu, hv, if_true, if_false] at h
      exact Reach.trans (Reach.mono hsub ((hinv u a).mp h))
        (Reach.trans (Reach.single hnew) (Reach.mono hsub ((hinv b v).mp hv.symm)))
    · simp only [hu, hv, if_false] at h
      exact Reach.mono hsub ((hinv u v).mp h)
  · intro h
    -- the new labelling is constant along every edge of `P ++ [(a,b)]`
    induction h with
    | refl => rfl
    | step _ hadj ih =>
      refine ih.trans ?_
      rcases adj_snoc hadj with hE | ⟨hx, hy⟩ | ⟨hx, hy⟩
      · have := (hinv _ _).mpr (Reach.single hE)
        simp only [merge, this]
      · subst hx; subst hy
        simp only [merge, hne, if_false, if_true]
      · subst hx; subst hy
        simp only [merge, hne, if_false, if_true]

/-- the union-find pass is exact: it succeeds iff the edge list stays a forest, and then the final
    labelling characterises reachability -/
theorem unionAll_some {R : List Edge} : ∀ {lab lab' : Nat → Nat} {P : List Edge},
    Inv lab P → Acyclic P → unionAll lab R = some lab' → Inv lab' (P ++ R) ∧ Acyclic (P ++ R) := by
  induction R with
  | nil =>
    intro lab lab' P hinv hac h
    simp only [unionAll, Option.some.injEq] at h
    subst h
    simpa using ⟨hinv, hac⟩
  | cons e R ih =>
    intro lab lab' P hinv hac h
    obtain ⟨a, b⟩ := e
    simp only [unionAll] at h
    by_cases hab : lab a = lab b
    · simp [hab] at h
    · simp only [hab, if_false] at h
      have hnr : ¬ Reach P a b := fun hr => hab ((hinv a b).mpr hr)
      have := ih (inv_merge hinv hab) (acyclic_snoc hac hnr) h
      simpa [List.append_assoc] using this

theorem unionAll_none {R : List Edge} : ∀ {lab : Nat → Nat} {P : List Edge},
    Inv lab P → Acyclic P → unionAll lab R = none → ¬ Acyclic (P ++ R) := by
  induction R with
  | nil =>
    intro lab P _ _ h
    simp [unionAll] at h
  | cons e R ih =>
    intro lab P hinv hac h
    obtain ⟨a, b⟩ := e
    simp only [unionAll] at h
    by_cases hab : lab a = lab b
    · -- the edge (a,b) is not a bridge: its ends are already joined inside `P`
      intro hacyc
      have hr : Reach P a b := (hinv a b).mp hab
      have hi : P.length < (P ++ (a, b) :: R).length := by simp
      have hget : (P ++ (a, b) :: R)[P.length]'hi = (a, b) := by simp
      have hers : (P ++ (a, b) :: R).eraseIdx P.length = P ++ R := by
        rw [List.eraseIdx_append_of_length_le (Nat.le_refl _)]
        simp
      have := hacyc P.length hi
      rw [hget, hers] at this
      exact this (Reach.mono (fun e he => List.mem_append.mpr (Or.inl he)) hr)
    · simp only [hab, if_false] at h
      have hnr : ¬ Reach P a b := fun hr => hab ((hinv a b).mpr hr)
      have := ih (inv_merge hinv hab) (acyclic_snoc hac hnr) h
      simpa [List.append_assoc] using this

/-! ### degree / list-set glue -/

theorem contains_iff {l : List Nat} {x : Nat} : l.contains x = true ↔ x ∈ l := by
  simp

end AdaptaVerif.Lemmas.Tree
