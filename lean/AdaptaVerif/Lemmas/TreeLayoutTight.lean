/-
Lemmas about the model of `Tree::symmetricLayout`, part 7: the side placement is tight — the subtree is moved
to the extreme candidate, so on some common rank the gap to what was placed before is exactly `2·nodeSep`
(unless the start value of the running max / min wins).
-/
import AdaptaVerif.Lemmas.TreeLayoutInv
namespace AdaptaVerif.Lemmas.TreeLayout
open AdaptaVerif.Model.TreeLayout

theorem foldl_rmax_mem : ∀ (l : List Rat) (i : Rat), l.foldl rmax i = i ∨ l.foldl rmax i ∈ l
  | [], _ => Or.inl rfl
  | a :: l, i => by
    rw [List.foldl_cons]
    rcases foldl_rmax_mem l (rmax i a) with h | h
    · rw [h]; unfold rmax; split
      · right; exact List.mem_cons_self ..
      · left; rfl
    · right; exact List.mem_cons_of_mem _ h

theorem foldl_rmin_mem : ∀ (l : List Rat) (i : Rat), l.foldl rmin i = i ∨ l.foldl rmin i ∈ l
  | [], _ => Or.inl rfl
  | a :: l, i => by
    rw [List.foldl_cons]
    rcases foldl_rmin_mem l (rmin i a) with h | h
    · rw [h]; unfold rmin; split
      · right; exact List.mem_cons_self ..
      · left; rfl
    · right; exact List.mem_cons_of_mem _ h

theorem zip_tight_pos (d : Dir) (ns R : Rat) (v : Pt) (hv : disp d v = R) :
    ∀ (ts ps : List Level), R ∈ candidates true ns ps ts →
      ∃ x ∈ (ts.map (Level.translate d v)).zip ps, x.2.hi + 2 * ns = x.1.lo
  | [], ps, h => by cases ps <;> simp [candidates] at h
  | _ :: _, [], h => by simp [candidates] at h
  | t :: ts, p :: ps, h => by
    simp only [candidates, List.zipWith_cons_cons, List.mem_cons, if_true] at h
    rcases h with h | h
    · refine ⟨(t.translate d v, p), by simp, ?_⟩
      show p.hi + 2 * ns = t.lo + disp d v
      rw [hv, h]; ring
    · obtain ⟨x, hx, hx'⟩ := zip_tight_pos d ns R v hv ts ps (by simpa [candidates] using h)
      exact ⟨x, by simp only [List.map_cons, List.zip_cons_cons]; exact List.mem_cons_of_mem _ hx, hx'⟩

theorem zip_tight_neg (d : Dir) (ns R : Rat) (v : Pt) (hv : disp d v = R) :
    ∀ (ts ps : List Level), R ∈ candidates false ns ps ts →
      ∃ x ∈ (ts.map (Level.translate d v)).zip ps, x.1.hi + 2 * ns = x.2.lo
  | [], ps, h => by cases ps <;> simp [candidates] at h
  | _ :: _, [], h => by simp [candidates] at h
  | t :: ts, p :: ps, h => by
    simp only [candidates, List.zipWith_cons_cons, List.mem_cons, Bool.false_eq_true, if_false] at h
    rcases h with h | h
    · refine ⟨(t.translate d v, p), by simp, ?_⟩
      show t.hi + disp d v + 2 * ns = p.lo
      rw [hv, h]; ring
    · obtain ⟨x, hx, hx'⟩ := zip_tight_neg d ns R v hv ts ps (by simpa [candidates] using h)
      exact ⟨x, by simp only [List.map_cons, List.zip_cons_cons]; exact List.mem_cons_of_mem _ hx, hx'⟩

/-- the transverse displacement chosen by the side branch -/
def sideRootPos (cfg : Cfg) (st : St) (t : Lay) : Rat :=
  rootPosOf st.positiveNext (candidates st.positiveNext cfg.nodeSep st.rest
    (if st.positiveNext then t else t.flip cfg.dir).levels)

theorem sideMoved_tight (cfg : Cfg) (st : St) (t : Lay) :
    (st.positiveNext = true →
      sideRootPos cfg st t = dblMin ∨
      ∃ x ∈ (sideMoved cfg st t).levels.zip st.rest, x.2.hi + 2 * cfg.nodeSep = x.1.lo) ∧
    (st.positiveNext = false →
      sideRootPos cfg st t = dblMax ∨
      ∃ x ∈ (sideMoved cfg st t).levels.zip st.rest, x.1.hi + 2 * cfg.nodeSep = x.2.lo) := by
  constructor
  · intro hp
    simp only [sideRootPos, sideMoved, hp, if_true, rootPosOf]
    rcases foldl_rmax_mem (candidates true cfg.nodeSep st.rest t.levels) dblMin with h | h
    · left; exact h
    · right
      exact zip_tight_pos cfg.dir cfg.nodeSep _ (sideTrans cfg _) (disp_sideTrans cfg _) _ _ h
  · intro hp
    simp only [sideRootPos, sideMoved, hp, Bool.false_eq_true, if_false, rootPosOf]
    rcases foldl_rmin_mem (candidates false cfg.nodeSep st.rest (t.flip cfg.dir).levels) dblMax with h | h
    · left; exact h
    · right
      exact zip_tight_neg cfg.dir cfg.nodeSep _ (sideTrans cfg _) (disp_sideTrans cfg _) _ _ h

end AdaptaVerif.Lemmas.TreeLayout
