/-
Frames of the static VPSC solver model: the solver never writes the data of a constraint (ends, gap,
equality flag), only `active`; and the constraints of `Solver(vs, cs)` are `cs`.  Used to read the exit
scan of `satisfy` / `solve` as a statement about the INPUT constraints (Props/C09Static).
-/
import AdaptaVerif.Lemmas.VpscStaticRun
namespace AdaptaVerif.Lemmas.VpscStaticFrame
open AdaptaVerif.Model.Vpsc AdaptaVerif.Model.VpscStatic
open AdaptaVerif.Lemmas.VpscInv AdaptaVerif.Lemmas.VpscMerge AdaptaVerif.Lemmas.VpscHistory
open AdaptaVerif.Lemmas.VpscStatic AdaptaVerif.Lemmas.VpscLoop AdaptaVerif.Lemmas.VpscStaticMem

/-- the constraint data (ends, gap, equality flag) of two states agree: the solver only ever writes
    `Constraint::active` -/
def CD (a b : St) : Prop := b.cons.size = a.cons.size ∧ ∀ ci : Nat, SameData (b.cons[ci]!) (a.cons[ci]!)

theorem CD.refl (a : St) : CD a a := ⟨rfl, fun _ => ⟨rfl, rfl, rfl, rfl⟩⟩
theorem CD.trans {a b c : St} (h1 : CD a b) (h2 : CD b c) : CD a c :=
  ⟨h2.1.trans h1.1, fun ci =>
    ⟨(h2.2 ci).1.trans (h1.2 ci).1, (h2.2 ci).2.1.trans (h1.2 ci).2.1,
     (h2.2 ci).2.2.1.trans (h1.2 ci).2.2.1, (h2.2 ci).2.2.2.trans (h1.2 ci).2.2.2⟩⟩
theorem CD.of_eq {a b : St} (h : b.cons = a.cons) : CD a b := by
  unfold CD; rw [h]; exact ⟨rfl, fun _ => ⟨rfl, rfl, rfl, rfl⟩⟩

theorem cd_set_active (cons : Array Con) (ci : Nat) (v : Bool) (c : Nat) :
    SameData ((cons.set! ci { cons[ci]! with active := v })[c]!) (cons[c]!) := by
  rw [cons_set_get]
  split
  · rename_i h; rw [← h.1]; exact ⟨rfl, rfl, rfl, rfl⟩
  · exact ⟨rfl, rfl, rfl, rfl⟩

theorem cd_mergeDir (st : St) (ci dst src : Nat) (d : Rat) : CD st (mergeDir st ci dst src d) := by
  unfold CD
  rw [(mergeDir_core st ci dst src d).2.1]
  exact ⟨set!_size _ _ _, fun c => cd_set_active st.cons ci true c⟩

theorem cd_split (st : St) (old ci : Nat) : CD st (st.split old ci).1 := by
  unfold CD
  rw [split_cons]
  exact ⟨set!_size _ _ _, fun c => cd_set_active st.cons ci false c⟩

theorem cd_mergeLeftLoop : ∀ (fuel : Nat) (s : SSt) (r : Nat), CD s.st (mergeLeftLoop fuel s r).st
  | 0, s, _ => CD.refl s.st
  | fuel + 1, s, r => by
    unfold mergeLeftLoop
    simp only
    split
    · exact CD.refl s.st
    · split
      · refine CD.trans ?_ (cd_mergeLeftLoop fuel _ _)
        rw [mergeLeftStep_st]
        exact cd_mergeDir _ _ _ _ _
      · exact CD.refl s.st

theorem cd_mergeRightLoop : ∀ (fuel : Nat) (s : SSt) (l : Nat), CD s.st (mergeRightLoop fuel s l).st
  | 0, s, _ => CD.refl s.st
  | fuel + 1, s, l => by
    unfold mergeRightLoop
    simp only
    split
    · exact CD.refl s.st
    · split
      · refine CD.trans ?_ (cd_mergeRightLoop fuel _ _)
        rw [mergeRightStep_st]
        exact cd_mergeDir _ _ _ _ _
      · exact CD.refl s.st

theorem cd_mergeLeft (s : SSt) (r : Nat) : CD s.st (mergeLeft s r).st := by
  rw [mergeLeft_eq]; exact cd_mergeLeftLoop _ _ _

theorem cd_mergeRight (s : SSt) (l : Nat) : CD s.st (mergeRight s l).st := by
  rw [mergeRight_eq]; exact cd_mergeRightLoop _ _ _

theorem cd_satisfyStep (s : SSt) (v : Nat) : CD s.st (satisfyStep s v).st := by
  unfold satisfyStep
  simp only
  split
  · exact CD.refl s.st
  · exact cd_mergeLeft s _

theorem cd_foldl_satisfyStep : ∀ (l : List Nat) (s : SSt), CD s.st (l.foldl satisfyStep s).st
  | [], s => CD.refl s.st
  | v :: rest, s => by
    rw [List.foldl_cons]
    exact (cd_satisfyStep s v).trans (cd_foldl_satisfyStep rest _)

theorem cd_satisfy (s : SSt) : CD s.st (s.satisfy).1.st := by
  rw [(satisfy_cases s).1]
  have h1 : CD s.st ((totalOrder s.st).1.foldl satisfyStep
      { st := s.st, hs := if (totalOrder s.st).2 = true then s.hs else s.hs.out }).st :=
    cd_foldl_satisfyStep (totalOrder s.st).1 { st := s.st, hs := if (totalOrder s.st).2 = true then s.hs else s.hs.out }
  have h2 : (satisfyCore s).st.cons = ((totalOrder s.st).1.foldl satisfyStep
      { st := s.st, hs := if (totalOrder s.st).2 = true then s.hs else s.hs.out }).st.cons := rfl
  exact h1.trans (CD.of_eq h2)

theorem cd_splitStatic (s : SSt) (b c : Nat) : CD s.st (splitStatic s b c).st := by
  have a1 : CD s.st (splitPre s b c).1.st := by
    rw [splitPre_st]
    exact (cd_split s.st b c).trans (CD.of_eq (by simp [setPosn, St.insertBlocks]))
  have a2 := a1.trans (cd_mergeLeft (splitPre s b c).1 (splitPre s b c).2)
  have a3 : CD s.st (splitMid (mergeLeft (splitPre s b c).1 (splitPre s b c).2) c).1.st := by
    rw [splitMid_st]
    exact a2.trans (CD.of_eq (refreshBlock_core _ _).2.1)
  have a4 := a3.trans (cd_mergeRight (splitMid (mergeLeft (splitPre s b c).1 (splitPre s b c).2) c).1
    (splitMid (mergeLeft (splitPre s b c).1 (splitPre s b c).2) c).2)
  rw [splitStatic_st]
  exact a4.trans (CD.of_eq (by simp [St.markDeleted]))

theorem cleanup_st (s : SSt) : s.cleanup.st = s.st.cleanup := rfl
theorem cleanup_cons (st : St) : st.cleanup.cons = st.cons := rfl

theorem cd_refineTry (s : SSt) (b : Nat) : CD s.st (refineTry s b).1.st := by
  have hc : CD s.st (s.st.findMinLM b).1 := CD.of_eq (findMinLM_spec s.st b).2.1
  unfold refineTry
  simp only
  split
  · exact hc
  · rename_i ci lmv gap heq
    split
    · rw [cleanup_st]
      have h2 := cd_splitStatic (SSt.mk (s.st.findMinLM b).1
        ((s.hs.note (lmv - LAGRANGIAN_TOLERANCE)).noteCmp gap)) b ci
      exact (hc.trans h2).trans (CD.of_eq (cleanup_cons _))
    · exact hc

theorem cd_refineScan : ∀ (l : List Nat) (s : SSt), CD s.st (refineScan s l).1.st
  | [], s => CD.refl s.st
  | b :: rest, s => by
    unfold refineScan
    simp only
    split
    · exact cd_refineTry s b
    · exact (cd_refineTry s b).trans (cd_refineScan rest _)

theorem cd_refineLoop : ∀ (tries : Nat) (s : SSt), CD s.st (refineLoop tries s).st
  | 0, s => CD.refl s.st
  | tries + 1, s => by
    unfold refineLoop
    simp only
    have h1 : CD s.st (refineScan (refineSetUp { s with hs := { s.hs with nRounds := s.hs.nRounds + 1 } })
        (refineSetUp { s with hs := { s.hs with nRounds := s.hs.nRounds + 1 } }).st.order.toList).1.st :=
      cd_refineScan _ _
    split
    · exact h1.trans (cd_refineLoop tries _)
    · exact h1

theorem cd_solve (s : SSt) : CD s.st (s.solve).1.st := by
  rcases (solve_cases s).2 with h | h
  · rw [h]
    exact (cd_satisfy s).trans (cd_refineLoop 100 _)
  · rw [h]; exact cd_satisfy s

/-- the constraints of `Solver(vs, cs)` are `cs` -/
theorem foldl_addConstraint_cons : ∀ (cs : List Con) (st : St),
    (cs.foldl (fun st c => st.addConstraint c) st).cons.toList =
      st.cons.toList ++ cs.map (fun c => { c with active := false })
  | [], st => by simp
  | c :: rest, st => by
    rw [List.foldl_cons, foldl_addConstraint_cons rest, addConstraint_cons]
    simp

theorem init_cons (vs : Array (Rat × Rat × Rat)) (cs : Array Con) :
    (St.init vs cs).cons.size = cs.size ∧
    ∀ ci : Nat, ci < cs.size → SameData ((St.init vs cs).cons[ci]!) (cs[ci]!) := by
  have h : (St.init vs cs).cons.toList = cs.toList.map (fun c => { c with active := false }) := by
    unfold St.init
    simp only
    rw [← Array.foldl_toList, foldl_addConstraint_cons]
    simp
  have hsz : (St.init vs cs).cons.size = cs.size := by
    have := congrArg List.length h
    simpa using this
  refine ⟨hsz, fun ci hci => ?_⟩
  have e1 : (St.init vs cs).cons[ci]! = (St.init vs cs).cons.toList[ci]! := by
    rw [getElem!_pos _ ci (by rw [hsz]; exact hci), getElem!_pos _ ci (by simpa [hsz] using hci)]
    simp
  rw [e1, h]
  rw [getElem!_pos _ ci (by simpa using hci), getElem!_pos cs ci hci]
  simp only [List.getElem_map, Array.getElem_toList]
  exact ⟨rfl, rfl, rfl, rfl⟩

end AdaptaVerif.Lemmas.VpscStaticFrame
