/-
C15 (A) — helper lemmas: the queue-independent core invariant of the Router lifecycle model and its
preservation by every primitive of `Model/Lifecycle.lean`.

`Core g s`: `g` is a list of "ghost" pin ids — pins that have left their owner's set but whose memory
has not been released yet (`~ShapeConnectionPin` between `Obstacle::removeConnectionPin` and the end of
the destructor; a transaction may be processed in between when transactions are off).  Between
operations `g = []`.
-/
import AdaptaVerif.Spec.Lifecycle
namespace AdaptaVerif.Lemmas.Lifecycle
open AdaptaVerif.Model.Lifecycle AdaptaVerif.Spec.Lifecycle

def oids (s : St) : List Id := s.obst.map (·.id)
def cids (s : St) : List Id := s.conns.map (·.id)
def pids (s : St) : List Id := s.pins.map (·.id)
def kids (s : St) : List Id := s.clusters.map (·.id)

theorem allocated_eq (s : St) : s.allocated = oids s ++ cids s ++ pids s ++ kids s := rfl

theorem hasObst_iff {s : St} {o : Id} : s.hasObst o = true ↔ o ∈ oids s := by
  simp [St.hasObst, oids, List.any_eq_true]

theorem hasConn_iff {s : St} {o : Id} : s.hasConn o = true ↔ o ∈ cids s := by
  simp [St.hasConn, cids, List.any_eq_true]

theorem hasPin_iff {s : St} {o : Id} : s.hasPin o = true ↔ o ∈ pids s := by
  simp [St.hasPin, pids, List.any_eq_true]

theorem hasCluster_kids {s : St} {k : Id} (h : s.hasCluster k = true) : k ∈ kids s := by
  simp [St.hasCluster, List.any_eq_true] at h
  obtain ⟨x, hx, h1, _⟩ := h
  simp [kids]; exact ⟨x, hx, h1⟩

theorem hasShape_obst {s : St} {o : Id} (h : s.hasShape o = true) : o ∈ oids s := by
  simp [St.hasShape, List.any_eq_true] at h
  obtain ⟨x, hx, h1, _⟩ := h
  simp [oids]; exact ⟨x, hx, h1⟩

theorem hasJunction_obst {s : St} {o : Id} (h : s.hasJunction o = true) : o ∈ oids s := by
  simp [St.hasJunction, List.any_eq_true] at h
  obtain ⟨x, hx, h1, _⟩ := h
  simp [oids]; exact ⟨x, hx, h1⟩

/-! ### the id-level bookkeeping, on plain lists -/

/-- `O C P` = ids of allocated obstacles / connectors / pins, `G` = the other allocated ids (ghost pins
    followed by the clusters, see `Core`), `Cr`/`F` = the created / freed logs -/
structure Ids (O C P G Cr F : List Id) : Prop where
  nodupAlloc : (O ++ C ++ P ++ G).Nodup
  nodupCreated : Cr.Nodup
  nodupFreed : F.Nodup
  freedSub : ∀ x ∈ F, x ∈ Cr
  refine : ∀ x, (x ∈ O ∨ x ∈ C ∨ x ∈ P ∨ x ∈ G) ↔ (x ∈ Cr ∧ x ∉ F)

theorem Ids.addO {O C P G Cr F : List Id} (h : Ids O C P G Cr F) {x : Id} (hx : x ∉ Cr) :
    Ids (O ++ [x]) C P G (Cr ++ [x]) F := by
  obtain ⟨h1, h2, h3, h4, h5⟩ := h
  have := h5 x
  constructor
  · simp only [List.nodup_append, List.mem_append] at h1 ⊢; grind
  · simp only [List.nodup_append]; grind
  · exact h3
  · grind
  · grind

theorem Ids.addC {O C P G Cr F : List Id} (h : Ids O C P G Cr F) {x : Id} (hx : x ∉ Cr) :
    Ids O (C ++ [x]) P G (Cr ++ [x]) F := by
  obtain ⟨h1, h2, h3, h4, h5⟩ := h
  have := h5 x
  constructor
  · simp only [List.nodup_append, List.mem_append] at h1 ⊢; grind
  · simp only [List.nodup_append]; grind
  · exact h3
  · grind
  · grind

theorem Ids.addP {O C P G Cr F : List Id} (h : Ids O C P G Cr F) {x : Id} (hx : x ∉ Cr) :
    Ids O C (P ++ [x]) G (Cr ++ [x]) F := by
  obtain ⟨h1, h2, h3, h4, h5⟩ := h
  have := h5 x
  constructor
  · simp only [List.nodup_append, List.mem_append] at h1 ⊢; grind
  · simp only [List.nodup_append]; grind
  · exact h3
  · grind
  · grind

theorem Ids.freeC {O C P G Cr F : List Id} (h : Ids O C P G Cr F) {c : Id} (hc : c ∈ C) :
    Ids O (C.filter (· != c)) P G Cr (F ++ [c]) := by
  obtain ⟨h1, h2, h3, h4, h5⟩ := h
  have := h5 c
  constructor
  · simp only [List.nodup_append, List.mem_append] at h1 ⊢
    have := h1.1.1.2.1.filter (· != c)
    grind
  · exact h2
  · simp only [List.nodup_append]; grind
  · grind
  · simp only [List.nodup_append, List.mem_append] at h1; grind

theorem Ids.freeO {O C P G Cr F P' D : List Id} (h : Ids O C P G Cr F) {o : Id} (ho : o ∈ O)
    (hnd : (D ++ P').Nodup) (hm : ∀ x, x ∈ P ↔ x ∈ D ∨ x ∈ P') :
    Ids (O.filter (· != o)) C P' G Cr (F ++ o :: D) := by
  obtain ⟨h1, h2, h3, h4, h5⟩ := h
  have := h5 o
  constructor
  · simp only [List.nodup_append, List.mem_append] at h1 hnd ⊢
    have := h1.1.1.1.filter (· != o)
    grind
  · exact h2
  · simp only [List.nodup_append, List.mem_append, List.nodup_cons] at h1 hnd ⊢; grind
  · grind
  · simp only [List.nodup_append, List.mem_append] at h1 hnd; grind

theorem Ids.unlink {O C P G Cr F : List Id} (h : Ids O C P G Cr F) {p : Id} (hp : p ∈ P) :
    Ids O C (P.filter (· != p)) (p :: G) Cr F := by
  obtain ⟨h1, h2, h3, h4, h5⟩ := h
  constructor
  · simp only [List.nodup_append, List.mem_append, List.nodup_cons] at h1 ⊢
    have := h1.1.2.1.filter (· != p)
    grind
  · exact h2
  · exact h3
  · exact h4
  · grind

theorem Ids.release {O C P G Cr F : List Id} {p : Id} (h : Ids O C P (p :: G) Cr F) :
    Ids O C P G Cr (F ++ [p]) := by
  obtain ⟨h1, h2, h3, h4, h5⟩ := h
  have := h5 p
  constructor
  · simp only [List.nodup_append, List.mem_append, List.nodup_cons] at h1 ⊢
    grind
  · exact h2
  · simp only [List.nodup_append]; grind
  · grind
  · simp only [List.nodup_append, List.mem_append, List.nodup_cons] at h1; grind

/-- a new member of the tail of the fourth list (a cluster) -/
theorem Ids.addK {O C P G K Cr F : List Id} (h : Ids O C P (G ++ K) Cr F) {x : Id} (hx : x ∉ Cr) :
    Ids O C P (G ++ (K ++ [x])) (Cr ++ [x]) F := by
  obtain ⟨h1, h2, h3, h4, h5⟩ := h
  have := h5 x
  constructor
  · simp only [List.nodup_append, List.mem_append] at h1 ⊢; grind
  · simp only [List.nodup_append]; grind
  · exact h3
  · grind
  · grind

theorem Ids.freeK {O C P G K Cr F : List Id} (h : Ids O C P (G ++ K) Cr F) {k : Id} (hk : k ∈ K) :
    Ids O C P (G ++ K.filter (· != k)) Cr (F ++ [k]) := by
  obtain ⟨h1, h2, h3, h4, h5⟩ := h
  have := h5 k
  constructor
  · simp only [List.nodup_append, List.mem_append] at h1 ⊢
    have := h1.2.1.2.1.filter (· != k)
    grind
  · exact h2
  · simp only [List.nodup_append]; grind
  · grind
  · simp only [List.nodup_append, List.mem_append] at h1; grind

/-! ### the core invariant -/

/-- validity of one end relative to explicit lists (obstacle ids, pins with owners, ghost pins) -/
def EndOk (g : List Id) (O : List Id) (P : List Pin) (e : End) : Prop :=
  ∀ x, e = some x → x.anchor ∈ O ∧
    ∀ p, x.pin = some p → p ∈ g ∨ ∃ q ∈ P, q.id = p ∧ q.owner = x.anchor

theorem EndOk.none {g O P} : EndOk g O P none := by intro x hx; cases hx

structure Core (g : List Id) (s : St) : Prop where
  ids : Ids (oids s) (cids s) (pids s) (g ++ kids s) s.created s.freed
  endsOk : ∀ c ∈ s.conns, EndOk g (oids s) s.pins c.src ∧ EndOk g (oids s) s.pins c.dst
  pinsOk : ∀ p ∈ s.pins, p.owner ∈ oids s
  /-- every allocated cluster is a member of `Router::clusterRefs` (the fixed code frees what it unlinks) -/
  clActive : ∀ k ∈ s.clusters, k.active = true

theorem core_init : Core [] init := by
  constructor
  · constructor <;> simp [init, oids, cids, pids, kids]
  · simp [init]
  · simp [init]
  · simp [init]

/-- a change that keeps all id lists, the pins and the logs; the new connector ends must be valid -/
theorem core_same {g : List Id} {s t : St} (h : Core g s)
    (ho : oids t = oids s) (hc : cids t = cids s) (hp : t.pins = s.pins)
    (hcr : t.created = s.created) (hf : t.freed = s.freed)
    (he : ∀ c ∈ t.conns, EndOk g (oids s) s.pins c.src ∧ EndOk g (oids s) s.pins c.dst)
    (hk : t.clusters = s.clusters := by rfl) :
    Core g t := by
  obtain ⟨h1, h2, h3, h4⟩ := h
  constructor
  · have : pids t = pids s := by simp [pids, hp]
    have hk' : kids t = kids s := by simp [kids, hk]
    rw [ho, hc, this, hk', hcr, hf]; exact h1
  · rw [ho, hp]; exact he
  · rw [ho, hp]; exact h3
  · rw [hk]; exact h4

/-- Core only looks at obst / conns / pins / created / freed -/
theorem core_congr {g : List Id} {s t : St} (h : Core g s)
    (ho : t.obst = s.obst) (hc : t.conns = s.conns) (hp : t.pins = s.pins)
    (hcr : t.created = s.created) (hf : t.freed = s.freed)
    (hk : t.clusters = s.clusters := by rfl) : Core g t :=
  core_same h (by simp [oids, ho]) (by simp [cids, hc]) hp hcr hf (by rw [hc]; exact h.endsOk) hk

/-- connectors are mapped by an id-preserving function -/
theorem core_mapConns {g : List Id} {s t : St} (h : Core g s) (f : Conn → Conn)
    (hid : ∀ c, (f c).id = c.id)
    (hends : ∀ c ∈ s.conns, EndOk g (oids s) s.pins c.src → EndOk g (oids s) s.pins c.dst →
      EndOk g (oids s) s.pins (f c).src ∧ EndOk g (oids s) s.pins (f c).dst)
    (ho : oids t = oids s) (hc : t.conns = s.conns.map f) (hp : t.pins = s.pins)
    (hcr : t.created = s.created) (hf : t.freed = s.freed)
    (hk : t.clusters = s.clusters := by rfl) : Core g t := by
  refine core_same h ho ?_ hp hcr hf ?_ hk
  · simp only [cids, hc, List.map_map]
    exact List.map_congr_left (fun c _ => hid c)
  · intro c hcm
    rw [hc, List.mem_map] at hcm
    obtain ⟨c0, hc0, rfl⟩ := hcm
    exact hends c0 hc0 (h.endsOk c0 hc0).1 (h.endsOk c0 hc0).2

theorem fresh_of_contains {s : St} {x : Id} (h : (!s.created.contains x) = true) : x ∉ s.created := by
  simpa using h

/-! ### creation -/

theorem core_addObst {g : List Id} {s : St} (h : Core g s) {id : Id} (j a : Bool) (hx : id ∉ s.created) :
    Core g (s.addObst id j a) := by
  obtain ⟨h1, h2, h3, h4⟩ := h
  refine ⟨?_, ?_, ?_, h4⟩
  · have := h1.addO hx
    simpa [St.addObst, oids, cids, pids, kids] using this
  · intro c hc
    have := h2 c hc
    simp only [EndOk, oids, St.addObst, List.map_append, List.mem_append] at this ⊢
    grind
  · intro p hp
    have := h3 p hp
    simp only [oids, St.addObst, List.map_append, List.mem_append] at this ⊢
    exact Or.inl this

theorem core_addConn {g : List Id} {s : St} (h : Core g s) {id : Id} (a : Bool) (hx : id ∉ s.created) :
    Core g (s.addConn id a) := by
  obtain ⟨h1, h2, h3, h4⟩ := h
  refine ⟨?_, ?_, ?_, h4⟩
  · have := h1.addC hx
    simpa [St.addConn, oids, cids, pids, kids] using this
  · intro c hc
    simp only [St.addConn, List.mem_append, List.mem_singleton] at hc
    rcases hc with hc | hc
    · exact h2 c hc
    · subst hc; exact ⟨EndOk.none, EndOk.none⟩
  · exact h3

theorem core_addPin {g : List Id} {s : St} (h : Core g s) {pin owner : Id} (cls : Nat)
    (hx : pin ∉ s.created) (ho : owner ∈ oids s) : Core g (s.addPin pin owner cls) := by
  obtain ⟨h1, h2, h3, h4⟩ := h
  refine ⟨?_, ?_, ?_, h4⟩
  · have := h1.addP hx
    simpa [St.addPin, oids, cids, pids, kids] using this
  · intro c hc
    have := h2 c hc
    simp only [EndOk, oids, St.addPin, List.mem_append] at this ⊢
    grind
  · intro p hp
    simp only [St.addPin, List.mem_append, List.mem_singleton] at hp
    rcases hp with hp | hp
    · exact h3 p hp
    · subst hp; exact ho

theorem core_setClusterRefs {g : List Id} {s : St} (h : Core g s) (k : Id) (refs : List Id) :
    Core g (s.setClusterRefs k refs) := by
  obtain ⟨h1, h2, h3, h4⟩ := h
  have hk : kids (s.setClusterRefs k refs) = kids s := by
    simp only [kids, St.setClusterRefs, List.map_map]
    apply List.map_congr_left
    intro x _; simp only [Function.comp]; split <;> rfl
  refine ⟨?_, h2, h3, ?_⟩
  · rw [hk]; exact h1
  · intro x hx
    simp only [St.setClusterRefs, List.mem_map] at hx
    obtain ⟨x0, hx0, rfl⟩ := hx
    split
    · exact h4 x0 hx0
    · exact h4 x0 hx0

theorem core_addCluster {g : List Id} {s : St} (h : Core g s) {id : Id} (hx : id ∉ s.created)
    (refs : List Id := []) : Core g (s.addCluster id refs) := by
  obtain ⟨h1, h2, h3, h4⟩ := h
  refine ⟨?_, h2, h3, ?_⟩
  · have := h1.addK hx
    simpa [St.addCluster, oids, cids, pids, kids] using this
  · intro k hk
    simp only [St.addCluster, List.mem_append, List.mem_singleton] at hk
    rcases hk with hk | hk
    · exact h4 k hk
    · subst hk; rfl

/-! ### destruction -/

theorem core_freeCluster {g : List Id} {s : St} (h : Core g s) {k : Id} (hk : k ∈ kids s) :
    Core g (s.freeCluster k) := by
  obtain ⟨h1, h2, h3, h4⟩ := h
  refine ⟨?_, h2, h3, ?_⟩
  · have := h1.freeK hk
    simpa [St.freeCluster, oids, cids, pids, kids, List.filter_map, Function.comp_def] using this
  · intro x hx
    simp only [St.freeCluster, List.mem_filter] at hx
    exact h4 x hx.1

theorem core_freeConn {g : List Id} {s : St} (h : Core g s) {c : Id} (hc : c ∈ cids s) :
    Core g (s.freeConn c) := by
  obtain ⟨h1, h2, h3, h4⟩ := h
  refine ⟨?_, ?_, ?_, h4⟩
  · have := h1.freeC hc
    simpa [St.freeConn, St.removeFromQueue, oids, cids, pids, kids, List.filter_map, Function.comp_def] using this
  · intro x hx
    simp only [St.freeConn, St.removeFromQueue, List.mem_filter] at hx
    exact h2 x hx.1
  · exact h3

theorem core_freeObstacle {g : List Id} {s : St} (h : Core g s) {o : Id} (ho : o ∈ oids s) :
    Core g (s.freeObstacle o) := by
  obtain ⟨h1, h2, h3, h4⟩ := h
  have hperm := (List.filter_append_perm (fun p : Pin => p.owner == o) s.pins).map (·.id)
  refine ⟨?_, ?_, ?_, h4⟩
  · have := h1.freeO (P' := (s.pins.filter (fun p => p.owner != o)).map (·.id))
      (D := (s.pinsOf o).map (·.id)) ho
      (by
        have hn := h1.nodupAlloc
        simp only [List.nodup_append] at hn
        have := hperm.nodup_iff.2 hn.1.2.1
        simpa [St.pinsOf, bne] using this)
      (by
        intro x
        have := hperm.mem_iff (a := x)
        simp only [List.map_append, List.mem_append] at this
        simpa [St.pinsOf, bne, pids] using this.symm)
    simpa [St.freeObstacle, oids, cids, pids, kids, List.filter_map, Function.comp_def, detachAnchor] using this
  · intro c hc
    simp only [St.freeObstacle, detachAnchor, List.mem_map] at hc
    obtain ⟨c0, hc0, rfl⟩ := hc
    have := h2 c0 hc0
    simp only [EndOk, oids, St.freeObstacle, detachEnd, endOn, List.mem_map, List.mem_filter] at this ⊢
    grind
  · intro p hp
    simp only [St.freeObstacle, List.mem_filter] at hp
    have := h3 p hp.1
    simp only [oids, St.freeObstacle, List.mem_map, List.mem_filter] at this ⊢
    grind

theorem core_unlinkPin {g : List Id} {s : St} (h : Core g s) {p : Id} (hp : p ∈ pids s) :
    Core (p :: g) (s.unlinkPin p) := by
  obtain ⟨h1, h2, h3, h4⟩ := h
  refine ⟨?_, ?_, ?_, h4⟩
  · have := h1.unlink hp
    simpa [St.unlinkPin, oids, cids, pids, kids, List.filter_map, Function.comp_def] using this
  · intro c hc
    have := h2 c hc
    simp only [EndOk, oids, St.unlinkPin, List.mem_filter, List.mem_cons] at this ⊢
    grind
  · intro q hq
    simp only [St.unlinkPin, List.mem_filter] at hq
    exact h3 q hq.1

theorem core_releasePin {g : List Id} {s : St} {p : Id} (h : Core (p :: g) s) :
    Core g (s.releasePin p) := by
  obtain ⟨h1, h2, h3, h4⟩ := h
  refine ⟨?_, ?_, ?_, h4⟩
  · have := h1.release
    simpa [St.releasePin, oids, cids, pids, kids, unpin, Function.comp_def] using this
  · intro c hc
    simp only [St.releasePin, unpin, List.mem_map] at hc
    obtain ⟨c0, hc0, rfl⟩ := hc
    have := h2 c0 hc0
    simp only [EndOk, oids, St.releasePin, unpinEnd, List.mem_cons] at this ⊢
    grind
  · exact h3


/-! ### processing -/

theorem foldl_inv {α β : Type} (P : β → Prop) (f : β → α → β) (hf : ∀ s a, P s → P (f s a))
    (l : List α) (s : β) (h : P s) : P (l.foldl f s) := by
  induction l generalizing s with
  | nil => exact h
  | cons a l ih => exact ih _ (hf s a h)

theorem core_addFault {g : List Id} {s : St} (h : Core g s) (f : Fault) : Core g (s.addFault f) :=
  core_congr h rfl rfl rfl rfl rfl

theorem core_setActions {g : List Id} {s : St} (h : Core g s) (acts : List Action) :
    Core g { s with actions := acts } := core_congr h rfl rfl rfl rfl rfl

theorem EndOk.detach {g O P} {e : End} (h : EndOk g O P e) (o : Id) : EndOk g O P (detachEnd e o) := by
  unfold detachEnd; split
  · exact EndOk.none
  · exact h

theorem core_procRemoveMove {g : List Id} {s : St} (h : Core g s) (a : Action) :
    Core g (procRemoveMove s a) := by
  unfold procRemoveMove
  split
  · split
    · exact core_addFault h _
    · rename_i hob
      have ho : a.obj ∈ oids s := by
        rw [← hasObst_iff]; simpa using hob
      exact core_congr (core_freeObstacle h ho) rfl rfl rfl rfl rfl
  · split
    · split
      · exact core_addFault h _
      · refine core_mapConns h (fun c => { c with src := detachEnd c.src a.obj, dst := detachEnd c.dst a.obj })
          (fun _ => rfl) (fun c _ h1 h2 => ⟨h1.detach _, h2.detach _⟩) ?_ rfl rfl rfl rfl
        simp only [oids, List.map_map]
        apply List.map_congr_left
        intro x _; simp only [Function.comp]; split <;> rfl
    · exact h

theorem core_procAddMove {g : List Id} {s : St} (h : Core g s) (a : Action) :
    Core g (procAddMove s a) := by
  unfold procAddMove
  split
  · split
    · exact core_addFault h _
    · refine core_mapConns h id (fun _ => rfl) (fun c _ h1 h2 => ⟨h1, h2⟩) ?_ (by simp) rfl rfl rfl
      simp only [oids, List.map_map]
      apply List.map_congr_left
      intro x _; simp only [Function.comp]; split <;> rfl
  · exact h

theorem endOk_setEnd {g O P} {c : Conn} {e : End} (isDst : Bool) (h1 : EndOk g O P c.src)
    (h2 : EndOk g O P c.dst) (he : EndOk g O P e) :
    EndOk g O P (setEnd c isDst e).src ∧ EndOk g O P (setEnd c isDst e).dst := by
  unfold setEnd; split
  · exact ⟨h1, he⟩
  · exact ⟨he, h2⟩

theorem setEnd_id (c : Conn) (isDst : Bool) (e : End) : (setEnd c isDst e).id = c.id := by
  unfold setEnd; split <;> rfl

theorem core_applyEnd {g : List Id} {s : St} (h : Core g s) (c : Id) (u : Bool × EndSpec) :
    Core g (applyEnd s c u) := by
  unfold applyEnd
  split
  · refine core_mapConns h (fun x => if x.id == c then setEnd x u.1 none else x) ?_ ?_ rfl rfl rfl rfl rfl
    · intro x; split
      · exact setEnd_id ..
      · rfl
    · intro x _ h1 h2; split
      · exact endOk_setEnd _ h1 h2 EndOk.none
      · exact ⟨h1, h2⟩
  · rename_i an _
    split
    · exact core_addFault h _
    · rename_i hob
      have ho : an.obj ∈ oids s := by
        rw [← hasObst_iff]; simpa using hob
      refine core_mapConns h (fun x => if x.id == c then setEnd x u.1 (some { anchor := an.obj, cls := an.cls, pin := none }) else x) ?_ ?_ rfl rfl rfl rfl rfl
      · intro x; split
        · exact setEnd_id ..
        · rfl
      · intro x _ h1 h2; split
        · refine endOk_setEnd _ h1 h2 ?_
          intro y hy; cases hy
          exact ⟨ho, fun p hp => by cases hp⟩
        · exact ⟨h1, h2⟩

theorem core_procConnChange {g : List Id} {s : St} (h : Core g s) (a : Action) :
    Core g (procConnChange s a) := by
  unfold procConnChange
  split
  · split
    · exact core_addFault h _
    · exact foldl_inv (Core g) _ (fun s u hs => core_applyEnd hs a.obj u) _ _ h
  · exact h

theorem EndOk.assign {g O} {P : List Pin} {e : End} (h : EndOk g O P e) : EndOk g O P (assignPinEnd P e) := by
  unfold assignPinEnd
  split
  · split
    · exact h
    · rename_i x _ hpin
      intro y hy; cases hy
      refine ⟨(h x rfl).1, ?_⟩
      intro p hp
      right
      simp only [Option.map_eq_some_iff] at hp
      obtain ⟨q, hq, rfl⟩ := hp
      refine ⟨q, List.mem_of_find?_eq_some hq, rfl, ?_⟩
      have := List.find?_some hq
      simp only [Bool.and_eq_true, beq_iff_eq] at this
      exact this.1
  · exact EndOk.none

theorem core_reroute {g : List Id} {s : St} (h : Core g s) : Core g (reroute s) := by
  unfold reroute
  refine core_mapConns h _ ?_ ?_ rfl rfl rfl rfl rfl
  · intro c; split <;> rfl
  · intro c _ h1 h2; split
    · exact ⟨h1.assign, h2.assign⟩
    · exact ⟨h1, h2⟩

theorem core_processActions {g : List Id} {s : St} (h : Core g s) : Core g s.processActions := by
  unfold St.processActions
  have h1 := foldl_inv (Core g) _ (fun s a hs => core_procRemoveMove hs a) s.actions _ h
  have h2 := foldl_inv (Core g) _ (fun s a hs => core_procAddMove hs a) s.actions _ h1
  have h3 := foldl_inv (Core g) _ (fun s a hs => core_procConnChange hs a)
    (s.actions.foldl procAddMove (s.actions.foldl procRemoveMove s)).actions _ h2
  exact core_setActions h3 _

theorem core_processTransaction {g : List Id} {s : St} (h : Core g s) : Core g s.processTransaction := by
  unfold St.processTransaction
  split
  · exact h
  · exact core_congr (core_reroute (core_processActions h)) rfl rfl rfl rfl rfl

theorem core_maybeProcess {g : List Id} {s : St} (h : Core g s) : Core g s.maybeProcess := by
  unfold St.maybeProcess
  split
  · exact h
  · exact core_processTransaction h

theorem core_enqueue {g : List Id} {s : St} (h : Core g s) (t : AType) (o : Id) : Core g (s.enqueue t o) := by
  unfold St.enqueue; split
  · exact h
  · exact core_setActions h _

theorem core_dropAction {g : List Id} {s : St} (h : Core g s) (t : AType) (o : Id) :
    Core g (s.dropAction t o) := core_setActions h _

theorem core_removeFromQueue {g : List Id} {s : St} (h : Core g s) (o : Id) :
    Core g (s.removeFromQueue o) := core_setActions h _

theorem core_modify {g : List Id} {s : St} (h : Core g s) (c : Id) (d : Bool) (e : EndSpec) :
    Core g (s.modify c d e) := core_setActions h _

theorem core_closeRouter {g : List Id} {s : St} (h : Core g s) : Core g s.closeRouter :=
  core_congr h rfl rfl rfl rfl rfl

/-- `setCheckpoints` only rewrites the `cps` field of one connector (and the vertex logs) -/
theorem core_setCheckpoints {g : List Id} {s : St} (h : Core g s) (c : Id) (vs : List Id) :
    Core g (s.setCheckpoints c vs) := by
  refine core_mapConns h (fun x => if x.id == c then { x with cps := vs } else x) ?_ ?_ rfl rfl rfl rfl rfl
  · intro x; split <;> rfl
  · intro x _ h1 h2; split
    · exact ⟨h1, h2⟩
    · exact ⟨h1, h2⟩


/-! ### the operations -/

theorem foldl_free_inv (P : St → Prop) (K : St → List Id) (f : St → Id → St)
    (hstep : ∀ s k, P s → k ∈ K s → P (f s k) ∧ ∀ k', k' ≠ k → k' ∈ K s → k' ∈ K (f s k)) :
    ∀ (l : List Id) (s : St), l.Nodup → P s → (∀ k ∈ l, k ∈ K s) → P (l.foldl f s) := by
  intro l
  induction l with
  | nil => intro s _ h _; exact h
  | cons a l ih =>
    intro s hnd h hk
    rw [List.nodup_cons] at hnd
    have := hstep s a h (hk a (List.mem_cons_self))
    refine ih _ hnd.2 this.1 ?_
    intro k hkl
    refine this.2 k ?_ (hk k (List.mem_cons_of_mem _ hkl))
    rintro rfl; exact hnd.1 hkl

theorem cids_freeConn (s : St) (c : Id) : cids (s.freeConn c) = (cids s).filter (· != c) := by
  simp [St.freeConn, St.removeFromQueue, cids, List.filter_map, Function.comp_def]

theorem oids_freeObstacle (s : St) (o : Id) : oids (s.freeObstacle o) = (oids s).filter (· != o) := by
  simp [St.freeObstacle, oids, List.filter_map, Function.comp_def]

theorem core_freeConns {g : List Id} {s : St} (h : Core g s) (l : List Conn) (hl : l.Sublist s.conns) :
    Core g (l.foldl (fun s c => s.freeConn c.id) s) := by
  rw [← List.foldl_map (f := fun c : Conn => c.id) (g := St.freeConn)]
  refine foldl_free_inv (Core g) cids St.freeConn ?_ _ s ?_ h ?_
  · intro s k hs hk
    refine ⟨core_freeConn hs hk, ?_⟩
    intro k' hne hk'
    rw [cids_freeConn, List.mem_filter]; exact ⟨hk', by simpa using hne⟩
  · have hn := h.ids.nodupAlloc
    simp only [List.nodup_append] at hn
    exact (hl.map _).nodup hn.1.1.2.1
  · intro k hk; exact (hl.map _).subset hk

theorem core_freeObsts {g : List Id} {s : St} (h : Core g s) (l : List Obst) (hl : l.Sublist s.obst) :
    Core g (l.foldl (fun s o => s.freeObstacle o.id) s) := by
  rw [← List.foldl_map (f := fun c : Obst => c.id) (g := St.freeObstacle)]
  refine foldl_free_inv (Core g) oids St.freeObstacle ?_ _ s ?_ h ?_
  · intro s k hs hk
    refine ⟨core_freeObstacle hs hk, ?_⟩
    intro k' hne hk'
    rw [oids_freeObstacle, List.mem_filter]; exact ⟨hk', by simpa using hne⟩
  · have hn := h.ids.nodupAlloc
    simp only [List.nodup_append] at hn
    exact (hl.map _).nodup hn.1.1.1
  · intro k hk; exact (hl.map _).subset hk

theorem kids_freeCluster (s : St) (k : Id) : kids (s.freeCluster k) = (kids s).filter (· != k) := by
  simp [St.freeCluster, kids, List.filter_map, Function.comp_def]

theorem core_freeClusters {g : List Id} {s : St} (h : Core g s) (l : List Cluster) (hl : l.Sublist s.clusters) :
    Core g (l.foldl (fun s k => s.freeCluster k.id) s) := by
  rw [← List.foldl_map (f := fun c : Cluster => c.id) (g := St.freeCluster)]
  refine foldl_free_inv (Core g) kids St.freeCluster ?_ _ s ?_ h ?_
  · intro s k hs hk
    refine ⟨core_freeCluster hs hk, ?_⟩
    intro k' hne hk'
    rw [kids_freeCluster, List.mem_filter]; exact ⟨hk', by simpa using hne⟩
  · have hn := h.ids.nodupAlloc
    simp only [List.nodup_append] at hn
    exact (hl.map _).nodup hn.2.1.2.1
  · intro k hk; exact (hl.map _).subset hk

theorem core_deleteObstacleOp {g : List Id} {s : St} (h : Core g s) (o : Id) (j : Bool) :
    Core g (deleteObstacleOp s o j) := by
  unfold deleteObstacleOp
  cases j <;> simp only [Bool.false_eq_true, ↓reduceIte] <;>
  · split
    · exact core_addFault h _
    · split
      · exact core_addFault h _
      · exact core_maybeProcess (core_enqueue (core_dropAction h _ _) _ _)

theorem core_moveObstacleOp {g : List Id} {s : St} (h : Core g s) (o : Id) (j : Bool) :
    Core g (moveObstacleOp s o j) := by
  unfold moveObstacleOp
  cases j <;> simp only [Bool.false_eq_true, ↓reduceIte] <;>
  · split
    · exact core_addFault h _
    · split
      · exact h
      · exact core_maybeProcess (core_enqueue h _ _)

theorem core_step {s : St} (h : Core [] s) (op : Op) (hl : LegalDoc s op = true) :
    Core [] (step s op) := by
  unfold LegalDoc at hl
  simp only [Bool.and_eq_true] at hl
  obtain ⟨hal, hl⟩ := hl
  unfold step
  rw [if_neg (by simp [hal])]
  cases op with
  | newShape id =>
    have hx := fresh_of_contains hl
    exact core_maybeProcess (core_enqueue (core_addObst h _ _ hx) _ _)
  | newJunction id pin =>
    simp only [Bool.and_eq_true] at hl
    obtain ⟨⟨h1, h2⟩, h3⟩ := hl
    have hx := fresh_of_contains h1
    have hp := fresh_of_contains h2
    have hne : id ≠ pin := by simpa using h3
    have hA := core_addObst h true false hx
    have hB : Core [] ((s.addObst id true false).addPin pin id centreCls) := by
      refine core_addPin hA _ ?_ ?_
      · simp only [St.addObst, List.mem_append, List.mem_singleton]; intro hh
        rcases hh with hh | hh
        · exact hp hh
        · exact hne hh.symm
      · simp [oids, St.addObst]
    exact core_maybeProcess (core_enqueue (core_maybeProcess (core_enqueue hB _ _)) _ _)
  | newConn id src dst ctor3 =>
    simp only [Bool.and_eq_true] at hl
    have hx := fresh_of_contains hl.1.1
    have hA := core_addConn h false hx
    exact core_maybeProcess (core_modify (core_maybeProcess (core_modify hA _ _ _)) _ _ _)
  | newPin pin shape cls =>
    simp only [Bool.and_eq_true] at hl
    have hx := fresh_of_contains hl.1.1
    have hs := hasShape_obst hl.1.2
    dsimp only
    rw [if_neg (by simp [hl.1.2])]
    exact core_maybeProcess (core_enqueue (core_addPin h _ hx hs) _ _)
  | deleteShape id => exact core_deleteObstacleOp h _ _
  | deleteJunction id => exact core_deleteObstacleOp h _ _
  | deleteConn id =>
    dsimp only
    rw [if_neg (by simp [hl])]
    exact core_freeConn h (hasConn_iff.1 hl)
  | deletePin pin =>
    dsimp only
    split
    · exact core_addFault h _
    · rename_i hp
      have hp' : pin ∈ pids s := by rw [← hasPin_iff]; simpa using hp
      exact core_releasePin (core_maybeProcess (core_enqueue (core_unlinkPin h hp') _ _))
  | moveShape id => exact core_moveObstacleOp h _ _
  | moveJunction id => exact core_moveObstacleOp h _ _
  | setEndpoint c isDst e =>
    dsimp only
    split
    · exact core_addFault h _
    · exact core_maybeProcess (core_modify h _ _ _)
  | setRoutingCheckpoints c vs =>
    dsimp only
    split
    · exact core_addFault h _
    · exact core_setCheckpoints h _ _
  | processTransaction => exact core_processTransaction h
  | setTransactionUse b => exact core_congr h rfl rfl rfl rfl rfl
  | deleteRouter =>
    exact core_closeRouter (core_freeClusters
      (core_freeObsts (core_freeConns h _ List.filter_sublist) _ List.filter_sublist) _ List.filter_sublist)
  | rDelConn id =>
    simp only [Bool.and_eq_true] at hl
    dsimp only
    rw [if_neg (by simp [hl.1])]
    exact core_freeConn h (hasConn_iff.1 hl.1)
  | rDelJunction id =>
    simp only [Bool.and_eq_true] at hl
    dsimp only
    rw [if_neg (by simp [hl.1.1])]
    exact core_removeFromQueue (core_freeObstacle h (hasJunction_obst hl.1.1)) _
  | rNewJunction id pin =>
    simp only [Bool.and_eq_true] at hl
    obtain ⟨⟨⟨h1, h2⟩, h3⟩, _⟩ := hl
    have hx := fresh_of_contains h1
    have hp := fresh_of_contains h2
    have hne : id ≠ pin := by simpa using h3
    have hA := core_addObst h true true hx
    refine core_addPin hA _ ?_ ?_
    · simp only [St.addObst, List.mem_append, List.mem_singleton]; intro hh
      rcases hh with hh | hh
      · exact hp hh
      · exact hne hh.symm
    · simp [oids, St.addObst]
  | rNewConn id =>
    simp only [Bool.and_eq_true] at hl
    exact core_addConn h true (fresh_of_contains hl.1)
  | newCluster id refs =>
    simp only [Bool.and_eq_true] at hl
    exact core_addCluster h (fresh_of_contains hl.1) refs
  | deleteCluster id =>
    dsimp only
    rw [if_neg (by simp [hl])]
    exact core_freeCluster h (hasCluster_kids hl)
  | setClusterPoly id refs =>
    dsimp only
    split
    · exact core_addFault h _
    · exact core_setClusterRefs h _ _
  | touchConn c =>
    dsimp only
    split
    · exact core_addFault h _
    · exact core_maybeProcess (core_enqueue h _ _)
  | touchPin pin =>
    dsimp only
    split
    · exact core_addFault h _
    · exact core_maybeProcess (core_enqueue h _ _)
  | apiRouter => exact h
  | apiConn c =>
    dsimp only
    split
    · exact core_addFault h _
    · exact h
  | apiObst o =>
    dsimp only
    split
    · exact core_addFault h _
    · exact h

theorem core_run_from {s : St} (h : Core [] s) (ops : List Op) (hl : legalFrom LegalDoc s ops = true) :
    Core [] (ops.foldl step s) := by
  induction ops generalizing s with
  | nil => exact h
  | cons op rest ih =>
    simp only [legalFrom, Bool.and_eq_true] at hl
    exact ih (core_step h op hl.1) hl.2

theorem core_run (ops : List Op) (hl : LegalDocHist ops = true) : Core [] (run ops) :=
  core_run_from core_init ops hl


/-! ### from `Core []` to the spec predicates -/

theorem legal_legalDoc {s : St} {op : Op} (h : Legal s op = true) : LegalDoc s op = true := by
  unfold Legal at h
  simp only [Bool.and_eq_true] at h
  exact h.1

theorem legalFrom_mono (s : St) (ops : List Op) (h : legalFrom Legal s ops = true) :
    legalFrom LegalDoc s ops = true := by
  induction ops generalizing s with
  | nil => rfl
  | cons op rest ih =>
    simp only [legalFrom, Bool.and_eq_true] at h ⊢
    exact ⟨legal_legalDoc h.1, ih _ h.2⟩

theorem core_liveSetsRefine {s : St} (h : Core [] s) : LiveSetsRefine s := by
  obtain ⟨⟨h1, h2, h3, h4, h5⟩, _, _, _⟩ := h
  refine ⟨?_, h2, ?_⟩
  · simpa [allocated_eq] using h1
  · intro x
    have := h5 x
    simpa [allocated_eq, or_assoc] using this

theorem core_freedOnce {s : St} {g : List Id} (h : Core g s) : FreedOnce s :=
  ⟨h.ids.nodupFreed, h.ids.freedSub⟩

theorem core_connEndsValid {s : St} (h : Core [] s) : ConnEndsValid s := by
  obtain ⟨_, h2, h3, _⟩ := h
  refine ⟨?_, ?_⟩
  · intro c hc
    have := h2 c hc
    simp only [EndOk, EndValid, hasObst_iff, List.not_mem_nil, false_or] at this ⊢
    exact this
  · intro p hp; exact hasObst_iff.2 (h3 p hp)

end AdaptaVerif.Lemmas.Lifecycle
