/-
C09: the stable insertion sort `sortEvents` used by the driver is a valid event order, for every
axis (so the hypothesis `ValidOrder` of the separation theorems is satisfiable for every input).
-/
import AdaptaVerif.Lemmas.ScanlineRects
namespace AdaptaVerif.Lemmas.Scanline
open AdaptaVerif.Model.Scanline AdaptaVerif.Spec.Rects

/-! ### `sortEvents` is a valid event order (so `ValidOrder` is inhabited for every input) -/

theorem evLe_iff (ax : Axis) (a b : Ev) :
    evLe ax a b = true ↔ a.pos ax < b.pos ax ∨ (a.pos ax = b.pos ax ∧ ¬ (a.close = true ∧ b.close = false)) := by
  simp only [evLe, Bool.or_eq_true, decide_eq_true_eq, Bool.and_eq_true, beq_iff_eq, Bool.not_eq_true',
    Bool.and_eq_false_iff, Bool.not_eq_false']
  constructor
  · rintro (h | ⟨h, h'⟩)
    · exact Or.inl h
    · refine Or.inr ⟨h, fun ⟨h1, h2⟩ => ?_⟩
      rcases h' with h' | h'
      · rw [h1] at h'; cases h'
      · rw [h2] at h'; cases h'
  · rintro (h | ⟨h, h'⟩)
    · exact Or.inl h
    · refine Or.inr ⟨h, ?_⟩
      cases ha : a.close with
      | false => exact Or.inl rfl
      | true =>
        cases hb : b.close with
        | true => exact Or.inr rfl
        | false => exact (h' ⟨ha, hb⟩).elim

theorem evLe_trans (ax : Axis) (a b c : Ev) (h1 : evLe ax a b = true) (h2 : evLe ax b c = true) :
    evLe ax a c = true := by
  rw [evLe_iff] at *
  rcases h1 with h1 | ⟨h1, h1'⟩ <;> rcases h2 with h2 | ⟨h2, h2'⟩
  · left; linarith
  · left; linarith
  · left; linarith
  · right
    refine ⟨h1.trans h2, fun ⟨ha, hc⟩ => ?_⟩
    cases hb : b.close with
    | true => exact h2' ⟨hb, hc⟩
    | false => exact h1' ⟨ha, hb⟩

theorem mem_insertEv {ax : Axis} {e x : Ev} {l : List Ev} : x ∈ insertEv ax e l ↔ x = e ∨ x ∈ l := by
  induction l with
  | nil => simp [insertEv]
  | cons y ys ih =>
    unfold insertEv
    split
    · simp
    · simp only [List.mem_cons, ih]; tauto

theorem insertEv_perm (ax : Axis) (e : Ev) (l : List Ev) : (insertEv ax e l).Perm (e :: l) := by
  induction l with
  | nil => simp [insertEv]
  | cons y ys ih =>
    unfold insertEv
    split
    · exact List.Perm.refl _
    · exact (List.Perm.cons y ih).trans (List.Perm.swap e y ys)

theorem pairwise_insertEv {ax : Axis} {e : Ev} {l : List Ev}
    (h : l.Pairwise (fun a b => evLe ax a b = true)) :
    (insertEv ax e l).Pairwise (fun a b => evLe ax a b = true) := by
  induction l with
  | nil => simp [insertEv]
  | cons y ys ih =>
    unfold insertEv
    obtain ⟨hy, hys⟩ := List.pairwise_cons.1 h
    split
    · rename_i hb
      have hey : evLe ax e y = true := by
        rw [evLe_iff]
        simp only [Bool.or_eq_true, decide_eq_true_eq, Bool.and_eq_true, beq_iff_eq, Bool.not_eq_true'] at hb
        rcases hb with hb | ⟨⟨hb1, hb2⟩, hb3⟩
        · exact Or.inl hb
        · exact Or.inr ⟨hb1, fun ⟨h1, _⟩ => by rw [hb2] at h1; cases h1⟩
      refine List.pairwise_cons.2 ⟨fun b hb' => ?_, h⟩
      rcases List.mem_cons.1 hb' with rfl | hb'
      · exact hey
      · exact evLe_trans ax _ _ _ hey (hy b hb')
    · rename_i hb
      have hye : evLe ax y e = true := by
        rw [evLe_iff]
        simp only [Bool.or_eq_true, decide_eq_true_eq, Bool.and_eq_true, beq_iff_eq, Bool.not_eq_true',
          not_or, not_and, not_lt] at hb
        obtain ⟨hb1, hb2⟩ := hb
        rcases lt_or_eq_of_le hb1 with h' | h'
        · exact Or.inl h'
        · refine Or.inr ⟨h', fun ⟨h1, h2⟩ => ?_⟩
          exact hb2 ⟨h'.symm, h2⟩ h1
      refine List.pairwise_cons.2 ⟨fun b hb' => ?_, ih hys⟩
      rcases mem_insertEv.1 hb' with rfl | hb'
      · exact hye
      · exact hy b hb'

theorem mem_allEvents {n : Nat} {e : Ev} : e ∈ allEvents n ↔ e.id < n := by
  obtain ⟨c, i⟩ := e
  simp only [allEvents, List.mem_flatMap, List.mem_range, List.mem_cons, Ev.mk.injEq, List.not_mem_nil, or_false]
  constructor
  · rintro ⟨j, hj, h | h⟩ <;> (obtain ⟨_, rfl⟩ := h; exact hj)
  · intro h
    refine ⟨i, h, ?_⟩
    cases c <;> simp

theorem nodup_allEvents (n : Nat) : (allEvents n).Nodup := by
  induction n with
  | zero => simp [allEvents]
  | succ k ih =>
    have : allEvents (k + 1) = allEvents k ++ [⟨false, k⟩, ⟨true, k⟩] := by
      simp [allEvents, List.range_succ, List.flatMap_append]
    rw [this]
    refine List.nodup_append.2 ⟨ih, by simp, ?_⟩
    intro a ha b hb
    have h1 := mem_allEvents.1 ha
    rintro rfl
    simp only [List.mem_cons, List.not_mem_nil, or_false] at hb
    rcases hb with rfl | rfl <;> simp at h1

theorem sortEvents_perm (ax : Axis) (n : Nat) : (sortEvents ax n).Perm (allEvents n) := by
  unfold sortEvents
  induction allEvents n with
  | nil => exact List.Perm.refl _
  | cons e l ih => exact (insertEv_perm ax e _).trans (List.Perm.cons e ih)

theorem sortEvents_pairwise (ax : Axis) (n : Nat) :
    (sortEvents ax n).Pairwise (fun a b => evLe ax a b = true) := by
  unfold sortEvents
  induction allEvents n with
  | nil => exact List.Pairwise.nil
  | cons _ _ ih => exact pairwise_insertEv ih

theorem sortEvents_valid (ax : Axis) (n : Nat) : ValidOrder ax n (sortEvents ax n) :=
  ⟨sortEvents_pairwise ax n, (sortEvents_perm ax n).nodup_iff.2 (nodup_allEvents n),
   fun _ => ((sortEvents_perm ax n).mem_iff).trans mem_allEvents⟩

end AdaptaVerif.Lemmas.Scanline
