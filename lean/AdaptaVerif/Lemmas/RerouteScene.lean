/-
Which obstacles the scene holds after `processActions` (Model/ActionQueue.runPasses): an obstacle object of the
new scene is either an untouched one of the old scene, or the target of an Add / Move action of the transaction.
(Discharges the hypothesis `hnew` of Props/C06Reroute.skip_sound_route_valid.)
-/
import AdaptaVerif.Model.ActionQueue
namespace AdaptaVerif.Lemmas.RerouteScene
open AdaptaVerif.Model.ActionQueue

theorem mem_mapObst_of_ne (sc : Scene) (i : Nat) (f : Obst → Obst) (hf : ∀ x, (f x).id = x.id) (o : Obst)
    (ho : o.id ≠ i) : o ∈ (mapObst sc i f).obsts ↔ o ∈ sc.obsts := by
  unfold mapObst
  simp only [List.mem_map]
  constructor
  · rintro ⟨x, hx, rfl⟩
    by_cases hxi : (x.id == i) = true
    · simp only [hxi, if_true] at ho ⊢
      exact absurd (by rw [hf x]; exact beq_iff_eq.mp hxi) ho
    · simp only [hxi] at ho ⊢
      exact hx
  · intro h
    refine ⟨o, h, ?_⟩
    have : (o.id == i) = false := by simpa using ho
    simp [this]

theorem ids_mapObst (sc : Scene) (i : Nat) (f : Obst → Obst) (hf : ∀ x, (f x).id = x.id) (o : Obst)
    (ho : o ∈ (mapObst sc i f).obsts) : ∃ x ∈ sc.obsts, x.id = o.id := by
  unfold mapObst at ho
  simp only [List.mem_map] at ho
  obtain ⟨x, hx, rfl⟩ := ho
  refine ⟨x, hx, ?_⟩
  split
  · exact (hf x).symm
  · rfl

theorem mem_eraseObst (sc : Scene) (i : Nat) (o : Obst) :
    o ∈ (eraseObst sc i).obsts ↔ o ∈ sc.obsts ∧ o.id ≠ i := by
  unfold eraseObst
  simp [List.mem_filter]

theorem mapConn_obsts (sc : Scene) (i : Nat) (f : Conn → Conn) : (mapConn sc i f).obsts = sc.obsts := rfl

theorem pass3One_obsts (sc : Scene) (a : Action) : (pass3One sc a).obsts = sc.obsts := by
  unfold pass3One
  split
  · have : ∀ (l : List (End × CEnd)) (sc : Scene),
        (l.foldl (fun sc u => mapConn sc a.id fun c => c.setEnd u.1 u.2) sc).obsts = sc.obsts := by
      intro l; induction l with
      | nil => intro sc; rfl
      | cons u l ih => intro sc; simp only [List.foldl_cons]; rw [ih]; rfl
    exact this _ _
  · rfl

/-- the action is an obstacle action aimed at object `i` -/
def Targets (a : Action) (i : Nat) : Prop := a.kind ≠ .connChange ∧ a.id = i

theorem pass1One_untouched (sc : Scene) (a : Action) (o : Obst) (h : ¬ Targets a o.id) :
    o ∈ (pass1One sc a).obsts ↔ o ∈ sc.obsts := by
  unfold pass1One
  cases hk : a.kind
  · dsimp only
    refine mem_mapObst_of_ne sc a.id _ ?_ o (fun he => h ⟨by simp [hk], he.symm⟩)
    intro _; rfl
  · rfl
  · dsimp only
    simp only [mem_eraseObst]
    exact ⟨fun x => x.1, fun x => ⟨x, fun he => h ⟨by simp [hk], he.symm⟩⟩⟩
  · rfl

theorem pass2One_untouched (sc : Scene) (a : Action) (o : Obst) (h : ¬ Targets a o.id) :
    o ∈ (pass2One sc a).obsts ↔ o ∈ sc.obsts := by
  unfold pass2One
  cases hk : a.kind
  · dsimp only
    refine mem_mapObst_of_ne sc a.id _ ?_ o (fun he => h ⟨by simp [hk], he.symm⟩)
    intro _; rfl
  · dsimp only
    refine mem_mapObst_of_ne sc a.id _ ?_ o (fun he => h ⟨by simp [hk], he.symm⟩)
    intro _; rfl
  · rfl
  · rfl

theorem fold_untouched (step : Scene → Action → Scene) (o : Obst)
    (hs : ∀ sc a, ¬ Targets a o.id → (o ∈ (step sc a).obsts ↔ o ∈ sc.obsts)) :
    ∀ (acts : List Action) (sc : Scene), (∀ a ∈ acts, ¬ Targets a o.id) →
      (o ∈ (acts.foldl step sc).obsts ↔ o ∈ sc.obsts) := by
  intro acts
  induction acts with
  | nil => intro sc _; rfl
  | cons a l ih =>
    intro sc h
    simp only [List.foldl_cons]
    rw [ih _ (fun b hb => h b (List.mem_cons_of_mem _ hb)), hs sc a (h a (List.mem_cons_self ..))]

/-- an obstacle no action of the transaction is aimed at is in the new scene iff it was in the old one, unchanged -/
theorem runPasses_untouched (sc : Scene) (acts : List Action) (o : Obst) (h : ∀ a ∈ acts, ¬ Targets a o.id) :
    o ∈ (runPasses sc acts).obsts ↔ o ∈ sc.obsts := by
  unfold runPasses
  rw [fold_untouched pass3One o (fun sc a _ => by rw [pass3One_obsts]) acts _ h,
    fold_untouched pass2One o (pass2One_untouched · · o) acts _ h,
    fold_untouched pass1One o (pass1One_untouched · · o) acts _ h]

/-- no obstacle object with id `i` -/
def NoId (i : Nat) (sc : Scene) : Prop := ∀ o ∈ sc.obsts, o.id ≠ i

theorem pass1One_NoId (i : Nat) (sc : Scene) (a : Action) (h : NoId i sc) : NoId i (pass1One sc a) := by
  unfold pass1One
  cases hk : a.kind
  · intro o ho; dsimp only at ho; obtain ⟨x, hx, he⟩ := ids_mapObst sc a.id _ (by intro _; rfl) o ho; rw [← he]; exact h x hx
  · exact h
  · intro o ho; dsimp only at ho; exact h o ((mem_eraseObst sc a.id o).mp ho).1
  · exact h

theorem pass2One_NoId (i : Nat) (sc : Scene) (a : Action) (h : NoId i sc) : NoId i (pass2One sc a) := by
  unfold pass2One
  cases hk : a.kind
  · intro o ho; dsimp only at ho; obtain ⟨x, hx, he⟩ := ids_mapObst sc a.id _ (by intro _; rfl) o ho; rw [← he]; exact h x hx
  · intro o ho; dsimp only at ho; obtain ⟨x, hx, he⟩ := ids_mapObst sc a.id _ (by intro _; rfl) o ho; rw [← he]; exact h x hx
  · exact h
  · exact h

theorem fold_NoId (i : Nat) (step : Scene → Action → Scene) (hs : ∀ sc a, NoId i sc → NoId i (step sc a)) :
    ∀ (acts : List Action) (sc : Scene), NoId i sc → NoId i (acts.foldl step sc) := by
  intro acts; induction acts with
  | nil => intro sc h; exact h
  | cons a l ih => intro sc h; exact ih _ (hs sc a h)

theorem pass1_remove_NoId (i : Nat) : ∀ (acts : List Action) (sc : Scene),
    (∃ a ∈ acts, a.kind = .remove ∧ a.id = i) → NoId i (acts.foldl pass1One sc) := by
  intro acts
  induction acts with
  | nil => intro sc h; obtain ⟨a, ha, _⟩ := h; simp at ha
  | cons b l ih =>
    intro sc h
    simp only [List.foldl_cons]
    obtain ⟨a, ha, hk, hid⟩ := h
    rcases List.mem_cons.mp ha with rfl | ha'
    · apply fold_NoId i pass1One (pass1One_NoId i)
      intro o ho
      unfold pass1One at ho
      rw [hk] at ho
      simp only at ho
      rw [← hid]
      exact ((mem_eraseObst sc a.id o).mp ho).2
    · exact ih _ ⟨a, ha', hk, hid⟩

/-- a removed obstacle is not in the new scene -/
theorem runPasses_removed (sc : Scene) (acts : List Action) (i : Nat) (h : ∃ a ∈ acts, a.kind = .remove ∧ a.id = i) :
    NoId i (runPasses sc acts) := by
  unfold runPasses
  have h1 := pass1_remove_NoId i acts sc h
  have h2 := fold_NoId i pass2One (pass2One_NoId i) acts _ h1
  have h3 : ∀ (l : List Action) (sc : Scene), NoId i sc → NoId i (l.foldl pass3One sc) :=
    fold_NoId i pass3One (fun sc a h => by unfold NoId; rw [pass3One_obsts]; exact h)
  exact h3 acts _ h2

end AdaptaVerif.Lemmas.RerouteScene
