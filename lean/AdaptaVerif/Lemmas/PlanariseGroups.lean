/-
`computeNodeGroups` of `Model.Planarise` (the overlap-removal sweep): invariant of the sweep along one line,
`groupsOfPart_spec`.
-/
import AdaptaVerif.Lemmas.PlanariseSort
namespace AdaptaVerif.Lemmas.Planarise
open AdaptaVerif.Model.Planarise

/-! ### `computeNodeGroups`: one line -/

/-- position of a node along a line of orientation `o` -/
def vcOf (o : Ori) (n : Node) : Rat := if o = .H then n.p.x else n.p.y

/-- the indexed segments of one part: same orientation and line, positive length, distinct indices, and on this line
a node is identified by its position (and by its id) -/
structure LineOK (o : Ori) (part : List (Nat × Seg)) : Prop where
  idx : (part.map (·.1)).Nodup
  shape : ∀ is ∈ part, is.2.ori = o ∧ vcOf o is.2.on < vcOf o is.2.cn
  ident : ∀ is ∈ part, ∀ js ∈ part, ∀ a ∈ [is.2.on, is.2.cn], ∀ b ∈ [js.2.on, js.2.cn],
    (vcOf o a = vcOf o b ↔ a.id = b.id) ∧ (a.id = b.id → a = b)

/-- events of the part: every event is the open or the close of an indexed segment -/
theorem mem_events {part : List (Nat × Seg)} {e : GEv} (h : e ∈ part.flatMap segEventsG) :
    ∃ is ∈ part, e.seg = is.1 ∧
      ((e.isOpen = true ∧ e.endpt = is.2.on ∧ e.vc = vcOf is.2.ori is.2.on) ∨
       (e.isOpen = false ∧ e.endpt = is.2.cn ∧ e.vc = vcOf is.2.ori is.2.cn)) := by
  obtain ⟨is, his, he⟩ := List.mem_flatMap.1 h
  refine ⟨is, his, ?_⟩
  simp only [segEventsG, List.mem_cons, List.mem_nil_iff, or_false] at he
  rcases he with rfl | rfl
  · exact ⟨rfl, Or.inl ⟨rfl, rfl, by simp [vcOf]⟩⟩
  · exact ⟨rfl, Or.inr ⟨rfl, rfl, by simp [vcOf]⟩⟩

theorem open_mem {part : List (Nat × Seg)} {is : Nat × Seg} (h : is ∈ part) :
    (⟨is.1, is.2.on, vcOf is.2.ori is.2.on, true⟩ : GEv) ∈ part.flatMap segEventsG ∧
    (⟨is.1, is.2.cn, vcOf is.2.ori is.2.cn, false⟩ : GEv) ∈ part.flatMap segEventsG := by
  constructor <;> refine List.mem_flatMap.2 ⟨is, h, ?_⟩ <;> simp [segEventsG, vcOf]

/-- invariant of the group sweep after the prefix `pre` of the sorted events -/
structure GI (o : Ori) (part : List (Nat × Seg)) (pre : List GEv) (st : GState) : Prop where
  os_nodup : st.openSegs.Nodup
  os_mem : ∀ i, i ∈ st.openSegs ↔
    ((∃ e ∈ pre, e.seg = i ∧ e.isOpen = true) ∧ ¬ ∃ e ∈ pre, e.seg = i ∧ e.isOpen = false)
  empty_iff : st.group = [] ↔ st.openSegs = []
  head : ∀ b r, st.group = b :: r → ∃ e ∈ pre, e.endpt = b ∧ ∀ e' ∈ pre, e'.vc ≤ e.vc
  grp_sorted : st.group.Pairwise (fun a b => vcOf o b < vcOf o a)
  nodes : ∀ n, (n ∈ st.group ∨ ∃ g ∈ st.groups, n ∈ g) → ∃ e ∈ pre, e.endpt = n
  fin_sorted : ∀ g ∈ st.groups, g.Pairwise (fun a b => vcOf o a < vcOf o b)
  fin_order : st.groups.Pairwise (fun g2 g1 => ∀ a ∈ g1, ∀ b ∈ g2, vcOf o a ≤ vcOf o b)
  fin_cur : ∀ g ∈ st.groups, ∀ a ∈ g, ∀ b ∈ st.group, vcOf o a ≤ vcOf o b
  open_on : ∀ is ∈ part, is.1 ∈ st.openSegs → is.2.on ∈ st.group
  closed : ∀ is ∈ part, (∃ e ∈ pre, e.seg = is.1 ∧ e.isOpen = false) →
    (∃ g ∈ st.groups, is.2.on ∈ g ∧ is.2.cn ∈ g) ∨ (is.2.on ∈ st.group ∧ is.2.cn ∈ st.group)

section gstep
variable {o : Ori} {part : List (Nat × Seg)}

/-- facts about one event of the part -/
theorem ev_facts (hL : LineOK o part) {e : GEv} (he : e ∈ part.flatMap segEventsG) :
    ∃ is ∈ part, e.seg = is.1 ∧ e.vc = vcOf o e.endpt ∧
      ((e.isOpen = true ∧ e.endpt = is.2.on) ∨ (e.isOpen = false ∧ e.endpt = is.2.cn)) := by
  obtain ⟨is, his, hseg, h⟩ := mem_events he
  have ho := (hL.shape is his).1
  refine ⟨is, his, hseg, ?_, ?_⟩
  · rcases h with ⟨_, h2, h3⟩ | ⟨_, h2, h3⟩ <;> rw [h3, h2, ho]
  · rcases h with ⟨h1, h2, _⟩ | ⟨h1, h2, _⟩
    · exact Or.inl ⟨h1, h2⟩
    · exact Or.inr ⟨h1, h2⟩

/-- two parts entries with the same index are the same entry -/
theorem idx_inj (hL : LineOK o part) {is js : Nat × Seg} (hi : is ∈ part) (hj : js ∈ part) (h : is.1 = js.1) :
    is = js := by
  have := hL.idx
  induction part with
  | nil => simp at hi
  | cons x r ih =>
    simp only [List.map_cons, List.nodup_cons] at this
    rcases List.mem_cons.1 hi with rfl | hi' <;> rcases List.mem_cons.1 hj with rfl | hj'
    · rfl
    · exact absurd (List.mem_map.2 ⟨js, hj', h.symm⟩) this.1
    · exact absurd (List.mem_map.2 ⟨is, hi', h⟩) this.1
    · exact ih ⟨this.2, fun is h => hL.shape is (List.mem_cons_of_mem _ h),
        fun is h js h' => hL.ident is (List.mem_cons_of_mem _ h) js (List.mem_cons_of_mem _ h')⟩ hi' hj' this.2

/-- nodes of events: equal position ↔ equal id, and equal id → equal node -/
theorem ev_ident (hL : LineOK o part) {e e' : GEv} (he : e ∈ part.flatMap segEventsG)
    (he' : e' ∈ part.flatMap segEventsG) :
    (vcOf o e.endpt = vcOf o e'.endpt ↔ e.endpt.id = e'.endpt.id) ∧ (e.endpt.id = e'.endpt.id → e.endpt = e'.endpt) := by
  obtain ⟨is, his, _, _, h⟩ := ev_facts hL he
  obtain ⟨js, hjs, _, _, h'⟩ := ev_facts hL he'
  have key := hL.ident is his js hjs
  rcases h with ⟨_, h2⟩ | ⟨_, h2⟩ <;> rcases h' with ⟨_, h2'⟩ | ⟨_, h2'⟩ <;> rw [h2, h2'] <;>
    exact key _ (by simp) _ (by simp)

theorem gev_ext {a b : GEv} (h1 : a.seg = b.seg) (h2 : a.endpt = b.endpt) (h3 : a.vc = b.vc)
    (h4 : a.isOpen = b.isOpen) : a = b := by
  cases a; cases b; simp_all

/-- the node list after pushing the event's end node -/
def pushNode (group : List Node) (n : Node) : List Node :=
  match group with
  | [] => [n]
  | b :: r => if b.id = n.id then b :: r else n :: b :: r

/-- position of the event `e` in the sorted list of all events of the part -/
structure GSC (part : List (Nat × Seg)) (pre post : List GEv) (e : GEv) : Prop where
  mem : ∀ x, (x ∈ pre ∨ x = e ∨ x ∈ post) ↔ x ∈ part.flatMap segEventsG
  npre : e ∉ pre
  k1 : ∀ a ∈ pre, a.vc ≤ e.vc
  k2 : ∀ b ∈ post, e.vc ≤ b.vc

theorem push_facts (hL : LineOK o part) {pre post : List GEv} {e : GEv} (hsc : GSC part pre post e)
    {st : GState} (hGI : GI o part pre st) :
    e.endpt ∈ pushNode st.group e.endpt ∧ (∀ n ∈ st.group, n ∈ pushNode st.group e.endpt) ∧
    (∀ n ∈ pushNode st.group e.endpt, n = e.endpt ∨ n ∈ st.group) ∧
    (pushNode st.group e.endpt).Pairwise (fun a b => vcOf o b < vcOf o a) ∧
    (∃ r, pushNode st.group e.endpt = e.endpt :: r) := by
  have heM : e ∈ part.flatMap segEventsG := (hsc.mem e).1 (Or.inr (Or.inl rfl))
  obtain ⟨_, _, _, hvc, _⟩ := ev_facts hL heM
  cases hg : st.group with
  | nil => simp [pushNode]
  | cons b r =>
    obtain ⟨eb, hebp, hebb, _⟩ := hGI.head b r hg
    have hebM : eb ∈ part.flatMap segEventsG := (hsc.mem eb).1 (Or.inl hebp)
    obtain ⟨_, _, _, hvcb, _⟩ := ev_facts hL hebM
    have hid := ev_ident hL hebM heM
    rw [hebb] at hid
    have hs := hGI.grp_sorted; rw [hg, List.pairwise_cons] at hs
    simp only [pushNode]
    split
    · rename_i hbid
      have hbe : b = e.endpt := hid.2 hbid
      subst hbe
      refine ⟨by simp, fun n hn => hn, fun n hn => Or.inr hn, List.pairwise_cons.2 hs, r, rfl⟩
    · rename_i hbid
      have hlt : vcOf o b < vcOf o e.endpt := by
        have h1 := hsc.k1 eb hebp
        rw [hvcb, hvc, hebb] at h1
        have : vcOf o b ≠ vcOf o e.endpt := fun h => hbid (hid.1.1 h)
        grind
      refine ⟨by simp, fun n hn => List.mem_cons_of_mem _ hn, fun n hn => ?_, ?_, b :: r, rfl⟩
      · rcases List.mem_cons.1 hn with h | h
        · exact Or.inl h
        · exact Or.inr h
      · rw [List.pairwise_cons]
        refine ⟨?_, List.pairwise_cons.2 hs⟩
        intro n hn
        rcases List.mem_cons.1 hn with rfl | hn
        · exact hlt
        · have := hs.1 n hn; grind

theorem gStep_eq (st : GState) (e : GEv) :
    gStep st e =
      if e.isOpen then
        { st with group := pushNode st.group e.endpt,
                  openSegs := if st.openSegs.contains e.seg then st.openSegs else e.seg :: st.openSegs }
      else
        if (st.openSegs.erase e.seg).isEmpty then
          { group := [], openSegs := [], groups := (pushNode st.group e.endpt).reverse :: st.groups }
        else { st with group := pushNode st.group e.endpt, openSegs := st.openSegs.erase e.seg } := by
  unfold gStep pushNode
  cases st.group <;> rfl

/-- the other event of the same segment -/
theorem same_seg_event (hL : LineOK o part) {e e' : GEv} (he : e ∈ part.flatMap segEventsG)
    (he' : e' ∈ part.flatMap segEventsG) (hs : e.seg = e'.seg) (ho : e.isOpen = e'.isOpen) : e = e' := by
  obtain ⟨is, his, h1, h2, h3⟩ := ev_facts hL he
  obtain ⟨js, hjs, h1', h2', h3'⟩ := ev_facts hL he'
  have : is = js := idx_inj hL his hjs (by rw [← h1, ← h1', hs])
  subst this
  have hend : e.endpt = e'.endpt := by
    rcases h3 with ⟨a, b⟩ | ⟨a, b⟩ <;> rcases h3' with ⟨a', b'⟩ | ⟨a', b'⟩
    · rw [b, b']
    · rw [a, a'] at ho; cases ho
    · rw [a, a'] at ho; cases ho
    · rw [b, b']
  exact gev_ext hs hend (by rw [h2, h2', hend]) ho

/-- the open event of a segment comes before its close event -/
theorem open_before_close (hL : LineOK o part) {pre post : List GEv} {e : GEv} (hsc : GSC part pre post e)
    (hclose : e.isOpen = false) : ∃ e0 ∈ pre, e0.seg = e.seg ∧ e0.isOpen = true := by
  have heM : e ∈ part.flatMap segEventsG := (hsc.mem e).1 (Or.inr (Or.inl rfl))
  obtain ⟨is, his, h1, h2, h3⟩ := ev_facts hL heM
  have hend : e.endpt = is.2.cn := by
    rcases h3 with ⟨a, _⟩ | ⟨_, b⟩
    · rw [a] at hclose; cases hclose
    · exact b
  have ho := (hL.shape is his)
  have hop := (open_mem his).1
  rw [ho.1] at hop
  rcases (hsc.mem _).2 hop with h | h | h
  · exact ⟨_, h, h1.symm, rfl⟩
  · rw [← h] at hclose; cases hclose
  · have := hsc.k2 _ h
    simp only at this
    rw [h2, hend] at this
    have := ho.2; grind

theorem GI_open (hL : LineOK o part) {pre post : List GEv} {e : GEv} (hsc : GSC part pre post e)
    {st : GState} (hGI : GI o part pre st) (hopen : e.isOpen = true) :
    GI o part (pre ++ [e]) (gStep st e) := by
  have heM : e ∈ part.flatMap segEventsG := (hsc.mem e).1 (Or.inr (Or.inl rfl))
  have hpreM : ∀ x ∈ pre, x ∈ part.flatMap segEventsG := fun x hx => (hsc.mem x).1 (Or.inl hx)
  obtain ⟨is, his, hseg, hvc, hkind⟩ := ev_facts hL heM
  have hon : e.endpt = is.2.on := by
    rcases hkind with ⟨_, b⟩ | ⟨a, _⟩
    · exact b
    · rw [a] at hopen; cases hopen
  obtain ⟨p1, p2, p3, p4, pr, p5⟩ := push_facts hL hsc hGI
  have hnot : e.seg ∉ st.openSegs := by
    intro h
    obtain ⟨⟨e0, h0, h01, h02⟩, _⟩ := (hGI.os_mem _).1 h
    have := same_seg_event hL (hpreM e0 h0) heM h01 (by rw [h02, hopen])
    subst this; exact hsc.npre h0
  rw [gStep_eq, if_pos hopen]
  have hc : st.openSegs.contains e.seg = false := by simpa using hnot
  simp only [hc, Bool.false_eq_true, if_false]
  -- no close event of this segment so far
  have hnoclose : ¬ ∃ e' ∈ pre ++ [e], e'.seg = e.seg ∧ e'.isOpen = false := by
    rintro ⟨e', he', hs', hc'⟩
    rcases List.mem_append.1 he' with h | h
    · -- a close before the open contradicts the order
      obtain ⟨js, hjs, j1, j2, j3⟩ := ev_facts hL (hpreM e' h)
      have : js = is := idx_inj hL hjs his (by rw [← j1, hs', hseg])
      subst this
      have hcn : e'.endpt = js.2.cn := by
        rcases j3 with ⟨a, _⟩ | ⟨_, b⟩
        · rw [a] at hc'; cases hc'
        · exact b
      have := hsc.k1 e' h
      rw [j2, hvc, hcn, hon] at this
      have := (hL.shape js hjs).2; grind
    · simp at h; subst h; rw [hopen] at hc'; cases hc'
  refine ⟨?_, ?_, ?_, ?_, p4, ?_, hGI.fin_sorted, hGI.fin_order, ?_, ?_, ?_⟩
  · exact List.nodup_cons.2 ⟨hnot, hGI.os_nodup⟩
  · intro i
    simp only [List.mem_cons]
    constructor
    · rintro (rfl | hi)
      · exact ⟨⟨e, by simp, rfl, hopen⟩, hnoclose⟩
      · obtain ⟨⟨e0, h0, h01, h02⟩, hn⟩ := (hGI.os_mem i).1 hi
        refine ⟨⟨e0, List.mem_append_left _ h0, h01, h02⟩, ?_⟩
        rintro ⟨e', he', hs', hc'⟩
        rcases List.mem_append.1 he' with h | h
        · exact hn ⟨e', h, hs', hc'⟩
        · simp at h; subst h; rw [hopen] at hc'; cases hc'
    · rintro ⟨⟨e0, h0, h01, h02⟩, hn⟩
      rcases List.mem_append.1 h0 with h | h
      · right
        exact (hGI.os_mem i).2 ⟨⟨e0, h, h01, h02⟩, fun ⟨e', he', x⟩ => hn ⟨e', List.mem_append_left _ he', x⟩⟩
      · simp at h; subst h; exact Or.inl h01.symm
  · simp only
    constructor
    · intro h; rw [p5] at h; cases h
    · intro h; cases h
  · intro b r hb
    simp only at hb
    rw [p5] at hb; cases hb
    refine ⟨e, by simp, rfl, ?_⟩
    intro e' he'
    rcases List.mem_append.1 he' with h | h
    · exact hsc.k1 e' h
    · simp at h; subst h; exact Rat.le_refl
  · intro n hn
    simp only at hn
    rcases hn with hn | hn
    · rcases p3 n hn with rfl | h
      · exact ⟨e, by simp, rfl⟩
      · obtain ⟨e0, h0, h1⟩ := hGI.nodes n (Or.inl h); exact ⟨e0, List.mem_append_left _ h0, h1⟩
    · obtain ⟨e0, h0, h1⟩ := hGI.nodes n (Or.inr hn); exact ⟨e0, List.mem_append_left _ h0, h1⟩
  · intro g hg a ha b hb
    simp only at hb
    rcases p3 b hb with rfl | h
    · obtain ⟨ea, hea, heaa⟩ := hGI.nodes a (Or.inr ⟨g, hg, ha⟩)
      obtain ⟨_, _, _, hvca, _⟩ := ev_facts hL (hpreM ea hea)
      have := hsc.k1 ea hea
      rw [hvca, hvc, heaa] at this; exact this
    · exact hGI.fin_cur g hg a ha b h
  · intro js hjs hj
    simp only at hj ⊢
    rcases List.mem_cons.1 hj with h | h
    · have : js = is := idx_inj hL hjs his (by rw [h, hseg])
      subst this; rw [← hon]; exact p1
    · exact p2 _ (hGI.open_on js hjs h)
  · intro js hjs hcl
    obtain ⟨e', he', hs', hc'⟩ := hcl
    rcases List.mem_append.1 he' with h | h
    · rcases hGI.closed js hjs ⟨e', h, hs', hc'⟩ with h1 | ⟨h1, h2⟩
      · exact Or.inl h1
      · exact Or.inr ⟨p2 _ h1, p2 _ h2⟩
    · simp at h; subst h; rw [hopen] at hc'; cases hc'

theorem GI_close (hL : LineOK o part) {pre post : List GEv} {e : GEv} (hsc : GSC part pre post e)
    {st : GState} (hGI : GI o part pre st) (hclose : e.isOpen = false) :
    GI o part (pre ++ [e]) (gStep st e) := by
  have heM : e ∈ part.flatMap segEventsG := (hsc.mem e).1 (Or.inr (Or.inl rfl))
  have hpreM : ∀ x ∈ pre, x ∈ part.flatMap segEventsG := fun x hx => (hsc.mem x).1 (Or.inl hx)
  obtain ⟨is, his, hseg, hvc, hkind⟩ := ev_facts hL heM
  have hcn : e.endpt = is.2.cn := by
    rcases hkind with ⟨a, _⟩ | ⟨_, b⟩
    · rw [a] at hclose; cases hclose
    · exact b
  obtain ⟨p1, p2, p3, p4, pr, p5⟩ := push_facts hL hsc hGI
  -- the segment is open
  have hin : e.seg ∈ st.openSegs := by
    obtain ⟨e0, h0, h01, h02⟩ := open_before_close hL hsc hclose
    refine (hGI.os_mem _).2 ⟨⟨e0, h0, h01, h02⟩, ?_⟩
    rintro ⟨e', he', hs', hc'⟩
    have := same_seg_event hL (hpreM e' he') heM hs' (by rw [hc', hclose])
    subst this; exact hsc.npre he'
  have hon : is.2.on ∈ st.group := hGI.open_on is his (hseg ▸ hin)
  have hmemE : ∀ i, i ∈ st.openSegs.erase e.seg ↔ i ∈ st.openSegs ∧ i ≠ e.seg := fun i =>
    (hGI.os_nodup.mem_erase_iff).trans (by constructor <;> (intro ⟨a, b⟩; exact ⟨b, a⟩))
  have hmax : ∀ e' ∈ pre ++ [e], e'.vc ≤ e.vc := by
    intro e' he'
    rcases List.mem_append.1 he' with h | h
    · exact hsc.k1 e' h
    · simp at h; subst h; exact Rat.le_refl
  have hnodes : ∀ n, n ∈ pushNode st.group e.endpt → ∃ e0 ∈ pre ++ [e], e0.endpt = n := by
    intro n hn
    rcases p3 n hn with rfl | h
    · exact ⟨e, by simp, rfl⟩
    · obtain ⟨e0, h0, h1⟩ := hGI.nodes n (Or.inl h); exact ⟨e0, List.mem_append_left _ h0, h1⟩
  have hfincur : ∀ g ∈ st.groups, ∀ a ∈ g, ∀ b ∈ pushNode st.group e.endpt, vcOf o a ≤ vcOf o b := by
    intro g hg a ha b hb
    rcases p3 b hb with rfl | h
    · obtain ⟨ea, hea, heaa⟩ := hGI.nodes a (Or.inr ⟨g, hg, ha⟩)
      obtain ⟨_, _, _, hvca, _⟩ := ev_facts hL (hpreM ea hea)
      have := hsc.k1 ea hea
      rw [hvca, hvc, heaa] at this; exact this
    · exact hGI.fin_cur g hg a ha b h
  -- membership characterisation of the remaining open segments
  have hosmem : ∀ i, i ∈ st.openSegs.erase e.seg ↔
      ((∃ e' ∈ pre ++ [e], e'.seg = i ∧ e'.isOpen = true) ∧ ¬ ∃ e' ∈ pre ++ [e], e'.seg = i ∧ e'.isOpen = false) := by
    intro i
    rw [hmemE, hGI.os_mem]
    constructor
    · rintro ⟨⟨⟨e0, h0, h01, h02⟩, hn⟩, hne⟩
      refine ⟨⟨e0, List.mem_append_left _ h0, h01, h02⟩, ?_⟩
      rintro ⟨e', he', hs', hc'⟩
      rcases List.mem_append.1 he' with h | h
      · exact hn ⟨e', h, hs', hc'⟩
      · simp at h; subst h; exact hne hs'.symm
    · rintro ⟨⟨e0, h0, h01, h02⟩, hn⟩
      have hne : i ≠ e.seg := by
        rintro rfl; exact hn ⟨e, by simp, rfl, hclose⟩
      rcases List.mem_append.1 h0 with h | h
      · exact ⟨⟨⟨e0, h, h01, h02⟩, fun ⟨e', he', x⟩ => hn ⟨e', List.mem_append_left _ he', x⟩⟩, hne⟩
      · simp at h; subst h; rw [hclose] at h02; cases h02
  rw [gStep_eq, if_neg (by rw [hclose]; simp)]
  split
  · -- the group is complete
    rename_i hemp
    have hemp' : st.openSegs.erase e.seg = [] := by simpa using hemp
    refine ⟨by simp, ?_, by simp, ?_, by simp, ?_, ?_, ?_, ?_, ?_, ?_⟩
    · intro i
      rw [← hosmem, hemp']
    · intro b r hb; simp at hb
    · intro n hn
      simp only at hn
      rcases hn with hn | ⟨g, hg, hn⟩
      · simp at hn
      · rcases List.mem_cons.1 hg with rfl | hg
        · exact hnodes n (by simpa using hn)
        · obtain ⟨e0, h0, h1⟩ := hGI.nodes n (Or.inr ⟨g, hg, hn⟩); exact ⟨e0, List.mem_append_left _ h0, h1⟩
    · intro g hg
      simp only at hg
      rcases List.mem_cons.1 hg with rfl | hg
      · rw [List.pairwise_reverse]; exact p4
      · exact hGI.fin_sorted g hg
    · simp only
      rw [List.pairwise_cons]
      refine ⟨?_, hGI.fin_order⟩
      intro g1 hg1 a ha b hb
      exact hfincur g1 hg1 a ha b (by simpa using hb)
    · intro g hg a ha b hb; simp at hb
    · intro js hjs hj; simp at hj
    · intro js hjs hcl
      left
      obtain ⟨e', he', hs', hc'⟩ := hcl
      simp only
      by_cases hjis : js = is
      · subst hjis
        exact ⟨(pushNode st.group e.endpt).reverse, List.mem_cons_self, by simpa using p2 _ hon, by simpa using (hcn ▸ p1)⟩
      · have hpre : e' ∈ pre := by
          rcases List.mem_append.1 he' with h | h
          · exact h
          · simp at h; subst h
            exact absurd (idx_inj hL hjs his (by rw [← hs', hseg])) hjis
        rcases hGI.closed js hjs ⟨e', hpre, hs', hc'⟩ with ⟨g, hg, h1, h2⟩ | ⟨h1, h2⟩
        · exact ⟨g, List.mem_cons_of_mem _ hg, h1, h2⟩
        · exact ⟨(pushNode st.group e.endpt).reverse, List.mem_cons_self, by simpa using p2 _ h1, by simpa using p2 _ h2⟩
  · -- some segment is still open
    rename_i hemp
    have hemp' : st.openSegs.erase e.seg ≠ [] := by simpa using hemp
    refine ⟨hGI.os_nodup.sublist List.erase_sublist, hosmem, ?_, ?_, p4, ?_, hGI.fin_sorted, hGI.fin_order,
      hfincur, ?_, ?_⟩
    · simp only
      constructor
      · intro h; rw [p5] at h; cases h
      · intro h; exact absurd h hemp'
    · intro b r hb
      simp only at hb
      rw [p5] at hb; cases hb
      exact ⟨e, by simp, rfl, hmax⟩
    · intro n hn
      simp only at hn
      rcases hn with hn | hn
      · exact hnodes n hn
      · obtain ⟨e0, h0, h1⟩ := hGI.nodes n (Or.inr hn); exact ⟨e0, List.mem_append_left _ h0, h1⟩
    · intro js hjs hj
      simp only at hj ⊢
      exact p2 _ (hGI.open_on js hjs ((hmemE _).1 hj).1)
    · intro js hjs hcl
      obtain ⟨e', he', hs', hc'⟩ := hcl
      simp only
      by_cases hjis : js = is
      · subst hjis
        exact Or.inr ⟨p2 _ hon, hcn ▸ p1⟩
      · have hpre : e' ∈ pre := by
          rcases List.mem_append.1 he' with h | h
          · exact h
          · simp at h; subst h
            exact absurd (idx_inj hL hjs his (by rw [← hs', hseg])) hjis
        rcases hGI.closed js hjs ⟨e', hpre, hs', hc'⟩ with h1 | ⟨h1, h2⟩
        · exact Or.inl h1
        · exact Or.inr ⟨p2 _ h1, p2 _ h2⟩

theorem events_nodup : ∀ {part : List (Nat × Seg)}, (part.map (·.1)).Nodup → (part.flatMap segEventsG).Nodup
  | [], _ => by simp
  | x :: r, h => by
    simp only [List.map_cons, List.nodup_cons] at h
    simp only [List.flatMap_cons]
    rw [List.nodup_append]
    refine ⟨by simp [segEventsG], events_nodup h.2, ?_⟩
    intro a ha b hb hab
    subst hab
    obtain ⟨js, hjs, hb'⟩ := List.mem_flatMap.1 hb
    have h1 : a.seg = x.1 := by
      simp only [segEventsG, List.mem_cons, List.mem_nil_iff, or_false] at ha
      rcases ha with rfl | rfl <;> rfl
    have h2 : a.seg = js.1 := by
      simp only [segEventsG, List.mem_cons, List.mem_nil_iff, or_false] at hb'
      rcases hb' with rfl | rfl <;> rfl
    exact h.1 (List.mem_map.2 ⟨js, hjs, by rw [← h2, h1]⟩)

/-- **Node groups of one line**: every group is strictly increasing along the line, groups follow one another, every
segment has both ends in one group, and every group node is a segment end. -/
theorem groupsOfPart_spec (hL : LineOK o part) :
    (∀ g ∈ groupsOfPart part, g.Pairwise (fun a b => vcOf o a < vcOf o b)) ∧
    (groupsOfPart part).Pairwise (fun g1 g2 => ∀ a ∈ g1, ∀ b ∈ g2, vcOf o a ≤ vcOf o b) ∧
    (∀ is ∈ part, ∃ g ∈ groupsOfPart part, is.2.on ∈ g ∧ is.2.cn ∈ g) ∧
    (∀ g ∈ groupsOfPart part, ∀ n ∈ g, ∃ is ∈ part, n = is.2.on ∨ n = is.2.cn) := by
  unfold groupsOfPart
  simp only
  generalize hLdef : stdSort (fun a b => decide (a.vc < b.vc)) (part.flatMap segEventsG) = L
  have hperm : L.Perm (part.flatMap segEventsG) := hLdef ▸ stdSort_perm _ _
  have hnd : L.Nodup := hperm.nodup_iff.2 (events_nodup hL.idx)
  have hsorted : L.Pairwise (fun a b => a.vc ≤ b.vc) := by
    rw [← hLdef]
    exact stdSort_sorted_key (fun (a b : GEv) => decide (a.vc < b.vc)) (fun (e : GEv) => e.vc) _ (by intros; simp)
  have key : ∀ (post pre : List GEv) (st : GState), pre ++ post = L → GI o part pre st →
      GI o part L (post.foldl gStep st) := by
    intro post
    induction post with
    | nil => intro pre st h hGI; simp at h; subst h; simpa using hGI
    | cons e post ih =>
      intro pre st h hGI
      rw [List.foldl_cons]
      refine ih (pre ++ [e]) _ (by simp [h]) ?_
      have hnd' := hnd; rw [← h, List.nodup_append] at hnd'
      have hso := hsorted; rw [← h, List.pairwise_append] at hso
      have hsc : GSC part pre post e := by
        refine ⟨?_, ?_, ?_, ?_⟩
        · intro x; rw [← hperm.mem_iff, ← h]; simp
        · intro hp; exact hnd'.2.2 e hp e (by simp) rfl
        · intro a ha; exact hso.2.2 a ha e (by simp)
        · intro b hb; exact (List.pairwise_cons.1 hso.2.1).1 b hb
      cases hopen : e.isOpen with
      | true => exact GI_open hL hsc hGI hopen
      | false => exact GI_close hL hsc hGI hopen
  have hGI0 : GI o part [] {} := by
    refine ⟨by simp, by simp, by simp, by simp, by simp, by simp, by simp, by simp, by simp, by simp, by simp⟩
  have hF := key L [] {} (by simp) hGI0
  generalize L.foldl gStep {} = stF at hF
  -- at the end nothing is open
  have hos : stF.openSegs = [] := by
    cases hh : stF.openSegs with
    | nil => rfl
    | cons i r =>
      exfalso
      obtain ⟨⟨e0, h0, h01, h02⟩, hn⟩ := (hF.os_mem i).1 (by rw [hh]; simp)
      obtain ⟨is, his, hs1, _, _⟩ := ev_facts hL (hperm.mem_iff.1 h0)
      have hcl := (open_mem his).2
      rw [(hL.shape is his).1] at hcl
      exact hn ⟨_, hperm.mem_iff.2 hcl, by simp only; rw [← hs1, h01], rfl⟩
  have hgrp : stF.group = [] := hF.empty_iff.2 hos
  refine ⟨?_, ?_, ?_, ?_⟩
  · intro g hg; exact hF.fin_sorted g (by simpa using hg)
  · rw [List.pairwise_reverse]; exact hF.fin_order
  · intro is his
    have hcl := (open_mem his).2
    rw [(hL.shape is his).1] at hcl
    rcases hF.closed is his ⟨_, hperm.mem_iff.2 hcl, rfl, rfl⟩ with ⟨g, hg, h1, h2⟩ | ⟨h1, _⟩
    · exact ⟨g, by simpa using hg, h1, h2⟩
    · rw [hgrp] at h1; simp at h1
  · intro g hg n hn
    obtain ⟨e0, h0, h1⟩ := hF.nodes n (Or.inr ⟨g, by simpa using hg, hn⟩)
    obtain ⟨is, his, _, _, hk⟩ := ev_facts hL (hperm.mem_iff.1 h0)
    refine ⟨is, his, ?_⟩
    rcases hk with ⟨_, b⟩ | ⟨_, b⟩
    · exact Or.inl (by rw [← h1, b])
    · exact Or.inr (by rw [← h1, b])

end gstep


end AdaptaVerif.Lemmas.Planarise
