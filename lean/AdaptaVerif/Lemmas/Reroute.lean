/-
Lemmas about Model/Reroute.lean: monotonicity of the reroute flags through `flagTxn`, and the fate of
one edge registration (either its connector ends up flagged, or the registration survives and none of the
three loops selected it).
-/
import AdaptaVerif.Model.Reroute
set_option linter.unusedSimpArgs false
namespace AdaptaVerif.Lemmas.Reroute
open AdaptaVerif.Model.Reroute
open AdaptaVerif.Model.ActionQueue (Action Kind End)

/-- connector `cid` exists -/
def Has (cid : Nat) (st : RState) : Prop := ∃ c ∈ st.conns, c.id = cid

/-- some flag of connector `cid` is up (`m_needs_reroute_flag`, or the delegate's bool) -/
def Up (cid : Nat) (st : RState) : Prop :=
  ∃ c ∈ st.conns, c.id = cid ∧ (c.needsReroute = true ∨ c.alerted = true)

theorem Has_map (cid : Nat) (cs : List ConnSt) (g : ConnSt → ConnSt) (hid : ∀ c, (g c).id = c.id)
    (h : ∃ c ∈ cs, c.id = cid) : ∃ c ∈ cs.map g, c.id = cid := by
  obtain ⟨c, hc, rfl⟩ := h
  exact ⟨g c, List.mem_map_of_mem hc, hid c⟩

theorem Up_map (cid : Nat) (cs : List ConnSt) (g : ConnSt → ConnSt) (hid : ∀ c, (g c).id = c.id)
    (hm : ∀ c, (c.needsReroute = true ∨ c.alerted = true) → ((g c).needsReroute = true ∨ (g c).alerted = true))
    (h : ∃ c ∈ cs, c.id = cid ∧ (c.needsReroute = true ∨ c.alerted = true)) :
    ∃ c ∈ cs.map g, c.id = cid ∧ (c.needsReroute = true ∨ c.alerted = true) := by
  obtain ⟨c, hc, rfl, hf⟩ := h
  exact ⟨g c, List.mem_map_of_mem hc, hid c, hm c hf⟩

/-! ### `alertWhere` -/

theorem alertWhere_Has (cid : Nat) (sel : Reg → Bool) (st : RState) (h : Has cid st) : Has cid (alertWhere sel st) := by
  unfold Has alertWhere setAlerted
  exact Has_map cid _ _ (by intro c; split <;> rfl) h

theorem alertWhere_Up (cid : Nat) (sel : Reg → Bool) (st : RState) (h : Up cid st) : Up cid (alertWhere sel st) := by
  unfold Up alertWhere setAlerted
  refine Up_map cid _ _ (by intro c; split <;> rfl) ?_ h
  intro c hc
  split
  · exact Or.inr rfl
  · exact hc

theorem alertWhere_hit (cid : Nat) (sel : Reg → Bool) (st : RState) (h : Has cid st) (r : Reg)
    (hr : r ∈ st.regs) (hc : r.conn = cid) (hs : sel r = true) : Up cid (alertWhere sel st) := by
  obtain ⟨c, hcm, hcid⟩ := h
  unfold Up alertWhere setAlerted
  refine ⟨_, List.mem_map_of_mem hcm, ?_, ?_⟩
  · split <;> exact hcid
  · have : ((st.regs.filter sel).map (·.conn)).contains c.id = true := by
      rw [List.contains_iff_mem]
      exact List.mem_map.mpr ⟨r, List.mem_filter.mpr ⟨hr, hs⟩, by rw [hc, hcid]⟩
    rw [if_pos this]
    exact Or.inr rfl

theorem alertWhere_keep (sel : Reg → Bool) (st : RState) (r : Reg) (hr : r ∈ st.regs) (hs : sel r = false) :
    r ∈ (alertWhere sel st).regs := by
  unfold alertWhere
  exact List.mem_filter.mpr ⟨hr, by simp [hs]⟩

theorem alertWhere_regs_sub (sel : Reg → Bool) (st : RState) (r : Reg) (hr : r ∈ (alertWhere sel st).regs) :
    r ∈ st.regs := by
  unfold alertWhere at hr
  exact (List.mem_filter.mp hr).1

/-! ### `markDeleted`, `invalidate`, `deliver` -/

theorem markOne_id (lt3 : Lt3) (poly : List AdaptaVerif.Model.Geometry.Pt) (c : ConnSt) : (markOne lt3 poly c).id = c.id := by
  unfold markOne; split
  · rfl
  · split <;> rfl

theorem markOne_mono (lt3 : Lt3) (poly : List AdaptaVerif.Model.Geometry.Pt) (c : ConnSt)
    (h : c.needsReroute = true ∨ c.alerted = true) :
    (markOne lt3 poly c).needsReroute = true ∨ (markOne lt3 poly c).alerted = true := by
  unfold markOne; split
  · exact h
  · split
    · exact Or.inl rfl
    · exact h
    · exact h

theorem markDeleted_Has (cid : Nat) (lt3 : Lt3) (poly : List AdaptaVerif.Model.Geometry.Pt) (st : RState) (h : Has cid st) :
    Has cid (markDeleted lt3 poly st) := Has_map cid _ _ (markOne_id lt3 poly) h

theorem markDeleted_Up (cid : Nat) (lt3 : Lt3) (poly : List AdaptaVerif.Model.Geometry.Pt) (st : RState) (h : Up cid st) :
    Up cid (markDeleted lt3 poly st) := Up_map cid _ _ (markOne_id lt3 poly) (markOne_mono lt3 poly) h

theorem invalidate_Has (cid k : Nat) (cs : List ConnSt) (h : ∃ c ∈ cs, c.id = cid) :
    ∃ c ∈ invalidate k cs, c.id = cid :=
  Has_map cid _ _ (by intro c; split <;> rfl) h

theorem invalidate_Up (cid k : Nat) (cs : List ConnSt)
    (h : ∃ c ∈ cs, c.id = cid ∧ (c.needsReroute = true ∨ c.alerted = true)) :
    ∃ c ∈ invalidate k cs, c.id = cid ∧ (c.needsReroute = true ∨ c.alerted = true) := by
  refine Up_map cid _ _ (by intro c; split <;> rfl) ?_ h
  intro c hc; split
  · exact Or.inl rfl
  · exact hc

theorem invalidate_self (cid : Nat) (cs : List ConnSt) (h : ∃ c ∈ cs, c.id = cid) :
    ∃ c ∈ invalidate cid cs, c.id = cid ∧ (c.needsReroute = true ∨ c.alerted = true) := by
  obtain ⟨c, hc, hid⟩ := h
  refine ⟨_, List.mem_map_of_mem hc, ?_, ?_⟩
  · split <;> exact hid
  · rw [if_pos (by simp [hid])]; exact Or.inl rfl

/-! ### the three loops -/

theorem pass1One_Has (cid : Nat) (lt3 : Lt3) (rp : Polys) (st : RState) (a : Action) (h : Has cid st) :
    Has cid (pass1One lt3 rp st a) := by
  unfold pass1One
  split
  · exact markDeleted_Has cid _ _ _ (alertWhere_Has cid _ _ h)
  · exact markDeleted_Has cid _ _ _ (alertWhere_Has cid _ _ h)
  · exact h

theorem pass1One_Up (cid : Nat) (lt3 : Lt3) (rp : Polys) (st : RState) (a : Action) (h : Up cid st) :
    Up cid (pass1One lt3 rp st a) := by
  unfold pass1One
  split
  · exact markDeleted_Up cid _ _ _ (alertWhere_Up cid _ _ h)
  · exact markDeleted_Up cid _ _ _ (alertWhere_Up cid _ _ h)
  · exact h

/-- pass 1 selects the registration: an end of the edge is a corner of a removed / moved obstacle -/
def bad1 (a : Action) (r : Reg) : Bool :=
  (a.kind == .remove || a.kind == .move) && r.touchesObst a.id

theorem pass1One_reg (cid : Nat) (lt3 : Lt3) (rp : Polys) (st : RState) (a : Action) (r : Reg)
    (h : Has cid st) (hr : r ∈ st.regs) (hc : r.conn = cid) :
    (bad1 a r = true → Up cid (pass1One lt3 rp st a)) ∧ (bad1 a r = false → r ∈ (pass1One lt3 rp st a).regs) := by
  unfold pass1One bad1
  cases hk : a.kind <;> simp only [beq_self_eq_true, Bool.or_true, Bool.true_or, Bool.true_and, Bool.false_and,
    Bool.or_self, reduceCtorEq, beq_iff_eq, Bool.false_eq_true, false_implies, true_implies, true_and, and_true,
    (by decide : (Kind.move == Kind.remove) = false), (by decide : (Kind.add == Kind.remove) = false),
    (by decide : (Kind.add == Kind.move) = false), (by decide : (Kind.remove == Kind.move) = false),
    (by decide : (Kind.connChange == Kind.remove) = false), (by decide : (Kind.connChange == Kind.move) = false)]
  · exact ⟨fun hs => markDeleted_Up cid _ _ _ (alertWhere_hit cid _ st h r hr hc hs),
      fun hs => alertWhere_keep _ st r hr hs⟩
  · exact hr
  · exact ⟨fun hs => markDeleted_Up cid _ _ _ (alertWhere_hit cid _ st h r hr hc hs),
      fun hs => alertWhere_keep _ st r hr hs⟩
  · exact hr

theorem pass2One_Has (cid : Nat) (rp : Polys) (st : RState) (a : Action) (h : Has cid st) :
    Has cid (pass2One rp st a) := by
  unfold pass2One newBlockingShape
  split
  · exact alertWhere_Has cid _ _ h
  · exact alertWhere_Has cid _ _ h
  · exact h

theorem pass2One_Up (cid : Nat) (rp : Polys) (st : RState) (a : Action) (h : Up cid st) :
    Up cid (pass2One rp st a) := by
  unfold pass2One newBlockingShape
  split
  · exact alertWhere_Up cid _ _ h
  · exact alertWhere_Up cid _ _ h
  · exact h

/-- pass 2 selects the registration: an added / moved shape is reported to block the edge -/
def bad2 (rp : Polys) (a : Action) (r : Reg) : Bool :=
  (a.kind == .add || a.kind == .move) && edgeBlocked (rp a.id) r

theorem pass2One_reg (cid : Nat) (rp : Polys) (st : RState) (a : Action) (r : Reg)
    (h : Has cid st) (hr : r ∈ st.regs) (hc : r.conn = cid) :
    (bad2 rp a r = true → Up cid (pass2One rp st a)) ∧ (bad2 rp a r = false → r ∈ (pass2One rp st a).regs) := by
  unfold pass2One bad2 newBlockingShape
  cases hk : a.kind <;> simp only [beq_self_eq_true, Bool.or_true, Bool.true_or, Bool.true_and, Bool.false_and,
    Bool.or_self, reduceCtorEq, beq_iff_eq, Bool.false_eq_true, false_implies, true_implies, true_and, and_true,
    (by decide : (Kind.move == Kind.add) = false), (by decide : (Kind.remove == Kind.add) = false),
    (by decide : (Kind.add == Kind.move) = false), (by decide : (Kind.remove == Kind.move) = false),
    (by decide : (Kind.connChange == Kind.add) = false), (by decide : (Kind.connChange == Kind.move) = false)]
  · exact ⟨fun hs => alertWhere_hit cid _ st h r hr hc hs, fun hs => alertWhere_keep _ st r hr hs⟩
  · exact ⟨fun hs => alertWhere_hit cid _ st h r hr hc hs, fun hs => alertWhere_keep _ st r hr hs⟩
  · exact hr
  · exact hr

theorem endpointChanged_Has (cid k : Nat) (st : RState) (e : End) (h : Has cid st) :
    Has cid (endpointChanged k st e) := by
  unfold endpointChanged
  exact invalidate_Has cid k _ (alertWhere_Has cid _ _ h)

theorem endpointChanged_Up (cid k : Nat) (st : RState) (e : End) (h : Up cid st) :
    Up cid (endpointChanged k st e) := by
  unfold endpointChanged
  exact invalidate_Up cid k _ (alertWhere_Up cid _ _ h)

theorem endpointChanged_reg (cid k : Nat) (st : RState) (e : End) (r : Reg)
    (h : Has cid st) (hr : r ∈ st.regs) (hc : r.conn = cid) :
    ((r.touchesKey (VKey.ofEnd k e) = true ∨ k = cid) → Up cid (endpointChanged k st e)) ∧
      (r.touchesKey (VKey.ofEnd k e) = false → r ∈ (endpointChanged k st e).regs) := by
  unfold endpointChanged
  refine ⟨?_, fun hs => alertWhere_keep _ st r hr hs⟩
  rintro (hs | rfl)
  · exact invalidate_Up cid k _ (alertWhere_hit cid _ st h r hr hc hs)
  · exact invalidate_self k _ (alertWhere_Has k _ _ h)

/-- generic fold: every step keeps `Has` and `Up`; a step on which `bad` holds raises the flag, a step
    on which it does not keeps the registration -/
theorem fold_reg {α : Type} (cid : Nat) (step : RState → α → RState) (bad : α → Reg → Prop)
    (hHas : ∀ st a, Has cid st → Has cid (step st a))
    (hUp : ∀ st a, Up cid st → Up cid (step st a))
    (hstep : ∀ st a r, Has cid st → r ∈ st.regs → r.conn = cid →
      (bad a r → Up cid (step st a)) ∧ (¬ bad a r → r ∈ (step st a).regs)) :
    ∀ (l : List α) (st : RState) (r : Reg), Has cid st → r ∈ st.regs → r.conn = cid →
      Has cid (l.foldl step st) ∧
      (Up cid (l.foldl step st) ∨ ((∀ a ∈ l, ¬ bad a r) ∧ r ∈ (l.foldl step st).regs)) := by
  intro l
  induction l with
  | nil => intro st r h hr _; exact ⟨h, Or.inr ⟨by simp, hr⟩⟩
  | cons a l ih =>
    intro st r h hr hc
    simp only [List.foldl_cons]
    have hUpFold : ∀ (l : List α) (st : RState), Up cid st → Up cid (l.foldl step st) := by
      intro l; induction l with
      | nil => intro st h; exact h
      | cons b l ih2 => intro st h; exact ih2 _ (hUp st b h)
    have hHasFold : ∀ (l : List α) (st : RState), Has cid st → Has cid (l.foldl step st) := by
      intro l; induction l with
      | nil => intro st h; exact h
      | cons b l ih2 => intro st h; exact ih2 _ (hHas st b h)
    by_cases hb : bad a r
    · exact ⟨hHasFold l _ (hHas st a h), Or.inl (hUpFold l _ ((hstep st a r h hr hc).1 hb))⟩
    · have hr' := (hstep st a r h hr hc).2 hb
      obtain ⟨h1, h2⟩ := ih (step st a) r (hHas st a h) hr' hc
      refine ⟨h1, ?_⟩
      rcases h2 with h2 | ⟨h2, h3⟩
      · exact Or.inl h2
      · refine Or.inr ⟨?_, h3⟩
        intro b hbm
        rcases List.mem_cons.mp hbm with rfl | hbm
        · exact hb
        · exact h2 b hbm

theorem fold_Up {α : Type} (cid : Nat) (step : RState → α → RState)
    (hUp : ∀ st a, Up cid st → Up cid (step st a)) :
    ∀ (l : List α) (st : RState), Up cid st → Up cid (l.foldl step st) := by
  intro l; induction l with
  | nil => intro st h; exact h
  | cons b l ih => intro st h; exact ih _ (hUp st b h)

/-- pass 3 selects the registration, or invalidates the connector itself -/
def bad3 (cid : Nat) (a : Action) (r : Reg) : Prop :=
  a.kind = .connChange ∧ ∃ u ∈ a.conns, (r.touchesKey (VKey.ofEnd a.id u.1) = true ∨ a.id = cid)

theorem pass3One_Has (cid : Nat) (st : RState) (a : Action) (h : Has cid st) : Has cid (pass3One st a) := by
  unfold pass3One
  split
  · have : ∀ (l : List (End × AdaptaVerif.Model.ActionQueue.CEnd)) (st : RState), Has cid st →
        Has cid (l.foldl (fun st u => endpointChanged a.id st u.1) st) := by
      intro l; induction l with
      | nil => intro st h; exact h
      | cons b l ih => intro st h; exact ih _ (endpointChanged_Has cid _ _ _ h)
    exact this _ _ h
  · exact h

theorem pass3One_Up (cid : Nat) (st : RState) (a : Action) (h : Up cid st) : Up cid (pass3One st a) := by
  unfold pass3One
  split
  · exact fold_Up cid _ (fun st u h => endpointChanged_Up cid _ st u.1 h) _ _ h
  · exact h

theorem pass3One_reg (cid : Nat) (st : RState) (a : Action) (r : Reg)
    (h : Has cid st) (hr : r ∈ st.regs) (hc : r.conn = cid) :
    (bad3 cid a r → Up cid (pass3One st a)) ∧ (¬ bad3 cid a r → r ∈ (pass3One st a).regs) := by
  unfold pass3One bad3
  cases hk : a.kind
  case connChange =>
    simp only [true_and]
    have key := fold_reg cid (fun st (u : End × AdaptaVerif.Model.ActionQueue.CEnd) => endpointChanged a.id st u.1)
      (fun u r => r.touchesKey (VKey.ofEnd a.id u.1) = true ∨ a.id = cid)
      (fun st u h => endpointChanged_Has cid _ st u.1 h)
      (fun st u h => endpointChanged_Up cid _ st u.1 h)
      (fun st u r h hr hc => by
        obtain ⟨h1, h2⟩ := endpointChanged_reg cid a.id st u.1 r h hr hc
        refine ⟨h1, ?_⟩
        intro hn
        apply h2
        cases ht : r.touchesKey (VKey.ofEnd a.id u.1)
        · rfl
        · exact absurd (Or.inl ht) hn)
      a.conns st r h hr hc
    constructor
    · rintro ⟨u, hu, hb⟩
      rcases key.2 with h2 | ⟨h2, _⟩
      · exact h2
      · exact absurd hb (h2 u hu)
    · intro hn
      rcases key.2 with h2 | ⟨_, h3⟩
      · -- the flag went up although no step was bad: impossible to exclude, but the registration
        -- question is then moot only if we can still show membership; use the fold again
        have : ∀ (l : List (End × AdaptaVerif.Model.ActionQueue.CEnd)) (st : RState), r ∈ st.regs →
            (∀ u ∈ l, r.touchesKey (VKey.ofEnd a.id u.1) = false) →
            r ∈ (l.foldl (fun st u => endpointChanged a.id st u.1) st).regs := by
          intro l; induction l with
          | nil => intro st hr _; exact hr
          | cons b l ih =>
            intro st hr hall
            simp only [List.foldl_cons]
            refine ih _ ?_ (fun u hu => hall u (List.mem_cons_of_mem _ hu))
            unfold endpointChanged
            exact alertWhere_keep _ st r hr (hall b (List.mem_cons_self ..))
        refine this _ _ hr ?_
        intro u hu
        cases ht : r.touchesKey (VKey.ofEnd a.id u.1)
        · rfl
        · exact absurd ⟨u, hu, Or.inl ht⟩ hn
      · exact h3
  all_goals simp only [reduceCtorEq, false_and, false_implies, not_false_eq_true, true_implies, true_and]
  all_goals exact hr

theorem deliver_needs (cid : Nat) (st : RState) (h : Up cid st) :
    ∃ c ∈ (deliver st).conns, c.id = cid ∧ c.needsReroute = true := by
  obtain ⟨c, hc, hid, hf⟩ := h
  unfold deliver
  refine ⟨_, List.mem_map_of_mem hc, ?_, ?_⟩
  · split <;> exact hid
  · cases ha : c.alerted
    · simp only [Bool.false_eq_true, if_false]
      rcases hf with hf | hf
      · exact hf
      · rw [ha] at hf; exact absurd hf (by simp)
    · simp

/-- **The fate of one registration through a whole transaction.**  Either the connector ends up with
    `needsReroute`, or no loop selected the registration (and the connector's own end points were not
    changed). -/
theorem flagTxn_reg (cid : Nat) (lt3 : Lt3) (rpOld rpNew : Polys) (acts : List Action) (st : RState) (r : Reg)
    (h : Has cid st) (hr : r ∈ st.regs) (hc : r.conn = cid) :
    (∃ c ∈ (flagTxn lt3 rpOld rpNew acts st).conns, c.id = cid ∧ c.needsReroute = true) ∨
      ((∀ a ∈ acts, bad1 a r = false) ∧ (∀ a ∈ acts, bad2 rpNew a r = false) ∧ (∀ a ∈ acts, ¬ bad3 cid a r) ∧
        r ∈ (flagTxn lt3 rpOld rpNew acts st).regs) := by
  unfold flagTxn
  obtain ⟨h1, k1⟩ := fold_reg cid (pass1One lt3 rpOld) (fun a r => bad1 a r = true)
    (pass1One_Has cid lt3 rpOld) (pass1One_Up cid lt3 rpOld)
    (fun st a r h hr hc => by
      obtain ⟨p, q⟩ := pass1One_reg cid lt3 rpOld st a r h hr hc
      exact ⟨p, fun hn => q (by cases hb : bad1 a r <;> simp_all)⟩)
    acts st r h hr hc
  rcases k1 with k1 | ⟨n1, r1⟩
  · exact Or.inl (deliver_needs cid _ (fold_Up cid _ (pass3One_Up cid) _ _ (fold_Up cid _ (pass2One_Up cid rpNew) _ _ k1)))
  obtain ⟨h2, k2⟩ := fold_reg cid (pass2One rpNew) (fun a r => bad2 rpNew a r = true)
    (pass2One_Has cid rpNew) (pass2One_Up cid rpNew)
    (fun st a r h hr hc => by
      obtain ⟨p, q⟩ := pass2One_reg cid rpNew st a r h hr hc
      exact ⟨p, fun hn => q (by cases hb : bad2 rpNew a r <;> simp_all)⟩)
    acts _ r h1 r1 hc
  rcases k2 with k2 | ⟨n2, r2⟩
  · exact Or.inl (deliver_needs cid _ (fold_Up cid _ (pass3One_Up cid) _ _ k2))
  obtain ⟨_, k3⟩ := fold_reg cid pass3One (bad3 cid)
    (pass3One_Has cid) (pass3One_Up cid) (pass3One_reg cid) acts _ r h2 r2 hc
  rcases k3 with k3 | ⟨n3, r3⟩
  · exact Or.inl (deliver_needs cid _ k3)
  refine Or.inr ⟨?_, ?_, n3, r3⟩
  · intro a ha; cases hb : bad1 a r
    · rfl
    · exact absurd hb (n1 a ha)
  · intro a ha; cases hb : bad2 rpNew a r
    · rfl
    · exact absurd hb (n2 a ha)

/-- a flag that is up when the transaction starts is still up when routing starts -/
theorem flagTxn_Up (cid : Nat) (lt3 : Lt3) (rpOld rpNew : Polys) (acts : List Action) (st : RState)
    (h : Up cid st) : ∃ c ∈ (flagTxn lt3 rpOld rpNew acts st).conns, c.id = cid ∧ c.needsReroute = true := by
  unfold flagTxn
  exact deliver_needs cid _ (fold_Up cid _ (pass3One_Up cid) _ _ (fold_Up cid _ (pass2One_Up cid rpNew) _ _
    (fold_Up cid _ (pass1One_Up cid lt3 rpOld) _ _ h)))

/-! ### `m_false_path` is never reset by `processActions` -/

def FalseP (cid : Nat) (st : RState) : Prop := ∃ c ∈ st.conns, c.id = cid ∧ c.falsePath = true

theorem FalseP_map (cid : Nat) (cs : List ConnSt) (g : ConnSt → ConnSt) (hid : ∀ c, (g c).id = c.id)
    (hf : ∀ c, (g c).falsePath = c.falsePath)
    (h : ∃ c ∈ cs, c.id = cid ∧ c.falsePath = true) : ∃ c ∈ cs.map g, c.id = cid ∧ c.falsePath = true := by
  obtain ⟨c, hc, rfl, hp⟩ := h
  exact ⟨g c, List.mem_map_of_mem hc, hid c, by rw [hf c]; exact hp⟩

theorem alertWhere_FalseP (cid : Nat) (sel : Reg → Bool) (st : RState) (h : FalseP cid st) :
    FalseP cid (alertWhere sel st) := by
  unfold FalseP alertWhere setAlerted
  exact FalseP_map cid _ _ (by intro c; split <;> rfl) (by intro c; split <;> rfl) h

theorem markDeleted_FalseP (cid : Nat) (lt3 : Lt3) (poly : List AdaptaVerif.Model.Geometry.Pt) (st : RState)
    (h : FalseP cid st) : FalseP cid (markDeleted lt3 poly st) := by
  refine FalseP_map cid _ _ (markOne_id lt3 poly) ?_ h
  intro c; unfold markOne; split
  · rfl
  · split <;> rfl

theorem fold_FalseP {α : Type} (cid : Nat) (step : RState → α → RState)
    (hP : ∀ st a, FalseP cid st → FalseP cid (step st a)) :
    ∀ (l : List α) (st : RState), FalseP cid st → FalseP cid (l.foldl step st) := by
  intro l; induction l with
  | nil => intro st h; exact h
  | cons b l ih => intro st h; exact ih _ (hP st b h)

theorem flagTxn_FalseP (cid : Nat) (lt3 : Lt3) (rpOld rpNew : Polys) (acts : List Action) (st : RState)
    (h : FalseP cid st) : FalseP cid (flagTxn lt3 rpOld rpNew acts st) := by
  unfold flagTxn
  have p1 : ∀ st a, FalseP cid st → FalseP cid (pass1One lt3 rpOld st a) := by
    intro st a h; unfold pass1One; split
    · exact markDeleted_FalseP cid _ _ _ (alertWhere_FalseP cid _ _ h)
    · exact markDeleted_FalseP cid _ _ _ (alertWhere_FalseP cid _ _ h)
    · exact h
  have p2 : ∀ st a, FalseP cid st → FalseP cid (pass2One rpNew st a) := by
    intro st a h; unfold pass2One newBlockingShape; split
    · exact alertWhere_FalseP cid _ _ h
    · exact alertWhere_FalseP cid _ _ h
    · exact h
  have pe : ∀ k st (e : End), FalseP cid st → FalseP cid (endpointChanged k st e) := by
    intro k st e h; unfold endpointChanged
    exact FalseP_map cid _ _ (by intro c; split <;> rfl) (by intro c; split <;> rfl) (alertWhere_FalseP cid _ _ h)
  have p3 : ∀ st a, FalseP cid st → FalseP cid (pass3One st a) := by
    intro st a h; unfold pass3One; split
    · exact fold_FalseP cid _ (fun st u h => pe a.id st u.1 h) _ _ h
    · exact h
  have := fold_FalseP cid _ p3 acts _ (fold_FalseP cid _ p2 acts _ (fold_FalseP cid _ p1 acts st h))
  unfold FalseP deliver
  exact FalseP_map cid _ _ (by intro c; split <;> rfl) (by intro c; split <;> rfl) this

/-! ### the invariant "every leg of the route is registered" -/

/-- every leg of `route` is an edge on which connector `cid` is registered -/
def Covered (regs : List Reg) (cid : Nat) (route : List AdaptaVerif.Model.Geometry.Pt) : Prop :=
  ∀ l ∈ AdaptaVerif.Check.Route.legs route, ∃ r ∈ regs, r.conn = cid ∧ r.pu = l.1 ∧ r.pv = l.2

theorem regsOfPath_covers (cid : Nat) : ∀ (path : List (AdaptaVerif.Model.Geometry.Pt × VKey)) (l : AdaptaVerif.Model.Geometry.Pt × AdaptaVerif.Model.Geometry.Pt), l ∈ AdaptaVerif.Check.Route.legs (path.map (·.1)) →
    ∃ r ∈ regsOfPath cid path, r.conn = cid ∧ r.pu = l.1 ∧ r.pv = l.2
  | [], l, h => by simp [AdaptaVerif.Check.Route.legs] at h
  | [a], l, h => by simp [AdaptaVerif.Check.Route.legs] at h
  | a :: b :: rest, l, h => by
    simp only [List.map_cons, AdaptaVerif.Check.Route.legs, List.zip_cons_cons, List.mem_cons] at h
    rcases h with rfl | h
    · exact ⟨{ conn := cid, u := a.2, v := b.2, pu := a.1, pv := b.1 }, by simp [regsOfPath], rfl, rfl, rfl⟩
    · have : l ∈ AdaptaVerif.Check.Route.legs ((b :: rest).map (·.1)) := by
        simp only [List.map_cons, AdaptaVerif.Check.Route.legs]; exact h
      obtain ⟨r, hr, h1⟩ := regsOfPath_covers cid (b :: rest) l this
      exact ⟨r, by simp only [regsOfPath, List.mem_cons]; exact Or.inr hr, h1⟩


end AdaptaVerif.Lemmas.Reroute
