/-
C20 helper lemmas: where heap addresses can influence libvpsc's scan line.
`keyLt pos rank` models `CmpNodePos` (position first, then the heap address as `rank`).
If all centre positions of the nodes involved are distinct, the comparator — and with it every
scan-line state and every neighbour list read during the sweep — is the same for ALL ranks.
-/
import AdaptaVerif.Model.Frame
import Mathlib.Tactic.Linarith
import Mathlib.Algebra.Order.Field.Rat
namespace AdaptaVerif.Lemmas.FrameScan
open AdaptaVerif.Model.Frame

/-- all centre positions of the listed nodes are pairwise distinct -/
def TieFree (pos : Nat → Rat) (ids : List Nat) : Prop :=
  ∀ u ∈ ids, ∀ v ∈ ids, u ≠ v → pos u ≠ pos v

theorem keyLt_tie_free (pos : Nat → Rat) (r1 r2 : Nat → Nat) (ids : List Nat) (h : TieFree pos ids) :
    ∀ u ∈ ids, ∀ v ∈ ids, keyLt pos r1 u v = keyLt pos r2 u v := by
  intro u hu v hv
  by_cases huv : u = v
  · subst huv
    simp only [keyLt, lt_irrefl, if_false, Nat.lt_irrefl]
  · have hne := h u hu v hv huv
    rcases lt_or_gt_of_ne hne with hlt | hgt
    · simp only [keyLt, hlt, if_true]
    · have : ¬ pos u < pos v := not_lt.2 (le_of_lt hgt)
      simp only [keyLt, this, hgt, if_true, if_false]

theorem insertSorted_congr (lt1 lt2 : Nat → Nat → Bool) (v : Nat) (S : List Nat)
    (h : ∀ x ∈ S, lt1 v x = lt2 v x) : insertSorted lt1 v S = insertSorted lt2 v S := by
  induction S with
  | nil => rfl
  | cons x xs ih =>
    simp only [insertSorted, h x (List.mem_cons_self)]
    rw [ih (fun y hy => h y (List.mem_cons_of_mem _ hy))]

theorem mem_insertSorted (lt : Nat → Nat → Bool) (v : Nat) (S : List Nat) (u : Nat) :
    u ∈ insertSorted lt v S → u = v ∨ u ∈ S := by
  induction S with
  | nil => intro h; simp only [insertSorted, List.mem_singleton] at h; exact Or.inl h
  | cons x xs ih =>
    simp only [insertSorted]
    split
    · intro h
      rcases List.mem_cons.1 h with h | h
      · exact Or.inl h
      · exact Or.inr h
    · intro h
      rcases List.mem_cons.1 h with h | h
      · exact Or.inr (h ▸ List.mem_cons_self)
      · rcases ih h with h | h
        · exact Or.inl h
        · exact Or.inr (List.mem_cons_of_mem _ h)

theorem mem_scanStep (lt : Nat → Nat → Bool) (S : List Nat) (op : ScanOp) (u : Nat) :
    u ∈ scanStep lt S op → u = op.2 ∨ u ∈ S := by
  unfold scanStep
  split
  · exact mem_insertSorted lt op.2 S u
  · intro h; exact Or.inr (List.mem_filter.1 h).1

theorem scanStep_congr (lt1 lt2 : Nat → Nat → Bool) (ids : List Nat)
    (h : ∀ u ∈ ids, ∀ v ∈ ids, lt1 u v = lt2 u v) (S : List Nat) (op : ScanOp)
    (hS : ∀ u ∈ S, u ∈ ids) (hop : op.2 ∈ ids) : scanStep lt1 S op = scanStep lt2 S op := by
  unfold scanStep
  split
  · exact insertSorted_congr lt1 lt2 op.2 S (fun x hx => h _ hop _ (hS x hx))
  · rfl

/-- the whole sweep trace depends on the comparator only through its values on the nodes involved -/
theorem scanTrace_congr (lt1 lt2 : Nat → Nat → Bool) (ids : List Nat)
    (h : ∀ u ∈ ids, ∀ v ∈ ids, lt1 u v = lt2 u v) (ops : List ScanOp) :
    ∀ S : List Nat, (∀ u ∈ S, u ∈ ids) → (∀ op ∈ ops, op.2 ∈ ids) →
      scanTrace lt1 S ops = scanTrace lt2 S ops := by
  induction ops with
  | nil => intro S _ _; rfl
  | cons op ops ih =>
    intro S hS hops
    have hop : op.2 ∈ ids := hops op List.mem_cons_self
    have e := scanStep_congr lt1 lt2 ids h S op hS hop
    have hS' : ∀ u ∈ scanStep lt2 S op, u ∈ ids := by
      intro u hu
      rcases mem_scanStep lt2 S op u hu with h1 | h1
      · rw [h1]; exact hop
      · exact hS u h1
    simp only [scanTrace, e]
    have eb : before lt1 (scanStep lt2 S op) op.2 = before lt2 (scanStep lt2 S op) op.2 := by
      unfold before
      rw [List.filter_congr (fun u hu => h u (hS' u hu) _ hop)]
    have ea : after lt1 (scanStep lt2 S op) op.2 = after lt2 (scanStep lt2 S op) op.2 := by
      unfold after
      rw [List.filter_congr (fun u hu => h _ hop u (hS' u hu))]
    rw [eb, ea, ih (scanStep lt2 S op) hS' (fun o ho => hops o (List.mem_cons_of_mem _ ho))]

end AdaptaVerif.Lemmas.FrameScan
