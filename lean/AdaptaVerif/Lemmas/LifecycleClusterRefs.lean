/-
C15 (A) — helper lemmas, part 5: cluster boundaries that reference obstacle vertices
(`Avoid::ReferencingPolygon` keeps raw pointers into the referenced obstacles' polygons).

Invariant carried between the operations of a strictly legal history (`RcOk`): while the router is
alive every reference of every cluster boundary names an allocated obstacle without a queued removal
(`RC`), and no dangling reference has been read so far (`refFaults = []`).  A transaction only frees
obstacles that have a queued removal, so the references survive it and `St.routeClusters` finds
nothing dangling.  Independent of the queue invariant `FOk`: only "which obstacles does
`processActions` free" matters.
-/
import AdaptaVerif.Lemmas.LifecycleFault
namespace AdaptaVerif.Lemmas.Lifecycle
open AdaptaVerif.Model.Lifecycle AdaptaVerif.Spec.Lifecycle

/-- every reference of every cluster boundary names an allocated obstacle that has no queued removal -/
def RC (s : St) : Prop :=
  ∀ k ∈ s.clusters, ∀ r ∈ k.refs,
    s.hasObst r = true ∧ ∀ a ∈ s.actions, isRemove a.type = true → a.obj ≠ r

/-- `RC` and nothing dangling read so far -/
def R (s : St) : Prop := RC s ∧ s.refFaults = []

structure RcOk (s : St) : Prop where
  rc : s.alive = true → RC s
  nofault : s.refFaults = []

theorem dangling_nil {s : St} (h : RC s) : s.dangling = [] := by
  unfold St.dangling
  rw [List.flatMap_eq_nil_iff]
  intro k hk
  rw [List.filter_eq_nil_iff]
  intro r hr
  have := (h k (List.mem_filter.1 hk).1 r hr).1
  simp [this]

/-- same clusters, at least the same obstacles, no new removal in the queue -/
theorem rc_transfer {s t : St} (h : RC s) (hk : t.clusters = s.clusters)
    (hO : ∀ o, s.hasObst o = true → t.hasObst o = true)
    (ha : ∀ a ∈ t.actions, isRemove a.type = true → ∃ b ∈ s.actions, isRemove b.type = true ∧ b.obj = a.obj) :
    RC t := by
  intro k hkm r hr
  rw [hk] at hkm
  obtain ⟨h1, h2⟩ := h k hkm r hr
  refine ⟨hO r h1, ?_⟩
  intro a hat har
  obtain ⟨b, hb, hbr, hbo⟩ := ha a hat har
  rw [← hbo]; exact h2 b hb hbr

theorem r_transfer {s t : St} (h : R s) (hk : t.clusters = s.clusters)
    (hO : ∀ o, s.hasObst o = true → t.hasObst o = true)
    (ha : ∀ a ∈ t.actions, isRemove a.type = true → ∃ b ∈ s.actions, isRemove b.type = true ∧ b.obj = a.obj)
    (hf : t.refFaults = s.refFaults) : R t :=
  ⟨rc_transfer h.1 hk hO ha, hf.trans h.2⟩

/-- the queue as it was, or a part of it -/
theorem sub_acts {s t : St} (h : ∀ a ∈ t.actions, a ∈ s.actions) :
    ∀ a ∈ t.actions, isRemove a.type = true → ∃ b ∈ s.actions, isRemove b.type = true ∧ b.obj = a.obj :=
  fun a ha hr => ⟨a, h a ha, hr, rfl⟩

/-! ### what a transaction does to clusters, `refFaults` and the obstacles without a queued removal -/

/-- the part of the state the passes of `processActions` never touch -/
def crf (s : St) : List Cluster × List Id := (s.clusters, s.refFaults)

theorem crf_procRemoveMove (s : St) (a : Action) : crf (procRemoveMove s a) = crf s := by
  unfold procRemoveMove
  split
  · split <;> rfl
  · split
    · split <;> rfl
    · rfl

theorem crf_procAddMove (s : St) (a : Action) : crf (procAddMove s a) = crf s := by
  unfold procAddMove
  split
  · split <;> rfl
  · rfl

theorem crf_applyEnd (s : St) (c : Id) (u : Bool × EndSpec) : crf (applyEnd s c u) = crf s := by
  unfold applyEnd
  split
  · rfl
  · split <;> rfl

theorem crf_foldl {α : Type} (f : St → α → St) (hf : ∀ s a, crf (f s a) = crf s)
    (l : List α) (s : St) : crf (l.foldl f s) = crf s :=
  foldl_inv (fun t => crf t = crf s) f (fun t a ht => (hf t a).trans ht) l s rfl

theorem crf_procConnChange (s : St) (a : Action) : crf (procConnChange s a) = crf s := by
  unfold procConnChange
  split
  · split
    · rfl
    · exact crf_foldl _ (fun s u => crf_applyEnd s a.obj u) _ _
  · rfl

theorem crf_processActions (s : St) : crf s.processActions = crf s := by
  unfold St.processActions
  show crf (List.foldl procConnChange _ _) = _
  rw [crf_foldl _ crf_procConnChange, crf_foldl _ crf_procAddMove, crf_foldl _ crf_procRemoveMove]

theorem hasObst_mapActive (t : St) (o x : Id) (b : Bool) :
    (t.obst.map (fun y => if y.id == x then { y with active := b } else y)).any (·.id == o) = t.hasObst o := by
  simp only [St.hasObst, List.any_map]
  congr 1; funext y; simp only [Function.comp]; split <;> rfl

theorem hasObst_procRemoveMove {t : St} {a : Action} {o : Id} (h : t.hasObst o = true)
    (hne : isRemove a.type = true → a.obj ≠ o) : (procRemoveMove t a).hasObst o = true := by
  unfold procRemoveMove
  split
  · rename_i hr
    split
    · exact h
    · have hoa : o ≠ a.obj := fun e => hne hr e.symm
      simp only [St.hasObst, St.freeObstacle, List.any_eq_true, List.mem_filter, bne_iff_ne, ne_eq,
        beq_iff_eq] at h ⊢
      obtain ⟨x, hx, hxo⟩ := h
      exact ⟨x, ⟨hx, by rw [hxo]; exact hoa⟩, hxo⟩
  · split
    · split
      · exact h
      · show (t.obst.map _).any (fun y : Obst => y.id == o) = true
        rw [hasObst_mapActive]; exact h
    · exact h

theorem hasObst_procAddMove {t : St} {a : Action} {o : Id} (h : t.hasObst o = true) :
    (procAddMove t a).hasObst o = true := by
  unfold procAddMove
  split
  · split
    · exact h
    · show (t.obst.map _).any (fun y : Obst => y.id == o) = true
      rw [hasObst_mapActive]; exact h
  · exact h

theorem hasObst_procConnChange {t : St} {a : Action} {o : Id} (h : t.hasObst o = true) :
    (procConnChange t a).hasObst o = true := by
  rw [hasObst_congr (obst_procConnChange t a).1]; exact h

/-- an obstacle without a queued removal is still allocated after `processActions` -/
theorem hasObst_processActions {s : St} {o : Id} (h : s.hasObst o = true)
    (hno : ∀ a ∈ s.actions, isRemove a.type = true → a.obj ≠ o) : s.processActions.hasObst o = true := by
  unfold St.processActions
  have h1 := foldl_inv_mem (fun t => t.hasObst o = true) procRemoveMove s.actions
    (fun t a ha ht => hasObst_procRemoveMove ht (hno a ha)) s h
  have h2 := foldl_inv (fun t => t.hasObst o = true) procAddMove
    (fun t a ht => hasObst_procAddMove ht) s.actions _ h1
  have h3 := foldl_inv (fun t => t.hasObst o = true) procConnChange
    (fun t a ht => hasObst_procConnChange ht)
    (s.actions.foldl procAddMove (s.actions.foldl procRemoveMove s)).actions _ h2
  exact h3

theorem r_processTransaction {s : St} (h : R s) : R s.processTransaction := by
  unfold St.processTransaction
  split
  · exact h
  · have hcrf := crf_processActions s
    simp only [crf, Prod.mk.injEq] at hcrf
    have hrc : RC (reroute s.processActions) := by
      intro k hk r hr
      have hk' : k ∈ s.clusters := by
        have : (reroute s.processActions).clusters = s.clusters := hcrf.1
        rw [this] at hk; exact hk
      obtain ⟨h1, h2⟩ := h.1 k hk' r hr
      refine ⟨?_, ?_⟩
      · show (reroute s.processActions).hasObst r = true
        have := hasObst_processActions h1 h2
        exact this
      · intro a ha
        have : (reroute s.processActions).actions = [] := rfl
        rw [this] at ha; cases ha
    refine ⟨?_, ?_⟩
    · exact rc_transfer hrc rfl (fun _ x => x) (sub_acts (fun _ x => x))
    · show (reroute s.processActions).refFaults ++ (reroute s.processActions).dangling = []
      rw [dangling_nil hrc]
      have : (reroute s.processActions).refFaults = s.refFaults := hcrf.2
      rw [this, h.2]; rfl

theorem r_maybeProcess {s : St} (h : R s) : R s.maybeProcess := by
  unfold St.maybeProcess
  split
  · exact h
  · exact r_processTransaction h

/-! ### the queue primitives -/

theorem r_enqueue {s : St} (h : R s) (t : AType) (o : Id) (hnr : isRemove t = false) : R (s.enqueue t o) := by
  unfold St.enqueue
  split
  · exact h
  · refine r_transfer h rfl (fun _ x => x) ?_ rfl
    intro a ha har
    simp only [List.mem_append, List.mem_singleton] at ha
    rcases ha with ha | rfl
    · exact ⟨a, ha, har, rfl⟩
    · rw [hnr] at har; cases har

/-- queueing the removal of an obstacle that no cluster boundary references -/
theorem r_enqueue_remove {s : St} (h : R s) (t : AType) (o : Id) (href : s.referenced o = false) :
    R (s.enqueue t o) := by
  unfold St.enqueue
  split
  · exact h
  · refine ⟨?_, h.2⟩
    intro k hk r hr
    obtain ⟨h1, h2⟩ := h.1 k hk r hr
    refine ⟨h1, ?_⟩
    intro a ha har
    simp only [List.mem_append, List.mem_singleton] at ha
    rcases ha with ha | rfl
    · exact h2 a ha har
    · intro e
      have e' : o = r := e
      simp only [St.referenced, List.any_eq_false, List.contains_iff_mem] at href
      exact href k hk (e' ▸ hr)

theorem r_modify {s : St} (h : R s) (c : Id) (d : Bool) (e : EndSpec) : R (s.modify c d e) := by
  refine r_transfer h rfl (fun _ x => x) ?_ rfl
  intro a ha har
  have ha' : a ∈ modifyConn s.actions c d e false := ha
  rcases mem_modifyConn_key ha' with ⟨b, hb, hbt, hbo⟩ | hk
  · exact ⟨b, hb, hbt ▸ har, hbo.symm⟩
  · rw [hk] at har; cases har

theorem r_dropAction {s : St} (h : R s) (t : AType) (o : Id) : R (s.dropAction t o) :=
  r_transfer h rfl (fun _ x => x)
    (sub_acts (fun a ha => by simp only [St.dropAction, List.mem_filter] at ha; exact ha.1)) rfl

theorem r_addFault {s : St} (h : R s) (f : Fault) : R (s.addFault f) :=
  r_transfer h rfl (fun _ x => x) (sub_acts (fun _ x => x)) rfl

theorem hasObst_addObst {s : St} (id : Id) (j a : Bool) (o : Id) (h : s.hasObst o = true) :
    (s.addObst id j a).hasObst o = true := by
  simp only [St.hasObst, St.addObst, List.any_append, Bool.or_eq_true] at h ⊢
  exact Or.inl h

theorem r_addObst {s : St} (h : R s) (id : Id) (j a : Bool) : R (s.addObst id j a) :=
  r_transfer h rfl (hasObst_addObst id j a) (sub_acts (fun _ x => x)) rfl

theorem r_addPin {s : St} (h : R s) (p o : Id) (c : Nat) : R (s.addPin p o c) :=
  r_transfer h rfl (fun _ x => x) (sub_acts (fun _ x => x)) rfl

theorem r_addConn {s : St} (h : R s) (id : Id) (a : Bool) : R (s.addConn id a) :=
  r_transfer h rfl (fun _ x => x) (sub_acts (fun _ x => x)) rfl

theorem r_freeConn {s : St} (h : R s) (c : Id) : R (s.freeConn c) :=
  r_transfer h rfl (fun _ x => x)
    (sub_acts (fun a ha => by
      simp only [St.freeConn, St.removeFromQueue, List.mem_filter] at ha; exact ha.1)) rfl

theorem r_setCheckpoints {s : St} (h : R s) (c : Id) (vs : List Id) : R (s.setCheckpoints c vs) :=
  r_transfer h rfl (fun _ x => x) (sub_acts (fun _ x => x)) rfl

theorem r_unlinkPin {s : St} (h : R s) (p : Id) : R (s.unlinkPin p) :=
  r_transfer h rfl (fun _ x => x) (sub_acts (fun _ x => x)) rfl

theorem r_releasePin {s : St} (h : R s) (p : Id) : R (s.releasePin p) :=
  r_transfer h rfl (fun _ x => x) (sub_acts (fun _ x => x)) rfl

theorem refsOk_spec {s : St} {refs : List Id} (h : refsOk s refs = true) :
    ∀ r ∈ refs, s.hasObst r = true ∧ ∀ a ∈ s.actions, isRemove a.type = true → a.obj ≠ r := by
  intro r hr
  simp only [refsOk, List.all_eq_true, Bool.and_eq_true, Bool.not_eq_true', List.any_eq_true, beq_iff_eq] at h
  obtain ⟨⟨x, hx, hxi, _⟩, hp⟩ := h r hr
  refine ⟨?_, ?_⟩
  · simp only [St.hasObst, List.any_eq_true, beq_iff_eq]; exact ⟨x, hx, hxi⟩
  · intro a ha har e
    simp only [St.pendingRemove, Bool.or_eq_false_iff] at hp
    simp only [isRemove, Bool.or_eq_true, beq_iff_eq] at har
    rcases har with har | har
    · exact hasAction_false hp.1 ha e har
    · exact hasAction_false hp.2 ha e har

theorem r_addCluster {s : St} (h : R s) (id : Id) {refs : List Id} (hr : refsOk s refs = true) :
    R (s.addCluster id refs) := by
  refine ⟨?_, h.2⟩
  intro k hk r hrk
  simp only [St.addCluster, List.mem_append, List.mem_singleton] at hk
  rcases hk with hk | rfl
  · exact h.1 k hk r hrk
  · exact refsOk_spec hr r hrk

theorem r_setClusterRefs {s : St} (h : R s) (id : Id) {refs : List Id} (hr : refsOk s refs = true) :
    R (s.setClusterRefs id refs) := by
  refine ⟨?_, h.2⟩
  intro k hk r hrk
  simp only [St.setClusterRefs, List.mem_map] at hk
  obtain ⟨k0, hk0, rfl⟩ := hk
  split at hrk
  · exact refsOk_spec hr r hrk
  · exact h.1 k0 hk0 r hrk

theorem r_freeCluster {s : St} (h : R s) (id : Id) : R (s.freeCluster id) := by
  refine ⟨?_, h.2⟩
  intro k hk r hrk
  simp only [St.freeCluster, List.mem_filter] at hk
  exact h.1 k hk.1 r hrk

/-- the router frees an obstacle that no cluster boundary references (hyperedge improvement) -/
theorem r_freeObstacle {s : St} (h : R s) (o : Id) (href : s.referenced o = false) : R (s.freeObstacle o) := by
  refine ⟨?_, h.2⟩
  intro k hk r hrk
  obtain ⟨h1, h2⟩ := h.1 k hk r hrk
  refine ⟨?_, h2⟩
  have hro : r ≠ o := by
    intro e
    simp only [St.referenced, List.any_eq_false, List.contains_iff_mem] at href
    exact href k hk (e ▸ hrk)
  simp only [St.hasObst, St.freeObstacle, List.any_eq_true, List.mem_filter, bne_iff_ne, ne_eq,
    beq_iff_eq] at h1 ⊢
  obtain ⟨x, hx, hxo⟩ := h1
  exact ⟨x, ⟨hx, by rw [hxo]; exact hro⟩, hxo⟩

/-! ### the operations -/

theorem r_deleteObstacleOp {s : St} (h : R s) (o : Id) (j : Bool) (href : s.referenced o = false) :
    R (deleteObstacleOp s o j) := by
  unfold deleteObstacleOp
  cases j <;> simp only [Bool.false_eq_true, ↓reduceIte] <;>
  · split
    · exact r_addFault h _
    · split
      · exact r_addFault h _
      · refine r_maybeProcess (r_enqueue_remove (r_dropAction h _ _) _ _ ?_)
        exact href

theorem r_moveObstacleOp {s : St} (h : R s) (o : Id) (j : Bool) : R (moveObstacleOp s o j) := by
  unfold moveObstacleOp
  cases j <;> simp only [Bool.false_eq_true, ↓reduceIte] <;>
  · split
    · exact r_addFault h _
    · split
      · exact h
      · exact r_maybeProcess (r_enqueue h _ _ (by decide))

theorem refFaults_foldl {α : Type} (f : St → α → St) (hf : ∀ s a, (f s a).refFaults = s.refFaults)
    (l : List α) (s : St) : (l.foldl f s).refFaults = s.refFaults :=
  foldl_inv (fun t => t.refFaults = s.refFaults) f (fun t a ht => (hf t a).trans ht) l s rfl

theorem rcOk_init : RcOk init := ⟨fun _ k hk => by simp [init] at hk, rfl⟩

theorem rcOk_step {s : St} (h : RcOk s) (op : Op) (hl : Legal s op = true) : RcOk (step s op) := by
  have hdoc := legal_legalDoc hl
  have hal : s.alive = true := by
    unfold LegalDoc at hdoc
    simp only [Bool.and_eq_true] at hdoc
    exact hdoc.1
  have hR : R s := ⟨h.rc hal, h.nofault⟩
  have fin : ∀ {t : St}, R t → RcOk t := fun r => ⟨fun _ => r.1, r.2⟩
  unfold step
  rw [if_neg (by simp [hal])]
  cases op with
  | newShape id => exact fin (r_maybeProcess (r_enqueue (r_addObst hR _ _ _) _ _ (by decide)))
  | newJunction id pin =>
    exact fin (r_maybeProcess (r_enqueue (r_maybeProcess (r_enqueue (r_addPin (r_addObst hR _ _ _) _ _ _)
      _ _ (by decide))) _ _ (by decide)))
  | newConn id src dst ctor3 =>
    exact fin (r_maybeProcess (r_modify (r_maybeProcess (r_modify (r_addConn hR _ _) _ _ _)) _ _ _))
  | newPin pin shape cls =>
    dsimp only; split
    · exact fin (r_addFault hR _)
    · exact fin (r_maybeProcess (r_enqueue (r_addPin hR _ _ _) _ _ (by decide)))
  | deleteShape id =>
    simp only [Legal, LegalDoc, Bool.and_eq_true, Bool.not_eq_true'] at hl
    exact fin (r_deleteObstacleOp hR _ _ hl.2.2)
  | deleteJunction id =>
    simp only [Legal, LegalDoc, Bool.and_eq_true, Bool.not_eq_true'] at hl
    exact fin (r_deleteObstacleOp hR _ _ hl.2.2)
  | deleteConn id =>
    dsimp only; split
    · exact fin (r_addFault hR _)
    · exact fin (r_freeConn hR _)
  | deletePin pin =>
    dsimp only; split
    · exact fin (r_addFault hR _)
    · exact fin (r_releasePin (r_maybeProcess (r_enqueue (r_unlinkPin hR _) _ _ (by decide))) _)
  | moveShape id => exact fin (r_moveObstacleOp hR _ _)
  | moveJunction id => exact fin (r_moveObstacleOp hR _ _)
  | setEndpoint c isDst e =>
    dsimp only; split
    · exact fin (r_addFault hR _)
    · exact fin (r_maybeProcess (r_modify hR _ _ _))
  | setRoutingCheckpoints c vs =>
    dsimp only; split
    · exact fin (r_addFault hR _)
    · exact fin (r_setCheckpoints hR _ _)
  | processTransaction => exact fin (r_processTransaction hR)
  | setTransactionUse b =>
    exact fin (r_transfer hR rfl (fun _ x => x) (sub_acts (fun _ x => x)) rfl)
  | deleteRouter =>
    refine ⟨fun hh => by simp [St.closeRouter] at hh, ?_⟩
    show (List.foldl (fun (s : St) (k : Cluster) => s.freeCluster k.id) _ _).refFaults = []
    rw [refFaults_foldl (fun (s : St) (k : Cluster) => s.freeCluster k.id) (fun _ _ => rfl),
      refFaults_foldl (fun (s : St) (o : Obst) => s.freeObstacle o.id) (fun _ _ => rfl),
      refFaults_foldl (fun (s : St) (c : Conn) => s.freeConn c.id) (fun _ _ => rfl)]
    exact h.nofault
  | rDelConn id =>
    dsimp only; split
    · exact fin (r_addFault hR _)
    · exact fin (r_freeConn hR _)
  | rDelJunction id =>
    simp only [LegalDoc, Bool.and_eq_true, Bool.not_eq_true'] at hdoc
    dsimp only; split
    · exact fin (r_addFault hR _)
    · refine fin (r_transfer (r_freeObstacle hR _ hdoc.2.2) rfl (fun _ x => x) (sub_acts ?_) rfl)
      intro a ha
      simp only [St.removeFromQueue, List.mem_filter] at ha; exact ha.1
  | rNewJunction id pin => exact fin (r_addPin (r_addObst hR _ _ _) _ _ _)
  | rNewConn id => exact fin (r_addConn hR _ _)
  | newCluster id refs =>
    simp only [LegalDoc, Bool.and_eq_true] at hdoc
    exact fin (r_addCluster hR _ hdoc.2.2)
  | deleteCluster id =>
    dsimp only; split
    · exact fin (r_addFault hR _)
    · exact fin (r_freeCluster hR _)
  | setClusterPoly id refs =>
    simp only [LegalDoc, Bool.and_eq_true] at hdoc
    dsimp only; split
    · exact fin (r_addFault hR _)
    · exact fin (r_setClusterRefs hR _ hdoc.2.2)
  | touchConn c =>
    dsimp only; split
    · exact fin (r_addFault hR _)
    · exact fin (r_maybeProcess (r_enqueue hR _ _ (by decide)))
  | touchPin pin =>
    dsimp only; split
    · exact fin (r_addFault hR _)
    · exact fin (r_maybeProcess (r_enqueue hR _ _ (by decide)))
  | apiRouter => exact fin hR
  | apiConn c =>
    dsimp only; split
    · exact fin (r_addFault hR _)
    · exact fin hR
  | apiObst o =>
    dsimp only; split
    · exact fin (r_addFault hR _)
    · exact fin hR

theorem rcOk_run_from {s : St} (h : RcOk s) (ops : List Op) (hl : legalFrom Legal s ops = true) :
    RcOk (ops.foldl step s) := by
  induction ops generalizing s with
  | nil => exact h
  | cons op rest ih =>
    simp only [legalFrom, Bool.and_eq_true] at hl
    exact ih (rcOk_step h op hl.1) hl.2

theorem rcOk_run (ops : List Op) (hl : LegalHist ops = true) : RcOk (run ops) :=
  rcOk_run_from rcOk_init ops hl

end AdaptaVerif.Lemmas.Lifecycle
