/-
`buildUniqueBendPoints` / `buildSegments` of `Model.Planarise` on separated inputs: the finder returns exactly the bend
node already stored at a point, one bend node per distinct interior route point, and the route segments satisfy `GoodA`
(`sepInput_goodA`).
-/
import AdaptaVerif.Lemmas.PlanarisePipeline
namespace AdaptaVerif.Lemmas.Planarise
open AdaptaVerif.Model.Planarise

/-! ### `buildUniqueBendPoints` on separated inputs -/

/-- the family of coordinates of an input: every two equal or more than 1 apart -/
def CoordsApart (pts : List Pt) : Prop :=
  (∀ a ∈ pts, ∀ b ∈ pts, Apart a.x b.x) ∧ (∀ a ∈ pts, ∀ b ∈ pts, Apart a.y b.y)

theorem tolBend_eq : tolBend = 1 / 2 := rfl

theorem near_iff_eq {q s : Pt} (hx : Apart q.x s.x) (hy : Apart q.y s.y) :
    (decide (absR (q.x - s.x) < tolBend) && decide (absR (q.y - s.y) < tolBend)) = true ↔ s = q := by
  rw [tolBend_eq]
  simp only [Bool.and_eq_true, decide_eq_true_eq]
  unfold Apart at hx hy
  constructor
  · rintro ⟨h1, h2⟩
    unfold absR at h1 h2
    have e1 : s.x = q.x := by split at h1 <;> grind
    have e2 : s.y = q.y := by split at h2 <;> grind
    cases s; cases q; simp_all
  · rintro rfl
    unfold absR
    constructor <;> split <;> grind

/-- result of the "first in bucket order" fold: a member of the list when the list is not empty -/
theorem pick_fold (l : List Node) : ∀ (best : Option Node),
    (l.foldl pickFirst best) = best ∧ l = [] ∨
    ∃ x, (l.foldl pickFirst best) = some x ∧ (x ∈ l ∨ best = some x) := by
  induction l with
  | nil => intro best; exact Or.inl ⟨rfl, rfl⟩
  | cons s r ih =>
    intro best
    right
    simp only [List.foldl_cons]
    cases best with
    | none =>
      simp only [pickFirst]
      rcases ih (some s) with ⟨h, _⟩ | ⟨x, h1, h2⟩
      · exact ⟨s, h, Or.inl (by simp)⟩
      · refine ⟨x, h1, Or.inl ?_⟩
        rcases h2 with h | h
        · exact List.mem_cons_of_mem _ h
        · cases h; simp
    | some b =>
      simp only [pickFirst]
      split
      · rcases ih (some s) with ⟨h, _⟩ | ⟨x, h1, h2⟩
        · exact ⟨s, h, Or.inl (by simp)⟩
        · refine ⟨x, h1, Or.inl ?_⟩
          rcases h2 with h | h
          · exact List.mem_cons_of_mem _ h
          · cases h; simp
      · rcases ih (some b) with ⟨h, _⟩ | ⟨x, h1, h2⟩
        · exact ⟨b, h, Or.inr rfl⟩
        · refine ⟨x, h1, ?_⟩
          rcases h2 with h | h
          · exact Or.inl (List.mem_cons_of_mem _ h)
          · exact Or.inr h

theorem findNear_spec {store : List Node} {q : Pt}
    (hap : ∀ s ∈ store, Apart q.x s.p.x ∧ Apart q.y s.p.y)
    (huniq : ∀ a ∈ store, ∀ b ∈ store, a.p = b.p → a = b) :
    (∀ b ∈ store, b.p = q → findNear tolBend store q = some b) ∧
    ((∀ b ∈ store, b.p ≠ q) → findNear tolBend store q = none) := by
  have hfilter : ∀ s, s ∈ store.filter (fun s => decide (absR (q.x - s.p.x) < tolBend) && decide (absR (q.y - s.p.y) < tolBend)) ↔
      s ∈ store ∧ s.p = q := by
    intro s
    rw [List.mem_filter]
    constructor
    · rintro ⟨h1, h2⟩; exact ⟨h1, (near_iff_eq (hap s h1).1 (hap s h1).2).1 h2⟩
    · rintro ⟨h1, h2⟩; exact ⟨h1, (near_iff_eq (hap s h1).1 (hap s h1).2).2 h2⟩
  unfold findNear
  constructor
  · intro b hb hbq
    rcases pick_fold (store.filter (fun s => decide (absR (q.x - s.p.x) < tolBend) && decide (absR (q.y - s.p.y) < tolBend))) none with ⟨_, h⟩ | ⟨x, h1, h2⟩
    · have := (hfilter b).2 ⟨hb, hbq⟩; rw [h] at this; simp at this
    · rw [h1]
      rcases h2 with h | h
      · obtain ⟨hx1, hx2⟩ := (hfilter x).1 h
        rw [huniq x hx1 b hb (by rw [hx2, hbq])]
      · cases h
  · intro hnone
    have : store.filter (fun s => decide (absR (q.x - s.p.x) < tolBend) && decide (absR (q.y - s.p.y) < tolBend)) = [] := by
      rw [List.eq_nil_iff_forall_not_mem]
      intro s hs
      obtain ⟨h1, h2⟩ := (hfilter s).1 hs
      exact hnone s h1 h2
    rw [this]; rfl

/-- the finder's store: fresh distinct ids, distinct positions, all positions interior route points -/
structure StoreOK (F : Nat) (IP : List Pt) (st : BendState) : Prop where
  ge : ∀ b ∈ st.store, F ≤ b.id ∧ b.id < st.nextId
  uniqP : ∀ a ∈ st.store, ∀ b ∈ st.store, a.p = b.p → a = b
  uniqI : ∀ a ∈ st.store, ∀ b ∈ st.store, a.id = b.id → a = b
  inIP : ∀ b ∈ st.store, b.p ∈ IP

theorem bendsOfRoute_spec {F : Nat} {IP : List Pt} (hIP : CoordsApart IP) :
    ∀ (pts : List Pt) (st : BendState), StoreOK F IP st → F ≤ st.nextId → (∀ q ∈ pts, q ∈ IP) →
      StoreOK F IP (bendsOfRoute st pts).1 ∧ ((bendsOfRoute st pts).2.map (·.p) = pts) ∧
      (∀ b ∈ (bendsOfRoute st pts).2, b ∈ (bendsOfRoute st pts).1.store) ∧
      (∀ b ∈ st.store, b ∈ (bendsOfRoute st pts).1.store) ∧ F ≤ (bendsOfRoute st pts).1.nextId := by
  intro pts
  induction pts with
  | nil => intro st hS hF _; simp [bendsOfRoute]; exact ⟨hS, hF⟩
  | cons q rest ih =>
    intro st hS hF hq
    have hqIP : q ∈ IP := hq q (by simp)
    have hap : ∀ s ∈ st.store, Apart q.x s.p.x ∧ Apart q.y s.p.y :=
      fun s hs => ⟨hIP.1 q hqIP _ (hS.inIP s hs), hIP.2 q hqIP _ (hS.inIP s hs)⟩
    obtain ⟨f1, f2⟩ := findNear_spec hap hS.uniqP
    cases hfn : findNear tolBend st.store q with
    | some b =>
      have hb : b ∈ st.store ∧ b.p = q := by
        by_cases hex : ∃ b' ∈ st.store, b'.p = q
        · obtain ⟨b', hb', hbq⟩ := hex
          have := f1 b' hb' hbq; rw [hfn] at this; cases this; exact ⟨hb', hbq⟩
        · have := f2 (fun b' hb' h => hex ⟨b', hb', h⟩); rw [hfn] at this; cases this
      obtain ⟨i1, i2, i3, i4, i5⟩ := ih st hS hF (fun x hx => hq x (by simp [hx]))
      simp only [bendsOfRoute, hfn]
      refine ⟨i1, by simp [i2, hb.2], ?_, i4, i5⟩
      intro x hx
      rcases List.mem_cons.1 hx with rfl | hx
      · exact i4 _ hb.1
      · exact i3 x hx
    | none =>
      have hno : ∀ b ∈ st.store, b.p ≠ q := by
        intro b hb hbq
        have := f1 b hb hbq; rw [hfn] at this; cases this
      have hS' : StoreOK F IP { store := st.store ++ [⟨st.nextId, q⟩], nextId := st.nextId + 1 } := by
        refine ⟨?_, ?_, ?_, ?_⟩
        · intro b hb
          simp only [List.mem_append, List.mem_singleton] at hb
          rcases hb with hb | rfl
          · have := hS.ge b hb; exact ⟨this.1, by simp only; omega⟩
          · exact ⟨hF, by simp⟩
        · intro a ha b hb hab
          simp only [List.mem_append, List.mem_singleton] at ha hb
          rcases ha with ha | rfl <;> rcases hb with hb | rfl
          · exact hS.uniqP a ha b hb hab
          · exact absurd hab (hno a ha)
          · exact absurd hab.symm (hno b hb)
          · rfl
        · intro a ha b hb hab
          simp only [List.mem_append, List.mem_singleton] at ha hb
          rcases ha with ha | rfl <;> rcases hb with hb | rfl
          · exact hS.uniqI a ha b hb hab
          · have := (hS.ge a ha).2; simp only at hab; omega
          · have := (hS.ge b hb).2; simp only at hab; omega
          · rfl
        · intro b hb
          simp only [List.mem_append, List.mem_singleton] at hb
          rcases hb with hb | rfl
          · exact hS.inIP b hb
          · exact hqIP
      obtain ⟨i1, i2, i3, i4, i5⟩ := ih _ hS' (by simp only; omega) (fun x hx => hq x (by simp [hx]))
      simp only [bendsOfRoute, hfn]
      refine ⟨i1, by simp [i2], ?_, fun b hb => i4 b (by simp [hb]), i5⟩
      intro x hx
      rcases List.mem_cons.1 hx with rfl | hx
      · exact i4 _ (by simp)
      · exact i3 x hx

/-- elementwise relation between the edges and their bend lists -/
inductive Paired (P : EdgeIn → List Node → Prop) : List EdgeIn → List (List Node) → Prop
  | nil : Paired P [] []
  | cons {e bs es bss} : P e bs → Paired P es bss → Paired P (e :: es) (bs :: bss)

/-- what `uniqueBends` returns for a list of edges: one bend list per edge, positions = interior route points,
all nodes in the final store -/
theorem uniqueBends_spec {F : Nat} {IP : List Pt} (hIP : CoordsApart IP) :
    ∀ (edges : List EdgeIn) (st : BendState), StoreOK F IP st → F ≤ st.nextId →
      (∀ e ∈ edges, ∀ q ∈ interior e.route, q ∈ IP) →
      StoreOK F IP (uniqueBends st edges).1 ∧
      Paired (fun e bs => bs.map (·.p) = interior e.route ∧ ∀ b ∈ bs, b ∈ (uniqueBends st edges).1.store)
        edges (uniqueBends st edges).2 ∧
      (∀ b ∈ st.store, b ∈ (uniqueBends st edges).1.store) := by
  intro edges
  induction edges with
  | nil => intro st hS _ _; simp only [uniqueBends]; exact ⟨hS, Paired.nil, fun b hb => hb⟩
  | cons e es ih =>
    intro st hS hF hq
    obtain ⟨b1, b2, b3, b4, b5⟩ := bendsOfRoute_spec hIP (interior e.route) st hS hF (hq e (by simp))
    obtain ⟨i1, i2, i3⟩ := ih _ b1 b5 (fun e' he' => hq e' (by simp [he']))
    simp only [uniqueBends]
    refine ⟨i1, Paired.cons ⟨b2, fun b hb => i3 b (b3 b hb)⟩ i2, fun b hb => i3 b (b4 b hb)⟩

/-! ### the route segments of a separated input satisfy `GoodA` -/

def ptPairs : List Pt → List (Pt × Pt)
  | a :: b :: rest => (a, b) :: ptPairs (b :: rest)
  | _ => []

/-- orthogonally routed input with separated coordinates -/
structure SepInput (inp : Input) : Prop where
  nodesP : ∀ a ∈ inp.nodes, ∀ b ∈ inp.nodes, a.p = b.p → a = b
  nodesI : ∀ a ∈ inp.nodes, ∀ b ∈ inp.nodes, a.id = b.id → a = b
  ends : ∀ e ∈ inp.edges, e.src ∈ inp.nodes ∧ e.tgt ∈ inp.nodes ∧ e.route = e.src.p :: interior e.route ++ [e.tgt.p]
  ortho : ∀ e ∈ inp.edges, ∀ pq ∈ ptPairs e.route,
    (pq.1.x = pq.2.x ∧ pq.1.y ≠ pq.2.y) ∨ (pq.1.y = pq.2.y ∧ pq.1.x ≠ pq.2.x)
  apart : CoordsApart (inp.nodes.map (·.p) ++ inp.edges.flatMap (·.route))
  avoid : ∀ e ∈ inp.edges, ∀ q ∈ interior e.route, ∀ n ∈ inp.nodes, n.p ≠ q

theorem firstFreeId_gt_aux : ∀ (ns : List Node) (m : Nat),
    m ≤ ns.foldl (fun m n => max m (n.id + 1)) m ∧ ∀ n ∈ ns, n.id < ns.foldl (fun m n => max m (n.id + 1)) m
  | [], m => by simp
  | x :: r, m => by
    simp only [List.foldl_cons]
    obtain ⟨h1, h2⟩ := firstFreeId_gt_aux r (max m (x.id + 1))
    refine ⟨by omega, ?_⟩
    intro n hn
    rcases List.mem_cons.1 hn with rfl | hn
    · omega
    · exact h2 n hn

theorem firstFreeId_gt (ns : List Node) : ∀ n ∈ ns, n.id < firstFreeId ns := (firstFreeId_gt_aux ns 0).2

theorem chainSegs_mem : ∀ {l : List Node} {s : Seg}, s ∈ chainSegs l →
    ∃ a b, (a, b) ∈ consecutive l ∧ s = mkSeg a b
  | [], _, h => by simp [chainSegs] at h
  | [_], _, h => by simp [chainSegs] at h
  | a :: b :: r, s, h => by
    simp only [chainSegs, List.mem_cons] at h
    rcases h with rfl | h
    · exact ⟨a, b, by simp [consecutive], rfl⟩
    · obtain ⟨a', b', h1, h2⟩ := chainSegs_mem (l := b :: r) h
      exact ⟨a', b', by simp only [consecutive, List.mem_cons]; exact Or.inr h1, h2⟩

theorem cons_map_p : ∀ {l : List Node} {a b : Node}, (a, b) ∈ consecutive l → (a.p, b.p) ∈ ptPairs (l.map (·.p))
  | [], _, _, h => by simp [consecutive] at h
  | [_], _, _, h => by simp [consecutive] at h
  | x :: y :: r, a, b, h => by
    simp only [consecutive, List.mem_cons] at h
    simp only [List.map_cons, ptPairs, List.mem_cons]
    rcases h with h | h
    · cases h; exact Or.inl rfl
    · exact Or.inr (cons_map_p (l := y :: r) h)

theorem zipEdgeSegs_mem {P : EdgeIn → List Node → Prop} : ∀ {edges : List EdgeIn} {bends : List (List Node)},
    Paired P edges bends → ∀ s ∈ zipEdgeSegs edges bends, ∃ e ∈ edges, ∃ bs, P e bs ∧ s ∈ edgeSegs e.src e.tgt bs
  | _, _, Paired.nil, s, h => by simp [zipEdgeSegs] at h
  | _, _, Paired.cons (e := e) (bs := bs) hp hr, s, h => by
    simp only [zipEdgeSegs, List.mem_append] at h
    rcases h with h | h
    · exact ⟨e, by simp, bs, hp, h⟩
    · obtain ⟨e', he', bs', h1, h2⟩ := zipEdgeSegs_mem hr s h
      exact ⟨e', List.mem_cons_of_mem _ he', bs', h1, h2⟩

theorem mkSeg_shape {a b : Node}
    (h : (a.p.x = b.p.x ∧ a.p.y ≠ b.p.y) ∨ (a.p.y = b.p.y ∧ a.p.x ≠ b.p.x)) :
    (SegH (mkSeg a b) ∨ SegV (mkSeg a b)) ∧
    (((mkSeg a b).on = a ∧ (mkSeg a b).cn = b) ∨ ((mkSeg a b).on = b ∧ (mkSeg a b).cn = a)) := by
  refine ⟨?_, mkSeg_ends a b⟩
  rcases h with ⟨hx, hy⟩ | ⟨hy, hx⟩
  · right
    have h0 : b.p.x - a.p.x = 0 := by grind
    have h1 : ¬ absR (b.p.y - a.p.y) ≤ absR (b.p.x - a.p.x) := by
      rw [h0]; have := absR_pos (r := b.p.y - a.p.y) (by grind); unfold absR at *; grind
    unfold mkSeg SegV
    by_cases h2 : b.p.y - a.p.y > 0
    · simp only [h1, h2, if_true, if_false]; refine ⟨?_, ?_, ?_, ?_, ?_, ?_⟩ <;> first | trivial | rfl | grind
    · simp only [h1, h2, if_false]; refine ⟨?_, ?_, ?_, ?_, ?_, ?_⟩ <;> first | trivial | rfl | grind
  · left
    have h0 : b.p.y - a.p.y = 0 := by grind
    have h1 : absR (b.p.y - a.p.y) ≤ absR (b.p.x - a.p.x) := by
      rw [h0]; have := absR_nonneg (b.p.x - a.p.x); unfold absR at *; grind
    unfold mkSeg SegH
    by_cases h2 : b.p.x - a.p.x > 0
    · simp only [h1, h2, if_true]; refine ⟨?_, ?_, ?_, ?_, ?_, ?_⟩ <;> first | trivial | rfl | grind
    · simp only [h1, h2, if_true, if_false]; refine ⟨?_, ?_, ?_, ?_, ?_, ?_⟩ <;> first | trivial | rfl | grind

theorem interior_sub {r : List Pt} {q : Pt} (h : q ∈ interior r) : q ∈ r := by
  unfold interior at h
  exact List.mem_of_mem_drop (List.dropLast_subset _ h)

/-- the end nodes of the route segments: original nodes or bend nodes of the final store -/
theorem segsA_ends {inp : Input} (hS : SepInput inp) :
    StoreOK (firstFreeId inp.nodes) (inp.edges.flatMap (fun e => interior e.route))
      (uniqueBends { nextId := firstFreeId inp.nodes } inp.edges).1 ∧
    ∀ s ∈ segsAOf inp, (SegH s ∨ SegV s) ∧
      (s.on ∈ inp.nodes ∨ s.on ∈ (uniqueBends { nextId := firstFreeId inp.nodes } inp.edges).1.store) ∧
      (s.cn ∈ inp.nodes ∨ s.cn ∈ (uniqueBends { nextId := firstFreeId inp.nodes } inp.edges).1.store) ∧
      ∃ e ∈ inp.edges, ∃ bs : List Node, bs.map (·.p) = interior e.route ∧
        (∀ b ∈ bs, b ∈ (uniqueBends { nextId := firstFreeId inp.nodes } inp.edges).1.store) ∧
        ((s.on, s.cn) ∈ consecutive (e.src :: bs ++ [e.tgt]) ∨ (s.cn, s.on) ∈ consecutive (e.src :: bs ++ [e.tgt])) := by
  have hfam : ∀ q ∈ inp.edges.flatMap (fun e => interior e.route),
      q ∈ inp.nodes.map (·.p) ++ inp.edges.flatMap (·.route) := by
    intro q hq
    obtain ⟨e, he, hqe⟩ := List.mem_flatMap.1 hq
    exact List.mem_append_right _ (List.mem_flatMap.2 ⟨e, he, interior_sub hqe⟩)
  have hIP : CoordsApart (inp.edges.flatMap (fun e => interior e.route)) :=
    ⟨fun a ha b hb => hS.apart.1 a (hfam a ha) b (hfam b hb), fun a ha b hb => hS.apart.2 a (hfam a ha) b (hfam b hb)⟩
  obtain ⟨u1, u2, _⟩ := uniqueBends_spec hIP inp.edges { nextId := firstFreeId inp.nodes }
    ⟨by simp, by simp, by simp, by simp⟩ (Nat.le_refl _)
    (fun e he q hq => List.mem_flatMap.2 ⟨e, he, hq⟩)
  refine ⟨u1, ?_⟩
  intro s hs
  obtain ⟨e, he, bs, ⟨hbp, hbs⟩, hse⟩ := zipEdgeSegs_mem u2 s hs
  obtain ⟨a, b, hab, rfl⟩ := chainSegs_mem hse
  obtain ⟨hsrc, htgt, hroute⟩ := hS.ends e he
  have hmap : (e.src :: bs ++ [e.tgt]).map (·.p) = e.route := by
    rw [hroute]; simp [hbp]
  have hpq := cons_map_p hab
  rw [hmap] at hpq
  have hor := hS.ortho e he _ hpq
  obtain ⟨hshape, hends⟩ := mkSeg_shape (a := a) (b := b) hor
  have hmemchain : ∀ n ∈ e.src :: bs ++ [e.tgt], n ∈ inp.nodes ∨
      n ∈ (uniqueBends { nextId := firstFreeId inp.nodes } inp.edges).1.store := by
    intro n hn
    simp only [List.cons_append, List.mem_cons, List.mem_append, List.mem_nil_iff, or_false] at hn
    rcases hn with rfl | hn | rfl
    · exact Or.inl hsrc
    · exact Or.inr (hbs n hn)
    · exact Or.inl htgt
  have ha := hmemchain a (cons_mem hab).1
  have hb := hmemchain b (cons_mem hab).2
  refine ⟨hshape, ?_⟩
  rcases hends with ⟨h1, h2⟩ | ⟨h1, h2⟩
  · rw [h1, h2]; exact ⟨ha, hb, e, he, bs, hbp, hbs, Or.inl hab⟩
  · rw [h1, h2]; exact ⟨hb, ha, e, he, bs, hbp, hbs, Or.inr hab⟩

/-- **The route segments of a separated input satisfy `GoodA`.** -/
theorem sepInput_goodA {inp : Input} (hS : SepInput inp) : GoodA (segsAOf inp) := by
  obtain ⟨hst, hends⟩ := segsA_ends hS
  -- the position of an end node belongs to the coordinate family
  have hfam : ∀ n, (n ∈ inp.nodes ∨ n ∈ (uniqueBends { nextId := firstFreeId inp.nodes } inp.edges).1.store) →
      n.p ∈ inp.nodes.map (·.p) ++ inp.edges.flatMap (·.route) := by
    rintro n (h | h)
    · exact List.mem_append_left _ (List.mem_map.2 ⟨n, h, rfl⟩)
    · obtain ⟨e, he, hq⟩ := List.mem_flatMap.1 (hst.inIP n h)
      exact List.mem_append_right _ (List.mem_flatMap.2 ⟨e, he, interior_sub hq⟩)
  have hend : ∀ s ∈ segsAOf inp, ∀ a ∈ [s.on, s.cn],
      a ∈ inp.nodes ∨ a ∈ (uniqueBends { nextId := firstFreeId inp.nodes } inp.edges).1.store := by
    intro s hs a ha
    simp only [List.mem_cons, List.mem_nil_iff, or_false] at ha
    rcases ha with rfl | rfl
    · exact (hends s hs).2.1
    · exact (hends s hs).2.2.1
  have hcoord : ∀ s ∈ segsAOf inp, ∀ a ∈ [s.on, s.cn], a.p ∈ inp.nodes.map (·.p) ++ inp.edges.flatMap (·.route) :=
    fun s hs a ha => hfam a (hend s hs a ha)
  refine ⟨fun s hs => (hends s hs).1, ?_, ?_, ?_⟩
  · intro s hs t ht a ha b hb
    simp only [List.mem_cons, List.mem_nil_iff, or_false] at ha hb
    rcases ha with rfl | rfl <;> rcases hb with rfl | rfl <;>
      exact hS.apart.1 _ (hcoord s hs _ (by simp)) _ (hcoord t ht _ (by simp))
  · intro s hs t ht a ha b hb
    simp only [List.mem_cons, List.mem_nil_iff, or_false] at ha hb
    rcases ha with rfl | rfl <;> rcases hb with rfl | rfl <;>
      exact hS.apart.2 _ (hcoord s hs _ (by simp)) _ (hcoord t ht _ (by simp))
  · intro s hs t ht a ha b hb
    have ca := hend s hs a ha
    have cb := hend t ht b hb
    have hnb : ∀ n ∈ inp.nodes, ∀ m ∈ (uniqueBends { nextId := firstFreeId inp.nodes } inp.edges).1.store,
        n.p ≠ m.p ∧ n.id ≠ m.id := by
      intro n hn m hm
      constructor
      · intro h
        obtain ⟨e, he, hq⟩ := List.mem_flatMap.1 (hst.inIP m hm)
        exact hS.avoid e he _ hq n hn h
      · have h1 := firstFreeId_gt inp.nodes n hn
        have h2 := (hst.ge m hm).1
        omega
    rcases ca with ca | ca <;> rcases cb with cb | cb
    · exact ⟨hS.nodesP a ca b cb, hS.nodesI a ca b cb⟩
    · exact ⟨fun h => absurd h (hnb a ca b cb).1, fun h => absurd h (hnb a ca b cb).2⟩
    · exact ⟨fun h => absurd h.symm (hnb b cb a ca).1, fun h => absurd h.symm (hnb b cb a ca).2⟩
    · exact ⟨hst.uniqP a ca b cb, hst.uniqI a ca b cb⟩


end AdaptaVerif.Lemmas.Planarise
