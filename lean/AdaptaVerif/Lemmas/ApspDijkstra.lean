/-
C17 — correctness of the Dijkstra model over an abstract min-selection (`SelSpec`).

Invariant `DInv` (settled = not in the queue):
  real    every finite key is the weight of an actual walk from the source
  src     the source keeps key 0
  closed  every edge out of a settled vertex is relaxed:  d v ≤ d u + w
  order   settled keys ≤ pending keys
  outeq   the output vector agrees with the keys on settled vertices
At the end the queue is empty, so `closed` is feasibility of the potential on all edges
(⇒ lower bound on every walk), and `real` gives attainment.
-/
import AdaptaVerif.Lemmas.ApspDijkstraAux
namespace AdaptaVerif.Lemmas.Apsp
open AdaptaVerif.Model.ShortestPaths AdaptaVerif.Spec.Apsp

/-! ### the inner loop (relaxing the edges of the extracted vertex `u`, key `a`) -/

theorem relaxEdge_none {u : Nat} {d : Vec} (h : Vec.at d u = none) (p : Nat × Rat) : relaxEdge u d p = d := by
  unfold relaxEdge; rw [h]

theorem fold_relaxEdge_none {u : Nat} : ∀ (l : List (Nat × Rat)) (d : Vec), Vec.at d u = none →
    l.foldl (relaxEdge u) d = d := by
  intro l
  induction l with
  | nil => intro d _; rfl
  | cons p rest ih => intro d h; rw [List.foldl_cons, relaxEdge_none h, ih d h]

theorem gtD_trans {x : Dist} {c c' : Rat} (h : gtD x c = true) (hc : c' ≤ c) : gtD x c' = true := by
  cases x with
  | none => rfl
  | some b => rw [gtD_some] at h ⊢; linarith

/-- relation between the keys before (`d0`) and during/after the inner loop (`d`) -/
def StepRel (g : Graph) (u : Nat) (a : Rat) (d0 d : Vec) : Prop :=
  d.size = d0.size ∧ Vec.at d u = some a ∧
  ∀ v, Vec.at d v = Vec.at d0 v ∨
    ∃ w, 0 ≤ w ∧ HasEdge g u v w ∧ Vec.at d v = some (a + w) ∧ gtD (Vec.at d0 v) (a + w) = true

theorem StepRel.init {g : Graph} {u : Nat} {a : Rat} {d0 : Vec} (h : Vec.at d0 u = some a) : StepRel g u a d0 d0 :=
  ⟨rfl, h, fun _ => Or.inl rfl⟩

theorem relaxEdge_rel {g : Graph} {u : Nat} {a : Rat} {d0 d : Vec} (h : StepRel g u a d0 d)
    {v : Nat} {w : Rat} (he : HasEdge g u v w) (hw : 0 ≤ w) : StepRel g u a d0 (relaxEdge u d (v, w)) := by
  obtain ⟨hsz, hu, hall⟩ := h
  unfold relaxEdge
  rw [hu]
  simp only
  by_cases hg : gtD (Vec.at d v) (a + w) = true
  · rw [if_pos hg]
    have hvu : v ≠ u := by
      intro e
      rw [e, hu, gtD_some] at hg
      linarith
    refine ⟨by rw [Array.size_setIfInBounds]; exact hsz, ?_, ?_⟩
    · rw [Vec.at_set, if_neg (fun h => hvu h.1)]; exact hu
    · intro v'
      rw [Vec.at_set]
      by_cases hc : v = v' ∧ v < d.size
      · rw [if_pos hc]
        obtain ⟨rfl, _⟩ := hc
        right
        refine ⟨w, hw, he, rfl, ?_⟩
        rcases hall v with e | ⟨w0, _, _, e, hg0⟩
        · rw [← e]; exact hg
        · rw [e, gtD_some] at hg
          exact gtD_trans hg0 (le_of_lt hg)
      · rw [if_neg hc]; exact hall v'
  · rw [if_neg hg]; exact ⟨hsz, hu, hall⟩

theorem fold_relaxEdge_rel {g : Graph} {u : Nat} {a : Rat} {d0 : Vec} :
    ∀ (l : List (Nat × Rat)), (∀ p ∈ l, HasEdge g u p.1 p.2 ∧ 0 ≤ p.2) → ∀ (d : Vec), StepRel g u a d0 d →
      StepRel g u a d0 (l.foldl (relaxEdge u) d) := by
  intro l
  induction l with
  | nil => intro _ d h; exact h
  | cons p rest ih =>
    intro hl d h
    rw [List.foldl_cons]
    have hp := hl p (List.mem_cons_self)
    exact ih (fun p' hp' => hl p' (List.mem_cons_of_mem _ hp')) _ (relaxEdge_rel (v := p.1) (w := p.2) h hp.1 hp.2)

/-- a bound on a key, once reached, survives later relaxations -/
theorem relaxEdge_mono {u : Nat} {d : Vec} {v : Nat} {c : Rat} (h : ∃ b, Vec.at d v = some b ∧ b ≤ c)
    (p : Nat × Rat) : ∃ b, Vec.at (relaxEdge u d p) v = some b ∧ b ≤ c := by
  unfold relaxEdge
  cases hu : Vec.at d u with
  | none => exact h
  | some a =>
    simp only
    by_cases hg : gtD (Vec.at d p.1) (a + p.2) = true
    · rw [if_pos hg, Vec.at_set]
      by_cases hc : p.1 = v ∧ p.1 < d.size
      · rw [if_pos hc]
        obtain ⟨b, hb, hbc⟩ := h
        rw [hc.1, hb, gtD_some] at hg
        exact ⟨a + p.2, rfl, by linarith⟩
      · rw [if_neg hc]; exact h
    · rw [if_neg hg]; exact h

theorem fold_relaxEdge_mono {u : Nat} {v : Nat} {c : Rat} : ∀ (l : List (Nat × Rat)) (d : Vec),
    (∃ b, Vec.at d v = some b ∧ b ≤ c) → ∃ b, Vec.at (l.foldl (relaxEdge u) d) v = some b ∧ b ≤ c := by
  intro l
  induction l with
  | nil => intro d h; exact h
  | cons p rest ih => intro d h; rw [List.foldl_cons]; exact ih _ (relaxEdge_mono h p)

theorem relaxEdge_achieves {u : Nat} {a : Rat} {d : Vec} (hu : Vec.at d u = some a) {v : Nat} (hv : v < d.size) (w : Rat) :
    ∃ b, Vec.at (relaxEdge u d (v, w)) v = some b ∧ b ≤ a + w := by
  unfold relaxEdge
  rw [hu]
  simp only
  by_cases hg : gtD (Vec.at d v) (a + w) = true
  · rw [if_pos hg, Vec.at_set, if_pos ⟨rfl, hv⟩]
    exact ⟨a + w, rfl, le_refl _⟩
  · rw [if_neg hg]
    cases hd : Vec.at d v with
    | none => rw [hd] at hg; exact absurd rfl hg
    | some b =>
      rw [hd, gtD_some] at hg
      exact ⟨b, rfl, not_lt.mp hg⟩

theorem fold_relaxEdge_achieves {g : Graph} {u : Nat} {a : Rat} {d0 : Vec} {n : Nat} (hn : d0.size = n) :
    ∀ (l : List (Nat × Rat)), (∀ p ∈ l, HasEdge g u p.1 p.2 ∧ 0 ≤ p.2 ∧ p.1 < n) → ∀ (d : Vec), StepRel g u a d0 d →
      ∀ p ∈ l, ∃ b, Vec.at (l.foldl (relaxEdge u) d) p.1 = some b ∧ b ≤ a + p.2 := by
  intro l
  induction l with
  | nil => intro _ d _ p hp; cases hp
  | cons p0 rest ih =>
    intro hl d h p hp
    rw [List.foldl_cons]
    have hp0 := hl p0 (List.mem_cons_self)
    rcases List.mem_cons.mp hp with rfl | hp'
    · have hsz : p.1 < d.size := by rw [h.1, hn]; exact hp0.2.2
      exact fold_relaxEdge_mono rest _ (relaxEdge_achieves h.2.1 hsz p.2)
    · exact ih (fun p' hp'' => hl p' (List.mem_cons_of_mem _ hp'')) _
        (relaxEdge_rel (v := p0.1) (w := p0.2) h hp0.1 hp0.2.1) p hp'

/-! ### the outer loop -/

structure DInv (g : Graph) (s : Nat) (st : DState) : Prop where
  dsize : st.d.size = g.n
  osize : st.out.size = g.n
  nodup : st.q.Nodup
  qlt : ∀ x ∈ st.q, x < g.n
  real : ∀ v x, Vec.at st.d v = some x → Walk g s v x
  src : Vec.at st.d s = some 0
  closed : ∀ u, u < g.n → u ∉ st.q → ∀ v w, HasEdge g u v w → ∀ a, Vec.at st.d u = some a →
    ∃ b, Vec.at st.d v = some b ∧ b ≤ a + w
  order : ∀ t, t < g.n → t ∉ st.q → ∀ x ∈ st.q, dle (Vec.at st.d t) (Vec.at st.d x)
  outeq : ∀ t, t < g.n → t ∉ st.q → Vec.at st.out t = Vec.at st.d t

theorem dinv_init {g : Graph} {s : Nat} (hs : s < g.n) : DInv g s (dijkstraInit g.n s) := by
  unfold dijkstraInit
  have hat : ∀ v, Vec.at ((Array.replicate g.n (none : Dist)).setIfInBounds s (some 0)) v = if v = s then some 0 else none := by
    intro v
    rw [Vec.at_set, Array.size_replicate, Vec.at_replicate]
    by_cases hv : s = v
    · subst hv; simp [hs]
    · have : ¬ v = s := fun e => hv e.symm
      simp [hv, this]
  constructor
  · simp
  · simp
  · exact List.nodup_range
  · intro x hx; exact List.mem_range.mp hx
  · intro v x hx
    simp only at hx
    rw [hat] at hx
    by_cases hv : v = s
    · rw [if_pos hv] at hx
      injection hx with hx
      rw [hv, ← hx]; exact Walk.nil hs
    · rw [if_neg hv] at hx; cases hx
  · simp only; rw [hat, if_pos rfl]
  · intro u hu hq; exact absurd (List.mem_range.mpr hu) hq
  · intro t ht hq; exact absurd (List.mem_range.mpr ht) hq
  · intro t ht hq; exact absurd (List.mem_range.mpr ht) hq

theorem dinv_step {g : Graph} (hv : Valid g) {s : Nat} {st : DState} (h : DInv g s st) {u : Nat} {q' : List Nat}
    (hu : u ∈ st.q) (hmin : ∀ x ∈ st.q, dle (Vec.at st.d u) (Vec.at st.d x))
    (hq' : ∀ x, x ∈ q' ↔ x ∈ st.q ∧ x ≠ u) (hnd : q'.Nodup) :
    DInv g s (dijkstraStep g.edges st u q') := by
  have hun : u < g.n := h.qlt u hu
  have hnotq' : ∀ t, t ∉ q' → t ∉ st.q ∨ t = u := by
    intro t ht
    by_cases htq : t ∈ st.q
    · by_cases htu : t = u
      · exact Or.inr htu
      · exact absurd ((hq' t).mpr ⟨htq, htu⟩) ht
    · exact Or.inl htq
  have hadj : ∀ p ∈ adj g.edges u, HasEdge g u p.1 p.2 ∧ 0 ≤ p.2 ∧ p.1 < g.n := by
    intro p hp
    have he : HasEdge g u p.1 p.2 := adj_hasEdge.mp hp
    exact ⟨he, (HasEdge.valid hv he).2.2, (HasEdge.valid hv he).2.1⟩
  cases hdu : Vec.at st.d u with
  | none =>
    -- nothing reachable is pending any more: the inner loop changes nothing
    have hfold : (adj g.edges u).foldl (relaxEdge u) st.d = st.d := fold_relaxEdge_none _ _ hdu
    unfold dijkstraStep
    rw [hfold, hdu]
    constructor
    · exact h.dsize
    · simp only; rw [Array.size_setIfInBounds]; exact h.osize
    · exact hnd
    · intro x hx; exact h.qlt x ((hq' x).mp hx).1
    · exact h.real
    · exact h.src
    · intro t ht htq v w he a ha
      rcases hnotq' t htq with htq | rfl
      · exact h.closed t ht htq v w he a ha
      · simp only at ha; rw [hdu] at ha; cases ha
    · intro t ht htq x hx
      have hxq := (hq' x).mp hx
      rcases hnotq' t htq with htq | rfl
      · exact h.order t ht htq x hxq.1
      · exact hmin x hxq.1
    · intro t ht htq
      simp only
      rw [Vec.at_set]
      rcases hnotq' t htq with htq | rfl
      · have : ¬ (u = t ∧ u < st.out.size) := fun hc => htq (hc.1 ▸ hu)
        rw [if_neg this]; exact h.outeq t ht htq
      · rw [if_pos ⟨rfl, by rw [h.osize]; exact hun⟩, hdu]
  | some a =>
    have ha0 : 0 ≤ a := Walk.nonneg hv (h.real u a hdu)
    have hrel : StepRel g u a st.d ((adj g.edges u).foldl (relaxEdge u) st.d) :=
      fold_relaxEdge_rel _ (fun p hp => ⟨(hadj p hp).1, (hadj p hp).2.1⟩) _ (StepRel.init hdu)
    have hach := fold_relaxEdge_achieves (g := g) (u := u) (a := a) h.dsize _ hadj _ (StepRel.init hdu)
    obtain ⟨hsz, hu', hall⟩ := hrel
    -- settled vertices keep their key
    have hkeep : ∀ t, t < g.n → t ∉ st.q →
        Vec.at ((adj g.edges u).foldl (relaxEdge u) st.d) t = Vec.at st.d t := by
      intro t ht htq
      rcases hall t with e | ⟨w, hw, _, _, hg⟩
      · exact e
      · have hord := h.order t ht htq u hu
        rw [hdu] at hord
        obtain ⟨b, hb, hba⟩ := hord a rfl
        rw [hb, gtD_some] at hg
        linarith
    -- keys only decrease
    have hdec : ∀ v c, (∃ b, Vec.at st.d v = some b ∧ b ≤ c) →
        ∃ b, Vec.at ((adj g.edges u).foldl (relaxEdge u) st.d) v = some b ∧ b ≤ c :=
      fun v c hb => fold_relaxEdge_mono _ _ hb
    -- new keys are at least `a`
    have hge : ∀ x, dle (Vec.at st.d u) (Vec.at st.d x) →
        dle (some a) (Vec.at ((adj g.edges u).foldl (relaxEdge u) st.d) x) := by
      intro x hx
      rcases hall x with e | ⟨w, hw, _, e, _⟩
      · rw [e, ← hdu]; exact hx
      · rw [e]; exact dle_some.mpr (by linarith)
    unfold dijkstraStep
    rw [hdu]
    constructor
    · simp only; rw [hsz]; exact h.dsize
    · simp only; rw [Array.size_setIfInBounds]; exact h.osize
    · exact hnd
    · intro x hx; exact h.qlt x ((hq' x).mp hx).1
    · intro v x hx
      simp only at hx
      rcases hall v with e | ⟨w, _, he, e, _⟩
      · rw [e] at hx; exact h.real v x hx
      · rw [e] at hx
        injection hx with hx
        rw [← hx]; exact Walk.snoc (h.real u a hdu) he
    · simp only
      rcases hall s with e | ⟨w, hw, _, _, hg⟩
      · rw [e]; exact h.src
      · rw [h.src, gtD_some] at hg; linarith
    · intro t ht htq v w he a' ha'
      simp only at ha' ⊢
      rcases hnotq' t htq with htq | rfl
      · rw [hkeep t ht htq] at ha'
        exact hdec v _ (h.closed t ht htq v w he a' ha')
      · rw [hu'] at ha'
        injection ha' with ha'
        rw [← ha']
        exact hach (v, w) (adj_hasEdge.mpr he)
    · intro t ht htq x hx
      simp only
      have hxq := (hq' x).mp hx
      rcases hnotq' t htq with htq | rfl
      · rw [hkeep t ht htq]
        have htu := h.order t ht htq u hu
        rw [hdu] at htu
        exact dle_trans htu (hge x (hmin x hxq.1))
      · rw [hu']; exact hge x (hmin x hxq.1)
    · intro t ht htq
      simp only
      rw [Vec.at_set]
      rcases hnotq' t htq with htq | rfl
      · have : ¬ (u = t ∧ u < st.out.size) := fun hc => htq (hc.1 ▸ hu)
        rw [if_neg this, hkeep t ht htq]; exact h.outeq t ht htq
      · rw [if_pos ⟨rfl, by rw [h.osize]; exact hun⟩, hu']

theorem dijkstraLoop_inv {sel : Selector} (hsel : SelSpec sel) {g : Graph} (hv : Valid g) {s : Nat} :
    ∀ (fuel : Nat) (st : DState), DInv g s st → st.q.length ≤ fuel →
      DInv g s (dijkstraLoop sel g.edges fuel st) ∧ (dijkstraLoop sel g.edges fuel st).q = [] := by
  intro fuel
  induction fuel with
  | zero =>
    intro st h hl
    exact ⟨h, List.length_eq_zero_iff.mp (Nat.le_zero.mp hl)⟩
  | succ f ih =>
    intro st h hl
    unfold dijkstraLoop
    cases hs : sel st.d st.q with
    | none => exact ⟨h, (hsel.none_iff _ _).mp hs⟩
    | some r =>
      obtain ⟨u, q'⟩ := r
      obtain ⟨h1, h2, h3, h4, h5⟩ := hsel.spec _ _ _ _ h.nodup hs
      simp only
      apply ih _ (dinv_step hv h h1 h2 h3 h4)
      show q'.length ≤ f
      omega

/-- when the queue is empty the output vector is the exact single-source distance vector -/
theorem dinv_final {g : Graph} (hv : Valid g) {s : Nat} {st : DState} (hinv : DInv g s st) (hq : st.q = [])
    {j : Nat} (hj : j < g.n) : IsDist g s j (Vec.at st.out j) := by
  have hnot : ∀ t, t ∉ st.q := by intro t; rw [hq]; exact List.not_mem_nil
  rw [hinv.outeq j hj (hnot j)]
  -- lower bound on every walk
  have hlower : ∀ {v : Nat} {c : Rat}, Walk g s v c → ∃ b, Vec.at st.d v = some b ∧ b ≤ c := by
    intro v c hw
    induction hw with
    | nil _ => exact ⟨0, hinv.src, le_refl _⟩
    | @snoc m k c w hwalk he ih =>
      obtain ⟨a, ha, hac⟩ := ih
      obtain ⟨b, hb, hba⟩ := hinv.closed m (Walk.ends hv hwalk).2 (hnot m) k w he a ha
      exact ⟨b, hb, by linarith⟩
  cases hd : Vec.at st.d j with
  | none =>
    intro c hw
    obtain ⟨b, hb, _⟩ := hlower hw
    rw [hd] at hb; cases hb
  | some x =>
    refine ⟨hinv.real j x hd, ?_⟩
    intro c hw
    obtain ⟨b, hb, hbc⟩ := hlower hw
    rw [hd] at hb
    injection hb with hb
    rw [hb]; exact hbc

/-- (3) Dijkstra over any selector that returns a minimum: the output vector is the exact
    single-source distance vector -/
theorem dijkstra_exact {sel : Selector} (hsel : SelSpec sel) {g : Graph} (hv : Valid g) {s : Nat} (hs : s < g.n)
    {j : Nat} (hj : j < g.n) : IsDist g s j (Vec.at (dijkstra sel g s) j) := by
  obtain ⟨hinv, hq⟩ := dijkstraLoop_inv hsel hv g.n _ (dinv_init hs) (by simp [dijkstraInit])
  exact dinv_final hv hinv hq hj

end AdaptaVerif.Lemmas.Apsp
