/-
Lemmas for C18 at the level of a whole SepMatrix: the TGLF SEPCO round trip of every record of a
well-formed matrix (induction over the association list, using the per-pair theorem and the fact
that reading a line for one key does not disturb the other keys), and equivariance of
`SepMatrix.transform`.
-/
import AdaptaVerif.Lemmas.SepTglf
import AdaptaVerif.Lemmas.SepTransform
namespace AdaptaVerif.Lemmas.Sep
open AdaptaVerif.Num AdaptaVerif.Model.Sep AdaptaVerif.Spec.Sep
open AdaptaVerif.Model.Sep.SepMatrix

/-- the reader started on an arbitrary matrix -/
def readFrom (ff : Bool) (m : SepMatrix) (ls : List TglfLine) : Option SepMatrix :=
  ls.foldlM (TglfLine.apply ff) m

theorem readSepcos_eq (ff : Bool) (ls : List TglfLine) : readSepcos ff ls = readFrom ff .empty ls := rfl

/-- what one line does to the pair it addresses -/
def decLine (sp : SepPair) (l : TglfLine) : SepPair :=
  sp.addSep l.gt l.dir.toSepDir (relOf l.isEq) l.gap.toSZ

theorem withFlag_false_eq (sp : SepPair) (h : sp.flippedRetrieval = false) :
    ({ sp with flippedRetrieval := false } : SepPair) = sp := by
  cases sp; simp_all

theorem upsert_extra (m : SepMatrix) (k : Nat × Nat) (sp : SepPair) :
    (m.upsert k sp).extraBdryGap = m.extraBdryGap := rfl

/-- one line addressed to an existing pair whose flag is clear -/
theorem apply_existing (ff : Bool) (m : SepMatrix) (l : TglfLine) (h : l.src < l.tgt) (cur : SepPair)
    (hc : m.lookup (l.src, l.tgt) = some cur) (hf : cur.flippedRetrieval = false) :
    TglfLine.apply ff m l = some (m.upsert (l.src, l.tgt) (decLine cur l)) := by
  have hne : l.src ≠ l.tgt := by omega
  have hnlt : ¬ l.tgt < l.src := by omega
  cases ff <;>
    simp [TglfLine.apply, SepMatrix.addSep, getSepPair, hne, key_lt h, hnlt, hc, hf, decLine, relOf,
      withFlag_false_eq cur hf]

/-- one line addressed to a pair the matrix does not have yet -/
theorem apply_fresh (ff : Bool) (m : SepMatrix) (l : TglfLine) (h : l.src < l.tgt)
    (hc : m.lookup (l.src, l.tgt) = none) :
    TglfLine.apply ff m l = some (m.upsert (l.src, l.tgt) (decLine (fresh l.src l.tgt) l)) := by
  have hne : l.src ≠ l.tgt := by omega
  have hnlt : ¬ l.tgt < l.src := by omega
  simp [TglfLine.apply, SepMatrix.addSep, getSepPair, hne, key_lt h, hnlt, hc, decLine, relOf, fresh]

theorem decLine_flag (sp : SepPair) (l : TglfLine) : (decLine sp l).flippedRetrieval = sp.flippedRetrieval := by
  simp [decLine]

/-- lines that all address the pair `(s, t)`, read into a matrix that has the pair with a clear flag -/
theorem readFrom_existing (ff : Bool) (s t : Nat) (hst : s < t) (ls : List TglfLine)
    (hl : ∀ l ∈ ls, l.src = s ∧ l.tgt = t) :
    ∀ (m : SepMatrix) (cur : SepPair), m.lookup (s, t) = some cur → cur.flippedRetrieval = false →
    ∃ m₁, readFrom ff m ls = some m₁ ∧ m₁.lookup (s, t) = some (ls.foldl decLine cur) ∧
      (∀ k, k ≠ (s, t) → m₁.lookup k = m.lookup k) ∧ m₁.extraBdryGap = m.extraBdryGap := by
  induction ls with
  | nil => intro m cur hc _; exact ⟨m, rfl, hc, fun _ _ => rfl, rfl⟩
  | cons l rest ih =>
    intro m cur hc hf
    obtain ⟨h1, h2⟩ := hl l (by simp)
    have hlt : l.src < l.tgt := by omega
    have hc' : m.lookup (l.src, l.tgt) = some cur := by rw [h1, h2]; exact hc
    have hstep := apply_existing ff m l hlt cur hc' hf
    rw [h1, h2] at hstep
    obtain ⟨m₁, hr, hlk, hoth, hex⟩ := ih (fun l' hl' => hl l' (by simp [hl']))
      (m.upsert (s, t) (decLine cur l)) (decLine cur l) (lookup_upsert_self _ _ _)
      (by rw [decLine_flag]; exact hf)
    refine ⟨m₁, ?_, ?_, ?_, ?_⟩
    · simp only [readFrom, List.foldlM_cons, hstep] at hr ⊢
      exact hr
    · simpa using hlk
    · intro k hk
      rw [hoth k hk, lookup_upsert_ne _ _ _ hk]
    · rw [hex]; rfl

/-- the same, into a matrix that does not have the pair -/
theorem readFrom_fresh (ff : Bool) (s t : Nat) (hst : s < t) (l : TglfLine) (rest : List TglfLine)
    (hl : ∀ l' ∈ l :: rest, l'.src = s ∧ l'.tgt = t) (m : SepMatrix) (hc : m.lookup (s, t) = none) :
    ∃ m₁, readFrom ff m (l :: rest) = some m₁ ∧
      m₁.lookup (s, t) = some ((l :: rest).foldl decLine (fresh s t)) ∧
      (∀ k, k ≠ (s, t) → m₁.lookup k = m.lookup k) ∧ m₁.extraBdryGap = m.extraBdryGap := by
  obtain ⟨h1, h2⟩ := hl l (by simp)
  have hlt : l.src < l.tgt := by omega
  have hc' : m.lookup (l.src, l.tgt) = none := by rw [h1, h2]; exact hc
  have hstep := apply_fresh ff m l hlt hc'
  rw [h1, h2] at hstep
  obtain ⟨m₁, hr, hlk, hoth, hex⟩ := readFrom_existing ff s t hst rest (fun l' hl' => hl l' (by simp [hl']))
    (m.upsert (s, t) (decLine (fresh s t) l)) (decLine (fresh s t) l) (lookup_upsert_self _ _ _)
    (by rw [decLine_flag]; rfl)
  refine ⟨m₁, ?_, ?_, ?_, ?_⟩
  · simp only [readFrom, List.foldlM_cons, hstep] at hr ⊢
    exact hr
  · simpa using hlk
  · intro k hk
    rw [hoth k hk, lookup_upsert_ne _ _ _ hk]
  · rw [hex]; rfl



/-- every line the writer produces for a pair carries the pair's ids -/
theorem writeTglf_ids (sp : SepPair) (extra : Rat) (ls : List TglfLine)
    (hw : sp.writeTglf extra = some ls) : ∀ l ∈ ls, l.src = sp.src ∧ l.tgt = sp.tgt := by
  simp only [SepPair.writeTglf] at hw
  repeat' split at hw
  all_goals
    first
      | (cases hw; simp)
      | simp at hw


/-- the pair's lines, read into any matrix that has no record for the pair: other records are
    untouched and the record created (if any) means what the original pair means -/
theorem read_pair_into (ff : Bool) (sp : SepPair) (extra : Rat) (ls : List TglfLine)
    (hlt : sp.src < sp.tgt)
    (hx : IsMultipleOfPrec sp.tglfPrecision sp.xgap) (hy : IsMultipleOfPrec sp.tglfPrecision sp.ygap)
    (he : RatMultiple sp.tglfPrecision extra) (hw : sp.writeTglf extra = some ls)
    (m : SepMatrix) (hc : m.lookup (sp.src, sp.tgt) = none) :
    ∃ m₁, readFrom ff m ls = some m₁ ∧ m₁.extraBdryGap = m.extraBdryGap ∧
      (∀ k, k ≠ (sp.src, sp.tgt) → m₁.lookup k = m.lookup k) ∧
      ∀ pl, SatOpt 0 (m₁.lookup (sp.src, sp.tgt)) pl ↔ Sat extra sp pl := by
  obtain ⟨m₀, hr₀, _, hs₀⟩ := tglf_roundtrip' ff sp extra ls hlt hx hy he hw
  have hids := writeTglf_ids sp extra ls hw
  cases ls with
  | nil =>
    refine ⟨m, rfl, rfl, fun _ _ => rfl, ?_⟩
    intro pl
    rw [hc]
    have : m₀ = SepMatrix.empty := by
      simp [readSepcos] at hr₀; exact hr₀.symm
    have h := hs₀ pl
    rw [this] at h
    simpa [SepMatrix.lookup, SepMatrix.empty, lookupL] using h
  | cons l rest =>
    obtain ⟨m₁, hr, hlk, hoth, hex⟩ := readFrom_fresh ff sp.src sp.tgt hlt l rest hids m hc
    obtain ⟨m₂, hr₂, hlk₂, _, _⟩ := readFrom_fresh ff sp.src sp.tgt hlt l rest hids .empty
      (by simp [SepMatrix.lookup, SepMatrix.empty, lookupL])
    rw [readSepcos_eq, hr₂] at hr₀
    cases hr₀
    refine ⟨m₁, hr, hex, hoth, ?_⟩
    intro pl
    rw [hlk, ← hlk₂]
    exact hs₀ pl


/-! ### the whole matrix -/

/-- `SepMatrix.writeTglf` as a structural recursion over the association list -/
def writeL (extra : Rat) : List ((Nat × Nat) × SepPair) → Option (List TglfLine)
  | [] => some []
  | (_, sp) :: rest =>
    match sp.writeTglf extra, writeL extra rest with
    | some l, some r => some (l ++ r)
    | _, _ => none

theorem writeTglf_foldl_none (extra : Rat) (ps : List ((Nat × Nat) × SepPair)) :
    ps.foldl (fun acc (x : (Nat × Nat) × SepPair) =>
      match acc, x.2.writeTglf extra with
      | some ls, some l => some (ls ++ l)
      | _, _ => none) none = none := by
  induction ps with
  | nil => rfl
  | cons hd tl ih => simpa [List.foldl] using ih

theorem writeTglf_foldl (extra : Rat) (ps : List ((Nat × Nat) × SepPair)) (acc : List TglfLine) :
    ps.foldl (fun acc (x : (Nat × Nat) × SepPair) =>
      match acc, x.2.writeTglf extra with
      | some ls, some l => some (ls ++ l)
      | _, _ => none) (some acc) = (writeL extra ps).map (acc ++ ·) := by
  induction ps generalizing acc with
  | nil => simp [writeL]
  | cons hd tl ih =>
    obtain ⟨k, sp⟩ := hd
    simp only [List.foldl, writeL]
    cases hsp : sp.writeTglf extra with
    | none => simp [writeTglf_foldl_none]
    | some l =>
      simp only [ih]
      cases writeL extra tl <;> simp [List.append_assoc]

theorem writeTglf_eq_writeL (m : SepMatrix) : m.writeTglf = writeL m.extraBdryGap m.pairs := by
  have := writeTglf_foldl m.extraBdryGap m.pairs []
  simp only [List.nil_append, Option.map_id'] at this
  unfold SepMatrix.writeTglf
  convert this using 2
  funext acc x
  obtain ⟨k, sp⟩ := x
  rfl


/-- a stored record is well formed: filed under `(src, tgt)` with `src < tgt`, and its gaps (and the
    matrix's extra boundary gap) are multiples of `10^-tglfPrecision` -/
structure EntryOK (extra : Rat) (e : (Nat × Nat) × SepPair) : Prop where
  key : e.1 = (e.2.src, e.2.tgt)
  lt : e.2.src < e.2.tgt
  hx : IsMultipleOfPrec e.2.tglfPrecision e.2.xgap
  hy : IsMultipleOfPrec e.2.tglfPrecision e.2.ygap
  he : RatMultiple e.2.tglfPrecision extra

/-- a well-formed matrix: no two records for the same key, every record well formed -/
structure MatrixOK (m : SepMatrix) : Prop where
  nodup : (m.pairs.map Prod.fst).Nodup
  entries : ∀ e ∈ m.pairs, EntryOK m.extraBdryGap e

theorem lookupL_none_of_not_mem (k : Nat × Nat) (ps : List ((Nat × Nat) × SepPair))
    (h : k ∉ ps.map Prod.fst) : lookupL k ps = none := by
  induction ps with
  | nil => rfl
  | cons hd tl ih =>
    obtain ⟨k', sp⟩ := hd
    simp only [List.map_cons, List.mem_cons, not_or] at h
    simp [lookupL, Ne.symm h.1, ih h.2]

theorem lookupL_of_mem (ps : List ((Nat × Nat) × SepPair)) (hn : (ps.map Prod.fst).Nodup)
    (e : (Nat × Nat) × SepPair) (he : e ∈ ps) : lookupL e.1 ps = some e.2 := by
  induction ps with
  | nil => cases he
  | cons hd tl ih =>
    obtain ⟨k', sp⟩ := hd
    simp only [List.map_cons, List.nodup_cons] at hn
    rcases List.mem_cons.mp he with h | h
    · subst h; simp [lookupL]
    · have hne : k' ≠ e.1 := by
        intro hk
        exact hn.1 (hk ▸ List.mem_map_of_mem (f := Prod.fst) h)
      simp [lookupL, hne, ih hn.2 h]

theorem read_list (ff : Bool) (extra : Rat) :
    ∀ (ps : List ((Nat × Nat) × SepPair)), (ps.map Prod.fst).Nodup → (∀ e ∈ ps, EntryOK extra e) →
    ∀ ls, writeL extra ps = some ls →
    ∀ m₀ : SepMatrix, (∀ e ∈ ps, m₀.lookup e.1 = none) →
    ∃ m₁, readFrom ff m₀ ls = some m₁ ∧ m₁.extraBdryGap = m₀.extraBdryGap ∧
      (∀ k, k ∉ ps.map Prod.fst → m₁.lookup k = m₀.lookup k) ∧
      (∀ e ∈ ps, ∀ pl, SatOpt 0 (m₁.lookup e.1) pl ↔ Sat extra e.2 pl) := by
  intro ps
  induction ps with
  | nil =>
    intro _ _ ls hw m₀ _
    simp only [writeL, Option.some.injEq] at hw
    subst hw
    exact ⟨m₀, rfl, rfl, fun _ _ => rfl, fun e he => by cases he⟩
  | cons hd tl ih =>
    intro hn hok ls hw m₀ hfree
    obtain ⟨k, sp⟩ := hd
    simp only [List.map_cons, List.nodup_cons] at hn
    have hk := hok (k, sp) (by simp)
    have hkey : k = (sp.src, sp.tgt) := hk.key
    simp only [writeL] at hw
    cases hl : sp.writeTglf extra with
    | none => simp [hl] at hw
    | some l =>
      cases hr : writeL extra tl with
      | none => simp [hl, hr] at hw
      | some r =>
        simp only [hl, hr, Option.some.injEq] at hw
        subst hw
        have hfk : m₀.lookup (sp.src, sp.tgt) = none := by
          have := hfree (k, sp) (by simp)
          rwa [hkey] at this
        obtain ⟨m₁, hr₁, hex₁, hoth₁, hs₁⟩ :=
          read_pair_into ff sp extra l hk.lt hk.hx hk.hy hk.he hl m₀ hfk
        have hfree₁ : ∀ e ∈ tl, m₁.lookup e.1 = none := by
          intro e he
          have hne : e.1 ≠ (sp.src, sp.tgt) := by
            intro h
            apply hn.1
            rw [hkey, ← h]
            exact List.mem_map_of_mem (f := Prod.fst) he
          rw [hoth₁ _ hne]
          exact hfree e (by simp [he])
        obtain ⟨m₂, hr₂, hex₂, hoth₂, hs₂⟩ :=
          ih hn.2 (fun e he => hok e (by simp [he])) r hr m₁ hfree₁
        refine ⟨m₂, ?_, ?_, ?_, ?_⟩
        · simp only [readFrom, List.foldlM_append] at hr₁ hr₂ ⊢
          rw [hr₁]
          exact hr₂
        · rw [hex₂, hex₁]
        · intro k' hk'
          simp only [List.map_cons, List.mem_cons, not_or] at hk'
          rw [hoth₂ k' hk'.2, hoth₁ k' (by rw [← hkey]; exact hk'.1)]
        · intro e he pl
          rcases List.mem_cons.mp he with h | h
          · subst h
            have hnot : k ∉ tl.map Prod.fst := hn.1
            show SatOpt 0 (m₂.lookup k) pl ↔ Sat extra sp pl
            rw [hoth₂ k hnot, hkey]
            exact hs₁ pl
          · exact hs₂ e h pl

/-- (5, matrix level) writing all SEPCO lines of a well-formed matrix and reading them back on a
    fresh graph gives an observationally equivalent matrix -/
theorem tglf_roundtrip_matrix' (ff : Bool) (m : SepMatrix) (hm : MatrixOK m) (ls : List TglfLine)
    (hw : m.writeTglf = some ls) :
    ∃ m', readSepcos ff ls = some m' ∧ m'.extraBdryGap = 0 ∧ MatrixEquiv m' m := by
  rw [writeTglf_eq_writeL] at hw
  obtain ⟨m', hr, hex, hoth, hs⟩ := read_list ff m.extraBdryGap m.pairs hm.nodup hm.entries ls hw .empty
    (fun _ _ => by simp [SepMatrix.lookup, SepMatrix.empty, lookupL])
  refine ⟨m', hr, by rw [hex]; rfl, ?_⟩
  intro k pl
  rw [show m'.extraBdryGap = 0 by rw [hex]; rfl]
  by_cases hk : k ∈ m.pairs.map Prod.fst
  · obtain ⟨e, he, rfl⟩ := List.mem_map.mp hk
    have hl : m.lookup e.1 = some e.2 := lookupL_of_mem m.pairs hm.nodup e he
    rw [hl]
    exact hs e he pl
  · have hl : m.lookup k = none := lookupL_none_of_not_mem k m.pairs hk
    rw [hl, hoth k hk]
    simp [SatOpt, SepMatrix.lookup, SepMatrix.empty, lookupL]


/-! ### `SepMatrix.transform` -/

theorem lookupL_map (f : (Nat × Nat) → SepPair → SepPair) (k : Nat × Nat)
    (ps : List ((Nat × Nat) × SepPair)) :
    lookupL k (ps.map fun (x : (Nat × Nat) × SepPair) => (x.1, f x.1 x.2)) = (lookupL k ps).map (f k) := by
  induction ps with
  | nil => rfl
  | cons hd tl ih =>
    obtain ⟨k', sp⟩ := hd
    by_cases h : k' = k
    · subst h; simp [lookupL]
    · simp [lookupL, h, ih]

theorem lookup_mapPairs (m : SepMatrix) (f : (Nat × Nat) → SepPair → SepPair) (k : Nat × Nat) :
    (m.mapPairs f).lookup k = (m.lookup k).map (f k) := by
  have := lookupL_map f k m.pairs
  simpa [SepMatrix.mapPairs, SepMatrix.lookup] using this

/-- (1, matrix level) `SepMatrix::transform` commutes with the placement transform, pair by pair -/
theorem transform_equivariant_matrix' (m : SepMatrix) (tf : SepTransform) (k : Nat × Nat) (pl : Placement) :
    SatOpt m.extraBdryGap (m.lookup k) pl ↔
      SatOpt (m.transform tf).extraBdryGap ((m.transform tf).lookup k) (pl.apply tf) := by
  have hl : (m.transform tf).lookup k = (m.lookup k).map (·.transform tf) := lookup_mapPairs m _ k
  rw [hl]
  show _ ↔ SatOpt m.extraBdryGap _ _
  cases m.lookup k with
  | none => simp [SatOpt]
  | some sp => exact transform_equivariant' m.extraBdryGap sp tf pl
end AdaptaVerif.Lemmas.Sep
