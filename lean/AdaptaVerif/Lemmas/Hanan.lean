/-
Soundness of the potential argument (all weighted digraphs) and of the Hanan-grid certificate
checker `Check.Hanan.checkCert`.
-/
import AdaptaVerif.Check.Hanan
import Mathlib.Tactic.Linarith
import Mathlib.Algebra.Order.Field.Rat
namespace AdaptaVerif.Lemmas.Hanan
open AdaptaVerif.Check.Hanan

/-- walks of a weighted digraph given by an edge relation `E u v w` (edge u → v of weight w) -/
inductive Walk {V : Type} (E : V → V → Rat → Prop) : V → V → Rat → Prop
  | nil (u : V) : Walk E u u 0
  | cons {u v t : V} {w c : Rat} : E u v w → Walk E v t c → Walk E u t (w + c)

/-- The potential argument: a potential that is feasible on every edge bounds every walk from
    below.  (Any digraph, finite or not; no sign condition on the weights is needed.) -/
theorem potential_walk {V : Type} (E : V → V → Rat → Prop) (π : V → Rat)
    (hfeas : ∀ u v w, E u v w → π u ≤ w + π v) :
    ∀ {u t : V} {c : Rat}, Walk E u t c → π u ≤ c + π t := by
  intro u t c h
  induction h with
  | nil u => linarith
  | cons he _ ih => have := hfeas _ _ _ he; linarith

theorem potential_lower_bound {V : Type} (E : V → V → Rat → Prop) (π : V → Rat) (goal : V → Prop)
    (hfeas : ∀ u v w, E u v w → π u ≤ w + π v) (hgoal : ∀ t, goal t → π t ≤ 0)
    {u t : V} {c : Rat} (hw : Walk E u t c) (ht : goal t) : π u ≤ c := by
  have := potential_walk E π hfeas hw
  have := hgoal t ht
  linarith

/-! ### the Hanan state graph -/

/-- edge relation of the state graph -/
def HEdge (sc : Scene) (g : Grid) (u v : State) (w : Rat) : Prop :=
  inRange g u ∧ (v, w) ∈ succ sc g u

/-- `c` is the cost of some route: an allowed first move out of the source followed by a walk of
    the state graph that ends in a goal state -/
def IsRouteCost (sc : Scene) (g : Grid) (c : Rat) : Prop :=
  ∃ v w t c', (v, w) ∈ firstMoves sc g ∧ Walk (HEdge sc g) v t c' ∧ isGoal sc g t = true ∧
    c = w + c'

theorem mem_allStates {g : Grid} {u : State} (h : inRange g u) : u ∈ allStates g := by
  obtain ⟨h1, h2, h3⟩ := h
  unfold allStates
  simp only [List.mem_flatMap, List.mem_map, List.mem_range]
  exact ⟨u.i, h1, u.j, h2, u.h, h3, rfl⟩

theorem move_inRange {g : Grid} {u v : State} {d : Nat} (hd : d < 4) (h : move g u d = some v) :
    inRange g v := by
  unfold move at h
  simp only at h
  split at h
  · rename_i hc
    simp only [Option.some.injEq] at h
    subst h
    unfold inRange
    simp only
    omega
  · simp at h

theorem edge_inRange {sc : Scene} {g : Grid} {u v : State} {w : Rat} {d : Nat} (hd : d < 4)
    (h : edge sc g u d = some (v, w)) : inRange g v := by
  unfold edge at h
  split at h
  · simp at h
  · rename_i v' hm
    simp only at h
    split at h
    · simp at h
    · simp only [Option.some.injEq, Prod.mk.injEq] at h
      rw [← h.1]
      exact move_inRange hd hm

theorem succ_inRange {sc : Scene} {g : Grid} {u v : State} {w : Rat} (h : (v, w) ∈ succ sc g u) :
    inRange g v := by
  unfold succ at h
  simp only [List.mem_filterMap] at h
  obtain ⟨d, hd, he⟩ := h
  have : d < 4 := by
    simp only [List.mem_cons, List.mem_nil_iff, or_false] at hd
    omega
  exact edge_inRange this he

theorem firstMoves_inRange {sc : Scene} {g : Grid} {v : State} {w : Rat}
    (h : (v, w) ∈ firstMoves sc g) : inRange g v := by
  unfold firstMoves at h
  simp only [List.mem_filterMap] at h
  obtain ⟨d, hd, he⟩ := h
  have : d < 4 := by
    simp only [List.mem_cons, List.mem_nil_iff, or_false] at hd
    omega
  split at he
  · exact edge_inRange this he
  · simp at he

theorem walk_end_inRange {sc : Scene} {g : Grid} {u t : State} {c : Rat} (hu : inRange g u)
    (h : Walk (HEdge sc g) u t c) : inRange g t := by
  induction h with
  | nil u => exact hu
  | cons he _ ih => exact ih (succ_inRange he.2)

theorem feasible_spec {sc : Scene} {g : Grid} {c : Cert} (h : feasible sc g c = true) :
    ∀ u v w, HEdge sc g u v w → potAt g c u ≤ w + potAt g c v := by
  intro u v w ⟨hr, hm⟩
  unfold feasible at h
  rw [List.all_eq_true] at h
  have h1 := h u (mem_allStates hr)
  rw [List.all_eq_true] at h1
  have h2 := h1 (v, w) hm
  simpa using h2

theorem goalsOk_spec {sc : Scene} {g : Grid} {c : Cert} (h : goalsOk sc g c = true) :
    ∀ t, inRange g t → isGoal sc g t = true → potAt g c t ≤ 0 := by
  intro t hr hg
  unfold goalsOk at h
  rw [List.all_eq_true] at h
  have h1 := h t (mem_allStates hr)
  simpa [hg] using h1

theorem minList_le {l : List Rat} {m : Rat} (h : minList l = some m) : ∀ x ∈ l, m ≤ x := by
  induction l generalizing m with
  | nil => simp [minList] at h
  | cons a t ih =>
    intro x hx
    unfold minList at h
    cases hm : minList t with
    | none =>
      rw [hm] at h
      simp only [Option.some.injEq] at h
      cases t with
      | nil =>
        simp only [List.mem_cons, List.not_mem_nil, or_false] at hx
        rw [hx, h]
      | cons b t' =>
        unfold minList at hm
        cases h' : minList t' <;> rw [h'] at hm <;> simp at hm
    | some m' =>
      rw [hm] at h
      simp only [Option.some.injEq] at h
      have ih' := ih hm
      rcases List.mem_cons.mp hx with rfl | hx'
      · split_ifs at h <;> linarith
      · have := ih' x hx'
        split_ifs at h <;> linarith

theorem walkCost_sound {sc : Scene} {g : Grid} :
    ∀ (l : List State) (u : State) (c : Rat), walkCost sc g u l = some c →
      Walk (HEdge sc g) u (lastState u l) c := by
  intro l
  induction l with
  | nil =>
    intro u c h
    simp only [walkCost, Option.some.injEq] at h
    subst h
    exact Walk.nil u
  | cons v rest ih =>
    intro u c h
    unfold walkCost at h
    split at h
    · rename_i hr
      split at h
      · rename_i e hf
        split at h
        · rename_i c' hc'
          simp only [Option.some.injEq] at h
          subst h
          have hmem := List.mem_of_find?_eq_some hf
          have hev : e.1 = v := by simpa using List.find?_some hf
          have hw := ih v c' hc'
          have he : HEdge sc g u v e.2 := ⟨hr, by rw [← hev]; exact hmem⟩
          exact Walk.cons he hw
        · simp at h
      · simp at h
    · simp at h

theorem witnessCost_sound {sc : Scene} {g : Grid} {c : Cert} {wc : Rat}
    (h : witnessCost sc g c = some wc) : IsRouteCost sc g wc := by
  unfold witnessCost at h
  split at h
  · simp at h
  · rename_i v rest _
    split at h
    · simp at h
    · rename_i e hf
      split at h
      · simp at h
      · rename_i w hw
        split at h
        · rename_i hg
          simp only [Option.some.injEq] at h
          have hmem := List.mem_of_find?_eq_some hf
          have hev : e.1 = v := by simpa using List.find?_some hf
          refine ⟨v, e.2, lastState v rest, w, ?_, walkCost_sound rest v w hw, hg, h.symm⟩
          rw [← hev]; exact hmem
        · simp at h

/-- Soundness of the certificate checker: the returned value is a lower bound on the cost of every
    route of the Hanan state graph, and it is attained. -/
theorem checkCert_sound {sc : Scene} {c : Cert} {opt : Rat} (h : checkCert sc c = some opt) :
    (∀ r, IsRouteCost sc (mkGrid sc) r → opt ≤ r) ∧ IsRouteCost sc (mkGrid sc) opt := by
  unfold checkCert at h
  simp only at h
  split at h
  · rename_i hfg
    rw [Bool.and_eq_true] at hfg
    obtain ⟨hf, hg⟩ := hfg
    split at h
    · rename_i lb wc hlb hwc
      split at h
      · rename_i heq
        simp only [Option.some.injEq] at h
        subst h
        constructor
        · rintro r ⟨v, w, t, c', hfm, hwalk, hgoal, rfl⟩
          have hv := firstMoves_inRange hfm
          have ht := walk_end_inRange hv hwalk
          have hpot := potential_lower_bound (HEdge sc (mkGrid sc)) (potAt (mkGrid sc) c)
            (fun t => inRange (mkGrid sc) t ∧ isGoal sc (mkGrid sc) t = true)
            (feasible_spec hf) (fun t ht => goalsOk_spec hg t ht.1 ht.2) hwalk ⟨ht, hgoal⟩
          have hmin := minList_le hlb (w + potAt (mkGrid sc) c v)
            (List.mem_map.mpr ⟨(v, w), hfm, rfl⟩)
          linarith
        · rw [heq]; exact witnessCost_sound hwc
      · simp at h
    · simp at h
  · simp at h

end AdaptaVerif.Lemmas.Hanan
