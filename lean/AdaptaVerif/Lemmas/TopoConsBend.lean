/-
The BendConstraints of `topology::TopologyConstraints` (Model/TopoCons `createBend`, `bendCons`):
which interior EdgePoints get one (all but those whose two incident segments are both parallel to
the scan line), and what the TriConstraint of a BendConstraint measures: the signed distance in the
scan axis between the far end of the shorter incident segment and the line through the longer one,
on the far end's scan line - zero exactly when the bend is straight.
-/
import AdaptaVerif.Model.TopoCons
import AdaptaVerif.Model.Tri
import AdaptaVerif.Lemmas.TopoConsGen
import Mathlib.Tactic.Linarith
import Mathlib.Tactic.Ring
import Mathlib.Tactic.FieldSimp
import Mathlib.Algebra.Order.Field.Rat
namespace AdaptaVerif.Lemmas.TopoConsBend
open AdaptaVerif.Model.TopoCons
open AdaptaVerif.Lemmas.TopoConsGen (pos_eq pos_conj_movedTo offset_movedTo pos_movedTo)

/-! ### `createBend` -/

theorem absQ_eq_zero {x : Rat} : absQ x = 0 ↔ x = 0 := by
  unfold absQ
  split
  · constructor
    · intro h; linarith
    · intro h; linarith
  · exact Iff.rfl

theorem absQ_nonneg (x : Rat) : 0 ≤ absQ x := by
  unfold absQ
  split
  · linarith
  · linarith

/-- `leftOf` of a BendConstraint: the corner `v.ri` is on the high side of its node in axis `d` -/
def bendLeft (d : Nat) (v : EPt) : Bool :=
  if d = 0 then (v.ri == 0 || v.ri == 1) else (v.ri == 3 || v.ri == 0)

/-- the BendConstraint of the branch `inLen > outLen` (reference segment = inSegment `u v`) -/
def fwdBC (d idx : Nat) (u v w : EPt) : BC :=
  { idx := idx, leftOf := bendLeft d v, rev := false
    u := u.node.id, v := v.node.id, w := w.node.id
    p := (w.pos (conj d) - u.pos (conj d)) / (v.pos (conj d) - u.pos (conj d))
    g := u.offset d +
          (w.pos (conj d) - u.pos (conj d)) / (v.pos (conj d) - u.pos (conj d)) *
            (v.offset d - u.offset d) - w.offset d }

/-- the BendConstraint of the "Reverse bend constraint" branch (reference segment = outSegment,
    walked from `w` to `v`) -/
def revBC (d idx : Nat) (u v w : EPt) : BC :=
  { idx := idx, leftOf := bendLeft d v, rev := true
    u := w.node.id, v := v.node.id, w := u.node.id
    p := (u.pos (conj d) - w.pos (conj d)) / (v.pos (conj d) - w.pos (conj d))
    g := w.offset d +
          (u.pos (conj d) - w.pos (conj d)) / (v.pos (conj d) - w.pos (conj d)) *
            (v.offset d - w.offset d) - u.offset d }

theorem bothZero_iff (d : Nat) (u v w : EPt) :
    (absQ (v.pos (conj d) - u.pos (conj d)) = 0 ∧ absQ (w.pos (conj d) - v.pos (conj d)) = 0) ↔
      (v.pos (conj d) = u.pos (conj d) ∧ w.pos (conj d) = v.pos (conj d)) := by
  rw [absQ_eq_zero, absQ_eq_zero, sub_eq_zero, sub_eq_zero]

/-- **2.** no BendConstraint exactly when both incident segments are parallel to the scan line -/
theorem createBend_none_iff (d idx : Nat) (u v w : EPt) :
    createBend d idx u v w = none ↔
      (v.pos (conj d) = u.pos (conj d) ∧ w.pos (conj d) = v.pos (conj d)) := by
  rw [← bothZero_iff]
  unfold createBend
  simp only []
  split
  · rename_i h
    exact iff_of_true rfl h
  · rename_i h
    split
    · exact iff_of_false (by intro h'; cases h') h
    · exact iff_of_false (by intro h'; cases h') h

/-- the two ways `createBend` returns a constraint -/
theorem createBend_eq_some_iff {d idx : Nat} {u v w : EPt} {b : BC} :
    createBend d idx u v w = some b ↔
      (absQ (w.pos (conj d) - v.pos (conj d)) < absQ (v.pos (conj d) - u.pos (conj d)) ∧
        b = fwdBC d idx u v w) ∨
      (¬ (v.pos (conj d) = u.pos (conj d) ∧ w.pos (conj d) = v.pos (conj d)) ∧
        absQ (v.pos (conj d) - u.pos (conj d)) ≤ absQ (w.pos (conj d) - v.pos (conj d)) ∧
        b = revBC d idx u v w) := by
  rw [← bothZero_iff]
  unfold createBend
  simp only []
  split
  · rename_i h0
    constructor
    · intro h; cases h
    · rintro (⟨hlt, _⟩ | ⟨hn, _⟩)
      · rw [h0.1, h0.2] at hlt; exact absurd hlt (lt_irrefl _)
      · exact absurd h0 hn
  · rename_i h0
    split
    · rename_i hlt
      constructor
      · intro h; exact Or.inl ⟨hlt, (Option.some.inj h).symm⟩
      · rintro (⟨_, rfl⟩ | ⟨_, hle, _⟩)
        · rfl
        · exact absurd hlt (not_lt.mpr hle)
    · rename_i hlt
      constructor
      · intro h; exact Or.inr ⟨h0, not_lt.mp hlt, (Option.some.inj h).symm⟩
      · rintro (⟨hlt', _⟩ | ⟨_, _, rfl⟩)
        · exact absurd hlt' hlt
        · rfl

theorem createBend_idx {d idx : Nat} {u v w : EPt} {b : BC} (h : createBend d idx u v w = some b) :
    b.idx = idx := by
  rcases createBend_eq_some_iff.mp h with ⟨_, rfl⟩ | ⟨_, _, rfl⟩ <;> rfl

/-! ### 1. `bendCons`: every interior EdgePoint, and nothing else -/

theorem mem_bendConsAux {d : Nat} {b : BC} : ∀ (pts : List EPt) (s : Nat),
    b ∈ bendConsAux d s pts ↔
      ∃ i u v w, pts[i]? = some u ∧ pts[i + 1]? = some v ∧ pts[i + 2]? = some w ∧
        createBend d (s + i + 1) u v w = some b
  | [], s => by simp [bendConsAux]
  | [_], s => by simp [bendConsAux]
  | [_, _], s => by simp [bendConsAux]
  | u :: v :: w :: rest, s => by
    rw [bendConsAux, List.mem_append, mem_bendConsAux (v :: w :: rest) (s + 1)]
    constructor
    · rintro (h | ⟨i, a, b', c, h1, h2, h3, h4⟩)
      · exact ⟨0, u, v, w, rfl, rfl, rfl, by simpa using h⟩
      · refine ⟨i + 1, a, b', c, by simpa using h1, by simpa using h2, by simpa using h3, ?_⟩
        rw [← h4]; congr 1; omega
    · rintro ⟨i, a, b', c, h1, h2, h3, h4⟩
      cases i with
      | zero =>
        left
        simp only [List.getElem?_cons_zero, List.getElem?_cons_succ, Nat.zero_add,
          Option.some.injEq] at h1 h2 h3
        subst h1 h2 h3
        simpa using h4
      | succ j =>
        right
        refine ⟨j, a, b', c, by simpa using h1, by simpa using h2, by simpa using h3, ?_⟩
        rw [← h4]; congr 1; omega

/-- **1a. completeness**: every interior EdgePoint `v = pts[i+1]` whose two incident segments are not
    both parallel to the scan line (`createBend ≠ none`, see `createBend_none_iff`) has its
    BendConstraint in `bendCons` -/
theorem bend_complete (d : Nat) (pts : List EPt) (i : Nat) (u v w : EPt) (b : BC)
    (hu : pts[i]? = some u) (hv : pts[i + 1]? = some v) (hw : pts[i + 2]? = some w)
    (hb : createBend d (i + 1) u v w = some b) : b ∈ bendCons d pts := by
  unfold bendCons
  rw [mem_bendConsAux]
  exact ⟨i, u, v, w, hu, hv, hw, by rw [Nat.zero_add]; exact hb⟩

/-- **1b. soundness**: every element of `bendCons` is the BendConstraint of an interior EdgePoint -/
theorem bend_sound (d : Nat) (pts : List EPt) (b : BC) (hb : b ∈ bendCons d pts) :
    ∃ i u v w, pts[i]? = some u ∧ pts[i + 1]? = some v ∧ pts[i + 2]? = some w ∧
      createBend d (i + 1) u v w = some b ∧ b.idx = i + 1 := by
  unfold bendCons at hb
  rw [mem_bendConsAux] at hb
  obtain ⟨i, u, v, w, hu, hv, hw, h⟩ := hb
  rw [Nat.zero_add] at h
  exact ⟨i, u, v, w, hu, hv, hw, h, createBend_idx h⟩

/-- 1a + 2: an interior EdgePoint with an incident segment that is not parallel to the scan line has
    a BendConstraint (with its path index) in `bendCons` -/
theorem bend_exists (d : Nat) (pts : List EPt) (i : Nat) (u v w : EPt)
    (hu : pts[i]? = some u) (hv : pts[i + 1]? = some v) (hw : pts[i + 2]? = some w)
    (hnp : ¬ (v.pos (conj d) = u.pos (conj d) ∧ w.pos (conj d) = v.pos (conj d))) :
    ∃ b ∈ bendCons d pts, b.idx = i + 1 ∧ createBend d (i + 1) u v w = some b := by
  cases hc : createBend d (i + 1) u v w with
  | none => exact absurd ((createBend_none_iff d (i + 1) u v w).mp hc) hnp
  | some b => exact ⟨b, bend_complete d pts i u v w b hu hv hw hc, createBend_idx hc, rfl⟩

-- non-vacuity of 1: a path centre(n0) -> TR corner of n1 -> centre(n2) with a bend at index 1
example :
    let n0 : Node := ⟨0, ⟨0, 10, 0, 10⟩⟩
    let n1 : Node := ⟨1, ⟨20, 30, 20, 30⟩⟩
    let n2 : Node := ⟨2, ⟨50, 60, 0, 10⟩⟩
    let pts : List EPt := [⟨n0, 4⟩, ⟨n1, 0⟩, ⟨n2, 4⟩]
    pts[0]? = some ⟨n0, 4⟩ ∧ pts[1]? = some ⟨n1, 0⟩ ∧ pts[2]? = some ⟨n2, 4⟩ ∧
    createBend 0 1 ⟨n0, 4⟩ ⟨n1, 0⟩ ⟨n2, 4⟩ =
      some { idx := 1, leftOf := true, rev := true, u := 2, v := 1, w := 0, p := 0, g := 0 } ∧
    bendCons 0 pts =
      [{ idx := 1, leftOf := true, rev := true, u := 2, v := 1, w := 0, p := 0, g := 0 }] := by
  decide +kernel

/-! ### 3. what the TriConstraint of a BendConstraint measures -/

/-- signed distance in axis `d` between the point `C` and the point `q = A + p (B - A)` of the line
    through `A` and `B`; positive when `C` is on the low side of `q` for `leftOf`, on the high side
    otherwise -/
def offLine (d : Nat) (p : Rat) (leftOf : Bool) (A B C : EPt) : Rat :=
  let q := A.pos d + p * (B.pos d - A.pos d)
  if leftOf then q - C.pos d else C.pos d - q

/-- the members of a BendConstraint by branch: node ids, `p`, and the reference segment is not
    parallel to the scan line -/
theorem bend_fwd_members {d idx : Nat} {u v w : EPt} {b : BC}
    (h : createBend d idx u v w = some b) (hr : b.rev = false) :
    b.u = u.node.id ∧ b.v = v.node.id ∧ b.w = w.node.id ∧ b.leftOf = bendLeft d v ∧
    v.pos (conj d) ≠ u.pos (conj d) ∧
    b.p = (w.pos (conj d) - u.pos (conj d)) / (v.pos (conj d) - u.pos (conj d)) := by
  rcases createBend_eq_some_iff.mp h with ⟨hlt, rfl⟩ | ⟨_, _, rfl⟩
  · refine ⟨rfl, rfl, rfl, rfl, ?_, rfl⟩
    intro heq
    rw [heq, sub_self] at hlt
    have h0 : absQ (0 : Rat) = 0 := absQ_eq_zero.mpr rfl
    rw [h0] at hlt
    exact absurd hlt (not_lt.mpr (absQ_nonneg _))
  · cases hr

theorem bend_rev_members {d idx : Nat} {u v w : EPt} {b : BC}
    (h : createBend d idx u v w = some b) (hr : b.rev = true) :
    b.u = w.node.id ∧ b.v = v.node.id ∧ b.w = u.node.id ∧ b.leftOf = bendLeft d v ∧
    v.pos (conj d) ≠ w.pos (conj d) ∧
    b.p = (u.pos (conj d) - w.pos (conj d)) / (v.pos (conj d) - w.pos (conj d)) := by
  rcases createBend_eq_some_iff.mp h with ⟨_, rfl⟩ | ⟨hn, hle, rfl⟩
  · cases hr
  · refine ⟨rfl, rfl, rfl, rfl, ?_, rfl⟩
    intro heq
    apply hn
    have hw : w.pos (conj d) = v.pos (conj d) := heq.symm
    refine ⟨?_, hw⟩
    rw [hw, sub_self] at hle
    have h0 : absQ (0 : Rat) = 0 := absQ_eq_zero.mpr rfl
    rw [h0] at hle
    have := absQ_eq_zero.mp (le_antisymm hle (absQ_nonneg _))
    exact sub_eq_zero.mp this

theorem slack_offLine_aux (p : Rat) (l : Bool) (xa xb xc oa ob oc : Rat) :
    AdaptaVerif.Model.Tri.slack p (oa + p * (ob - oa) - oc) l xa xb xc =
      if l = true then (xa + oa) + p * ((xb + ob) - (xa + oa)) - (xc + oc)
      else (xc + oc) - ((xa + oa) + p * ((xb + ob) - (xa + oa))) := by
  unfold AdaptaVerif.Model.Tri.slack
  cases l
  · simp only [Bool.false_eq_true, if_false]; ring
  · simp only [if_true]; ring

theorem slack_fwdBC (d idx : Nat) (u v w : EPt) (x : Pos) :
    AdaptaVerif.Model.Tri.slack (fwdBC d idx u v w).p (fwdBC d idx u v w).g (fwdBC d idx u v w).leftOf
        (x (fwdBC d idx u v w).u) (x (fwdBC d idx u v w).v) (x (fwdBC d idx u v w).w) =
      offLine d (fwdBC d idx u v w).p (fwdBC d idx u v w).leftOf
        (u.movedTo d x) (v.movedTo d x) (w.movedTo d x) := by
  unfold offLine
  simp only [pos_movedTo]
  exact slack_offLine_aux _ _ _ _ _ _ _ _

theorem slack_revBC (d idx : Nat) (u v w : EPt) (x : Pos) :
    AdaptaVerif.Model.Tri.slack (revBC d idx u v w).p (revBC d idx u v w).g (revBC d idx u v w).leftOf
        (x (revBC d idx u v w).u) (x (revBC d idx u v w).v) (x (revBC d idx u v w).w) =
      offLine d (revBC d idx u v w).p (revBC d idx u v w).leftOf
        (w.movedTo d x) (v.movedTo d x) (u.movedTo d x) := by
  unfold offLine
  simp only [pos_movedTo]
  exact slack_offLine_aux _ _ _ _ _ _ _ _

/-- **3. geometric meaning.**  With the nodes at positions `x` in axis `d` (`U V W` = the three
    EdgePoints in the moved scene), the slack of the BendConstraint's TriConstraint is, for
    `rev = false`, the signed distance in axis `d` between `W` and the point `q = U + p (V - U)` of
    the line through the in-segment (`q - W` if `leftOf`, `W - q` otherwise); for `rev = true` the
    same with `U` and `W` swapped (line through the out-segment, distance to `U`).
    By `bend_q_on_scanline` `q` is the point of that line on the scan line of `W` (resp. `U`). -/
theorem bend_slack_is_offset (d idx : Nat) (u v w : EPt) (b : BC)
    (h : createBend d idx u v w = some b) (x : Pos) :
    AdaptaVerif.Model.Tri.slack b.p b.g b.leftOf (x b.u) (x b.v) (x b.w) =
      if b.rev = false then
        offLine d b.p b.leftOf (u.movedTo d x) (v.movedTo d x) (w.movedTo d x)
      else
        offLine d b.p b.leftOf (w.movedTo d x) (v.movedTo d x) (u.movedTo d x) := by
  rcases createBend_eq_some_iff.mp h with ⟨_, rfl⟩ | ⟨_, _, rfl⟩
  · rw [if_pos (show (fwdBC d idx u v w).rev = false from rfl)]
    exact slack_fwdBC d idx u v w x
  · rw [if_neg (show ¬ (revBC d idx u v w).rev = false by intro h'; cases h')]
    exact slack_revBC d idx u v w x

/-- the same with everything spelled out for the branch `rev = false` -/
theorem bend_slack_is_offset_fwd (d idx : Nat) (u v w : EPt) (b : BC)
    (h : createBend d idx u v w = some b) (hr : b.rev = false) (x : Pos) :
    AdaptaVerif.Model.Tri.slack b.p b.g b.leftOf (x u.node.id) (x v.node.id) (x w.node.id) =
      (let q := (u.movedTo d x).pos d + b.p * ((v.movedTo d x).pos d - (u.movedTo d x).pos d)
       if b.leftOf then q - (w.movedTo d x).pos d else (w.movedTo d x).pos d - q) := by
  have hm := bend_fwd_members h hr
  have := bend_slack_is_offset d idx u v w b h x
  rw [if_pos hr, hm.1, hm.2.1, hm.2.2.1] at this
  exact this

/-- ... and for the branch `rev = true` -/
theorem bend_slack_is_offset_rev (d idx : Nat) (u v w : EPt) (b : BC)
    (h : createBend d idx u v w = some b) (hr : b.rev = true) (x : Pos) :
    AdaptaVerif.Model.Tri.slack b.p b.g b.leftOf (x w.node.id) (x v.node.id) (x u.node.id) =
      (let q := (w.movedTo d x).pos d + b.p * ((v.movedTo d x).pos d - (w.movedTo d x).pos d)
       if b.leftOf then q - (u.movedTo d x).pos d else (u.movedTo d x).pos d - q) := by
  have hm := bend_rev_members h hr
  have := bend_slack_is_offset d idx u v w b h x
  rw [if_neg (by rw [hr]; intro h'; cases h'), hm.1, hm.2.1, hm.2.2.1] at this
  exact this

/-- `p` is the parameter at which the reference segment's line meets the scan line of the third
    point (a move in axis `d` does not change scan positions): so `q` above is the point of the line
    through `U V` at `W`'s scan position (`rev = false`), of the line through `W V` at `U`'s
    (`rev = true`) -/
theorem bend_q_on_scanline (d idx : Nat) (u v w : EPt) (b : BC)
    (h : createBend d idx u v w = some b) (x : Pos) :
    if b.rev = false then
      (u.movedTo d x).pos (conj d) +
          b.p * ((v.movedTo d x).pos (conj d) - (u.movedTo d x).pos (conj d)) =
        (w.movedTo d x).pos (conj d)
    else
      (w.movedTo d x).pos (conj d) +
          b.p * ((v.movedTo d x).pos (conj d) - (w.movedTo d x).pos (conj d)) =
        (u.movedTo d x).pos (conj d) := by
  simp only [pos_conj_movedTo]
  cases hr : b.rev
  · rw [if_pos rfl]
    obtain ⟨_, _, _, _, hne, hp⟩ := bend_fwd_members h hr
    rw [hp]
    have : v.pos (conj d) - u.pos (conj d) ≠ 0 := sub_ne_zero.mpr hne
    field_simp
    ring
  · rw [if_neg (by intro h'; cases h')]
    obtain ⟨_, _, _, _, hne, hp⟩ := bend_rev_members h hr
    rw [hp]
    have : v.pos (conj d) - w.pos (conj d) ≠ 0 := sub_ne_zero.mpr hne
    field_simp
    ring

/-- **Corollary.**  For `rev = false` the slack is zero exactly when `U V W` are collinear in the
    moved scene (cross product zero): the bend is straight. -/
theorem bend_slack_zero_iff_collinear (d idx : Nat) (u v w : EPt) (b : BC)
    (h : createBend d idx u v w = some b) (hr : b.rev = false) (x : Pos) :
    AdaptaVerif.Model.Tri.slack b.p b.g b.leftOf (x b.u) (x b.v) (x b.w) = 0 ↔
      ((v.movedTo d x).pos d - (u.movedTo d x).pos d) *
          ((w.movedTo d x).pos (conj d) - (u.movedTo d x).pos (conj d)) -
        ((w.movedTo d x).pos d - (u.movedTo d x).pos d) *
          ((v.movedTo d x).pos (conj d) - (u.movedTo d x).pos (conj d)) = 0 := by
  rw [bend_slack_is_offset d idx u v w b h x, if_pos hr]
  obtain ⟨_, _, _, _, hne, hp⟩ := bend_fwd_members h hr
  unfold offLine
  simp only [pos_conj_movedTo]
  rw [hp]
  have hz : v.pos (conj d) - u.pos (conj d) ≠ 0 := sub_ne_zero.mpr hne
  generalize (u.movedTo d x).pos d = Ud
  generalize (v.movedTo d x).pos d = Vd
  generalize (w.movedTo d x).pos d = Wd
  generalize hD : v.pos (conj d) - u.pos (conj d) = D at hz
  generalize w.pos (conj d) - u.pos (conj d) = E
  have key : (Ud + E / D * (Vd - Ud) - Wd) * D = (Vd - Ud) * E - (Wd - Ud) * D := by
    field_simp
    ring
  by_cases hb : b.leftOf = true
  swap
  · rw [if_neg hb]
    constructor
    · intro h0
      rw [← key]
      have : Ud + E / D * (Vd - Ud) - Wd = 0 := by linarith
      rw [this, zero_mul]
    · intro h0
      rw [← key] at h0
      rcases mul_eq_zero.mp h0 with h1 | h1
      · linarith
      · exact absurd h1 hz
  · rw [if_pos hb]
    constructor
    · intro h0
      rw [← key, h0, zero_mul]
    · intro h0
      rw [← key] at h0
      rcases mul_eq_zero.mp h0 with h1 | h1
      · exact h1
      · exact absurd h1 hz

/-- the mirror image for `rev = true`: zero slack iff `W V U` are collinear -/
theorem bend_slack_zero_iff_collinear_rev (d idx : Nat) (u v w : EPt) (b : BC)
    (h : createBend d idx u v w = some b) (hr : b.rev = true) (x : Pos) :
    AdaptaVerif.Model.Tri.slack b.p b.g b.leftOf (x b.u) (x b.v) (x b.w) = 0 ↔
      ((v.movedTo d x).pos d - (w.movedTo d x).pos d) *
          ((u.movedTo d x).pos (conj d) - (w.movedTo d x).pos (conj d)) -
        ((u.movedTo d x).pos d - (w.movedTo d x).pos d) *
          ((v.movedTo d x).pos (conj d) - (w.movedTo d x).pos (conj d)) = 0 := by
  rw [bend_slack_is_offset d idx u v w b h x, if_neg (by rw [hr]; intro h'; cases h')]
  obtain ⟨_, _, _, _, hne, hp⟩ := bend_rev_members h hr
  unfold offLine
  simp only [pos_conj_movedTo]
  rw [hp]
  have hz : v.pos (conj d) - w.pos (conj d) ≠ 0 := sub_ne_zero.mpr hne
  generalize (u.movedTo d x).pos d = Ud
  generalize (v.movedTo d x).pos d = Vd
  generalize (w.movedTo d x).pos d = Wd
  generalize hD : v.pos (conj d) - w.pos (conj d) = D at hz
  generalize u.pos (conj d) - w.pos (conj d) = E
  have key : (Wd + E / D * (Vd - Wd) - Ud) * D = (Vd - Wd) * E - (Ud - Wd) * D := by
    field_simp
    ring
  by_cases hb : b.leftOf = true
  swap
  · rw [if_neg hb]
    constructor
    · intro h0
      rw [← key]
      have : Wd + E / D * (Vd - Wd) - Ud = 0 := by linarith
      rw [this, zero_mul]
    · intro h0
      rw [← key] at h0
      rcases mul_eq_zero.mp h0 with h1 | h1
      · linarith
      · exact absurd h1 hz
  · rw [if_pos hb]
    constructor
    · intro h0
      rw [← key, h0, zero_mul]
    · intro h0
      rw [← key] at h0
      rcases mul_eq_zero.mp h0 with h1 | h1
      · exact h1
      · exact absurd h1 hz

-- non-vacuity of 3: a bend with rev = false (in-segment longer in the scan direction), slack at the
-- construction positions = distance of W from the line U V
example :
    let n0 : Node := ⟨0, ⟨0, 10, 0, 10⟩⟩
    let n1 : Node := ⟨1, ⟨20, 30, 40, 50⟩⟩
    let n2 : Node := ⟨2, ⟨50, 60, 20, 30⟩⟩
    let x : Pos := fun i => if i = 0 then 5 else if i = 1 then 25 else 55
    (createBend 0 1 ⟨n0, 4⟩ ⟨n1, 0⟩ ⟨n2, 4⟩).map (fun b => (b.rev, b.leftOf, b.p,
        AdaptaVerif.Model.Tri.slack b.p b.g b.leftOf (x b.u) (x b.v) (x b.w))) =
      some (false, true, 4 / 9, 5 + 4 / 9 * 25 - 55) := by
  decide +kernel

end AdaptaVerif.Lemmas.TopoConsBend
