/-
The StraightConstraint that stops the move phase of `TopologyConstraints::solve()` is tight at the
positions the move phase ends at, so the bend `StraightConstraint::satisfy` inserts (the corner
`c.ri` of the *moved* node) lies ON the *moved* segment, on the constraint's scan line, and the split
of the segment at that bend keeps every scan-line crossing of the leg.

All statements are for every axis number `d` (no `d < 2` needed: `cornerFor d` reads the node's
centre in the axis `moveCentre d` does not touch, and the facts used about the corner's position do
not depend on which node `cornerFor` looked at).
-/
import AdaptaVerif.Model.TopoCons
import AdaptaVerif.Lemmas.Tri
import AdaptaVerif.Lemmas.TopoConsGen
import AdaptaVerif.Lemmas.TopoConsRewrite
import Mathlib.Tactic.Linarith
import Mathlib.Tactic.Ring
import Mathlib.Tactic.FieldSimp
import Mathlib.Algebra.Order.Field.Rat
namespace AdaptaVerif.Lemmas.TopoConsTight
open AdaptaVerif.Model.TopoCons
open AdaptaVerif.Lemmas.TopoConsGen AdaptaVerif.Lemmas.TopoConsRewrite

/-! ### the corner picked at construction, read on any (e.g. the moved) node -/

/-- `cornerFor_pos` with the corner number computed on one node and read on another: whatever node
    `n` (and scan position) the corner number was picked for, on a node `m` it is a corner of the
    high side in `d` when `nl`, of the low side otherwise -/
theorem cornerFor_pos_on (d : Nat) (n m : Node) (pos : Rat) (nl : Bool) :
    (⟨m, cornerFor d n pos nl⟩ : EPt).pos d = if nl then m.r.hi d else m.r.lo d := by
  unfold cornerFor EPt.pos Rect.hi Rect.lo
  by_cases hd : d = 0 <;> by_cases hp : pos < n.r.centre 1 <;> by_cases hq : pos < n.r.centre 0 <;>
    cases nl <;> simp [hd, hp, hq]

/-- the bend's coordinate across the scan axis does not change when the node moves in `d` -/
theorem bend_pos_conj_movedTo (n : Node) (ri d : Nat) (x : Pos) :
    (⟨n.movedTo d x, ri⟩ : EPt).pos (conj d) = (⟨n, ri⟩ : EPt).pos (conj d) :=
  pos_conj_movedTo ⟨n, ri⟩ d x

theorem movedTo_s_pos_conj (sg : Seg) (d : Nat) (x : Pos) :
    (sg.movedTo d x).s.pos (conj d) = sg.s.pos (conj d) := pos_conj_movedTo sg.s d x

theorem movedTo_e_pos_conj (sg : Seg) (d : Nat) (x : Pos) :
    (sg.movedTo d x).e.pos (conj d) = sg.e.pos (conj d) := pos_conj_movedTo sg.e d x

theorem lo_movedTo (sg : Seg) (d : Nat) (x : Pos) : (sg.movedTo d x).lo d = sg.lo d := by
  unfold Seg.lo; rw [movedTo_s_pos_conj, movedTo_e_pos_conj]

theorem hi_movedTo (sg : Seg) (d : Nat) (x : Pos) : (sg.movedTo d x).hi d = sg.hi d := by
  unfold Seg.hi; rw [movedTo_s_pos_conj, movedTo_e_pos_conj]

theorem parallel_movedTo (sg : Seg) (d : Nat) (x : Pos) :
    (sg.movedTo d x).parallel d = sg.parallel d := by
  unfold Seg.parallel; rw [movedTo_s_pos_conj, movedTo_e_pos_conj]

/-! ### 1. the bend of a tight constraint is on the moved segment -/

/-- **1.** the constraint `c` created for segment `sg` and node `n` on the scan line `pos` is tight
    at node positions `x`: the corner `c.ri` of the moved node is the point of the moved segment's
    line on that scan line (coordinate in the scan axis `d`) -/
theorem tight_bend_on_moved_segment {d : Nat} {sg : Seg} {n : Node} {pos : Rat} {c : SC}
    (h : createStraight d sg n pos = some c) (x : Pos) (htight : (triOf sg c).slackAt x = 0) :
    (⟨c.node.movedTo d x, c.ri⟩ : EPt).pos d = (sg.movedTo d x).inter d pos := by
  rw [slack_is_gap d sg n pos c h x] at htight
  obtain ⟨_, _, hn, _, _, hri, _⟩ := createStraight_some h
  rw [hri, hn, cornerFor_pos_on]
  unfold gap at htight
  cases hnl : c.nodeLeft <;> simp only [hnl, if_true, if_false, Bool.false_eq_true] at htight ⊢ <;>
    linarith

/-! ### 2. ... and on the scan line -/

/-- **2.** at an open / close event of a node of positive extent across the scan axis, the bend is on
    the scan line of the constraint (also after the move, which does not change that coordinate) -/
theorem tight_bend_on_scanline {d : Nat} {sg : Seg} {n : Node} {pos : Rat} {c : SC}
    (h : createStraight d sg n pos = some c) (x : Pos)
    (hev : pos = n.r.lo (conj d) ∨ pos = n.r.hi (conj d))
    (hrect : n.r.lo (conj d) < n.r.hi (conj d)) :
    (⟨c.node.movedTo d x, c.ri⟩ : EPt).pos (conj d) = pos := by
  obtain ⟨_, _, hn, _, _, hri, _⟩ := createStraight_some h
  rw [bend_pos_conj_movedTo, hri, hn]
  exact cornerFor_pos_conj d n pos c.nodeLeft hev hrect

/-! ### 3. the split at that bend keeps every crossing of the moved leg -/

/-- **3.** the bend is the point of the moved leg with parameter `sg.param d pos ∈ [0,1]`; every
    scan line `c0` crosses the two new legs exactly where (and iff) it crossed the moved leg -/
theorem tight_split_preserves_sides {d : Nat} {sg : Seg} {n : Node} {pos : Rat} {c : SC}
    (h : createStraight d sg n pos = some c) (x : Pos) (htight : (triOf sg c).slackAt x = 0)
    (hev : pos = n.r.lo (conj d) ∨ pos = n.r.hi (conj d))
    (hrect : n.r.lo (conj d) < n.r.hi (conj d))
    (hlo : sg.lo d ≤ pos) (hhi : pos ≤ sg.hi d) (c0 : Rat) :
    SplitKeeps ((sg.movedTo d x).s.pos d) ((sg.movedTo d x).s.pos (conj d))
      ((sg.movedTo d x).e.pos d) ((sg.movedTo d x).e.pos (conj d))
      ((⟨c.node.movedTo d x, c.ri⟩ : EPt).pos d) ((⟨c.node.movedTo d x, c.ri⟩ : EPt).pos (conj d))
      c0 := by
  obtain ⟨_, hpar, _⟩ := createStraight_some h
  obtain ⟨h0, h1⟩ := param_mem hpar hlo hhi
  have hne : sg.s.pos (conj d) ≠ sg.e.pos (conj d) := by
    unfold Seg.parallel at hpar; simpa using hpar
  have hd : sg.e.pos (conj d) - sg.s.pos (conj d) ≠ 0 := fun he => hne (by linarith)
  refine splitKeeps_of_param (t := sg.param d pos) c0 h0 h1 ?_ ?_ ?_
  · rw [movedTo_s_pos_conj, movedTo_e_pos_conj]; exact hne
  · rw [tight_bend_on_moved_segment h x htight]
    unfold Seg.inter
    rw [param_movedTo]
  · rw [tight_bend_on_scanline h x hev hrect, movedTo_s_pos_conj, movedTo_e_pos_conj]
    show pos = sg.s.pos (conj d) + (pos - sg.s.pos (conj d)) / (sg.e.pos (conj d) - sg.s.pos (conj d)) *
      (sg.e.pos (conj d) - sg.s.pos (conj d))
    rw [div_mul_cancel₀ _ hd]; ring

/-! ### 4. the step -/

section Step
open AdaptaVerif.Model.Tri AdaptaVerif.Spec.Tri AdaptaVerif.Lemmas.Tri

theorem slack_affine_on_line_local (c : TriConstraint) (ini fin : AdaptaVerif.Model.Tri.Pos)
    (α : Rat) :
    c.slackAt (posOnLine ini fin α) = c.slackAt ini + α * (c.slackAt fin - c.slackAt ini) := by
  unfold TriConstraint.slackAt posOnLine
  exact slack_line _ _ _ _ _ _ _ _ _ _

/-- `solve_move_stops_tight` of Props/C13, re-proved here from Lemmas/Tri (Lemmas do not import
    Props): when the move phase is cut short (`minTAlpha < 1`) a constraint that attains the minimum
    has slack 0 at the positions the move phase ends at -/
theorem solve_move_stops_tight_local (cs : List TriConstraint) (ini fin : AdaptaVerif.Model.Tri.Pos)
    (hini : Feasible cs ini) (hlt : minAlpha cs ini fin < 1) :
    ∃ c ∈ cs, c.msa ini fin = minAlpha cs ini fin ∧ c.slackAt (moveStep cs ini fin) = 0 := by
  rcases minAlphaFrom_mem 1 cs ini fin with h | ⟨c, hc, h⟩
  · exact absurd hlt (by unfold minAlpha; rw [h]; exact lt_irrefl _)
  · refine ⟨c, hc, h.symm, ?_⟩
    have hmsa : c.msa ini fin < 1 := by unfold minAlpha at hlt; rw [h] at hlt; exact hlt
    have hviol : c.slackAt fin < 0 := by
      by_contra hn
      have := msa_of_final_feasible c.p c.g c.leftOf (ini c.u) (fin c.u) (ini c.v) (fin c.v)
        (ini c.w) (fin c.w) (not_lt.mp hn)
      unfold TriConstraint.msa at hmsa; rw [this] at hmsa; exact lt_irrefl _ hmsa
    have h1 := hini c hc
    have hd : 0 < c.slackAt ini - c.slackAt fin := by linarith
    have hval : minAlpha cs ini fin = c.slackAt ini / (c.slackAt ini - c.slackAt fin) := by
      unfold minAlpha; rw [h]; unfold TriConstraint.msa
      exact msa_of_violated c.p c.g c.leftOf _ _ _ _ _ _ h1 hviol
    unfold moveStep
    simp only []
    split
    · rw [slack_affine_on_line_local, hval]; field_simp; ring
    · rename_i hnp
      have hz : c.slackAt ini / (c.slackAt ini - c.slackAt fin) ≤ 0 := by
        rw [← hval]; exact not_lt.mp hnp
      have := div_nonneg h1 (le_of_lt hd)
      have h0 : c.slackAt ini / (c.slackAt ini - c.slackAt fin) = 0 := le_antisymm hz this
      rcases div_eq_zero_iff.mp h0 with h' | h'
      · exact h'
      · linarith

/-- **4a.**  The system of one move phase = the generated StraightConstraints' TriConstraints plus
    any others (`extra`, e.g. the BendConstraints').  If it is feasible at the initial positions and
    the move is cut short, the constraint `solve()` goes on to satisfy (one attaining `minTAlpha`) is
    tight at the positions the move phase ends at. -/
theorem solve_step_satisfied_is_tight (d : Nat) (bO bC : Node → Node → Bool) (nodes : List Node)
    (segs : List Seg) (extra : List TriConstraint) (ini fin : AdaptaVerif.Model.Tri.Pos)
    (hini : Feasible ((consClosed d bO bC nodes segs).map (fun x => triOf x.1 x.2) ++ extra) ini)
    (hlt : minAlpha ((consClosed d bO bC nodes segs).map (fun x => triOf x.1 x.2) ++ extra)
      ini fin < 1) :
    ∃ t ∈ (consClosed d bO bC nodes segs).map (fun x => triOf x.1 x.2) ++ extra,
      t.msa ini fin =
        minAlpha ((consClosed d bO bC nodes segs).map (fun x => triOf x.1 x.2) ++ extra) ini fin ∧
      t.slackAt
        (moveStep ((consClosed d bO bC nodes segs).map (fun x => triOf x.1 x.2) ++ extra) ini fin)
        = 0 :=
  solve_move_stops_tight_local _ ini fin hini hlt

/-- **4b.**  If the tight constraint is the one of the generated StraightConstraint `y` and the nodes
    have positive extent across the scan axis, then at the positions `x'` after the move phase the
    bend `StraightConstraint::satisfy` inserts (corner `y.2.ri` of the moved node) is on the moved
    segment, on the scan line `y.2.pos`, and splitting the moved leg there keeps every crossing. -/
theorem solve_step_straight_satisfy_preserves_sides (d : Nat) (bO bC : Node → Node → Bool)
    (nodes : List Node) (segs : List Seg) (extra : List TriConstraint)
    (ini fin : AdaptaVerif.Model.Tri.Pos)
    (hpos : ∀ n ∈ nodes, n.r.lo (conj d) < n.r.hi (conj d))
    (y : Seg × SC) (hy : y ∈ consClosed d bO bC nodes segs)
    (htight : (triOf y.1 y.2).slackAt
      (moveStep ((consClosed d bO bC nodes segs).map (fun x => triOf x.1 x.2) ++ extra) ini fin) = 0) :
    let x' := moveStep ((consClosed d bO bC nodes segs).map (fun x => triOf x.1 x.2) ++ extra) ini fin
    (⟨y.2.node.movedTo d x', y.2.ri⟩ : EPt).pos d = (y.1.movedTo d x').inter d y.2.pos ∧
    (⟨y.2.node.movedTo d x', y.2.ri⟩ : EPt).pos (conj d) = y.2.pos ∧
    ∀ c0 : Rat,
      SplitKeeps ((y.1.movedTo d x').s.pos d) ((y.1.movedTo d x').s.pos (conj d))
        ((y.1.movedTo d x').e.pos d) ((y.1.movedTo d x').e.pos (conj d))
        ((⟨y.2.node.movedTo d x', y.2.ri⟩ : EPt).pos d)
        ((⟨y.2.node.movedTo d x', y.2.ri⟩ : EPt).pos (conj d)) c0 := by
  intro x'
  obtain ⟨_, hn, _, _, hev, hlo, hhi, _, _, _, _, _, hcr⟩ :=
    generated_sound d bO bC nodes segs y hy
  have hrect := hpos _ hn
  exact ⟨tight_bend_on_moved_segment hcr x' htight, tight_bend_on_scanline hcr x' hev hrect,
    tight_split_preserves_sides hcr x' htight hev hrect hlo hhi⟩

/-- **4a + 4b.**  One statement: when the move is cut short there is a constraint attaining
    `minTAlpha` that is tight after the move; it is one of `extra` or the TriConstraint of a generated
    StraightConstraint `y`, and in the second case satisfying it puts the new bend on the moved
    segment and keeps every crossing. -/
theorem solve_step_tight_generated_or_extra (d : Nat) (bO bC : Node → Node → Bool)
    (nodes : List Node) (segs : List Seg) (extra : List TriConstraint)
    (ini fin : AdaptaVerif.Model.Tri.Pos)
    (hpos : ∀ n ∈ nodes, n.r.lo (conj d) < n.r.hi (conj d))
    (hini : Feasible ((consClosed d bO bC nodes segs).map (fun x => triOf x.1 x.2) ++ extra) ini)
    (hlt : minAlpha ((consClosed d bO bC nodes segs).map (fun x => triOf x.1 x.2) ++ extra)
      ini fin < 1) :
    let cs := (consClosed d bO bC nodes segs).map (fun x => triOf x.1 x.2) ++ extra
    let x' := moveStep cs ini fin
    ∃ t ∈ cs, t.msa ini fin = minAlpha cs ini fin ∧ t.slackAt x' = 0 ∧
      (t ∈ extra ∨ ∃ y ∈ consClosed d bO bC nodes segs, t = triOf y.1 y.2 ∧
        (⟨y.2.node.movedTo d x', y.2.ri⟩ : EPt).pos d = (y.1.movedTo d x').inter d y.2.pos ∧
        (⟨y.2.node.movedTo d x', y.2.ri⟩ : EPt).pos (conj d) = y.2.pos ∧
        ∀ c0 : Rat,
          SplitKeeps ((y.1.movedTo d x').s.pos d) ((y.1.movedTo d x').s.pos (conj d))
            ((y.1.movedTo d x').e.pos d) ((y.1.movedTo d x').e.pos (conj d))
            ((⟨y.2.node.movedTo d x', y.2.ri⟩ : EPt).pos d)
            ((⟨y.2.node.movedTo d x', y.2.ri⟩ : EPt).pos (conj d)) c0) := by
  intro cs x'
  obtain ⟨t, ht, hmsa, hz⟩ := solve_step_satisfied_is_tight d bO bC nodes segs extra ini fin hini hlt
  refine ⟨t, ht, hmsa, hz, ?_⟩
  rcases List.mem_append.mp ht with hg | he
  · right
    obtain ⟨y, hy, rfl⟩ := List.mem_map.mp hg
    exact ⟨y, hy, rfl,
      solve_step_straight_satisfy_preserves_sides d bO bC nodes segs extra ini fin hpos y hy hz⟩
  · left; exact he

end Step

/-! ### non-vacuity -/

/-- construction positions (centres) of the three nodes of `exSt` (Lemmas/TopoConsRewrite) -/
def exPos : Pos := fun i => if i = 0 then 1 else if i = 1 then 9 else 21

-- hypotheses of 1, 2, 3: node 1 touches the segment centre(node 0) → centre(node 2) with its bottom
-- right corner; the constraint of its open event exists, is tight at the construction positions,
-- the event position is the node's low side, the node has positive height, the scan line is in the
-- segment's range
example :
    createStraight 0 ⟨7, 0, ⟨exNode 0 0 0, 4⟩, ⟨exNode 2 20 20, 4⟩⟩ (exNode 1 8 10) 10 =
      some ⟨exNode 1 8 10, 1, 10, true, 9 / 20, -1⟩ ∧
    (triOf ⟨7, 0, ⟨exNode 0 0 0, 4⟩, ⟨exNode 2 20 20, 4⟩⟩
      ⟨exNode 1 8 10, 1, 10, true, 9 / 20, -1⟩).slackAt exPos = 0 ∧
    (10 : Rat) = (exNode 1 8 10).r.lo (conj 0) ∧
    (exNode 1 8 10).r.lo (conj 0) < (exNode 1 8 10).r.hi (conj 0) ∧
    (⟨7, 0, ⟨exNode 0 0 0, 4⟩, ⟨exNode 2 20 20, 4⟩⟩ : Seg).lo 0 ≤ 10 ∧
    (10 : Rat) ≤ (⟨7, 0, ⟨exNode 0 0 0, 4⟩, ⟨exNode 2 20 20, 4⟩⟩ : Seg).hi 0 := by
  refine ⟨by decide +kernel, by decide +kernel, by decide +kernel, by decide +kernel,
    by decide +kernel, by decide +kernel⟩

-- hypotheses of 4: the control scene of Lemmas/TopoConsGen (node 2, the segment's end, dragged to
-- x = 100): feasible at the initial centres, the move is cut short (minTAlpha = 6/13 < 1), nodes of
-- positive height, no extra constraints - so the tight constraint is a generated one
example :
    AdaptaVerif.Spec.Tri.Feasible
      ((consClosed 0 idLt idLt [w0, w1', w2] [wSg]).map (fun x => triOf x.1 x.2) ++ []) ctlIni ∧
    AdaptaVerif.Model.Tri.minAlpha
      ((consClosed 0 idLt idLt [w0, w1', w2] [wSg]).map (fun x => triOf x.1 x.2) ++ [])
      ctlIni ctlFin < 1 ∧
    (∀ n ∈ [w0, w1', w2], n.r.lo (conj 0) < n.r.hi (conj 0)) := by
  refine ⟨?_, by decide +kernel, by decide +kernel⟩
  unfold AdaptaVerif.Spec.Tri.Feasible
  decide +kernel

end AdaptaVerif.Lemmas.TopoConsTight
