/-
Lemmas about `Model/OrthVis.lean`, part 2 (core Lean only): the breakpoint-edge generator
`lineEdges` only joins breakpoints of its input; `sortLV` / `toBPs` keep membership.
-/
import AdaptaVerif.Model.OrthVis

namespace AdaptaVerif.Lemmas.OrthVis
open AdaptaVerif.Model.OrthVis

theorem mem_insertLV {a x : LV} {l : List LV} (h : x ∈ insertLV a l) : x = a ∨ x ∈ l := by
  induction l with
  | nil => simp [insertLV] at h; exact Or.inl h
  | cons b r ih =>
    unfold insertLV at h
    split at h
    · rcases List.mem_cons.mp h with h | h
      · exact Or.inl h
      · exact Or.inr h
    · split at h
      · rcases List.mem_cons.mp h with h | h
        · exact Or.inr (by simp [h])
        · rcases ih h with h | h
          · exact Or.inl h
          · exact Or.inr (by simp [h])
      · exact Or.inr h

theorem mem_sortLV {x : LV} {l : List LV} (h : x ∈ sortLV l) : x ∈ l := by
  induction l with
  | nil => simp [sortLV] at h
  | cons a r ih =>
    have : x ∈ insertLV a (sortLV r) := h
    rcases mem_insertLV this with h | h
    · simp [h]
    · simp [ih h]

theorem mem_toBPs {dirs : VK → Bool × Bool} {l : List LV} {a : BP} (h : a ∈ toBPs dirs l) :
    ∃ q ∈ l, a.t = q.t ∧ a.k = q.k := by
  unfold toBPs at h
  obtain ⟨q, hq, rfl⟩ := List.mem_map.mp h
  exact ⟨q, mem_sortLV hq, rfl, rfl⟩

theorem mem_groupsOf {l : List BP} {g : List BP} {x : BP} (hg : g ∈ groupsOf l) (hx : x ∈ g) : x ∈ l := by
  induction l generalizing g x with
  | nil => simp [groupsOf] at hg
  | cons a r ih =>
    unfold groupsOf at hg
    split at hg
    · rename_i b g0 gs heq
      have hb : ∀ g' ∈ groupsOf r, ∀ y ∈ g', y ∈ r := fun g' hg' y hy => ih hg' hy
      rw [heq] at hb
      split at hg
      · rcases List.mem_cons.mp hg with rfl | hg
        · rcases List.mem_cons.mp hx with rfl | hx
          · simp
          · exact List.mem_cons_of_mem _ (hb (b :: g0) (by simp) x hx)
        · exact List.mem_cons_of_mem _ (hb g (by simp [hg]) x hx)
      · rcases List.mem_cons.mp hg with rfl | hg
        · simp at hx; simp [hx]
        · exact List.mem_cons_of_mem _ (hb g hg x hx)
    · rename_i hne
      rcases List.mem_cons.mp hg with rfl | hg
      · simp at hx; simp [hx]
      · exact List.mem_cons_of_mem _ (ih hg hx)

theorem mem_splits {α} {pre l : List α} {p : List α × α × List α} (h : p ∈ splits pre l) :
    p.2.1 ∈ l ∧ (∀ y ∈ p.1, y ∈ pre ∨ y ∈ l) ∧ (∀ y ∈ p.2.2, y ∈ l) := by
  induction l generalizing pre with
  | nil => simp [splits] at h
  | cons x r ih =>
    unfold splits at h
    rcases List.mem_cons.mp h with rfl | h
    · refine ⟨by simp, fun y hy => Or.inl hy, fun y hy => by simp [hy]⟩
    · obtain ⟨h1, h2, h3⟩ := ih h
      refine ⟨by simp [h1], ?_, fun y hy => by simp [h3 y hy]⟩
      intro y hy
      rcases h2 y hy with h | h
      · rcases List.mem_cons.mp h with rfl | h
        · exact Or.inr (by simp)
        · exact Or.inl h
      · exact Or.inr (by simp [h])

theorem mem_pairEdges {before after : List BP} {last vert : BP} {e : BP × BP}
    (h : e ∈ pairEdges before last vert after) :
    (e.1 = last ∨ e.1 ∈ before) ∧ (e.2 = vert ∨ e.2 ∈ after) := by
  unfold pairEdges at h
  rcases List.mem_append.mp h with h | h
  · split at h
    · rcases List.mem_append.mp h with h | h
      · split at h
        · rename_i side hf
          split at h
          · simp only [List.mem_singleton] at h; subst h
            exact ⟨Or.inr (List.mem_of_find?_eq_some hf), Or.inl rfl⟩
          · simp at h
        · simp at h
      · split at h
        · rename_i side hf
          split at h
          · simp only [List.mem_singleton] at h; subst h
            exact ⟨Or.inl rfl, Or.inr (List.mem_of_find?_eq_some hf)⟩
          · simp at h
        · simp at h
    · simp at h
  · split at h
    · simp at h
    · simp only [List.mem_singleton] at h; subst h
      exact ⟨Or.inl rfl, Or.inl rfl⟩

theorem mem_groupEdges {rp : List BP} {gs : List (List BP)} {e : BP × BP} (h : e ∈ groupEdges rp gs) :
    (e.1 ∈ rp ∨ ∃ g ∈ gs, e.1 ∈ g) ∧ (e.2 ∈ rp ∨ ∃ g ∈ gs, e.2 ∈ g) := by
  induction gs generalizing rp with
  | nil => simp [groupEdges] at h
  | cons g rest ih =>
    cases rest with
    | nil => simp [groupEdges] at h
    | cons g' more =>
      unfold groupEdges at h
      rcases List.mem_append.mp h with h | h
      · obtain ⟨s1, hs1, h⟩ := List.mem_flatMap.mp h
        obtain ⟨s2, hs2, h⟩ := List.mem_flatMap.mp h
        obtain ⟨a1, a2, _⟩ := mem_splits hs1
        obtain ⟨b1, _, b3⟩ := mem_splits hs2
        obtain ⟨p1, p2⟩ := mem_pairEdges h
        constructor
        · rcases p1 with p | p
          · exact Or.inr ⟨g, by simp, p ▸ a1⟩
          · rcases List.mem_append.mp p with p | p
            · rcases a2 _ p with q | q
              · simp at q
              · exact Or.inr ⟨g, by simp, q⟩
            · exact Or.inl p
        · rcases p2 with p | p
          · exact Or.inr ⟨g', by simp, p ▸ b1⟩
          · rcases List.mem_append.mp p with p | p
            · exact Or.inr ⟨g', by simp, b3 _ p⟩
            · obtain ⟨g2, hg2, hin⟩ := List.mem_flatMap.mp p
              exact Or.inr ⟨g2, by simp [hg2], hin⟩
      · obtain ⟨q1, q2⟩ := ih h
        constructor
        · rcases q1 with q | ⟨g2, hg2, q⟩
          · rcases List.mem_append.mp q with q | q
            · exact Or.inr ⟨g, by simp, by simpa using q⟩
            · exact Or.inl q
          · exact Or.inr ⟨g2, by simp [hg2], q⟩
        · rcases q2 with q | ⟨g2, hg2, q⟩
          · rcases List.mem_append.mp q with q | q
            · exact Or.inr ⟨g, by simp, by simpa using q⟩
            · exact Or.inl q
          · exact Or.inr ⟨g2, by simp [hg2], q⟩

/-- an edge of a line joins two breakpoints of that line -/
theorem mem_lineEdges {bps : List BP} {e : BP × BP} (h : e ∈ lineEdges bps) : e.1 ∈ bps ∧ e.2 ∈ bps := by
  obtain ⟨h1, h2⟩ := mem_groupEdges h
  constructor
  · rcases h1 with h | ⟨g, hg, h⟩
    · simp at h
    · exact mem_groupsOf hg h
  · rcases h2 with h | ⟨g, hg, h⟩
    · simp at h
    · exact mem_groupsOf hg h

end AdaptaVerif.Lemmas.OrthVis
