/-
Order-theoretic lemmas behind the scan-line proofs of C09: what `prevIn`/`nextIn` compute on a
strictly sorted scan line, and how the "greatest element below" of every node changes when a
node is inserted into / erased from the scan line.  Pure list/order reasoning, no arithmetic.
-/
import AdaptaVerif.Model.Scanline
namespace AdaptaVerif.Lemmas.Scanline
open AdaptaVerif.Model.Scanline

structure StrictTotal (lt : Nat → Nat → Bool) : Prop where
  irrefl : ∀ a, lt a a = false
  trans : ∀ a b c, lt a b = true → lt b c = true → lt a c = true
  total : ∀ a b, a ≠ b → lt a b = true ∨ lt b a = true

theorem StrictTotal.flip {lt} (st : StrictTotal lt) : StrictTotal (fun a b => lt b a) :=
  ⟨st.irrefl, fun a b c h1 h2 => st.trans c b a h2 h1, fun a b h => (st.total a b h).symm⟩

/-- `p` is the greatest element of `S` below `v` (or `none` if there is none) -/
def IsPrev (lt : Nat → Nat → Bool) (S : List Nat) (v : Nat) (p : Option Nat) : Prop :=
  (∀ a, p = some a → a ∈ S ∧ lt a v = true ∧ ∀ x ∈ S, lt x v = true → x = a ∨ lt x a = true) ∧
  (p = none → ∀ x ∈ S, lt x v = false)

theorem isPrev_insert_other {lt} (st : StrictTotal lt) {S S' : List Nat} {v x : Nat} {a n : Option Nat}
    (hmem : ∀ y, y ∈ S' ↔ y = v ∨ y ∈ S) (hx : x ∈ S) (hxv : x ≠ v)
    (hn : IsPrev (fun a b => lt b a) S' v n) (ha : IsPrev lt S x a) :
    IsPrev lt S' x (if n = some x then some v else a) := by
  obtain ⟨ir, tr, tot⟩ := st
  obtain ⟨hn1, hn2⟩ := hn
  dsimp only at hn1 hn2
  obtain ⟨ha1, ha2⟩ := ha
  by_cases hnx : n = some x
  · simp only [hnx, if_true]
    obtain ⟨_, hvx, hmin⟩ := hn1 x hnx
    refine ⟨fun a' h => ?_, fun h => by cases h⟩
    cases h
    refine ⟨(hmem v).2 (Or.inl rfl), hvx, fun y hy hyx => ?_⟩
    by_cases hyv : y = v
    · exact Or.inl hyv
    · right
      rcases tot y v hyv with h | h
      · exact h
      · rcases hmin y hy h with h' | h'
        · subst h'; rw [ir] at hyx; cases hyx
        · have := tr _ _ _ h' hyx; rw [ir] at this; cases this
  · simp only [hnx, if_false]
    -- if v is below x then the successor b of v is in S, b ≠ x, so b is below x
    have key : lt v x = true → ∃ b, b ∈ S ∧ lt v b = true ∧ lt b x = true := by
      intro hvx
      cases hn' : n with
      | none => have := hn2 hn' x ((hmem x).2 (Or.inr hx)); simp [hvx] at this
      | some b =>
        obtain ⟨hb, hvb, hmin⟩ := hn1 b hn'
        have hbx : b ≠ x := fun h => hnx (by rw [hn', h])
        rcases hmin x ((hmem x).2 (Or.inr hx)) hvx with h | h
        · exact absurd h.symm hbx
        · have hbv : b ≠ v := by rintro rfl; rw [ir] at hvb; cases hvb
          exact ⟨b, ((hmem b).1 hb).resolve_left hbv, hvb, h⟩
    refine ⟨fun a0 h0 => ?_, fun h0 y hy => ?_⟩
    · obtain ⟨h1, h2, h3⟩ := ha1 a0 h0
      refine ⟨(hmem a0).2 (Or.inr h1), h2, fun y hy hyx => ?_⟩
      rcases (hmem y).1 hy with rfl | hyS
      · obtain ⟨b, hbS, hvb, hbx⟩ := key hyx
        right
        rcases h3 b hbS hbx with rfl | h
        · exact hvb
        · exact tr _ _ _ hvb h
      · exact h3 y hyS hyx
    · rcases (hmem y).1 hy with rfl | hyS
      · cases hyx : lt y x with
        | false => rfl
        | true =>
          obtain ⟨b, hbS, _, hbx⟩ := key hyx
          have := ha2 h0 b hbS; rw [hbx] at this; cases this
      · exact ha2 h0 y hyS

theorem isPrev_erase_other {lt} (st : StrictTotal lt) {S S' : List Nat} {v x : Nat} {a l r : Option Nat}
    (hmem : ∀ y, y ∈ S' ↔ y ∈ S ∧ y ≠ v) (hx : x ∈ S) (hxv : x ≠ v)
    (hl : IsPrev lt S v l) (hr : IsPrev (fun a b => lt b a) S v r) (ha : IsPrev lt S x a) :
    IsPrev lt S' x (if r = some x then l else a) := by
  obtain ⟨ir, tr, tot⟩ := st
  obtain ⟨hr1, hr2⟩ := hr
  dsimp only at hr1 hr2
  obtain ⟨hl1, hl2⟩ := hl
  obtain ⟨ha1, ha2⟩ := ha
  have asym : ∀ p q, lt p q = true → lt q p = true → False := by
    intro p q h1 h2; have := tr _ _ _ h1 h2; rw [ir] at this; cases this
  by_cases hrx : r = some x
  · simp only [hrx, if_true]
    obtain ⟨_, hvx, hmin⟩ := hr1 x hrx
    -- every y ∈ S' below x is below v
    have below : ∀ y, y ∈ S' → lt y x = true → lt y v = true := by
      intro y hy hyx
      obtain ⟨hyS, hyv⟩ := (hmem y).1 hy
      rcases tot y v hyv with h | h
      · exact h
      · rcases hmin y hyS h with rfl | h'
        · rw [ir] at hyx; cases hyx
        · exact (asym _ _ h' hyx).elim
    refine ⟨fun a0 h0 => ?_, fun h0 y hy => ?_⟩
    · obtain ⟨h1, h2, h3⟩ := hl1 a0 h0
      have : a0 ≠ v := by rintro rfl; rw [ir] at h2; cases h2
      exact ⟨(hmem a0).2 ⟨h1, this⟩, tr _ _ _ h2 hvx,
        fun y hy hyx => h3 y ((hmem y).1 hy).1 (below y hy hyx)⟩
    · cases hyx : lt y x with
      | false => rfl
      | true =>
        have := hl2 h0 y ((hmem y).1 hy).1; rw [below y hy hyx] at this; cases this
  · simp only [hrx, if_false]
    refine ⟨fun a0 h0 => ?_, fun h0 y hy => ha2 h0 y ((hmem y).1 hy).1⟩
    obtain ⟨h1, h2, h3⟩ := ha1 a0 h0
    have hav : a0 ≠ v := by
      rintro rfl
      cases hr' : r with
      | none => have := hr2 hr' x hx; rw [h2] at this; cases this
      | some b =>
        obtain ⟨hb, hvb, hmin⟩ := hr1 b hr'
        rcases hmin x hx h2 with rfl | h
        · exact hrx hr'
        · rcases h3 b hb h with rfl | h'
          · rw [ir] at hvb; cases hvb
          · exact asym _ _ hvb h'
    exact ⟨(hmem a0).2 ⟨h1, hav⟩, h2, fun y hy hyx => h3 y ((hmem y).1 hy).1 hyx⟩

abbrev Sorted (lt : Nat → Nat → Bool) (S : List Nat) : Prop := S.Pairwise (fun a b => lt a b = true)

theorem mem_insertSorted {lt} {v : Nat} {S : List Nat} {y : Nat} :
    y ∈ insertSorted lt v S ↔ y = v ∨ y ∈ S := by
  induction S with
  | nil => simp [insertSorted]
  | cons x xs ih =>
    unfold insertSorted
    split
    · simp
    · simp only [List.mem_cons, ih]; grind

theorem sorted_insertSorted {lt} (st : StrictTotal lt) {v : Nat} {S : List Nat}
    (hs : Sorted lt S) (hv : v ∉ S) : Sorted lt (insertSorted lt v S) := by
  induction S with
  | nil => simp [insertSorted, Sorted]
  | cons x xs ih =>
    unfold insertSorted
    have hx := List.pairwise_cons.1 hs
    split
    · rename_i h
      refine List.pairwise_cons.2 ⟨fun b hb => ?_, hs⟩
      rcases List.mem_cons.1 hb with rfl | hb
      · exact h
      · exact st.trans _ _ _ h (hx.1 b hb)
    · rename_i h
      have hvx : v ≠ x := fun e => hv (e ▸ List.mem_cons_self)
      have hxv : lt x v = true := by
        rcases st.total v x hvx with h' | h'
        · exact absurd h' h
        · exact h'
      refine List.pairwise_cons.2 ⟨fun b hb => ?_, ih hx.2 (fun h' => hv (List.mem_cons_of_mem _ h'))⟩
      rcases mem_insertSorted.1 hb with rfl | hb
      · exact hxv
      · exact hx.1 b hb

theorem mem_eraseNode {v y : Nat} {S : List Nat} : y ∈ eraseNode v S ↔ y ∈ S ∧ y ≠ v := by
  simp [eraseNode]

theorem sorted_eraseNode {lt} {v : Nat} {S : List Nat} (hs : Sorted lt S) : Sorted lt (eraseNode v S) :=
  List.Pairwise.filter _ hs

/-- the head of a list whose elements are pairwise `R`-related is `R`-related to all others -/
theorem head?_pairwise {α} {R : α → α → Prop} {l : List α} {a : α} (hp : l.Pairwise R)
    (ha : l.head? = some a) : a ∈ l ∧ ∀ x ∈ l, x = a ∨ R a x := by
  cases l with
  | nil => cases ha
  | cons b t =>
    simp only [List.head?_cons, Option.some.injEq] at ha
    subst ha
    refine ⟨List.mem_cons_self, fun x hx => ?_⟩
    rcases List.mem_cons.1 hx with rfl | hx
    · exact Or.inl rfl
    · exact Or.inr ((List.pairwise_cons.1 hp).1 x hx)

theorem nextIn_spec {lt} {S : List Nat} (hs : Sorted lt S) (v : Nat) :
    IsPrev (fun a b => lt b a) S v (nextIn lt S v) := by
  unfold nextIn after
  have hp : (S.filter (fun u => lt v u)).Pairwise (fun a b => lt a b = true) := List.Pairwise.filter _ hs
  refine ⟨fun b hb => ?_, fun hn x hx => ?_⟩
  · obtain ⟨hmem, hmin⟩ := head?_pairwise hp hb
    have := List.mem_filter.1 hmem
    refine ⟨this.1, this.2, fun x hx hvx => ?_⟩
    exact hmin x (List.mem_filter.2 ⟨hx, hvx⟩)
  · rw [List.head?_eq_none_iff, List.filter_eq_nil_iff] at hn
    simpa using hn x hx

theorem prevIn_spec {lt} {S : List Nat} (hs : Sorted lt S) (v : Nat) :
    IsPrev lt S v (prevIn lt S v) := by
  unfold prevIn before
  have hp : (S.filter (fun u => lt u v)).reverse.Pairwise (fun a b => lt b a = true) :=
    List.pairwise_reverse.2 (List.Pairwise.filter _ hs)
  refine ⟨fun b hb => ?_, fun hn x hx => ?_⟩
  · obtain ⟨hmem, hmin⟩ := head?_pairwise hp hb
    have := List.mem_filter.1 (List.mem_reverse.1 hmem)
    refine ⟨this.1, this.2, fun x hx hvx => ?_⟩
    exact hmin x (List.mem_reverse.2 (List.mem_filter.2 ⟨hx, hvx⟩))
  · rw [List.head?_eq_none_iff, List.reverse_eq_nil_iff, List.filter_eq_nil_iff] at hn
    simpa using hn x hx

theorem isPrev_unique {lt} (st : StrictTotal lt) {S : List Nat} {v : Nat} {p q : Option Nat}
    (hp : IsPrev lt S v p) (hq : IsPrev lt S v q) : p = q := by
  have asym : ∀ a b, lt a b = true → lt b a = true → False := by
    intro a b h1 h2; have := st.trans _ _ _ h1 h2; rw [st.irrefl] at this; cases this
  cases p with
  | none =>
    cases q with
    | none => rfl
    | some b =>
      obtain ⟨hb, hbv, _⟩ := hq.1 b rfl
      have := hp.2 rfl b hb; rw [hbv] at this; cases this
  | some a =>
    obtain ⟨ha, hav, hamax⟩ := hp.1 a rfl
    cases q with
    | none => have := hq.2 rfl a ha; rw [hav] at this; cases this
    | some b =>
      obtain ⟨hb, hbv, hbmax⟩ := hq.1 b rfl
      rcases hamax b hb hbv with rfl | h1
      · rfl
      · rcases hbmax a ha hav with rfl | h2
        · rfl
        · exact (asym _ _ h1 h2).elim

/-- firstAbove / firstBelow of every node on the scan line are its order neighbours -/
def Linked (lt : Nat → Nat → Bool) (S : List Nat) (ab be : PMap) : Prop :=
  ∀ x ∈ S, IsPrev lt S x (ab x) ∧ IsPrev (fun a b => lt b a) S x (be x)

theorem linked_open {lt} (st : StrictTotal lt) {S : List Nat} {v : Nat} {ab be : PMap}
    (hs : Sorted lt S) (hv : v ∉ S) (hl : Linked lt S ab be) :
    let S' := insertSorted lt v S
    let p := prevIn lt S' v
    let n := nextIn lt S' v
    Linked lt S'
      (match n with | some u => (ab.set v p).set u (some v) | none => ab.set v p)
      ((match p with | some u => be.set u (some v) | none => be).set v n) := by
  intro S' p n
  have hs' : Sorted lt S' := sorted_insertSorted st hs hv
  have hp : IsPrev lt S' v p := prevIn_spec hs' v
  have hn : IsPrev (fun a b => lt b a) S' v n := nextIn_spec hs' v
  have hmem : ∀ y, y ∈ S' ↔ y = v ∨ y ∈ S := fun y => mem_insertSorted
  have hpv : p ≠ some v := by
    intro h; have := (hp.1 v h).2.1; rw [st.irrefl] at this; cases this
  have hnv : n ≠ some v := by
    intro h; have := (hn.1 v h).2.1; dsimp only at this; rw [st.irrefl] at this; cases this
  intro x hx
  -- pointwise values of the updated maps
  have hab : (match n with | some u => (ab.set v p).set u (some v) | none => ab.set v p) x
      = if n = some x then some v else if x = v then p else ab x := by
    cases n with
    | none => simp [PMap.set]
    | some u =>
      simp only [PMap.set, Option.some.injEq]
      by_cases h : x = u
      · simp [h]
      · have : ¬ u = x := fun e => h e.symm
        simp [h, this]
  have hbe : ((match p with | some u => be.set u (some v) | none => be).set v n) x
      = if x = v then n else if p = some x then some v else be x := by
    cases p with
    | none => simp [PMap.set]
    | some u =>
      simp only [PMap.set, Option.some.injEq]
      by_cases h : x = u
      · simp [h]
      · have : ¬ u = x := fun e => h e.symm
        simp [h, this]
  rw [hab, hbe]
  rcases (hmem x).1 hx with rfl | hxS
  · have h1 : n ≠ some x := hnv
    have h2 : p ≠ some x := hpv
    simp only [h1, if_false, if_true]
    exact ⟨hp, hn⟩
  · have hxv : x ≠ v := fun e => hv (e ▸ hxS)
    obtain ⟨ha, hb⟩ := hl x hxS
    constructor
    · have := isPrev_insert_other st hmem hxS hxv hn ha
      by_cases h : n = some x <;> simp only [h, hxv, if_true, if_false] at this ⊢ <;> exact this
    · have := isPrev_insert_other st.flip hmem hxS hxv (n := p) hp hb
      simp only [hxv, if_false]
      exact this

theorem linked_close {lt} (st : StrictTotal lt) {S : List Nat} {v : Nat} {ab be : PMap}
    (hv : v ∈ S) (hl : Linked lt S ab be) :
    Linked lt (eraseNode v S)
      (match be v with | some r => ab.set r (ab v) | none => ab)
      (match ab v with | some l => be.set l (be v) | none => be) := by
  have hmem : ∀ y, y ∈ eraseNode v S ↔ y ∈ S ∧ y ≠ v := fun y => mem_eraseNode
  obtain ⟨hlv, hrv⟩ := hl v hv
  intro x hx
  obtain ⟨hxS, hxv⟩ := (hmem x).1 hx
  obtain ⟨ha, hb⟩ := hl x hxS
  have hab : (match be v with | some r => ab.set r (ab v) | none => ab) x
      = if be v = some x then ab v else ab x := by
    cases be v with
    | none => simp
    | some u =>
      simp only [PMap.set, Option.some.injEq]
      by_cases h : x = u
      · simp [h]
      · have : ¬ u = x := fun e => h e.symm
        simp [h, this]
  have hbe : (match ab v with | some l => be.set l (be v) | none => be) x
      = if ab v = some x then be v else be x := by
    cases ab v with
    | none => simp
    | some u =>
      simp only [PMap.set, Option.some.injEq]
      by_cases h : x = u
      · simp [h]
      · have : ¬ u = x := fun e => h e.symm
        simp [h, this]
  rw [hab, hbe]
  exact ⟨isPrev_erase_other st hmem hxS hxv hlv hrv ha,
         isPrev_erase_other st.flip hmem hxS hxv hrv hlv hb⟩

end AdaptaVerif.Lemmas.Scanline
