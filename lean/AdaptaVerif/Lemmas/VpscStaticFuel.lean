/-
Totality of `Solver::solve` in the static VPSC solver's model (continuing `Lemmas/VpscStaticTotal.lean`):
the two tree traversals of `refine` never exhaust their fuel either.
 * `compute_dfdv` (fuel n+1): the call chain is a non-backtracking walk in the active forest, hence a path
   (`walk_verts_nodup`), hence shorter than n;
 * `populateSplitBlock` (fuel n+1): every call marks a variable that was still in the old block (`cntOld`);
 * `mergeLeft` / `mergeRight` inside `refine`: at most n owning blocks (`nOwn_le_vars`).
Hence `init_solve_total`: from `Solver(vs, cs)`, `solve()` returns normally or throws — never "out of fuel".
-/
import AdaptaVerif.Lemmas.VpscKktDfdv
import AdaptaVerif.Lemmas.VpscStaticTotal
namespace AdaptaVerif.Lemmas.VpscStaticFuel
open AdaptaVerif.Model.Vpsc AdaptaVerif.Model.VpscStatic
open AdaptaVerif.Lemmas.VpscGraph AdaptaVerif.Lemmas.VpscInv AdaptaVerif.Lemmas.VpscWalk AdaptaVerif.Lemmas.VpscSplit
open AdaptaVerif.Lemmas.VpscMerge AdaptaVerif.Lemmas.VpscHistory AdaptaVerif.Lemmas.VpscStaticOrder
open AdaptaVerif.Lemmas.VpscKktDfdv AdaptaVerif.Lemmas.VpscStatic AdaptaVerif.Lemmas.VpscStaticMem
open AdaptaVerif.Lemmas.VpscLoop (forest_of_inv active_lt findMinLM_spec refreshBlock_core)
open Relation

/-! ### in a forest a non-backtracking walk is a path -/

/-- the vertices of a walk starting at `x` -/
def verts (x : Nat) (W : List Step) : List Nat := x :: W.map (·.2.2)

theorem walk_verts_nodup {cons : Array Con} (hf : Forest cons) : ∀ {W : List Step} {x y : Nat} {u : Option Nat},
    Walk cons x y W → NB u W → (verts x W).Nodup := by
  intro W
  induction W with
  | nil => intro x y u _ _; simp [verts]
  | cons s W ih =>
    intro x y u h hnb
    have hcons := Walk.nodup hf h hnb
    cases h with
    | @cons j _ b _ rest hae hrest =>
      have ih' := ih hrest hnb.2
      simp only [verts, List.map_cons, List.nodup_cons] at ih' ⊢
      refine ⟨?_, ih'⟩
      intro hmem
      rcases List.mem_cons.1 hmem with hab | hmem
      · -- x = b : a self loop is no bridge
        subst hab
        exact hf _ _ _ hae ReflTransGen.refl
      · obtain ⟨t, htW, hta⟩ := List.mem_map.1 hmem
        obtain ⟨P, S, hPS⟩ := List.append_of_mem htW
        subst hPS
        have hsplit : Walk cons b y ((P ++ [t]) ++ S) := by simpa using hrest
        obtain ⟨m, hP, _⟩ := Walk.split hsplit
        -- the walk b → x along P ++ [t] avoids constraint j
        have hav : ∀ s ∈ P ++ [t], s.1 ≠ j := by
          intro s hs heq
          rw [List.map_cons, List.nodup_cons] at hcons
          apply hcons.1
          rw [← heq]
          apply List.mem_map.2
          refine ⟨s, ?_, rfl⟩
          rcases List.mem_append.1 hs with h1 | h1
          · exact List.mem_append_left _ h1
          · simp only [List.mem_singleton] at h1; subst h1; exact List.mem_append_right _ (by simp)
        have hm : m = x := by
          -- the end of the walk P ++ [t] is the target of t
          obtain ⟨m', hP', hT⟩ := Walk.split hP
          cases hT with
          | cons hae' hnil => cases hnil; exact hta
        subst hm
        exact hf _ _ _ hae (Walk.reachAvoid hP hav).symm

theorem walk_verts_lt {vars : Array Var} {cons : Array Con} {n : Nat} {ia : Array Nat} (hI : InvC vars cons n ia) :
    ∀ {W : List Step} {x y : Nat}, Walk cons x y W → x < vars.size → ∀ z ∈ verts x W, z < vars.size := by
  intro W
  induction W with
  | nil => intro x y _ hx z hz; simp [verts] at hz; subst hz; exact hx
  | cons s W ih =>
    intro x y h hx z hz
    cases h with
    | @cons j _ b _ rest hae hrest =>
      have hb : b < vars.size := by
        obtain ⟨hj, _, hends⟩ := hae
        rcases hends with ⟨_, rfl⟩ | ⟨rfl, _⟩
        · exact hI.r_lt j hj
        · exact hI.l_lt j hj
      simp only [verts, List.map_cons, List.mem_cons] at hz
      rcases hz with rfl | rfl | hz
      · exact hx
      · exact hb
      · exact ih hrest hb z (by simp [verts, hz])

theorem walk_len {vars : Array Var} {cons : Array Con} {n : Nat} {ia : Array Nat} (hI : InvC vars cons n ia)
    {W : List Step} {x y : Nat} {u : Option Nat} (hw : Walk cons x y W) (hnb : NB u W) (hx : x < vars.size) :
    W.length + 1 ≤ vars.size := by
  have hnd := walk_verts_nodup (forest_of_inv hI) hw hnb
  have hsub : verts x W ⊆ List.range vars.size := fun z hz => List.mem_range.2 (walk_verts_lt hI hw hx z hz)
  have := (List.subperm_of_subset hnd hsub).length_le
  simpa [verts] using this

/-! ### `compute_dfdv` never exhausts `n + 1` units of fuel -/

/-- the parent handed to `compute_dfdv` is where the walk back to the root goes first -/
def parentOf (W : List Step) : Option Nat := (W.head?).map (·.2.2)

theorem nb_extend {W : List Step} (hnb : NB none W) (w : Nat) (hw : parentOf W ≠ some w) : NB (some w) W := by
  cases W with
  | nil => trivial
  | cons s rest =>
    obtain ⟨j, a, b⟩ := s
    refine ⟨?_, hnb.2⟩
    simp only [parentOf, List.head?_cons, Option.map_some] at hw
    exact fun e => hw (by rw [Option.some.inj e])

theorem computeDfdv_fuel (st : St) {n : Nat} {ia : Array Nat} (hI : InvC st.vars st.cons n ia) (bid v0 : Nat) :
    ∀ (fuel : Nat) (lm : Array Rat) (post : Array Nat) (v : Nat) (W : List Step),
      Walk st.cons v v0 W → NB none W → v < st.vars.size → st.vars.size + 1 ≤ fuel + W.length →
      (computeDfdv st bid fuel lm post v (parentOf W)).2.2.2 = true := by
  intro fuel
  induction fuel with
  | zero =>
    intro lm post v W hw hnb hv hle
    have := walk_len hI hw hnb hv
    omega
  | succ fuel ih =>
    intro lm post v W hw hnb hv hle
    rw [computeDfdv_succ]
    simp only
    have hout : ∀ (l : List Nat) (acc : Acc), (∀ ci ∈ l, ci ∈ (st.vars[v]!).outs) → acc.2.2.2 = true →
        (l.foldl (dOut st bid fuel v (parentOf W)) acc).2.2.2 = true := by
      intro l
      induction l with
      | nil => intro acc _ h; exact h
      | cons ci rest ihl =>
        intro acc hmem hacc
        rw [List.foldl_cons]
        apply ihl _ (fun c hc => hmem c (by simp [hc]))
        unfold dOut
        split
        · rename_i hcf
          simp only [canFollowRight, Bool.and_eq_true, bne_iff_ne, ne_eq, beq_iff_eq] at hcf
          obtain ⟨hcilt, hcil⟩ := hI.outs_sound v ci (hmem ci (by simp))
          have hae : AE st.cons ci (st.cons[ci]!).r v := ⟨hcilt, hcf.1.2, Or.inr ⟨hcil, rfl⟩⟩
          have hrec := ih acc.1 acc.2.1 (st.cons[ci]!).r ((ci, (st.cons[ci]!).r, v) :: W)
            (Walk.cons hae hw) ⟨by simp, nb_extend hnb _ hcf.2⟩ (hI.r_lt ci hcilt)
            (by simp only [List.length_cons]; omega)
          have hp : parentOf ((ci, (st.cons[ci]!).r, v) :: W) = some v := rfl
          rw [hp] at hrec
          simp [hacc, hrec]
        · exact hacc
    have hin : ∀ (l : List Nat) (acc : Acc), (∀ ci ∈ l, ci ∈ (st.vars[v]!).ins) → acc.2.2.2 = true →
        (l.foldl (dIn st bid fuel v (parentOf W)) acc).2.2.2 = true := by
      intro l
      induction l with
      | nil => intro acc _ h; exact h
      | cons ci rest ihl =>
        intro acc hmem hacc
        rw [List.foldl_cons]
        apply ihl _ (fun c hc => hmem c (by simp [hc]))
        unfold dIn
        split
        · rename_i hcf
          simp only [canFollowLeft, Bool.and_eq_true, bne_iff_ne, ne_eq, beq_iff_eq] at hcf
          obtain ⟨hcilt, hcir⟩ := hI.ins_sound v ci (hmem ci (by simp))
          have hae : AE st.cons ci (st.cons[ci]!).l v := ⟨hcilt, hcf.1.2, Or.inl ⟨rfl, hcir⟩⟩
          have hrec := ih acc.1 acc.2.1 (st.cons[ci]!).l ((ci, (st.cons[ci]!).l, v) :: W)
            (Walk.cons hae hw) ⟨by simp, nb_extend hnb _ hcf.2⟩ (hI.l_lt ci hcilt)
            (by simp only [List.length_cons]; omega)
          have hp : parentOf ((ci, (st.cons[ci]!).l, v) :: W) = some v := rfl
          rw [hp] at hrec
          simp [hacc, hrec]
        · exact hacc
    exact hin _ _ (fun ci hc => by simpa using hc) (hout _ _ (fun ci hc => by simpa using hc) rfl)

/-- `Block::findMinLM` does not run out of fuel in a state satisfying the block invariant -/
theorem findMinLM_fuel (st : St) {n : Nat} {ia : Array Nat} (hI : InvC st.vars st.cons n ia) (b : Nat)
    (hb : (st.blocks[b]!).vars[0]! < st.vars.size) : (st.findMinLM b).1.fuelOut = st.fuelOut := by
  have := computeDfdv_fuel st hI b ((st.blocks[b]!).vars[0]!) (st.vars.size + 1) st.lm #[]
    ((st.blocks[b]!).vars[0]!) [] (Walk.nil _) trivial hb (by simp)
  unfold St.findMinLM
  simp only
  have hp : parentOf ([] : List Step) = none := rfl
  rw [hp] at this
  rw [this]
  simp

/-! ### `populateSplitBlock` never exhausts its fuel: every call marks a variable of the old block -/

/-- number of variables still in block `old` -/
def cntOld (old : Nat) (vars : Array Var) : Nat :=
  ((List.range vars.size).filter fun x => blk vars x == old).length

/-- `b` arises from `a` by re-labelling blocks only, and block `old` only loses variables -/
structure Shr (old : Nat) (a b : Array Var) : Prop where
  size : b.size = a.size
  ins : ∀ i : Nat, (b[i]!).ins = (a[i]!).ins
  outs : ∀ i : Nat, (b[i]!).outs = (a[i]!).outs
  shr : ∀ x : Nat, blk b x = old → blk a x = old

theorem Shr.refl (old : Nat) (a : Array Var) : Shr old a a := ⟨rfl, fun _ => rfl, fun _ => rfl, fun _ h => h⟩
theorem Shr.trans {old : Nat} {a b c : Array Var} (h1 : Shr old a b) (h2 : Shr old b c) : Shr old a c :=
  ⟨h2.size.trans h1.size, fun i => (h2.ins i).trans (h1.ins i), fun i => (h2.outs i).trans (h1.outs i),
   fun x h => h1.shr x (h2.shr x h)⟩

theorem Shr.link {cons : Array Con} {old : Nat} {a b : Array Var} (hm : Shr old a b) (h : LinkOK cons a) :
    LinkOK cons b :=
  ⟨fun u j hj => h.outs_sound u j (by rw [← hm.outs u]; exact hj),
   fun j hj => by rw [hm.outs]; exact h.outs_complete j hj,
   fun u j hj => h.ins_sound u j (by rw [← hm.ins u]; exact hj),
   fun j hj => by rw [hm.ins]; exact h.ins_complete j hj⟩

theorem cntOld_shr {old : Nat} {a b : Array Var} (hm : Shr old a b) : cntOld old b ≤ cntOld old a := by
  unfold cntOld
  rw [hm.size]
  apply filter_len_mono
  intro x hx
  simp only [beq_iff_eq] at hx ⊢
  exact hm.shr x hx

theorem shr_set {old nb : Nat} (hnb : nb ≠ old) (vars : Array Var) (v : Nat) :
    Shr old vars (vars.set! v { vars[v]! with block := nb }) := by
  refine ⟨by simp, ?_, ?_, ?_⟩
  · intro i; rw [get!_set!]; split
    · rename_i h; rw [← h.1]
    · rfl
  · intro i; rw [get!_set!]; split
    · rename_i h; rw [← h.1]
    · rfl
  · intro x hx
    unfold VpscInv.blk at hx ⊢
    rw [get!_set!] at hx
    split at hx
    · exact absurd hx hnb
    · exact hx

theorem cntOld_set {old nb : Nat} (hnb : nb ≠ old) (vars : Array Var) (v : Nat) (hv : v < vars.size)
    (hb : blk vars v = old) : cntOld old (vars.set! v { vars[v]! with block := nb }) < cntOld old vars := by
  unfold cntOld
  have hsz : (vars.set! v { vars[v]! with block := nb }).size = vars.size := by simp
  rw [hsz]
  have hself : blk (vars.set! v { vars[v]! with block := nb }) v = nb := blk_setBlock nb vars v hv
  apply filter_len_lt _ _ _ v
  · simp [hb]
  · simp only [beq_eq_false_iff_ne, ne_eq]; rw [hself]; exact hnb
  · exact List.mem_range.2 hv
  · intro x hx
    simp only [beq_iff_eq] at hx ⊢
    exact (shr_set hnb vars v).shr x hx

theorem cntOld_le (old : Nat) (vars : Array Var) : cntOld old vars ≤ vars.size := by
  unfold cntOld
  calc _ ≤ (List.range vars.size).length := List.length_filter_le _ _
    _ = vars.size := List.length_range

theorem populate_fuel (cons : Array Con) (old nb : Nat) (hnb : nb ≠ old) :
    ∀ (fuel : Nat) (vars : Array Var) (mem : Array Nat) (v : Nat) (u : Option Nat),
      LinkOK cons vars → v < vars.size →
      cntOld old vars + (if blk vars v = old then 0 else 1) ≤ fuel →
      (populateSplit cons old nb fuel vars mem v u).2.2 = true ∧
      Shr old vars (populateSplit cons old nb fuel vars mem v u).1 := by
  intro fuel
  induction fuel with
  | zero =>
    intro vars mem v u _ hv hle
    by_cases hb : blk vars v = old
    · have := cntOld_set hnb vars v hv hb; omega
    · simp [hb] at hle
  | succ fuel ih =>
    intro vars mem v u hlk hv hle
    have hm1 : Shr old vars (vars.set! v { vars[v]! with block := nb }) := shr_set hnb vars v
    have hc1 : cntOld old (vars.set! v { vars[v]! with block := nb }) ≤ fuel := by
      by_cases hb : blk vars v = old
      · have := cntOld_set hnb vars v hv hb; omega
      · have := cntOld_shr hm1
        simp [hb] at hle; omega
    have hsz1 : (vars.set! v { vars[v]! with block := nb }).size = vars.size := by simp
    have hfold : ∀ (far : Con → Nat) (arr : Array Nat),
        (∀ ci ∈ arr, ci < cons.size ∧ far (cons[ci]!) < vars.size) →
        ∀ (x0 : Array Var × Array Nat × Bool), x0.2.2 = true →
        Shr old (vars.set! v { vars[v]! with block := nb }) x0.1 →
        (arr.foldl (stepF cons old nb fuel u v far) x0).2.2 = true ∧
        Shr old (vars.set! v { vars[v]! with block := nb }) (arr.foldl (stepF cons old nb fuel u v far) x0).1 := by
      intro far arr harr x0 h0 hm0
      apply Array.foldl_induction
        (motive := fun _ (acc : Array Var × Array Nat × Bool) => acc.2.2 = true ∧
          Shr old (vars.set! v { vars[v]! with block := nb }) acc.1)
      · exact ⟨h0, hm0⟩
      · intro i acc ⟨hok, hmono⟩
        unfold stepF
        split
        · rename_i hcond
          simp only [Bool.and_eq_true, beq_iff_eq] at hcond
          obtain ⟨_, hfar⟩ := harr arr[i] (Array.getElem_mem i.2)
          have hbfar : blk acc.1 (far (cons[arr[i]]!)) = old := hcond.1.1
          have hcnt : cntOld old acc.1 + (if blk acc.1 (far (cons[arr[i]]!)) = old then 0 else 1) ≤ fuel := by
            rw [if_pos hbfar]; exact le_trans (cntOld_shr hmono) hc1
          obtain ⟨r1, r2⟩ := ih acc.1 acc.2.1 (far (cons[arr[i]]!)) (some v)
            (hmono.link (hm1.link hlk)) (by rw [hmono.size, hsz1]; exact hfar) hcnt
          exact ⟨by rw [hok, Bool.true_and]; exact r1, hmono.trans r2⟩
        · exact ⟨hok, hmono⟩
    have hins : ∀ ci ∈ (vars[v]!).ins, ci < cons.size ∧ (fun c : Con => c.l) (cons[ci]!) < vars.size := by
      intro ci hci
      obtain ⟨h1, _⟩ := hlk.ins_sound v ci hci
      exact ⟨h1, hlk.l_lt ci h1⟩
    have houts : ∀ ci ∈ (vars[v]!).outs, ci < cons.size ∧ (fun c : Con => c.r) (cons[ci]!) < vars.size := by
      intro ci hci
      obtain ⟨h1, _⟩ := hlk.outs_sound v ci hci
      exact ⟨h1, hlk.r_lt ci h1⟩
    obtain ⟨a1, a2⟩ := hfold (fun c => c.l) (vars[v]!).ins hins
      (vars.set! v { vars[v]! with block := nb }, mem.push v, true) rfl (Shr.refl _ _)
    obtain ⟨b1, b2⟩ := hfold (fun c => c.r) (vars[v]!).outs houts _ a1 a2
    unfold populateSplit
    exact ⟨b1, hm1.trans b2⟩

/-- **`Block::split` never runs out of fuel** in a state with exact in/out lists (in particular under the
    block invariant) -/
theorem split_fuel (st : St) {n : Nat} {ia : Array Nat} (hI : InvC st.vars st.cons n ia) (old ci : Nat)
    (hci : ci < st.cons.size) (hold : old < st.blocks.size) :
    (st.split old ci).1.fuelOut = st.fuelOut := by
  have hsz : (st.cons.set! ci { st.cons[ci]! with active := false }).size = st.cons.size := set!_size _ _ _
  have hdata : ∀ j : Nat, ((st.cons.set! ci { st.cons[ci]! with active := false })[j]!).l = (st.cons[j]!).l ∧
      ((st.cons.set! ci { st.cons[ci]! with active := false })[j]!).r = (st.cons[j]!).r := by
    intro j
    rw [cons_set_get]
    split
    · rename_i h; rw [← h.1]; exact ⟨rfl, rfl⟩
    · exact ⟨rfl, rfl⟩
  have hlk : LinkOK (st.cons.set! ci { st.cons[ci]! with active := false }) st.vars :=
    ⟨fun u j hj => by
        obtain ⟨a, b⟩ := hI.outs_sound u j hj
        exact ⟨by rw [hsz]; exact a, by rw [(hdata j).1]; exact b⟩,
     fun j hj => by rw [(hdata j).1]; exact hI.outs_complete j (by rw [hsz] at hj; exact hj),
     fun u j hj => by
        obtain ⟨a, b⟩ := hI.ins_sound u j hj
        exact ⟨by rw [hsz]; exact a, by rw [(hdata j).2]; exact b⟩,
     fun j hj => by rw [(hdata j).2]; exact hI.ins_complete j (by rw [hsz] at hj; exact hj)⟩
  have hn1 : st.blocks.size ≠ old := by omega
  have hn2 : st.blocks.size + 1 ≠ old := by omega
  obtain ⟨p1, s1⟩ := populate_fuel (st.cons.set! ci { st.cons[ci]! with active := false }) old st.blocks.size hn1
    (st.vars.size + 1) st.vars #[] (st.cons[ci]!).l (some (st.cons[ci]!).r) hlk (hI.l_lt ci hci)
    (by have := cntOld_le old st.vars; split <;> omega)
  obtain ⟨p2, _⟩ := populate_fuel (st.cons.set! ci { st.cons[ci]! with active := false }) old (st.blocks.size + 1) hn2
    (st.vars.size + 1)
    (populateSplit (st.cons.set! ci { st.cons[ci]! with active := false }) old st.blocks.size (st.vars.size + 1)
      st.vars #[] (st.cons[ci]!).l (some (st.cons[ci]!).r)).1
    #[] (st.cons[ci]!).r (some (st.cons[ci]!).l) (s1.link hlk) (by rw [s1.size]; exact hI.r_lt ci hci)
    (by
      have := cntOld_le old (populateSplit (st.cons.set! ci { st.cons[ci]! with active := false }) old
        st.blocks.size (st.vars.size + 1) st.vars #[] (st.cons[ci]!).l (some (st.cons[ci]!).r)).1
      rw [s1.size] at this
      split <;> omega)
  unfold St.split
  simp only [St.refreshBlock]
  rw [p1, p2]
  simp

/-! ### `Solver::refine` and `Solver::solve` -/

theorem computeDfdv_fuel_out (st : St) (bid : Nat) (fuel : Nat) (lm : Array Rat) (post : Array Nat) (v : Nat)
    (u : Option Nat) (hv : ¬ v < st.vars.size) : (computeDfdv st bid (fuel + 1) lm post v u).2.2.2 = true := by
  rw [computeDfdv_succ]
  simp only
  rw [getElem!_neg st.vars v hv, default_outs, default_ins]
  rfl

theorem findMinLM_fuel' (st : St) {n : Nat} {ia : Array Nat} (hI : InvC st.vars st.cons n ia) (b : Nat) :
    (st.findMinLM b).1.fuelOut = st.fuelOut := by
  by_cases hb : (st.blocks[b]!).vars[0]! < st.vars.size
  · exact findMinLM_fuel st hI b hb
  · have := computeDfdv_fuel_out st b st.vars.size st.lm #[] ((st.blocks[b]!).vars[0]!) none hb
    unfold St.findMinLM
    simp only
    rw [this]
    simp

/-- fuel flags clear and the invariant -/
structure Good (s : SSt) : Prop where
  wf : WF s
  sfo : s.st.fuelOut = false
  hfo : s.hs.fuelOut = false

theorem newBlocks_fo (hs : HS) (a b : Nat) : (hs.newBlocks a b).fuelOut = hs.fuelOut := rfl

theorem splitPre_hfo (s : SSt) (b c : Nat) : (splitPre s b c).1.hs.fuelOut = s.hs.fuelOut := by
  simp only [splitPre]
  rw [checkExact_fo, newBlocks_fo]

theorem splitMid_hfo (s : SSt) (c : Nat) : (splitMid s c).1.hs.fuelOut = s.hs.fuelOut := by
  simp only [splitMid]
  rw [checkExact_fo]

theorem splitStatic_hs (s : SSt) (b c : Nat) :
    (splitStatic s b c).hs =
      (mergeRight (splitMid (mergeLeft (splitPre s b c).1 (splitPre s b c).2) c).1
        (splitMid (mergeLeft (splitPre s b c).1 (splitPre s b c).2) c).2).hs := by
  simp only [splitStatic]

theorem good_cleanup {s : SSt} (hg : Good s) : Good s.cleanup :=
  ⟨⟨ic_cleanup hg.wf.ic, memOK_cleanup hg.wf.mem, inOK_congr rfl rfl hg.wf.hin, outOK_congr rfl rfl hg.wf.hout⟩,
   hg.sfo, hg.hfo⟩

theorem splitStatic_good (s : SSt) (b c : Nat) (hg : Good s) (hact : (s.st.cons[c]!).active = true)
    (hb : blkOf s.st (s.st.cons[c]!).l = b) : Good (splitStatic s b c) := by
  have hw := hg.wf
  have hb' : blk s.st.vars (s.st.cons[c]!).l = b := hb
  subst hb'
  have hclt := active_lt _ _ hact
  have hfo' : (s.st.split (blk s.st.vars (s.st.cons[c]!).l) c).1.fuelOut = false := by
    rw [split_fuel s.st hw.ic _ c hclt (hw.ic.fresh _ (hw.ic.l_lt c hclt))]; exact hg.sfo
  obtain ⟨w1, w2, w3, w4, w5, w6⟩ := split_WF s.st s.hs c hw.ic hw.mem hw.hin hw.hout hact hfo'
  have hcsz : (s.st.split (blk s.st.vars (s.st.cons[c]!).l) c).1.cons.size = s.st.cons.size := by
    rw [split_cons, set!_size]
  have hsamePre : Same (splitPre s (blk s.st.vars (s.st.cons[c]!).l) c).1.st (s.st.split (blk s.st.vars (s.st.cons[c]!).l) c).1 := by
    rw [splitPre_st]
    exact ⟨by simp [setPosn, St.insertBlocks], by simp [setPosn, St.insertBlocks],
      by simp [setPosn, St.insertBlocks], by simp [setPosn, St.insertBlocks]⟩
  have hwPre : WF (splitPre s (blk s.st.vars (s.st.cons[c]!).l) c).1 :=
    WF.build w1 w2 w3 w4 hsamePre (by intro x; rw [setPosn_vars]; rfl) (splitPre_hs s _ c)
  have hoPre : Owns (splitPre s (blk s.st.vars (s.st.cons[c]!).l) c).1.st (splitPre s (blk s.st.vars (s.st.cons[c]!).l) c).2 := by
    rw [splitPre_snd]
    exact owns_congr hsamePre.1 w5
  obtain ⟨l1, l2, l3⟩ := mergeLeft_total' _ _ hwPre hoPre
  obtain ⟨fv, fc, _⟩ := mergeLeft_frame (splitPre s (blk s.st.vars (s.st.cons[c]!).l) c).1
    (splitPre s (blk s.st.vars (s.st.cons[c]!).l) c).2
  have hpre_sfo : (splitPre s (blk s.st.vars (s.st.cons[c]!).l) c).1.st.fuelOut = false := by
    rw [hsamePre.2.2.2]; exact hfo'
  generalize hS1 : mergeLeft (splitPre s (blk s.st.vars (s.st.cons[c]!).l) c).1
    (splitPre s (blk s.st.vars (s.st.cons[c]!).l) c).2 = s1 at *
  have hclt1 : c < s1.st.cons.size := by rw [fc, hsamePre.2.1, hcsz]; exact hclt
  have hwMid : WF (splitMid s1 c).1 :=
    WF.transfer (s := s1) l3 (st' := (splitMid s1 c).1.st) (hs' := (splitMid s1 c).1.hs)
      (by rw [splitMid_st]; exact same_refreshBlock _ _)
      (by intro x; rw [splitMid_st, refresh_vars]) (splitMid_hs s1 c)
  have hoMid : Owns (splitMid s1 c).1.st (splitMid s1 c).2 := by
    rw [splitMid_snd]
    exact owns_congr (by rw [splitMid_st]; exact (refreshBlock_vc _ _).1) ⟨_, l3.ic.r_lt c hclt1, rfl⟩
  obtain ⟨r1, r2, r3⟩ := mergeRight_total' _ _ hwMid hoMid
  have hwf : WF (splitStatic s (blk s.st.vars (s.st.cons[c]!).l) c) := by
    rw [splitStatic_eq, hS1]
    exact WF.transfer r3 (same_markDeleted _ _) (fun x => markDeleted_vars _ _ x) (SameH.refl _)
  refine ⟨hwf, ?_, ?_⟩
  · rw [splitStatic_st, hS1]
    simp only [St.markDeleted]
    rw [r2, splitMid_st, (refreshBlock_core _ _).2.2.2.2, l2]
    exact hpre_sfo
  · rw [splitStatic_hs, hS1, r1, splitMid_hfo, l1, splitPre_hfo]
    exact hg.hfo

theorem refineSetUp_good (s : SSt) (hg : Good s) : Good (refineSetUp s) := by
  have hsw := refineSetUp_SW s (Or.inr hg.wf)
  have hst : (refineSetUp s).st = s.st := rfl
  have hfo : (refineSetUp s).hs.fuelOut = s.hs.fuelOut := by
    show (s.st.order.toList.foldl (fun hs b => setUpOut s.st (setUpIn s.st hs b) b) s.hs).fuelOut = s.hs.fuelOut
    have : ∀ (l : List Nat) (hs : HS),
        (l.foldl (fun hs b => setUpOut s.st (setUpIn s.st hs b) b) hs).fuelOut = hs.fuelOut := by
      intro l
      induction l with
      | nil => intro hs; rfl
      | cons x r ih => intro hs; rw [List.foldl_cons, ih, setUpOut_fo, setUpIn_fo]
    exact this _ _
  rcases hsw with h | h
  · rw [hst, hg.sfo] at h; cases h
  · exact ⟨h, by rw [hst]; exact hg.sfo, hfo.trans hg.hfo⟩

theorem refineTry_good (s : SSt) (b : Nat) (hg : Good s) : Good (refineTry s b).1 := by
  obtain ⟨hv, hc, hbk, _, _, hact⟩ := findMinLM_spec s.st b
  have hfl := findMinLM_fuel' s.st hg.wf.ic b
  have hstate : ∀ hs' : HS, SameH hs' s.hs → hs'.fuelOut = false →
      Good { st := (s.st.findMinLM b).1, hs := hs' } := by
    intro hs' hh hf
    have := findMinLM_state s b (Or.inr hg.wf) hs' hh
    rcases this with h | h
    · rw [hfl, hg.sfo] at h; cases h
    · exact ⟨h, by rw [hfl]; exact hg.sfo, hf⟩
  unfold refineTry
  simp only
  split
  · exact hstate s.hs (SameH.refl _) hg.hfo
  · rename_i ci lmv gap heq
    split
    · have hg' := hstate ((s.hs.note (lmv - LAGRANGIAN_TOLERANCE)).noteCmp gap)
        ((noteCmp_same _ _).trans ⟨rfl, rfl⟩) (by rw [noteCmp_fo]; exact hg.hfo)
      have ha : ((s.st.findMinLM b).1.cons[ci]!).active = true := by rw [hc]; exact hact ci lmv gap heq
      have hblk : blkOf (s.st.findMinLM b).1 ((s.st.findMinLM b).1.cons[ci]!).l = b := by
        have hic : InvC s.st.vars s.st.cons (s.st.findMinLM b).1.blocks.size
            (Array.range (s.st.findMinLM b).1.cons.size) := by
          have := hg'.wf.ic; unfold IC at this; rw [hv, hc] at this; rw [hc]; exact this
        have := findMinLM_blk s.st b hic ci lmv gap heq
        unfold blkOf; rw [hv, hc]; exact this
      exact good_cleanup (splitStatic_good (SSt.mk (s.st.findMinLM b).1
        ((s.hs.note (lmv - LAGRANGIAN_TOLERANCE)).noteCmp gap)) b ci hg' ha hblk)
    · exact hstate _ ⟨rfl, rfl⟩ hg.hfo

theorem refineScan_good : ∀ (l : List Nat) (s : SSt), Good s → Good (refineScan s l).1
  | [], _, h => h
  | b :: rest, s, h => by
    unfold refineScan
    have h1 := refineTry_good s b h
    simp only
    split
    · exact h1
    · exact refineScan_good rest _ h1

theorem refineLoop_good : ∀ (tries : Nat) (s : SSt), Good s → Good (refineLoop tries s)
  | 0, _, h => h
  | tries + 1, s, h => by
    unfold refineLoop
    simp only
    have h0 : Good { s with hs := { s.hs with nRounds := s.hs.nRounds + 1 } } :=
      ⟨h.wf.with_hs (inOK_of_eq h.wf.hin rfl) (outOK_of_eq h.wf.hout rfl), h.sfo, h.hfo⟩
    have h1 := refineScan_good (refineSetUp { s with hs := { s.hs with nRounds := s.hs.nRounds + 1 } }).st.order.toList
      _ (refineSetUp_good _ h0)
    split
    · exact refineLoop_good tries _ h1
    · exact h1

theorem noteScan_fo (st : St) (hs : HS) : (noteScan st hs).fuelOut = hs.fuelOut := by
  unfold noteScan
  have : ∀ (l : List Nat) (a : HS), (l.foldl (fun hs ci =>
      if rawSlack st ci < 0 then hs.note (rawSlack st ci - ZERO_UPPERBOUND) else hs) a).fuelOut = a.fuelOut := by
    intro l
    induction l with
    | nil => intro a; rfl
    | cons c r ih => intro a; rw [List.foldl_cons, ih]; split <;> rfl
  exact this _ _

/-- **`Solver(vs, cs); solve()` always terminates within the model's fuel** -/
theorem init_solve_total (vs : Array (Rat × Rat × Rat)) (cs : Array Con)
    (hv : ∀ c ∈ cs, c.l < vs.size ∧ c.r < vs.size ∧ c.unsat = false) :
    ((SSt.init vs cs).solve).1.bad = false := by
  have hb := init_satisfy_total vs cs hv
  have hsw := satisfy_SW _ (Or.inr (init_WF vs cs hv))
  obtain ⟨h1, h2⟩ := bad_false _ hb
  have hg : Good ((SSt.init vs cs).satisfy).1 :=
    ⟨hsw.resolve_left (by intro h; rw [h1] at h; cases h), h1, h2⟩
  unfold SSt.solve
  split
  · rename_i s1 p r heq
    have e1 : ((SSt.init vs cs).satisfy).1 = s1 := by rw [heq]
    have hg2 : Good (refineCore s1) := refineLoop_good 100 s1 (by rw [← e1]; exact hg)
    have hbad : ({ refineCore s1 with hs := noteScan (refineCore s1).st (refineCore s1).hs } : SSt).bad = false := by
      unfold SSt.bad
      simp only
      rw [noteScan_fo, hg2.hfo, hg2.sfo]; rfl
    simp only
    split
    · rename_i hb'; rw [hbad] at hb'; cases hb'
    · split <;> exact hbad
  · exact hb

/-! ### an `outOfFuel` outcome is only produced when a fuel flag is set -/

theorem satisfy_outcome_bad (u : SSt) (hu : (u.satisfy).2 = .outOfFuel) : (u.satisfy).1.bad = true := by
  unfold SSt.satisfy at hu ⊢
  simp only at hu ⊢
  by_cases hbad : ({ satisfyCore u with hs := noteScan (satisfyCore u).st (satisfyCore u).hs } : SSt).bad = true
  · rw [if_pos hbad]; exact hbad
  · rw [if_neg hbad] at hu
    split at hu <;> cases hu

theorem solve_outcome_bad (t : SSt) (ht : (t.solve).2 = .outOfFuel) : (t.solve).1.bad = true := by
  unfold SSt.solve at ht ⊢
  split at ht
  · rename_i s1 p r heq
    simp only at ht ⊢
    by_cases hbad : ({ refineCore s1 with hs := noteScan (refineCore s1).st (refineCore s1).hs } : SSt).bad = true
    · rw [if_pos hbad]; exact hbad
    · rw [if_neg hbad] at ht
      split at ht <;> cases ht
  · rename_i r hne
    exact satisfy_outcome_bad t ht

end AdaptaVerif.Lemmas.VpscStaticFuel
