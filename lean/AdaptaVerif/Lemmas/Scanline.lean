/-
Scan-line lemmas for C09 (model: AdaptaVerif.Model.Scanline).
* `keyLt_strictTotal` : CmpNodePos with an injective tie-break is a strict total order.
* `scanPtr_mono`, `scanNL_mono` : every emitted constraint goes from a smaller to a larger
  scan-line key — for ANY event list and ANY start state satisfying the pointer invariant.
* `Inv`, `sep_on_scanline`, `sep_of_scanMeet` : on a valid event order, any two nodes whose sweep
  extents meet are separated by half their lengths in every placement satisfying the emitted
  constraints (backward chain argument through firstAbove / firstBelow).
* `scanPtr_eq_scanAdj` : the pointer bookkeeping equals recomputing neighbours from the set.
-/
import AdaptaVerif.Lemmas.ScanlineOrder
import AdaptaVerif.Spec.Rects
import Mathlib.Tactic.Linarith
import Mathlib.Algebra.Order.Field.Rat
namespace AdaptaVerif.Lemmas.Scanline
open AdaptaVerif.Model.Scanline AdaptaVerif.Spec.Rects

/-! ### the scan-line comparator is a strict total order -/

theorem keyLt_iff (ax : Axis) (rank : Nat → Nat) (u v : Nat) :
    keyLt ax rank u v = true ↔ ax.ctr u < ax.ctr v ∨ (ax.ctr u = ax.ctr v ∧ rank u < rank v) := by
  simp [keyLt]

theorem keyLt_trans (ax : Axis) (rank : Nat → Nat) (a b c : Nat)
    (h1 : keyLt ax rank a b = true) (h2 : keyLt ax rank b c = true) : keyLt ax rank a c = true := by
  rw [keyLt_iff] at *
  rcases h1 with h1 | ⟨h1, h1'⟩ <;> rcases h2 with h2 | ⟨h2, h2'⟩
  · left; linarith
  · left; linarith
  · left; linarith
  · right; exact ⟨h1.trans h2, by omega⟩

theorem keyLt_irrefl (ax : Axis) (rank : Nat → Nat) (a : Nat) : keyLt ax rank a a = false := by
  cases h : keyLt ax rank a a with
  | false => rfl
  | true =>
    rw [keyLt_iff] at h
    rcases h with h | ⟨_, h⟩
    · exact absurd h (lt_irrefl _)
    · omega

theorem keyLt_strictTotal (ax : Axis) {rank : Nat → Nat} (inj : RankInjective rank) :
    StrictTotal (keyLt ax rank) := by
  refine ⟨keyLt_irrefl ax rank, keyLt_trans ax rank, fun a b hab => ?_⟩
  simp only [keyLt_iff]
  rcases lt_trichotomy (ax.ctr a) (ax.ctr b) with h | h | h
  · exact Or.inl (Or.inl h)
  · have : rank a ≠ rank b := fun e => hab (inj a b e)
    rcases Nat.lt_or_gt_of_ne this with h' | h'
    · exact Or.inl (Or.inr ⟨h, h'⟩)
    · exact Or.inr (Or.inr ⟨h.symm, h'⟩)
  · exact Or.inr (Or.inl h)

/-! ### every generated constraint goes up in the scan-line order (any event list at all) -/

theorem sat_append {y : Nat → Rat} {a b : List Con} : Sat y (a ++ b) ↔ Sat y a ∧ Sat y b := by
  simp [Sat, List.mem_append, or_imp, forall_and]

theorem prevIn_lt {lt} {S : List Nat} {v u : Nat} (h : prevIn lt S v = some u) : lt u v = true := by
  unfold prevIn before at h
  have := List.mem_of_mem_head? (Option.mem_def.2 h)
  exact (List.mem_filter.1 (List.mem_reverse.1 this)).2

theorem nextIn_lt {lt} {S : List Nat} {v u : Nat} (h : nextIn lt S v = some u) : lt v u = true := by
  unfold nextIn after at h
  have := List.mem_of_mem_head? (Option.mem_def.2 h)
  exact (List.mem_filter.1 this).2

/-- pointer fields only ever point up/down in the order -/
def PtrMono (lt : Nat → Nat → Bool) (ab be : PMap) : Prop :=
  (∀ x a, ab x = some a → lt a x = true) ∧ (∀ x b, be x = some b → lt x b = true)

theorem scanPtr_mono (ax : Axis) {lt : Nat → Nat → Bool}
    (tr : ∀ a b c, lt a b = true → lt b c = true → lt a c = true) :
    ∀ (evs : List Ev) (S : List Nat) (ab be : PMap), PtrMono lt ab be →
      ∀ c ∈ scanPtr ax lt evs S ab be, lt c.l c.r = true := by
  intro evs
  induction evs with
  | nil => intro S ab be _ c hc; simp [scanPtr] at hc
  | cons e es ih =>
    intro S ab be hm c hc
    obtain ⟨cl, v⟩ := e
    cases cl with
    | false =>
      simp only [scanPtr] at hc
      refine ih _ _ _ ?_ c hc
      constructor
      · intro x a hxa
        cases hn : nextIn lt (insertSorted lt v S) v with
        | none =>
          simp only [hn, PMap.set] at hxa
          split at hxa
          · subst_vars; exact prevIn_lt hxa
          · exact hm.1 x a hxa
        | some u =>
          simp only [hn, PMap.set] at hxa
          split at hxa
          · cases hxa; subst_vars; exact nextIn_lt hn
          · split at hxa
            · subst_vars; exact prevIn_lt hxa
            · exact hm.1 x a hxa
      · intro x b hxb
        simp only [PMap.set] at hxb
        split at hxb
        · subst_vars; exact nextIn_lt hxb
        · cases hp : prevIn lt (insertSorted lt v S) v with
          | none => simp only [hp] at hxb; exact hm.2 x b hxb
          | some u =>
            simp only [hp, PMap.set] at hxb
            split at hxb
            · cases hxb; subst_vars; exact prevIn_lt hp
            · exact hm.2 x b hxb
    | true =>
      simp only [scanPtr, List.mem_append] at hc
      rcases hc with (hc | hc) | hc
      · cases hl : ab v with
        | none => simp [hl] at hc
        | some l => simp [hl] at hc; subst hc; exact hm.1 v l hl
      · cases hr : be v with
        | none => simp [hr] at hc
        | some r => simp [hr] at hc; subst hc; exact hm.2 v r hr
      · refine ih _ _ _ ?_ c hc
        constructor
        · intro x a hxa
          cases hr : be v with
          | none => simp only [hr] at hxa; exact hm.1 x a hxa
          | some r =>
            simp only [hr, PMap.set] at hxa
            split at hxa
            · subst_vars; exact tr _ _ _ (hm.1 v a hxa) (hm.2 v _ hr)
            · exact hm.1 x a hxa
        · intro x b hxb
          cases hl : ab v with
          | none => simp only [hl] at hxb; exact hm.2 x b hxb
          | some l =>
            simp only [hl, PMap.set] at hxb
            split at hxb
            · subst_vars; exact tr _ _ _ (hm.1 v _ hl) (hm.2 v b hxb)
            · exact hm.2 x b hxb

theorem nbrScan_subset (ax : Axis) (v : Nat) : ∀ (l : List Nat) (u : Nat), u ∈ nbrScan ax v l → u ∈ l := by
  intro l
  induction l with
  | nil => intro u h; simp [nbrScan] at h
  | cons a t ih =>
    intro u h
    unfold nbrScan at h
    split at h
    · simp at h; subst h; exact List.mem_cons_self
    · split at h
      · rcases List.mem_cons.1 h with rfl | h
        · exact List.mem_cons_self
        · exact List.mem_cons_of_mem _ (ih u h)
      · exact List.mem_cons_of_mem _ (ih u h)

theorem leftNbrs_lt {ax : Axis} {lt} {S : List Nat} {v u : Nat} (h : u ∈ leftNbrs ax lt S v) : lt u v = true := by
  have := nbrScan_subset ax v _ u h
  unfold before at this
  exact (List.mem_filter.1 (List.mem_reverse.1 this)).2

theorem rightNbrs_lt {ax : Axis} {lt} {S : List Nat} {v u : Nat} (h : u ∈ rightNbrs ax lt S v) : lt v u = true := by
  have := nbrScan_subset ax v _ u h
  unfold after at this
  exact (List.mem_filter.1 this).2

/-- neighbour sets only ever contain smaller (left) / larger (right) nodes -/
def NbrMono (lt : Nat → Nat → Bool) (ln rn : SMap) : Prop :=
  (∀ x u, u ∈ ln x → lt u x = true) ∧ (∀ x u, u ∈ rn x → lt x u = true)

theorem scanNL_mono (ax : Axis) {lt : Nat → Nat → Bool} :
    ∀ (evs : List Ev) (S : List Nat) (ln rn : SMap), NbrMono lt ln rn →
      ∀ c ∈ scanNL ax lt evs S ln rn, lt c.l c.r = true := by
  intro evs
  induction evs with
  | nil => intro S ln rn _ c hc; simp [scanNL] at hc
  | cons e es ih =>
    intro S ln rn hm c hc
    obtain ⟨cl, v⟩ := e
    cases cl with
    | false =>
      simp only [scanNL] at hc
      refine ih _ _ _ ?_ c hc
      constructor
      · intro x u hu
        simp only [SMap.addAll, SMap.set] at hu
        split at hu
        · rename_i hx
          rcases List.mem_cons.1 hu with rfl | hu
          · exact rightNbrs_lt (List.contains_iff_mem.1 hx)
          · split at hu
            · subst_vars; exact leftNbrs_lt hu
            · exact hm.1 x u hu
        · split at hu
          · subst_vars; exact leftNbrs_lt hu
          · exact hm.1 x u hu
      · intro x u hu
        simp only [SMap.addAll, SMap.set] at hu
        split at hu
        · rename_i hx
          rcases List.mem_cons.1 hu with rfl | hu
          · exact leftNbrs_lt (List.contains_iff_mem.1 hx)
          · split at hu
            · subst_vars; exact rightNbrs_lt hu
            · exact hm.2 x u hu
        · split at hu
          · subst_vars; exact rightNbrs_lt hu
          · exact hm.2 x u hu
    | true =>
      simp only [scanNL, List.mem_append, List.mem_map] at hc
      rcases hc with (⟨u, hu, rfl⟩ | ⟨u, hu, rfl⟩) | hc
      · exact hm.1 v u hu
      · exact hm.2 v u hu
      · refine ih _ _ _ ?_ c hc
        constructor
        · intro x u hu
          simp only [SMap.eraseAll] at hu
          split at hu
          · exact hm.1 x u (List.mem_filter.1 hu).1
          · exact hm.1 x u hu
        · intro x u hu
          simp only [SMap.eraseAll] at hu
          split at hu
          · exact hm.2 x u (List.mem_filter.1 hu).1
          · exact hm.2 x u hu


/-- a Close can stand before an Open only at a strictly smaller position -/
theorem evLe_close_open {ax : Axis} {w u : Nat} (h : evLe ax ⟨true, w⟩ ⟨false, u⟩ = true) :
    ax.cls w < ax.opn u := by
  simpa [evLe, Ev.pos] using h

/-- State invariant of the sweep: `evs` = events still to be processed. -/
structure Inv (ax : Axis) (lt : Nat → Nat → Bool) (evs : List Ev) (S : List Nat) (ab be : PMap) : Prop where
  pw : evs.Pairwise (fun a b => evLe ax a b = true)
  nd : evs.Nodup
  fresh : ∀ x ∈ S, (⟨false, x⟩ : Ev) ∉ evs
  closes : ∀ x, (x ∈ S ∨ (⟨false, x⟩ : Ev) ∈ evs) → (⟨true, x⟩ : Ev) ∈ evs ∧ 0 ≤ ax.sz x
  opened : ∀ x, (⟨true, x⟩ : Ev) ∈ evs → (x ∈ S ∨ (⟨false, x⟩ : Ev) ∈ evs) ∧ ax.opn x ≤ ax.cls x
  sorted : Sorted lt S
  linked : Linked lt S ab be

theorem Inv.open_step {ax : Axis} {lt} (st : StrictTotal lt) {w : Nat} {es : List Ev} {S : List Nat}
    {ab be : PMap} (h : Inv ax lt (⟨false, w⟩ :: es) S ab be) :
    Inv ax lt es (insertSorted lt w S)
      (match nextIn lt (insertSorted lt w S) w with
        | some u => (ab.set w (prevIn lt (insertSorted lt w S) w)).set u (some w)
        | none => ab.set w (prevIn lt (insertSorted lt w S) w))
      ((match prevIn lt (insertSorted lt w S) w with
        | some u => be.set u (some w)
        | none => be).set w (nextIn lt (insertSorted lt w S) w)) := by
  have hw : w ∉ S := fun hw => h.fresh w hw List.mem_cons_self
  have hnd := List.nodup_cons.1 h.nd
  refine ⟨(List.pairwise_cons.1 h.pw).2, hnd.2, ?_, ?_, ?_, sorted_insertSorted st h.sorted hw,
    linked_open st h.sorted hw h.linked⟩
  · intro x hx
    rcases mem_insertSorted.1 hx with rfl | hx
    · exact hnd.1
    · exact fun h' => h.fresh x hx (List.mem_cons_of_mem _ h')
  · intro x hx
    have hx' : x ∈ S ∨ (⟨false, x⟩ : Ev) ∈ (⟨false, w⟩ : Ev) :: es := by
      rcases hx with hx | hx
      · rcases mem_insertSorted.1 hx with rfl | hx
        · exact Or.inr List.mem_cons_self
        · exact Or.inl hx
      · exact Or.inr (List.mem_cons_of_mem _ hx)
    obtain ⟨h1, h2⟩ := h.closes x hx'
    refine ⟨?_, h2⟩
    rcases List.mem_cons.1 h1 with h1 | h1
    · cases h1
    · exact h1
  · intro x hx
    obtain ⟨h1, h2⟩ := h.opened x (List.mem_cons_of_mem _ hx)
    refine ⟨?_, h2⟩
    rcases h1 with h1 | h1
    · exact Or.inl (mem_insertSorted.2 (Or.inr h1))
    · rcases List.mem_cons.1 h1 with h1 | h1
      · cases h1; exact Or.inl (mem_insertSorted.2 (Or.inl rfl))
      · exact Or.inr h1

theorem Inv.close_mem {ax : Axis} {lt} {w : Nat} {es : List Ev} {S : List Nat}
    {ab be : PMap} (h : Inv ax lt (⟨true, w⟩ :: es) S ab be) : w ∈ S ∧ (⟨false, w⟩ : Ev) ∉ es := by
  obtain ⟨h1, h2⟩ := h.opened w List.mem_cons_self
  have hno : (⟨false, w⟩ : Ev) ∉ es := by
    intro hm
    have := evLe_close_open ((List.pairwise_cons.1 h.pw).1 _ hm)
    linarith
  refine ⟨?_, hno⟩
  rcases h1 with h1 | h1
  · exact h1
  · rcases List.mem_cons.1 h1 with h1 | h1
    · cases h1
    · exact absurd h1 hno

theorem Inv.close_step {ax : Axis} {lt} (st : StrictTotal lt) {w : Nat} {es : List Ev} {S : List Nat}
    {ab be : PMap} (h : Inv ax lt (⟨true, w⟩ :: es) S ab be) :
    Inv ax lt es (eraseNode w S)
      (match be w with | some r => ab.set r (ab w) | none => ab)
      (match ab w with | some l => be.set l (be w) | none => be) := by
  obtain ⟨hwS, hno⟩ := h.close_mem
  have hnd := List.nodup_cons.1 h.nd
  refine ⟨(List.pairwise_cons.1 h.pw).2, hnd.2, ?_, ?_, ?_, sorted_eraseNode h.sorted,
    linked_close st hwS h.linked⟩
  · intro x hx h'
    exact h.fresh x (mem_eraseNode.1 hx).1 (List.mem_cons_of_mem _ h')
  · intro x hx
    have hxw : x ≠ w := by
      rcases hx with hx | hx
      · exact (mem_eraseNode.1 hx).2
      · rintro rfl; exact hno hx
    have hx' : x ∈ S ∨ (⟨false, x⟩ : Ev) ∈ (⟨true, w⟩ : Ev) :: es := by
      rcases hx with hx | hx
      · exact Or.inl (mem_eraseNode.1 hx).1
      · exact Or.inr (List.mem_cons_of_mem _ hx)
    obtain ⟨h1, h2⟩ := h.closes x hx'
    refine ⟨?_, h2⟩
    rcases List.mem_cons.1 h1 with h1 | h1
    · cases h1; exact absurd rfl hxw
    · exact h1
  · intro x hx
    have hxw : x ≠ w := by rintro rfl; exact hnd.1 hx
    obtain ⟨h1, h2⟩ := h.opened x (List.mem_cons_of_mem _ hx)
    refine ⟨?_, h2⟩
    rcases h1 with h1 | h1
    · exact Or.inl (mem_eraseNode.2 ⟨h1, hxw⟩)
    · rcases List.mem_cons.1 h1 with h1 | h1
      · cases h1
      · exact Or.inr h1

/-- Lemma A: nodes that are on the scan line together end up separated. -/
theorem sep_on_scanline (ax : Axis) {lt} (st : StrictTotal lt) :
    ∀ (evs : List Ev) (S : List Nat) (ab be : PMap), Inv ax lt evs S ab be →
      ∀ y : Nat → Rat, Sat y (scanPtr ax lt evs S ab be) →
        ∀ u v, u ∈ S → v ∈ S → lt u v = true → y u + gapOf ax u v ≤ y v := by
  intro evs
  induction evs with
  | nil =>
    intro S ab be h y _ u v hu _ _
    have := (h.closes u (Or.inl hu)).1
    cases this
  | cons e es ih =>
    intro S ab be h y hsat u v hu hv huv
    obtain ⟨cl, w⟩ := e
    cases cl with
    | false =>
      simp only [scanPtr] at hsat
      exact ih _ _ _ (h.open_step st) y hsat u v (mem_insertSorted.2 (Or.inr hu))
        (mem_insertSorted.2 (Or.inr hv)) huv
    | true =>
      simp only [scanPtr] at hsat
      rw [sat_append, sat_append] at hsat
      obtain ⟨⟨hs1, hs2⟩, hs3⟩ := hsat
      have hwS := h.close_mem.1
      have IH := ih _ _ _ (h.close_step st) y hs3
      obtain ⟨hlw, hrw⟩ := h.linked w hwS
      have ne_of_lt : ∀ a b, lt a b = true → a ≠ b := by
        rintro a b hab rfl; rw [st.irrefl] at hab; cases hab
      by_cases hvw : v = w
      · subst hvw
        -- the closing node is the upper one: go through its firstAbove
        cases hl : ab v with
        | none => have := hlw.2 hl u hu; rw [huv] at this; cases this
        | some a =>
          obtain ⟨haS, hav, hmax⟩ := hlw.1 a hl
          have hc : y a + gapOf ax a v ≤ y v := by
            have := hs1 ⟨a, v, gapOf ax a v⟩ (by simp [hl])
            exact this
          rcases hmax u hu huv with rfl | hua
          · exact hc
          · have h1 := IH u a (mem_eraseNode.2 ⟨hu, ne_of_lt _ _ huv⟩)
              (mem_eraseNode.2 ⟨haS, ne_of_lt _ _ hav⟩) hua
            have h0 := (h.closes a (Or.inl haS)).2
            unfold gapOf at *
            linarith
      · by_cases huw : u = w
        · subst huw
          cases hr : be u with
          | none => have := hrw.2 hr v hv; dsimp only at this; rw [huv] at this; cases this
          | some b =>
            obtain ⟨hbS, hub, hmin⟩ := hrw.1 b hr
            dsimp only at hub hmin
            have hc : y u + gapOf ax b u ≤ y b := by
              have := hs2 ⟨u, b, gapOf ax b u⟩ (by simp [hr])
              exact this
            rcases hmin v hv huv with rfl | hbv
            · unfold gapOf at *; linarith
            · have h1 := IH b v (mem_eraseNode.2 ⟨hbS, (ne_of_lt _ _ hub).symm⟩)
                (mem_eraseNode.2 ⟨hv, hvw⟩) hbv
              have h0 := (h.closes b (Or.inl hbS)).2
              unfold gapOf at *
              linarith
        · exact IH u v (mem_eraseNode.2 ⟨hu, huw⟩) (mem_eraseNode.2 ⟨hv, hvw⟩) huv

/-- Lemma B: any two nodes whose sweep extents meet end up separated. -/
theorem sep_of_scanMeet (ax : Axis) {lt} (st : StrictTotal lt) :
    ∀ (evs : List Ev) (S : List Nat) (ab be : PMap), Inv ax lt evs S ab be →
      ∀ y : Nat → Rat, Sat y (scanPtr ax lt evs S ab be) →
        ∀ u v, (u ∈ S ∨ (⟨false, u⟩ : Ev) ∈ evs) → (v ∈ S ∨ (⟨false, v⟩ : Ev) ∈ evs) →
          ScanMeet ax u v → lt u v = true → y u + gapOf ax u v ≤ y v := by
  intro evs
  induction evs with
  | nil =>
    intro S ab be h y _ u v hu _ _ _
    have := (h.closes u hu).1
    cases this
  | cons e es ih =>
    intro S ab be h y hsat u v hu hv hmeet huv
    obtain ⟨cl, w⟩ := e
    cases cl with
    | false =>
      have hstep := h.open_step st
      simp only [scanPtr] at hsat
      refine ih _ _ _ hstep y hsat u v ?_ ?_ hmeet huv
      · rcases hu with hu | hu
        · exact Or.inl (mem_insertSorted.2 (Or.inr hu))
        · rcases List.mem_cons.1 hu with hu | hu
          · cases hu; exact Or.inl (mem_insertSorted.2 (Or.inl rfl))
          · exact Or.inr hu
      · rcases hv with hv | hv
        · exact Or.inl (mem_insertSorted.2 (Or.inr hv))
        · rcases List.mem_cons.1 hv with hv | hv
          · cases hv; exact Or.inl (mem_insertSorted.2 (Or.inl rfl))
          · exact Or.inr hv
    | true =>
      -- an Open of x cannot follow this Close of w when opn x ≤ cls w
      have noOpen : ∀ x, ax.opn x ≤ ax.cls w → (⟨false, x⟩ : Ev) ∉ es := by
        intro x hx hm
        have := evLe_close_open ((List.pairwise_cons.1 h.pw).1 _ hm)
        linarith
      have inS : ∀ x, ax.opn x ≤ ax.cls w → (x ∈ S ∨ (⟨false, x⟩ : Ev) ∈ (⟨true, w⟩ : Ev) :: es) → x ∈ S := by
        intro x hx hxm
        rcases hxm with hxm | hxm
        · exact hxm
        · rcases List.mem_cons.1 hxm with hxm | hxm
          · cases hxm
          · exact absurd hxm (noOpen x hx)
      have hww := (h.opened w List.mem_cons_self).2
      by_cases hvw : v = w
      · subst hvw
        exact sep_on_scanline ax st _ _ _ _ h y hsat u v (inS u hmeet.1 hu) (inS v hww hv) huv
      · by_cases huw : u = w
        · subst huw
          exact sep_on_scanline ax st _ _ _ _ h y hsat u v (inS u hww hu) (inS v hmeet.2 hv) huv
        · simp only [scanPtr] at hsat
          rw [sat_append] at hsat
          refine ih _ _ _ (h.close_step st) y hsat.2 u v ?_ ?_ hmeet huv
          · rcases hu with hu | hu
            · exact Or.inl (mem_eraseNode.2 ⟨hu, huw⟩)
            · rcases List.mem_cons.1 hu with hu | hu
              · cases hu
              · exact Or.inr hu
          · rcases hv with hv | hv
            · exact Or.inl (mem_eraseNode.2 ⟨hv, hvw⟩)
            · rcases List.mem_cons.1 hv with hv | hv
              · cases hv
              · exact Or.inr hv

/-- on valid input the pointer bookkeeping computes exactly the scan-line neighbours -/
theorem scanPtr_eq_scanAdj (ax : Axis) {lt} (st : StrictTotal lt) :
    ∀ (evs : List Ev) (S : List Nat) (ab be : PMap), Inv ax lt evs S ab be →
      scanPtr ax lt evs S ab be = scanAdj ax lt evs S := by
  intro evs
  induction evs with
  | nil => intro S ab be _; simp [scanPtr, scanAdj]
  | cons e es ih =>
    intro S ab be h
    obtain ⟨cl, w⟩ := e
    cases cl with
    | false => simp only [scanPtr, scanAdj]; exact ih _ _ _ (h.open_step st)
    | true =>
      simp only [scanPtr, scanAdj]
      obtain ⟨hlw, hrw⟩ := h.linked w h.close_mem.1
      have e := ih _ _ _ (h.close_step st)
      have e1 : ab w = prevIn lt S w := isPrev_unique st hlw (prevIn_spec h.sorted w)
      have e2 : be w = nextIn lt S w := isPrev_unique st.flip hrw (nextIn_spec h.sorted w)
      rw [e1, e2] at e ⊢
      exact congrArg _ e

end AdaptaVerif.Lemmas.Scanline
