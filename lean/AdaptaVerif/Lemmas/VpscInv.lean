/-
The full block invariant of the IncSolver model and its preservation by the constructor,
`addConstraint`, changing a desired position, and `merge`.
(`split` is in VpscSplit.lean, the solver loops in VpscLoop.lean.)
-/
import AdaptaVerif.Lemmas.VpscGraph
import AdaptaVerif.Lemmas.VpscHistory
namespace AdaptaVerif.Lemmas.VpscInv
open AdaptaVerif.Model.Vpsc
open AdaptaVerif.Lemmas.VpscGraph AdaptaVerif.Lemmas.VpscModel AdaptaVerif.Lemmas.VpscHistory
open AdaptaVerif.Lemmas.VpscFlag (toC)
open AdaptaVerif.Spec.Vpsc (PosCycle)
open Relation

def blk (vars : Array Var) (x : Nat) : Nat := (vars[x]!).block
def offs (vars : Array Var) (x : Nat) : Rat := (vars[x]!).offset

/-- **block_inv**, on the components of the state it talks about -/
structure InvC (vars : Array Var) (cons : Array Con) (nblocks : Nat) (inactive : Array Nat) : Prop where
  /-- `Variable::out` / `Variable::in` hold exactly the constraints leaving / entering the variable -/
  outs_sound : ∀ u j : Nat, j ∈ (vars[u]!).outs → j < cons.size ∧ (cons[j]!).l = u
  outs_complete : ∀ j : Nat, j < cons.size → j ∈ (vars[(cons[j]!).l]!).outs
  ins_sound : ∀ u j : Nat, j ∈ (vars[u]!).ins → j < cons.size ∧ (cons[j]!).r = u
  ins_complete : ∀ j : Nat, j < cons.size → j ∈ (vars[(cons[j]!).r]!).ins
  /-- no constraint is listed twice -/
  outs_nodup : ∀ u : Nat, (vars[u]!).outs.toList.Nodup
  ins_nodup : ∀ u : Nat, (vars[u]!).ins.toList.Nodup
  /-- active constraints join two variables of one block and are tight in offsets -/
  tight : ∀ j : Nat, j < cons.size → (cons[j]!).active = true →
    blk vars (cons[j]!).l = blk vars (cons[j]!).r ∧
    offs vars (cons[j]!).r - (cons[j]!).gap - offs vars (cons[j]!).l = 0
  /-- the active constraints form a forest: each one is a bridge of the active graph -/
  bridge : ∀ j : Nat, j < cons.size → (cons[j]!).active = true →
    ¬ ReachAvoid cons j (cons[j]!).l (cons[j]!).r
  /-- … which spans every block: variables of one block are connected by active constraints -/
  conn : ∀ x y : Nat, x < vars.size → y < vars.size → blk vars x = blk vars y → Reach cons x y
  /-- block ids in use are allocated -/
  fresh : ∀ x : Nat, x < vars.size → blk vars x < nblocks
  /-- every constraint is active, flagged, or waiting in the `inactive` list -/
  cover : ∀ j : Nat, j < cons.size →
    (cons[j]!).active = true ∨ (cons[j]!).unsat = true ∨ j ∈ inactive
  inact_lt : ∀ j : Nat, j ∈ inactive → j < cons.size
  /-- inequality-only systems: a flag is justified by a positive-gap cycle -/
  flags : (∀ j : Nat, j < cons.size → (cons[j]!).eq = false) →
    ∀ j : Nat, j < cons.size → (cons[j]!).unsat = true → PosCycle (cons.toList.map toC)

def Inv (st : St) : Prop := InvC st.vars st.cons st.blocks.size st.inactive

/-- the invariant holds unless the model has already reported running out of fuel -/
def J (st : St) : Prop := st.fuelOut = true ∨ Inv st

theorem default_outs : (default : Var).outs = #[] := rfl
theorem default_ins : (default : Var).ins = #[] := rfl

theorem InvC.l_lt {vars cons n ia} (h : InvC vars cons n ia) (j : Nat) (hj : j < cons.size) :
    (cons[j]!).l < vars.size := by
  by_contra hlt
  have := h.outs_complete j hj
  rw [getElem!_neg vars _ hlt, default_outs] at this
  simp at this

theorem InvC.r_lt {vars cons n ia} (h : InvC vars cons n ia) (j : Nat) (hj : j < cons.size) :
    (cons[j]!).r < vars.size := by
  by_contra hlt
  have := h.ins_complete j hj
  rw [getElem!_neg vars _ hlt, default_ins] at this
  simp at this

/-- edges of the active graph stay inside blocks -/
theorem InvC.ae_blk {vars cons n ia} (h : InvC vars cons n ia) {j x y : Nat} (he : AE cons j x y) :
    blk vars x = blk vars y := by
  obtain ⟨hj, ha, hxy⟩ := he
  have := (h.tight j hj ha).1
  rcases hxy with ⟨rfl, rfl⟩ | ⟨rfl, rfl⟩
  · exact this
  · exact this.symm

theorem InvC.reach_blk {vars cons n ia} (h : InvC vars cons n ia) {P : Nat → Prop} {x y : Nat}
    (hr : ReflTransGen (Adj P cons) x y) : blk vars x = blk vars y :=
  reach_const (blk vars) (fun _ _ _ he => h.ae_blk he) hr

/-! ### array helpers -/

theorem get!_push_eq {α} [Inhabited α] (xs : Array α) (x : α) : (xs.push x)[xs.size]! = x := by
  have h : xs.size < (xs.push x).size := by simp
  rw [getElem!_pos (xs.push x) xs.size h]
  simp

theorem posCycle_mono {cs cs' : List AdaptaVerif.Check.Vpsc.C}
    (h : ∀ e ∈ AdaptaVerif.Check.Vpsc.edgesOf cs, e ∈ AdaptaVerif.Check.Vpsc.edgesOf cs')
    (hp : PosCycle cs) : PosCycle cs' := by
  obtain ⟨cyc, h1, h2, h3⟩ := hp
  exact ⟨cyc, fun e he => h e (h1 e he), h2, h3⟩

/-! ### AE under the two kinds of updates of the constraint array -/

theorem ae_push_inactive (cons : Array Con) (c0 : Con) (h0 : c0.active = false) (j x y : Nat) :
    AE (cons.push c0) j x y ↔ AE cons j x y := by
  unfold AE
  constructor
  · rintro ⟨hj, ha, hxy⟩
    by_cases hlt : j < cons.size
    · rw [get!_push_lt _ _ _ hlt] at ha hxy
      exact ⟨hlt, ha, hxy⟩
    · have : j = cons.size := by simp at hj; omega
      subst this
      rw [get!_push_eq] at ha
      rw [h0] at ha
      exact absurd ha (by simp)
  · rintro ⟨hj, ha, hxy⟩
    rw [get!_push_lt _ _ _ hj]
    exact ⟨by simp; omega, ha, hxy⟩

theorem rtg_push_inactive (cons : Array Con) (c0 : Con) (h0 : c0.active = false) (P : Nat → Prop)
    (x y : Nat) :
    ReflTransGen (Adj P (cons.push c0)) x y ↔ ReflTransGen (Adj P cons) x y :=
  ⟨reflTransGen_adj_mono (fun j a b hp h => ⟨hp, (ae_push_inactive cons c0 h0 j a b).1 h⟩),
   reflTransGen_adj_mono (fun j a b hp h => ⟨hp, (ae_push_inactive cons c0 h0 j a b).2 h⟩)⟩

/-! ### addConstraint -/

theorem linkCon_outs_iff (st : St) (ci : Nat) (c : Con) (u j : Nat) :
    j ∈ ((st.linkCon ci c).vars[u]!).outs ↔
      j ∈ (st.vars[u]!).outs ∨ (j = ci ∧ u = c.l ∧ c.l < st.vars.size) := by
  unfold St.linkCon
  simp only [get!_set!]
  split <;> split <;> simp_all [Array.mem_push] <;> (intro _ h1 h2; subst h1; simp_all <;> omega)

theorem linkCon_ins_iff (st : St) (ci : Nat) (c : Con) (u j : Nat) :
    j ∈ ((st.linkCon ci c).vars[u]!).ins ↔
      j ∈ (st.vars[u]!).ins ∨ (j = ci ∧ u = c.r ∧ c.r < st.vars.size) := by
  unfold St.linkCon
  simp only [get!_set!]
  split <;> split <;> simp_all [Array.mem_push] <;> (intro _ h1 h2; subst h1; simp_all <;> omega)

theorem linkCon_outs_list (st : St) (ci : Nat) (c : Con) (u : Nat) :
    ((st.linkCon ci c).vars[u]!).outs =
      if u = c.l ∧ c.l < st.vars.size then (st.vars[u]!).outs.push ci else (st.vars[u]!).outs := by
  unfold St.linkCon
  simp only [get!_set!]
  split <;> split <;> simp_all <;> (intro h1; first | exact absurd h1.symm (by assumption) | (subst h1; simp_all))

theorem linkCon_ins_list (st : St) (ci : Nat) (c : Con) (u : Nat) :
    ((st.linkCon ci c).vars[u]!).ins =
      if u = c.r ∧ c.r < st.vars.size then (st.vars[u]!).ins.push ci else (st.vars[u]!).ins := by
  unfold St.linkCon
  simp only [get!_set!]
  split <;> split <;> simp_all <;> (intro h1; first | exact absurd h1.symm (by assumption) | (subst h1; simp_all))

theorem addConstraint_outs_iff (st : St) (c : Con) (u j : Nat) :
    j ∈ (((st.addConstraint c).vars)[u]!).outs ↔
      j ∈ (st.vars[u]!).outs ∨ (j = st.cons.size ∧ u = c.l ∧ c.l < st.vars.size) :=
  linkCon_outs_iff _ _ _ _ _

theorem addConstraint_ins_iff (st : St) (c : Con) (u j : Nat) :
    j ∈ (((st.addConstraint c).vars)[u]!).ins ↔
      j ∈ (st.vars[u]!).ins ∨ (j = st.cons.size ∧ u = c.r ∧ c.r < st.vars.size) :=
  linkCon_ins_iff _ _ _ _ _

theorem addConstraint_blk (st : St) (c : Con) (x : Nat) :
    blk (st.addConstraint c).vars x = blk st.vars x := (addConstraint_var st c x).1

theorem addConstraint_offs (st : St) (c : Con) (x : Nat) :
    offs (st.addConstraint c).vars x = offs st.vars x := (addConstraint_var st c x).2

/-- `IncSolver::addConstraint` preserves the invariant (the constraint refers to existing variables
    and is not pre-flagged) -/
theorem addConstraint_inv (st : St) (c : Con) (hl : c.l < st.vars.size) (hr : c.r < st.vars.size)
    (hu : c.unsat = false) (h : Inv st) : Inv (st.addConstraint c) := by
  have hcons : (st.addConstraint c).cons = st.cons.push { c with active := false } := rfl
  have hblocks : (st.addConstraint c).blocks = st.blocks := rfl
  have hinact : (st.addConstraint c).inactive = st.inactive.push st.cons.size := rfl
  have hsize : (st.addConstraint c).vars.size = st.vars.size := addConstraint_size st c
  have hget : ∀ j : Nat, j < st.cons.size →
      ((st.cons.push { c with active := false })[j]!) = st.cons[j]! := fun j hj => get!_push_lt _ _ _ hj
  have hlast : ((st.cons.push { c with active := false })[st.cons.size]!) = { c with active := false } :=
    get!_push_eq _ _
  have hcases : ∀ j : Nat, j < (st.cons.push { c with active := false }).size →
      j < st.cons.size ∨ j = st.cons.size := by
    intro j hj; simp at hj; omega
  unfold Inv
  rw [hcons, hblocks, hinact]
  refine
    { outs_sound := ?_, outs_complete := ?_, ins_sound := ?_, ins_complete := ?_, tight := ?_,
      bridge := ?_, conn := ?_, fresh := ?_, cover := ?_, inact_lt := ?_, flags := ?_,
      outs_nodup := fun u => by
        have e : ((st.addConstraint c).vars[u]!).outs = _ := linkCon_outs_list _ _ _ u
        rw [e]
        split
        · rw [Array.toList_push, List.nodup_append]
          refine ⟨h.outs_nodup u, by simp, ?_⟩
          intro a ha b hb
          simp only [List.mem_singleton] at hb
          subst hb
          have := (h.outs_sound u a (by simpa using ha)).1
          exact Nat.ne_of_lt this
        · exact h.outs_nodup u,
      ins_nodup := fun u => by
        have e : ((st.addConstraint c).vars[u]!).ins = _ := linkCon_ins_list _ _ _ u
        rw [e]
        split
        · rw [Array.toList_push, List.nodup_append]
          refine ⟨h.ins_nodup u, by simp, ?_⟩
          intro a ha b hb
          simp only [List.mem_singleton] at hb
          subst hb
          have := (h.ins_sound u a (by simpa using ha)).1
          exact Nat.ne_of_lt this
        · exact h.ins_nodup u }
  · intro u j hj
    rcases (addConstraint_outs_iff st c u j).1 hj with hold | ⟨rfl, rfl, _⟩
    · obtain ⟨h1, h2⟩ := h.outs_sound u j hold
      exact ⟨by simp; omega, by rw [hget j h1]; exact h2⟩
    · exact ⟨by simp, by rw [hlast]⟩
  · intro j hj
    rcases hcases j hj with hlt | rfl
    · rw [hget j hlt]
      exact (addConstraint_outs_iff st c _ j).2 (Or.inl (h.outs_complete j hlt))
    · rw [hlast]
      exact (addConstraint_outs_iff st c _ _).2 (Or.inr ⟨rfl, rfl, hl⟩)
  · intro u j hj
    rcases (addConstraint_ins_iff st c u j).1 hj with hold | ⟨rfl, rfl, _⟩
    · obtain ⟨h1, h2⟩ := h.ins_sound u j hold
      exact ⟨by simp; omega, by rw [hget j h1]; exact h2⟩
    · exact ⟨by simp, by rw [hlast]⟩
  · intro j hj
    rcases hcases j hj with hlt | rfl
    · rw [hget j hlt]
      exact (addConstraint_ins_iff st c _ j).2 (Or.inl (h.ins_complete j hlt))
    · rw [hlast]
      exact (addConstraint_ins_iff st c _ _).2 (Or.inr ⟨rfl, rfl, hr⟩)
  · intro j hj ha
    rcases hcases j hj with hlt | rfl
    · rw [hget j hlt] at ha ⊢
      simp only [addConstraint_blk, addConstraint_offs]
      exact h.tight j hlt ha
    · rw [hlast] at ha
      simp at ha
  · intro j hj ha
    rcases hcases j hj with hlt | rfl
    · rw [hget j hlt] at ha ⊢
      rw [ReachAvoid, rtg_push_inactive _ _ rfl]
      exact h.bridge j hlt ha
    · rw [hlast] at ha
      simp at ha
  · intro x y hx hy hb
    rw [hsize] at hx hy
    simp only [addConstraint_blk] at hb
    rw [Reach, rtg_push_inactive _ _ rfl]
    exact h.conn x y hx hy hb
  · intro x hx
    rw [hsize] at hx
    rw [addConstraint_blk]
    exact h.fresh x hx
  · intro j hj
    rcases hcases j hj with hlt | rfl
    · rw [hget j hlt]
      rcases h.cover j hlt with h1 | h1 | h1
      · exact Or.inl h1
      · exact Or.inr (Or.inl h1)
      · exact Or.inr (Or.inr (Array.mem_push.2 (Or.inl h1)))
    · exact Or.inr (Or.inr (Array.mem_push.2 (Or.inr rfl)))
  · intro j hj
    rcases Array.mem_push.1 hj with h1 | rfl
    · have := h.inact_lt j h1
      simp; omega
    · simp
  · intro hineq j hj hun
    rcases hcases j hj with hlt | rfl
    · rw [hget j hlt] at hun
      have hold := h.flags (fun k hk => by
        have := hineq k (by simp; omega)
        rw [hget k hk] at this
        exact this) j hlt hun
      refine posCycle_mono ?_ hold
      intro e he
      simp only [Array.toList_push, List.map_append, AdaptaVerif.Check.Vpsc.edgesOf,
        List.flatMap_append, List.mem_append] at he ⊢
      exact Or.inl he
    · rw [hlast] at hun
      simp [hu] at hun

/-! ### frame: the invariant reads only size, block, offset, ins, outs of the variables -/

theorem InvC.congr_vars {vars vars' : Array Var} {cons : Array Con} {n : Nat} {ia : Array Nat}
    (hs : vars'.size = vars.size)
    (hv : ∀ u : Nat, (vars'[u]!).block = (vars[u]!).block ∧ (vars'[u]!).offset = (vars[u]!).offset ∧
      (vars'[u]!).ins = (vars[u]!).ins ∧ (vars'[u]!).outs = (vars[u]!).outs)
    (h : InvC vars cons n ia) : InvC vars' cons n ia := by
  have hb : ∀ x, blk vars' x = blk vars x := fun x => (hv x).1
  have ho : ∀ x, offs vars' x = offs vars x := fun x => (hv x).2.1
  refine
    { outs_sound := ?_, outs_complete := ?_, ins_sound := ?_, ins_complete := ?_, tight := ?_,
      bridge := h.bridge, conn := ?_, fresh := ?_, cover := h.cover, inact_lt := h.inact_lt,
      flags := h.flags,
      outs_nodup := fun u => by rw [(hv u).2.2.2]; exact h.outs_nodup u,
      ins_nodup := fun u => by rw [(hv u).2.2.1]; exact h.ins_nodup u }
  · intro u j hj; rw [(hv u).2.2.2] at hj; exact h.outs_sound u j hj
  · intro j hj; rw [(hv _).2.2.2]; exact h.outs_complete j hj
  · intro u j hj; rw [(hv u).2.2.1] at hj; exact h.ins_sound u j hj
  · intro j hj; rw [(hv _).2.2.1]; exact h.ins_complete j hj
  · intro j hj ha; simp only [hb, ho]; exact h.tight j hj ha
  · intro x y hx hy hxy; rw [hs] at hx hy; simp only [hb] at hxy; exact h.conn x y hx hy hxy
  · intro x hx; rw [hs] at hx; rw [hb]; exact h.fresh x hx

/-- changing a desired position preserves the invariant -/
theorem setDesired_inv (st : St) (i : Nat) (d : Rat) (h : Inv st) : Inv (st.setDesired i d) := by
  unfold Inv
  have h1 : (st.setDesired i d).cons = st.cons := rfl
  have h2 : (st.setDesired i d).blocks = st.blocks := rfl
  have h3 : (st.setDesired i d).inactive = st.inactive := rfl
  rw [h1, h2, h3]
  refine InvC.congr_vars (by simp [St.setDesired]) ?_ h
  intro u
  unfold St.setDesired
  simp only [get!_set!]
  split <;> simp_all

/-! ### the constructor -/

theorem mapIdx_get! {α β} [Inhabited β] (xs : Array α) (f : Nat → α → β) (u : Nat) (hu : u < xs.size) :
    (xs.mapIdx f)[u]! = f u xs[u] := by
  have hu' : u < (xs.mapIdx f).size := by simpa using hu
  rw [getElem!_pos _ u hu']
  simp

theorem foldl_addConstraint_inv : ∀ (cs : List Con) (st : St),
    (∀ c ∈ cs, c.l < st.vars.size ∧ c.r < st.vars.size ∧ c.unsat = false) → Inv st →
    Inv (cs.foldl (fun st c => st.addConstraint c) st) := by
  intro cs
  induction cs with
  | nil => intro st _ h; exact h
  | cons c cs ih =>
    intro st hv h
    have hc := hv c List.mem_cons_self
    refine ih _ ?_ (addConstraint_inv st c hc.1 hc.2.1 hc.2.2 h)
    intro c' hc'
    rw [addConstraint_size]
    exact hv c' (List.mem_cons_of_mem _ hc')

/-- the state built by `IncSolver(vs, cs)` satisfies the invariant, provided every constraint
    refers to existing variables and none is pre-flagged -/
theorem init_inv (vs : Array (Rat × Rat × Rat)) (cs : Array Con)
    (hv : ∀ c ∈ cs, c.l < vs.size ∧ c.r < vs.size ∧ c.unsat = false) : Inv (St.init vs cs) := by
  unfold St.init
  simp only
  rw [← Array.foldl_toList]
  apply foldl_addConstraint_inv
  · intro c hc
    simpa using hv c (by simpa using hc)
  · unfold Inv
    simp only
    have hvar : ∀ u : Nat, u < vs.size →
        (vs.mapIdx fun i (x : Rat × Rat × Rat) =>
          ({ desired := x.1, weight := x.2.1, scale := x.2.2, block := i } : Var))[u]! =
        ({ desired := vs[u]!.1, weight := vs[u]!.2.1, scale := vs[u]!.2.2, block := u } : Var) := by
      intro u hu
      rw [mapIdx_get! _ _ _ hu, getElem!_pos vs u hu]
    have houts : ∀ u : Nat,
        ((vs.mapIdx fun i (x : Rat × Rat × Rat) =>
          ({ desired := x.1, weight := x.2.1, scale := x.2.2, block := i } : Var))[u]!).outs = #[] ∧
        ((vs.mapIdx fun i (x : Rat × Rat × Rat) =>
          ({ desired := x.1, weight := x.2.1, scale := x.2.2, block := i } : Var))[u]!).ins = #[] := by
      intro u
      by_cases hu : u < vs.size
      · rw [hvar u hu]; exact ⟨rfl, rfl⟩
      · have hu' : ¬ u < (vs.mapIdx fun i (x : Rat × Rat × Rat) =>
          ({ desired := x.1, weight := x.2.1, scale := x.2.2, block := i } : Var)).size := by simpa using hu
        rw [getElem!_neg _ u hu']; exact ⟨rfl, rfl⟩
    refine
      { outs_sound := ?_, outs_complete := ?_, ins_sound := ?_, ins_complete := ?_, tight := ?_,
        bridge := ?_, conn := ?_, fresh := ?_, cover := ?_, inact_lt := ?_, flags := ?_,
        outs_nodup := fun u => by rw [(houts u).1]; simp,
        ins_nodup := fun u => by rw [(houts u).2]; simp }
    · intro u j hj; rw [(houts u).1] at hj; simp at hj
    · intro j hj; simp at hj
    · intro u j hj; rw [(houts u).2] at hj; simp at hj
    · intro j hj; simp at hj
    · intro j hj; simp at hj
    · intro j hj; simp at hj
    · intro x y hx hy hb
      have hx' : x < vs.size := by simpa using hx
      have hy' : y < vs.size := by simpa using hy
      unfold blk at hb
      rw [hvar x hx', hvar y hy'] at hb
      simp only at hb
      subst hb
      exact ReflTransGen.refl
    · intro x hx
      have hx' : x < vs.size := by simpa using hx
      unfold blk
      rw [hvar x hx']
      simpa using hx'
    · intro j hj; simp at hj
    · intro j hj; simp at hj
    · intro _ j hj; simp at hj

end AdaptaVerif.Lemmas.VpscInv
