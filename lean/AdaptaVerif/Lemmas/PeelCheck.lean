/-
C19 — soundness of the executable checkers of `Check/GraphParts.lean` (graph half) with respect
to the propositions of `Spec/UGraph.lean` and `Spec/GraphParts.lean`. Core Lean only.
-/
import AdaptaVerif.Spec.UGraph
import AdaptaVerif.Model.Peel
import AdaptaVerif.Spec.GraphParts
import AdaptaVerif.Check.GraphParts
import AdaptaVerif.Lemmas.PeelComps
import AdaptaVerif.Lemmas.PeelRank

namespace AdaptaVerif.Lemmas.PeelCheck
open AdaptaVerif.Spec.UGraph AdaptaVerif.Model.Peel AdaptaVerif.Spec.GraphParts
open AdaptaVerif.Check.GraphParts

/-! ### 1. nodupB -/

theorem nodupB_iff (l : List Nat) : nodupB l = true ↔ l.Nodup := by
  induction l with
  | nil => simp [nodupB]
  | cons x xs ih => simp [nodupB, ih]

/-! ### 2. connectedB -/

theorem connectedB_sound {ns : List Nat} {es : List (Nat × Nat)}
    (h : connectedB ns es = true) : Connected ns es := by
  cases ns with
  | nil => intro u hu; cases hu
  | cons u0 rest =>
    simp only [connectedB] at h
    split at h
    · rename_i vis hb
      have hc := PeelComps.bfs_component hb
      have hall : ∀ v, v ∈ u0 :: rest → Reach es u0 v := by
        intro v hv
        have hv' := List.all_eq_true.1 h v hv
        exact (hc v).1 (by simpa using hv')
      intro u hu v hv
      exact (hall u hu).symm.trans (hall v hv)
    · cases h

/-! ### 3. forest witness -/

theorem forestWitnessB_sound {w : List (Nat × Nat × Nat)} {es : List (Nat × Nat)}
    (h : forestWitnessB w es = true) : Acyclic es := by
  apply PeelRank.acyclic_of_depth es (parOf w) (depOf w)
  intro a b hab
  have := List.all_eq_true.1 h (a, b) hab
  simpa using this

theorem acyclicB_sound {root : Nat} {es : List (Nat × Nat)}
    (h : acyclicB root es = true) : Acyclic es :=
  forestWitnessB_sound h

/-! ### 4. isTree -/

theorem isTree_sound {ns : List Nat} {es : List (Nat × Nat)}
    (h : isTree ns es = true) : IsTree ns es := by
  cases ns with
  | nil => simp [isTree] at h
  | cons r rest =>
    simp only [isTree, Bool.and_eq_true] at h
    exact ⟨by simp, connectedB_sound h.1, acyclicB_sound h.2⟩

/-! ### 5. simpleB -/

theorem sameEdge_iff (e f : Nat × Nat) : sameEdge e f = true ↔ SameEdge e f := by
  obtain ⟨a, b⟩ := e
  obtain ⟨c, d⟩ := f
  simp [sameEdge, SameEdge]

theorem SameEdge.symm {e f : Nat × Nat} (h : SameEdge e f) : SameEdge f e := by
  obtain ⟨a, b⟩ := e
  obtain ⟨c, d⟩ := f
  simp only [SameEdge, Prod.mk.injEq] at *
  omega

theorem sameEdge_self (e : Nat × Nat) : sameEdge e e = true :=
  (sameEdge_iff e e).2 (Or.inl rfl)

theorem sameEdge_rev (u v : Nat) : sameEdge (u, v) (v, u) = true :=
  (sameEdge_iff _ _).2 (Or.inr rfl)

theorem hasEdge_iff (p : List (Nat × Nat)) (e : Nat × Nat) : hasEdge p e = true ↔ HasEdge p e := by
  simp only [hasEdge, List.any_eq_true, HasEdge, sameEdge_iff]

theorem edgesDistinctB_nodup : ∀ (es : List (Nat × Nat)), edgesDistinctB es = true → es.Nodup
  | [], _ => List.nodup_nil
  | e :: es, h => by
    simp only [edgesDistinctB, Bool.and_eq_true, Bool.not_eq_true', List.any_eq_false] at h
    refine List.nodup_cons.2 ⟨fun hm => ?_, edgesDistinctB_nodup es h.2⟩
    exact h.1 e hm (sameEdge_self e)

theorem edgesDistinctB_norev : ∀ (es : List (Nat × Nat)), edgesDistinctB es = true →
    ∀ u v, (u, v) ∈ es → (v, u) ∈ es → u = v
  | [], _, _, _, h1, _ => nomatch h1
  | e :: es, h, u, v, h1, h2 => by
    simp only [edgesDistinctB, Bool.and_eq_true, Bool.not_eq_true', List.any_eq_false] at h
    rcases List.mem_cons.1 h1 with e1 | m1
    · rcases List.mem_cons.1 h2 with e2 | m2
      · have := e1.trans e2.symm
        simp only [Prod.mk.injEq] at this
        exact this.1
      · exact absurd (e1 ▸ sameEdge_rev u v) (h.1 _ m2)
    · rcases List.mem_cons.1 h2 with e2 | m2
      · exact absurd (e2 ▸ sameEdge_rev v u) (h.1 _ m1)
      · exact edgesDistinctB_norev es h.2 u v m1 m2

theorem simpleB_sound {ns : List Nat} {es : List (Nat × Nat)}
    (h : simpleB ns es = true) : Simple ns es := by
  simp only [simpleB, Bool.and_eq_true] at h
  obtain ⟨⟨hn, ha⟩, hd⟩ := h
  have hends : ∀ e, e ∈ es → e.1 ∈ ns ∧ e.2 ∈ ns ∧ e.1 ≠ e.2 := by
    intro e he
    have := List.all_eq_true.1 ha e he
    simpa [and_assoc] using this
  refine ⟨(nodupB_iff ns).1 hn, hends, edgesDistinctB_nodup es hd, ?_⟩
  intro u v h1 h2
  exact (hends (u, v) h1).2.2 (edgesDistinctB_norev es hd u v h1 h2)

theorem edgesDistinctB_complete : ∀ (es : List (Nat × Nat)), es.Nodup →
    (∀ u v, (u, v) ∈ es → (v, u) ∉ es) → edgesDistinctB es = true
  | [], _, _ => rfl
  | e :: es, hnd, hrev => by
    simp only [edgesDistinctB, Bool.and_eq_true, Bool.not_eq_true', List.any_eq_false]
    have hnd' := List.nodup_cons.1 hnd
    refine ⟨fun f hf hs => ?_, edgesDistinctB_complete es hnd'.2 (fun u v h1 h2 =>
      hrev u v (List.mem_cons_of_mem _ h1) (List.mem_cons_of_mem _ h2))⟩
    rcases (sameEdge_iff e f).1 hs with h1 | h1
    · exact hnd'.1 (h1 ▸ hf)
    · refine hrev f.1 f.2 (List.mem_cons_of_mem _ hf) ?_
      rw [← h1]; exact List.mem_cons_self

theorem simpleB_complete {ns : List Nat} {es : List (Nat × Nat)}
    (h : Simple ns es) : simpleB ns es = true := by
  obtain ⟨hn, he, hd, hr⟩ := h
  simp only [simpleB, Bool.and_eq_true]
  refine ⟨⟨(nodupB_iff ns).2 hn, ?_⟩, edgesDistinctB_complete es hd hr⟩
  refine List.all_eq_true.2 (fun e hm => ?_)
  have := he e hm
  simpa [and_assoc] using this

/-! ### 6. counting to `ExactlyOne` -/

theorem ExactlyOne.congr {α : Type} {l : List α} {P Q : α → Prop}
    (h : ∀ a, a ∈ l → (P a ↔ Q a)) (e : ExactlyOne l P) : ExactlyOne l Q := by
  obtain ⟨l1, a, l2, rfl, ha, h1, h2⟩ := e
  refine ⟨l1, a, l2, rfl, (h a (by simp)).1 ha, ?_, ?_⟩
  · intro b hb hq; exact h1 b hb ((h b (by simp [hb])).2 hq)
  · intro b hb hq; exact h2 b hb ((h b (by simp [hb])).2 hq)

theorem exactlyOne_cons_neg {α : Type} {a : α} {l : List α} {P : α → Prop} (ha : ¬ P a)
    (e : ExactlyOne l P) : ExactlyOne (a :: l) P := by
  obtain ⟨l1, b, l2, rfl, hb, h1, h2⟩ := e
  refine ⟨a :: l1, b, l2, rfl, hb, ?_, h2⟩
  intro c hc
  rcases List.mem_cons.1 hc with rfl | hc
  · exact ha
  · exact h1 c hc

theorem exactlyOne_cons_pos {α : Type} {a : α} {l : List α} {P : α → Prop} (ha : P a)
    (hl : ∀ b, b ∈ l → ¬ P b) : ExactlyOne (a :: l) P :=
  ⟨[], a, l, rfl, ha, (fun _ hb => nomatch hb), hl⟩

theorem exactlyOne_of_filter_length {α : Type} (l : List α) (p : α → Bool)
    (h : (l.filter p).length = 1) : ExactlyOne l (fun a => p a = true) := by
  induction l with
  | nil => simp at h
  | cons a l ih =>
    by_cases hp : p a = true
    · rw [List.filter_cons_of_pos hp] at h
      have h0 : l.filter p = [] := by
        apply List.eq_nil_of_length_eq_zero
        simpa using h
      refine exactlyOne_cons_pos hp (fun b hb hpb => ?_)
      have : b ∈ l.filter p := List.mem_filter.2 ⟨hb, hpb⟩
      rw [h0] at this
      cases this
    · rw [List.filter_cons_of_neg hp] at h
      exact exactlyOne_cons_neg hp (ih h)

theorem filter_length_of_exactlyOne {α : Type} (l : List α) (p : α → Bool)
    (e : ExactlyOne l (fun a => p a = true)) : (l.filter p).length = 1 := by
  obtain ⟨l1, a, l2, rfl, ha, h1, h2⟩ := e
  have e1 : l1.filter p = [] := List.filter_eq_nil_iff.2 h1
  have e2 : l2.filter p = [] := List.filter_eq_nil_iff.2 h2
  rw [List.filter_append, List.filter_cons_of_pos ha, e1, e2]
  rfl

theorem sum_zero_mem : ∀ (l : List Nat), l.sum = 0 → ∀ x, x ∈ l → x = 0
  | [], _, _, hx => nomatch hx
  | y :: l, h, x, hx => by
    simp only [List.sum_cons] at h
    rcases List.mem_cons.1 hx with rfl | hx
    · omega
    · exact sum_zero_mem l (by omega) x hx

/-- a list of naturals summing to 1 has exactly one non-zero position -/
theorem exactlyOne_of_sum {α : Type} (l : List α) (g : α → Nat) (h : (l.map g).sum = 1) :
    ExactlyOne l (fun a => g a ≠ 0) := by
  induction l with
  | nil => simp at h
  | cons a l ih =>
    simp only [List.map_cons, List.sum_cons] at h
    by_cases ha : g a = 0
    · rw [ha, Nat.zero_add] at h
      exact exactlyOne_cons_neg (fun hh => hh ha) (ih h)
    · have hs : (l.map g).sum = 0 := by omega
      refine exactlyOne_cons_pos ha (fun b hb hgb => hgb ?_)
      exact sum_zero_mem _ hs (g b) (List.mem_map.2 ⟨b, hb, rfl⟩)

theorem filter_sameEdge_ne_zero (p : List (Nat × Nat)) (e : Nat × Nat) :
    (p.filter (sameEdge e)).length ≠ 0 ↔ HasEdge p e := by
  rw [Ne, List.length_eq_zero_iff, List.filter_eq_nil_iff]
  constructor
  · intro h
    apply Classical.byContradiction
    intro hn
    exact h (fun f hf hs => hn ⟨f, hf, (sameEdge_iff e f).1 hs⟩)
  · rintro ⟨f, hf, hs⟩ h
    exact h f hf ((sameEdge_iff e f).2 hs)

theorem exactlyOne_of_edgeCount (parts : List (List (Nat × Nat))) (e : Nat × Nat)
    (h : edgeCount parts e = 1) : ExactlyOne parts (fun p => HasEdge p e) :=
  ExactlyOne.congr (fun p _ => filter_sameEdge_ne_zero p e) (exactlyOne_of_sum parts _ h)

theorem exactlyOne_of_partsWith {α : Type} (l : List α) (f : α → List Nat) (v : Nat)
    (h : partsWith (l.map f) v = 1) : ExactlyOne l (fun a => v ∈ f a) := by
  unfold partsWith at h
  rw [List.filter_map, List.length_map] at h
  refine ExactlyOne.congr (fun a _ => ?_) (exactlyOne_of_filter_length l _ h)
  simp

theorem partsWith_zero {α : Type} (l : List α) (f : α → List Nat) (v : Nat)
    (h : partsWith (l.map f) v = 0) : ∀ a, a ∈ l → v ∉ f a := by
  unfold partsWith at h
  rw [List.filter_map, List.length_map, List.length_eq_zero_iff, List.filter_eq_nil_iff] at h
  intro a ha hv
  exact h a ha (by simpa using hv)

theorem edgesWithin_iff (ns : List Nat) (es : List (Nat × Nat)) :
    edgesWithin ns es = true ↔ ∀ f, f ∈ es → f.1 ∈ ns ∧ f.2 ∈ ns := by
  simp [edgesWithin]

/-! ### 7. componentsOk -/

theorem componentsOk_sound {ns : List Nat} {es : List (Nat × Nat)} {cs : List Comp}
    (h : componentsOk ns es cs = true) : CompsSpec ns es cs := by
  simp only [componentsOk, Bool.and_eq_true] at h
  obtain ⟨⟨⟨⟨⟨h1, h2⟩, h3⟩, h4⟩, h5⟩, h6⟩ := h
  have h1' := List.all_eq_true.1 h1
  have h2' := List.all_eq_true.1 h2
  have h3' := List.all_eq_true.1 h3
  have h4' := List.all_eq_true.1 h4
  have h5' := List.all_eq_true.1 h5
  have h6' := List.all_eq_true.1 h6
  refine ⟨?_, ?_, ?_, ?_, ?_, ?_⟩
  · intro v hv
    exact exactlyOne_of_partsWith cs (·.nodes) v (by simpa using h1' v hv)
  · intro c hc
    have := h2' c hc
    simp only [Bool.and_eq_true, Bool.not_eq_true', List.all_eq_true] at this
    refine ⟨fun hn => ?_, fun v hv => by simpa using this.2 v hv⟩
    rw [hn] at this
    simp at this
  · intro e he
    have hc : edgeCount (cs.map (·.edges)) e = 1 := by simpa using h3' e he
    unfold edgeCount at hc
    rw [List.map_map] at hc
    exact ExactlyOne.congr (fun c _ => filter_sameEdge_ne_zero c.edges e) (exactlyOne_of_sum cs _ hc)
  · intro c hc f hf
    have := h4' c hc
    simp only [Bool.and_eq_true, List.all_eq_true] at this
    exact ⟨(hasEdge_iff es f).1 (this.1 f hf), (edgesWithin_iff _ _).1 this.2 f hf⟩
  · intro c hc
    exact connectedB_sound (h5' c hc)
  · intro c hc a ha b hab
    rcases hab with hab | hab
    · have := List.all_eq_true.1 (h6' _ hab) c hc
      simp only [beq_iff_eq] at this
      have h' : c.nodes.contains b = true := by rw [← this]; simpa using ha
      simpa using h'
    · have := List.all_eq_true.1 (h6' _ hab) c hc
      simp only [beq_iff_eq] at this
      have h' : c.nodes.contains b = true := by rw [this]; simpa using ha
      simpa using h'

/-! ### 8. peelOk -/

theorem peelOk_sound {ns : List Nat} {es : List (Nat × Nat)} {trees : List TreeOut}
    {coreN : List Nat} {coreE : List (Nat × Nat)}
    (h : peelOk ns es trees coreN coreE = true) : PeelSpec ns es trees coreN coreE := by
  simp only [peelOk, Bool.and_eq_true] at h
  obtain ⟨⟨⟨⟨⟨⟨⟨⟨⟨⟨h1, _h2⟩, h3⟩, h4⟩, h5⟩, h6⟩, h7⟩, h8⟩, h9⟩, h10⟩, h11⟩ := h
  have h1' := List.all_eq_true.1 h1
  have h3' := List.all_eq_true.1 h3
  have h4' := List.all_eq_true.1 h4
  have h5' := List.all_eq_true.1 h5
  have h6' := List.all_eq_true.1 h6
  have h7' := List.all_eq_true.1 h7
  have h9' := List.all_eq_true.1 h9
  have h10' := List.all_eq_true.1 h10
  have h11' := List.all_eq_true.1 h11
  refine ⟨?_, ?_, ?_, ?_, ?_, ?_, ?_, ?_, ?_, ?_, ?_⟩
  · -- node_cover
    intro v hv
    have := h1' v hv
    simp only [Bool.and_eq_true, Bool.or_eq_true, decide_eq_true_eq, beq_iff_eq] at this
    rcases this.2 with hc | hc
    · exact Or.inl (by simpa using hc)
    · exact Or.inr (exactlyOne_of_partsWith trees (·.nodes) v hc)
  · -- node_atmost
    intro v hv
    have := h1' v hv
    simp only [Bool.and_eq_true, Bool.or_eq_true, decide_eq_true_eq, beq_iff_eq] at this
    have hle := this.1
    by_cases h0 : partsWith (trees.map (·.nodes)) v = 0
    · exact Or.inl (partsWith_zero trees (·.nodes) v h0)
    · exact Or.inr (exactlyOne_of_partsWith trees (·.nodes) v (by omega))
  · -- core_sub
    intro v hv
    simpa using h3' v hv
  · -- tree_sub
    intro t ht v hv
    have := h4' t ht
    simp only [Bool.and_eq_true, List.all_eq_true] at this
    simpa using this.2 v hv
  · -- root_mem
    intro t ht
    have := h5' t ht
    simp only [Bool.and_eq_true] at this
    simpa using this.1
  · -- shared
    intro hne t ht v hv
    have := h5' t ht
    simp only [Bool.and_eq_true, Bool.or_eq_true, List.all_eq_true] at this
    rcases this.2 with he | hall
    · exact absurd (by simpa using he) hne
    · have := hall v hv
      simp only [beq_iff_eq] at this
      constructor
      · intro hc
        have h' : (v == t.root) = true := by rw [← this]; simpa using hc
        simpa using h'
      · intro hr
        have h' : coreN.contains v = true := by rw [this]; simpa using hr
        simpa using h'
  · -- edge_once
    intro e he
    exact exactlyOne_of_edgeCount _ e (by simpa using h6' e he)
  · -- core_edges_sub
    intro f hf
    have := List.all_eq_true.1 (h7' coreE (by simp)) f hf
    exact ⟨(hasEdge_iff es f).1 this, (edgesWithin_iff _ _).1 h8 f hf⟩
  · -- tree_edges_sub
    intro t ht f hf
    have := List.all_eq_true.1 (h7' t.edges (List.mem_cons_of_mem _ (List.mem_map.2 ⟨t, ht, rfl⟩))) f hf
    exact ⟨(hasEdge_iff es f).1 this, (edgesWithin_iff _ _).1 (h9' t ht) f hf⟩
  · -- trees_ok
    intro t ht
    exact isTree_sound (h10' t ht)
  · -- core_deg
    intro v hv
    have hd : degree coreE v ≠ 1 := by simpa using h11' v hv
    exact hd

/-! ### 9. completeness of the tree checker -/

theorem contains_map_fst (vis : List (Nat × Nat × Nat)) (v : Nat) :
    (vis.map (·.1)).contains v = vis.any (fun t => t.1 == v) := by
  induction vis with
  | nil => rfl
  | cons t vis ih =>
    simp only [List.map_cons, List.contains_cons, List.any_cons, ih]
    rw [BEq.comm]

/-- the node projection of `bfsP` is the model's `bfs` -/
theorem bfsP_proj {es : List (Nat × Nat)} :
    ∀ (f : Nat) (q vis : List (Nat × Nat × Nat)) (out : List Nat),
      bfs es f (q.map (·.1)) (vis.map (·.1)) = some out →
      (bfsP es f q vis).map (·.1) = out := by
  intro f
  induction f with
  | zero =>
    intro q vis out h
    cases q with
    | nil =>
      simp only [List.map_nil, bfs, Option.some.injEq] at h
      simpa only [bfsP] using h
    | cons t q => simp [bfs] at h
  | succ f ih =>
    intro q vis out h
    cases q with
    | nil =>
      simp only [List.map_nil, bfs, Option.some.injEq] at h
      simpa only [bfsP] using h
    | cons t q =>
      obtain ⟨v, p, d⟩ := t
      simp only [List.map_cons, bfs, contains_map_fst] at h
      simp only [bfsP]
      by_cases hc : vis.any (fun t => t.1 == v) = true
      · rw [if_pos hc] at h ⊢
        exact ih q vis out h
      · rw [if_neg hc] at h ⊢
        apply ih
        simpa only [List.map_append, List.map_map, List.map_cons, Function.comp_def,
          List.map_id'] using h

/-- a BFS record is justified: the root record, or its parent is recorded one level up and
    adjacent -/
def Just (es : List (Nat × Nat)) (r : Nat) (vis : List (Nat × Nat × Nat))
    (t : Nat × Nat × Nat) : Prop :=
  t = (r, r, 0) ∨ ∃ pp d', (t.2.1, pp, d') ∈ vis ∧ t.2.2 = d' + 1 ∧ Adj es t.2.1 t.1

theorem Just.mono {es : List (Nat × Nat)} {r : Nat} {vis vis' : List (Nat × Nat × Nat)}
    {t : Nat × Nat × Nat} (hsub : ∀ s, s ∈ vis → s ∈ vis') (h : Just es r vis t) :
    Just es r vis' t := by
  rcases h with h | ⟨pp, d', hm, hd, ha⟩
  · exact Or.inl h
  · exact Or.inr ⟨pp, d', hsub _ hm, hd, ha⟩

/-- well-formed visited list: distinct keys, every record justified by older records -/
def WF (es : List (Nat × Nat)) (r : Nat) : List (Nat × Nat × Nat) → Prop
  | [] => True
  | t :: vis => vis.any (fun s => s.1 == t.1) = false ∧ Just es r vis t ∧ WF es r vis

theorem bfsP_wf {es : List (Nat × Nat)} {r : Nat} :
    ∀ (f : Nat) (q vis : List (Nat × Nat × Nat)), WF es r vis →
      (∀ t, t ∈ q → Just es r vis t) → WF es r (bfsP es f q vis) := by
  intro f
  induction f with
  | zero => intro q vis hw _; simpa only [bfsP] using hw
  | succ f ih =>
    intro q vis hw hq
    cases q with
    | nil => simpa only [bfsP] using hw
    | cons t q =>
      obtain ⟨v, p, d⟩ := t
      simp only [bfsP]
      by_cases hc : vis.any (fun t => t.1 == v) = true
      · rw [if_pos hc]
        exact ih q vis hw (fun t ht => hq t (List.mem_cons_of_mem _ ht))
      · rw [if_neg hc]
        refine ih _ _ ⟨Bool.eq_false_iff.2 hc, hq _ List.mem_cons_self, hw⟩ ?_
        intro t ht
        rcases List.mem_append.1 ht with ht | ht
        · exact (hq t (List.mem_cons_of_mem _ ht)).mono (fun s hs => List.mem_cons_of_mem _ hs)
        · obtain ⟨x, hx, rfl⟩ := List.mem_map.1 ht
          exact Or.inr ⟨p, d, List.mem_cons_self, rfl, PeelComps.mem_nbrs.1 hx⟩

theorem wf_just {es : List (Nat × Nat)} {r : Nat} :
    ∀ (w : List (Nat × Nat × Nat)), WF es r w → ∀ t, t ∈ w → Just es r w t
  | [], _, _, ht => nomatch ht
  | s :: vis, hw, t, ht => by
    rcases List.mem_cons.1 ht with rfl | ht
    · exact hw.2.1.mono (fun s hs => List.mem_cons_of_mem _ hs)
    · exact (wf_just vis hw.2.2 t ht).mono (fun s hs => List.mem_cons_of_mem _ hs)

theorem wf_find {es : List (Nat × Nat)} {r : Nat} :
    ∀ (w : List (Nat × Nat × Nat)), WF es r w → ∀ t, t ∈ w →
      w.find? (fun s => s.1 == t.1) = some t
  | [], _, _, ht => nomatch ht
  | s :: vis, hw, t, ht => by
    rcases List.mem_cons.1 ht with rfl | ht
    · simp
    · have hne : (s.1 == t.1) = false := by
        have := List.any_eq_false.1 hw.1 t ht
        rw [BEq.comm]
        simpa using this
      rw [List.find?_cons, hne]
      exact wf_find vis hw.2.2 t ht

theorem wf_parOf {es : List (Nat × Nat)} {r : Nat} {w : List (Nat × Nat × Nat)}
    (hw : WF es r w) {t : Nat × Nat × Nat} (ht : t ∈ w) : parOf w t.1 = t.2.1 := by
  simp only [parOf, wf_find w hw t ht]

theorem wf_depOf {es : List (Nat × Nat)} {r : Nat} {w : List (Nat × Nat × Nat)}
    (hw : WF es r w) {t : Nat × Nat × Nat} (ht : t ∈ w) : depOf w t.1 = t.2.2 := by
  simp only [depOf, wf_find w hw t ht]

theorem wf_unique {es : List (Nat × Nat)} {r : Nat} {w : List (Nat × Nat × Nat)}
    (hw : WF es r w) {s t : Nat × Nat × Nat} (hs : s ∈ w) (ht : t ∈ w) (h : s.1 = t.1) :
    s = t := by
  have h1 := wf_find w hw s hs
  have h2 := wf_find w hw t ht
  rw [h] at h1
  exact Option.some.inj (h1.symm.trans h2)

/-- if every recorded parent link is an `es'`-adjacency, every recorded node is `es'`-reachable
    from the root -/
theorem wf_reach {es es' : List (Nat × Nat)} {r : Nat} :
    ∀ (w : List (Nat × Nat × Nat)), WF es r w →
      (∀ t, t ∈ w → t = (r, r, 0) ∨ Adj es' t.2.1 t.1) → ∀ t, t ∈ w → Reach es' r t.1
  | [], _, _, _, ht => nomatch ht
  | s :: vis, hw, hadj, t, ht => by
    have ih := wf_reach vis hw.2.2 (fun t ht => hadj t (List.mem_cons_of_mem _ ht))
    rcases List.mem_cons.1 ht with rfl | ht
    · rcases hadj t List.mem_cons_self with h | h
      · rw [h]; exact Reach.refl _
      · rcases hw.2.1 with h' | ⟨pp, d', hm, _, _⟩
        · rw [h']; exact Reach.refl _
        · exact (ih _ hm).tail h
    · exact ih t ht

/-- in an acyclic graph the two ends of an edge are not joined once the edge is removed -/
theorem not_reach_without_edge {es : List (Nat × Nat)} (hac : Acyclic es) {a b : Nat}
    (hab : (a, b) ∈ es) (hne : a ≠ b) :
    ¬ Reach (es.filter (fun e => !sameEdge e (a, b))) a b := by
  intro hr
  obtain ⟨P, hnd, hhead, hlast, hadj⟩ := PeelRank.reach_simple_path hr
  have e1 := PeelRank.head?_getD hhead
  have e2 := PeelRank.getLast?_getD hlast
  have hsub : ∀ e, e ∈ es.filter (fun e => !sameEdge e (a, b)) → e ∈ es :=
    fun e he => (List.mem_filter.1 he).1
  have hlen0 : P.length ≠ 0 := by
    intro h0
    rw [List.length_eq_zero_iff.1 h0] at hhead
    cases hhead
  have hlen1 : P.length ≠ 1 := by
    intro h1
    rw [h1] at e2
    exact hne (e1.symm.trans e2)
  have hlen2 : P.length ≠ 2 := by
    intro h2
    have hA := hadj 0 (by omega)
    rw [h2] at e2
    rw [e1] at hA
    rw [show (0 + 1 = 2 - 1) from rfl, e2] at hA
    rcases hA with hA | hA
    · have := (List.mem_filter.1 hA).2
      simp [sameEdge] at this
    · have := (List.mem_filter.1 hA).2
      simp [sameEdge] at this
  refine hac P ⟨by omega, hnd, fun i hi => ?_⟩
  by_cases hi' : i + 1 < P.length
  · rw [Nat.mod_eq_of_lt hi']
    exact (hadj i hi').mono hsub
  · have hi2 : i = P.length - 1 := by omega
    have hm : (i + 1) % P.length = 0 := by
      have : i + 1 = P.length := by omega
      rw [this, Nat.mod_self]
    rw [hm, e1, hi2, e2]
    exact Or.inr hab

theorem adj_filter_of_ne {es : List (Nat × Nat)} {a b p v : Nat} (h : Adj es p v)
    (h1 : ¬ (p = a ∧ v = b)) (h2 : ¬ (p = b ∧ v = a)) :
    Adj (es.filter (fun e => !sameEdge e (a, b))) p v := by
  rcases h with h | h
  · refine Or.inl (List.mem_filter.2 ⟨h, ?_⟩)
    have : ¬ SameEdge (p, v) (a, b) := by
      simp only [SameEdge, Prod.mk.injEq]; omega
    simpa [← sameEdge_iff] using this
  · refine Or.inr (List.mem_filter.2 ⟨h, ?_⟩)
    have : ¬ SameEdge (v, p) (a, b) := by
      simp only [SameEdge, Prod.mk.injEq]; omega
    simpa [← sameEdge_iff] using this

theorem bfs_from_root {es : List (Nat × Nat)} (r : Nat) :
    ∃ out, bfs es (bfsFuel es) [r] [] = some out ∧ ∀ x, x ∈ out ↔ Reach es r x := by
  obtain ⟨out, ho⟩ := PeelComps.bfs_total (es := es) (bfsFuel es) [r] [] (by
    have := PeelComps.pot_nil es
    simp only [List.length_cons, List.length_nil, bfsFuel]
    omega)
  refine ⟨out, ho, ?_⟩
  have hf : bfsFuel es = (2 * es.length + 1) + 1 := rfl
  rw [hf] at ho
  simp only [bfs, List.contains_nil, Bool.false_eq_true, if_false, List.nil_append] at ho
  exact PeelComps.bfs_component ho

/-- the BFS witness certifies every edge of a connected simple acyclic graph -/
theorem acyclicB_complete {ns : List Nat} {es : List (Nat × Nat)} {r : Nat} (hr : r ∈ ns)
    (hs : Simple ns es) (hc : Connected ns es) (hac : Acyclic es) : acyclicB r es = true := by
  obtain ⟨out, ho, hout⟩ := bfs_from_root (es := es) r
  have hproj := bfsP_proj (es := es) (bfsFuel es) [(r, r, 0)] [] out ho
  have hw : WF es r (bfsP es (bfsFuel es) [(r, r, 0)] []) := by
    refine bfsP_wf _ _ _ True.intro ?_
    intro t ht
    exact Or.inl (List.mem_singleton.1 ht)
  simp only [acyclicB, forestWitnessB]
  generalize bfsP es (bfsFuel es) [(r, r, 0)] [] = w at hproj hw
  have hent : ∀ x, x ∈ ns → ∃ t, t ∈ w ∧ t.1 = x := by
    intro x hx
    have : x ∈ w.map (·.1) := by rw [hproj]; exact (hout x).2 (hc r hr x hx)
    obtain ⟨t, ht, rfl⟩ := List.mem_map.1 this
    exact ⟨t, ht, rfl⟩
  refine List.all_eq_true.2 (fun e he => ?_)
  obtain ⟨a, b⟩ := e
  obtain ⟨ha, hb, hne⟩ := hs.2.1 _ he
  obtain ⟨ta, hta, rfl⟩ := hent _ ha
  obtain ⟨tb, htb, rfl⟩ := hent _ hb
  simp only [Bool.or_eq_true, Bool.and_eq_true, beq_iff_eq]
  rw [wf_parOf hw hta, wf_parOf hw htb, wf_depOf hw hta, wf_depOf hw htb]
  by_cases h1 : ta.2.1 = tb.1
  · left
    refine ⟨h1, ?_⟩
    rcases wf_just w hw ta hta with h | ⟨pp, d', hm, hd, _⟩
    · rw [h] at h1 hne
      exact absurd h1 hne
    · have := wf_unique hw hm htb h1
      rw [← this]
      exact hd
  · by_cases h2 : tb.2.1 = ta.1
    · right
      refine ⟨h2, ?_⟩
      rcases wf_just w hw tb htb with h | ⟨pp, d', hm, hd, _⟩
      · rw [h] at h2 hne
        exact absurd h2.symm hne
      · have := wf_unique hw hm hta h2
        rw [← this]
        exact hd
    · exfalso
      have hall : ∀ t, t ∈ w → t = (r, r, 0) ∨
          Adj (es.filter (fun e => !sameEdge e (ta.1, tb.1))) t.2.1 t.1 := by
        intro t ht
        rcases wf_just w hw t ht with h | ⟨pp, d', _, _, hadj⟩
        · exact Or.inl h
        · refine Or.inr (adj_filter_of_ne hadj ?_ ?_)
          · rintro ⟨e1, e2⟩
            have := wf_unique hw ht htb e2
            rw [this] at e1
            exact h2 e1
          · rintro ⟨e1, e2⟩
            have := wf_unique hw ht hta e2
            rw [this] at e1
            exact h1 e1
      have ra := wf_reach w hw hall ta hta
      have rb := wf_reach w hw hall tb htb
      exact not_reach_without_edge hac he hne (ra.symm.trans rb)

theorem connectedB_complete {ns : List Nat} {es : List (Nat × Nat)}
    (hc : Connected ns es) : connectedB ns es = true := by
  cases ns with
  | nil => rfl
  | cons u0 rest =>
    obtain ⟨vis, hb⟩ := PeelComps.bfs_start_total es u0
    have hcomp := PeelComps.bfs_component hb
    simp only [connectedB, hb]
    refine List.all_eq_true.2 (fun v hv => ?_)
    have := (hcomp v).2 (hc u0 List.mem_cons_self v hv)
    simpa using this

theorem isTree_complete {ns : List Nat} {es : List (Nat × Nat)}
    (hs : Simple ns es) (ht : IsTree ns es) : isTree ns es = true := by
  obtain ⟨hne, hconn, hac⟩ := ht
  cases ns with
  | nil => exact absurd rfl hne
  | cons r rest =>
    simp only [isTree, Bool.and_eq_true]
    exact ⟨connectedB_complete hconn, acyclicB_complete List.mem_cons_self hs hconn hac⟩

end AdaptaVerif.Lemmas.PeelCheck
