/-
C12: the two formulations of the junction-bookkeeping invariant (Lemmas/HyperTreeJunctions, pointwise;
Lemmas/HyperTreeMove, through `junctionsOf`/`JPairs`) coincide on well-formed heaps.
-/
import AdaptaVerif.Lemmas.HyperTreeJunctions
import AdaptaVerif.Lemmas.HyperTreeMove
namespace AdaptaVerif.Lemmas.HyperTreeJBridge
open AdaptaVerif.Model.HyperTree AdaptaVerif.Lemmas.HyperTree
open AdaptaVerif.Lemmas.HyperTreeJunctions
open AdaptaVerif.Lemmas.HyperTreeMove (JPairs JInv' JFresh NewJFresh mem_junctionsOf)

theorem carried_iff {t : HTree} {j : Nat} : Carried t j ↔ ∃ i, JPairs t j i := by
  constructor
  · rintro ⟨n, hn, hj⟩; exact ⟨n.id, n, hn, rfl, hj⟩
  · rintro ⟨_, n, hn, _, hj⟩; exact ⟨n, hn, hj⟩

theorem jinv_iff' {s : Imp} : JInv s ↔ JInv' s := by
  constructor
  · intro h
    refine ⟨?_, ?_, ?_, ?_⟩
    · rintro j i i' ⟨n, hn, rfl, hj⟩ ⟨m, hm, rfl, hj'⟩
      exact h.uniq n hn m hm j hj hj'
    · intro p hp
      obtain ⟨n, hn, hid, hj⟩ := h.mapSound p hp
      exact ⟨n, hn, hid, hj⟩
    · rintro j i ⟨n, hn, rfl, hj⟩
      exact h.mapComplete n hn j hj
    · intro j hj i hc
      exact h.deleted j hj (carried_iff.mpr ⟨i, hc⟩)
  · intro h
    refine ⟨?_, ?_, ?_, ?_⟩
    · intro n hn m hm j hj hj'
      exact h.inj j n.id m.id ⟨n, hn, rfl, hj⟩ ⟨m, hm, rfl, hj'⟩
    · intro p hp
      obtain ⟨n, hn, hid, hj⟩ := h.live p hp
      exact ⟨n, hn, hid, hj⟩
    · intro n hn j hj
      exact h.reg j n.id ⟨n, hn, rfl, hj⟩
    · intro j hj hc
      obtain ⟨i, hi⟩ := carried_iff.mp hc
      exact h.del j hj i hi

/-- on a well-formed heap: the pointwise invariant = the `junctionsOf` formulation -/
theorem jinv_iff {s : Imp} (hw : WF s.t) : JInv s ↔ AdaptaVerif.Lemmas.HyperTreeMove.JInv s :=
  jinv_iff'.trans (AdaptaVerif.Lemmas.HyperTreeMove.JInv_iff hw.nodupN).symm

end AdaptaVerif.Lemmas.HyperTreeJBridge
