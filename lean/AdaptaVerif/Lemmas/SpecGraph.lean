/-
Every edge of the explicit spec visibility graph built by `Check.Potential.specGraph` joins two of the
given points whose segment is spec-unblocked, and carries a certified enclosure of their distance.
-/
import AdaptaVerif.Lemmas.Route
import AdaptaVerif.Lemmas.Sqrt
import AdaptaVerif.Check.Potential
namespace AdaptaVerif.Lemmas.SpecGraph
open AdaptaVerif.Model.Geometry (Pt)
open AdaptaVerif.Check.Route AdaptaVerif.Check.Potential AdaptaVerif.Spec.Route AdaptaVerif.Num
open AdaptaVerif.Lemmas.Route AdaptaVerif.Lemmas.Sqrt

/-- what an edge of the spec graph guarantees about the segment p–q it stands for -/
def EdgeOk (shapes : List Poly) (excl : List Nat) (k : Nat) (e : WEdge) (p q : Pt) : Prop :=
  Unblocked shapes excl p q ∧ e.wlo = sqrtLo (sqDist p q) k ∧ e.whi = sqrtHi (sqDist p q) k

theorem edgesFrom_sound (shapes : List Poly) (excl : List Nat) (k i : Nat) (p : Pt) :
    ∀ (qs : List Pt) (j : Nat) (e : WEdge), e ∈ edgesFrom shapes excl k i p qs j →
      e.u = i ∧ ∃ q ∈ qs, EdgeOk shapes excl k e p q := by
  intro qs
  induction qs with
  | nil => intro j e h; simp [edgesFrom] at h
  | cons q qs ih =>
    intro j e h
    unfold edgesFrom at h
    simp only at h
    split at h
    · rename_i hc
      rcases List.mem_cons.mp h with rfl | h'
      · refine ⟨rfl, q, List.mem_cons_self, ?_, rfl, rfl⟩
        simp only [Bool.and_eq_true, Bool.not_eq_true'] at hc
        exact (unblockedTol_zero _ _ _ _).mp ((legUnblocked_iff 0 excl shapes (p, q)).mp hc.2)
      · obtain ⟨hu, q', hq', hok⟩ := ih (j + 1) e h'
        exact ⟨hu, q', List.mem_cons_of_mem _ hq', hok⟩
    · obtain ⟨hu, q', hq', hok⟩ := ih (j + 1) e h
      exact ⟨hu, q', List.mem_cons_of_mem _ hq', hok⟩

theorem specGraphFrom_sound (shapes : List Poly) (excl : List Nat) (k : Nat) (all : List Pt) :
    ∀ (ps : List Pt) (i : Nat) (e : WEdge), e ∈ specGraphFrom shapes excl k all ps i →
      ∃ p ∈ ps, ∃ q ∈ all, EdgeOk shapes excl k e p q := by
  intro ps
  induction ps with
  | nil => intro i e h; simp [specGraphFrom] at h
  | cons p ps ih =>
    intro i e h
    unfold specGraphFrom at h
    rcases List.mem_append.mp h with h | h
    · obtain ⟨_, q, hq, hok⟩ := edgesFrom_sound shapes excl k i p all 0 e h
      exact ⟨p, List.mem_cons_self, q, hq, hok⟩
    · obtain ⟨p', hp', q, hq, hok⟩ := ih (i + 1) e h
      exact ⟨p', List.mem_cons_of_mem _ hp', q, hq, hok⟩

theorem sqDist_nonneg (p q : Pt) : 0 ≤ sqDist p q := by
  unfold sqDist dist2
  nlinarith [mul_self_nonneg (q.x - p.x), mul_self_nonneg (q.y - p.y)]

/-- … and the edge's indices are those of the two points: `e.u = i`, `e.v = j + m` where `q` is the m-th of `qs` -/
theorem edgesFrom_index (shapes : List Poly) (excl : List Nat) (k i : Nat) (p : Pt) :
    ∀ (qs : List Pt) (j : Nat) (e : WEdge), e ∈ edgesFrom shapes excl k i p qs j →
      e.u = i ∧ e.u ≠ e.v ∧ ∃ m q, qs[m]? = some q ∧ e.v = j + m ∧ EdgeOk shapes excl k e p q := by
  intro qs
  induction qs with
  | nil => intro j e h; simp [edgesFrom] at h
  | cons q qs ih =>
    intro j e h
    unfold edgesFrom at h
    simp only at h
    split at h
    · rename_i hc
      rcases List.mem_cons.mp h with rfl | h'
      · simp only [Bool.and_eq_true, Bool.not_eq_true', bne_iff_ne, ne_eq] at hc
        refine ⟨rfl, hc.1, 0, q, rfl, rfl, ?_, rfl, rfl⟩
        exact (unblockedTol_zero _ _ _ _).mp ((legUnblocked_iff 0 excl shapes (p, q)).mp hc.2)
      · obtain ⟨hu, hne, m, q', hq', hv, hok⟩ := ih (j + 1) e h'
        exact ⟨hu, hne, m + 1, q', by simpa using hq', by omega, hok⟩
    · obtain ⟨hu, hne, m, q', hq', hv, hok⟩ := ih (j + 1) e h
      exact ⟨hu, hne, m + 1, q', by simpa using hq', by omega, hok⟩

theorem specGraphFrom_index (shapes : List Poly) (excl : List Nat) (k : Nat) (all : List Pt) :
    ∀ (ps : List Pt) (i : Nat) (e : WEdge), e ∈ specGraphFrom shapes excl k all ps i →
      e.u ≠ e.v ∧ ∃ m p q, ps[m]? = some p ∧ e.u = i + m ∧ all[e.v]? = some q ∧ EdgeOk shapes excl k e p q := by
  intro ps
  induction ps with
  | nil => intro i e h; simp [specGraphFrom] at h
  | cons p ps ih =>
    intro i e h
    unfold specGraphFrom at h
    rcases List.mem_append.mp h with h | h
    · obtain ⟨hu, hne, m, q, hq, hv, hok⟩ := edgesFrom_index shapes excl k i p all 0 e h
      exact ⟨hne, 0, p, q, rfl, hu, by rw [hv, Nat.zero_add]; exact hq, hok⟩
    · obtain ⟨hne, m, p', q, hp', hu, hq, hok⟩ := ih (i + 1) e h
      exact ⟨hne, m + 1, p', q, by simpa using hp', by omega, hq, hok⟩

end AdaptaVerif.Lemmas.SpecGraph
