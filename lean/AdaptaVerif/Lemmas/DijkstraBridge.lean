/-
C17 — bridge for the WHOLE function `dijkstra(s, vs, d)` of cola/libcola/shortest_paths.h as GENERATED into
`Gen/DijkstraK.lean` (initialisation loop, heap construction, `while (!Q.isEmpty())` on fuel, `extractMin`, the write
`d[u->id] = u->d`, the relax loop; pairing heap abstract): instantiated with the model's pairing heap (`modelOps`) and run
with fuel `n` on a node array whose adjacency vectors are the model's `adj` lists, it writes exactly the model's
`dijkstraHeap g s` into a buffer pre-filled with the sentinel (simulation with `dijkstraHeapLoop` through the invariant
`HRel` of Lemmas/ApspDijkstraHeap), all its accesses are in bounds and the fuel suffices.
-/
import AdaptaVerif.Gen.DijkstraK
import AdaptaVerif.Lemmas.DijkstraRelaxBridge
import AdaptaVerif.Lemmas.ApspDijkstraHeap
namespace AdaptaVerif.Lemmas.DijkstraBridge
open AdaptaVerif.Gen AdaptaVerif.Gen.DijkstraK AdaptaVerif.Gen.KeysShortest
open AdaptaVerif.Model.ShortestPaths AdaptaVerif.Model.PairingHeap AdaptaVerif.Lemmas.GenLoopBridge
open AdaptaVerif.Lemmas.DijkstraRelaxBridge AdaptaVerif.Lemmas.Apsp AdaptaVerif.Spec.Apsp

/-! ### first loop: `vs[i].id = i; vs[i].d = max; vs[i].p = nullptr` -/

theorem body1_spec (i : Nat) (w : Array NodeK) (hi : i < w.size) :
    (dijkstra_body1 modelOps i w).size = w.size ∧
    (∀ k, (aget (dijkstra_body1 modelOps i w) k).neighbours = (aget w k).neighbours ∧
          (aget (dijkstra_body1 modelOps i w) k).nweights = (aget w k).nweights) ∧
    (aget (dijkstra_body1 modelOps i w) i).id = i ∧ (aget (dijkstra_body1 modelOps i w) i).d = none ∧
    (∀ k, k ≠ i → aget (dijkstra_body1 modelOps i w) k = aget w k) := by
  unfold dijkstra_body1
  simp only [aset_size]
  refine ⟨trivial, ?_, ?_, ?_, ?_⟩
  · intro k
    by_cases hk : i = k
    · subst hk; simp [aget_aset_eq, aset_size, hi]
    · simp [aget_aset_ne _ _ _ _ hk]
  · simp [aget_aset_eq, aset_size, hi]
  · simp [aget_aset_eq, aset_size, hi]
  · intro k hk
    simp [aget_aset_ne _ _ _ _ (Ne.symm hk)]

/-- after the first loop: same size and adjacency, every node has `id = index` and `d = max` -/
theorem init_loop_spec (vs : Array NodeK) :
    let w := forRange (dijkstra_body1 modelOps) (vs.size - 0) 0 vs
    w.size = vs.size ∧
    (∀ k, (aget w k).neighbours = (aget vs k).neighbours ∧ (aget w k).nweights = (aget vs k).nweights) ∧
    (∀ k, k < vs.size → (aget w k).id = k ∧ (aget w k).d = none) := by
  have := forRange_inv
    (fun i (w : Array NodeK) => w.size = vs.size ∧
      (∀ k, (aget w k).neighbours = (aget vs k).neighbours ∧ (aget w k).nweights = (aget vs k).nweights) ∧
      (∀ k, k < i → (aget w k).id = k ∧ (aget w k).d = none))
    (dijkstra_body1 modelOps) (vs.size - 0) 0 vs ⟨rfl, fun _ => ⟨rfl, rfl⟩, fun k hk => absurd hk (Nat.not_lt_zero _)⟩
    (by
      intro i w _ hi ⟨hsz, hadj, hdone⟩
      obtain ⟨b1, b2, b3, b4, b5⟩ := body1_spec i w (by omega)
      refine ⟨b1.trans hsz, fun k => ⟨(b2 k).1.trans (hadj k).1, (b2 k).2.trans (hadj k).2⟩, ?_⟩
      intro k hk
      by_cases hki : k = i
      · subst hki; exact ⟨b3, b4⟩
      · rw [b5 k hki]; exact hdone k (by omega))
  simp only [Nat.zero_add, Nat.sub_zero] at this ⊢
  exact ⟨this.1, this.2.1, fun k hk => this.2.2 k hk⟩

theorem dOf_size (vs : Array NodeK) : (dOf vs).size = vs.size := by simp [dOf]

theorem dOf_eq_replicate (w : Array NodeK) (h : ∀ k, k < w.size → (aget w k).d = none) : dOf w = Array.replicate w.size none := by
  apply Array.ext
  · simp [dOf]
  · intro i h1 h2
    have hi : i < w.size := by simpa [dOf] using h1
    have := h i hi
    have e : aget w i = w[i] := by simp [aget, hi]
    rw [e] at this
    simp [dOf, this]

/-! ### second loop: `vs[i].qnode = Q.insert(&vs[i])` -/

theorem foldl_pair_snd {A B : Type} (f : A → Nat → B → A) (l : List Nat) (a : A) (b : B) :
    l.foldl (fun (s : A × B) i => (f s.1 i s.2, s.2)) (a, b) = (l.foldl (fun h i => f h i b) a, b) := by
  induction l generalizing a with
  | nil => rfl
  | cons x xs ih => simp only [List.foldl_cons]; exact ih _

theorem insert_loop (n : Nat) (Q : PTree Dist) (vs : Array NodeK) :
    forRange (dijkstra_body2 modelOps) (n - 0) 0 (Q, vs) =
      ((List.range n).foldl (fun h i => insert ltDist h ((dOf vs).at i) i) Q, vs) := by
  rw [forRange_zero]
  have : (fun (s : PTree Dist × Array NodeK) i => dijkstra_body2 modelOps i s) =
      (fun (s : PTree Dist × Array NodeK) i => ((fun h i vs => insert ltDist h (aget vs i).d i) s.1 i s.2, s.2)) := by
    funext s i; rfl
  rw [this]
  have := foldl_pair_snd (fun h i (vs : Array NodeK) => insert ltDist h (aget vs i).d i) (List.range n) Q vs
  simp only [dOf_at]
  exact this

/-! ### the main loop against `dijkstraHeapLoop` -/

/-- the adjacency vectors of the node array are the model's `adj` lists (what the generated `dijkstra_init` builds) -/
def AdjOf (edges : List (Nat × Nat × Rat)) (vs : Array NodeK) : Prop :=
  ∀ u, (aget vs u).neighbours = (adj edges u).map (·.1) ∧ (aget vs u).nweights = (adj edges u).map (fun p => some p.2)

/-- generated loop state `(Q, d, vs)` as the model's `HState` (the extraction order is a ghost component) -/
def toH (gs : PTree Dist × Array Dist × Array NodeK) (ord : List Nat) : HState :=
  { d := dOf gs.2.2, out := gs.2.1, heap := gs.1, order := ord }

theorem body3_eq (u i : Nat) (s : PTree Dist × Array NodeK) :
    dijkstra_body3 u modelOps i s =
      stepG u decKeyM s ((aget s.2 u).neighbours.getD i default, (aget s.2 u).nweights.getD i default) := rfl

theorem loop_sim {g : Graph} (hv : Valid g) {s : Nat} (vsRef : Array NodeK) (hadj : AdjOf g.edges vsRef)
    (hsz : vsRef.size = g.n) (hid : ∀ k, k < g.n → (aget vsRef k).id = k) :
    ∀ (fuel : Nat) (gs : PTree Dist × Array Dist × Array NodeK) (ord : List Nat) (st : DState),
      HRel g s (toH gs ord) st → SameAdj vsRef gs.2.2 →
      ∃ ord', toH (whileLoop (dijkstra_while4_cond modelOps) (dijkstra_while4_body modelOps) fuel gs) ord' =
        dijkstraHeapLoop g.edges fuel (toH gs ord) := by
  intro fuel
  induction fuel with
  | zero => intro gs ord st _ _; exact ⟨ord, rfl⟩
  | succ f ih =>
    intro gs ord st h hsame
    obtain ⟨Q, dOut, vs⟩ := gs
    unfold whileLoop dijkstraHeapLoop
    have hcond : dijkstra_while4_cond modelOps (Q, dOut, vs) = !(findMin Q).isNone := rfl
    rw [hcond]
    cases hf : findMin Q with
    | none =>
      have : findMin (toH (Q, dOut, vs) ord).heap = none := hf
      simp only [this, Option.isNone_none, Bool.not_true, Bool.false_eq_true, if_false]
      exact ⟨ord, rfl⟩
    | some r =>
      obtain ⟨k, u⟩ := r
      have hf' : findMin (toH (Q, dOut, vs) ord).heap = some (k, u) := hf
      obtain ⟨huq, hrel⟩ := hrel_step hv h hf'
      have hun : u < g.n := h.inv.qlt u huq
      have hvsz : vs.size = g.n := hsame.1.trans hsz
      have hnb : (aget vs u).neighbours = (adj g.edges u).map (·.1) := by rw [(hsame.2 u).1]; exact (hadj u).1
      have hnw : (aget vs u).nweights = (adj g.edges u).map (fun p => some p.2) := by rw [(hsame.2 u).2.1]; exact (hadj u).2
      have hval : ∀ p ∈ adj g.edges u, p.1 < vs.size := by
        intro p hp
        obtain ⟨v, w⟩ := p
        rw [hvsz]
        rcases (adj_mem g.edges u v w).mp hp with he | he
        · exact (hv _ he).2.1
        · exact (hv _ he).1
      obtain ⟨hr1, hr2⟩ := relax_generic (dijkstra_body3 u modelOps) g.edges u (body3_eq u) vs (deleteMin ltDist Q) hnb hnw hval
      have hidu : (aget vs u).id = u := by rw [(hsame.2 u).2.2]; exact hid u hun
      -- one iteration of the generated loop
      have hbody : dijkstra_while4_body modelOps (Q, dOut, vs) =
          ((forRange (dijkstra_body3 u modelOps) ((aget vs u).neighbours.length - 0) 0 (deleteMin ltDist Q, vs)).1,
           dOut.setIfInBounds u ((dOf vs).at u),
           (forRange (dijkstra_body3 u modelOps) ((aget vs u).neighbours.length - 0) 0 (deleteMin ltDist Q, vs)).2) := by
        unfold dijkstra_while4_body
        simp only [modelOps, hf, Option.map_some, Option.getD_some, hidu, dOf_at]
        rfl
      simp only [hf', hf, Option.isNone_some, Bool.not_false, if_true]
      rw [hbody]
      have hst : toH ((forRange (dijkstra_body3 u modelOps) ((aget vs u).neighbours.length - 0) 0 (deleteMin ltDist Q, vs)).1,
            dOut.setIfInBounds u ((dOf vs).at u),
            (forRange (dijkstra_body3 u modelOps) ((aget vs u).neighbours.length - 0) 0 (deleteMin ltDist Q, vs)).2) (u :: ord) =
          { d := ((adj g.edges u).foldl (relaxEdgeH u) ((toH (Q, dOut, vs) ord).d, deleteMin ltDist (toH (Q, dOut, vs) ord).heap)).1,
            out := (toH (Q, dOut, vs) ord).out.setIfInBounds u (Vec.at (toH (Q, dOut, vs) ord).d u),
            heap := ((adj g.edges u).foldl (relaxEdgeH u) ((toH (Q, dOut, vs) ord).d, deleteMin ltDist (toH (Q, dOut, vs) ord).heap)).2,
            order := u :: (toH (Q, dOut, vs) ord).order } := by
        have : (adj g.edges u).foldl (relaxEdgeH u) ((toH (Q, dOut, vs) ord).d, deleteMin ltDist (toH (Q, dOut, vs) ord).heap) =
            proj (forRange (dijkstra_body3 u modelOps) ((aget vs u).neighbours.length - 0) 0 (deleteMin ltDist Q, vs)) := hr1.symm
        rw [this]
        rfl
      rw [← hst] at hrel
      obtain ⟨ord', ho⟩ := ih _ (u :: ord) _ hrel (hsame.trans hr2)
      exact ⟨ord', by rw [ho, hst]⟩

/-! ### the whole function -/

theorem dijkstra_eq {g : Graph} (hv : Valid g) {s : Nat} (hs : s < g.n) (vs : Array NodeK) (hadj : AdjOf g.edges vs)
    (hsz : vs.size = g.n) :
    (AdaptaVerif.Gen.DijkstraK.dijkstra s vs (Array.replicate g.n none) modelOps g.n).2 = dijkstraHeap g s := by
  unfold AdaptaVerif.Gen.DijkstraK.dijkstra
  simp only []
  obtain ⟨a1, a2, a3⟩ := init_loop_spec vs
  generalize hA : forRange (dijkstra_body1 modelOps) (vs.size - 0) 0 vs = vsA at a1 a2 a3
  have hAsz : vsA.size = g.n := a1.trans hsz
  have hsA : s < vsA.size := by rw [hAsz]; exact hs
  generalize h5 : aset vsA s { (aget vsA s) with d := (some (0 : Rat) : Dist) } = vs5
  have h5sz : vs5.size = g.n := by rw [← h5, aset_size]; exact hAsz
  have h5get : ∀ k, (aget vs5 k).neighbours = (aget vsA k).neighbours ∧ (aget vs5 k).nweights = (aget vsA k).nweights ∧
      (aget vs5 k).id = (aget vsA k).id := by
    intro k
    rw [← h5]
    by_cases hk : s = k
    · subst hk; rw [aget_aset_eq _ _ _ hsA]; exact ⟨rfl, rfl, rfl⟩
    · rw [aget_aset_ne _ _ _ _ hk]; exact ⟨rfl, rfl, rfl⟩
  have hd5 : dOf vs5 = (Array.replicate g.n (none : Dist)).setIfInBounds s (some 0) := by
    rw [← h5, dOf_aset, dOf_eq_replicate vsA (fun k hk => (a3 k (by rw [← a1]; exact hk)).2), hAsz]
  rw [insert_loop]
  simp only []
  have hadj5 : AdjOf g.edges vs5 := fun u =>
    ⟨by rw [(h5get u).1, (a2 u).1]; exact (hadj u).1, by rw [(h5get u).2.1, (a2 u).2]; exact (hadj u).2⟩
  have hid5 : ∀ k, k < g.n → (aget vs5 k).id = k := fun k hk => by
    rw [(h5get k).2.2]; exact (a3 k (by rw [hsz]; exact hk)).1
  have hinit : toH ((List.range vs.size).foldl (fun h i => insert ltDist h ((dOf vs5).at i) i) modelOps.empty,
      Array.replicate g.n none, vs5) [] = dijkstraHeapInit g.n s := by
    unfold toH dijkstraHeapInit heapInit
    simp only [hd5, hsz]
    rfl
  obtain ⟨ord', ho⟩ := loop_sim hv vs5 hadj5 h5sz hid5 g.n _ [] _ (by rw [hinit]; exact hrel_init hs) (SameAdj.refl vs5)
  rw [hinit] at ho
  have := congrArg HState.out ho
  simpa [toH, dijkstraHeap, dijkstraHeapRun] using this

/-! ### `dijkstra_pre`: bounds, and the fuel `n` suffices -/

theorem relax_pre_generic (u : Nat) (vs : Array NodeK) (Q : PTree Dist) (hu : u < vs.size)
    (hlen : (aget vs u).nweights.length = (aget vs u).neighbours.length)
    (hval : ∀ v ∈ (aget vs u).neighbours, v < vs.size) :
    forRangePre (dijkstra_body3_pre u modelOps) (dijkstra_body3 u modelOps) ((aget vs u).neighbours.length - 0) 0 (Q, vs) = true := by
  have h := relax_pre_true decKeyM vs Q u hu hlen hval
  unfold AdaptaVerif.Gen.DijkstraRelaxK.dijkstra_relax_pre at h
  simp only [hu, decide_true, Bool.true_and, Bool.and_true] at h
  exact h

theorem loop_pre {g : Graph} (hv : Valid g) {s : Nat} (vsRef : Array NodeK) (hadj : AdjOf g.edges vsRef)
    (hsz : vsRef.size = g.n) (hid : ∀ k, k < g.n → (aget vsRef k).id = k) :
    ∀ (fuel : Nat) (gs : PTree Dist × Array Dist × Array NodeK) (ord : List Nat) (st : DState),
      HRel g s (toH gs ord) st → SameAdj vsRef gs.2.2 → st.q.length ≤ fuel → gs.2.1.size = g.n →
      whileLoopPre (dijkstra_while4_cond_pre modelOps) (dijkstra_while4_cond modelOps) (dijkstra_while4_body_pre modelOps)
        (dijkstra_while4_body modelOps) fuel gs = true := by
  intro fuel
  induction fuel with
  | zero =>
    intro gs ord st h _ hl _
    obtain ⟨Q, dOut, vs⟩ := gs
    have hq : st.q = [] := List.length_eq_zero_iff.mp (Nat.le_zero.mp hl)
    have he : elems Q = [] := by
      have := h.perm.length_eq
      rw [hq] at this
      simpa [keyed, toH] using this
    have hf : findMin Q = none := AdaptaVerif.Lemmas.PairingHeap.findMin_none.mpr he
    simp [whileLoopPre, dijkstra_while4_cond_pre, dijkstra_while4_cond, modelOps, hf]
  | succ f ih =>
    intro gs ord st h hsame hl hdsz
    obtain ⟨Q, dOut, vs⟩ := gs
    unfold whileLoopPre
    have hcond : dijkstra_while4_cond modelOps (Q, dOut, vs) = !(findMin Q).isNone := rfl
    have hcp : dijkstra_while4_cond_pre modelOps (Q, dOut, vs) = true := rfl
    rw [hcond, hcp]
    cases hf : findMin Q with
    | none => simp
    | some r =>
      obtain ⟨k, u⟩ := r
      have hf' : findMin (toH (Q, dOut, vs) ord).heap = some (k, u) := hf
      obtain ⟨huq, hrel⟩ := hrel_step hv h hf'
      have hun : u < g.n := h.inv.qlt u huq
      have hvsz : vs.size = g.n := hsame.1.trans hsz
      have hnb : (aget vs u).neighbours = (adj g.edges u).map (·.1) := by rw [(hsame.2 u).1]; exact (hadj u).1
      have hnw : (aget vs u).nweights = (adj g.edges u).map (fun p => some p.2) := by rw [(hsame.2 u).2.1]; exact (hadj u).2
      have hval : ∀ p ∈ adj g.edges u, p.1 < vs.size := by
        intro p hp
        obtain ⟨v, w⟩ := p
        rw [hvsz]
        rcases (adj_mem g.edges u v w).mp hp with he | he
        · exact (hv _ he).2.1
        · exact (hv _ he).1
      obtain ⟨hr1, hr2⟩ := relax_generic (dijkstra_body3 u modelOps) g.edges u (body3_eq u) vs (deleteMin ltDist Q) hnb hnw hval
      have hidu : (aget vs u).id = u := by rw [(hsame.2 u).2.2]; exact hid u hun
      have huv : u < vs.size := by rw [hvsz]; exact hun
      have hrp := relax_pre_generic u vs (deleteMin ltDist Q) huv (by rw [hnb, hnw]; simp)
        (by intro v hv'; rw [hnb] at hv'; obtain ⟨p, hp, rfl⟩ := List.mem_map.mp hv'; exact hval p hp)
      have hbp : dijkstra_while4_body_pre modelOps (Q, dOut, vs) = true := by
        unfold dijkstra_while4_body_pre
        simp only [modelOps, hf, Option.map_some, Option.getD_some, hidu, huv, hdsz, hun, decide_true, Bool.true_and, Bool.and_true]
        exact hrp
      have hbody : dijkstra_while4_body modelOps (Q, dOut, vs) =
          ((forRange (dijkstra_body3 u modelOps) ((aget vs u).neighbours.length - 0) 0 (deleteMin ltDist Q, vs)).1,
           dOut.setIfInBounds u ((dOf vs).at u),
           (forRange (dijkstra_body3 u modelOps) ((aget vs u).neighbours.length - 0) 0 (deleteMin ltDist Q, vs)).2) := by
        unfold dijkstra_while4_body
        simp only [modelOps, hf, Option.map_some, Option.getD_some, hidu, dOf_at]
        rfl
      simp only [Option.isNone_some, Bool.not_false, if_true, hbp, Bool.true_and]
      rw [hbody]
      have hst : toH ((forRange (dijkstra_body3 u modelOps) ((aget vs u).neighbours.length - 0) 0 (deleteMin ltDist Q, vs)).1,
            dOut.setIfInBounds u ((dOf vs).at u),
            (forRange (dijkstra_body3 u modelOps) ((aget vs u).neighbours.length - 0) 0 (deleteMin ltDist Q, vs)).2) (u :: ord) =
          { d := ((adj g.edges u).foldl (relaxEdgeH u) ((toH (Q, dOut, vs) ord).d, deleteMin ltDist (toH (Q, dOut, vs) ord).heap)).1,
            out := (toH (Q, dOut, vs) ord).out.setIfInBounds u (Vec.at (toH (Q, dOut, vs) ord).d u),
            heap := ((adj g.edges u).foldl (relaxEdgeH u) ((toH (Q, dOut, vs) ord).d, deleteMin ltDist (toH (Q, dOut, vs) ord).heap)).2,
            order := u :: (toH (Q, dOut, vs) ord).order } := by
        have : (adj g.edges u).foldl (relaxEdgeH u) ((toH (Q, dOut, vs) ord).d, deleteMin ltDist (toH (Q, dOut, vs) ord).heap) =
            proj (forRange (dijkstra_body3 u modelOps) ((aget vs u).neighbours.length - 0) 0 (deleteMin ltDist Q, vs)) := hr1.symm
        rw [this]
        rfl
      rw [← hst] at hrel
      apply ih _ (u :: ord) _ hrel (hsame.trans hr2)
      · show (st.q.erase u).length ≤ f
        rw [List.length_erase_of_mem huq]
        have : 0 < st.q.length := List.length_pos_of_mem huq
        omega
      · simp [hdsz]

theorem dijkstra_pre_true {g : Graph} (hv : Valid g) {s : Nat} (hs : s < g.n) (vs : Array NodeK) (hadj : AdjOf g.edges vs)
    (hsz : vs.size = g.n) :
    AdaptaVerif.Gen.DijkstraK.dijkstra_pre s vs (Array.replicate g.n none) modelOps g.n = true := by
  unfold AdaptaVerif.Gen.DijkstraK.dijkstra_pre
  simp only []
  have p1 : forRangePre (dijkstra_body1_pre modelOps) (dijkstra_body1 modelOps) (vs.size - 0) 0 vs = true :=
    forRangePre_of_inv (fun _ (w : Array NodeK) => w.size = vs.size) _ _ _ _ _ rfl
      (fun i w _ hi hw => ⟨by unfold dijkstra_body1_pre; simp [aset_size, hw]; omega, (body1_spec i w (by omega)).1.trans hw⟩)
  obtain ⟨a1, a2, a3⟩ := init_loop_spec vs
  generalize hA : forRange (dijkstra_body1 modelOps) (vs.size - 0) 0 vs = vsA at a1 a2 a3
  have hAsz : vsA.size = g.n := a1.trans hsz
  have hsA : s < vsA.size := by rw [hAsz]; exact hs
  generalize h5 : aset vsA s { (aget vsA s) with d := (some (0 : Rat) : Dist) } = vs5
  have h5sz : vs5.size = g.n := by rw [← h5, aset_size]; exact hAsz
  have h5get : ∀ k, (aget vs5 k).neighbours = (aget vsA k).neighbours ∧ (aget vs5 k).nweights = (aget vsA k).nweights ∧
      (aget vs5 k).id = (aget vsA k).id := by
    intro k
    rw [← h5]
    by_cases hk : s = k
    · subst hk; rw [aget_aset_eq _ _ _ hsA]; exact ⟨rfl, rfl, rfl⟩
    · rw [aget_aset_ne _ _ _ _ hk]; exact ⟨rfl, rfl, rfl⟩
  have hd5 : dOf vs5 = (Array.replicate g.n (none : Dist)).setIfInBounds s (some 0) := by
    rw [← h5, dOf_aset, dOf_eq_replicate vsA (fun k hk => (a3 k (by rw [← a1]; exact hk)).2), hAsz]
  have p2 : forRangePre (dijkstra_body2_pre modelOps) (dijkstra_body2 modelOps) (vs.size - 0) 0 (modelOps.empty, vs5) = true :=
    forRangePre_of_inv (fun _ (w : PTree Dist × Array NodeK) => w.2 = vs5) _ _ _ _ _ rfl
      (fun i w _ hi hw => ⟨by unfold dijkstra_body2_pre; simp [hw, h5sz]; omega, hw⟩)
  rw [insert_loop]
  have hadj5 : AdjOf g.edges vs5 := fun u =>
    ⟨by rw [(h5get u).1, (a2 u).1]; exact (hadj u).1, by rw [(h5get u).2.1, (a2 u).2]; exact (hadj u).2⟩
  have hid5 : ∀ k, k < g.n → (aget vs5 k).id = k := fun k hk => by
    rw [(h5get k).2.2]; exact (a3 k (by rw [hsz]; exact hk)).1
  have hinit : toH ((List.range vs.size).foldl (fun h i => insert ltDist h ((dOf vs5).at i) i) modelOps.empty,
      Array.replicate g.n none, vs5) [] = dijkstraHeapInit g.n s := by
    unfold toH dijkstraHeapInit heapInit
    simp only [hd5, hsz]
    rfl
  have p3 := loop_pre hv vs5 hadj5 h5sz hid5 g.n
    ((List.range vs.size).foldl (fun h i => insert ltDist h ((dOf vs5).at i) i) modelOps.empty, Array.replicate g.n none, vs5) []
    (dijkstraInit g.n s) (by rw [hinit]; exact hrel_init hs) (SameAdj.refl vs5) (by simp [dijkstraInit]) (by simp)
  have hsn : s < vs.size := by rw [hsz]; exact hs
  simp only [p1, p2, p3, hsn, hsA, decide_true, Bool.and_self, Bool.and_true]

end AdaptaVerif.Lemmas.DijkstraBridge
