/-
Meaning of `StrictlyInside` for axis-parallel rectangles (sanity anchor of the half-plane definition),
symmetry of `SegHits`, and the path lemma for C03.
-/
import AdaptaVerif.Lemmas.Route
namespace AdaptaVerif.Lemmas.Route
open AdaptaVerif.Model.Geometry (Pt area2)
open AdaptaVerif.Check.Route AdaptaVerif.Spec.Route

/-- the rectangle [x0,x1]×[y0,y1] in libavoid's vertex order (counter-clockwise) -/
def rectPoly (x0 y0 x1 y1 : Rat) : Poly := [⟨x1, y0⟩, ⟨x1, y1⟩, ⟨x0, y1⟩, ⟨x0, y0⟩]

theorem mul_pos_iff_left (a b : Rat) (hb : 0 < b) : 0 < a * b ↔ 0 < a := by
  constructor
  · intro h
    by_contra hn
    have : a * b ≤ 0 := mul_nonpos_of_nonpos_of_nonneg (not_lt.mp hn) (le_of_lt hb)
    linarith
  · intro h; exact mul_pos h hb

theorem strictlyInside_rect_iff (x0 y0 x1 y1 : Rat) (hx : x0 < x1) (hy : y0 < y1) (p : Pt) :
    StrictlyInside (rectPoly x0 y0 x1 y1) p ↔ x0 < p.x ∧ p.x < x1 ∧ y0 < p.y ∧ p.y < y1 := by
  have hdx : 0 < x1 - x0 := by linarith
  have hdy : 0 < y1 - y0 := by linarith
  unfold StrictlyInside InsideBy InsideOriented rectPoly
  simp only [polyEdges, List.cons_append, List.nil_append, List.zip_cons_cons, List.zip_nil_right,
    List.forall_mem_cons, List.not_mem_nil, false_imp_iff, implies_true, and_true, List.length_cons,
    List.length_nil, zero_mul, area2]
  constructor
  · rintro (⟨_, h1, h2, h3, h4⟩ | ⟨_, h1, h2, h3, h4⟩)
    · have e1 : 0 < (x1 - p.x) * (y1 - y0) := by nlinarith
      have e2 : 0 < (y1 - p.y) * (x1 - x0) := by nlinarith
      have e3 : 0 < (p.x - x0) * (y1 - y0) := by nlinarith
      have e4 : 0 < (p.y - y0) * (x1 - x0) := by nlinarith
      rw [mul_pos_iff_left _ _ hdy] at e1 e3
      rw [mul_pos_iff_left _ _ hdx] at e2 e4
      exact ⟨by linarith, by linarith, by linarith, by linarith⟩
    · exfalso
      have e1 : 0 < (p.x - x1) * (y1 - y0) := by nlinarith
      have e3 : 0 < (x0 - p.x) * (y1 - y0) := by nlinarith
      rw [mul_pos_iff_left _ _ hdy] at e1 e3
      linarith
  · rintro ⟨h1, h2, h3, h4⟩
    left
    refine ⟨by norm_num, ?_, ?_, ?_, ?_⟩ <;> nlinarith

theorem lerp_symm (p q : Pt) (t : Rat) : lerp p q t = lerp q p (1 - t) := by
  unfold lerp
  congr 1 <;> ring

theorem segHits_symm (poly : Poly) (p q : Pt) (h : SegHits poly p q) : SegHits poly q p := by
  obtain ⟨t, h0, h1, hin⟩ := h
  exact ⟨1 - t, by linarith, by linarith, by rw [← lerp_symm]; exact hin⟩

theorem unblocked_symm (shapes : List Poly) (excl : List Nat) (p q : Pt)
    (h : Unblocked shapes excl p q) : Unblocked shapes excl q p :=
  fun i hi hne hh => h i hi hne (segHits_symm _ _ _ hh)

end AdaptaVerif.Lemmas.Route
