/-
Lemmas about `Model/OrthVis.lean`, part 4 (core Lean only): `sortLV` sorts by position, `groupsOf` of a
sorted list gives non-empty uniform groups at strictly increasing positions, hence every edge of
`lineEdges` runs from a lower to a strictly higher position; the direction flags of connector end points are
respected; breakpoints in adjacent groups are joined.
-/
import AdaptaVerif.Lemmas.OrthVisEdges

namespace AdaptaVerif.Lemmas.OrthVis
open AdaptaVerif.Model.OrthVis

/-! ### sorting -/

theorem LV.lt_le {a b : LV} (h : a.lt b = true) : a.t ≤ b.t := by
  unfold LV.lt at h
  simp only [Bool.or_eq_true, Bool.and_eq_true, decide_eq_true_eq, beq_iff_eq] at h
  grind

def SortedLV (l : List LV) : Prop := l.Pairwise (fun a b => a.t ≤ b.t)

theorem insertLV_sorted (a : LV) (l : List LV) (h : SortedLV l) : SortedLV (insertLV a l) := by
  unfold SortedLV at *
  induction l with
  | nil => simp [insertLV]
  | cons b r ih =>
    obtain ⟨hb, hr⟩ := List.pairwise_cons.mp h
    unfold insertLV
    split
    · rename_i hab
      have hab := LV.lt_le hab
      refine List.pairwise_cons.mpr ⟨?_, h⟩
      intro x hx
      rcases List.mem_cons.mp hx with rfl | hx
      · exact hab
      · have := hb x hx; grind
    · split
      · rename_i _ hba
        have hba := LV.lt_le hba
        refine List.pairwise_cons.mpr ⟨?_, ih hr⟩
        intro x hx
        rcases mem_insertLV hx with rfl | hx
        · exact hba
        · exact hb x hx
      · exact h

theorem sortLV_sorted (l : List LV) : SortedLV (sortLV l) := by
  induction l with
  | nil => simp [sortLV, SortedLV]
  | cons a r ih => exact insertLV_sorted a _ ih

def SortedBP (l : List BP) : Prop := l.Pairwise (fun a b => a.t ≤ b.t)

theorem toBPs_sorted (dirs : VK → Bool × Bool) (l : List LV) : SortedBP (toBPs dirs l) := by
  unfold toBPs SortedBP
  rw [List.pairwise_map]
  exact sortLV_sorted l

/-! ### groups -/

/-- non-empty groups, one position per group, positions strictly increasing from group to group -/
structure GroupsOK (gs : List (List BP)) : Prop where
  ne : ∀ g ∈ gs, g ≠ []
  uni : ∀ g ∈ gs, ∀ x ∈ g, ∀ y ∈ g, x.t = y.t
  inc : gs.Pairwise (fun g g' => ∀ x ∈ g, ∀ y ∈ g', x.t < y.t)

theorem groupsOf_ok (l : List BP) (h : SortedBP l) : GroupsOK (groupsOf l) := by
  induction l with
  | nil => exact ⟨by simp [groupsOf], by simp [groupsOf], by simp [groupsOf]⟩
  | cons a r ih =>
    obtain ⟨ha, hr⟩ := List.pairwise_cons.mp h
    have ok := ih hr
    have hmem : ∀ g ∈ groupsOf r, ∀ x ∈ g, x ∈ r := fun g hg x hx => mem_groupsOf hg hx
    unfold groupsOf
    split
    · rename_i b g0 gs heq
      rw [heq] at ok hmem
      obtain ⟨hinc1, hinc2⟩ := List.pairwise_cons.mp ok.inc
      have hbr : b ∈ r := hmem (b :: g0) (by simp) b (by simp)
      have hub : ∀ x ∈ b :: g0, x.t = b.t := fun x hx => ok.uni (b :: g0) (by simp) x hx b (by simp)
      split
      · rename_i hab
        have hab : a.t = b.t := by simpa using hab
        refine ⟨?_, ?_, ?_⟩
        · intro g hg
          rcases List.mem_cons.mp hg with rfl | hg
          · simp
          · exact ok.ne g (by simp [hg])
        · intro g hg x hx y hy
          rcases List.mem_cons.mp hg with rfl | hg
          · have ex : x.t = b.t := by
              rcases List.mem_cons.mp hx with rfl | hx
              · exact hab
              · exact hub x hx
            have ey : y.t = b.t := by
              rcases List.mem_cons.mp hy with rfl | hy
              · exact hab
              · exact hub y hy
            rw [ex, ey]
          · exact ok.uni g (by simp [hg]) x hx y hy
        · refine List.pairwise_cons.mpr ⟨?_, hinc2⟩
          intro g' hg' x hx y hy
          have ex : x.t = b.t := by
            rcases List.mem_cons.mp hx with rfl | hx
            · exact hab
            · exact hub x hx
          have := hinc1 g' hg' b (by simp) y hy
          rw [ex]; exact this
      · rename_i hab
        have hab : a.t ≠ b.t := by simpa using hab
        have hlt : a.t < b.t := by have := ha b hbr; grind
        refine ⟨?_, ?_, ?_⟩
        · intro g hg
          rcases List.mem_cons.mp hg with rfl | hg
          · simp
          · exact ok.ne g hg
        · intro g hg x hx y hy
          rcases List.mem_cons.mp hg with rfl | hg
          · simp at hx hy; rw [hx, hy]
          · exact ok.uni g hg x hx y hy
        · refine List.pairwise_cons.mpr ⟨?_, ok.inc⟩
          intro g' hg' x hx y hy
          simp at hx; subst hx
          rcases List.mem_cons.mp hg' with rfl | hg'
          · rw [hub y hy]; exact hlt
          · have := hinc1 g' hg' b (by simp) y hy
            grind
    · rename_i hno
      -- `groupsOf r` is empty (a non-empty list of groups starts with a non-empty group)
      have hnil : groupsOf r = [] := by
        cases hgr : groupsOf r with
        | nil => rfl
        | cons g0 gs =>
          cases g0 with
          | nil => exact absurd rfl (ok.ne [] (by rw [hgr]; simp))
          | cons b g0' => exact absurd hgr (hno b g0' gs)
      rw [hnil]
      exact ⟨by simp, by intro g hg x hx y hy; simp at hg; subst hg; simp at hx hy; rw [hx, hy], by simp⟩

/-! ### orientation of the edges -/

theorem groupEdges_lt (rp : List BP) (gs : List (List BP)) (ok : GroupsOK gs)
    (hrp : ∀ p ∈ rp, ∀ g ∈ gs, ∀ x ∈ g, p.t ≤ x.t) :
    ∀ e ∈ groupEdges rp gs, e.1.t < e.2.t := by
  induction gs generalizing rp with
  | nil => intro e he; simp [groupEdges] at he
  | cons g rest ih =>
    cases rest with
    | nil => intro e he; simp [groupEdges] at he
    | cons g' more =>
      intro e he
      obtain ⟨hinc1, hinc2⟩ := List.pairwise_cons.mp ok.inc
      have ok' : GroupsOK (g' :: more) :=
        ⟨fun x hx => ok.ne x (by simp [hx]), fun x hx => ok.uni x (by simp [hx]), hinc2⟩
      unfold groupEdges at he
      rcases List.mem_append.mp he with he | he
      · obtain ⟨s1, hs1, he⟩ := List.mem_flatMap.mp he
        obtain ⟨s2, hs2, he⟩ := List.mem_flatMap.mp he
        obtain ⟨a1, a2, _⟩ := mem_splits hs1
        obtain ⟨b1, _, b3⟩ := mem_splits hs2
        obtain ⟨p1, p2⟩ := mem_pairEdges he
        have hlv : s1.2.1.t < s2.2.1.t := hinc1 g' (by simp) _ a1 _ b1
        have h1 : e.1.t ≤ s1.2.1.t := by
          rcases p1 with p | p
          · rw [p]; exact Rat.le_refl
          · rcases List.mem_append.mp p with p | p
            · rcases a2 _ p with q | q
              · simp at q
              · rw [ok.uni g (by simp) _ q _ a1]; exact Rat.le_refl
            · exact hrp _ p g (by simp) _ a1
        have h2 : s2.2.1.t ≤ e.2.t := by
          rcases p2 with p | p
          · rw [p]; exact Rat.le_refl
          · rcases List.mem_append.mp p with p | p
            · rw [ok.uni g' (by simp) _ (b3 _ p) _ b1]; exact Rat.le_refl
            · obtain ⟨g2, hg2, hin⟩ := List.mem_flatMap.mp p
              have hg2' : ∀ x ∈ g', ∀ y ∈ g2, x.t < y.t := (List.pairwise_cons.mp hinc2).1 g2 hg2
              have := hg2' _ b1 _ hin
              grind
        grind
      · apply ih (g.reverse ++ rp) ok' ?_ e he
        intro p hp g2 hg2 x hx
        rcases List.mem_append.mp hp with hp | hp
        · have := hinc1 g2 hg2 p (by simpa using hp) x hx
          grind
        · exact hrp p hp g2 (by simp [hg2]) x hx

/-- every edge of a line runs from a lower to a strictly higher position -/
theorem lineEdges_lt {bps : List BP} (h : SortedBP bps) : ∀ e ∈ lineEdges bps, e.1.t < e.2.t :=
  groupEdges_lt [] _ (groupsOf_ok bps h) (by simp)

/-! ### direction flags -/

theorem pairEdges_dirs {before after : List BP} {last vert : BP} {e : BP × BP}
    (h : e ∈ pairEdges before last vert after) :
    (e.1.k.isConn = true → e.1.up = true) ∧ (e.2.k.isConn = true → e.2.dn = true) := by
  unfold pairEdges at h
  rcases List.mem_append.mp h with h | h
  · split at h
    · rcases List.mem_append.mp h with h | h
      · split at h
        · rename_i side hf
          split at h
          · rename_i hdn
            simp only [List.mem_singleton] at h; subst h
            have := List.find?_some hf
            simp only [Bool.not_eq_true'] at this
            exact ⟨fun hc => by simp [this] at hc, fun _ => hdn⟩
          · simp at h
        · simp at h
      · split at h
        · rename_i side hf
          split at h
          · rename_i hup
            simp only [List.mem_singleton] at h; subst h
            have := List.find?_some hf
            simp only [Bool.not_eq_true'] at this
            exact ⟨fun _ => hup, fun hc => by simp [this] at hc⟩
          · simp at h
        · simp at h
    · simp at h
  · split at h
    · simp at h
    · rename_i hc
      simp only [List.mem_singleton] at h; subst h
      simp only [Bool.or_eq_true, Bool.and_eq_true, Bool.not_eq_true', not_or, not_and, Bool.not_eq_false] at hc
      exact ⟨hc.1, hc.2⟩

theorem groupEdges_dirs (rp : List BP) (gs : List (List BP)) :
    ∀ e ∈ groupEdges rp gs, (e.1.k.isConn = true → e.1.up = true) ∧ (e.2.k.isConn = true → e.2.dn = true) := by
  induction gs generalizing rp with
  | nil => intro e he; simp [groupEdges] at he
  | cons g rest ih =>
    cases rest with
    | nil => intro e he; simp [groupEdges] at he
    | cons g' more =>
      intro e he
      unfold groupEdges at he
      rcases List.mem_append.mp he with he | he
      · obtain ⟨s1, _, he⟩ := List.mem_flatMap.mp he
        obtain ⟨s2, _, he⟩ := List.mem_flatMap.mp he
        exact pairEdges_dirs he
      · exact ih _ e he

/-- an edge leaves a connector end point upwards only with `up`, reaches one from below only with `dn` -/
theorem lineEdges_dirs (bps : List BP) :
    ∀ e ∈ lineEdges bps, (e.1.k.isConn = true → e.1.up = true) ∧ (e.2.k.isConn = true → e.2.dn = true) :=
  groupEdges_dirs [] _

/-! ### adjacent breakpoints are joined -/

theorem mem_splits_of_mem {α} (pre l : List α) (x : α) (hx : x ∈ l) :
    ∃ bl av, (bl, x, av) ∈ splits pre l := by
  induction l generalizing pre with
  | nil => simp at hx
  | cons y r ih =>
    unfold splits
    rcases List.mem_cons.mp hx with rfl | hx
    · exact ⟨pre, r, by simp⟩
    · obtain ⟨bl, av, h⟩ := ih (y :: pre) hx
      exact ⟨bl, av, by simp [h]⟩

theorem pairEdges_normal (before after : List BP) (last vert : BP)
    (h1 : last.k.isConn = true → last.up = true) (h2 : vert.k.isConn = true → vert.dn = true) :
    (last, vert) ∈ pairEdges before last vert after := by
  unfold pairEdges
  apply List.mem_append_right
  have : ((last.k.isConn && !last.up) || (vert.k.isConn && !vert.dn)) = false := by
    cases hl : last.k.isConn <;> cases hv : vert.k.isConn <;> simp_all
  simp [this]

/-- two breakpoints in adjacent groups are joined unless a connector end point's flag forbids it -/
theorem groupEdges_adjacent (rp : List BP) (gs1 : List (List BP)) (g g' : List BP) (gs2 : List (List BP))
    (last vert : BP) (hl : last ∈ g) (hv : vert ∈ g')
    (h1 : last.k.isConn = true → last.up = true) (h2 : vert.k.isConn = true → vert.dn = true) :
    (last, vert) ∈ groupEdges rp (gs1 ++ g :: g' :: gs2) := by
  induction gs1 generalizing rp with
  | nil =>
    simp only [List.nil_append]
    unfold groupEdges
    apply List.mem_append_left
    obtain ⟨bl, av, hs1⟩ := mem_splits_of_mem [] g last hl
    obtain ⟨bl', av', hs2⟩ := mem_splits_of_mem [] g' vert hv
    exact List.mem_flatMap.mpr ⟨_, hs1, List.mem_flatMap.mpr ⟨_, hs2, pairEdges_normal _ _ _ _ h1 h2⟩⟩
  | cons g0 r ih =>
    cases r with
    | nil =>
      simp only [List.cons_append, List.nil_append]
      unfold groupEdges
      apply List.mem_append_right
      exact ih (rp := g0.reverse ++ rp)
    | cons g1 r' =>
      simp only [List.cons_append]
      unfold groupEdges
      apply List.mem_append_right
      exact ih (rp := g0.reverse ++ rp)

theorem exists_group {l : List BP} {x : BP} (hx : x ∈ l) : ∃ g ∈ groupsOf l, x ∈ g := by
  induction l with
  | nil => simp at hx
  | cons a r ih =>
    unfold groupsOf
    rcases List.mem_cons.mp hx with rfl | hx
    · split
      · rename_i b g0 gs heq
        split
        · exact ⟨x :: b :: g0, by simp, by simp⟩
        · exact ⟨[x], by simp, by simp⟩
      · exact ⟨[x], by simp, by simp⟩
    · obtain ⟨g, hg, hxg⟩ := ih hx
      split
      · rename_i b g0 gs heq
        rw [heq] at hg
        split
        · rcases List.mem_cons.mp hg with rfl | hg
          · exact ⟨a :: b :: g0, by simp, List.mem_cons_of_mem _ hxg⟩
          · exact ⟨g, by simp [hg], hxg⟩
        · exact ⟨g, by simp [hg], hxg⟩
      · exact ⟨g, by simp [hg], hxg⟩

/-- on a sorted breakpoint list: two breakpoints at different positions with no breakpoint strictly
    between them are joined by an edge, unless a connector end point's flag forbids it -/
theorem lineEdges_adjacent {bps : List BP} (h : SortedBP bps) {a b : BP} (ha : a ∈ bps) (hb : b ∈ bps)
    (hab : a.t < b.t) (hno : ∀ c ∈ bps, ¬ (a.t < c.t ∧ c.t < b.t))
    (h1 : a.k.isConn = true → a.up = true) (h2 : b.k.isConn = true → b.dn = true) :
    (a, b) ∈ lineEdges bps := by
  have ok := groupsOf_ok bps h
  obtain ⟨ga, hga, haga⟩ := exists_group ha
  obtain ⟨gb, hgb, hbgb⟩ := exists_group hb
  obtain ⟨s, t, hst⟩ := List.append_of_mem hga
  have hinc := ok.inc
  rw [hst] at hinc hgb
  obtain ⟨_, hinc2, hcross⟩ := List.pairwise_append.mp hinc
  obtain ⟨hat, hinct⟩ := List.pairwise_cons.mp hinc2
  rcases List.mem_append.mp hgb with hgb | hgb
  · have := hcross gb hgb ga (by simp) b hbgb a haga
    grind
  rcases List.mem_cons.mp hgb with rfl | hgb
  · have := ok.uni gb hga a haga b hbgb
    grind
  obtain ⟨m, t2, hmt⟩ := List.append_of_mem hgb
  cases m with
  | nil =>
    unfold lineEdges
    rw [hst, hmt]
    exact groupEdges_adjacent [] s ga gb t2 a b haga hbgb h1 h2
  | cons g1 m' =>
    exfalso
    have hg1 : g1 ∈ groupsOf bps := by rw [hst, hmt]; simp
    have hne := ok.ne g1 hg1
    obtain ⟨c, hc⟩ := List.exists_mem_of_ne_nil g1 hne
    have hcb : c ∈ bps := mem_groupsOf hg1 hc
    have h1' : a.t < c.t := hat g1 (by rw [hmt]; simp) a haga c hc
    rw [hmt] at hinct
    have h2' : c.t < b.t := (List.pairwise_cons.mp hinct).1 gb (by simp) c hc b hbgb
    exact hno c hcb ⟨h1', h2'⟩

/-! ### chains of dummy vertices -/

/-- consecutive pairs of a list -/
def pairs {α} : List α → List (α × α)
  | a :: b :: r => (a, b) :: pairs (b :: r)
  | _ => []

/-- `ns` picks one dummy vertex from each group of `gs` -/
inductive Picks : List (List BP) → List BP → Prop
  | nil : Picks [] []
  | cons {g : List BP} {n : BP} {gs : List (List BP)} {ns : List BP} :
      n ∈ g → n.k.isConn = false → Picks gs ns → Picks (g :: gs) (n :: ns)

/-- along a run `mid` of consecutive position groups each of which carries a dummy vertex, the chosen
    dummy vertices form a chain of edges -/
theorem groupEdges_node_chain (rp : List BP) (pre mid post : List (List BP)) (ns : List BP)
    (h : Picks mid ns) :
    ∀ e ∈ pairs ns, e ∈ groupEdges rp (pre ++ mid ++ post) := by
  induction h generalizing pre with
  | nil => intro e he; simp [pairs] at he
  | @cons g n mid' ns' hm hk hrest ih =>
    cases hrest with
    | nil => intro e he; simp [pairs] at he
    | @cons g' n' mid'' ns'' hm' hk' hrest' =>
      intro e he
      simp only [pairs, List.mem_cons] at he
      rcases he with rfl | he
      · have := groupEdges_adjacent rp pre g g' (mid'' ++ post) n n' hm hm'
          (by intro hc; rw [hk] at hc; cases hc) (by intro hc; rw [hk'] at hc; cases hc)
        simpa [List.append_assoc] using this
      · have := ih (pre ++ [g]) e he
        simpa [List.append_assoc] using this


/-! ### reachability along a line -/

/-- reachability along the edges `E` of one line -/
inductive Reach (E : List (BP × BP)) : BP → BP → Prop
  | refl (a : BP) : Reach E a a
  | step {a b c : BP} : (a, b) ∈ E → Reach E b c → Reach E a c

theorem Reach.trans {E : List (BP × BP)} {a b c : BP} (h1 : Reach E a b) (h2 : Reach E b c) : Reach E a c := by
  induction h1 with
  | refl _ => exact h2
  | step he _ ih => exact Reach.step he (ih h2)

theorem filter_length_lt {α} (l : List α) (P Q : α → Bool) (hPQ : ∀ x, P x = true → Q x = true)
    (c : α) (hc : c ∈ l) (hq : Q c = true) (hp : P c = false) :
    (l.filter P).length < (l.filter Q).length := by
  induction l with
  | nil => simp at hc
  | cons a r ih =>
    have hle : (r.filter P).length ≤ (r.filter Q).length := by
      clear ih hc
      induction r with
      | nil => simp
      | cons b r' ih' =>
        simp only [List.filter_cons]
        cases hb : P b
        · cases hqb : Q b <;> simp <;> omega
        · simp [hPQ b hb]; omega
    rcases List.mem_cons.mp hc with rfl | hc'
    · simp only [List.filter_cons, hq, hp]
      simp; omega
    · have := ih hc'
      simp only [List.filter_cons]
      cases ha : P a
      · cases hqa : Q a <;> simp <;> omega
      · simp [hPQ a ha]; omega

/-- on a sorted breakpoint list: from `a` one reaches every higher breakpoint `b` along the line, provided
    the breakpoints strictly between them are dummy vertices and the flags of `a` / `b` allow the first /
    last step -/
theorem line_reach {bps : List BP} (hs : SortedBP bps) : ∀ (n : Nat) (a b : BP), a ∈ bps → b ∈ bps → a.t < b.t →
    (a.k.isConn = true → a.up = true) → (b.k.isConn = true → b.dn = true) →
    (∀ c ∈ bps, a.t < c.t → c.t < b.t → c.k.isConn = false) →
    (bps.filter fun c => decide (a.t < c.t) && decide (c.t < b.t)).length ≤ n →
    Reach (lineEdges bps) a b := by
  intro n
  induction n with
  | zero =>
    intro a b ha hb hab fa fb _ hn
    have hnil : (bps.filter fun c => decide (a.t < c.t) && decide (c.t < b.t)) = [] := List.eq_nil_of_length_eq_zero (by omega)
    have hno : ∀ c ∈ bps, ¬ (a.t < c.t ∧ c.t < b.t) := by
      intro c hc hcc
      have : c ∈ (bps.filter fun c => decide (a.t < c.t) && decide (c.t < b.t)) :=
        List.mem_filter.mpr ⟨hc, by simp [hcc.1, hcc.2]⟩
      rw [hnil] at this; simp at this
    exact Reach.step (lineEdges_adjacent hs ha hb hab hno fa fb) (Reach.refl b)
  | succ n ih =>
    intro a b ha hb hab fa fb hmid hn
    by_cases hex : ∃ c ∈ bps, a.t < c.t ∧ c.t < b.t
    · obtain ⟨c, hc, hac, hcb⟩ := hex
      have hcn : c.k.isConn = false := hmid c hc hac hcb
      have fc1 : c.k.isConn = true → c.up = true := by intro h; rw [hcn] at h; cases h
      have fc2 : c.k.isConn = true → c.dn = true := by intro h; rw [hcn] at h; cases h
      have l1 : (bps.filter fun d => decide (a.t < d.t) && decide (d.t < c.t)).length <
          (bps.filter fun d => decide (a.t < d.t) && decide (d.t < b.t)).length := by
        apply filter_length_lt bps _ _ _ c hc
        · simp [hac, hcb]
        · simp
        · intro x hx
          simp only [Bool.and_eq_true, decide_eq_true_eq] at hx ⊢
          exact ⟨hx.1, by grind⟩
      have l2 : (bps.filter fun d => decide (c.t < d.t) && decide (d.t < b.t)).length <
          (bps.filter fun d => decide (a.t < d.t) && decide (d.t < b.t)).length := by
        apply filter_length_lt bps _ _ _ c hc
        · simp [hac, hcb]
        · simp
        · intro x hx
          simp only [Bool.and_eq_true, decide_eq_true_eq] at hx ⊢
          exact ⟨by grind, hx.2⟩
      have r1 := ih a c ha hc hac fa fc2 (fun d hd h1 h2 => hmid d hd h1 (by grind)) (by omega)
      have r2 := ih c b hc hb hcb fc1 fb (fun d hd h1 h2 => hmid d hd (by grind) h2) (by omega)
      exact r1.trans r2
    · have hno : ∀ c ∈ bps, ¬ (a.t < c.t ∧ c.t < b.t) := fun c hc hcc => hex ⟨c, hc, hcc⟩
      exact Reach.step (lineEdges_adjacent hs ha hb hab hno fa fb) (Reach.refl b)


/-! ### flags of the breakpoints -/

theorem dirsX_up {conns : List Conn} {i : Nat} (h : (dirsX conns (.conn i)).2 = true) :
    ∃ c, conns[i]? = some c ∧ c.d.right = true := by
  cases hc : conns[i]? with
  | none => simp [dirsX, hc] at h
  | some c => simp [dirsX, hc] at h; exact ⟨c, rfl, h⟩

theorem dirsX_dn {conns : List Conn} {i : Nat} (h : (dirsX conns (.conn i)).1 = true) :
    ∃ c, conns[i]? = some c ∧ c.d.left = true := by
  cases hc : conns[i]? with
  | none => simp [dirsX, hc] at h
  | some c => simp [dirsX, hc] at h; exact ⟨c, rfl, h⟩

theorem dirsY_up {conns : List Conn} {i : Nat} (h : (dirsY conns (.conn i)).2 = true) :
    ∃ c, conns[i]? = some c ∧ c.d.down = true := by
  cases hc : conns[i]? with
  | none => simp [dirsY, hc] at h
  | some c => simp [dirsY, hc] at h; exact ⟨c, rfl, h⟩

theorem dirsY_dn {conns : List Conn} {i : Nat} (h : (dirsY conns (.conn i)).1 = true) :
    ∃ c, conns[i]? = some c ∧ c.d.up = true := by
  cases hc : conns[i]? with
  | none => simp [dirsY, hc] at h
  | some c => simp [dirsY, hc] at h; exact ⟨c, rfl, h⟩

theorem toBPs_flags {dirs : VK → Bool × Bool} {l : List LV} {a : BP} (h : a ∈ toBPs dirs l) :
    a.dn = (dirs a.k).1 ∧ a.up = (dirs a.k).2 := by
  unfold toBPs at h
  obtain ⟨q, _, rfl⟩ := List.mem_map.mp h
  exact ⟨rfl, rfl⟩

theorem lines_conns (s : Scene) : s.lines.conns = s.fixDirs := rfl


end AdaptaVerif.Lemmas.OrthVis
