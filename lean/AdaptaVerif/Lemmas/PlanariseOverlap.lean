/-
`removeEdgeOverlaps` of `Model.Planarise`: node groups over all lines (`nodeGroups_spec`), consecutive pairs of sorted
node lists, the overlap-free edge list is a `Good` segment list (`overlapFree_good`) and covers every route segment by a
path (`overlapFree_chain`).
-/
import AdaptaVerif.Lemmas.PlanariseGroups
import AdaptaVerif.Lemmas.PlanariseSweep
namespace AdaptaVerif.Lemmas.Planarise
open AdaptaVerif.Model.Planarise

/-! ### `computeNodeGroups`: all lines of one orientation -/

/-- the coordinate across the line -/
def ccOf (o : Ori) (n : Node) : Rat := if o = .H then n.p.y else n.p.x

theorem pt_of_vc_cc {o : Ori} {a b : Node} (h1 : vcOf o a = vcOf o b) (h2 : ccOf o a = ccOf o b) : a.p = b.p := by
  unfold vcOf ccOf at *
  cases ha : a.p; cases hb : b.p
  cases o <;> simp_all

theorem zipIdxFrom_map_fst : ∀ (b : Nat) (l : List Seg), (zipIdxFrom b l).map (·.1) = List.range' b l.length
  | _, [] => by simp [zipIdxFrom]
  | b, s :: r => by simp [zipIdxFrom, zipIdxFrom_map_fst (b + 1) r, List.range'_succ]

theorem zipIdxFrom_snd : ∀ (b : Nat) (l : List Seg) (is : Nat × Seg), is ∈ zipIdxFrom b l → is.2 ∈ l
  | _, [], _, h => by simp [zipIdxFrom] at h
  | b, s :: r, is, h => by
    simp only [zipIdxFrom, List.mem_cons] at h
    rcases h with rfl | h
    · simp
    · exact List.mem_cons_of_mem _ (zipIdxFrom_snd (b + 1) r is h)

theorem zipIdxFrom_mem : ∀ (b : Nat) (l : List Seg) (s : Seg), s ∈ l → ∃ i, (i, s) ∈ zipIdxFrom b l
  | _, [], _, h => by simp at h
  | b, t :: r, s, h => by
    rcases List.mem_cons.1 h with rfl | h
    · exact ⟨b, by simp [zipIdxFrom]⟩
    · obtain ⟨i, hi⟩ := zipIdxFrom_mem (b + 1) r s h
      exact ⟨i, by simp [zipIdxFrom, hi]⟩

theorem tolGroup_lt_one : tolGroup < 1 := by decide +kernel
theorem tolGroup_nonneg : 0 ≤ tolGroup := by decide +kernel

/-- segments of one orientation, ready for the group sweep -/
structure OriOK (o : Ori) (segs : List Seg) : Prop where
  shape : ∀ s ∈ segs, s.ori = o ∧ vcOf o s.on < vcOf o s.cn ∧ ccOf o s.on = s.cc ∧ ccOf o s.cn = s.cc
  apart : ∀ s ∈ segs, ∀ t ∈ segs, Apart s.cc t.cc
  ident : ∀ s ∈ segs, ∀ t ∈ segs, ∀ a ∈ [s.on, s.cn], ∀ b ∈ [t.on, t.cn], (a.p = b.p → a = b) ∧ (a.id = b.id → a = b)

theorem nodeGroups_spec {o : Ori} {segs : List Seg} (hO : OriOK o segs) :
    (∀ g ∈ computeNodeGroups segs, g.Pairwise (fun a b => vcOf o a < vcOf o b) ∧
        ∃ c, ∀ n ∈ g, ccOf o n = c ∧ ∃ s ∈ segs, n = s.on ∨ n = s.cn) ∧
    (computeNodeGroups segs).Pairwise
        (fun g1 g2 => ∀ a ∈ g1, ∀ b ∈ g2, ccOf o a = ccOf o b → vcOf o a ≤ vcOf o b) ∧
    (∀ s ∈ segs, ∃ g ∈ computeNodeGroups segs, s.on ∈ g ∧ s.cn ∈ g) := by
  unfold computeNodeGroups
  have hmemZ := zipIdxFrom_snd 0 segs
  obtain ⟨hperm, hconst, hinc⟩ := partition_spec (fun is : Nat × Seg => is.2.cc) tolGroup tolGroup_nonneg
    tolGroup_lt_one (zipIdxFrom 0 segs) (fun a ha b hb => hO.apart _ (hmemZ a ha) _ (hmemZ b hb))
  generalize partition (fun is : Nat × Seg => is.2.cc) tolGroup (zipIdxFrom 0 segs) = parts at hperm hconst hinc
  have hpm : ∀ part ∈ parts, ∀ is ∈ part, is.2 ∈ segs := by
    intro part hp is his
    exact hmemZ is (hperm.mem_iff.1 (List.mem_flatten.2 ⟨part, hp, his⟩))
  have hline : ∀ part ∈ parts, LineOK o part := by
    intro part hp
    obtain ⟨_, X, hX⟩ := hconst part hp
    refine ⟨?_, ?_, ?_⟩
    · have h1 : (part.map (·.1)).Sublist (parts.flatten.map (·.1)) := (List.sublist_flatten_of_mem hp).map _
      refine List.Nodup.sublist h1 ?_
      have : (parts.flatten.map (·.1)).Perm ((zipIdxFrom 0 segs).map (·.1)) := hperm.map _
      rw [this.nodup_iff, zipIdxFrom_map_fst]; exact List.nodup_range'
    · intro is his
      have := hO.shape _ (hpm part hp is his)
      exact ⟨this.1, this.2.1⟩
    · intro is his js hjs a ha b hb
      have hsi := hO.shape _ (hpm part hp is his)
      have hsj := hO.shape _ (hpm part hp js hjs)
      have hid := hO.ident _ (hpm part hp is his) _ (hpm part hp js hjs) a ha b hb
      have hcc : ccOf o a = ccOf o b := by
        have ca : ccOf o a = is.2.cc := by
          simp only [List.mem_cons, List.mem_nil_iff, or_false] at ha
          rcases ha with rfl | rfl
          · exact hsi.2.2.1
          · exact hsi.2.2.2
        have cb : ccOf o b = js.2.cc := by
          simp only [List.mem_cons, List.mem_nil_iff, or_false] at hb
          rcases hb with rfl | rfl
          · exact hsj.2.2.1
          · exact hsj.2.2.2
        rw [ca, cb, hX is his, hX js hjs]
      refine ⟨⟨fun h => ?_, fun h => ?_⟩, hid.2⟩
      · rw [hid.1 (pt_of_vc_cc h hcc)]
      · rw [hid.2 h]
  -- nodes of a group of a part lie on the part's line
  have hnodes : ∀ part ∈ parts, ∀ g ∈ groupsOfPart part, ∀ n ∈ g,
      ∃ is ∈ part, ccOf o n = is.2.cc ∧ (n = is.2.on ∨ n = is.2.cn) := by
    intro part hp g hg n hn
    obtain ⟨is, his, h⟩ := (groupsOfPart_spec (hline part hp)).2.2.2 g hg n hn
    have hs := hO.shape _ (hpm part hp is his)
    refine ⟨is, his, ?_, h⟩
    rcases h with rfl | rfl
    · exact hs.2.2.1
    · exact hs.2.2.2
  refine ⟨?_, ?_, ?_⟩
  · intro g hg
    obtain ⟨part, hp, hgp⟩ := List.mem_flatMap.1 hg
    obtain ⟨_, X, hX⟩ := hconst part hp
    refine ⟨(groupsOfPart_spec (hline part hp)).1 g hgp, X, ?_⟩
    intro n hn
    obtain ⟨is, his, h1, h2⟩ := hnodes part hp g hgp n hn
    exact ⟨by rw [h1, hX is his], is.2, hpm part hp is his, h2⟩
  · rw [List.pairwise_flatMap]
    refine ⟨fun part hp => ?_, ?_⟩
    · exact ((groupsOfPart_spec (hline part hp)).2.1).imp (fun h a ha b hb _ => h a ha b hb)
    · refine hinc.imp_of_mem ?_
      intro p1 p2 hp1 hp2 hlt g1 hg1 g2 hg2 a ha b hb hcc
      exfalso
      obtain ⟨is, his, h1, _⟩ := hnodes p1 hp1 g1 hg1 a ha
      obtain ⟨js, hjs, h2, _⟩ := hnodes p2 hp2 g2 hg2 b hb
      have := hlt is his js hjs
      rw [← h1, ← h2, hcc] at this
      exact Rat.lt_irrefl this
  · intro s hs
    obtain ⟨i, hi⟩ := zipIdxFrom_mem 0 segs s hs
    obtain ⟨part, hp, hip⟩ := List.mem_flatten.1 (hperm.mem_iff.2 hi)
    obtain ⟨g, hg, h1, h2⟩ := (groupsOfPart_spec (hline part hp)).2.2.1 (i, s) hip
    exact ⟨g, List.mem_flatMap.2 ⟨part, hp, hg⟩, h1, h2⟩

/-! ### consecutive pairs of a strictly increasing node list -/

theorem cons_mem : ∀ {g : List Node} {p : Node × Node}, p ∈ consecutive g → p.1 ∈ g ∧ p.2 ∈ g
  | [], _, h => by simp [consecutive] at h
  | [_], _, h => by simp [consecutive] at h
  | a :: b :: r, p, h => by
    simp only [consecutive, List.mem_cons] at h
    rcases h with rfl | h
    · simp
    · have := cons_mem (g := b :: r) h
      exact ⟨List.mem_cons_of_mem _ this.1, List.mem_cons_of_mem _ this.2⟩

theorem cons_lt {f : Node → Rat} : ∀ {g : List Node}, g.Pairwise (fun a b => f a < f b) →
    ∀ p ∈ consecutive g, f p.1 < f p.2
  | [], _, p, h => by simp [consecutive] at h
  | [_], _, p, h => by simp [consecutive] at h
  | a :: b :: r, hs, p, h => by
    simp only [consecutive, List.mem_cons] at h
    rw [List.pairwise_cons] at hs
    rcases h with rfl | h
    · exact hs.1 b (by simp)
    · exact cons_lt hs.2 p h

theorem cons_pairwise {f : Node → Rat} : ∀ {g : List Node}, g.Pairwise (fun a b => f a < f b) →
    (consecutive g).Pairwise (fun e1 e2 => f e1.2 ≤ f e2.1)
  | [], _ => by simp [consecutive]
  | [_], _ => by simp [consecutive]
  | a :: b :: r, hs => by
    simp only [consecutive]
    rw [List.pairwise_cons] at hs
    rw [List.pairwise_cons]
    refine ⟨?_, cons_pairwise hs.2⟩
    intro p hp
    have hm := (cons_mem hp).1
    simp only
    rcases List.mem_cons.1 hm with h | h
    · rw [h]; exact Rat.le_refl
    · have := (List.pairwise_cons.1 hs.2).1 _ h; exact Rat.le_of_lt this

/-- consecutive pairs of `l` all belong to `E` -/
def PathIn (E : List (Node × Node)) (l : List Node) : Prop := ∀ p ∈ consecutive l, p ∈ E

theorem cons_chain_head {f : Node → Rat} : ∀ {rest : List Node} {x b : Node},
    (x :: rest).Pairwise (fun a b => f a < f b) → b ∈ rest →
    ∃ mids, PathIn (consecutive (x :: rest)) (x :: mids ++ [b]) ∧ ∀ m ∈ mids, m ∈ rest ∧ f x < f m ∧ f m < f b
  | [], _, _, _, h => by simp at h
  | y :: rest, x, b, hs, hb => by
    rw [List.pairwise_cons] at hs
    by_cases hby : b = y
    · subst hby
      exact ⟨[], by intro p hp; simp [consecutive] at hp; simp [consecutive, hp], by simp⟩
    · have hb' : b ∈ rest := by
        rcases List.mem_cons.1 hb with h | h
        · exact absurd h hby
        · exact h
      obtain ⟨mids, hp, hm⟩ := cons_chain_head (f := f) hs.2 hb'
      refine ⟨y :: mids, ?_, ?_⟩
      · intro p hp'
        simp only [List.cons_append, consecutive, List.mem_cons] at hp'
        rcases hp' with rfl | hp'
        · simp [consecutive]
        · have := hp p (by simpa using hp')
          simp only [consecutive, List.mem_cons]; exact Or.inr this
      · intro m hm'
        have hyb : f y < f b := (List.pairwise_cons.1 hs.2).1 b hb'
        rcases List.mem_cons.1 hm' with rfl | h
        · exact ⟨by simp, hs.1 _ (by simp), hyb⟩
        · obtain ⟨h1, h2, h3⟩ := hm m h
          exact ⟨List.mem_cons_of_mem _ h1, by have := hs.1 y (by simp); grind, h3⟩

theorem cons_sub (x : Node) (rest : List Node) : ∀ p ∈ consecutive rest, p ∈ consecutive (x :: rest) := by
  intro p hp
  cases rest with
  | nil => simp [consecutive] at hp
  | cons y r => simp only [consecutive, List.mem_cons]; exact Or.inr hp

theorem cons_chain {f : Node → Rat} : ∀ {g : List Node} {a b : Node},
    g.Pairwise (fun a b => f a < f b) → a ∈ g → b ∈ g → f a < f b →
    ∃ mids, PathIn (consecutive g) (a :: mids ++ [b]) ∧ ∀ m ∈ mids, m ∈ g ∧ f a < f m ∧ f m < f b
  | [], _, _, _, h, _, _ => by simp at h
  | x :: rest, a, b, hs, ha, hb, hab => by
    have hs' := List.pairwise_cons.1 hs
    by_cases hax : a = x
    · subst hax
      have hb' : b ∈ rest := by
        rcases List.mem_cons.1 hb with h | h
        · rw [h] at hab; exact absurd hab Rat.lt_irrefl
        · exact h
      obtain ⟨mids, hp, hm⟩ := cons_chain_head (f := f) hs hb'
      exact ⟨mids, hp, fun m h => ⟨List.mem_cons_of_mem _ (hm m h).1, (hm m h).2⟩⟩
    · have ha' : a ∈ rest := by
        rcases List.mem_cons.1 ha with h | h
        · exact absurd h hax
        · exact h
      have hb' : b ∈ rest := by
        rcases List.mem_cons.1 hb with h | h
        · have := hs'.1 a ha'; rw [h] at hab; grind
        · exact h
      obtain ⟨mids, hp, hm⟩ := cons_chain (f := f) hs'.2 ha' hb' hab
      exact ⟨mids, fun p h => cons_sub x rest p (hp p h), fun m h => ⟨List.mem_cons_of_mem _ (hm m h).1, (hm m h).2⟩⟩

/-! ### the overlap-free graph is a `Good` segment list -/

/-- the segments built from the routes: `Good` without the no-overlap clause, plus: a node is identified by its
position and by its id -/
structure GoodA (segsA : List Seg) : Prop where
  shape : ∀ s ∈ segsA, SegH s ∨ SegV s
  sepX : ∀ s ∈ segsA, ∀ t ∈ segsA, ∀ a ∈ [s.on.p.x, s.cn.p.x], ∀ b ∈ [t.on.p.x, t.cn.p.x], Apart a b
  sepY : ∀ s ∈ segsA, ∀ t ∈ segsA, ∀ a ∈ [s.on.p.y, s.cn.p.y], ∀ b ∈ [t.on.p.y, t.cn.p.y], Apart a b
  ident : ∀ s ∈ segsA, ∀ t ∈ segsA, ∀ a ∈ [s.on, s.cn], ∀ b ∈ [t.on, t.cn], (a.p = b.p → a = b) ∧ (a.id = b.id → a = b)

theorem mkSeg_eq (o : Ori) {a b : Node} (hc : ccOf o a = ccOf o b) (hv : vcOf o a < vcOf o b) :
    mkSeg a b = ⟨o, ccOf o a, vcOf o a, vcOf o b, a, b⟩ := by
  cases o
  · simp only [ccOf, vcOf, if_true] at hc hv ⊢
    unfold mkSeg
    have h0 : b.p.y - a.p.y = 0 := by grind
    have h1 : absR (b.p.y - a.p.y) ≤ absR (b.p.x - a.p.x) := by
      rw [h0]; have := absR_nonneg (b.p.x - a.p.x); unfold absR at *; grind
    have h2 : b.p.x - a.p.x > 0 := by grind
    simp [h1, h2]
  · simp only [ccOf, vcOf] at hc hv ⊢
    simp only [show (Ori.V = Ori.H) = False from by simp, if_false] at hc hv ⊢
    unfold mkSeg
    have h0 : b.p.x - a.p.x = 0 := by grind
    have h1 : ¬ absR (b.p.y - a.p.y) ≤ absR (b.p.x - a.p.x) := by
      rw [h0]; have := absR_pos (r := b.p.y - a.p.y) (by grind); unfold absR at *; grind
    have h2 : b.p.y - a.p.y > 0 := by grind
    simp [h1, h2]

theorem GoodA.oriOK {segsA : List Seg} (hA : GoodA segsA) (o : Ori) :
    OriOK o (segsA.filter (fun s => s.ori = o)) := by
  refine ⟨?_, ?_, ?_⟩
  · intro s hs
    obtain ⟨hm, ho⟩ := List.mem_filter.1 hs
    have ho : s.ori = o := by simpa using ho
    rcases hA.shape s hm with sh | sv
    · rw [sh.1] at ho; subst ho
      simp only [vcOf, ccOf, if_true]
      exact ⟨sh.1, by rw [sh.2.2.2.1, sh.2.2.2.2.1]; exact sh.2.2.2.2.2, sh.2.1, sh.2.2.1⟩
    · rw [sv.1] at ho; subst ho
      simp only [vcOf, ccOf, show (Ori.V = Ori.H) = False from by simp, if_false]
      exact ⟨sv.1, by rw [sv.2.2.2.1, sv.2.2.2.2.1]; exact sv.2.2.2.2.2, sv.2.1, sv.2.2.1⟩
  · intro s hs t ht
    have hms := (List.mem_filter.1 hs).1
    have hmt := (List.mem_filter.1 ht).1
    have hos : s.ori = o := by simpa using (List.mem_filter.1 hs).2
    have hot : t.ori = o := by simpa using (List.mem_filter.1 ht).2
    rcases hA.shape s hms with sh | sv <;> rcases hA.shape t hmt with th | tv
    · rw [← sh.2.1, ← th.2.1]; exact hA.sepY s hms t hmt _ (by simp) _ (by simp)
    · rw [sh.1] at hos; rw [tv.1] at hot; rw [← hos] at hot; cases hot
    · rw [sv.1] at hos; rw [th.1] at hot; rw [← hos] at hot; cases hot
    · rw [← sv.2.1, ← tv.2.1]; exact hA.sepX s hms t hmt _ (by simp) _ (by simp)
  · intro s hs t ht
    exact hA.ident s (List.mem_filter.1 hs).1 t (List.mem_filter.1 ht).1

/-- edges contributed by the groups of one orientation -/
def edgesOf (o : Ori) (segsA : List Seg) : List (Node × Node) :=
  (computeNodeGroups (segsA.filter (fun s => s.ori = o))).flatMap consecutive

theorem overlapFreeEdges_eq (segsA : List Seg) :
    overlapFreeEdges segsA = edgesOf .H segsA ++ edgesOf .V segsA := by
  simp [overlapFreeEdges, edgesOf, List.flatMap_append]

theorem edgesOf_facts {segsA : List Seg} (hA : GoodA segsA) (o : Ori) :
    (∀ e ∈ edgesOf o segsA, mkSeg e.1 e.2 = ⟨o, ccOf o e.1, vcOf o e.1, vcOf o e.2, e.1, e.2⟩ ∧
        vcOf o e.1 < vcOf o e.2 ∧ ccOf o e.1 = ccOf o e.2 ∧
        (∃ s ∈ segsA, e.1 = s.on ∨ e.1 = s.cn) ∧ (∃ s ∈ segsA, e.2 = s.on ∨ e.2 = s.cn)) ∧
    (edgesOf o segsA).Pairwise (fun e1 e2 => ccOf o e1.1 = ccOf o e2.1 → vcOf o e1.2 ≤ vcOf o e2.1) := by
  obtain ⟨q1, q2, _⟩ := nodeGroups_spec (hA.oriOK o)
  have hsub : ∀ s ∈ segsA.filter (fun s => s.ori = o), s ∈ segsA := fun s h => (List.mem_filter.1 h).1
  have hedge : ∀ g ∈ computeNodeGroups (segsA.filter (fun s => s.ori = o)), ∀ e ∈ consecutive g,
      vcOf o e.1 < vcOf o e.2 ∧ ccOf o e.1 = ccOf o e.2 ∧
      (∃ s ∈ segsA, e.1 = s.on ∨ e.1 = s.cn) ∧ (∃ s ∈ segsA, e.2 = s.on ∨ e.2 = s.cn) := by
    intro g hg e he
    obtain ⟨hs, c, hc⟩ := q1 g hg
    obtain ⟨m1, m2⟩ := cons_mem he
    obtain ⟨c1, s1, hs1, h1⟩ := hc _ m1
    obtain ⟨c2, s2, hs2, h2⟩ := hc _ m2
    exact ⟨cons_lt hs e he, by rw [c1, c2], ⟨s1, hsub _ hs1, h1⟩, ⟨s2, hsub _ hs2, h2⟩⟩
  constructor
  · intro e he
    obtain ⟨g, hg, heg⟩ := List.mem_flatMap.1 he
    obtain ⟨h1, h2, h3, h4⟩ := hedge g hg e heg
    exact ⟨mkSeg_eq o h2 h1, h1, h2, h3, h4⟩
  · unfold edgesOf
    rw [List.pairwise_flatMap]
    refine ⟨fun g hg => ?_, ?_⟩
    · have hcp : (consecutive g).Pairwise (fun e1 e2 => vcOf o e1.2 ≤ vcOf o e2.1) :=
        cons_pairwise (f := vcOf o) (q1 g hg).1
      exact hcp.imp (by intro a b h _; exact h)
    · refine q2.imp_of_mem ?_
      intro g1 g2 hg1 hg2 h e1 he1 e2 he2 hcc
      have m1 := (cons_mem he1)
      have m2 := (cons_mem he2)
      have c1 := (hedge g1 hg1 e1 he1).2.1
      exact h _ m1.2 _ m2.1 (by rw [← c1, hcc])

theorem overlapFree_good {segsA : List Seg} (hA : GoodA segsA) :
    Good ((overlapFreeEdges segsA).map (fun e => mkSeg e.1 e.2)) := by
  rw [overlapFreeEdges_eq]
  obtain ⟨fH, pH⟩ := edgesOf_facts hA .H
  obtain ⟨fV, pV⟩ := edgesOf_facts hA .V
  have hmem : ∀ t ∈ (edgesOf .H segsA ++ edgesOf .V segsA).map (fun e => mkSeg e.1 e.2),
      ∃ (o : Ori) (e : Node × Node), e ∈ edgesOf o segsA ∧ t = ⟨o, ccOf o e.1, vcOf o e.1, vcOf o e.2, e.1, e.2⟩ ∧
        vcOf o e.1 < vcOf o e.2 ∧ ccOf o e.1 = ccOf o e.2 ∧
        (∃ s ∈ segsA, e.1 = s.on ∨ e.1 = s.cn) ∧ (∃ s ∈ segsA, e.2 = s.on ∨ e.2 = s.cn) := by
    intro t ht
    obtain ⟨e, he, rfl⟩ := List.mem_map.1 ht
    rcases List.mem_append.1 he with h | h
    · obtain ⟨a, b⟩ := fH e h; exact ⟨.H, e, h, a, b⟩
    · obtain ⟨a, b⟩ := fV e h; exact ⟨.V, e, h, a, b⟩
  have hx : ∀ (n : Node), (∃ s ∈ segsA, n = s.on ∨ n = s.cn) → ∃ s ∈ segsA, n.p.x ∈ [s.on.p.x, s.cn.p.x] ∧ n.p.y ∈ [s.on.p.y, s.cn.p.y] := by
    rintro n ⟨s, hs, rfl | rfl⟩ <;> exact ⟨s, hs, by simp, by simp⟩
  refine ⟨?_, ?_, ?_, ?_⟩
  · intro t ht
    obtain ⟨o, e, _, rfl, h1, h2, _, _⟩ := hmem t ht
    cases o
    · left; simp only [vcOf, ccOf, if_true] at h1 h2 ⊢
      exact ⟨rfl, rfl, h2.symm, rfl, rfl, h1⟩
    · right; simp only [vcOf, ccOf, show (Ori.V = Ori.H) = False from by simp, if_false] at h1 h2 ⊢
      exact ⟨rfl, rfl, h2.symm, rfl, rfl, h1⟩
  · intro t ht u hu a ha b hb
    obtain ⟨o, e, _, rfl, _, _, n1, n2⟩ := hmem t ht
    obtain ⟨o', e', _, rfl, _, _, n1', n2'⟩ := hmem u hu
    simp only [List.mem_cons, List.mem_nil_iff, or_false] at ha hb
    obtain ⟨s1, hs1, x1, _⟩ := hx _ n1; obtain ⟨s2, hs2, x2, _⟩ := hx _ n2
    obtain ⟨s1', hs1', x1', _⟩ := hx _ n1'; obtain ⟨s2', hs2', x2', _⟩ := hx _ n2'
    rcases ha with rfl | rfl <;> rcases hb with rfl | rfl
    · exact hA.sepX s1 hs1 s1' hs1' _ x1 _ x1'
    · exact hA.sepX s1 hs1 s2' hs2' _ x1 _ x2'
    · exact hA.sepX s2 hs2 s1' hs1' _ x2 _ x1'
    · exact hA.sepX s2 hs2 s2' hs2' _ x2 _ x2'
  · intro t ht u hu a ha b hb
    obtain ⟨o, e, _, rfl, _, _, n1, n2⟩ := hmem t ht
    obtain ⟨o', e', _, rfl, _, _, n1', n2'⟩ := hmem u hu
    simp only [List.mem_cons, List.mem_nil_iff, or_false] at ha hb
    obtain ⟨s1, hs1, _, y1⟩ := hx _ n1; obtain ⟨s2, hs2, _, y2⟩ := hx _ n2
    obtain ⟨s1', hs1', _, y1'⟩ := hx _ n1'; obtain ⟨s2', hs2', _, y2'⟩ := hx _ n2'
    rcases ha with rfl | rfl <;> rcases hb with rfl | rfl
    · exact hA.sepY s1 hs1 s1' hs1' _ y1 _ y1'
    · exact hA.sepY s1 hs1 s2' hs2' _ y1 _ y2'
    · exact hA.sepY s2 hs2 s1' hs1' _ y2 _ y1'
    · exact hA.sepY s2 hs2 s2' hs2' _ y2 _ y2'
  · rw [List.pairwise_map, List.pairwise_append]
    refine ⟨?_, ?_, ?_⟩
    · refine pH.imp_of_mem ?_
      intro e1 e2 h1 h2 h _ hcc
      rw [(fH e1 h1).1, (fH e2 h2).1] at hcc ⊢
      simp only at hcc ⊢
      exact Or.inl (h hcc)
    · refine pV.imp_of_mem ?_
      intro e1 e2 h1 h2 h _ hcc
      rw [(fV e1 h1).1, (fV e2 h2).1] at hcc ⊢
      simp only at hcc ⊢
      exact Or.inl (h hcc)
    · intro e1 h1 e2 h2 ho
      rw [(fH e1 h1).1, (fV e2 h2).1] at ho
      simp at ho

/-- every route segment is covered, end to end, by a path of overlap-free edges whose intermediate nodes are segment
ends lying strictly inside it -/
theorem overlapFree_chain {segsA : List Seg} (hA : GoodA segsA) :
    ∀ s ∈ segsA, ∃ mids, PathIn (overlapFreeEdges segsA) (s.on :: mids ++ [s.cn]) ∧
      ∀ m ∈ mids, (∃ t ∈ segsA, m = t.on ∨ m = t.cn) ∧ ccOf s.ori m = s.cc ∧
        vcOf s.ori s.on < vcOf s.ori m ∧ vcOf s.ori m < vcOf s.ori s.cn := by
  intro s hs
  have hsf : s ∈ segsA.filter (fun t => t.ori = s.ori) := List.mem_filter.2 ⟨hs, by simp⟩
  have hO := hA.oriOK s.ori
  obtain ⟨q1, _, q3⟩ := nodeGroups_spec hO
  obtain ⟨g, hg, hon, hcn⟩ := q3 s hsf
  obtain ⟨hsorted, c, hc⟩ := q1 g hg
  have hsh := hO.shape s hsf
  obtain ⟨mids, hp, hm⟩ := cons_chain (f := vcOf s.ori) hsorted hon hcn hsh.2.1
  refine ⟨mids, ?_, ?_⟩
  · intro p hpp
    have h1 := hp p hpp
    rw [overlapFreeEdges_eq]
    have h2 : p ∈ edgesOf s.ori segsA := List.mem_flatMap.2 ⟨g, hg, h1⟩
    cases ho : s.ori
    · rw [ho] at h2; exact List.mem_append_left _ h2
    · rw [ho] at h2; exact List.mem_append_right _ h2
  · intro m hmm
    obtain ⟨hmg, h1, h2⟩ := hm m hmm
    obtain ⟨c1, t, ht, h3⟩ := hc m hmg
    obtain ⟨c2, _⟩ := hc _ hon
    exact ⟨⟨t, (List.mem_filter.1 ht).1, h3⟩, by rw [c1, ← c2, hsh.2.2.1], h1, h2⟩


end AdaptaVerif.Lemmas.Planarise
