/-
The polyline A* problem (Model/PolyAStar.lean): its successors, and consistency of the heuristic from the
per-graph check.
-/
import AdaptaVerif.Model.PolyAStar
import AdaptaVerif.Lemmas.AStarOpt
import Mathlib.Tactic.Linarith
import Mathlib.Tactic.Positivity
namespace AdaptaVerif.Lemmas.PolyAStar
open AdaptaVerif.Model.AStar AdaptaVerif.Model.PolyAStar AdaptaVerif.Check.OwnGraph

/-- what an examined edge that survives the skip rules looks like -/
theorem succOf_some (g : PolyGraph) (pv : Option Nat) (v : Nat) (wd : Nat × Rat) (s : Succ)
    (h : succOf g pv v wd = some s) :
    s.w = wd.1 ∧ s.h = hOf g wd.1 ∧ pv ≠ some wd.1 ∧ (g.corner wd.1 = true ∨ wd.1 = g.tar) ∧
    (match pv with
      | none => s.c = wd.2
      | some p => g.S.ok p v wd.1 = true ∧ s.c = wd.2 + g.S.pen * (g.S.bend p v wd.1 : Nat)) := by
  unfold succOf at h
  simp only at h
  split at h
  · cases h
  · rename_i h1
    split at h
    · cases h
    · rename_i h2
      split at h
      · cases h
      · have hc : g.corner wd.1 = true ∨ wd.1 = g.tar := by
          by_cases hk : g.corner wd.1 = true
          · exact Or.inl hk
          · right
            by_contra hne
            apply h2
            simp [hk, hne]
        cases pv with
        | none =>
          simp only [Option.some.injEq] at h
          subst h
          exact ⟨rfl, rfl, h1, hc, rfl⟩
        | some p =>
          simp only at h
          split at h
          · cases h
          · rename_i h4
            simp only [Option.some.injEq] at h
            subst h
            refine ⟨rfl, rfl, h1, hc, ?_, rfl⟩
            simpa using h4

theorem mem_succs (g : PolyGraph) (pv : Option Nat) (v : Nat) (s : Succ)
    (h : some s ∈ (problem g).succs pv v) :
    ∃ wd ∈ g.adj.getD v [], succOf g pv v wd = some s := by
  simp only [problem, List.mem_map] at h
  obtain ⟨wd, hwd, he⟩ := h
  exact ⟨wd, hwd, he⟩

theorem consistent_spec (g : PolyGraph) (hc : consistent g = true) (v : Nat) (wd : Nat × Rat)
    (hwd : wd ∈ g.adj.getD v []) : hOf g v ≤ wd.2 + hOf g wd.1 := by
  by_cases hv : v < g.adj.size
  · unfold consistent at hc
    have := List.all_eq_true.mp hc v (List.mem_range.mpr hv)
    have := List.all_eq_true.mp this wd hwd
    simpa using this
  · have : g.adj.getD v [] = [] := by
      simp [Array.getD, hv]
    rw [this] at hwd
    cases hwd

/-- with a non-negative penalty every step costs at least the edge length, so the check gives consistency -/
theorem step_consistent (g : PolyGraph) (hpen : 0 ≤ g.S.pen) (hc : consistent g = true)
    (pv : Option Nat) (v : Nat) (s : Succ) (h : some s ∈ (problem g).succs pv v) :
    hOf g v ≤ s.c + hOf g s.w := by
  obtain ⟨wd, hwd, he⟩ := mem_succs g pv v s h
  obtain ⟨hw, _, _, _, hcost⟩ := succOf_some g pv v wd s he
  have hcs := consistent_spec g hc v wd hwd
  rw [hw]
  cases pv with
  | none =>
    simp only at hcost
    rw [hcost]; exact hcs
  | some p =>
    simp only at hcost
    have hb : (0 : Rat) ≤ g.S.pen * (g.S.bend p v wd.1 : Nat) :=
      Rat.mul_nonneg hpen (by exact_mod_cast Nat.zero_le _)
    rw [hcost.2]
    linarith

end AdaptaVerif.Lemmas.PolyAStar
