/-
Lemmas about the executable IncSolver model (`Model/Vpsc.lean`).
-/
import AdaptaVerif.Model.Vpsc
import AdaptaVerif.Lemmas.Vpsc
namespace AdaptaVerif.Lemmas.VpscModel
open AdaptaVerif.Model.Vpsc
open AdaptaVerif.Check.Vpsc (Edge walkEnd sumW)
open AdaptaVerif.Spec.Vpsc (ClosedWalk)

/-! ### the exit scan -/

theorem scanOk_iff (vars : Array Var) (cons : Array Con) (pos : Array Rat) :
    scanOk vars cons pos = true ↔
      ∀ c ∈ cons, c.unsat = false → ZERO_UPPERBOUND ≤ slackAt vars pos c := by
  unfold scanOk
  rw [Array.all_eq_true_iff_forall_mem]
  constructor
  · intro h c hc hu
    have := h c hc
    simpa [hu] using this
  · intro h c hc
    cases hu : c.unsat with
    | true => simp
    | false => simpa using h c hc hu

/-- `satisfy` returns normally only through the exit scan, on the positions it reports -/
theorem satisfy_ok (st st' : St) (pos : Array Rat) (ret : Bool)
    (h : st.satisfy = (st', .ok pos ret)) :
    pos = st'.positions ∧ scanOk st'.vars st'.cons pos = true := by
  unfold St.satisfy at h
  simp only at h
  split at h
  · simp at h
  · split at h
    · rename_i hscan
      simp only [Prod.mk.injEq, Outcome.ok.injEq] at h
      obtain ⟨h1, h2, _⟩ := h
      subst h1
      subst h2
      exact ⟨rfl, hscan⟩
    · simp at h

theorem positions_note (st : St) (m : Rat) : (st.note m).positions = st.positions := rfl

theorem solveLoop_scan : ∀ (fuel : Nat) (st : St) (lc c : Rat) (st2 : St),
    St.solveLoop fuel st lc c = (st2, none) →
    scanOk st.vars st.cons st.positions = true →
    scanOk st2.vars st2.cons st2.positions = true := by
  intro fuel
  induction fuel with
  | zero => intro st lc c st2 h; simp [St.solveLoop] at h
  | succ fuel ih =>
    intro st lc c st2 h hs
    unfold St.solveLoop at h
    simp only at h
    split at h
    · split at h
      · rename_i st3 p r hsat
        have := satisfy_ok _ _ _ _ hsat
        exact ih _ _ _ _ h (this.1 ▸ this.2)
      · simp at h
    · simp only [Prod.mk.injEq, and_true] at h
      subst h
      exact hs

/-- `solve` returns normally only with positions that pass the exit scan -/
theorem solve_ok (st st' : St) (pos : Array Rat) (ret : Bool)
    (h : st.solve = (st', .ok pos ret)) :
    pos = st'.positions ∧ scanOk st'.vars st'.cons pos = true := by
  unfold St.solve at h
  split at h
  · rename_i st1 p1 r1 h1
    split at h
    · rename_i st2 p2 r2 h2
      have hs2 := satisfy_ok _ _ _ _ h2
      split at h
      · rename_i st3 h3
        simp only [Prod.mk.injEq, Outcome.ok.injEq] at h
        obtain ⟨e1, e2, _⟩ := h
        subst e1
        subst e2
        exact ⟨rfl, solveLoop_scan _ _ _ _ _ h3 (hs2.1 ▸ hs2.2)⟩
      · rename_i st3 o h3
        simp only [Prod.mk.injEq] at h
        -- the loop ended with an exceptional outcome `o`; it cannot be `.ok`
        obtain ⟨_, e2⟩ := h
        subst e2
        exfalso
        exact solveLoop_not_ok _ _ _ _ _ _ _ h3
    · rename_i st2 o hne h2
      simp only [Prod.mk.injEq] at h
      obtain ⟨_, e2⟩ := h
      subst e2
      exact (hne _ _ rfl).elim
  · rename_i st1 o hne h1
    simp only [Prod.mk.injEq] at h
    obtain ⟨_, e2⟩ := h
    subst e2
    exact (hne _ _ rfl).elim
where
  solveLoop_not_ok : ∀ (fuel : Nat) (st : St) (lc c : Rat) (st2 : St) (p : Array Rat) (r : Bool),
      St.solveLoop fuel st lc c = (st2, some (.ok p r)) → False := by
    intro fuel
    induction fuel with
    | zero => intro st lc c st2 p r h; simp [St.solveLoop] at h
    | succ fuel ih =>
      intro st lc c st2 p r h
      unfold St.solveLoop at h
      simp only at h
      split at h
      · split at h
        · exact ih _ _ _ _ _ _ h
        · rename_i st3 o hne hsat
          simp only [Prod.mk.injEq, Option.some.injEq] at h
          obtain ⟨_, e2⟩ := h
          subst e2
          exact hne _ _ rfl
      · simp at h

/-! ### cycles -/

def conEdge (c : Con) : Edge := ⟨c.l, c.r, c.gap⟩

/-- If the exit scan passes and the constraint list contains a closed walk whose total gap exceeds
    `length · |ZERO_UPPERBOUND|`, some constraint on the walk is flagged unsatisfiable. -/
theorem scan_flags_cycle (vars : Array Var) (cons : Array Con) (pos : Array Rat)
    (hscan : scanOk vars cons pos = true)
    (cyc : List Con) (hmem : ∀ c ∈ cyc, c ∈ cons) (hc : ClosedWalk (cyc.map conEdge))
    (hgap : (cyc.length : Rat) * (-ZERO_UPPERBOUND) < sumW (cyc.map conEdge)) :
    ∃ c ∈ cyc, c.unsat = true := by
  by_contra hno
  have hno' : ∀ c ∈ cyc, c.unsat = false := by
    intro c hc'
    cases hu : c.unsat with
    | false => rfl
    | true => exact absurd ⟨c, hc', hu⟩ hno
  rw [scanOk_iff] at hscan
  have := Lemmas.Vpsc.closed_walk_sum (fun i => (vars[i]!).scale * pos[i]!) (-ZERO_UPPERBOUND)
    (cyc.map conEdge) hc (by
      intro e he
      simp only [List.mem_map] at he
      obtain ⟨c, hc', rfl⟩ := he
      have := hscan c (hmem c hc') (hno' c hc')
      simp only [slackAt] at this
      simp only [conEdge]
      linarith)
  simp only [List.length_map] at this
  linarith

/-! ### block-invariant pieces: merge -/

theorem shiftVars_size (vars : Array Var) (s d : Nat) (x : Rat) :
    (shiftVars vars s d x).size = vars.size := by simp [shiftVars]

theorem shiftVars_get (vars : Array Var) (s d : Nat) (x : Rat) (i : Nat) (hi : i < vars.size) :
    (shiftVars vars s d x)[i]! =
      (if (vars[i]!).block == s then { vars[i]! with offset := (vars[i]!).offset + x, block := d } else vars[i]!) := by
  have h1 : i < (shiftVars vars s d x).size := by rw [shiftVars_size]; exact hi
  rw [getElem!_pos _ i h1, getElem!_pos vars i hi]
  simp [shiftVars]

/-- scaled coordinate of a variable = block coordinate + offset; for two variables of one block
    the slack of a constraint between them is the difference of their offsets minus the gap -/
theorem slack_same_block (st : St) (c : Con)
    (hb : (st.vars[c.l]!).block = (st.vars[c.r]!).block) :
    st.uval c.r - c.gap - st.uval c.l = (st.vars[c.r]!).offset - c.gap - (st.vars[c.l]!).offset := by
  simp only [St.uval, hb]
  ring

/-- `scale_i · position_i` is the scaled coordinate (scale ≠ 0) -/
theorem scale_mul_pos (st : St) (i : Nat) (hs : (st.vars[i]!).scale ≠ 0) :
    (st.vars[i]!).scale * st.pos i = st.uval i := by
  simp only [St.pos, St.uval, posOf]
  field_simp

/-- the variable array after `mergeAcross` is a `shiftVars` of the old one -/
theorem mergeAcross_vars (st : St) (ci : Nat) :
    (st.mergeAcross ci).1.vars =
      (let c := st.cons[ci]!
       let vl := st.vars[c.l]!
       let vr := st.vars[c.r]!
       let dist := vr.offset - vl.offset - c.gap
       if (st.blocks[vl.block]!).vars.size < (st.blocks[vr.block]!).vars.size
       then shiftVars st.vars vl.block vr.block dist
       else shiftVars st.vars vr.block vl.block (-dist)) := by
  unfold St.mergeAcross
  simp only [St.refreshBlock]
  split <;> rfl

/-- **merge makes the merged constraint tight and puts both ends in one block**
    (`Block::merge(b, c)` / `Block::merge(b, c, dist)`) -/
theorem mergeAcross_tight (st : St) (ci : Nat)
    (hl : (st.cons[ci]!).l < st.vars.size) (hr : (st.cons[ci]!).r < st.vars.size)
    (hne : (st.vars[(st.cons[ci]!).l]!).block ≠ (st.vars[(st.cons[ci]!).r]!).block) :
    let c := st.cons[ci]!
    let st' := (st.mergeAcross ci).1
    (st'.vars[c.r]!).offset - c.gap - (st'.vars[c.l]!).offset = 0 ∧
    (st'.vars[c.l]!).block = (st'.vars[c.r]!).block := by
  intro c st'
  have hv : st'.vars = _ := mergeAcross_vars st ci
  simp only at hv
  have hne' : ¬ ((st.vars[(st.cons[ci]!).r]!).block = (st.vars[(st.cons[ci]!).l]!).block) :=
    fun h => hne h.symm
  show (st'.vars[(st.cons[ci]!).r]!).offset - (st.cons[ci]!).gap - (st'.vars[(st.cons[ci]!).l]!).offset = 0 ∧
    (st'.vars[(st.cons[ci]!).l]!).block = (st'.vars[(st.cons[ci]!).r]!).block
  split at hv
  · rw [hv, shiftVars_get _ _ _ _ _ hl, shiftVars_get _ _ _ _ _ hr]
    simp only [beq_self_eq_true, if_true, beq_iff_eq, if_neg hne']
    exact ⟨by ring, trivial⟩
  · rw [hv, shiftVars_get _ _ _ _ _ hl, shiftVars_get _ _ _ _ _ hr]
    simp only [beq_self_eq_true, if_true, beq_iff_eq, if_neg hne]
    exact ⟨by ring, trivial⟩

/-- **merge keeps every block rigid**: two variables that were in one block before the merge are
    in one block afterwards and keep their offset difference (so every constraint that was tight
    inside a block — in particular every active one — stays tight) -/
theorem mergeAcross_preserves (st : St) (ci : Nat) (i j : Nat)
    (hi : i < st.vars.size) (hj : j < st.vars.size)
    (hsame : (st.vars[i]!).block = (st.vars[j]!).block) :
    let st' := (st.mergeAcross ci).1
    (st'.vars[j]!).offset - (st'.vars[i]!).offset = (st.vars[j]!).offset - (st.vars[i]!).offset ∧
    (st'.vars[i]!).block = (st'.vars[j]!).block := by
  intro st'
  have hv : st'.vars = _ := mergeAcross_vars st ci
  simp only at hv
  split at hv
  · rw [hv, shiftVars_get _ _ _ _ _ hi, shiftVars_get _ _ _ _ _ hj, hsame]
    split
    · exact ⟨by simp only []; ring, rfl⟩
    · exact ⟨rfl, hsame⟩
  · rw [hv, shiftVars_get _ _ _ _ _ hi, shiftVars_get _ _ _ _ _ hj, hsame]
    split
    · exact ⟨by simp only []; ring, rfl⟩
    · exact ⟨rfl, hsame⟩

/-- merge does not touch the data of constraints other than setting `active` on the merged one -/
theorem mergeAcross_cons (st : St) (ci : Nat) :
    (st.mergeAcross ci).1.cons = st.cons.set! ci { st.cons[ci]! with active := true } := by
  unfold St.mergeAcross
  simp only [St.refreshBlock]

/-- the offset part of the block invariant: every active constraint has in-range ends that share a
    block, and is tight in offsets -/
def OffsetInv (st : St) : Prop :=
  ∀ c ∈ st.cons, c.active = true →
    c.l < st.vars.size ∧ c.r < st.vars.size ∧
    (st.vars[c.l]!).block = (st.vars[c.r]!).block ∧
    (st.vars[c.r]!).offset - c.gap - (st.vars[c.l]!).offset = 0

/-- **`merge` preserves the offset invariant** (any state, any constraint whose ends are in range
    and lie in different blocks) -/
theorem mergeAcross_offsetInv (st : St) (ci : Nat) (hinv : OffsetInv st)
    (hl : (st.cons[ci]!).l < st.vars.size) (hr : (st.cons[ci]!).r < st.vars.size)
    (hne : (st.vars[(st.cons[ci]!).l]!).block ≠ (st.vars[(st.cons[ci]!).r]!).block) :
    OffsetInv (st.mergeAcross ci).1 := by
  intro c hc hact
  have hsz : (st.mergeAcross ci).1.vars.size = st.vars.size := by
    rw [mergeAcross_vars]
    simp only
    split <;> exact shiftVars_size _ _ _ _
  rw [mergeAcross_cons, Array.set!_eq_setIfInBounds] at hc
  rcases Array.mem_or_eq_of_mem_setIfInBounds hc with hc | hc
  · -- an old constraint: it was active before, rigid motion keeps it tight
    obtain ⟨h1, h2, h3, h4⟩ := hinv c hc hact
    have := mergeAcross_preserves st ci c.l c.r h1 h2 h3
    simp only at this
    refine ⟨hsz ▸ h1, hsz ▸ h2, this.2, ?_⟩
    have h5 := this.1
    linarith
  · -- the merged constraint itself
    subst hc
    have := mergeAcross_tight st ci hl hr hne
    simp only at this
    exact ⟨hsz ▸ hl, hsz ▸ hr, this.2, this.1⟩

end AdaptaVerif.Lemmas.VpscModel
