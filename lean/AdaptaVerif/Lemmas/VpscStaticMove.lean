/-
The arithmetic of `Block::merge` in the static/incremental VPSC model on unit scales: the merged block sits at the
weighted mean of the two old positions (`merge_posn`), so the two blocks move apart from the violated constraint in
proportion to the OTHER block's weight (`mergeDir_moves`) — the key step of the VPSC satisfy argument ("the left
block moves left, the right block moves right").
-/
import AdaptaVerif.Lemmas.VpscKktFresh
import AdaptaVerif.Lemmas.VpscStatic
import Mathlib.Tactic.FieldSimp
import Mathlib.Tactic.Linarith
namespace AdaptaVerif.Lemmas.VpscStaticMove
open AdaptaVerif.Model.Vpsc AdaptaVerif.Model.VpscStatic
open AdaptaVerif.Lemmas.VpscInv AdaptaVerif.Lemmas.VpscModel AdaptaVerif.Lemmas.VpscKktFresh
open AdaptaVerif.Spec.Qp (listSum)
open AdaptaVerif.Lemmas.VpscHistory (get!_set!)

theorem listSum_append {α : Type} (f : α → Rat) (a b : List α) :
    listSum f (a ++ b) = listSum f a + listSum f b := by
  induction a with
  | nil => simp [listSum]
  | cons x a ih => simp only [List.cons_append, listSum, ih]; ring

/-- total weight of a member list -/
def wsum (vars : Array Var) (m : Array Nat) : Rat := listSum (fun i => (vars[i]!).weight) m.toList

/-- `Block::updateWeightedPosition` on unit scales: the weighted mean of `desired − offset` -/
theorem blockPosn_unit (vars : Array Var) (m : Array Nat) (hs : ∀ x ∈ m, (vars[x]!).scale = 1)
    (h0 : (vars[m[0]!]!).scale = 1) :
    (blockPosn vars m).2 =
      listSum (fun i => (vars[i]!).weight * ((vars[i]!).desired - (vars[i]!).offset)) m.toList / wsum vars m := by
  rw [blockPosn_eq]
  simp only [h0]
  have e1 : listSum (fun i => (vars[i]!).weight * (1 / (vars[i]!).scale) * (vars[i]!).desired) m.toList =
      listSum (fun i => (vars[i]!).weight * (vars[i]!).desired) m.toList :=
    listSum_congr (fun a ha => by rw [hs a (by simpa using ha)]; ring)
  have e2 : listSum (fun i => (vars[i]!).weight * (1 / (vars[i]!).scale) * ((vars[i]!).offset / (vars[i]!).scale)) m.toList =
      listSum (fun i => (vars[i]!).weight * (vars[i]!).offset) m.toList :=
    listSum_congr (fun a ha => by rw [hs a (by simpa using ha)]; ring)
  have e3 : listSum (fun i => (vars[i]!).weight * (1 / (vars[i]!).scale) * (1 / (vars[i]!).scale)) m.toList =
      wsum vars m :=
    listSum_congr (fun a ha => by rw [hs a (by simpa using ha)]; ring)
  rw [e1, e2, e3]
  congr 1
  have : listSum (fun i => (vars[i]!).weight * ((vars[i]!).desired - (vars[i]!).offset)) m.toList =
      listSum (fun i => (vars[i]!).weight * (vars[i]!).desired + -((vars[i]!).weight * (vars[i]!).offset)) m.toList :=
    listSum_congr (fun a _ => by ring)
  rw [this, listSum_add]
  have : listSum (fun i => -((vars[i]!).weight * (vars[i]!).offset)) m.toList =
      -listSum (fun i => (vars[i]!).weight * (vars[i]!).offset) m.toList := by
    induction m.toList with
    | nil => simp [listSum]
    | cons a l ih => simp only [listSum, ih]; ring
  rw [this]; ring

theorem getElem!_mem_of_pos (m : Array Nat) (h : 0 < m.size) : m[0]! ∈ m := by
  rw [getElem!_pos m 0 h]; exact Array.getElem_mem h

/-- **the position of a merged block**: `dst->merge(src, c, d)` on unit scales puts the merged block at the
    weighted mean of `dst`'s old position and `src`'s old position shifted by `−d` -/
theorem merge_posn (vars : Array Var) (A B : Array Nat) (dst src : Nat) (d : Rat) (hne : dst ≠ src)
    (hA : ∀ x ∈ A, x < vars.size ∧ blk vars x = dst ∧ (vars[x]!).scale = 1)
    (hB : ∀ x ∈ B, x < vars.size ∧ blk vars x = src ∧ (vars[x]!).scale = 1)
    (hA0 : 0 < A.size) (hB0 : 0 < B.size)
    (hWA : wsum vars A ≠ 0) (hWB : wsum vars B ≠ 0) (hW : wsum vars A + wsum vars B ≠ 0) :
    (blockPosn (shiftVars vars src dst d) (A ++ B)).2 =
      (wsum vars A * (blockPosn vars A).2 + wsum vars B * ((blockPosn vars B).2 - d)) /
        (wsum vars A + wsum vars B) := by
  -- the shifted variables
  have hgA : ∀ x ∈ A, (shiftVars vars src dst d)[x]! = vars[x]! := by
    intro x hx
    obtain ⟨hlt, hb, _⟩ := hA x hx
    rw [shiftVars_get _ _ _ _ _ hlt, if_neg]
    intro e
    have e' : blk vars x = src := by simpa [VpscInv.blk] using e
    exact hne (hb.symm.trans e')
  have hgB : ∀ x ∈ B, (shiftVars vars src dst d)[x]! =
      { vars[x]! with offset := (vars[x]!).offset + d, block := dst } := by
    intro x hx
    obtain ⟨hlt, hb, _⟩ := hB x hx
    have hb' : ((vars[x]!).block == src) = true := by simpa [VpscInv.blk] using hb
    rw [shiftVars_get _ _ _ _ _ hlt, if_pos hb']
  have hfirst : (A ++ B)[0]! = A[0]! := by
    rw [getElem!_pos (A ++ B) 0 (by simp; omega), getElem!_pos A 0 hA0]
    exact Array.getElem_append_left hA0
  have hsAB : ∀ x ∈ A ++ B, ((shiftVars vars src dst d)[x]!).scale = 1 := by
    intro x hx
    rcases Array.mem_append.1 hx with h | h
    · rw [hgA x h]; exact (hA x h).2.2
    · rw [hgB x h]; exact (hB x h).2.2
  rw [blockPosn_unit _ (A ++ B) hsAB (by rw [hfirst]; exact hsAB _ (Array.mem_append.2 (Or.inl (getElem!_mem_of_pos A hA0)))),
    blockPosn_unit vars A (fun x hx => (hA x hx).2.2) ((hA _ (getElem!_mem_of_pos A hA0)).2.2),
    blockPosn_unit vars B (fun x hx => (hB x hx).2.2) ((hB _ (getElem!_mem_of_pos B hB0)).2.2)]
  -- the sums over A ++ B
  have hw : wsum (shiftVars vars src dst d) (A ++ B) = wsum vars A + wsum vars B := by
    unfold wsum
    rw [Array.toList_append, listSum_append]
    congr 1
    · exact listSum_congr (fun a ha => by rw [hgA a (by simpa using ha)])
    · exact listSum_congr (fun a ha => by rw [hgB a (by simpa using ha)])
  have hsum : listSum (fun i => ((shiftVars vars src dst d)[i]!).weight *
        (((shiftVars vars src dst d)[i]!).desired - ((shiftVars vars src dst d)[i]!).offset)) (A ++ B).toList =
      listSum (fun i => (vars[i]!).weight * ((vars[i]!).desired - (vars[i]!).offset)) A.toList +
      (listSum (fun i => (vars[i]!).weight * ((vars[i]!).desired - (vars[i]!).offset)) B.toList - d * wsum vars B) := by
    rw [Array.toList_append, listSum_append]
    congr 1
    · exact listSum_congr (fun a ha => by rw [hgA a (by simpa using ha)])
    · have : listSum (fun i => ((shiftVars vars src dst d)[i]!).weight *
          (((shiftVars vars src dst d)[i]!).desired - ((shiftVars vars src dst d)[i]!).offset)) B.toList =
          listSum (fun i => (vars[i]!).weight * ((vars[i]!).desired - (vars[i]!).offset) + -(d * (vars[i]!).weight)) B.toList :=
        listSum_congr (fun a ha => by rw [hgB a (by simpa using ha)]; ring)
      rw [this, listSum_add]
      unfold wsum
      have : listSum (fun i => -(d * (vars[i]!).weight)) B.toList = -(d * listSum (fun i => (vars[i]!).weight) B.toList) := by
        induction B.toList with
        | nil => simp [listSum]
        | cons a l ih => simp only [listSum, ih]; ring
      rw [this]; ring
  rw [hw, hsum]
  field_simp

/-- the record of the surviving block after `dst->merge(src, c, d)` -/
theorem mergeDir_block_dst (st : St) (ci dst src : Nat) (d : Rat) (hne : dst ≠ src) (hd : dst < st.blocks.size) :
    ((mergeDir st ci dst src d).blocks[dst]!).scale =
      (blockPosn (shiftVars st.vars src dst d) ((st.blocks[dst]!).vars ++ (st.blocks[src]!).vars)).1 ∧
    ((mergeDir st ci dst src d).blocks[dst]!).posn =
      (blockPosn (shiftVars st.vars src dst d) ((st.blocks[dst]!).vars ++ (st.blocks[src]!).vars)).2 := by
  unfold mergeDir St.refreshBlock
  simp only
  have hsz : ((st.blocks.set! dst { st.blocks[dst]! with vars := (st.blocks[dst]!).vars ++ (st.blocks[src]!).vars }).set! src
      { st.blocks[src]! with deleted := true }).size = st.blocks.size := by simp
  have hget : ((st.blocks.set! dst { st.blocks[dst]! with vars := (st.blocks[dst]!).vars ++ (st.blocks[src]!).vars }).set! src
      { st.blocks[src]! with deleted := true })[dst]! =
      { st.blocks[dst]! with vars := (st.blocks[dst]!).vars ++ (st.blocks[src]!).vars } := by
    rw [get!_set!, if_neg (fun h => hne h.1.symm), get!_set!, if_pos ⟨rfl, hd⟩]
  rw [get!_set!, if_pos ⟨rfl, by rw [hsz]; exact hd⟩, hget]
  exact ⟨rfl, rfl⟩

/-- **how far a merge moves the variables** (unit scales, both blocks at the position
    `updateWeightedPosition` gives them): with `t = posn_dst − posn_src + d`, every variable of `dst` moves by
    `−t·W_src/W` and every variable of `src` by `t·W_dst/W` -/
theorem mergeDir_moves (st : St) (ci dst src : Nat) (d : Rat) (hne : dst ≠ src)
    (hd : dst < st.blocks.size)
    (hA : ∀ x ∈ (st.blocks[dst]!).vars, x < st.vars.size ∧ blk st.vars x = dst ∧ (st.vars[x]!).scale = 1)
    (hB : ∀ x ∈ (st.blocks[src]!).vars, x < st.vars.size ∧ blk st.vars x = src ∧ (st.vars[x]!).scale = 1)
    (hA0 : 0 < (st.blocks[dst]!).vars.size) (hB0 : 0 < (st.blocks[src]!).vars.size)
    (hfd : (st.blocks[dst]!).scale = 1 ∧ (st.blocks[dst]!).posn = (blockPosn st.vars (st.blocks[dst]!).vars).2)
    (hfs : (st.blocks[src]!).scale = 1 ∧ (st.blocks[src]!).posn = (blockPosn st.vars (st.blocks[src]!).vars).2)
    (hWA : wsum st.vars (st.blocks[dst]!).vars ≠ 0) (hWB : wsum st.vars (st.blocks[src]!).vars ≠ 0)
    (hW : wsum st.vars (st.blocks[dst]!).vars + wsum st.vars (st.blocks[src]!).vars ≠ 0) :
    (∀ x ∈ (st.blocks[dst]!).vars, (mergeDir st ci dst src d).pos x - st.pos x =
      -(((st.blocks[dst]!).posn - (st.blocks[src]!).posn + d) * wsum st.vars (st.blocks[src]!).vars) /
        (wsum st.vars (st.blocks[dst]!).vars + wsum st.vars (st.blocks[src]!).vars)) ∧
    (∀ x ∈ (st.blocks[src]!).vars, (mergeDir st ci dst src d).pos x - st.pos x =
      (((st.blocks[dst]!).posn - (st.blocks[src]!).posn + d) * wsum st.vars (st.blocks[dst]!).vars) /
        (wsum st.vars (st.blocks[dst]!).vars + wsum st.vars (st.blocks[src]!).vars)) := by
  obtain ⟨hsc, hpn⟩ := mergeDir_block_dst st ci dst src d hne hd
  have hformula := merge_posn st.vars _ _ dst src d hne hA hB hA0 hB0 hWA hWB hW
  have hscale' : ((mergeDir st ci dst src d).blocks[dst]!).scale = 1 := by
    rw [hsc]
    unfold blockPosn
    simp only
    have hfirst : ((st.blocks[dst]!).vars ++ (st.blocks[src]!).vars)[0]! = (st.blocks[dst]!).vars[0]! := by
      rw [getElem!_pos _ 0 (by simp; omega), getElem!_pos _ 0 hA0]
      exact Array.getElem_append_left hA0
    rw [hfirst]
    obtain ⟨hlt, hb, hs1⟩ := hA _ (getElem!_mem_of_pos _ hA0)
    rw [shiftVars_get _ _ _ _ _ hlt, if_neg (by
      intro e
      have e' : blk st.vars ((st.blocks[dst]!).vars[0]!) = src := by simpa [VpscInv.blk] using e
      exact hne (hb.symm.trans e'))]
    exact hs1
  have hvars := (AdaptaVerif.Lemmas.VpscStatic.mergeDir_core st ci dst src d).1
  constructor
  · intro x hx
    obtain ⟨hlt, hb, hs1⟩ := hA x hx
    have hv' : (mergeDir st ci dst src d).vars[x]! = st.vars[x]! := by
      rw [hvars, shiftVars_get _ _ _ _ _ hlt, if_neg]
      intro e
      have e' : blk st.vars x = src := by simpa [VpscInv.blk] using e
      exact hne (hb.symm.trans e')
    have hbx : (st.vars[x]!).block = dst := hb
    unfold St.pos posOf
    simp only
    rw [hv', hbx, hscale', hpn, hformula, hs1, hfd.1, ← hfd.2, ← hfs.2]
    field_simp
    ring
  · intro x hx
    obtain ⟨hlt, hb, hs1⟩ := hB x hx
    have hb' : ((st.vars[x]!).block == src) = true := by simpa [VpscInv.blk] using hb
    have hv' : (mergeDir st ci dst src d).vars[x]! =
        { st.vars[x]! with offset := (st.vars[x]!).offset + d, block := dst } := by
      rw [hvars, shiftVars_get _ _ _ _ _ hlt, if_pos hb']
    have hbx : (st.vars[x]!).block = src := hb
    unfold St.pos posOf
    simp only
    rw [hv']
    simp only
    rw [hbx, hscale', hpn, hformula, hs1, hfs.1, ← hfd.2, ← hfs.2]
    field_simp
    ring

end AdaptaVerif.Lemmas.VpscStaticMove
