/-
C06: the queueing part of every API call (`enqueue`) keeps the queue invariant and changes what
the queue promises (`pending`) exactly as the immediate semantics `applyOp` changes the abstract
scene.
-/
import AdaptaVerif.Lemmas.ActionQueueInv
namespace AdaptaVerif.Lemmas.ActionQueue
open AdaptaVerif.Model.ActionQueue AdaptaVerif.Spec.Scene

/-! ### transfer lemmas for the queue look-ups -/

theorem findAct_append (q : List Action) (a : Action) (k : Kind) (id : Nat) :
    findAct (q ++ [a]) k id
      = (findAct q k id).or (if a.kind = k ∧ a.id = id then some a else none) := by
  unfold findAct
  rw [List.find?_append]
  congr 1
  by_cases h : a.kind = k ∧ a.id = id
  · simp [h.1, h.2]
  · simp only [List.find?_cons, List.find?_nil, h, if_false]
    have : (a.kind == k && a.id == id) = false := by
      simp only [Bool.and_eq_false_iff, beq_eq_false_iff_ne]
      by_cases h1 : a.kind = k
      · exact Or.inr fun h2 => h ⟨h1, h2⟩
      · exact Or.inl h1
    simp [this]

theorem findAct_map (q : List Action) (g : Action → Action) (hk : ∀ a, (g a).kind = a.kind)
    (hi : ∀ a, (g a).id = a.id) (k : Kind) (id : Nat) :
    findAct (q.map g) k id = (findAct q k id).map g := by
  unfold findAct
  rw [List.find?_map]
  congr 2
  funext a
  simp [hk, hi]

/-- overwrite of (a field other than kind/id of) THE `k0`-action of object `i0` -/
theorem findAct_mapIf (q : List Action) (k0 : Kind) (i0 : Nat) (f : Action → Action)
    (hk : ∀ a, (f a).kind = a.kind) (hi : ∀ a, (f a).id = a.id) (k : Kind) (id : Nat) :
    findAct (q.map fun a => if (a.kind == k0 && a.id == i0) = true then f a else a) k id
      = if k = k0 ∧ id = i0 then (findAct q k id).map f else findAct q k id := by
  rw [findAct_map _ _ (by intro a; split <;> simp [hk]) (by intro a; split <;> simp [hi])]
  cases hf : findAct q k id with
  | none => simp
  | some b =>
    obtain ⟨_, hbk, hbi⟩ := findAct_some hf
    by_cases h : k = k0 ∧ id = i0
    · obtain ⟨rfl, rfl⟩ := h
      simp [hbk, hbi]
    · simp only [Option.map_some, h, if_false, Option.some.injEq]
      have : (b.kind == k0 && b.id == i0) = false := by
        simp only [Bool.and_eq_false_iff, beq_eq_false_iff_ne, hbk, hbi]
        by_cases h1 : k = k0
        · exact Or.inr fun h2 => h ⟨h1, h2⟩
        · exact Or.inl h1
      simp [this]

theorem findAct_filterNot (q : List Action) (k0 : Kind) (i0 : Nat) (k : Kind) (id : Nat) :
    findAct (q.filter fun a => !(a.kind == k0 && a.id == i0)) k id
      = if k = k0 ∧ id = i0 then none else findAct q k id := by
  unfold findAct
  induction q with
  | nil => simp
  | cons a q ih =>
    simp only [List.filter_cons, List.find?_cons]
    grind

theorem uniq_kind_id {q : List Action} (hu : q.Pairwise Rel) (k : Kind) (id : Nat) :
    q.Pairwise fun a b => ¬((a.kind == k && a.id == id) = true ∧ (b.kind == k && b.id == id) = true) := by
  refine hu.imp ?_
  intro a b hr hab
  simp only [Bool.and_eq_true, beq_iff_eq] at hab
  refine hr ?_ (hab.1.2.trans hab.2.2.symm)
  unfold Action.isConn
  rw [hab.1.1, hab.2.1]

/-- two different obstacle kinds are never both queued for one object -/
theorem findAct_excl {q : List Action} (hu : q.Pairwise Rel) {k1 k2 : Kind} {id : Nat} {a : Action}
    (h : findAct q k1 id = some a) (h1 : k1 ≠ .connChange) (h2 : k2 ≠ .connChange) (hne : k1 ≠ k2) :
    findAct q k2 id = none := by
  obtain ⟨ha, hak, rfl⟩ := findAct_some h
  rw [findAct_of_mem hu ha k2 (by simp [h2, hak, h1])]
  simp [hak, hne]

theorem no_obst_of_none {q : List Action} {id : Nat} (h1 : findAct q .move id = none)
    (h2 : findAct q .add id = none) (h3 : findAct q .remove id = none) :
    ∀ b ∈ q, b.isConn = false → b.id ≠ id := by
  intro b hb hc hi
  rw [isConn_false_iff] at hc
  cases hk : b.kind
  · exact findAct_none h1 b hb ⟨hk, hi⟩
  · exact findAct_none h2 b hb ⟨hk, hi⟩
  · exact findAct_none h3 b hb ⟨hk, hi⟩
  · exact hc hk

theorem findAct_none_of_ne {q : List Action} {id : Nat} {k : Kind} (hk : k ≠ .connChange)
    (h : ∀ b ∈ q, b.isConn = false → b.id ≠ id) : findAct q k id = none := by
  apply findAct_none_of_no k hk
  intro b hb
  by_cases hc : b.isConn = true
  · exact Or.inl hc
  · exact Or.inr (h b hb (by simpa using hc))

/-! ### transfer lemmas for the scene look-ups -/

theorem findObst_append (sc : Scene) (o : Obst) (id : Nat) :
    findObst { sc with obsts := sc.obsts ++ [o] } id
      = (findObst sc id).or (if o.id = id then some o else none) := by
  unfold findObst
  simp only [List.find?_append, List.find?_cons, List.find?_nil]
  congr 1
  by_cases h : o.id = id
  · simp [h]
  · simp [h, beq_eq_false_iff_ne.2 h]

theorem findConn_append (sc : Scene) (c : Conn) (id : Nat) :
    findConn { sc with conns := sc.conns ++ [c] } id
      = (findConn sc id).or (if c.id = id then some c else none) := by
  unfold findConn
  simp only [List.find?_append, List.find?_cons, List.find?_nil]
  congr 1
  by_cases h : c.id = id
  · simp [h]
  · simp [h, beq_eq_false_iff_ne.2 h]

theorem fresh_of_not_idUsed {st : State} {id : Nat} (h : idUsed st id = false) :
    findObst st.scene id = none ∧ findConn st.scene id = none := by
  unfold idUsed at h
  simp only [Bool.or_eq_false_iff, List.any_eq_false, beq_iff_eq] at h
  unfold findObst findConn
  simp only [List.find?_eq_none, beq_iff_eq]
  exact h

theorem pairwise_append_one {q : List Action} (hu : q.Pairwise Rel) (a : Action)
    (hn : ∀ b ∈ q, b.isConn = a.isConn → b.id ≠ a.id) : (q ++ [a]).Pairwise Rel := by
  rw [List.pairwise_append]
  refine ⟨hu, List.pairwise_singleton _ _, ?_⟩
  intro b hb c hc
  rw [List.mem_singleton] at hc
  subst hc
  exact hn b hb

/-- `pending` does not look at the transaction flag -/
theorem pending_congr {st st' : State} (hs : st'.scene = st.scene) (hq : st'.queue = st.queue) :
    pending st' = pending st := by
  unfold pending; rw [hs, hq]

theorem inv_congr {st st' : State} (hs : st'.scene = st.scene) (hq : st'.queue = st.queue) (h : Inv st) :
    Inv st' := by
  refine ⟨?_, ?_, ?_, ?_, ?_, ?_⟩
  · rw [hq]; exact h.uniq
  · rw [hq, hs]; exact h.obstRef
  · rw [hq, hs]; exact h.connRef
  · rw [hq, hs]; exact h.inactiveAdd
  · rw [hq]; exact h.endsDistinct
  · rw [hs]; exact h.connFind

/-! ### `addObst` -/

theorem enqueue_addObst (st : State) (j : Bool) (id : Nat) (g : Poly) (h : Inv st)
    (hfresh : idUsed st id = false) :
    Inv (enqueue st (.addObst j id g)).1
      ∧ pending (enqueue st (.addObst j id g)).1 = applyOp (pending st) (.addObst j id g) := by
  obtain ⟨hfo, hfc⟩ := fresh_of_not_idUsed hfresh
  have hno : ∀ b ∈ st.queue, b.isConn = false → b.id ≠ id := by
    intro b hb hc hi
    have := h.obstRef b hb hc
    rw [hi, hfo] at this
    simp at this
  have hmv := findAct_none_of_ne (k := .move) (by decide) hno
  have had := findAct_none_of_ne (k := .add) (by decide) hno
  have hrm := findAct_none_of_ne (k := .remove) (by decide) hno
  have e : (enqueue st (.addObst j id g)).1
      = { st with scene := { st.scene with obsts := st.scene.obsts ++ [{ id := id, isJ := j, geom := g, active := false }] },
                  queue := st.queue ++ [{ kind := .add, isJ := j, id := id }] } := by
    simp [enqueue, hasAct, had]
  rw [e]
  refine ⟨⟨?_, ?_, ?_, ?_, ?_, h.connFind⟩, ?_⟩
  · exact pairwise_append_one h.uniq _ (fun b hb hc => hno b hb (by rw [hc]; rfl))
  · intro a ha hc
    simp only [findObst_append]
    simp only [List.mem_append, List.mem_singleton] at ha
    rcases ha with ha | rfl
    · have := h.obstRef a ha hc
      grind
    · simp
  · intro a ha hc
    simp only [List.mem_append, List.mem_singleton] at ha
    rcases ha with ha | rfl
    · exact h.connRef a ha hc
    · simp [Action.isConn] at hc
  · intro i o ho hact
    simp only [findObst_append] at ho
    simp only [hasAct, findAct_append]
    have := h.inactiveAdd i o
    simp only [hasAct] at this
    grind
  · intro a ha
    simp only [List.mem_append, List.mem_singleton] at ha
    rcases ha with ha | rfl
    · exact h.endsDistinct a ha
    · simp
  · apply AScene.ext'
    · intro i
      simp only [pending, applyOp, upd, hasAct, findObst_append, findAct_append]
      by_cases hi : i = id
      · subst hi; simp [hfo, hmv, had, hrm]
      · have hi' : ¬ id = i := fun e => hi e.symm
        simp [hi, hi']
    · intro c
      simp only [pending, applyOp, findAct_append]
      simp [findConn]

/-! ### generic invariant preservation -/

theorem inv_append {st : State} (h : Inv st) (a : Action)
    (hn : ∀ b ∈ st.queue, b.isConn = a.isConn → b.id ≠ a.id)
    (ho : a.isConn = false → (findObst st.scene a.id).isSome = true)
    (hc : a.isConn = true → (findConn st.scene a.id).isSome = true)
    (hd : a.conns.Pairwise (fun u v => u.1 ≠ v.1)) :
    Inv { st with queue := st.queue ++ [a] } := by
  refine ⟨pairwise_append_one h.uniq a hn, ?_, ?_, ?_, ?_, h.connFind⟩
  · intro b hb hbc
    simp only [List.mem_append, List.mem_singleton] at hb
    rcases hb with hb | rfl
    · exact h.obstRef b hb hbc
    · exact ho hbc
  · intro b hb hbc
    simp only [List.mem_append, List.mem_singleton] at hb
    rcases hb with hb | rfl
    · exact h.connRef b hb hbc
    · exact hc hbc
  · intro i o hfo hact
    have := h.inactiveAdd i o hfo hact
    simp only [hasAct, findAct_append] at this ⊢
    cases hf : findAct st.queue .add i with
    | none => simp [hf] at this
    | some b => simp
  · intro b hb
    simp only [List.mem_append, List.mem_singleton] at hb
    rcases hb with hb | rfl
    · exact h.endsDistinct b hb
    · exact hd

theorem inv_mapQueue {st : State} (h : Inv st) (f : Action → Action)
    (hk : ∀ a, (f a).kind = a.kind) (hi : ∀ a, (f a).id = a.id)
    (hd : ∀ a, a.conns.Pairwise (fun u v => u.1 ≠ v.1) → (f a).conns.Pairwise (fun u v => u.1 ≠ v.1)) :
    Inv { st with queue := st.queue.map f } := by
  have hc : ∀ a, (f a).isConn = a.isConn := fun a => by unfold Action.isConn; rw [hk]
  refine ⟨?_, ?_, ?_, ?_, ?_, h.connFind⟩
  · refine List.Pairwise.map f ?_ h.uniq
    intro a b hr
    unfold Rel
    rw [hc, hc, hi, hi]
    exact hr
  · intro b hb hbc
    obtain ⟨a, ha, rfl⟩ := List.mem_map.1 hb
    rw [hc] at hbc
    show (findObst st.scene (f a).id).isSome = true
    rw [hi]
    exact h.obstRef a ha hbc
  · intro b hb hbc
    obtain ⟨a, ha, rfl⟩ := List.mem_map.1 hb
    rw [hc] at hbc
    show (findConn st.scene (f a).id).isSome = true
    rw [hi]
    exact h.connRef a ha hbc
  · intro i o hfo hact
    have := h.inactiveAdd i o hfo hact
    simp only [hasAct, findAct_map _ f hk hi] at this ⊢
    simpa using this
  · intro b hb
    obtain ⟨a, ha, rfl⟩ := List.mem_map.1 hb
    exact hd a (h.endsDistinct a ha)

theorem inv_filterQueue {st : State} (h : Inv st) (r : Action → Bool)
    (hadd : ∀ a, a.kind = .add → r a = true) :
    Inv { st with queue := st.queue.filter r } := by
  refine ⟨h.uniq.filter r, ?_, ?_, ?_, ?_, h.connFind⟩
  · intro b hb hbc
    exact h.obstRef b (List.mem_filter.1 hb).1 hbc
  · intro b hb hbc
    exact h.connRef b (List.mem_filter.1 hb).1 hbc
  · intro i o hfo hact
    have := h.inactiveAdd i o hfo hact
    simp only [hasAct, Option.isSome_iff_exists] at this ⊢
    obtain ⟨a, ha⟩ := this
    obtain ⟨ham, hak, hai⟩ := findAct_some ha
    cases hf : findAct (st.queue.filter r) .add i with
    | some b => exact ⟨b, rfl⟩
    | none =>
      exact absurd ⟨hak, hai⟩ (findAct_none hf a (List.mem_filter.2 ⟨ham, hadd a hak⟩))
  · intro b hb
    exact h.endsDistinct b (List.mem_filter.1 hb).1

theorem inv_mapObst {st : State} (h : Inv st) (i : Nat) (f : Obst → Obst)
    (hi : ∀ o, (f o).id = o.id) (ha : ∀ o, (f o).active = o.active) :
    Inv { st with scene := mapObst st.scene i f } := by
  refine ⟨h.uniq, ?_, h.connRef, ?_, h.endsDistinct, h.connFind⟩
  · intro b hb hbc
    have := h.obstRef b hb hbc
    show (findObst (mapObst st.scene i f) b.id).isSome = true
    rw [findObst_mapObst _ _ _ _ hi]
    split <;> simp [this]
  · intro i' o hfo hact
    have hfo' : findObst (mapObst st.scene i f) i' = some o := hfo
    rw [findObst_mapObst _ _ _ _ hi] at hfo'
    split at hfo'
    · cases hf : findObst st.scene i' with
      | none => simp [hf] at hfo'
      | some o' =>
        simp only [hf, Option.map_some, Option.some.injEq] at hfo'
        subst hfo'
        rw [ha] at hact
        exact h.inactiveAdd i' o' hf hact
    · exact h.inactiveAdd i' o hfo' hact

theorem obstIs_iff {st : State} {j : Bool} {id : Nat} (h : obstIs st j id = true) :
    ∃ o, findObst st.scene id = some o ∧ o.isJ = j := by
  unfold obstIs at h
  cases hf : findObst st.scene id with
  | none => simp [hf] at h
  | some o => exact ⟨o, rfl, by simpa [hf] using h⟩

/-! ### `moveShape(shape, poly, first_move)` / `moveJunction(junction, pos)` -/

theorem enqMoveAbs_spec (st : State) (j : Bool) (id : Nat) (g : Poly) (fm : Bool) (h : Inv st)
    (ho : obstIs st j id = true) (hr : hasAct st.queue .remove id = false) :
    Inv (enqMoveAbs st j id g fm).1
      ∧ pending (enqMoveAbs st j id g fm).1 = applyOp (pending st) (.moveAbs j id g fm) := by
  obtain ⟨o, hfo, hoj⟩ := obstIs_iff ho
  have hrm : findAct st.queue .remove id = none := by simpa [hasAct] using hr
  cases hadd : findAct st.queue .add id with
  | some a =>
    have hmv := findAct_excl h.uniq hadd (k2 := .move) (by decide) (by decide) (by decide)
    have e : enqMoveAbs st j id g fm
        = ({ st with scene := mapObst st.scene id fun o => { o with geom := g } }, false) := by
      simp [enqMoveAbs, hasAct, hadd]
    rw [e]
    refine ⟨inv_mapObst h id _ (fun _ => rfl) (fun _ => rfl), ?_⟩
    have e1 := fun i => findObst_mapObst st.scene id i (fun o => { o with geom := g }) (fun _ => rfl)
    apply AScene.ext'
    · intro i
      simp only [pending, applyOp, upd, hasAct, e1]
      by_cases hi : i = id
      · subst hi; simp [hfo, hmv, hadd, hrm]
      · simp [hi]
    · intro c
      simp [pending, applyOp, findConn, mapObst]
  | none =>
    cases hmv : findAct st.queue .move id with
    | some a =>
      have e : enqMoveAbs st j id g fm
          = ({ st with queue := st.queue.map fun a =>
                if (a.kind == .move && a.id == id) = true then { a with geom := g } else a }, true) := by
        simp only [enqMoveAbs, hasAct, hadd, hmv, Option.isSome_none, Option.isSome_some,
          Bool.false_eq_true, if_false, if_true]
        rw [updFirst_eq_map _ _ _ (uniq_kind_id h.uniq .move id)]
      rw [e]
      refine ⟨inv_mapQueue h _ (by intro a; split <;> rfl) (by intro a; split <;> rfl)
          (by intro a ha; split <;> exact ha), ?_⟩
      have e1 := fun k i => findAct_mapIf st.queue .move id (fun a => { a with geom := g })
        (fun _ => rfl) (fun _ => rfl) k i
      apply AScene.ext'
      · intro i
        simp only [pending, applyOp, upd, hasAct, e1]
        by_cases hi : i = id
        · subst hi; simp [hfo, hmv, hrm]
        · simp [hi]
      · intro c
        simp only [pending, applyOp, e1]
        simp
    | none =>
      have e : enqMoveAbs st j id g fm
          = ({ st with queue := st.queue ++ [{ kind := .move, isJ := j, id := id, geom := g, firstMove := fm }] }, true) := by
        simp [enqMoveAbs, hasAct, hadd, hmv]
      rw [e]
      have hno := no_obst_of_none hmv hadd hrm
      refine ⟨inv_append h _ (fun b hb hc => hno b hb (by rw [hc]; rfl)) (fun _ => by simp [hfo])
          (fun hc => by simp [Action.isConn] at hc) (by simp), ?_⟩
      have hact : o.active = true := by
        cases hoa : o.active with
        | true => rfl
        | false =>
          have := h.inactiveAdd id o hfo hoa
          simp [hasAct, hadd] at this
      apply AScene.ext'
      · intro i
        simp only [pending, applyOp, upd, hasAct, findAct_append]
        by_cases hi : i = id
        · subst hi; simp [hfo, hmv, hrm, hadd, hact]
        · have hi' : ¬ id = i := fun e => hi e.symm
          simp [hi, hi']
      · intro c
        simp [pending, applyOp, findAct_append]

/-! ### `moveShape(shape, dx, dy)` / `moveJunction(junction, dx, dy)` -/

/-- the base geometry the relative overloads read is the geometry the queue currently promises -/
theorem pending_relBase (st : State) (id : Nat) (jj : Bool) (base : Poly)
    (hp : (pending st).obst id = some (jj, base)) : base = relBase st id := by
  simp only [pending] at hp
  unfold relBase
  cases hfo : findObst st.scene id with
  | none => simp [hfo] at hp
  | some o =>
    simp only [hfo] at hp ⊢
    cases hmv : findAct st.queue .move id with
    | some a =>
      simp only [hmv] at hp ⊢
      split at hp
      · cases hp
      · simp only [Option.some.injEq, Prod.mk.injEq] at hp; exact hp.2.symm
    | none =>
      simp only [hmv] at hp ⊢
      split at hp
      · cases hp
      · split at hp
        · simp only [Option.some.injEq, Prod.mk.injEq] at hp; exact hp.2.symm
        · cases hp

theorem applyOp_moveRel (st : State) (j : Bool) (id : Nat) (dx dy : Rat) :
    applyOp (pending st) (.moveRel j id dx dy)
      = applyOp (pending st) (.moveAbs j id (translate (relBase st id) dx dy) false) := by
  simp only [applyOp]
  cases hp : (pending st).obst id with
  | none => rfl
  | some v =>
    obtain ⟨jj, base⟩ := v
    simp only [Option.map_some, pending_relBase st id jj base hp]

theorem enqueue_moveRel (st : State) (j : Bool) (id : Nat) (dx dy : Rat) (h : Inv st)
    (ho : obstIs st j id = true) (hr : hasAct st.queue .remove id = false) :
    Inv (enqueue st (.moveRel j id dx dy)).1
      ∧ pending (enqueue st (.moveRel j id dx dy)).1 = applyOp (pending st) (.moveRel j id dx dy) := by
  rw [applyOp_moveRel]
  exact enqMoveAbs_spec st j id _ false h ho hr

/-! ### `deleteShape` / `deleteJunction` -/

theorem enqueue_delete (st : State) (j : Bool) (id : Nat) (h : Inv st)
    (ho : obstIs st j id = true) (ha : hasAct st.queue .add id = false)
    (hr : hasAct st.queue .remove id = false) :
    Inv (enqueue st (.delete j id)).1
      ∧ pending (enqueue st (.delete j id)).1 = applyOp (pending st) (.delete j id) := by
  obtain ⟨o, hfo, hoj⟩ := obstIs_iff ho
  have hrm : findAct st.queue .remove id = none := by simpa [hasAct] using hr
  have hadd : findAct st.queue .add id = none := by simpa [hasAct] using ha
  have e1 := fun k i => findAct_filterNot st.queue .move id k i
  have e : (enqueue st (.delete j id)).1
      = { st with queue := (st.queue.filter fun a => !(a.kind == .move && a.id == id))
                              ++ [{ kind := .remove, isJ := j, id := id }] } := by
    simp only [enqueue]
    rw [eraseFirst_eq_filter _ _ (uniq_kind_id h.uniq .move id)]
    simp only [hasAct, e1, hrm]
    simp
  rw [e]
  have hno := no_obst_of_none (q := st.queue.filter fun a => !(a.kind == .move && a.id == id)) (id := id)
    (by rw [e1]; simp) (by rw [e1]; simp [hadd]) (by rw [e1]; simp [hrm])
  refine ⟨?_, ?_⟩
  · exact inv_append (inv_filterQueue h _ (by intro a hk; simp [hk]))
      { kind := .remove, isJ := j, id := id }
      (fun b hb hc => hno b hb (by rw [hc]; rfl)) (fun _ => by simp [hfo])
      (fun hc => by simp [Action.isConn] at hc) (by simp)
  · apply AScene.ext'
    · intro i
      simp only [pending, applyOp, upd, hasAct, findAct_append, e1]
      by_cases hi : i = id
      · subst hi; simp [hfo]
      · have hi' : ¬ id = i := fun e => hi e.symm
        simp [hi, hi']
    · intro c
      simp only [pending, applyOp, findAct_append, e1]
      simp

/-! ### `new ConnRef` -/

theorem enqueue_newConn (st : State) (id : Nat) (h : Inv st) (hfresh : idUsed st id = false) :
    Inv (enqueue st (.newConn id)).1
      ∧ pending (enqueue st (.newConn id)).1 = applyOp (pending st) (.newConn id) := by
  obtain ⟨hfo, hfc⟩ := fresh_of_not_idUsed hfresh
  have hcc : findAct st.queue .connChange id = none := by
    cases hf : findAct st.queue .connChange id with
    | none => rfl
    | some a =>
      obtain ⟨ha, hk, hi⟩ := findAct_some hf
      have := h.connRef a ha ((isConn_iff a).2 hk)
      rw [hi, hfc] at this
      simp at this
  have e : (enqueue st (.newConn id)).1
      = { st with scene := { st.scene with conns := st.scene.conns ++ [{ id := id }] } } := rfl
  rw [e]
  have hcu : ((st.scene.conns ++ [({ id := id } : Conn)]).map (·.id)).Nodup := by
    rw [List.map_append, List.nodup_append]
    refine ⟨h.connFind, by simp, ?_⟩
    intro a ha b hb hab
    simp only [List.map_cons, List.map_nil, List.mem_singleton] at hb
    obtain ⟨k, hk, hki⟩ := List.mem_map.1 ha
    have := List.find?_eq_none.1 (show st.scene.conns.find? (·.id == id) = none from hfc) k hk
    simp only [beq_iff_eq] at this
    exact this (by rw [hki, hab, hb])
  refine ⟨⟨h.uniq, h.obstRef, ?_, h.inactiveAdd, h.endsDistinct, hcu⟩, ?_⟩
  · intro a ha hc
    have := h.connRef a ha hc
    simp only [findConn_append]
    cases hf : findConn st.scene a.id with
    | none => simp [hf] at this
    | some k => simp
  · apply AScene.ext'
    · intro i
      simp [pending, applyOp, findObst]
    · intro c
      simp only [pending, applyOp, upd, findConn_append]
      by_cases hi : c = id
      · subst hi; simp [hfc, hcc]
      · have hi' : ¬ id = c := fun e => hi e.symm
        simp [hi, hi']

/-! ### `setEndpoint` -/

theorem setEnd_setEnd_same (k : Conn) (e : End) (p q : CEnd) : (k.setEnd e p).setEnd e q = k.setEnd e q := by
  cases e <;> rfl

theorem setEnd_comm (k : Conn) (e1 e2 : End) (p1 p2 : CEnd) (hne : e1 ≠ e2) :
    (k.setEnd e1 p1).setEnd e2 p2 = (k.setEnd e2 p2).setEnd e1 p1 := by
  cases e1 <;> cases e2 <;> first | rfl | exact absurd rfl hne

theorem applyUpdates_cons (k : Conn) (u : End × CEnd) (us : List (End × CEnd)) :
    k.applyUpdates (u :: us) = (k.setEnd u.1 u.2).applyUpdates us := rfl

theorem applyUpdates_setEnd_comm (us : List (End × CEnd)) (k : Conn) (e : End) (p : CEnd)
    (hne : ∀ u ∈ us, u.1 ≠ e) :
    (k.setEnd e p).applyUpdates us = (k.applyUpdates us).setEnd e p := by
  induction us generalizing k with
  | nil => rfl
  | cons u us ih =>
    rw [applyUpdates_cons, applyUpdates_cons,
      setEnd_comm k e u.1 p u.2 (fun he => hne u (List.mem_cons_self ..) he.symm)]
    exact ih _ fun v hv => hne v (List.mem_cons_of_mem _ hv)

theorem applyUpdates_updFirst (us : List (End × CEnd)) (k : Conn) (e : End) (p : CEnd)
    (hd : us.Pairwise fun u v => u.1 ≠ v.1) (hany : ∃ u ∈ us, u.1 = e) :
    k.applyUpdates (updFirst (fun u => u.1 == e) (fun _ => (e, p)) us) = (k.applyUpdates us).setEnd e p := by
  induction us generalizing k with
  | nil => obtain ⟨u, hu, _⟩ := hany; cases hu
  | cons u us ih =>
    rw [List.pairwise_cons] at hd
    by_cases hu : u.1 = e
    · have hne : ∀ v ∈ us, v.1 ≠ e := fun v hv => hu ▸ (hd.1 v hv).symm
      simp only [updFirst, hu, beq_self_eq_true, if_true, applyUpdates_cons]
      rw [applyUpdates_setEnd_comm us _ e p hne, applyUpdates_setEnd_comm us _ e u.2 hne,
        setEnd_setEnd_same]
    · have hb : (u.1 == e) = false := beq_eq_false_iff_ne.2 hu
      simp only [updFirst, hb, Bool.false_eq_true, if_false, applyUpdates_cons]
      apply ih _ hd.2
      obtain ⟨v, hv, hve⟩ := hany
      rcases List.mem_cons.1 hv with rfl | hv'
      · exact absurd hve hu
      · exact ⟨v, hv', hve⟩

theorem applyUpdates_addConnEndUpdate (us : List (End × CEnd)) (k : Conn) (e : End) (p : CEnd)
    (hd : us.Pairwise fun u v => u.1 ≠ v.1) :
    k.applyUpdates (addConnEndUpdate us e p false) = (k.applyUpdates us).setEnd e p := by
  unfold addConnEndUpdate
  simp only [Bool.not_false, if_true]
  split
  · next hany =>
    apply applyUpdates_updFirst us k e p hd
    simpa using hany
  · unfold Conn.applyUpdates
    rw [List.foldl_append]
    rfl

theorem updFirst_fst (us : List (End × CEnd)) (e : End) (p : CEnd) :
    (updFirst (fun u => u.1 == e) (fun _ => (e, p)) us).map Prod.fst = us.map Prod.fst := by
  induction us with
  | nil => rfl
  | cons u us ih =>
    by_cases hu : u.1 = e
    · simp [updFirst, hu]
    · simp [updFirst, beq_eq_false_iff_ne.2 hu, ih]

theorem addConnEndUpdate_distinct (us : List (End × CEnd)) (e : End) (p : CEnd) (f : Bool)
    (hd : us.Pairwise fun u v => u.1 ≠ v.1) :
    (addConnEndUpdate us e p f).Pairwise fun u v => u.1 ≠ v.1 := by
  unfold addConnEndUpdate
  split
  · cases f with
    | true => simpa using hd
    | false =>
      simp only [Bool.not_false, if_true]
      have h1 : (us.map Prod.fst).Pairwise (· ≠ ·) := List.pairwise_map.2 hd
      rw [← updFirst_fst us e p] at h1
      exact List.pairwise_map.1 h1
  · next hany =>
    rw [List.pairwise_append]
    refine ⟨hd, List.pairwise_singleton _ _, ?_⟩
    intro u hu v hv
    rw [List.mem_singleton] at hv
    subst hv
    intro he
    exact hany (List.any_eq_true.2 ⟨u, hu, by simpa using he⟩)

theorem setEnd_ends (k : Conn) (e : End) (p : CEnd) :
    ((k.setEnd e p).src, (k.setEnd e p).dst) = setEnds (k.src, k.dst) e p := by
  cases e <;> rfl

theorem enqueue_setEndpoint (st : State) (c : Nat) (e : End) (p : CEnd) (h : Inv st)
    (hc : (findConn st.scene c).isSome = true) :
    Inv (enqueue st (.setEndpoint c e p)).1
      ∧ pending (enqueue st (.setEndpoint c e p)).1 = applyOp (pending st) (.setEndpoint c e p) := by
  obtain ⟨k, hfc⟩ := Option.isSome_iff_exists.1 hc
  cases hcc : findAct st.queue .connChange c with
  | none =>
    have e0 : (enqueue st (.setEndpoint c e p)).1
        = { st with queue := st.queue ++ [{ kind := .connChange, id := c, conns := [(e, p)] }] } := by
      simp [enqueue, modifyConnector, hasAct, hcc]
    rw [e0]
    refine ⟨inv_append h _ ?_ (fun hc => by simp [Action.isConn] at hc) (fun _ => hc) (by simp), ?_⟩
    · intro b hb hbc hi
      exact findAct_none hcc b hb ⟨(isConn_iff b).1 (by rw [hbc]; rfl), hi⟩
    · apply AScene.ext'
      · intro i
        simp only [pending, applyOp, hasAct, findAct_append]
        simp
      · intro i
        simp only [pending, applyOp, upd, findAct_append]
        by_cases hi : i = c
        · subst hi; simp [hfc, hcc, Conn.applyUpdates, setEnd_ends]
        · have hi' : ¬ c = i := fun e => hi e.symm
          simp [hi, hi']
  | some a =>
    obtain ⟨ham, _, _⟩ := findAct_some hcc
    have e0 : (enqueue st (.setEndpoint c e p)).1
        = { st with queue := st.queue.map fun a =>
              if (a.kind == .connChange && a.id == c) = true
              then { a with conns := addConnEndUpdate a.conns e p false } else a } := by
      simp only [enqueue, modifyConnector, hasAct, hcc, Option.isSome_some, if_true]
      rw [updFirst_eq_map _ _ _ (uniq_kind_id h.uniq .connChange c)]
    rw [e0]
    refine ⟨inv_mapQueue h _ (by intro a; split <;> rfl) (by intro a; split <;> rfl) ?_, ?_⟩
    · intro b hb
      split
      · exact addConnEndUpdate_distinct _ _ _ _ hb
      · exact hb
    · have e1 := fun k i => findAct_mapIf st.queue .connChange c
        (fun a => { a with conns := addConnEndUpdate a.conns e p false }) (fun _ => rfl) (fun _ => rfl) k i
      apply AScene.ext'
      · intro i
        simp only [pending, applyOp, hasAct, e1]
        simp
      · intro i
        simp only [pending, applyOp, upd, e1]
        by_cases hi : i = c
        · subst hi
          simp [hfc, hcc, applyUpdates_addConnEndUpdate _ _ _ _ (h.endsDistinct a ham), setEnd_ends]
        · simp [hi]

/-! ### assembly -/

/-- queueing part of every API call: keeps the invariant, and changes what the queue promises
    (`pending`) exactly as the immediate semantics `applyOp` changes the abstract scene -/
theorem legalCall_of_legal {st : State} {op : Op} (hl : legal st op = true) : legalCall st op = true := by
  unfold legal at hl
  rw [Bool.and_eq_true] at hl
  exact hl.1

theorem enqueue_spec (st : State) (op : Op) (h : Inv st) (hl : legal st op = true) :
    Inv (enqueue st op).1 ∧ pending (enqueue st op).1 = applyOp (pending st) op := by
  replace hl := legalCall_of_legal hl
  cases op with
  | addObst j id g =>
    simp only [legalCall, Bool.and_eq_true, Bool.not_eq_true'] at hl
    exact enqueue_addObst st j id g h hl.1.2
  | moveAbs j id g fm =>
    simp only [legalCall, Bool.and_eq_true, Bool.not_eq_true'] at hl
    exact enqMoveAbs_spec st j id g fm h hl.1.1.1 hl.1.1.2
  | moveRel j id dx dy =>
    simp only [legalCall, Bool.and_eq_true, Bool.not_eq_true'] at hl
    exact enqueue_moveRel st j id dx dy h hl.1 hl.2
  | delete j id =>
    simp only [legalCall, Bool.and_eq_true, Bool.not_eq_true'] at hl
    exact enqueue_delete st j id h hl.1.1 hl.1.2 hl.2
  | newConn id =>
    simp only [legalCall, Bool.and_eq_true, Bool.not_eq_true'] at hl
    exact enqueue_newConn st id h hl.2
  | setEndpoint c e p =>
    simp only [legalCall, Bool.and_eq_true] at hl
    exact enqueue_setEndpoint st c e p h hl.1
  | newPin o cl xo yo => exact ⟨inv_congr (st := st) rfl rfl h, pending_congr (st := st) rfl rfl⟩
  | setTransactionUse b => exact ⟨inv_congr (st := st) rfl rfl h, pending_congr (st := st) rfl rfl⟩
  | processTransaction => exact ⟨h, rfl⟩

end AdaptaVerif.Lemmas.ActionQueue
