/-
Lemmas for C18 (3)/(4): association-list facts for the SepMatrix model and the flip-storage
equivalences.
-/
import AdaptaVerif.Spec.Sep
namespace AdaptaVerif.Lemmas.Sep
open AdaptaVerif.Num AdaptaVerif.Model.Sep AdaptaVerif.Spec.Sep
open AdaptaVerif.Model.Sep.SepMatrix

theorem lookupL_upsertL_self (k : Nat × Nat) (sp : SepPair) (l : List ((Nat × Nat) × SepPair)) :
    lookupL k (upsertL k sp l) = some sp := by
  induction l with
  | nil => simp [upsertL, lookupL]
  | cons hd tl ih =>
    obtain ⟨k', sp'⟩ := hd
    simp only [upsertL]
    split
    · simp [lookupL]
    · split
      · simp [lookupL]
      · rename_i h _
        simp [lookupL, h, ih]

theorem lookupL_upsertL_ne (k k' : Nat × Nat) (h : k' ≠ k) (sp : SepPair)
    (l : List ((Nat × Nat) × SepPair)) :
    lookupL k' (upsertL k sp l) = lookupL k' l := by
  induction l with
  | nil => simp [upsertL, lookupL, Ne.symm h]
  | cons hd tl ih =>
    obtain ⟨k'', sp''⟩ := hd
    simp only [upsertL]
    split
    · rename_i h1
      subst h1
      simp [lookupL, Ne.symm h]
    · split
      · simp [lookupL, Ne.symm h]
      · simp only [lookupL, ih]

theorem lookup_upsert_self (m : SepMatrix) (k : Nat × Nat) (sp : SepPair) :
    (m.upsert k sp).lookup k = some sp := lookupL_upsertL_self k sp m.pairs

theorem lookup_upsert_ne (m : SepMatrix) (k k' : Nat × Nat) (h : k' ≠ k) (sp : SepPair) :
    (m.upsert k sp).lookup k' = m.lookup k' := lookupL_upsertL_ne k k' h sp m.pairs

theorem key_comm (a b : Nat) : key a b = key b a := by
  unfold key
  by_cases h1 : a < b <;> by_cases h2 : b < a <;> simp [h1, h2]
  · omega
  · have : a = b := by omega
    subst this; exact ⟨rfl, rfl⟩

/-- forget the bookkeeping flag -/
def eraseFlag (sp : SepPair) : SepPair := { sp with flippedRetrieval := false }

theorem sat_eraseFlag (e : Rat) (sp : SepPair) (p : Placement) : Sat e (eraseFlag sp) p ↔ Sat e sp p :=
  Iff.rfl

theorem pairEquiv_of_eraseFlag_eq (e : Rat) {sp₁ sp₂ : SepPair} (h : eraseFlag sp₁ = eraseFlag sp₂) :
    PairEquiv e sp₁ e sp₂ := by
  intro p
  rw [← sat_eraseFlag e sp₁, ← sat_eraseFlag e sp₂, h]

/-- Storing towards `sd` with gap `g`, or towards the opposite direction with the sign bit of the gap
    flipped, writes the same fields — whatever the flags say. -/
theorem addSep_negate (sp : SepPair) (f₁ f₂ : Bool) (gt : GapType) (sd : SepDir) (st : SepType) (g : SZ) :
    eraseFlag (({ sp with flippedRetrieval := f₁ } : SepPair).addSep gt sd st g) =
    eraseFlag (({ sp with flippedRetrieval := f₂ } : SepPair).addSep gt (negateSepDir sd) st (-g)) := by
  cases sd <;> cases st <;> simp [SepPair.addSep, negateSepDir, eraseFlag]

/-- two upserts at the same key with observationally equal pairs give equivalent matrices -/
theorem matrixEquiv_upsert (m : SepMatrix) (k : Nat × Nat) {sp₁ sp₂ : SepPair}
    (h : PairEquiv m.extraBdryGap sp₁ m.extraBdryGap sp₂) :
    MatrixEquiv (m.upsert k sp₁) (m.upsert k sp₂) := by
  intro k' p
  by_cases hk : k' = k
  · subst hk
    simp only [lookup_upsert_self, SatOpt]
    exact h p
  · simp only [lookup_upsert_ne _ _ _ hk]
    exact Iff.rfl

/-- (4) for the repaired flag semantics: after **any** history (any matrix state), storing under
    (a, b) and storing the opposite direction under (b, a) are observationally equivalent. -/
theorem flip_storage_fixed (m : SepMatrix) (a b : Nat) (hab : a ≠ b) (gt : GapType) (sd : SepDir)
    (st : SepType) (g : SZ) :
    ∃ m₁ m₂, m.addSep true a b gt sd st g = some m₁ ∧
      m.addSep true b a gt (negateSepDir sd) st g = some m₂ ∧ MatrixEquiv m₁ m₂ := by
  have hba : b ≠ a := Ne.symm hab
  simp only [SepMatrix.addSep, getSepPair, hab, hba, if_false, key_comm b a]
  cases hl : m.lookup (key a b) with
  | none =>
    refine ⟨_, _, rfl, rfl, ?_⟩
    apply matrixEquiv_upsert
    apply pairEquiv_of_eraseFlag_eq
    by_cases h : a < b
    · have h' : ¬ b < a := by omega
      simpa [h, h'] using addSep_negate { src := (key a b).1, tgt := (key a b).2 } false true gt sd st g
    · have h' : b < a := by omega
      simpa [h, h'] using addSep_negate { src := (key a b).1, tgt := (key a b).2 } true false gt sd st (-g)
  | some sp =>
    refine ⟨_, _, rfl, rfl, ?_⟩
    apply matrixEquiv_upsert
    apply pairEquiv_of_eraseFlag_eq
    by_cases h : a < b
    · have h' : ¬ b < a := by omega
      simpa [h, h'] using addSep_negate sp false true gt sd st g
    · have h' : b < a := by omega
      simpa [h, h'] using addSep_negate sp true false gt sd st (-g)

/-- (3) on a matrix that has no entry for the pair yet, with either flag semantics -/
theorem flip_storage_fresh' (ff : Bool) (m : SepMatrix) (a b : Nat) (hab : a ≠ b)
    (hfresh : m.lookup (key a b) = none) (gt : GapType) (sd : SepDir) (st : SepType) (g : SZ) :
    ∃ m₁ m₂, m.addSep ff a b gt sd st g = some m₁ ∧
      m.addSep ff b a gt (negateSepDir sd) st g = some m₂ ∧ MatrixEquiv m₁ m₂ := by
  have hba : b ≠ a := Ne.symm hab
  simp only [SepMatrix.addSep, getSepPair, hab, hba, if_false, key_comm b a, hfresh]
  refine ⟨_, _, rfl, rfl, ?_⟩
  apply matrixEquiv_upsert
  apply pairEquiv_of_eraseFlag_eq
  by_cases h : a < b
  · have h' : ¬ b < a := by omega
    simpa [h, h'] using addSep_negate { src := (key a b).1, tgt := (key a b).2 } false true gt sd st g
  · have h' : b < a := by omega
    simpa [h, h'] using addSep_negate { src := (key a b).1, tgt := (key a b).2 } true false gt sd st (-g)

end AdaptaVerif.Lemmas.Sep
