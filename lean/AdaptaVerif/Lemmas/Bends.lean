/-
Helper lemmas for C05's estimator theorems (Props/C05.lean): the code's `bends` depends on the
two points only through the signs of the displacement, and a finite table over
(sign dx, sign dy, currDir, destDir) is compared against explicit 1-, 2-, 3- and 4-leg approach paths.
-/
import AdaptaVerif.Model.Bends
import AdaptaVerif.Spec.OrthPath
import Mathlib.Tactic.Linarith
import Mathlib.Algebra.Order.Field.Rat
namespace AdaptaVerif.Lemmas.Bends
open AdaptaVerif.Model.Bends AdaptaVerif.Spec.OrthPath
open AdaptaVerif.Model.Geometry (Pt)

/-- `bends` with the value of `orthogonalDirection(curr, dest)` abstracted -/
def bendsOd (c2d currDir destDir : Nat) : Option Nat :=
  if currDir = 0 then none
  else
    match dirReverse destDir, dirLeft destDir, dirRight destDir with
    | some reverseDestDir, some leftDestDir, some rightDestDir =>
      bendsChain currDir destDir c2d reverseDestDir
        (decide (currDir = leftDestDir) || decide (currDir = rightDestDir))
    | _, _, _ => none

theorem bends_eq (curr dest : Pt) (cd dd : Nat) :
    bends curr cd dest dd = bendsOd (orthogonalDirection curr dest) cd dd := rfl

/-- `orthogonalDirection` as a function of the signs of the displacement -/
def odOfSigns (sx sy : Int) : Nat :=
  (if sy > 0 then 0 ||| CostDirectionS else if sy < 0 then 0 ||| CostDirectionN else 0) |||
  (if sx > 0 then CostDirectionE else if sx < 0 then CostDirectionW else 0)

theorem dimDirection_cases (r : Rat) :
    (r < 0 ∧ dimDirection r = -1) ∨ (r = 0 ∧ dimDirection r = 0) ∨ (0 < r ∧ dimDirection r = 1) := by
  unfold dimDirection
  rcases lt_trichotomy r 0 with h | h | h
  · left; refine ⟨h, ?_⟩; rw [if_neg (by linarith), if_pos h]
  · right; left; refine ⟨h, ?_⟩; rw [if_neg (by linarith), if_neg (by linarith)]
  · right; right; refine ⟨h, ?_⟩; rw [if_pos h]

theorem od_signs (a b : Pt) :
    orthogonalDirection a b = odOfSigns (dimDirection (b.x - a.x)) (dimDirection (b.y - a.y)) := by
  unfold orthogonalDirection odOfSigns
  rcases dimDirection_cases (b.x - a.x) with ⟨hx, ex⟩ | ⟨hx, ex⟩ | ⟨hx, ex⟩ <;>
  rcases dimDirection_cases (b.y - a.y) with ⟨hy, ey⟩ | ⟨hy, ey⟩ | ⟨hy, ey⟩ <;>
  rw [ex, ey] <;> simp only [] <;>
  split_ifs <;> first | rfl | (exfalso; linarith)

/-- the finite table: value of `bends` for given signs of (dx, dy) and single directions -/
def tbl (sx sy : Int) (cd dd : Dir) : Option Nat := bendsOd (odOfSigns sx sy) cd.mask dd.mask

theorem bends_tbl (curr dest : Pt) (cd dd : Dir) :
    bends curr cd.mask dest dd.mask =
      tbl (dimDirection (dest.x - curr.x)) (dimDirection (dest.y - curr.y)) cd dd := by
  rw [bends_eq, od_signs]; rfl

/-- `o = some b` with `b ≤ k` -/
def leOpt (o : Option Nat) (k : Nat) : Bool :=
  match o with
  | some b => decide (b ≤ k)
  | none => false

theorem leOpt_spec {o : Option Nat} {k : Nat} (h : leOpt o k = true) : ∃ b, o = some b ∧ b ≤ k := by
  cases o with
  | none => simp [leOpt] at h
  | some b => exact ⟨b, rfl, by simpa [leOpt] using h⟩

def signs : List Int := [-1, 0, 1]

/-- the table is total (the trailing `COLA_ASSERT(false)` is never reached) and bounded by 4 -/
theorem tbl_le4 : ∀ sx ∈ signs, ∀ sy ∈ signs, ∀ cd ∈ Dir.all, ∀ dd ∈ Dir.all,
    leOpt (tbl sx sy cd dd) 4 = true := by decide

theorem dimDirection_mem (r : Rat) : dimDirection r ∈ signs := by
  rcases dimDirection_cases r with ⟨_, e⟩ | ⟨_, e⟩ | ⟨_, e⟩ <;> rw [e] <;> decide

theorem Dir.mem_all (d : Dir) : d ∈ Dir.all := by cases d <;> decide

theorem bends_le4 (curr dest : Pt) (cd dd : Dir) :
    leOpt (bends curr cd.mask dest dd.mask) 4 = true := by
  rw [bends_tbl]
  exact tbl_le4 _ (dimDirection_mem _) _ (dimDirection_mem _) _ (Dir.mem_all _) _ (Dir.mem_all _)

/-- one leg -/
theorem adm1 (curr dest : Pt) (hne : ¬ (dest.x - curr.x = 0 ∧ dest.y - curr.y = 0))
    (d1 : Dir) (l1 : Rat) (h1 : 0 ≤ l1)
    (hx : l1 * d1.ux = dest.x - curr.x) (hy : l1 * d1.uy = dest.y - curr.y) :
    leOpt (bends curr d1.mask dest d1.mask) 0 = true := by
  rw [bends_tbl]
  have hne' : dest.x - curr.x = 0 → dest.y - curr.y = 0 → False := fun a b => hne ⟨a, b⟩
  cases d1 <;> simp only [Dir.ux, Dir.uy] at hx hy <;>
  rcases dimDirection_cases (dest.x - curr.x) with ⟨hx', ex⟩ | ⟨hx', ex⟩ | ⟨hx', ex⟩ <;>
  rcases dimDirection_cases (dest.y - curr.y) with ⟨hy', ey⟩ | ⟨hy', ey⟩ | ⟨hy', ey⟩ <;>
  rw [ex, ey] <;>
  first
    | decide
    | (exfalso; linarith)
    | (exfalso; exact hne' hx' hy')


/-- two legs: first ≥ 0, last ≥ 0 -/
theorem adm2 (curr dest : Pt) (hne : ¬ (dest.x - curr.x = 0 ∧ dest.y - curr.y = 0))
    (d1 d2 : Dir) (l1 l2 : Rat) (p12 : Perp d1 d2) (h1 : 0 ≤ l1) (h2 : 0 ≤ l2)
    (hx : l1 * d1.ux + l2 * d2.ux = dest.x - curr.x)
    (hy : l1 * d1.uy + l2 * d2.uy = dest.y - curr.y) :
    leOpt (bends curr d1.mask dest d2.mask) 1 = true := by
  rw [bends_tbl]
  have hne' : dest.x - curr.x = 0 → dest.y - curr.y = 0 → False := fun a b => hne ⟨a, b⟩
  cases d1 <;> rcases p12 with rfl | rfl <;> simp only [Dir.left, Dir.right, Dir.ux, Dir.uy] at hx hy <;>
  rcases dimDirection_cases (dest.x - curr.x) with ⟨hx', ex⟩ | ⟨hx', ex⟩ | ⟨hx', ex⟩ <;>
  rcases dimDirection_cases (dest.y - curr.y) with ⟨hy', ey⟩ | ⟨hy', ey⟩ | ⟨hy', ey⟩ <;>
  rw [ex, ey] <;>
  first
    | decide
    | (exfalso; linarith)
    | (exfalso; exact hne' hx' hy')

/-- three legs: first ≥ 0, inner > 0, last ≥ 0 -/
theorem adm3 (curr dest : Pt) (_hne : ¬ (dest.x - curr.x = 0 ∧ dest.y - curr.y = 0))
    (d1 d2 d3 : Dir) (l1 l2 l3 : Rat) (p12 : Perp d1 d2) (p23 : Perp d2 d3)
    (h1 : 0 ≤ l1) (h2 : 0 < l2) (h3 : 0 ≤ l3)
    (hx : l1 * d1.ux + (l2 * d2.ux + l3 * d3.ux) = dest.x - curr.x)
    (hy : l1 * d1.uy + (l2 * d2.uy + l3 * d3.uy) = dest.y - curr.y) :
    leOpt (bends curr d1.mask dest d3.mask) 2 = true := by
  rw [bends_tbl]
  cases d1 <;> rcases p12 with rfl | rfl <;> rcases p23 with rfl | rfl <;>
  simp only [Dir.left, Dir.right, Dir.ux, Dir.uy] at hx hy <;>
  rcases dimDirection_cases (dest.x - curr.x) with ⟨hx', ex⟩ | ⟨hx', ex⟩ | ⟨hx', ex⟩ <;>
  rcases dimDirection_cases (dest.y - curr.y) with ⟨hy', ey⟩ | ⟨hy', ey⟩ | ⟨hy', ey⟩ <;>
  rw [ex, ey] <;>
  first
    | decide
    | (exfalso; linarith)

/-- four legs: first ≥ 0, two inner > 0, last ≥ 0 -/
theorem adm4 (curr dest : Pt) (_hne : ¬ (dest.x - curr.x = 0 ∧ dest.y - curr.y = 0))
    (d1 d2 d3 d4 : Dir) (l1 l2 l3 l4 : Rat) (p12 : Perp d1 d2) (p23 : Perp d2 d3) (p34 : Perp d3 d4)
    (_h1 : 0 ≤ l1) (_h2 : 0 < l2) (_h3 : 0 < l3) (_h4 : 0 ≤ l4)
    (hx : l1 * d1.ux + (l2 * d2.ux + (l3 * d3.ux + l4 * d4.ux)) = dest.x - curr.x)
    (hy : l1 * d1.uy + (l2 * d2.uy + (l3 * d3.uy + l4 * d4.uy)) = dest.y - curr.y) :
    leOpt (bends curr d1.mask dest d4.mask) 3 = true := by
  rw [bends_tbl]
  cases d1 <;> rcases p12 with rfl | rfl <;> rcases p23 with rfl | rfl <;> rcases p34 with rfl | rfl <;>
  clear hx hy <;>
  rcases dimDirection_cases (dest.x - curr.x) with ⟨-, ex⟩ | ⟨-, ex⟩ | ⟨-, ex⟩ <;>
  rcases dimDirection_cases (dest.y - curr.y) with ⟨-, ey⟩ | ⟨-, ey⟩ | ⟨-, ey⟩ <;>
  rw [ex, ey] <;>
  decide


/-! ### list level -/

theorem ne_disp {curr dest : Pt} (hne : curr ≠ dest) : ¬ (dest.x - curr.x = 0 ∧ dest.y - curr.y = 0) := by
  rintro ⟨hx, hy⟩
  apply hne
  cases curr; cases dest
  simp only [Pt.mk.injEq] at *
  constructor <;> linarith

theorem admissible_leOpt (curr dest : Pt) (hne : curr ≠ dest) (cd dd : Dir) (ls : List Leg)
    (h : IsApproach curr cd dest dd ls) :
    leOpt (bends curr cd.mask dest dd.mask) (bendsOf ls) = true := by
  have hne' := ne_disp hne
  rcases ls with _ | ⟨⟨d1, l1⟩, _ | ⟨⟨d2, l2⟩, _ | ⟨⟨d3, l3⟩, _ | ⟨⟨d4, l4⟩, _ | ⟨⟨d5, l5⟩, t⟩⟩⟩⟩⟩
  · have := h.first; simp at this
  · obtain ⟨hf, hl, -, hn, -, hx, hy⟩ := h
    simp only [List.head?_cons, Option.map_some, Option.some.injEq] at hf
    simp only [List.getLast?_singleton, Option.map_some, Option.some.injEq] at hl
    subst hf; subst hl
    simp only [dispX, dispY, add_zero] at hx hy
    exact adm1 curr dest hne' d1 l1 (hn ⟨d1, l1⟩ (by simp)) hx hy
  · obtain ⟨hf, hl, hc, hn, -, hx, hy⟩ := h
    simp only [List.head?_cons, Option.map_some, Option.some.injEq] at hf
    simp only [List.getLast?_cons_cons, List.getLast?_singleton, Option.map_some, Option.some.injEq] at hl
    subst hf; subst hl
    simp only [dispX, dispY, add_zero] at hx hy
    exact adm2 curr dest hne' d1 d2 l1 l2 hc.1 (hn ⟨d1, l1⟩ (by simp)) (hn ⟨d2, l2⟩ (by simp)) hx hy
  · obtain ⟨hf, hl, hc, hn, hi, hx, hy⟩ := h
    simp only [List.head?_cons, Option.map_some, Option.some.injEq] at hf
    simp only [List.getLast?_cons_cons, List.getLast?_singleton, Option.map_some, Option.some.injEq] at hl
    subst hf; subst hl
    simp only [dispX, dispY, add_zero] at hx hy
    exact adm3 curr dest hne' d1 d2 d3 l1 l2 l3 hc.1 hc.2.1 (hn ⟨d1, l1⟩ (by simp))
      (hi ⟨d2, l2⟩ (by simp [inner])) (hn ⟨d3, l3⟩ (by simp)) hx hy
  · obtain ⟨hf, hl, hc, hn, hi, hx, hy⟩ := h
    simp only [List.head?_cons, Option.map_some, Option.some.injEq] at hf
    simp only [List.getLast?_cons_cons, List.getLast?_singleton, Option.map_some, Option.some.injEq] at hl
    subst hf; subst hl
    simp only [dispX, dispY, add_zero] at hx hy
    exact adm4 curr dest hne' d1 d2 d3 d4 l1 l2 l3 l4 hc.1 hc.2.1 hc.2.2.1 (hn ⟨d1, l1⟩ (by simp))
      (hi ⟨d2, l2⟩ (by simp [inner])) (hi ⟨d3, l3⟩ (by simp [inner])) (hn ⟨d4, l4⟩ (by simp)) hx hy
  · have h4 := bends_le4 curr dest cd dd
    obtain ⟨b, hb, hb4⟩ := leOpt_spec h4
    rw [hb]
    simp only [leOpt, bendsOf, List.length_cons]
    exact decide_eq_true (by omega)

/-! ### the estimator -/

theorem absR_nonneg (r : Rat) : 0 ≤ absR r := by unfold absR; split_ifs <;> linarith
theorem absR_add_le (a b : Rat) : absR (a + b) ≤ absR a + absR b := by
  unfold absR; split_ifs <;> linarith
theorem absR_neg (a : Rat) : absR (-a) = absR a := by
  unfold absR; split_ifs <;> linarith
theorem absR_zero_iff (a : Rat) : absR a = 0 ↔ a = 0 := by
  unfold absR; split_ifs <;> constructor <;> intro h <;> linarith

theorem leg_abs (d : Dir) (l : Rat) (h : 0 ≤ l) : absR (l * d.ux) + absR (l * d.uy) = l := by
  cases d <;> simp only [Dir.ux, Dir.uy] <;> unfold absR <;> split_ifs <;> linarith

theorem disp_le_totalLen (ls : List Leg) (hn : ∀ l ∈ ls, 0 ≤ l.len) :
    absR (dispX ls) + absR (dispY ls) ≤ totalLen ls := by
  induction ls with
  | nil => simp [dispX, dispY, totalLen, absR]
  | cons a t ih =>
    have h1 := ih (fun l hl => hn l (List.mem_cons_of_mem _ hl))
    have h2 := leg_abs a.dir a.len (hn a (by simp))
    have h3 := absR_add_le (a.len * a.dir.ux) (dispX t)
    have h4 := absR_add_le (a.len * a.dir.uy) (dispY t)
    simp only [dispX, dispY, totalLen]
    linarith

theorem manhattan_le (curr tar : Pt) (ls : List Leg) (hn : ∀ l ∈ ls, 0 ≤ l.len)
    (hx : dispX ls = tar.x - curr.x) (hy : dispY ls = tar.y - curr.y) :
    manhattanDist curr tar ≤ totalLen ls := by
  have h := disp_le_totalLen ls hn
  rw [hx, hy] at h
  unfold manhattanDist
  have e1 : curr.x - tar.x = -(tar.x - curr.x) := by linarith
  have e2 : curr.y - tar.y = -(tar.y - curr.y) := by linarith
  rw [e1, e2, absR_neg, absR_neg]
  exact h

theorem totalLen_nonneg (ls : List Leg) (hn : ∀ l ∈ ls, 0 ≤ l.len) : 0 ≤ totalLen ls := by
  have := disp_le_totalLen ls hn
  have := absR_nonneg (dispX ls); have := absR_nonneg (dispY ls)
  linarith

theorem bends_isSome (curr dest : Pt) (cd dd : Dir) : ∃ b, bends curr cd.mask dest dd.mask = some b := by
  obtain ⟨b, hb, _⟩ := leOpt_spec (bends_le4 curr dest cd dd)
  exact ⟨b, hb⟩

/-- one `std::min` step of the estimator -/
theorem minStep_spec (bc dirs : Nat) (D : Dir) (curr tar : Pt) (cd : Dir) :
    ∃ r, minStep (some bc) dirs D.mask curr cd.mask tar = some r ∧ r ≤ bc ∧
      (dirs &&& D.mask ≠ 0 → ∃ b, bends curr cd.mask tar D.mask = some b ∧ r ≤ b) := by
  obtain ⟨b, hb⟩ := bends_isSome curr tar cd D
  unfold minStep
  dsimp only
  by_cases hm : dirs &&& D.mask ≠ 0
  · rw [if_pos hm, hb]
    exact ⟨min bc b, rfl, Nat.min_le_left _ _, fun _ => ⟨b, rfl, Nat.min_le_right _ _⟩⟩
  · rw [if_neg hm]
    exact ⟨bc, rfl, Nat.le_refl _, fun h => absurd h hm⟩

theorem bendCount_spec (last curr tar : Pt) (cd : Dir) (hdir : orthogonalDirection last curr = cd.mask)
    (dirs : Nat) (hne : curr ≠ tar) (dd : Dir) (hdd : dirs &&& dd.mask ≠ 0) :
    ∃ r b, bendCount (some last) curr tar dirs = some r ∧
      bends curr cd.mask tar dd.mask = some b ∧ r ≤ b := by
  have hdist : manhattanDist curr tar > 0 := by
    unfold manhattanDist
    have h1 := absR_nonneg (curr.x - tar.x); have h2 := absR_nonneg (curr.y - tar.y)
    by_contra hc
    have hx : absR (curr.x - tar.x) = 0 := by linarith
    have hy : absR (curr.y - tar.y) = 0 := by linarith
    rw [absR_zero_iff] at hx hy
    apply hne; cases curr; cases tar; simp only [Pt.mk.injEq] at *; constructor <;> linarith
  have hsingle : cd.mask > 0 ∧ orthogonalDirectionsCount cd.mask = 1 := by cases cd <;> decide
  obtain ⟨r1, e1, l1, f1⟩ := minStep_spec 10 dirs Dir.N curr tar cd
  obtain ⟨r2, e2, l2, f2⟩ := minStep_spec r1 dirs Dir.E curr tar cd
  obtain ⟨r3, e3, l3, f3⟩ := minStep_spec r2 dirs Dir.S curr tar cd
  obtain ⟨r4, e4, l4, f4⟩ := minStep_spec r3 dirs Dir.W curr tar cd
  have hbc : bendCount (some last) curr tar dirs = some r4 := by
    unfold bendCount
    simp only [hdist, if_true, hdir, hsingle, and_self]
    show minStep (minStep (minStep (minStep (some 10) dirs Dir.N.mask curr cd.mask tar) dirs Dir.E.mask curr cd.mask tar) dirs Dir.S.mask curr cd.mask tar) dirs Dir.W.mask curr cd.mask tar = some r4
    rw [e1, e2, e3, e4]
  cases dd with
  | N => obtain ⟨b, hb, hle⟩ := f1 hdd; exact ⟨r4, b, hbc, hb, by omega⟩
  | E => obtain ⟨b, hb, hle⟩ := f2 hdd; exact ⟨r4, b, hbc, hb, by omega⟩
  | S => obtain ⟨b, hb, hle⟩ := f3 hdd; exact ⟨r4, b, hbc, hb, by omega⟩
  | W => obtain ⟨b, hb, hle⟩ := f4 hdd; exact ⟨r4, b, hbc, hb, by omega⟩

/-! ### estimate ≤ cost -/

theorem admissible_exists (curr dest : Pt) (hne : curr ≠ dest) (cd dd : Dir) (ls : List Leg)
    (h : IsApproach curr cd dest dd ls) :
    ∃ b, bends curr cd.mask dest dd.mask = some b ∧ b ≤ bendsOf ls :=
  leOpt_spec (admissible_leOpt curr dest hne cd dd ls h)

theorem pathCost_mono (pen : Rat) (hpen : 0 ≤ pen) (d : Rat) (r : Nat) (ls : List Leg)
    (hd : d ≤ totalLen ls) (hr : r ≤ bendsOf ls) : d + (r : Rat) * pen ≤ pathCost pen ls := by
  unfold pathCost
  have : (r : Rat) ≤ (bendsOf ls : Rat) := by exact_mod_cast hr
  have := mul_le_mul_of_nonneg_right this hpen
  linarith

/-- heading known (the usual case inside the search) -/
theorem estimate_le_heading (last curr tar : Pt) (cd : Dir)
    (hdir : orthogonalDirection last curr = cd.mask) (dirs : Nat) (pen : Rat) (hpen : 0 < pen)
    (dd : Dir) (hdd : dirs &&& dd.mask ≠ 0) (ls : List Leg) (h : IsApproach curr cd tar dd ls) :
    ∃ e, estimatedCostSpecific (some last) curr tar dirs pen = some e ∧ e ≤ pathCost pen ls := by
  have hlen := manhattan_le curr tar ls h.nonneg h.dx h.dy
  by_cases hne : curr = tar
  · -- dist = 0: no bend term
    subst hne
    have hd0 : manhattanDist curr curr = 0 := by
      unfold manhattanDist; simp [absR]
    refine ⟨0, ?_, ?_⟩
    · unfold estimatedCostSpecific bendCount
      simp [hpen, hd0]
    · have := pathCost_mono pen (le_of_lt hpen) 0 0 ls (totalLen_nonneg ls h.nonneg) (Nat.zero_le _)
      simpa using this
  · obtain ⟨r, b, hbc, hb, hrb⟩ := bendCount_spec last curr tar cd hdir dirs hne dd hdd
    obtain ⟨b', hb', hle⟩ := admissible_exists curr tar hne cd dd ls h
    rw [hb] at hb'; cases hb'
    refine ⟨manhattanDist curr tar + (r : Rat) * pen, ?_, ?_⟩
    · unfold estimatedCostSpecific
      simp [hpen, hbc]
    · exact pathCost_mono pen (le_of_lt hpen) _ r ls hlen (le_trans hrb hle)

/-- a path with a single leg moves along one axis only -/
theorem free_two_legs (curr tar : Pt) (ls : List Leg) (h : IsFreeStart curr tar ls)
    (hx : tar.x - curr.x ≠ 0) (hy : tar.y - curr.y ≠ 0) : 1 ≤ bendsOf ls := by
  obtain ⟨cd, dd, hf, _, _, _, _, hdx, hdy⟩ := h
  rcases ls with _ | ⟨⟨d1, l1⟩, _ | ⟨b, t⟩⟩
  · simp at hf
  · exfalso
    simp only [dispX, dispY, add_zero] at hdx hdy
    cases d1 <;> simp only [Dir.ux, Dir.uy, mul_zero] at hdx hdy
    · exact hx hdx.symm
    · exact hy hdy.symm
    · exact hx hdx.symm
    · exact hy hdy.symm
  · simp [bendsOf]

/-- start node of the search (`last == nullptr`): heading free -/
theorem estimate_le_start (curr tar : Pt) (dirs : Nat) (pen : Rat) (hpen : 0 < pen)
    (ls : List Leg) (h : IsFreeStart curr tar ls) :
    ∃ e, estimatedCostSpecific none curr tar dirs pen = some e ∧ e ≤ pathCost pen ls := by
  obtain ⟨cd, dd, ha⟩ := h
  have hlen := manhattan_le curr tar ls ha.nonneg ha.dx ha.dy
  by_cases hxy : tar.x - curr.x ≠ 0 ∧ tar.y - curr.y ≠ 0
  · refine ⟨manhattanDist curr tar + ((1 : Nat) : Rat) * pen, ?_, ?_⟩
    · unfold estimatedCostSpecific bendCount
      simp [hpen, hxy]
    · exact pathCost_mono pen (le_of_lt hpen) _ 1 ls hlen (free_two_legs curr tar ls ⟨cd, dd, ha⟩ hxy.1 hxy.2)
  · refine ⟨manhattanDist curr tar + ((0 : Nat) : Rat) * pen, ?_, ?_⟩
    · unfold estimatedCostSpecific bendCount
      simp only [hpen, not_true_eq_false, if_false, hxy]
    · exact pathCost_mono pen (le_of_lt hpen) _ 0 ls hlen (Nat.zero_le _)

/-- no usable heading (`last == curr`, or the previous hop was not axis-parallel): only the
    Manhattan distance is charged -/
theorem estimate_le_noheading (last curr tar : Pt) (dirs : Nat) (pen : Rat) (hpen : 0 < pen)
    (hno : ¬ (orthogonalDirection last curr > 0 ∧
      orthogonalDirectionsCount (orthogonalDirection last curr) = 1))
    (ls : List Leg) (h : IsFreeStart curr tar ls) :
    ∃ e, estimatedCostSpecific (some last) curr tar dirs pen = some e ∧ e ≤ pathCost pen ls := by
  obtain ⟨cd, dd, ha⟩ := h
  have hlen := manhattan_le curr tar ls ha.nonneg ha.dx ha.dy
  refine ⟨manhattanDist curr tar + ((0 : Nat) : Rat) * pen, ?_, ?_⟩
  · unfold estimatedCostSpecific bendCount
    simp only [hpen, not_true_eq_false, if_false, hno]
    split_ifs <;> rfl
  · exact pathCost_mono pen (le_of_lt hpen) _ 0 ls hlen (Nat.zero_le _)

end AdaptaVerif.Lemmas.Bends
