/-
C20 — VPSC problems of `Model/Frame.lean`: uniqueness of the optimum (strict convexity),
equivariance under translation of the desired positions and under renaming of the variables.
-/
import AdaptaVerif.Model.Frame
import Mathlib.Tactic.Linarith
import Mathlib.Tactic.Ring
import Mathlib.Algebra.Order.Field.Rat
import Mathlib.Algebra.BigOperators.Group.Finset.Basic
namespace AdaptaVerif.Lemmas.FrameVpsc
open AdaptaVerif.Model.Frame

/-! ### `sumTo` -/

theorem sumTo_congr {n : Nat} {f g : Nat → Rat} (h : ∀ i, i < n → f i = g i) :
    sumTo n f = sumTo n g := by
  induction n with
  | zero => rfl
  | succ n ih =>
    simp only [sumTo]
    rw [ih (fun i hi => h i (Nat.lt_succ_of_lt hi)), h n (Nat.lt_succ_self n)]

theorem sumTo_add (n : Nat) (f g : Nat → Rat) :
    sumTo n (fun i => f i + g i) = sumTo n f + sumTo n g := by
  induction n with
  | zero => simp [sumTo]
  | succ n ih => simp only [sumTo, ih]; ring

theorem sumTo_sub (n : Nat) (f g : Nat → Rat) :
    sumTo n (fun i => f i - g i) = sumTo n f - sumTo n g := by
  induction n with
  | zero => simp [sumTo]
  | succ n ih => simp only [sumTo, ih]; ring

theorem sumTo_mul_left (n : Nat) (c : Rat) (f : Nat → Rat) :
    sumTo n (fun i => c * f i) = c * sumTo n f := by
  induction n with
  | zero => simp [sumTo]
  | succ n ih => simp only [sumTo, ih]; ring

theorem sumTo_nonneg {n : Nat} {f : Nat → Rat} (h : ∀ i, i < n → 0 ≤ f i) : 0 ≤ sumTo n f := by
  induction n with
  | zero => simp [sumTo]
  | succ n ih =>
    simp only [sumTo]
    have := ih (fun i hi => h i (Nat.lt_succ_of_lt hi))
    have := h n (Nat.lt_succ_self n)
    linarith

/-- a sum of non-negative terms that is `≤ 0` has all terms zero -/
theorem sumTo_terms_zero {n : Nat} {f : Nat → Rat} (h : ∀ i, i < n → 0 ≤ f i)
    (hs : sumTo n f ≤ 0) : ∀ i, i < n → f i = 0 := by
  induction n with
  | zero => intro i hi; exact absurd hi (Nat.not_lt_zero i)
  | succ n ih =>
    simp only [sumTo] at hs
    have h1 := sumTo_nonneg (fun i hi => h i (Nat.lt_succ_of_lt hi))
    have h2 := h n (Nat.lt_succ_self n)
    intro i hi
    rcases Nat.lt_succ_iff_lt_or_eq.mp hi with hlt | heq
    · exact ih (fun i hi => h i (Nat.lt_succ_of_lt hi)) (by linarith) i hlt
    · subst heq; linarith

theorem sumTo_eq_finset (n : Nat) (f : Nat → Rat) : sumTo n f = ∑ i ∈ Finset.range n, f i := by
  induction n with
  | zero => simp [sumTo]
  | succ n ih => rw [Finset.sum_range_succ, ← ih]; rfl

/-- reindexing a sum along a permutation of `{0,…,n-1}` -/
theorem sumTo_perm {n : Nat} {σ τ : Nat → Nat} (hp : IsPerm n σ τ) (f : Nat → Rat) :
    sumTo n (fun i => f (σ i)) = sumTo n f := by
  rw [sumTo_eq_finset, sumTo_eq_finset]
  refine Finset.sum_nbij' σ τ ?_ ?_ ?_ ?_ ?_
  · intro i hi; exact Finset.mem_range.mpr (hp.1 i (Finset.mem_range.mp hi)).1
  · intro j hj; exact Finset.mem_range.mpr (hp.2 j (Finset.mem_range.mp hj)).1
  · intro i hi; exact (hp.1 i (Finset.mem_range.mp hi)).2
  · intro j hj; exact (hp.2 j (Finset.mem_range.mp hj)).2
  · intro i _; rfl

theorem IsPerm.symm {n : Nat} {σ τ : Nat → Nat} (hp : IsPerm n σ τ) : IsPerm n τ σ :=
  ⟨hp.2, hp.1⟩

/-! ### uniqueness of the optimum -/

/-- cost at the midpoint: strict convexity identity -/
theorem cost_midpoint (P : VProblem) (x y : Nat → Rat) :
    P.cost (fun i => (x i + y i) / 2) =
      (P.cost x + P.cost y) / 2
        - sumTo P.n (fun i => P.weight i * ((x i - y i) * (x i - y i))) / 4 := by
  unfold VProblem.cost
  have e : ∀ i, i < P.n →
      P.weight i * (((x i + y i) / 2 - P.desired i) * ((x i + y i) / 2 - P.desired i)) =
        (1/2 : Rat) * (P.weight i * ((x i - P.desired i) * (x i - P.desired i)))
          + (1/2 : Rat) * (P.weight i * ((y i - P.desired i) * (y i - P.desired i)))
          - (1/4 : Rat) * (P.weight i * ((x i - y i) * (x i - y i))) := by
    intro i _; ring
  rw [sumTo_congr e, sumTo_sub, sumTo_add, sumTo_mul_left, sumTo_mul_left, sumTo_mul_left]
  ring

theorem feasible_midpoint (P : VProblem) (x y : Nat → Rat)
    (hx : P.Feasible x) (hy : P.Feasible y) : P.Feasible (fun i => (x i + y i) / 2) := by
  intro c hc
  have h1 := hx c hc
  have h2 := hy c hc
  unfold VCon.Holds at *
  linarith

/-- two optima of the strictly convex separable quadratic over the convex feasible set coincide -/
theorem optimum_unique (P : VProblem) (hw : P.WF) (x y : Nat → Rat)
    (hx : P.IsOptimum x) (hy : P.IsOptimum y) : ∀ i, i < P.n → x i = y i := by
  have hm := feasible_midpoint P x y hx.1 hy.1
  have h1 := hx.2 _ hm
  have h2 := hy.2 _ hm
  rw [cost_midpoint] at h1 h2
  have hs : sumTo P.n (fun i => P.weight i * ((x i - y i) * (x i - y i))) ≤ 0 := by linarith
  have hz := sumTo_terms_zero
    (f := fun i => P.weight i * ((x i - y i) * (x i - y i)))
    (fun i hi => mul_nonneg (le_of_lt (hw.1 i hi)) (mul_self_nonneg _)) hs
  intro i hi
  have h3 : P.weight i * ((x i - y i) * (x i - y i)) = 0 := hz i hi
  have hwi : P.weight i ≠ 0 := ne_of_gt (hw.1 i hi)
  rcases mul_eq_zero.mp h3 with h4 | h4
  · exact absurd h4 hwi
  · have h5 : x i - y i = 0 := mul_self_eq_zero.mp h4
    linarith

/-! ### translation -/

theorem cost_shift (P : VProblem) (t : Rat) (y : Nat → Rat) :
    (P.shift t).cost (fun i => y i + t) = P.cost y := by
  unfold VProblem.cost VProblem.shift
  apply sumTo_congr
  intro i _
  show P.weight i * ((y i + t - (P.desired i + t)) * (y i + t - (P.desired i + t))) = _
  ring

theorem feasible_shift_iff (P : VProblem) (t : Rat) (y : Nat → Rat) :
    (P.shift t).Feasible (fun i => y i + t) ↔ P.Feasible y := by
  unfold VProblem.Feasible VProblem.shift VCon.Holds
  constructor
  · intro h c hc
    have := h c hc
    simp only at this
    linarith
  · intro h c hc
    have := h c hc
    show y c.l + t + c.gap ≤ y c.r + t
    linarith

theorem shift_back (t : Rat) (y : Nat → Rat) : (fun i => (fun j => y j - t) i + t) = y := by
  funext i
  show y i - t + t = y i
  ring

/-- desired + t ⇒ optimum + t (scale 1) -/
theorem vpsc_translation_equivariant (P : VProblem) (t : Rat) (x : Nat → Rat) :
    P.IsOptimum x ↔ (P.shift t).IsOptimum (fun i => x i + t) := by
  constructor
  · rintro ⟨hf, ho⟩
    refine ⟨(feasible_shift_iff P t x).mpr hf, ?_⟩
    intro y hy
    have e := shift_back t y
    have hy' : P.Feasible (fun j => y j - t) := by
      apply (feasible_shift_iff P t _).mp
      rw [e]; exact hy
    have h1 := ho _ hy'
    have h2 := cost_shift P t (fun j => y j - t)
    rw [e] at h2
    rw [cost_shift, h2]
    exact h1
  · rintro ⟨hf, ho⟩
    refine ⟨(feasible_shift_iff P t x).mp hf, ?_⟩
    intro y hy
    have h1 := ho _ ((feasible_shift_iff P t y).mpr hy)
    rw [cost_shift, cost_shift] at h1
    exact h1

theorem shift_WF (P : VProblem) (hw : P.WF) (t : Rat) : (P.shift t).WF := hw

/-- hence any optimum of the shifted problem is the shifted optimum -/
theorem vpsc_shifted_optimum_eq (P : VProblem) (hw : P.WF) (t : Rat) (x x' : Nat → Rat)
    (hx : P.IsOptimum x) (hx' : (P.shift t).IsOptimum x') : ∀ i, i < P.n → x' i = x i + t := by
  have h := (vpsc_translation_equivariant P t x).mp hx
  intro i hi
  exact optimum_unique (P.shift t) (shift_WF P hw t) x' (fun i => x i + t) hx' h i hi

/-! ### permutation -/

theorem cost_permute (P : VProblem) (σ τ : Nat → Nat) (hp : IsPerm P.n σ τ)
    (cons' : List VCon) (y : Nat → Rat) :
    (P.permute τ cons').cost y = P.cost (fun i => y (σ i)) := by
  unfold VProblem.cost VProblem.permute
  show sumTo P.n (fun j => P.weight (τ j) * ((y j - P.desired (τ j)) * (y j - P.desired (τ j))))
    = sumTo P.n (fun i => P.weight i * ((y (σ i) - P.desired i) * (y (σ i) - P.desired i)))
  rw [← sumTo_perm (IsPerm.symm hp)
    (fun i => P.weight i * ((y (σ i) - P.desired i) * (y (σ i) - P.desired i)))]
  apply sumTo_congr
  intro j hj
  show _ = P.weight (τ j) * ((y (σ (τ j)) - P.desired (τ j)) * (y (σ (τ j)) - P.desired (τ j)))
  rw [(hp.2 j hj).2]

theorem cost_permute_comp (P : VProblem) (σ τ : Nat → Nat) (hp : IsPerm P.n σ τ)
    (cons' : List VCon) (x : Nat → Rat) :
    (P.permute τ cons').cost (fun j => x (τ j)) = P.cost x := by
  rw [cost_permute P σ τ hp]
  unfold VProblem.cost
  apply sumTo_congr
  intro i hi
  show P.weight i * ((x (τ (σ i)) - P.desired i) * (x (τ (σ i)) - P.desired i)) = _
  rw [(hp.1 i hi).2]

theorem feasible_permute_back (P : VProblem) (σ τ : Nat → Nat)
    (cons' : List VCon) (hc : ∀ c, c ∈ cons' ↔ ∃ c0 ∈ P.cons, c = c0.rename σ) (y : Nat → Rat)
    (hy : (P.permute τ cons').Feasible y) : P.Feasible (fun i => y (σ i)) := by
  intro c0 hc0
  have hm : c0.rename σ ∈ cons' := (hc _).mpr ⟨c0, hc0, rfl⟩
  exact hy _ hm

theorem feasible_permute (P : VProblem) (hw : P.WF) (σ τ : Nat → Nat) (hp : IsPerm P.n σ τ)
    (cons' : List VCon) (hc : ∀ c, c ∈ cons' ↔ ∃ c0 ∈ P.cons, c = c0.rename σ) (x : Nat → Rat)
    (hx : P.Feasible x) : (P.permute τ cons').Feasible (fun j => x (τ j)) := by
  intro c hcm
  have hcm' : c ∈ cons' := hcm
  obtain ⟨c0, hc0, rfl⟩ := (hc c).mp hcm'
  have hb := hw.2 c0 hc0
  have h := hx c0 hc0
  unfold VCon.Holds at h
  show x (τ (σ c0.l)) + c0.gap ≤ x (τ (σ c0.r))
  rw [(hp.1 _ hb.1).2, (hp.1 _ hb.2).2]
  exact h

/-- renaming the variables by a permutation σ (inverse τ) and listing the renamed constraints in ANY
    order / multiplicity (`cons'` has the same members as `P.cons.map (rename σ)`) permutes the optimum -/
theorem vpsc_permutation_invariant (P : VProblem) (hw : P.WF) (σ τ : Nat → Nat) (hp : IsPerm P.n σ τ)
    (cons' : List VCon) (hc : ∀ c, c ∈ cons' ↔ ∃ c0 ∈ P.cons, c = c0.rename σ) (x : Nat → Rat) :
    P.IsOptimum x → (P.permute τ cons').IsOptimum (fun j => x (τ j)) := by
  rintro ⟨hf, ho⟩
  refine ⟨feasible_permute P hw σ τ hp cons' hc x hf, ?_⟩
  intro y hy
  rw [cost_permute_comp P σ τ hp, cost_permute P σ τ hp]
  exact ho _ (feasible_permute_back P σ τ cons' hc y hy)

theorem permute_WF (P : VProblem) (hw : P.WF) (σ τ : Nat → Nat) (hp : IsPerm P.n σ τ)
    (cons' : List VCon) (hc : ∀ c, c ∈ cons' ↔ ∃ c0 ∈ P.cons, c = c0.rename σ) :
    (P.permute τ cons').WF := by
  constructor
  · intro j hj
    exact hw.1 (τ j) (hp.2 j hj).1
  · intro c hcm
    have hcm' : c ∈ cons' := hcm
    obtain ⟨c0, hc0, rfl⟩ := (hc c).mp hcm'
    have hb := hw.2 c0 hc0
    exact ⟨(hp.1 _ hb.1).1, (hp.1 _ hb.2).1⟩

/-- hence ANY optimum of the permuted problem is the permuted optimum of the original -/
theorem vpsc_permuted_optimum_eq (P : VProblem) (hw : P.WF) (σ τ : Nat → Nat) (hp : IsPerm P.n σ τ)
    (cons' : List VCon) (hc : ∀ c, c ∈ cons' ↔ ∃ c0 ∈ P.cons, c = c0.rename σ) (x x' : Nat → Rat)
    (hx : P.IsOptimum x) (hx' : (P.permute τ cons').IsOptimum x') : ∀ j, j < P.n → x' j = x (τ j) := by
  have h := vpsc_permutation_invariant P hw σ τ hp cons' hc x hx
  intro j hj
  exact optimum_unique (P.permute τ cons') (permute_WF P hw σ τ hp cons' hc) x'
    (fun j => x (τ j)) hx' h j hj

end AdaptaVerif.Lemmas.FrameVpsc
