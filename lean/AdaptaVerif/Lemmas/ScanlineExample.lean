/-
A concrete instance used by the non-vacuity examples of Props/C09.lean: two overlapping squares
[0,2]² and [1,3]², borders 0, rank = index, events O0 O1 C0 C1.
-/
import AdaptaVerif.Lemmas.ScanlineCheck
import Mathlib.Tactic.NormNum
namespace AdaptaVerif.Lemmas.Scanline.Example
open AdaptaVerif.Model.Scanline AdaptaVerif.Spec.Rects AdaptaVerif.Check.Rects
open AdaptaVerif.Lemmas.Scanline

def exRs : Array Rect := #[⟨0, 2, 0, 2⟩, ⟨1, 3, 1, 3⟩]
def exEvs : List Ev := [⟨false, 0⟩, ⟨false, 1⟩, ⟨true, 0⟩, ⟨true, 1⟩]
/-- a placement of the centres in y that satisfies the generated constraint -/
def exY : Nat → Rat := fun i => if i = 0 then 0 else 2

theorem ex0 : (rectAt exRs 0) = ⟨0, 2, 0, 2⟩ := rfl
theorem ex1 : (rectAt exRs 1) = ⟨1, 3, 1, 3⟩ := rfl
theorem exCtr0 : (yAxis exRs 0 0).ctr 0 = 1 := by
  norm_num [yAxis, ex0, Rect.centreY, Rect.height, Rect.getMinY, Rect.getMaxY]
theorem exCtr1 : (yAxis exRs 0 0).ctr 1 = 2 := by
  norm_num [yAxis, ex1, Rect.centreY, Rect.height, Rect.getMinY, Rect.getMaxY]
theorem exSz0 : (yAxis exRs 0 0).sz 0 = 2 := by norm_num [yAxis, ex0, Rect.height, Rect.getMinY, Rect.getMaxY]
theorem exSz1 : (yAxis exRs 0 0).sz 1 = 2 := by norm_num [yAxis, ex1, Rect.height, Rect.getMinY, Rect.getMaxY]
theorem exOpn0 : (yAxis exRs 0 0).opn 0 = 0 := by norm_num [yAxis, ex0, Rect.getMinX]
theorem exOpn1 : (yAxis exRs 0 0).opn 1 = 1 := by norm_num [yAxis, ex1, Rect.getMinX]
theorem exCls0 : (yAxis exRs 0 0).cls 0 = 2 := by norm_num [yAxis, ex0, Rect.getMaxX]
theorem exCls1 : (yAxis exRs 0 0).cls 1 = 3 := by norm_num [yAxis, ex1, Rect.getMaxX]
theorem exLt01 : keyLt (yAxis exRs 0 0) id 0 1 = true := by simp [keyLt, exCtr0, exCtr1]
theorem exLt10 : keyLt (yAxis exRs 0 0) id 1 0 = false := by simp [keyLt, exCtr0, exCtr1]
theorem exLt00 : keyLt (yAxis exRs 0 0) id 0 0 = false := keyLt_irrefl _ _ _
theorem exLt11 : keyLt (yAxis exRs 0 0) id 1 1 = false := keyLt_irrefl _ _ _

theorem exCons : generateYConstraints exRs 0 0 id exEvs = [⟨0, 1, 2⟩] := by
  simp [generateYConstraints, exEvs, scanPtr, insertSorted, prevIn, nextIn, before, after, List.filter,
    exLt01, exLt10, exLt00, exLt11, PMap.set, gapOf, exSz0, exSz1]

theorem exSat : Sat exY (generateYConstraints exRs 0 0 id exEvs) := by
  rw [exCons]; intro c hc; simp at hc; subst hc; norm_num [exY]

theorem exValid : ValidOrder (yAxis exRs 0 0) exRs.size exEvs := by
  refine ⟨?_, by decide, ?_⟩
  · simp [exEvs, evLe, Ev.pos, exOpn0, exOpn1, exCls0, exCls1]; norm_num
  · rintro ⟨c, i⟩
    cases c <;> simp [exEvs, exRs] <;> omega

theorem exGood : ∀ i, i < exRs.size → 0 ≤ (yAxis exRs 0 0).sz i ∧ (yAxis exRs 0 0).opn i ≤ (yAxis exRs 0 0).cls i := by
  intro i hi
  have : i = 0 ∨ i = 1 := by simp [exRs] at hi; omega
  rcases this with rfl | rfl
  · norm_num [exSz0, exOpn0, exCls0]
  · norm_num [exSz1, exOpn1, exCls1]

theorem exMeet : ScanMeet (yAxis exRs 0 0) 0 1 := by
  norm_num [ScanMeet, exOpn0, exOpn1, exCls0, exCls1]

/-! x sweep of the same two squares -/
theorem exXCtr0 : (xAxis exRs 0 0).ctr 0 = 1 := by
  norm_num [xAxis, ex0, Rect.centreX, Rect.width, Rect.getMinX, Rect.getMaxX]
theorem exXCtr1 : (xAxis exRs 0 0).ctr 1 = 2 := by
  norm_num [xAxis, ex1, Rect.centreX, Rect.width, Rect.getMinX, Rect.getMaxX]
theorem exXSz0 : (xAxis exRs 0 0).sz 0 = 2 := by norm_num [xAxis, ex0, Rect.width, Rect.getMinX, Rect.getMaxX]
theorem exXSz1 : (xAxis exRs 0 0).sz 1 = 2 := by norm_num [xAxis, ex1, Rect.width, Rect.getMinX, Rect.getMaxX]
theorem exXOpn0 : (xAxis exRs 0 0).opn 0 = 0 := by norm_num [xAxis, ex0, Rect.getMinY]
theorem exXOpn1 : (xAxis exRs 0 0).opn 1 = 1 := by norm_num [xAxis, ex1, Rect.getMinY]
theorem exXCls0 : (xAxis exRs 0 0).cls 0 = 2 := by norm_num [xAxis, ex0, Rect.getMaxY]
theorem exXCls1 : (xAxis exRs 0 0).cls 1 = 3 := by norm_num [xAxis, ex1, Rect.getMaxY]
theorem exXLt01 : keyLt (xAxis exRs 0 0) id 0 1 = true := by simp [keyLt, exXCtr0, exXCtr1]
theorem exXLt10 : keyLt (xAxis exRs 0 0) id 1 0 = false := by simp [keyLt, exXCtr0, exXCtr1]
theorem exXLt00 : keyLt (xAxis exRs 0 0) id 0 0 = false := keyLt_irrefl _ _ _
theorem exXLt11 : keyLt (xAxis exRs 0 0) id 1 1 = false := keyLt_irrefl _ _ _

theorem exXCons : generateXConstraints exRs 0 0 id exEvs false = [⟨0, 1, 2⟩] := by
  simp [generateXConstraints, exEvs, scanPtr, insertSorted, prevIn, nextIn, before, after, List.filter,
    exXLt01, exXLt10, exXLt00, exXLt11, PMap.set, gapOf, exXSz0, exXSz1]

theorem exXSat : Sat exY (generateXConstraints exRs 0 0 id exEvs false) := by
  rw [exXCons]; intro c hc; simp at hc; subst hc; norm_num [exY]

theorem exXValid : ValidOrder (xAxis exRs 0 0) exRs.size exEvs := by
  refine ⟨?_, by decide, ?_⟩
  · simp [exEvs, evLe, Ev.pos, exXOpn0, exXOpn1, exXCls0, exXCls1]; norm_num
  · rintro ⟨c, i⟩
    cases c <;> simp [exEvs, exRs] <;> omega

theorem exXGood : ∀ i, i < exRs.size → 0 ≤ (xAxis exRs 0 0).sz i ∧ (xAxis exRs 0 0).opn i ≤ (xAxis exRs 0 0).cls i := by
  intro i hi
  have : i = 0 ∨ i = 1 := by simp [exRs] at hi; omega
  rcases this with rfl | rfl
  · norm_num [exXSz0, exXOpn0, exXCls0]
  · norm_num [exXSz1, exXOpn1, exXCls1]

theorem exXMeet : ScanMeet (xAxis exRs 0 0) 0 1 := by
  norm_num [ScanMeet, exXOpn0, exXOpn1, exXCls0, exXCls1]

/-- the separation certificate for the y sweep of the example: ordering witness = index,
    reachability bit sets {1} for node 0 and {} for node 1 -/
theorem exCert : sepCert (yAxis exRs 0 0) 2 [⟨0, 1, 2⟩] id #[2, 0] = true := by
  have h1 : (List.range 2) = [0, 1] := rfl
  simp [sepCert, acyclicBy, gapsCover, reachOK, pairsChained, succUnion, maskAt, scanMeet, h1,
    exSz0, exSz1, exOpn0, exOpn1, exCls0, exCls1]
  decide

end AdaptaVerif.Lemmas.Scanline.Example
