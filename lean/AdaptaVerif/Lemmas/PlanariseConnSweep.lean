/-
Threading the tail-tracking invariant `Tr` (Lemmas/PlanariseConn.lean) through one x-part and through the whole
sweep: `computeCrossings_reach`.
-/
import AdaptaVerif.Lemmas.PlanariseConn
namespace AdaptaVerif.Lemmas.Planarise
open AdaptaVerif.Model.Planarise

variable {S : List Seg} {st : SwState}

/-- where the end node of a horizontal's OPEN/SUSTAIN event can be: its own left end, or on a vertical already
swept (`P0`), or on a vertical of the current part after its SUSTAIN was handled -/
def ExH (S : List Seg) (P0 : Nat → Prop) (X : Rat) (pre : List Nat) (st : SwState) : Prop :=
  ∀ (i : Nat) (si : Seg) (e : Ev), S[i]? = some si → si.ori = .H → st.evs[2 * i]? = some e →
    e.endpt.p.x = si.lo ∨
    (∃ (k : Nat) (sk : Seg), S[k]? = some sk ∧ sk.ori = .V ∧ P0 (2 * k) ∧ e.endpt.p.x = sk.cc) ∨
    (∃ (k : Nat) (sk : Seg), S[k]? = some sk ∧ sk.ori = .V ∧ sk.cc = X ∧ e.endpt.p.x = X ∧ 2 * i ∈ pre)

structure J2 (S : List Seg) (P0 : Nat → Prop) (X : Rat) (pre : List Nat) (st : SwState) : Prop where
  tr : Tr S st
  ex : ExH S P0 X pre st

section
variable {P0 : Nat → Prop} {X : Rat} {pre : List Nat}

theorem ExH.mono {st' : SwState} (h : ExH S P0 X pre st) (x : Nat)
    (hev : ∀ (y : Nat) (e : Ev), st'.evs[y]? = some e → ∃ e0 : Ev, st.evs[y]? = some e0 ∧ e.endpt = e0.endpt) :
    ExH S P0 X (pre ++ [x]) st' := by
  intro i si e hs hH he
  obtain ⟨e0, h0, hend⟩ := hev _ _ he
  rw [hend]
  rcases h i si e0 hs hH h0 with a | a | ⟨k, sk, a, b, c, d, f⟩
  · exact Or.inl a
  · exact Or.inr (Or.inl a)
  · exact Or.inr (Or.inr ⟨k, sk, a, b, c, d, List.mem_append_left _ f⟩)

theorem J2.simple {st' : SwState} (h : J2 S P0 X pre st) (x : Nat) (h1 : st'.segs = st.segs)
    (h2 : st'.evs = st.evs) (h3 : st'.cross = st.cross) : J2 S P0 X (pre ++ [x]) st' :=
  ⟨h.tr.same h1 h2 h3, h.ex.mono x (fun y e hy => ⟨e, by rw [← h2]; exact hy, rfl⟩)⟩

theorem J2.setTy {st' : SwState} (h : J2 S P0 X pre st) (x : Nat) {y : Nat} {eo : Ev}
    (hy : st.evs[y]? = some eo) (ty : EvType) (h1 : st'.segs = st.segs)
    (h2 : st'.evs = st.evs.set y { eo with ty := ty }) (h3 : st'.cross = st.cross) :
    J2 S P0 X (pre ++ [x]) st' := by
  refine ⟨h.tr.setTy hy ty h1 h2 h3, h.ex.mono x ?_⟩
  intro z e hz
  rw [h2, List.getElem?_set] at hz
  split at hz
  · rename_i hyz; subst hyz
    split at hz
    · cases hz; exact ⟨eo, hy, rfl⟩
    · cases hz
  · exact ⟨e, hz, rfl⟩

end

theorem crossAt_even {P : Nat → Prop} (hI : Inv S P st) {i k : Nat} {si sk : Seg}
    (hsi : S[i]? = some si) (hHi : si.ori = .H) (hsk : S[k]? = some sk) (hVk : sk.ori = .V)
    {e ov : Ev} (he : st.evs[2 * i]? = some e) (hov : st.evs[2 * k]? = some ov) :
    ∀ (j : Nat) (ej : Ev), (crossAt st (2 * i) (2 * k) e ov).evs[2 * j]? = some ej →
      (j = k) ∨ (j = i ∧ ej.endpt.p.x = sk.cc) ∨ (j ≠ i ∧ j ≠ k ∧ st.evs[2 * j]? = some ej) := by
  obtain ⟨so, sv, ec, ec', hso, hsv, hne, h1, k1, h6, k6, h2, k2, h3, k3, heq⟩ :=
    cross_setup hI hsi hHi hsk hVk he hov
  rw [heq]
  intro j ej hj
  simp only at hj
  rw [List.getElem?_set] at hj
  split at hj
  · rename_i hkj; exact Or.inl (by omega)
  · rename_i hkj
    rw [List.getElem?_set] at hj
    split at hj
    · rename_i hij
      have : j = i := by omega
      split at hj
      · cases hj; exact Or.inr (Or.inl ⟨this, by simp only; exact k2⟩)
      · cases hj
    · rename_i hij
      rw [List.getElem?_set, if_neg (by rw [k3]; omega), List.getElem?_set, if_neg (by rw [h3]; omega)] at hj
      exact Or.inr (Or.inr ⟨by omega, by omega, hj⟩)

section
variable {P0 : Nat → Prop} {X : Rat} {part : List Nat} {st0 : SwState} {cross0 : List Pt}
  {pre post : List Nat}

theorem J2_sus (hG : Good S) (hC : PartCtx S P0 X part) (hI0 : Inv S P0 st0) {i : Nat} {si : Seg}
    (hsc : SC (akey st0.evs) pre post (2 * i) st0.openH part) (hs : S[i]? = some si) (hH : si.ori = .H)
    (hoh : 2 * i ∈ st0.openH) (hJ : J S P0 X part st0.openH cross0 pre st) (hJ2 : J2 S P0 X pre st) :
    J2 S P0 X (pre ++ [2 * i]) (processEvent st (2 * i)) := by
  obtain ⟨i', si', hs', hi', _, hp0, hnp1⟩ := (hI0.oh _).1 hoh
  have : i' = i := by omega
  subst this; rw [hs] at hs'; cases hs'
  have shi := hG.segH hs hH
  have hKi : akey st0.evs (2 * i') = si.cc + 1 / 4 := key_Hsus hG hI0 hs hH hp0
  have hne : ∀ k sk, S[k]? = some sk → sk.ori = .V → 2 * i' ≠ 2 * k ∧ 2 * i' ≠ 2 * k + 1 := by
    intro k sk hsk hV; have := H_not_V hs hH hsk hV; omega
  have hXhi : X ≤ si.hi := by
    have := fun h => hnp1 ((hC.hP0 i' si hs).2.2 h)
    rw [shi.2.2.2.2.1] at this; exact Rat.not_lt.1 this
  have hloX : si.lo < X := by
    have := (hC.hP0 i' si hs).1.1 hp0; rw [shi.2.2.2.1] at this; exact this
  obtain ⟨ev, hev, hpe⟩ := pe_sustain hJ.inv hs hH (Or.inl hp0)
  rw [hpe]
  cases hov : st.openV with
  | none => exact hJ2.simple (2 * i') rfl rfl rfl
  | some j =>
    obtain ⟨k, sk, hsk, hVk, hXk, rfl, hk_pre, hk1_npre⟩ := hJ.ov2 j hov
    obtain ⟨_, hc0, hc1, hk0, hk1, _, _⟩ := Vfacts hG hC hI0 hsk hVk hXk
    obtain ⟨ap1, ap2⟩ := apart_V_H hG hs hsk hH hVk
    have hpost : 2 * k + 1 ∈ post := by
      rcases (hsc.mem (2 * k + 1)).2 (Or.inr hc1) with r | r | r
      · exact absurd r hk1_npre
      · exact absurd r.symm (hne k sk hsk hVk).2
      · exact r
    have hhi : si.cc < sk.hi := by
      have := hsc.k2 _ hpost; rw [hKi, hk1] at this; unfold Apart at ap2; grind
    obtain ⟨ov, _, hovv, _⟩ := hJ.inv.ev k sk hsk
    simp only [hovv]
    have hlt : ev.endpt.p.x < si.hi := by
      rcases hJ2.ex i' si ev hs hH hev with a | ⟨k', sk', a, b, c, d⟩ | ⟨k', sk', a, b, c, d, f⟩
      · rw [a]; exact shi.2.2.2.2.2
      · have sv' := hG.segV a b
        have := (hC.hP0 k' sk' a).1.1 c
        rw [sv'.2.1] at this; rw [d]; grind
      · exact absurd f hsc.npre
    refine ⟨tr_cross hG hJ.inv hJ2.tr hs hH hsk hVk hev hovv hlt hhi, ?_⟩
    intro i2 si2 e2 hs2 hH2 he2
    rcases crossAt_even hJ.inv hs hH hsk hVk hev hovv i2 e2 he2 with a | ⟨a, b⟩ | ⟨a, b, c⟩
    · subst a; rw [hsk] at hs2; cases hs2; rw [hVk] at hH2; cases hH2
    · subst a
      exact Or.inr (Or.inr ⟨k, sk, hsk, hVk, hXk, by rw [b, hXk], by simp⟩)
    · rcases hJ2.ex i2 si2 e2 hs2 hH2 c with a | a | ⟨k', sk', a, b, c, d, f⟩
      · exact Or.inl a
      · exact Or.inr (Or.inl a)
      · exact Or.inr (Or.inr ⟨k', sk', a, b, c, d, List.mem_append_left _ f⟩)

end

section
variable {P0 : Nat → Prop} {X : Rat} {part : List Nat} {st0 : SwState} {cross0 : List Pt}
  {pre post : List Nat}

theorem J2_openH (hG : Good S) (hC : PartCtx S P0 X part) (hI0 : Inv S P0 st0) {i : Nat} {si : Seg}
    (hsc : SC (akey st0.evs) pre post (2 * i) st0.openH part) (hs : S[i]? = some si) (hH : si.ori = .H)
    (hin : 2 * i ∈ part) (hJ : J S P0 X part st0.openH cross0 pre st) (hJ2 : J2 S P0 X pre st) :
    J2 S P0 X (pre ++ [2 * i]) (processEvent st (2 * i)) := by
  have hX : si.on.p.x = X := (hC.hpart i si hs).1.1 hin
  have hnP0 : ¬ P0 (2 * i) := by rw [(hC.hP0 i si hs).1, hX]; exact Rat.lt_irrefl
  have hnP : ¬ (P0 (2 * i) ∨ (2 * i ∈ pre ∧ 2 * i ∈ part)) := by
    rintro (h | h)
    · exact hnP0 h
    · exact hsc.npre h.1
  obtain ⟨eo, heo, hpe⟩ := pe_openH hJ.inv hs hH hnP
  rw [hpe]
  exact hJ2.setTy (2 * i) heo .sustain rfl rfl rfl

theorem part_sweep2 (hG : Good S) (hC : PartCtx S P0 X part) (hnd : part.Nodup) (hI0 : Inv S P0 st0)
    (hT0 : Tr S st0) (hE0 : ExH S P0 X [] st0) :
    ∃ L, J2 S P0 X L (sweepPart st0 part) := by
  unfold sweepPart
  simp only
  generalize hL : stdSort (cmpEv st0.evs) (st0.openH ++ part) = L
  have hperm : L.Perm (st0.openH ++ part) := hL ▸ stdSort_perm _ _
  have hmem : ∀ x, x ∈ L ↔ x ∈ st0.openH ∨ x ∈ part := fun x => by rw [hperm.mem_iff, List.mem_append]
  have hdisj : ∀ x, x ∈ st0.openH → x ∉ part := by
    intro x hx hp
    obtain ⟨i, s, hs, rfl, _, hp0, _⟩ := (hI0.oh _).1 hx
    have h1 := (hC.hpart i s hs).1.1 hp
    have h2 := (hC.hP0 i s hs).1.1 hp0
    rw [h1] at h2; exact Rat.lt_irrefl h2
  have hLnd : L.Nodup := by
    rw [hperm.nodup_iff, List.nodup_append]
    refine ⟨hI0.ohs.imp (fun h => Nat.ne_of_lt h), hnd, ?_⟩
    intro a ha b hb hab; subst hab; exact hdisj a ha hb
  have hsorted : L.Pairwise (fun a b => akey st0.evs a ≤ akey st0.evs b) := by
    rw [← hL]
    apply stdSort_sorted_key
    intro a ha b hb
    obtain ⟨ea, sa, hea, hsa, hya⟩ := snap_y hG hC hI0 (List.mem_append.1 ha)
    obtain ⟨eb, sb, heb, hsb, hyb⟩ := snap_y hG hC hI0 (List.mem_append.1 hb)
    refine cmpEv_key _ a b ea eb hea heb ?_
    rcases hya with h | h <;> rcases hyb with h' | h' <;> rw [h, h'] <;>
      exact hG.sepY sa hsa sb hsb _ (by simp) _ (by simp)
  -- the state before the first event
  have hI1 : Inv S P0 { st0 with openV := none } :=
    hI0.transfer rfl rfl (fun _ => Iff.rfl) hI0.oh hI0.ohs
  have hJ0 : J S P0 X part st0.openH (st0.cross.map (·.p)) [] { st0 with openV := none } := by
    refine ⟨hI1.congr (fun x => by simp), ?_, ?_, ?_⟩
    · intro k sk _ _ _ h; simp at h
    · intro j hj; simp at hj
    · intro p; simp
  -- induction along the sorted list
  have hJ20 : J2 S P0 X [] { st0 with openV := none } :=
    ⟨hT0.same rfl rfl rfl, fun i si e hs hH he => hE0 i si e hs hH he⟩
  have key : ∀ (post pre : List Nat) (st : SwState), pre ++ post = L →
      J S P0 X part st0.openH (st0.cross.map (·.p)) pre st ∧ J2 S P0 X pre st →
      J S P0 X part st0.openH (st0.cross.map (·.p)) L (post.foldl processEvent st) ∧
      J2 S P0 X L (post.foldl processEvent st) := by
    intro post
    induction post with
    | nil => intro pre st h hJ; simp at h; subst h; simpa using hJ
    | cons e post ih =>
      intro pre st h hJJ
      obtain ⟨hJ, hJ2⟩ := hJJ
      rw [List.foldl_cons]
      refine ih (pre ++ [e]) _ (by simp [h]) ?_
      -- position facts
      have hnd' := hLnd; rw [← h] at hnd'
      have hso := hsorted; rw [← h] at hso
      rw [List.nodup_append] at hnd'
      rw [List.pairwise_append] at hso
      have hnc := List.nodup_cons.1 hnd'.2.1
      have hsc : SC (akey st0.evs) pre post e st0.openH part := by
        refine ⟨?_, ?_, hnc.1, ?_, ?_, ?_, ?_⟩
        · intro x; rw [← hmem, ← h]; simp
        · intro hp; exact hnd'.2.2 e hp e (by simp) rfl
        · intro x hx hx'; exact hnd'.2.2 x hx x (by simp [hx']) rfl
        · intro a ha; exact hso.2.2 a ha e (by simp)
        · intro b hb; exact (List.pairwise_cons.1 hso.2.1).1 b hb
        · intro a ha b hb; exact hso.2.2 a ha b (by simp [hb])
      have heL : e ∈ st0.openH ∨ e ∈ part := (hmem e).1 (by rw [← h]; simp)
      rcases heL with he | he
      · obtain ⟨i, s, hs, rfl, hH, hp0, _⟩ := (hI0.oh _).1 he
        exact ⟨J_sus hG hC hI0 hsc hs hH he hp0 hJ, J2_sus hG hC hI0 hsc hs hH he hJ hJ2⟩
      · have hlt := hC.hlt e he
        have hj : e / 2 < S.length := by omega
        have hs : S[e / 2]? = some S[e / 2] := List.getElem?_eq_getElem hj
        rcases Nat.mod_two_eq_zero_or_one e with hpar | hpar
        · have he2 : e = 2 * (e / 2) := by omega
          rw [he2] at hsc he ⊢
          rcases hG.shape _ (List.getElem_mem hj) with sh | sv
          · exact ⟨J_openH hG hC hI0 hsc hs sh.1 he hJ, J2_openH hG hC hI0 hsc hs sh.1 he hJ hJ2⟩
          · exact ⟨J_openV hG hC hI0 hsc hs sv.1 he hJ, by rw [pe_openV hJ.inv hs sv.1]; exact hJ2.simple _ rfl rfl rfl⟩
        · have he2 : e = 2 * (e / 2) + 1 := by omega
          rw [he2] at hsc he ⊢
          rcases hG.shape _ (List.getElem_mem hj) with sh | sv
          · exact ⟨J_closeH hG hC hI0 hsc hs sh.1 he hJ, by rw [pe_close hJ.inv hs, if_pos sh.1]; exact hJ2.simple _ rfl rfl rfl⟩
          · exact ⟨J_closeV hG hC hI0 hsc hs sv.1 he hJ, by rw [pe_close hJ.inv hs, if_neg (by rw [sv.1]; simp)]; exact hJ2.simple _ rfl rfl rfl⟩
  exact ⟨L, (key L [] _ (by simp) ⟨hJ0, hJ20⟩).2⟩


end

section
theorem sweep_parts2 (hG : Good S) (ps : List (List Nat))
    (hflat : ∀ e, e ∈ ps.flatten ↔ e < 2 * S.length) (hflatnd : ps.flatten.Nodup)
    (hconst : ∀ q ∈ ps, q ≠ [] ∧ ∃ X, ∀ a ∈ q, evX (mkEvents 0 S) a = X)
    (hinc : ps.Pairwise (fun q r => ∀ a ∈ q, ∀ b ∈ r, evX (mkEvents 0 S) a < evX (mkEvents 0 S) b)) :
    ∀ (rest done : List (List Nat)) (st : SwState), done ++ rest = ps →
      Inv S (fun x => x ∈ done.flatten) st → (∀ p, p ∈ st.cross.map (·.p) ↔ CrossSpec S done.flatten p) →
      Tr S st → ExH S (fun x => x ∈ done.flatten) 0 [] st →
      Tr S (rest.foldl sweepPart st) := by
  intro rest
  induction rest with
  | nil => intro done st h hI hc hT hE; simpa using hT
  | cons part rest ih =>
    intro done st h hI hc hT hE
    rw [List.foldl_cons]
    have hpm : part ∈ ps := by rw [← h]; simp
    obtain ⟨hne, X, hX⟩ := hconst part hpm
    obtain ⟨b0, hb0⟩ := List.exists_mem_of_ne_nil part hne
    have hinc' := hinc; rw [← h, List.pairwise_append] at hinc'
    have hpr := List.pairwise_cons.1 hinc'.2.1
    -- where an event lies relative to X
    have loc : ∀ e, e < 2 * S.length →
        (e ∈ done.flatten ↔ evX (mkEvents 0 S) e < X) ∧ (e ∈ part ↔ evX (mkEvents 0 S) e = X) := by
      intro e he
      have hin : e ∈ done.flatten ∨ e ∈ part ∨ e ∈ rest.flatten := by
        have := (hflat e).2 he; rw [← h] at this; simpa using this
      have hd : e ∈ done.flatten → evX (mkEvents 0 S) e < X := by
        intro hd; obtain ⟨q, hq, heq⟩ := List.mem_flatten.1 hd
        have := hinc'.2.2 q hq part (by simp) e heq b0 hb0; rw [hX b0 hb0] at this; exact this
      have hr : e ∈ rest.flatten → X < evX (mkEvents 0 S) e := by
        intro hd; obtain ⟨q, hq, heq⟩ := List.mem_flatten.1 hd
        have := hpr.1 q hq b0 hb0 e heq; rw [hX b0 hb0] at this; exact this
      have hp : e ∈ part → evX (mkEvents 0 S) e = X := hX e
      constructor
      · refine ⟨hd, fun hlt => ?_⟩
        rcases hin with h1 | h1 | h1
        · exact h1
        · have := hp h1; grind
        · have := hr h1; grind
      · refine ⟨hp, fun heq => ?_⟩
        rcases hin with h1 | h1 | h1
        · have := hd h1; grind
        · exact h1
        · have := hr h1; grind
    have hlen : ∀ i s, S[i]? = some s → 2 * i < 2 * S.length ∧ 2 * i + 1 < 2 * S.length := by
      intro i s hs; obtain ⟨hi, _⟩ := List.getElem?_eq_some_iff.1 hs; omega
    have hC : PartCtx S (fun x => x ∈ done.flatten) X part := by
      refine ⟨?_, ?_, ?_⟩
      · intro i s hs
        have l0 := (loc _ (hlen i s hs).1).1; have l1 := (loc _ (hlen i s hs).2).1
        rw [evX_even hs] at l0; rw [evX_odd hs] at l1; exact ⟨l0, l1⟩
      · intro i s hs
        have l0 := (loc _ (hlen i s hs).1).2; have l1 := (loc _ (hlen i s hs).2).2
        rw [evX_even hs] at l0; rw [evX_odd hs] at l1; exact ⟨l0, l1⟩
      · intro e he; exact (hflat e).1 (by rw [← h]; simp [he])
    have hnd : part.Nodup := hflatnd.sublist (List.sublist_flatten_of_mem hpm)
    obtain ⟨hI', hc'⟩ := part_sweep hG hC hnd hI
    have hE' : ExH S (fun x => x ∈ done.flatten) X [] st := by
      intro i si e hs hH he
      rcases hE i si e hs hH he with a | a | ⟨_, _, _, _, _, _, f⟩
      · exact Or.inl a
      · exact Or.inr (Or.inl a)
      · simp at f
    obtain ⟨L, hJ2⟩ := part_sweep2 hG hC hnd hI hT hE'
    refine ih (done ++ [part]) _ (by simp [h]) (hI'.congr (fun x => by simp)) ?_ hJ2.tr ?_
    rotate_left
    · intro i si e hs hH he
      rcases hJ2.ex i si e hs hH he with a | ⟨k, sk, a, b, c, d⟩ | ⟨k, sk, a, b, c, d, _⟩
      · exact Or.inl a
      · exact Or.inr (Or.inl ⟨k, sk, a, b, by simp [c], d⟩)
      · have sv := hG.segV a b
        have := (hC.hpart k sk a).1.2 (by rw [sv.2.1, c])
        exact Or.inr (Or.inl ⟨k, sk, a, b, by simp [this], by rw [d, c]⟩)
    intro p
    rw [hc', hc]
    unfold CrossSpec
    constructor
    · rintro (⟨i, k, si, sk, a, b, c, d, f, rest⟩ | ⟨i, k, si, sk, a, b, c, d, f, g, l1, l2, rfl⟩)
      · exact ⟨i, k, si, sk, a, b, c, d, by simp [f], rest⟩
      · have sh := hG.segH a c
        have sv := hG.segV b d
        obtain ⟨j, t, ht, hj, _, hp1, hp2⟩ := (hI.oh _).1 g
        have : j = i := by omega
        subst this; rw [a] at ht; cases ht
        have q1 := (hC.hP0 j si a).1.1 hp1
        have q2 := fun hlt => hp2 ((hC.hP0 j si a).2.2 hlt)
        rw [sh.2.2.2.1] at q1; rw [sh.2.2.2.2.1] at q2
        refine ⟨j, k, si, sk, a, b, c, d, ?_, by rw [f]; exact q1, by rw [f]; exact Rat.not_lt.1 q2, l1, l2, by rw [f]⟩
        have := (hC.hpart k sk b).1.2 (by rw [sv.2.1, f])
        simp [this]
    · rintro ⟨i, k, si, sk, a, b, c, d, f, g1, g2, l1, l2, rfl⟩
      have sh := hG.segH a c
      have sv := hG.segV b d
      have f' : 2 * k ∈ done.flatten ∨ 2 * k ∈ part := by simpa using f
      rcases f' with f' | f'
      · exact Or.inl ⟨i, k, si, sk, a, b, c, d, f', g1, g2, l1, l2, rfl⟩
      · right
        have hXk : sk.cc = X := by rw [← sv.2.1]; exact (hC.hpart k sk b).1.1 f'
        refine ⟨i, k, si, sk, a, b, c, d, hXk, ?_, l1, l2, by rw [hXk]⟩
        refine (hI.oh _).2 ⟨i, si, a, rfl, c, ?_, ?_⟩
        · exact (hC.hP0 i si a).1.2 (by rw [sh.2.2.2.1, ← hXk]; exact g1)
        · intro hh; have := (hC.hP0 i si a).2.1 hh
          rw [sh.2.2.2.2.1, ← hXk] at this; grind


/-- after the whole sweep every original segment is still connected end to end through crossing nodes only -/
theorem computeCrossings_reach (hG : Good S) (nid : Nat) :
    ∀ (i : Nat) (s : Seg), S[i]? = some s →
      Reach (computeCrossings S nid).segs (computeCrossings S nid).cross s.on s.cn := by
  unfold computeCrossings xParts
  simp only
  have hlen := mkEvents_length S 0
  obtain ⟨hperm, hconst, hinc⟩ := partition_spec (evX (mkEvents 0 S)) tolX tolX_nonneg tolX_lt_one
    (List.range (mkEvents 0 S).length)
    (by intro a ha b hb
        rw [List.mem_range, hlen] at ha hb
        exact evX_apart hG ha hb)
  have hflat : ∀ e, e ∈ (partition (evX (mkEvents 0 S)) tolX (List.range (mkEvents 0 S).length)).flatten ↔
      e < 2 * S.length := by
    intro e; rw [hperm.mem_iff, List.mem_range, hlen]
  have hnd : (partition (evX (mkEvents 0 S)) tolX (List.range (mkEvents 0 S).length)).flatten.Nodup := by
    rw [hperm.nodup_iff]; exact List.nodup_range
  have hT0 : Tr S { segs := S, evs := mkEvents 0 S, nextId := nid } := by
    refine ⟨?_, ?_, ?_, ?_⟩
    · intro i s hs
      exact Reach.edge ⟨s, List.mem_of_getElem? hs, Or.inl ⟨rfl, rfl⟩⟩
    · intro i j ei ej hi hj hseg
      simp only at hi hj
      have li : i < S.length := by have := (List.getElem?_eq_some_iff.1 hi).1; rw [hlen] at this; omega
      have lj : j < S.length := by have := (List.getElem?_eq_some_iff.1 hj).1; rw [hlen] at this; omega
      have gi := (mkEvents_get S 0 i _ (List.getElem?_eq_getElem li)).1
      have gj := (mkEvents_get S 0 j _ (List.getElem?_eq_getElem lj)).1
      rw [hi] at gi; rw [hj] at gj; cases gi; cases gj
      simpa [mkEv] using hseg
    · intro k sk ov hs hV ho
      simp only at ho ⊢
      have g := (mkEvents_get S 0 k sk hs).1
      rw [ho] at g; cases g
      have sv := hG.segV hs hV
      refine ⟨by simp [mkEv, sv.2.2.2.1]; exact sv.2.2.2.2.2, sk, by simp [mkEv, hs], rfl⟩
    · intro i si e hs hH he _
      simp only at he ⊢
      have g := (mkEvents_get S 0 i si hs).1
      rw [he] at g; cases g
      exact ⟨si, by simp [mkEv, hs], rfl⟩
  have hE0 : ExH S (fun x => x ∈ ([] : List (List Nat)).flatten) 0 [] { segs := S, evs := mkEvents 0 S, nextId := nid } := by
    intro i si e hs hH he
    simp only at he
    have g := (mkEvents_get S 0 i si hs).1
    rw [he] at g; cases g
    have sh := hG.segH hs hH
    exact Or.inl (by simp [mkEv, sh.2.2.2.1])
  exact (sweep_parts2 hG _ hflat hnd hconst hinc
    (partition (evX (mkEvents 0 S)) tolX (List.range (mkEvents 0 S).length)) []
    { segs := S, evs := mkEvents 0 S, nextId := nid } (by simp)
    ((init_inv hG nid).congr (fun x => by simp)) (by intro p; simp [CrossSpec]) hT0 hE0).reach

end


end AdaptaVerif.Lemmas.Planarise
