/-
Lemmas about the scan-line part of `Model/NudgeSegs.lean` (`buildOrthogonalChannelInfo`): every bound the sweep
applies is a side of a scan obstacle that lies on that side of the segment and whose extent meets the segment's
extent; the sweep only tightens limits, never past the segment's position; fixed segments keep `[pos, pos]`.
-/
import AdaptaVerif.Lemmas.NudgeSegs
namespace AdaptaVerif.Lemmas.NudgeSegsChannel
open AdaptaVerif.Model AdaptaVerif.Model.NudgeSegs AdaptaVerif.Model.NudgeRegion AdaptaVerif.Lemmas.NudgeSegs

/-- the near side reported by `firstBelow` belongs to an obstacle of the active set lying at or after `p` -/
theorem firstBelow_spec (tie : Bool) (act : List SO) (p v : Rat) (h : firstBelow tie act p = some v) :
    ∃ o ∈ act, p ≤ o.mn ∧ p < o.mid ∧ v = o.mn := by
  unfold firstBelow at h
  have inv : ∀ (l : List SO) (best : Option (Rat × Rat)),
      (∀ b, best = some b → ∃ o ∈ act, p ≤ o.mn ∧ p < o.mid ∧ b.2 = o.mn) →
      (∀ o ∈ l, o ∈ act ∧ p ≤ o.mn ∧ p < o.mid) →
      ∀ b, (l.foldl (fun (best : Option (Rat × Rat)) o =>
        match best with
        | none => some (o.mid, o.mn)
        | some (m, v) => if o.mid < m then some (o.mid, o.mn)
                         else if m = o.mid then some (m, if tie then max v o.mn else min v o.mn) else some (m, v)) best) = some b →
        ∃ o ∈ act, p ≤ o.mn ∧ p < o.mid ∧ b.2 = o.mn := by
    intro l
    induction l with
    | nil => intro best hb _ b hfb; exact hb b (by simpa using hfb)
    | cons x xs ih =>
      intro best hb hl b hfb
      simp only [List.foldl_cons] at hfb
      have hx := hl x (by simp)
      refine ih _ ?_ (fun o ho => hl o (by simp [ho])) b hfb
      intro b' hb'
      cases best with
      | none => simp at hb'; subst hb'; exact ⟨x, hx.1, hx.2.1, hx.2.2, rfl⟩
      | some mv =>
        obtain ⟨m, v⟩ := mv
        obtain ⟨o, ho, h1, h2, h3⟩ := hb (m, v) rfl
        simp only at hb'
        split at hb'
        · simp at hb'; subst hb'; exact ⟨x, hx.1, hx.2.1, hx.2.2, rfl⟩
        · split at hb'
          · simp at hb'; subst hb'
            cases tie
            · simp only [Bool.false_eq_true, if_false]
              by_cases hle : v ≤ x.mn
              · exact ⟨o, ho, h1, h2, by simp at h3; grind⟩
              · exact ⟨x, hx.1, hx.2.1, hx.2.2, by grind⟩
            · simp only [if_true]
              by_cases hle : v ≤ x.mn
              · exact ⟨x, hx.1, hx.2.1, hx.2.2, by grind⟩
              · exact ⟨o, ho, h1, h2, by simp at h3; grind⟩
          · simp at hb'; subst hb'; exact ⟨o, ho, h1, h2, h3⟩
  cases hf : (List.foldl _ none (act.filter (fun o => decide (p < o.mid) && decide (p ≤ o.mn)))) with
  | none => rw [hf] at h; simp at h
  | some b =>
    rw [hf] at h; simp at h
    obtain ⟨o, ho, h1, h2, h3⟩ := inv _ none (by simp) (by
      intro o ho
      simp only [List.mem_filter, Bool.and_eq_true, decide_eq_true_eq] at ho
      exact ⟨ho.1, ho.2.2, ho.2.1⟩) b hf
    exact ⟨o, ho, h1, h2, by rw [← h, h3]⟩

/-- every lower bound of the sweep is the far side of a scan obstacle lying at or before the segment whose extent
    (closed) meets the segment's extent; `hwf`: the obstacles are boxes (min ≤ max in the other dimension) -/
theorem scanMinBounds_sound (tie : Bool) (so : List SO) (p lo hi : Rat) (hlh : lo ≤ hi) (hwf : ∀ o ∈ so, o.amin ≤ o.amax) :
    ∀ x ∈ scanMinBounds tie so p lo hi, ∃ o ∈ so, x = o.mx ∧ o.mx ≤ p ∧ o.amin ≤ hi ∧ lo ≤ o.amax := by
  intro x hx
  simp only [scanMinBounds, List.mem_append, Option.mem_toList, List.mem_map, List.mem_filter, Bool.and_eq_true,
    decide_eq_true_eq] at hx
  rcases hx with ((h | h) | h) | h
  · obtain ⟨o, ho, h1, _, h3⟩ := firstAbove_spec tie _ p x (by simpa using h)
    simp only [List.mem_filter, act4, Bool.and_eq_true, decide_eq_true_eq] at ho
    exact ⟨o, ho.1, h3, h1, by grind, by grind⟩
  · obtain ⟨o, ho, h1, _, h3⟩ := firstAbove_spec tie _ p x (by simpa using h)
    simp only [List.mem_filter, act1, Bool.and_eq_true, decide_eq_true_eq] at ho
    exact ⟨o, ho.1, h3, h1, by grind, by grind⟩
  · obtain ⟨v, ⟨hv, ⟨⟨h1, h2⟩, h3⟩⟩, rfl⟩ := h
    simp only [reachedBelow, Bool.and_eq_true, decide_eq_true_eq] at h3
    have := hwf v hv
    exact ⟨v, hv, rfl, h3.1, by grind, by grind⟩
  · obtain ⟨v, ⟨hv, ⟨⟨h1, h2⟩, h3⟩⟩, rfl⟩ := h
    simp only [reachedBelow, Bool.and_eq_true, decide_eq_true_eq] at h3
    have := hwf v hv
    exact ⟨v, hv, rfl, h3.1, by grind, by grind⟩

theorem scanMaxBounds_sound (tie : Bool) (so : List SO) (p lo hi : Rat) (hlh : lo ≤ hi) (hwf : ∀ o ∈ so, o.amin ≤ o.amax) :
    ∀ x ∈ scanMaxBounds tie so p lo hi, ∃ o ∈ so, x = o.mn ∧ p ≤ o.mn ∧ o.amin ≤ hi ∧ lo ≤ o.amax := by
  intro x hx
  simp only [scanMaxBounds, List.mem_append, Option.mem_toList, List.mem_map, List.mem_filter, Bool.and_eq_true,
    decide_eq_true_eq] at hx
  rcases hx with ((h | h) | h) | h
  · obtain ⟨o, ho, h1, _, h3⟩ := firstBelow_spec tie _ p x (by simpa using h)
    simp only [List.mem_filter, act4, Bool.and_eq_true, decide_eq_true_eq] at ho
    exact ⟨o, ho.1, h3, h1, by grind, by grind⟩
  · obtain ⟨o, ho, h1, _, h3⟩ := firstBelow_spec tie _ p x (by simpa using h)
    simp only [List.mem_filter, act1, Bool.and_eq_true, decide_eq_true_eq] at ho
    exact ⟨o, ho.1, h3, h1, by grind, by grind⟩
  · obtain ⟨v, ⟨hv, ⟨⟨h1, h2⟩, h3⟩⟩, rfl⟩ := h
    simp only [reachedAbove, Bool.and_eq_true, decide_eq_true_eq] at h3
    have := hwf v hv
    exact ⟨v, hv, rfl, h3.1, by grind, by grind⟩
  · obtain ⟨v, ⟨hv, ⟨⟨h1, h2⟩, h3⟩⟩, rfl⟩ := h
    simp only [reachedAbove, Bool.and_eq_true, decide_eq_true_eq] at h3
    have := hwf v hv
    exact ⟨v, hv, rfl, h3.1, by grind, by grind⟩

/-- the sweep only tightens -/
theorem withChannel_tightens (tie : Bool) (so : List SO) (s : MSeg) :
    s.seg.minLim ≤ (withChannel tie so s).seg.minLim ∧ (withChannel tie so s).seg.maxLim ≤ s.seg.maxLim := by
  simp only [withChannel]
  exact ⟨le_foldl_max _ _, foldl_min_le _ _⟩

/-- … and never past the segment's position (no well-formedness of the obstacles needed) -/
theorem withChannel_contains_pos (tie : Bool) (so : List SO) (s : MSeg)
    (h : s.seg.minLim ≤ s.seg.pos ∧ s.seg.pos ≤ s.seg.maxLim) :
    (withChannel tie so s).seg.minLim ≤ (withChannel tie so s).seg.pos ∧
      (withChannel tie so s).seg.pos ≤ (withChannel tie so s).seg.maxLim := by
  simp only [withChannel]
  constructor
  · apply foldl_max_le _ _ _ h.1
    intro x hx
    simp only [scanMinBounds, List.mem_append, Option.mem_toList, List.mem_map, List.mem_filter, Bool.and_eq_true,
      decide_eq_true_eq] at hx
    rcases hx with ((h | h) | h) | h
    · obtain ⟨o, _, h1, _, h3⟩ := firstAbove_spec tie _ _ x (by simpa using h); rw [h3]; exact h1
    · obtain ⟨o, _, h1, _, h3⟩ := firstAbove_spec tie _ _ x (by simpa using h); rw [h3]; exact h1
    · obtain ⟨v, ⟨_, ⟨_, h3⟩⟩, rfl⟩ := h
      simp only [reachedBelow, Bool.and_eq_true, decide_eq_true_eq] at h3; exact h3.1
    · obtain ⟨v, ⟨_, ⟨_, h3⟩⟩, rfl⟩ := h
      simp only [reachedBelow, Bool.and_eq_true, decide_eq_true_eq] at h3; exact h3.1
  · apply le_foldl_min _ _ _ h.2
    intro x hx
    simp only [scanMaxBounds, List.mem_append, Option.mem_toList, List.mem_map, List.mem_filter, Bool.and_eq_true,
      decide_eq_true_eq] at hx
    rcases hx with ((h | h) | h) | h
    · obtain ⟨o, _, h1, _, h3⟩ := firstBelow_spec tie _ _ x (by simpa using h); rw [h3]; exact h1
    · obtain ⟨o, _, h1, _, h3⟩ := firstBelow_spec tie _ _ x (by simpa using h); rw [h3]; exact h1
    · obtain ⟨v, ⟨_, ⟨_, h3⟩⟩, rfl⟩ := h
      simp only [reachedAbove, Bool.and_eq_true, decide_eq_true_eq] at h3; exact h3.1
    · obtain ⟨v, ⟨_, ⟨_, h3⟩⟩, rfl⟩ := h
      simp only [reachedAbove, Bool.and_eq_true, decide_eq_true_eq] at h3; exact h3.1

/-- a segment without room (a fixed one) keeps `[pos, pos]` -/
theorem withChannel_fixed (tie : Bool) (so : List SO) (s : MSeg) (h : s.seg.minLim = s.seg.pos ∧ s.seg.maxLim = s.seg.pos) :
    (withChannel tie so s).seg.minLim = s.seg.pos ∧ (withChannel tie so s).seg.maxLim = s.seg.pos := by
  have t := withChannel_tightens tie so s
  have c := withChannel_contains_pos tie so s ⟨by rw [h.1]; exact Rat.le_refl, by rw [h.2]; exact Rat.le_refl⟩
  have hp : (withChannel tie so s).seg.pos = s.seg.pos := rfl
  rw [hp] at c
  constructor <;> grind

/-- the sweep changes nothing but the two limits -/
theorem withChannel_rest (tie : Bool) (so : List SO) (s : MSeg) :
    (withChannel tie so s).idxLow = s.idxLow ∧ (withChannel tie so s).idxHigh = s.idxHigh ∧
    { (withChannel tie so s).seg with minLim := s.seg.minLim, maxLim := s.seg.maxLim } = s.seg := by
  simp [withChannel]

end AdaptaVerif.Lemmas.NudgeSegsChannel
